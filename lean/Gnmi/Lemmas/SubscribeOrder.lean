import Gnmi.Lemmas.SubscribeSync
/-!
# Order of deliveries: what precedes the sync response
-/
namespace Gnmi
namespace SubLTS
set_option linter.unusedSimpArgs false
set_option linter.unusedSectionVars false
set_option linter.unnecessarySimpa false

section
variable {K V T R : Type} [DecidableEq K] [DecidableEq R]

/-- what a delivery is, as far as the position of the sync is concerned -/
inductive Lab (K : Type) where
  | upd (k : K)
  | sync
  | other
deriving DecidableEq, Repr

def labI : Item K R → Lab K
  | .handle k _ => .upd k
  | .syncMarker => .sync
  | _ => .other

def labR : Resp K V R → Lab K
  | .upd k _ _ => .upd k
  | .sync => .sync
  | _ => .other

def sndLabs : Snd K V R → List (Lab K)
  | .got i _ => [labI i]
  | .sendSync => [.sync]
  | .sending r => [labR r]
  | _ => []

/-- everything delivered, being delivered and pending, in delivery order -/
def labs (b : Sub K V R) : List (Lab K) := b.sent.map labR ++ sndLabs b.snd ++ b.items.map labI

/-- an `x` occurs, and no `y` occurs before the first `x` -/
def before (x y : Lab K) : List (Lab K) → Bool
  | [] => false
  | a :: l => if a = x then true else if a = y then false else before x y l

theorem before_append_right {x y : Lab K} {l : List (Lab K)} (m : List (Lab K))
    (h : before x y l = true) : before x y (l ++ m) = true := by
  induction l with
  | nil => cases h
  | cons a l ih =>
    simp only [List.cons_append, before] at h ⊢
    split
    · rfl
    · next hx =>
      simp only [hx, if_false] at h
      split
      · next hy => simp [hy] at h
      · next hy => simp only [hy, if_false] at h; exact ih h

theorem before_of_mem {x y : Lab K} {l : List (Lab K)} (hx : x ∈ l) (hy : y ∉ l) :
    before x y l = true := by
  induction l with
  | nil => cases hx
  | cons a l ih =>
    simp only [before]
    split
    · rfl
    · next hax =>
      have hay : a ≠ y := fun e => hy (e ▸ List.mem_cons_self ..)
      simp only [hay, if_false]
      rcases List.mem_cons.1 hx with e | hx
      · exact absurd e.symm hax
      · exact ih hx (fun h => hy (List.mem_cons_of_mem _ h))

theorem before_remove {x y z : Lab K} (pre post : List (Lab K)) (hz : z ≠ x)
    (h : before x y (pre ++ z :: post) = true) : before x y (pre ++ post) = true := by
  induction pre with
  | nil =>
    simp only [List.nil_append, before, hz, if_false] at h
    split at h
    · cases h
    · exact h
  | cons a l ih =>
    simp only [List.cons_append, before] at h ⊢
    split
    · rfl
    · next hx =>
      simp only [hx, if_false] at h
      split
      · next hy => simp [hy] at h
      · next hy => simp only [hy, if_false] at h; exact ih h

theorem before_left {x y : Lab K} {l1 : List (Lab K)} (l2 : List (Lab K))
    (h : before x y (l1 ++ l2) = true) (hy : y ∈ l1) : before x y l1 = true := by
  induction l1 with
  | nil => cases hy
  | cons a l ih =>
    simp only [List.cons_append, before] at h ⊢
    split
    · rfl
    · next hx =>
      simp only [hx, if_false] at h
      split
      · next hay => simp [hay] at h
      · next hay =>
        simp only [hay, if_false] at h
        rcases List.mem_cons.1 hy with e | hy
        · exact absurd e.symm hay
        · exact ih h hy

/-- `before` in words: the list splits at an `x` with no `y` in front of it -/
theorem before_iff {x y : Lab K} (hxy : x ≠ y) (l : List (Lab K)) :
    before x y l = true ↔ ∃ pre post, l = pre ++ x :: post ∧ y ∉ pre ∧ x ∉ pre := by
  induction l with
  | nil => simp [before]
  | cons a l ih =>
    simp only [before]
    constructor
    · intro h
      split at h
      · next e => exact ⟨[], l, by simp [e], by simp, by simp⟩
      · next hx =>
        split at h
        · cases h
        · next hy =>
          obtain ⟨pre, post, e, h1, h2⟩ := ih.1 h
          refine ⟨a :: pre, post, by simp [e], ?_, ?_⟩
          · simp only [List.mem_cons, not_or]; exact ⟨fun e => hy e.symm, h1⟩
          · simp only [List.mem_cons, not_or]; exact ⟨fun e => hx e.symm, h2⟩
    · rintro ⟨pre, post, e, h1, h2⟩
      cases pre with
      | nil => simp at e; simp [e.1]
      | cons p pre =>
        simp only [List.cons_append, List.cons.injEq] at e
        obtain ⟨rfl, rfl⟩ := e
        simp only [List.mem_cons, not_or] at h1 h2
        have hx : ¬ a = x := fun e => h2.1 e.symm
        have hy : ¬ a = y := fun e => h1.1 e.symm
        simp only [hx, hy, if_false]
        exact ih.2 ⟨pre, post, rfl, h1.2, h2.2⟩

theorem labs_congr {b b' : Sub K V R} (h1 : b'.sent = b.sent) (h2 : b'.snd = b.snd) (h3 : b'.q = b.q) :
    labs b' = labs b := by
  unfold labs Sub.items; rw [h1, h2, h3]

theorem labs_ins (b : Sub K V R) (i : Item K R) :
    labs (b.ins i) = labs b ∨ (labs (b.ins i) = labs b ++ [labI i] ∧ b.closed = false) := by
  unfold labs
  rw [ins_sent, ins_snd]
  rcases ins_items b i with e | ⟨e, hc, _⟩
  · rw [e]; exact Or.inl rfl
  · rw [e]; exact Or.inr ⟨by simp, hc⟩

theorem labI_mem_labs_ins (b : Sub K V R) (i : Item K R) (hc : b.closed = false) :
    labI i ∈ labs (b.ins i) := by
  unfold labs
  rcases ins_items_open b i hc with ⟨_, hm, e⟩ | ⟨_, e⟩
  · rw [e]; exact List.mem_append_right _ (List.mem_map_of_mem hm)
  · rw [e]; simp

theorem mkResp_lab {sys : Sys K T R} {sh : Shared K V T R} {d : Nat} {i : Item K R}
    {r : Resp K V R} {t : T} (h : mkResp sys sh d i = some (r, t)) : labR r = labI i := by
  cases i <;> simp only [mkResp, Option.some.injEq, Prod.mk.injEq] at h
  all_goals first | (obtain ⟨h, _⟩ := h; subst h; rfl) | cases h

theorem labR_sync {r : Resp K V R} (h : labR r = .sync) : r = .sync := by
  cases r <;> simp_all [labR]

theorem labI_sync {i : Item K R} (h : labI i = .sync) : i = .syncMarker := by
  cases i <;> simp_all [labI]

theorem sync_mem_sent_iff (l : List (Resp K V R)) : Lab.sync ∈ l.map labR ↔ 0 < nSync l := by
  induction l with
  | nil => simp [nSync]
  | cons a l ih =>
    simp only [List.map_cons, List.mem_cons, nSync, List.countP_cons] at ih ⊢
    cases a <;> simp [labR, Resp.isSync, ih, nSync]

theorem sync_mem_items_iff (l : List (Item K R)) : Lab.sync ∈ l.map labI ↔ 0 < l.count .syncMarker := by
  induction l with
  | nil => simp
  | cons a l ih =>
    cases a <;> simp [labI, ih, List.count_cons]

/-- while the sync is still due, no sync is anywhere in the pipeline -/
theorem no_sync_while_due {rq : Req K T R} {b : Sub K V R} (ho : OneSync rq b)
    (hd : syncDue rq b = 1) : Lab.sync ∉ labs b := by
  have := ho.le
  unfold syncTotal at this
  have h1 : nSync b.sent = 0 := by omega
  have h2 : sndSyncs b.snd = 0 := by omega
  have h3 : b.items.count .syncMarker = 0 := by omega
  unfold labs
  simp only [List.mem_append, not_or]
  refine ⟨⟨?_, ?_⟩, ?_⟩
  · rw [sync_mem_sent_iff]; omega
  · intro hm
    cases hs : b.snd with
    | got i d =>
      rw [hs] at hm h2
      have : labI i = .sync := by
        simp only [sndLabs, List.mem_singleton] at hm; exact hm.symm
      rw [labI_sync this] at h2; simp [sndSyncs] at h2
    | sendSync => rw [hs] at h2; simp [sndSyncs] at h2
    | sending r =>
      rw [hs] at hm
      have : labR r = .sync := by
        simp only [sndLabs, List.mem_singleton] at hm; exact hm.symm
      exact ho.sending_ne r hs (labR_sync this)
    | off => rw [hs] at hm; simp [sndLabs] at hm
    | idle => rw [hs] at hm; simp [sndLabs] at hm
    | stopped => rw [hs] at hm; simp [sndLabs] at hm
  · rw [sync_mem_items_iff]; omega


theorem pc_run_of_snd {rq : Req K T R} {b : Sub K V R} (hph : Phase rq b) (h1 : b.snd ≠ .off)
    (h2 : b.snd ≠ .stopped) : b.pc = .run ∧ b.status = none := by
  have hp : b.pc.pre = false := by
    cases hp : b.pc.pre with
    | false => rfl
    | true => exact absurd (hph.pre_snd hp) h1
  have hf : b.pc ≠ .fin := fun e => h2 (hph.fin_snd e)
  refine ⟨?_, hph.status_fin.2 hf⟩
  revert hp hf; cases b.pc <;> simp [HPc.pre]

/-! ### `updates_only`: the sync is the first response -/

def earlyOrH4 : HPc → Bool
  | .h0 | .h1 | .h2 | .h3 | .h4 => true
  | _ => false

structure FirstSync (b : Sub K V R) : Prop where
  labs_head : b.status = none → earlyOrH4 b.pc = false → (labs b).head? = some .sync
  sent_head : b.sent = [] ∨ (b.sent.map labR).head? = some .sync

theorem firstSync_init : FirstSync ({} : Sub K V R) := by
  constructor <;> simp [earlyOrH4]

theorem head?_append_of_head? {α : Type} {l : List α} {a : α} (m : List α) (h : l.head? = some a) :
    (l ++ m).head? = some a := by
  cases l with
  | nil => cases h
  | cons x l => simpa using h

theorem sent_head_snoc {b : Sub K V R} (hi : FirstSync b) (hst : b.status = none)
    (hpc : earlyOrH4 b.pc = false) (r : Resp K V R)
    (hl : ∃ rest, labs b = b.sent.map labR ++ labR r :: rest) :
    (b.sent ++ [r]) = [] ∨ ((b.sent ++ [r]).map labR).head? = some .sync := by
  refine Or.inr ?_
  rcases hi.sent_head with e | e
  · obtain ⟨rest, hl⟩ := hl
    have := hi.labs_head hst hpc
    rw [hl, e] at this
    rw [e]; simpa using this
  · rw [List.map_append]; exact head?_append_of_head? _ e

section
variable {sys : Sys K T R} {rq : Req K T R} {sh : Shared K V T R} {b b' : Sub K V R} {l : SLabel K}

theorem firstSync_local (hsw : sys.swap = false) (hm : rq.mode = .stream) (huo : rq.updatesOnly = true)
    (hph : Phase rq b) (h : SubStep sys rq sh b l b') (hi : FirstSync b) : FirstSync b' := by
  have same : ∀ b'' : Sub K V R, b''.status = b.status → labs b'' = labs b → b''.sent = b.sent →
      (earlyOrH4 b''.pc = false → earlyOrH4 b.pc = false) → FirstSync b'' := by
    intro b'' e1 e2 e3 e4
    exact ⟨fun hs hp => e2 ▸ hi.labs_head (e1 ▸ hs) (e4 hp), e3 ▸ hi.sent_head⟩
  cases h
  case fin l st why =>
    exact ⟨fun hs => by simp [Sub.finish] at hs, hi.sent_head⟩
  case h0 hpc _ => exact ⟨fun _ hp => by simp [earlyOrH4] at hp, hi.sent_head⟩
  case h1 hpc _ => exact ⟨fun _ hp => by simp [earlyOrH4] at hp, hi.sent_head⟩
  case h2 hpc _ => exact ⟨fun _ hp => by simp [earlyOrH4] at hp, hi.sent_head⟩
  case h3 hpc _ => exact ⟨fun _ hp => by simp [earlyOrH4] at hp, hi.sent_head⟩
  case h4poll _ hne _ => exact absurd hm hne
  case h4stream _ _ huo' => rw [huo] at huo'; cases huo'
  case h4sync hpc _ _ =>
    have hsent : b.sent = [] := hph.pre_sent (by rw [hpc]; rfl)
    have hsnd : b.snd = .off := hph.pre_snd (by rw [hpc]; rfl)
    have hq : syncOnly b.q := hph.pre_q (by rw [hpc]; rfl)
    have hclosed : b.closed = false := by
      cases hc : b.closed with
      | false => rfl
      | true =>
        rcases hph.closed_why hc with e | ⟨e, _⟩
        · rw [hpc] at e; cases e
        · rw [hm] at e; cases e
    refine ⟨fun _ _ => ?_, Or.inl (by simpa using hsent)⟩
    show (labs (b.ins .syncMarker)).head? = some .sync
    unfold labs
    rw [ins_sent, ins_snd, hsent, hsnd]
    simp only [List.map_nil, sndLabs, List.nil_append]
    have hall : ∀ x ∈ (b.ins .syncMarker).items, x = Item.syncMarker := by
      intro x hx
      rcases mem_ins_items hx with hx | rfl
      · obtain ⟨y, hy, rfl⟩ := List.mem_map.1 hx; exact hq y hy
      · rfl
    have hne : (b.ins .syncMarker).items ≠ [] := by
      rcases ins_items_open b .syncMarker hclosed with ⟨_, hmem, e⟩ | ⟨_, e⟩
      · rw [e]; exact List.ne_nil_of_mem hmem
      · rw [e]; simp
    cases hitems : (b.ins .syncMarker).items with
    | nil => exact absurd hitems hne
    | cons x rest =>
      have := hall x (by rw [hitems]; exact List.mem_cons_self ..)
      simp [this, labI]
  case register hpc _ =>
    refine ⟨fun hs _ => ?_, hi.sent_head⟩
    have hsent : b.sent = [] := hph.pre_sent (by rw [hpc]; rfl)
    have hst : b.status = none := hs
    -- not yet spawned: the marker inserted at h4 is the only thing pending
    exact (labs_congr (b := b) rfl rfl rfl) ▸ hi.labs_head hst (by rw [hpc]; rfl)
  case spawnUO hpc _ _ =>
    have hsnd : b.snd = .off := hph.pre_snd (by rw [hpc]; rfl)
    refine same _ rfl ?_ rfl (fun _ => by rw [hpc]; rfl)
    unfold labs Sub.items; simp [hsnd, sndLabs]
  case spawn _ hn => exact absurd ⟨hm, huo⟩ hn
  case visit _ _ _ _ huo' _ _ _ => rw [huo] at huo'; cases huo'
  case finish vis hw _ =>
    rcases hph.uo_walker hm huo with e | e <;> rw [hw] at e <;> cases e
  case poll _ hp _ => rw [hm] at hp; cases hp
  case next i d rest hs hq =>
    refine same _ rfl ?_ rfl (fun h => h)
    unfold labs Sub.items; simp [hs, hq, sndLabs]
  case buildSync i d hs hmk =>
    refine same _ rfl ?_ rfl (fun h => h)
    cases i <;> simp [mkResp] at hmk
    unfold labs; simp [hs, sndLabs, labI, Sub.items]
  case buildArm i d r t hs hmk _ =>
    refine same _ rfl ?_ rfl (fun h => h)
    unfold labs; simp [hs, sndLabs, mkResp_lab hmk, Sub.items]
  case buildDrop i d r t hs hmk _ _ =>
    obtain ⟨hpc, hst⟩ := pc_run_of_snd hph (by rw [hs]; intro e; cases e) (by rw [hs]; intro e; cases e)
    refine ⟨fun _ _ => ?_, hi.sent_head⟩
    have hold := hi.labs_head hst (by rw [hpc]; rfl)
    have e1 : labs b = b.sent.map labR ++ labI i :: b.items.map labI := by
      unfold labs; simp [hs, sndLabs]
    have e2 : labs ({ b with snd := .idle } : Sub K V R) = b.sent.map labR ++ b.items.map labI := by
      unfold labs; simp [sndLabs, Sub.items]
    rw [e2]
    rw [e1] at hold
    cases hsent : b.sent with
    | nil =>
      rw [hsent] at hold
      have : labI i = .sync := by simpa using hold
      rw [labI_sync this] at hmk; simp [mkResp] at hmk
    | cons x rest =>
      rw [hsent] at hold; simpa using hold
  case sentSync _ hs =>
    obtain ⟨hpc, hst⟩ := pc_run_of_snd hph (by rw [hs]; intro e; cases e) (by rw [hs]; intro e; cases e)
    have hl : labs b = b.sent.map labR ++ labR (.sync : Resp K V R) :: b.items.map labI := by
      unfold labs; simp [hs, sndLabs, labR]
    refine ⟨fun _ _ => ?_, sent_head_snoc hi hst (by rw [hpc]; rfl) .sync ⟨_, hl⟩⟩
    have e : labs ({ b with snd := .idle, armed := false, sent := b.sent ++ [.sync] } : Sub K V R) = labs b := by
      rw [hl]; unfold labs; simp [sndLabs, Sub.items, labR]
    rw [e]; exact hi.labs_head hst (by rw [hpc]; rfl)
  case sentResp r _ hs _ =>
    obtain ⟨hpc, hst⟩ := pc_run_of_snd hph (by rw [hs]; intro e; cases e) (by rw [hs]; intro e; cases e)
    have hl : labs b = b.sent.map labR ++ labR r :: b.items.map labI := by
      unfold labs; simp [hs, sndLabs]
    refine ⟨fun _ _ => ?_, sent_head_snoc hi hst (by rw [hpc]; rfl) r ⟨_, hl⟩⟩
    have e : labs ({ b with snd := .idle, armed := false, sent := b.sent ++ [r] } : Sub K V R) = labs b := by
      rw [hl]; unfold labs; simp [sndLabs, Sub.items]
    rw [e]; exact hi.labs_head hst (by rw [hpc]; rfl)
  case sentEnd r _ hs _ =>
    obtain ⟨hpc, hst⟩ := pc_run_of_snd hph (by rw [hs]; intro e; cases e) (by rw [hs]; intro e; cases e)
    have hl : labs b = b.sent.map labR ++ labR r :: b.items.map labI := by
      unfold labs; simp [hs, sndLabs]
    exact ⟨fun hs' => by simp [Sub.finish] at hs', sent_head_snoc hi hst (by rw [hpc]; rfl) r ⟨_, hl⟩⟩
  case gateClose => exact same _ rfl (labs_congr rfl rfl rfl) rfl (fun h => h)
  case gateOpen => exact same _ rfl (labs_congr rfl rfl rfl) rfl (fun h => h)

end

theorem firstSync_shared (sys : Sys K T R) (rq : Req K T R) {b : Sub K V R} (l : ShLabel K V T R)
    (hi : FirstSync b) : FirstSync (b.onShared sys rq l) := by
  refine ⟨fun hs hp => ?_, by rw [onShared_sent]; exact hi.sent_head⟩
  rw [onShared_status] at hs
  rw [onShared_pc] at hp
  have hold := hi.labs_head hs hp
  rcases onShared_q sys rq b l with ⟨e, _⟩ | ⟨u, _, _, _, e⟩
  · rw [labs_congr (b := b) (onShared_sent ..) (onShared_snd ..) e]; exact hold
  · rw [e]
    rcases labs_ins b u.item with e' | ⟨e', _⟩
    · rw [e']; exact hold
    · rw [e']; exact head?_append_of_head? _ hold


/-! ### not `updates_only`: the snapshot precedes the sync -/

/-- the initial walk will still deliver `k`, or an update for `k` is in the pipeline (sent,
being sent, or queued) with no sync in front of it -/
def Covered (b : Sub K V R) (k : K) : Prop :=
  b.pc = .spawn ∨ (∃ todo vis, b.walker = .walking todo vis ∧ k ∈ todo) ∨
    before (.upd k) .sync (labs b) = true

/-- `since` = keys present at registration and not deleted before the end of the walk -/
structure SnapInv (sys : Sys K T R) (rq : Req K T R) (sh : Shared K V T R) (b : Sub K V R) : Prop where
  pre_since : b.pc.preReg = true → b.since = []
  reg_after : b.pc = .spawn ∨ b.pc = .run → b.registered = true
  since_present : b.walker ≠ .done → ∀ k ∈ b.since, sh.present k = true ∧ k ∈ sh.keys
  covered : b.registered = true → ∀ k ∈ b.since, rq.walks k = true → rq.allow (sys.tgt k) = true →
    Covered b k
  sentOK : Lab.sync ∈ b.sent.map labR → ∀ k ∈ b.since, rq.walks k = true →
    rq.allow (sys.tgt k) = true → before (.upd k) .sync (b.sent.map labR) = true

theorem snapInv_init (sys : Sys K T R) (rq : Req K T R) (sh : Shared K V T R) :
    SnapInv sys rq sh ({} : Sub K V R) := by
  constructor <;> simp [HPc.preReg]

theorem due_of_walker {rq : Req K T R} {b : Sub K V R} (huo : rq.updatesOnly = false)
    (h : b.walker ≠ .done) : syncDue rq b = 1 := by
  simp [syncDue, huo, h]

theorem walker_done_of_sync {rq : Req K T R} {b : Sub K V R} (huo : rq.updatesOnly = false)
    (ho : OneSync rq b) (h : Lab.sync ∈ labs b) : b.walker = .done := by
  cases hw : b.walker with
  | done => rfl
  | idle => exact absurd h (no_sync_while_due ho (due_of_walker huo (by rw [hw]; intro e; cases e)))
  | walking t v =>
    exact absurd h (no_sync_while_due ho (due_of_walker huo (by rw [hw]; intro e; cases e)))

section
variable {sys : Sys K T R} {rq : Req K T R} {sh : Shared K V T R} {b b' : Sub K V R} {l : SLabel K}

/-- the sent part of `sentOK` after a `Send` of `r` completed -/
theorem sentOK_snoc (wf : sys.WF) (huo : rq.updatesOnly = false) (hph : Phase rq b) (ho : OneSync rq b)
    (hi : SnapInv sys rq sh b) (r : Resp K V R) (hpc : b.pc = .run)
    (hl : labs b = b.sent.map labR ++ labR r :: b.items.map labI) :
    Lab.sync ∈ (b.sent ++ [r]).map labR → ∀ k ∈ b.since, rq.walks k = true →
      rq.allow (sys.tgt k) = true → before (.upd k) .sync ((b.sent ++ [r]).map labR) = true := by
  intro hs k hk hw ha
  rw [List.map_append] at hs ⊢
  by_cases h1 : Lab.sync ∈ b.sent.map labR
  · exact before_append_right _ (hi.sentOK h1 k hk hw ha)
  · have hsl : Lab.sync ∈ labs b := by
      rw [hl]
      rcases List.mem_append.1 hs with h | h
      · exact absurd h h1
      · simp only [List.map_cons, List.map_nil, List.mem_singleton] at h
        rw [← h]; exact List.mem_append_right _ (List.mem_cons_self ..)
    have hwd := walker_done_of_sync huo ho hsl
    have hreg := hi.reg_after (Or.inr hpc)
    rcases hi.covered hreg k hk hw ha with h | ⟨t, v, hwk, _⟩ | h
    · rw [hpc] at h; cases h
    · rw [hwd] at hwk; cases hwk
    · rw [hl] at h
      have : b.sent.map labR ++ labR r :: b.items.map labI =
          (b.sent.map labR ++ [labR r]) ++ b.items.map labI := by simp
      rw [this] at h
      exact before_left _ h hs

theorem snapInv_local (hsw : sys.swap = false) (wf : sys.WF) (hm : rq.mode = .stream)
    (huo : rq.updatesOnly = false) (hph : Phase rq b) (ho : OneSync rq b)
    (h : SubStep sys rq sh b l b') (hi : SnapInv sys rq sh b) : SnapInv sys rq sh b' := by
  have h1 := hi.pre_since
  have h2 := hi.reg_after
  have h3 := hi.since_present
  have p1 := hph.pre_reg
  have p2 := hph.pre_walker
  have p3 := hph.pre_sent
  refine ⟨?_, ?_, ?_, ?_, ?_⟩
  · clear h2 h3 p1 p2 p3
    cases h <;> simp_all [Sub.finish, Sub.startWalk, HPc.preReg]
  · clear h1 h3 p2 p3
    cases h <;> simp_all [Sub.finish, Sub.startWalk, HPc.preReg]
  · clear h1 p1 p3
    cases h
    case register hpc _ =>
      intro _ k hk
      have hw : b.walker = .idle := p2 (by rw [hpc]; rfl)
      simp only [hw, if_true, List.mem_filter] at hk
      exact ⟨hk.2, hk.1⟩
    case spawn hpc _ =>
      intro _ k hk
      have hr := h2 (Or.inl hpc)
      have hw : b.walker = .idle := p2 (by rw [hpc]; rfl)
      simp only [hr, if_true] at hk
      exact h3 (by rw [hw]; intro e; cases e) k hk
    case spawnUO _ _ huo' => rw [huo] at huo'; cases huo'
    case poll _ hp _ => rw [hm] at hp; cases hp
    case finish => intro hx; exact absurd rfl hx
    case visit k0 todo vis hwk _ _ _ _ _ =>
      intro _ k hk
      exact h3 (by rw [hwk]; intro e; cases e) k (by simpa using hk)
    case h4sync =>
      intro hx k hk
      exact h3 (by simpa using hx) k (by simpa using hk)
    all_goals exact h3
  · intro hr k hk hw ha
    cases h
    case fin l st why => simp [Sub.finish] at hr
    case sentEnd => simp [Sub.finish] at hr
    case h0 hpc _ => rw [show b.registered = false from p1 (by rw [hpc]; rfl)] at hr; cases hr
    case h1 hpc _ => rw [show b.registered = false from p1 (by rw [hpc]; rfl)] at hr; cases hr
    case h2 hpc _ => rw [show b.registered = false from p1 (by rw [hpc]; rfl)] at hr; cases hr
    case h3 hpc _ => rw [show b.registered = false from p1 (by rw [hpc]; rfl)] at hr; cases hr
    case h4poll _ hne _ => exact absurd hm hne
    case h4stream hpc _ _ =>
      rw [show b.registered = false from p1 (by rw [hpc]; rfl)] at hr; cases hr
    case h4sync _ _ huo' => rw [huo] at huo'; cases huo'
    case register hpc _ => exact Or.inl (by simp [hsw])
    case spawnUO _ _ huo' => rw [huo] at huo'; cases huo'
    case spawn hpc _ =>
      have hr' := h2 (Or.inl hpc)
      have hwi : b.walker = .idle := p2 (by rw [hpc]; rfl)
      have hk' : k ∈ b.since := by simpa [hr'] using hk
      obtain ⟨hp, hkeys⟩ := h3 (by rw [hwi]; intro e; cases e) k hk'
      refine Or.inr (Or.inl ⟨snapshot sh rq, [], ?_, mem_snapshot hkeys hp hw⟩)
      simp [Sub.startWalk, huo]
    case visit k0 todo vis hwk hst _ hp0 _ _ =>
      have hr' : b.registered = true := by simpa using hr
      have hk' : k ∈ b.since := by simpa using hk
      have hclosed := (hph.reg_open hr').1
      have hns : Lab.sync ∉ labs b :=
        no_sync_while_due ho (due_of_walker huo (by rw [hwk]; intro e; cases e))
      have hlabs : labs ({ b.ins (.handle k0 (sh.gen k0)) with
          walker := .walking (todo.filter (· ≠ k0)) (k0 :: vis) } : Sub K V R) =
          labs (b.ins (.handle k0 (sh.gen k0))) := labs_congr rfl rfl rfl
      by_cases e : k0 = k
      · subst e
        refine Or.inr (Or.inr ?_)
        rw [hlabs]
        refine before_of_mem (labI_mem_labs_ins b (.handle k0 (sh.gen k0)) hclosed) ?_
        rcases labs_ins b (.handle k0 (sh.gen k0)) with e' | ⟨e', _⟩
        · rw [e']; exact hns
        · rw [e']; simp [hns, labI]
      · rcases hi.covered hr' k hk' hw ha with hc | ⟨t, v, hwk', hmem⟩ | hc
        · have := p2 (by rw [hc]; rfl); rw [hwk] at this; cases this
        · rw [hwk] at hwk'; cases hwk'
          exact Or.inr (Or.inl ⟨_, _, rfl, by simp [hmem, Ne.symm e]⟩)
        · refine Or.inr (Or.inr ?_)
          rw [hlabs]
          rcases labs_ins b (.handle k0 (sh.gen k0)) with e' | ⟨e', _⟩
          · rw [e']; exact hc
          · rw [e']; exact before_append_right _ hc
    case finish vis hwk _ =>
      have hr' : b.registered = true := by simpa using hr
      have hk' : k ∈ b.since := by simpa using hk
      have hlabs : labs ({ b.ins .syncMarker with
          walker := .done, closed := (b.ins .syncMarker).closed || decide (rq.mode = .once) } : Sub K V R) =
          labs (b.ins .syncMarker) := labs_congr rfl rfl rfl
      rcases hi.covered hr' k hk' hw ha with hc | ⟨t, v, hwk', hmem⟩ | hc
      · have := p2 (by rw [hc]; rfl); rw [hwk] at this; cases this
      · rw [hwk] at hwk'; cases hwk'; cases hmem
      · refine Or.inr (Or.inr ?_)
        rw [hlabs]
        rcases labs_ins b .syncMarker with e' | ⟨e', _⟩
        · rw [e']; exact hc
        · rw [e']; exact before_append_right _ hc
    case poll _ hp _ => rw [hm] at hp; cases hp
    case next i d rest hs hq =>
      have e : labs ({ b with q := rest, snd := .got i d, deliv := b.deliv ++ [(i, d)] } : Sub K V R) =
          labs b := by unfold labs Sub.items; simp [hs, hq, sndLabs]
      rcases hi.covered hr k hk hw ha with hc | hc | hc
      · exact Or.inl hc
      · exact Or.inr (Or.inl hc)
      · exact Or.inr (Or.inr (by rw [e]; exact hc))
    case buildSync i d hs hmk =>
      have e : labs ({ b with snd := .sendSync, armed := true } : Sub K V R) = labs b := by
        cases i <;> simp [mkResp] at hmk
        unfold labs; simp [hs, sndLabs, labI, Sub.items]
      rcases hi.covered hr k hk hw ha with hc | hc | hc
      · exact Or.inl hc
      · exact Or.inr (Or.inl hc)
      · exact Or.inr (Or.inr (by rw [e]; exact hc))
    case buildArm i d r t hs hmk _ =>
      have e : labs ({ b with snd := .sending r, armed := true } : Sub K V R) = labs b := by
        unfold labs; simp [hs, sndLabs, mkResp_lab hmk, Sub.items]
      rcases hi.covered hr k hk hw ha with hc | hc | hc
      · exact Or.inl hc
      · exact Or.inr (Or.inl hc)
      · exact Or.inr (Or.inr (by rw [e]; exact hc))
    case buildDrop i d r t hs hmk hd _ =>
      have e1 : labs b = b.sent.map labR ++ labI i :: b.items.map labI := by
        unfold labs; simp [hs, sndLabs]
      have e2 : labs ({ b with snd := .idle } : Sub K V R) = b.sent.map labR ++ b.items.map labI := by
        unfold labs; simp [sndLabs, Sub.items]
      have hne : labI i ≠ .upd k := by
        intro e
        have haff : i.aff sys k = true := by
          cases i <;> simp_all [labI, Item.aff]
        rw [mkResp_denied_noaff wf hmk hd ha] at haff; cases haff
      rcases hi.covered hr k hk hw ha with hc | hc | hc
      · exact Or.inl hc
      · exact Or.inr (Or.inl hc)
      · refine Or.inr (Or.inr ?_)
        rw [e2]; rw [e1] at hc
        exact before_remove _ _ hne hc
    case sentSync _ hs =>
      have e : labs ({ b with snd := .idle, armed := false, sent := b.sent ++ [.sync] } : Sub K V R) = labs b := by
        unfold labs; simp [hs, sndLabs, Sub.items, labR]
      rcases hi.covered hr k hk hw ha with hc | hc | hc
      · exact Or.inl hc
      · exact Or.inr (Or.inl hc)
      · exact Or.inr (Or.inr (by rw [e]; exact hc))
    case sentResp r _ hs _ =>
      have e : labs ({ b with snd := .idle, armed := false, sent := b.sent ++ [r] } : Sub K V R) =
          labs b := by unfold labs; simp [hs, sndLabs, Sub.items]
      rcases hi.covered hr k hk hw ha with hc | hc | hc
      · exact Or.inl hc
      · exact Or.inr (Or.inl hc)
      · exact Or.inr (Or.inr (by rw [e]; exact hc))
    case gateClose => exact hi.covered hr k hk hw ha
    case gateOpen => exact hi.covered hr k hk hw ha
  · cases h
    case sentSync _ hs =>
      obtain ⟨hpc, _⟩ := pc_run_of_snd hph (by rw [hs]; intro e; cases e) (by rw [hs]; intro e; cases e)
      have hl : labs b = b.sent.map labR ++ labR (.sync : Resp K V R) :: b.items.map labI := by
        unfold labs; simp [hs, sndLabs, labR]
      exact sentOK_snoc wf huo hph ho hi .sync hpc hl
    case sentResp r _ hs _ =>
      obtain ⟨hpc, _⟩ := pc_run_of_snd hph (by rw [hs]; intro e; cases e) (by rw [hs]; intro e; cases e)
      have hl : labs b = b.sent.map labR ++ labR r :: b.items.map labI := by
        unfold labs; simp [hs, sndLabs]
      exact sentOK_snoc wf huo hph ho hi r hpc hl
    case sentEnd r _ hs _ =>
      obtain ⟨hpc, _⟩ := pc_run_of_snd hph (by rw [hs]; intro e; cases e) (by rw [hs]; intro e; cases e)
      have hl : labs b = b.sent.map labR ++ labR r :: b.items.map labI := by
        unfold labs; simp [hs, sndLabs]
      exact sentOK_snoc wf huo hph ho hi r hpc hl
    case register hpc _ =>
      intro hs
      rw [show b.sent = [] from p3 (by rw [hpc]; rfl)] at hs; cases hs
    case spawn hpc _ =>
      intro hs
      rw [show (b.startWalk sh rq).sent = b.sent from rfl,
        show b.sent = [] from p3 (by rw [hpc]; rfl)] at hs; cases hs
    case spawnUO _ _ huo' => rw [huo] at huo'; cases huo'
    case poll _ hp _ => rw [hm] at hp; cases hp
    case h4sync _ _ huo' => rw [huo] at huo'; cases huo'
    case visit =>
      intro hs k hk hw ha
      have := hi.sentOK (by simpa using hs) k (by simpa using hk) hw ha
      simpa using this
    case finish =>
      intro hs k hk hw ha
      have := hi.sentOK (by simpa using hs) k (by simpa using hk) hw ha
      simpa using this
    all_goals exact hi.sentOK

end

theorem covered_ins {b : Sub K V R} {k : K} (i : Item K R) (h : Covered b k) : Covered (b.ins i) k := by
  rcases h with h | ⟨t, v, hw, hm⟩ | h
  · exact Or.inl (by simpa using h)
  · exact Or.inr (Or.inl ⟨t, v, by simpa using hw, hm⟩)
  · refine Or.inr (Or.inr ?_)
    rcases labs_ins b i with e | ⟨e, _⟩
    · rw [e]; exact h
    · rw [e]; exact before_append_right _ h

theorem covered_filter {b : Sub K V R} {k : K} (f : K → Bool) (s : List K) (hk : f k = true)
    (h : Covered b k) : Covered ({ b with walker := b.walker.filter f, since := s } : Sub K V R) k := by
  rcases h with h | ⟨t, v, hw, hm⟩ | h
  · exact Or.inl h
  · refine Or.inr (Or.inl ⟨t.filter f, v, ?_, by simp [hm, hk]⟩)
    show b.walker.filter f = _
    rw [hw]; rfl
  · have e : labs ({ b with walker := b.walker.filter f, since := s } : Sub K V R) = labs b :=
      labs_congr rfl rfl rfl
    exact Or.inr (Or.inr (by rw [e]; exact h))

theorem labs_onShared_w1 [DecidableEq T] (sys : Sys K T R) (rq : Req K T R) (b : Sub K V R) (l : ShLabel K V T R)
    (h : ∀ u, l ≠ .w2 u) : labs (b.onShared sys rq l) = labs b := by
  unfold labs
  rw [onShared_sent, onShared_snd, onShared_items_w1 sys rq b l h]

theorem snapInv_shared [DecidableEq T] {sys : Sys K T R} {rq : Req K T R} {sh sh' : Shared K V T R}
    {b : Sub K V R} {l : ShLabel K V T R} (h : shFire sys sh l = some sh')
    (hi : SnapInv sys rq sh b) : SnapInv sys rq sh' (b.onShared sys rq l) := by
  cases l with
  | tAdd t =>
    simp only [shFire, Option.some.injEq] at h; subst h
    exact ⟨hi.pre_since, hi.reg_after, hi.since_present, hi.covered, hi.sentOK⟩
  | w1Upd k0 v =>
    simp only [shFire, Option.ite_none_right_eq_some, Option.some.injEq] at h
    obtain ⟨_, rfl⟩ := h
    refine ⟨hi.pre_since, hi.reg_after, hi.since_present, ?_, hi.sentOK⟩
    intro hr k hk hw ha
    rcases hi.covered hr k hk hw ha with hc | hc | hc
    · exact Or.inl hc
    · exact Or.inr (Or.inl hc)
    · exact Or.inr (Or.inr (by rw [labs_onShared_w1 _ _ _ _ (by intro u e; cases e)]; exact hc))
  | w1Quiet k0 v =>
    simp only [shFire, Option.ite_none_right_eq_some, Option.some.injEq] at h
    obtain ⟨_, rfl⟩ := h
    refine ⟨hi.pre_since, hi.reg_after, hi.since_present, ?_, hi.sentOK⟩
    intro hr k hk hw ha
    rcases hi.covered hr k hk hw ha with hc | hc | hc
    · exact Or.inl hc
    · exact Or.inr (Or.inl hc)
    · exact Or.inr (Or.inr (by rw [labs_onShared_w1 _ _ _ _ (by intro u e; cases e)]; exact hc))
  | w1Add k0 v =>
    simp only [shFire, Option.ite_none_right_eq_some, Option.some.injEq] at h
    obtain ⟨_, rfl⟩ := h
    refine ⟨hi.pre_since, hi.reg_after, ?_, ?_, hi.sentOK⟩
    · intro hw k hk
      obtain ⟨hp, hkeys⟩ := hi.since_present hw k hk
      refine ⟨?_, ?_⟩
      · show setFn sh.present k0 true k = true
        unfold setFn; split
        · rfl
        · exact hp
      · show k ∈ (if k0 ∈ sh.keys then sh.keys else sh.keys ++ [k0])
        split
        · exact hkeys
        · exact List.mem_append_left _ hkeys
    · intro hr k hk hw ha
      rcases hi.covered hr k hk hw ha with hc | hc | hc
      · exact Or.inl hc
      · exact Or.inr (Or.inl hc)
      · exact Or.inr (Or.inr (by rw [labs_onShared_w1 _ _ _ _ (by intro u e; cases e)]; exact hc))
  | w1Del ks =>
    simp only [shFire, Option.ite_none_right_eq_some, Option.some.injEq] at h
    obtain ⟨_, rfl⟩ := h
    have hsub : ∀ k, k ∈ (if b.walker = .done then b.since
        else b.since.filter (fun k => !decide (k ∈ ks))) → k ∈ b.since ∧ (b.walker ≠ .done → k ∉ ks) := by
      intro k hk
      split at hk
      · next hd => exact ⟨hk, fun hn => absurd hd hn⟩
      · have := List.mem_filter.1 hk
        exact ⟨this.1, fun _ => by simpa using this.2⟩
    refine ⟨?_, hi.reg_after, ?_, ?_, ?_⟩
    · intro hp
      have := hi.pre_since hp
      show (if b.walker = .done then b.since else b.since.filter _) = []
      rw [this]; simp
    · intro hw k hk
      have hw' : b.walker ≠ .done := by
        intro e; apply hw; show b.walker.filter _ = .done; rw [e]; rfl
      obtain ⟨hk1, hk2⟩ := hsub k hk
      obtain ⟨hp, hkeys⟩ := hi.since_present hw' k hk1
      exact ⟨by simp [hp, hk2 hw'], hkeys⟩
    · intro hr k hk hw ha
      obtain ⟨hk1, hk2⟩ := hsub k hk
      have hc := hi.covered hr k hk1 hw ha
      rcases hc with hc | ⟨t, v, hwk, hm⟩ | hc
      · exact Or.inl hc
      · have hnd : b.walker ≠ .done := by rw [hwk]; intro e; cases e
        exact covered_filter _ _ (by simp [hk2 hnd]) (Or.inr (Or.inl ⟨t, v, hwk, hm⟩))
      · exact Or.inr (Or.inr (by rw [labs_onShared_w1 _ _ _ _ (by intro u e; cases e)]; exact hc))
    · intro hs k hk hw ha
      exact hi.sentOK hs k (hsub k hk).1 hw ha
  | w1Reg r =>
    simp only [shFire, Option.ite_none_right_eq_some, Option.some.injEq] at h
    obtain ⟨_, rfl⟩ := h
    have hsub : ∀ k, k ∈ (if b.walker = .done then b.since
        else b.since.filter (fun k => !sys.covers r k)) →
        k ∈ b.since ∧ (b.walker ≠ .done → sys.covers r k = false) := by
      intro k hk
      split at hk
      · next hd => exact ⟨hk, fun hn => absurd hd hn⟩
      · have := List.mem_filter.1 hk
        exact ⟨this.1, fun _ => by simpa using this.2⟩
    refine ⟨?_, hi.reg_after, ?_, ?_, ?_⟩
    · intro hp
      have := hi.pre_since hp
      show (if b.walker = .done then b.since else b.since.filter _) = []
      rw [this]; simp
    · intro hw k hk
      have hw' : b.walker ≠ .done := by
        intro e; apply hw; show b.walker.filter _ = .done; rw [e]; rfl
      obtain ⟨hk1, hk2⟩ := hsub k hk
      obtain ⟨hp, hkeys⟩ := hi.since_present hw' k hk1
      exact ⟨by simp [hp, hk2 hw'], hkeys⟩
    · intro hr k hk hw ha
      obtain ⟨hk1, hk2⟩ := hsub k hk
      have hc := hi.covered hr k hk1 hw ha
      rcases hc with hc | ⟨t, v, hwk, hm⟩ | hc
      · exact Or.inl hc
      · have hnd : b.walker ≠ .done := by rw [hwk]; intro e; cases e
        exact covered_filter _ _ (by simp [hk2 hnd]) (Or.inr (Or.inl ⟨t, v, hwk, hm⟩))
      · exact Or.inr (Or.inr (by rw [labs_onShared_w1 _ _ _ _ (by intro u e; cases e)]; exact hc))
    · intro hs k hk hw ha
      exact hi.sentOK hs k (hsub k hk).1 hw ha
  | w2 u =>
    simp only [shFire, Option.ite_none_right_eq_some, Option.some.injEq] at h
    obtain ⟨_, rfl⟩ := h
    rw [onShared_w2]
    split
    · refine ⟨by simpa using hi.pre_since, by simpa using hi.reg_after, ?_, ?_, ?_⟩
      · intro hw k hk
        exact hi.since_present (by simpa using hw) k (by simpa using hk)
      · intro hr k hk hw ha
        exact covered_ins _ (hi.covered (by simpa using hr) k (by simpa using hk) hw ha)
      · intro hs k hk hw ha
        have := hi.sentOK (by simpa using hs) k (by simpa using hk) hw ha
        simpa using this
    · exact ⟨hi.pre_since, hi.reg_after, hi.since_present, hi.covered, hi.sentOK⟩

end
end SubLTS
end Gnmi
