import Gnmi.Lemmas.Pipeline
import Gnmi.Props.C05
/-!
Helper lemmas for property C01, ONCE part: what the Subscribe server sends for a ONCE query of
one path (walk in tree order, then sync), and what the client's tree is after decoding it.
-/
namespace Gnmi
namespace Relay
open Cache Pipeline

/-! ### the queue of a ONCE subscription -/

/-- the queue entries of walked leaves of target `T` -/
def hq (T : String) (l : List (Path × Noti)) : List (Sub.Item × Nat) :=
  l.map (fun e => (Sub.Item.handle T e.1 e.2, 0))

theorem lastCover_fold_handles (T : String) (key : Path) :
    ∀ (l : List ((Sub.Item × Nat) × Nat)) (acc : Nat),
      (∀ x ∈ l, ∃ t k n, x.1.1 = Sub.Item.handle t k n) →
      l.foldl (fun acc x =>
        match x.1.1 with
        | .note e => if Sub.coversKey e T key then x.2 + 1 else acc
        | _ => acc) acc = acc
  | [], _, _ => rfl
  | x :: l, acc, h => by
    simp only [List.foldl_cons]
    obtain ⟨t, k, n, e⟩ := h x (by simp)
    rw [e]
    exact lastCover_fold_handles T key l acc (fun y hy => h y (by simp [hy]))

theorem lastCover_hq (T : String) (l : List (Path × Noti)) (key : Path) : Sub.lastCover (hq T l) T key = 0 := by
  unfold Sub.lastCover
  apply lastCover_fold_handles
  intro x hx
  have := List.fst_mem_of_mem_zipIdx hx
  unfold hq at this
  obtain ⟨e, _, he⟩ := List.mem_map.1 this
  exact ⟨T, e.1, e.2, by rw [← he]⟩

theorem insertHandle_hq (T : String) (l : List (Path × Noti)) (key : Path) (n : Noti)
    (hk : key ∉ l.map (·.1)) :
    Sub.insertHandle (hq T l) T key n = hq T (l ++ [(key, n)]) := by
  unfold Sub.insertHandle
  simp only [lastCover_hq, List.take_zero, List.drop_zero, List.nil_append]
  have : (hq T l).any (fun x => Sub.isHandleFor T key x.1) = false := by
    rw [List.any_eq_false]
    intro x hx
    unfold hq at hx
    obtain ⟨e, he, rfl⟩ := List.mem_map.1 hx
    simp only [Sub.isHandleFor, beq_self_eq_true, Bool.true_and, beq_iff_eq]
    intro ek
    exact hk (List.mem_map.2 ⟨e, he, ek⟩)
  simp only [this, Bool.false_eq_true, if_false]
  simp [hq]

theorem fold_insertHandle (T : String) :
    ∀ (l2 l1 : List (Path × Noti)), ((l1 ++ l2).map (·.1)).Nodup →
      (l2.map (fun e => (T, e.1, e.2))).foldl (fun q it => Sub.insertHandle q it.1 it.2.1 it.2.2) (hq T l1) =
        hq T (l1 ++ l2)
  | [], l1, _ => by simp
  | e :: l2, l1, hnd => by
    simp only [List.map_cons, List.foldl_cons]
    have hk : e.1 ∉ l1.map (·.1) := by
      intro hm
      rw [List.map_append, List.map_cons] at hnd
      have := (List.nodup_append.1 hnd).2.2
      exact this e.1 hm e.1 (by simp) rfl
    rw [insertHandle_hq T l1 e.1 e.2 hk]
    have := fold_insertHandle T l2 (l1 ++ [(e.1, e.2)]) (by simpa [List.append_assoc] using hnd)
    simpa [List.append_assoc] using this

theorem insertSync_hq (T : String) (l : List (Path × Noti)) :
    Sub.insertSync (hq T l) = hq T l ++ [(Sub.Item.sync, 0)] := by
  unfold Sub.insertSync
  have : (hq T l).any (fun x => x.1 == Sub.Item.sync) = false := by
    rw [List.any_eq_false]
    intro x hx
    unfold hq at hx
    obtain ⟨e, _, rfl⟩ := List.mem_map.1 hx
    simp
  simp only [this, Bool.false_eq_true, if_false]

/-! ### the sender drains the queue -/

/-- a live, ungated ONCE subscriber without ACL whose walk is complete -/
def plainSub (id : String) (req : Sub.Req) (regs : List Path) (status : Option Sub.Code) (gsd : Bool)
    (q : List (Sub.Item × Nat)) (out : List (Sub.Resp × Bool)) : Sub.Subscriber :=
  { id := id, req := req, acl := .absent, regs := regs, alive := true, status := status, gateShut := false,
    gatedSinceDrain := gsd, blocked := none, queue := q, closed := true, out := out }

theorem pump_drain (id : String) (req : Sub.Req) (regs : List Path) (status : Option Sub.Code) (gsd : Bool) :
    ∀ (q : List (Sub.Item × Nat)) (fuel : Nat) (out : List (Sub.Resp × Bool)),
    q.length + 1 ≤ fuel → (∀ x ∈ q, Sub.isTargetDelete (Sub.toResp x) = false) →
    (Sub.pump fuel (plainSub id req regs status gsd q out)).out = out ++ q.map (fun x => (Sub.toResp x, gsd)) ∧
    (Sub.pump fuel (plainSub id req regs status gsd q out)).status = some .ok
  | [], fuel, out, hf, _ => by
    cases fuel with
    | zero => omega
    | succ fuel =>
      unfold Sub.pump plainSub
      simp
  | x :: q, fuel, out, hf, hx => by
    cases fuel with
    | zero => simp at hf
    | succ fuel =>
      have hx0 := hx x (by simp)
      have ih := pump_drain id req regs status gsd q fuel (out ++ [(Sub.toResp x, gsd)])
        (by simp only [List.length_cons] at hf; omega) (fun y hy => hx y (by simp [hy]))
      unfold Sub.pump
      unfold plainSub at ih ⊢
      simp only [Bool.not_true, Option.isSome_none, Bool.or_false, Bool.false_eq_true, if_false, hx0,
        Bool.false_and]
      have hden : Sub.denied Sub.Acl.absent (Sub.toResp x) = false := by
        unfold Sub.denied
        cases Sub.respTarget (Sub.toResp x) <;> simp [Sub.Acl.check]
      simpa [List.append_assoc, hden] using ih

/-! ### what a ONCE query of one path is sent -/

theorem walkItems_single (c : Cache.State) (T : String) (hT : T ≠ "") (hT' : T ≠ "*") (t : Target)
    (hg : c.get T = some t) (q : Path) :
    Sub.walkItems c (clientReq T .once [q]) = some ((PMap.query t.tree q).map (fun e => (T, e.1, e.2))) := by
  unfold Sub.walkItems clientReq
  simp [Sub.completePath, State.query, hT, hT', hg]

theorem query_nodup {m : PMap Noti} (hu : UniqueKeys m) (q : Path) : ((PMap.query m q).map (·.1)).Nodup := by
  unfold PMap.query
  exact (List.filter_sublist.map _).nodup hu

/-- **ONCE.**  The server answers a ONCE query of path `q` on a registered target with the
matching stored leaves (tree order), then the sync marker, and ends the RPC with OK. -/
theorem once_sent (st : Sub.State) (hpg : st.pregated = []) (T : String) (hT : T ≠ "") (hT' : T ≠ "*") (t : Target)
    (hg : st.cache.get T = some t) (hu : UniqueKeys t.tree) (q : Path) :
    lastSent (Sub.subscribe st "once" .absent (some (clientReq T .once [q]))) =
      ((PMap.query t.tree q).map (fun e => Sub.Resp.upd e.2 0) ++ [.sync], some .ok) := by
  have hht : st.cache.hasTarget T = true := by simp [State.hasTarget, hT, hT', hg]
  have hwalk := walkItems_single st.cache T hT hT' t hg q
  have hfold := fold_insertHandle T (PMap.query t.tree q) [] (by simpa using query_nodup hu q)
  simp only [List.nil_append] at hfold
  have hfold' : List.foldl (fun q it => Sub.insertHandle q it.1 it.2.1 it.2.2) []
      (List.map (fun e => (T, e.1, e.2)) (PMap.query t.tree q)) = hq T (PMap.query t.tree q) := hfold
  have hsub : Sub.subscribe st "once" .absent (some (clientReq T .once [q])) =
      { st with subs := st.subs ++ [Sub.pump ((hq T (PMap.query t.tree q) ++ [(Sub.Item.sync, 0)]).length + 2)
          (plainSub "once" (clientReq T .once [q]) [] none false
            (hq T (PMap.query t.tree q) ++ [(Sub.Item.sync, 0)]) [])] } := by
    unfold Sub.subscribe
    have h1 : (clientReq T .once [q]).target = T := rfl
    simp only [clientReq] at hwalk ⊢
    simp only [Bool.not_true, Bool.false_eq_true, if_false, hT, hht, Sub.Acl.check, ne_eq, hT',
      not_false_eq_true, and_false, Sub.doWalk, Sub.newSubscriber, hpg, List.contains_nil, hwalk]
    rw [hfold', insertSync_hq]
    simp only [if_true, Sub.pumpAll, plainSub]
  rw [hsub]
  unfold lastSent
  simp only [List.getLast?_append, List.getLast?_singleton, Option.or_some]
  obtain ⟨p1, p2⟩ := pump_drain "once" (clientReq T .once [q]) [] none false
    (hq T (PMap.query t.tree q) ++ [(Sub.Item.sync, 0)]) _ [] (Nat.le_succ _)
    (by
      intro x hx
      rcases List.mem_append.1 hx with h | h
      · unfold hq at h
        obtain ⟨e, _, rfl⟩ := List.mem_map.1 h
        rfl
      · simp only [List.mem_singleton] at h; subst h; rfl)
  simp only [Option.some_or] 
  rw [p1, p2]
  simp [hq, Sub.toResp]

/-! ### the client's tree after a walk -/

/-- the leaf the client holds at an index path -/
def cget (m : PMap CLeaf) (p : Path) : Option CLeaf := (m.find? (fun kv => kv.1 == p)).map (·.2)

/-- what `noti` makes of a stored leaf notification -/
def decLeaf (n : Noti) : Option CLeaf :=
  match decodeVal (headVal n) with
  | .val cv => some { ts := n.ts, val := cv }
  | _ => none

theorem valueOK_dec {val : Val} (h : valueOK val = true) : ∃ cv, decodeVal val = .val cv := by
  unfold valueOK at h
  cases hd : decodeVal val with
  | val cv => exact ⟨cv, rfl⟩
  | skip => rw [hd] at h; cases h
  | err => rw [hd] at h; cases h

theorem clientPrefix_join (T : String) (hT : T ≠ "") (n : Noti) (ht : n.target = T) (p : Path) :
    clientPrefix n.target n.origin n.pfx ++ p = T :: joinKey n p := by
  unfold clientPrefix joinKey
  simp [ht, hT]

/-- one relayed leaf arriving at a live client -/
theorem recv_good (once : Bool) (c : Client) (hf : c.failed = false) (hs : c.stopped = false) (T : String)
    (hT : T ≠ "") (k : Path) (n : Noti) (dup : Nat) (hg : GoodLeaf T k n) :
    ∃ leaf, decLeaf n = some leaf ∧
      Client.recv once c (.upd n dup) = { c with tree := treeAdd c.tree (T :: k) leaf } := by
  obtain ⟨_, hd, ht, u, hu, hv, hk⟩ := hg
  obtain ⟨cv, hcv⟩ := valueOK_dec hv
  refine ⟨{ ts := n.ts, val := cv }, by simp [decLeaf, headVal, hu, hcv], ?_⟩
  unfold Client.recv
  simp only [hf, hs, Bool.or_self, Bool.false_eq_true, if_false, hu, hd, List.map_nil, recvUpdates, hcv,
    recvDeletes]
  rw [clientPrefix_join T hT n ht, ← hk]

theorem cget_treeAdd_other (m : PMap CLeaf) (p p' : Path) (v : CLeaf) (h : p' ≠ p) :
    cget (treeAdd m p v) p' = cget m p' := by
  unfold treeAdd PMap.add
  split
  · rename_i m' hm
    split at hm
    · cases hm
    · cases hm
      have h1 : (p == p') = false := by simpa using fun e => h e.symm
      unfold cget
      simp only [List.find?_cons, h1]
      have := find_filter_key m (fun x => x != p) p'
      simp only [bne_iff_ne, ne_eq, h, not_false_eq_true, if_true] at this
      rw [this]
  · rfl

theorem cget_treeAdd_same (m : PMap CLeaf) (p : Path) (v : CLeaf) (h : PMap.conflicts m p = false) :
    cget (treeAdd m p v) p = some v := by
  unfold treeAdd PMap.add
  simp [h, cget]

theorem treeAdd_keys (m : PMap CLeaf) (p : Path) (v : CLeaf) :
    ∀ kv ∈ treeAdd m p v, kv.1 = p ∨ kv ∈ m := by
  intro kv hkv
  unfold treeAdd PMap.add at hkv
  split at hkv
  · rename_i m' hm
    split at hm
    · cases hm
    · cases hm
      rcases List.mem_cons.1 hkv with e | h
      · exact Or.inl (by rw [e])
      · exact Or.inr (List.mem_filter.1 h).1
  · exact Or.inr hkv

theorem treeAdd_nodup (m : PMap CLeaf) (p : Path) (v : CLeaf) (h : (m.map (·.1)).Nodup) :
    ((treeAdd m p v).map (·.1)).Nodup := by
  unfold treeAdd PMap.add
  split
  · rename_i m' hm
    split at hm
    · cases hm
    · cases hm
      simp only [List.map_cons, List.nodup_cons]
      refine ⟨?_, (List.filter_sublist.map _).nodup h⟩
      intro hmem
      obtain ⟨kv, hkv, hk⟩ := List.mem_map.1 hmem
      have := (List.mem_filter.1 hkv).2
      simp only [bne_iff_ne, ne_eq] at this
      exact this hk
  · exact h

theorem isPrefixOf_cons_cons (a : String) (x y : Path) : (a :: x).isPrefixOf (a :: y) = x.isPrefixOf y := by
  simp [List.isPrefixOf]

/-- the client after the leaves `L1` of a walk arrived -/
structure Walked (T : String) (L1 : List (Path × Noti)) (c : Client) : Prop where
  failed : c.failed = false
  stopped : c.stopped = false
  synced : c.synced = false
  keys : ∀ kv ∈ c.tree, ∃ k, kv.1 = T :: k ∧ k ∈ L1.map (·.1)
  nodup : (c.tree.map (·.1)).Nodup
  get : ∀ k, isMetaKey k = false → cget c.tree (T :: k) = (L1.find? (fun e => e.1 == k)).bind (fun e => decLeaf e.2)

theorem walked_step (T : String) (hT : T ≠ "") (L1 : List (Path × Noti)) (c : Client) (k : Path) (n : Noti)
    (hw : Walked T L1 c) (hg : GoodLeaf T k n) (hk : k ∉ L1.map (·.1)) (hne : k ≠ [])
    (hne1 : ∀ e ∈ L1, e.1 ≠ [])
    (hpf : isMetaKey k = false → ∀ e ∈ L1, (e.1.isPrefixOf k || k.isPrefixOf e.1) = false) :
    Walked T (L1 ++ [(k, n)]) (Client.recv true c (.upd n 0)) := by
  obtain ⟨leaf, hl, hr⟩ := recv_good true c hw.failed hw.stopped T hT k n 0 hg
  rw [hr]
  refine ⟨hw.failed, hw.stopped, hw.synced, ?_, treeAdd_nodup _ _ _ hw.nodup, ?_⟩
  · intro kv hkv
    rcases treeAdd_keys _ _ _ kv hkv with e | hm
    · exact ⟨k, e, by simp⟩
    · obtain ⟨k', e1, e2⟩ := hw.keys kv hm
      exact ⟨k', e1, by simp only [List.map_append, List.mem_append]; exact Or.inl e2⟩
  · intro k' hm'
    rw [List.find?_append]
    by_cases e : k' = k
    · subst e
      have hnone : L1.find? (fun e => e.1 == k') = none := by
        rw [List.find?_eq_none]
        intro x hx hx'
        exact hk (List.mem_map.2 ⟨x, hx, by simpa using hx'⟩)
      have hcf : PMap.conflicts c.tree (T :: k') = false := by
        unfold PMap.conflicts
        rw [List.any_eq_false]
        intro kv hkv
        obtain ⟨k2, e1, e2⟩ := hw.keys kv hkv
        obtain ⟨x, hx, hxk⟩ := List.mem_map.1 e2
        have := hpf hm' x hx
        rw [hxk] at this
        rw [e1, isPrefixOf_cons_cons, isPrefixOf_cons_cons, this]
        simp
      show cget (treeAdd c.tree (T :: k') leaf) (T :: k') = _
      rw [cget_treeAdd_same _ _ _ hcf, hnone]
      simp [hl]
    · show cget (treeAdd c.tree (T :: k) leaf) (T :: k') = _
      rw [cget_treeAdd_other _ _ _ _ (by simpa using e), hw.get k' hm']
      have : ((k == k') = false) := by simpa using fun h => e h.symm
      cases L1.find? (fun e => e.1 == k') with
      | some x => simp
      | none => simp [this]

/-- the whole walk -/
theorem walked_all (T : String) (hT : T ≠ "") :
    ∀ (L2 L1 : List (Path × Noti)) (c : Client), Walked T L1 c →
      ((L1 ++ L2).map (·.1)).Nodup → (∀ e ∈ L1 ++ L2, GoodLeaf T e.1 e.2 ∧ e.1 ≠ []) →
      (∀ a ∈ L1 ++ L2, ∀ b ∈ L1 ++ L2, isMetaKey a.1 = false ∨ isMetaKey b.1 = false →
        a.1.isPrefixOf b.1 = true → a.1 = b.1) →
      Walked T (L1 ++ L2) ((L2.map (fun e => Sub.Resp.upd e.2 0)).foldl (Client.recv true) c)
  | [], L1, c, hw, _, _, _ => by simpa using hw
  | (k, n) :: L2, L1, c, hw, hnd, hgd, hpf => by
    simp only [List.map_cons, List.foldl_cons]
    have hk : k ∉ L1.map (·.1) := by
      intro hm
      rw [List.map_append, List.map_cons] at hnd
      exact (List.nodup_append.1 hnd).2.2 k hm k (by simp) rfl
    have hmemE : (k, n) ∈ L1 ++ (k, n) :: L2 := by simp
    have hstep := walked_step T hT L1 c k n hw (hgd _ hmemE).1 hk (hgd _ hmemE).2
      (fun x hx => (hgd x (by simp [hx])).2)
      (fun hm x hx => by
        have hxm : x ∈ L1 ++ (k, n) :: L2 := by simp [hx]
        cases h1 : x.1.isPrefixOf k with
        | true =>
          have := hpf x hxm _ hmemE (Or.inr hm) h1
          exact absurd (List.mem_map.2 ⟨x, hx, this⟩) hk
        | false =>
          cases h2 : k.isPrefixOf x.1 with
          | true =>
            have := hpf _ hmemE x hxm (Or.inl hm) h2
            exact absurd (List.mem_map.2 ⟨x, hx, this.symm⟩) hk
          | false => rfl)
    have := walked_all T hT L2 (L1 ++ [(k, n)]) _ hstep (by simpa [List.append_assoc] using hnd)
      (by simpa [List.append_assoc] using hgd) (by simpa [List.append_assoc] using hpf)
    simpa [List.append_assoc] using this

/-! ### well-formed streams have prefix-free views with unique keys -/

/-- no key of the view is a proper prefix of another, and no key occurs twice -/
structure ViewOK (v : View) : Prop where
  pf : ∀ a ∈ v, ∀ b ∈ v, a.1.isPrefixOf b.1 = true → a.1 = b.1
  nodup : (v.map (·.1)).Nodup

theorem ViewOK.nil : ViewOK [] := ⟨(fun _ h => nomatch h), List.nodup_nil⟩

theorem ViewOK.remove {v : View} (h : ViewOK v) (q : Path) : ViewOK (v.remove q) :=
  ⟨fun a ha b hb => h.pf a (List.mem_filter.1 ha).1 b (List.mem_filter.1 hb).1,
   (List.filter_sublist.map _).nodup h.nodup⟩

theorem ViewOK.set {v : View} (h : ViewOK v) (k : Path) (ts : Int) (val : Val)
    (hc : keyConflicts v k = false) : ViewOK (v.set k ts val) := by
  unfold keyConflicts at hc
  rw [List.any_eq_false] at hc
  have hno : ∀ kv ∈ v, (kv.1.isPrefixOf k = true ∨ k.isPrefixOf kv.1 = true) → kv.1 = k := by
    intro kv hkv hp
    have := hc kv hkv
    simp only [Bool.and_eq_true, Bool.or_eq_true, bne_iff_ne, ne_eq, not_and, Decidable.not_not] at this
    exact this hp
  refine ⟨?_, ?_⟩
  · intro a ha b hb hab
    unfold View.set at ha hb
    rcases List.mem_cons.1 ha with ea | ha'
    · rcases List.mem_cons.1 hb with eb | hb'
      · rw [ea, eb]
      · rw [ea] at hab ⊢
        exact (hno b (List.mem_filter.1 hb').1 (Or.inr hab)).symm
    · rcases List.mem_cons.1 hb with eb | hb'
      · rw [eb] at hab ⊢
        exact hno a (List.mem_filter.1 ha').1 (Or.inl hab)
      · exact h.pf a (List.mem_filter.1 ha').1 b (List.mem_filter.1 hb').1 hab
  · unfold View.set
    simp only [List.map_cons, List.nodup_cons]
    refine ⟨?_, (List.filter_sublist.map _).nodup h.nodup⟩
    intro hm
    obtain ⟨kv, hkv, hk⟩ := List.mem_map.1 hm
    have := (List.mem_filter.1 hkv).2
    simp only [bne_iff_ne, ne_eq] at this
    exact this hk

theorem viewOK_updates {pn : Bool} {n : Noti} :
    ∀ {us : List Upd} {v : View}, ViewOK v → updatesOK true pn n us v = true → ViewOK (applyUpdates pn n us v)
  | [], _, h, _ => by simpa [applyUpdates] using h
  | u :: us, v, h, hok => by
    unfold updatesOK at hok
    simp only [Bool.and_eq_true] at hok
    unfold applyUpdates
    exact viewOK_updates (h.set _ _ _ (updOK_facts hok.1).2.1) hok.2

theorem viewOK_deletes {pn : Bool} {n : Noti} :
    ∀ {ds : List Del} {v : View}, ViewOK v → ViewOK (applyDeletes pn n ds v)
  | [], _, h => by simpa [applyDeletes] using h
  | d :: ds, v, h => by unfold applyDeletes; exact viewOK_deletes (h.remove _)

theorem viewOK_item {v : View} {it : TItem} (h : ViewOK v) (hok : itemOK true v it = true) :
    ViewOK (applyItem v it) := by
  cases it with
  | update pn n =>
    unfold itemOK at hok
    simp only [Bool.and_eq_true] at hok
    unfold applyItem
    exact viewOK_deletes (viewOK_updates h hok.1.2)
  | sync => exact h
  | error => exact h
  | nilResponse => exact h

theorem viewOK_run : ∀ (items : List TItem) (v : View), ViewOK v → wellFormedFrom true v items = true →
    ViewOK (items.foldl applyItem v)
  | [], _, h, _ => h
  | it :: r, v, h, hw => by
    unfold wellFormedFrom at hw
    simp only [Bool.and_eq_true] at hw
    exact viewOK_run r _ (viewOK_item h hw.1) hw.2

theorem viewOK_final (items : List TItem) (h : wellFormed true items = true) : ViewOK (finalView items) :=
  viewOK_run items [] ViewOK.nil h

theorem View.get_of_mem {v : View} (h : ViewOK v) {k : Path} {x : Int × Val} (hm : (k, x) ∈ v) :
    v.get k = some x := by
  unfold View.get
  have hnd := h.nodup
  clear h
  induction v with
  | nil => cases hm
  | cons y v ih =>
    simp only [List.map_cons, List.nodup_cons] at hnd
    simp only [List.find?_cons]
    rcases List.mem_cons.1 hm with e | hm'
    · rw [← e]; simp
    · have hne : y.1 ≠ k := by
        intro e
        exact hnd.1 (List.mem_map.2 ⟨(k, x), hm', by simp [e]⟩)
      have : (y.1 == k) = false := by simpa using hne
      simp only [this]
      exact ih hm' hnd.2

/-! ### any list of query paths: composition with C05 -/

theorem walkItems_client (c : Cache.State) (T : String) (hT : T ≠ "") (hT' : T ≠ "*") (t : Target)
    (hg : c.get T = some t) (qs : List Path) :
    Sub.walkItems c (clientReq T .once qs) =
      some (qs.flatMap (fun q => (PMap.query t.tree q).map (fun e => (T, e.1, e.2)))) := by
  have hstep : ∀ (q : Path) (items : List (String × Path × Noti)),
      (match Sub.completePath (clientReq T .once qs) { path := q } with
        | none => none
        | some full =>
          match c.query (clientReq T .once qs).target full with
          | none => some items
          | some found => some (items ++ found)) =
        some (items ++ (PMap.query t.tree q).map (fun e => (T, e.1, e.2))) := by
    intro q items
    have hq : c.query T ([] ++ q) = some ((PMap.query t.tree q).map (fun e => (T, e.1, e.2))) := by
      simp [State.query, hT, hT', hg]
    simp only [Sub.completePath, clientReq, ne_eq, not_true_eq_false, false_and, if_false, hq]
  have hfold : ∀ (l : List Path) (acc : List (String × Path × Noti)),
      (l.map (fun q => ({ path := q } : Sub.SubPath))).foldl (fun acc s =>
        match acc with
        | none => none
        | some items =>
          match Sub.completePath (clientReq T .once qs) s with
          | none => none
          | some full =>
            match c.query (clientReq T .once qs).target full with
            | none => some items
            | some found => some (items ++ found)) (some acc) =
        some (acc ++ l.flatMap (fun q => (PMap.query t.tree q).map (fun e => (T, e.1, e.2)))) := by
    intro l
    induction l with
    | nil => intro acc; simp
    | cons q l ih =>
      intro acc
      simp only [List.map_cons, List.foldl_cons, List.flatMap_cons]
      rw [hstep q acc, ih]
      simp [List.append_assoc]
  unfold Sub.walkItems
  have h1 : (clientReq T .once qs).updatesOnly = false := rfl
  have h2 : (clientReq T .once qs).subs = qs.map (fun q => ({ path := q } : Sub.SubPath)) := rfl
  simp only [h1, Bool.false_eq_true, if_false, h2]
  have := hfold qs []
  simp only [List.nil_append] at this
  exact this

/-- the client after the responses `B` of a walk over `tree` arrived (leaves may arrive more than
once: overlapping query paths) -/
structure WalkedB (T : String) (tree : PMap Noti) (B : List Sub.Resp) (c : Client) : Prop where
  failed : c.failed = false
  stopped : c.stopped = false
  synced : c.synced = false
  keys : ∀ kv ∈ c.tree, ∃ k n d, kv.1 = T :: k ∧ (k, n) ∈ tree ∧ Sub.Resp.upd n d ∈ B
  nodup : (c.tree.map (·.1)).Nodup
  get : ∀ k n d, isMetaKey k = false → (k, n) ∈ tree → Sub.Resp.upd n d ∈ B → cget c.tree (T :: k) = decLeaf n

theorem walkedB_step (T : String) (hT : T ≠ "") (tree : PMap Noti) (hu : UniqueKeys tree)
    (hgood : ∀ kv ∈ tree, GoodLeaf T kv.1 kv.2 ∧ kv.1 ≠ [])
    (hpf : ∀ a ∈ tree, ∀ b ∈ tree, isMetaKey a.1 = false ∨ isMetaKey b.1 = false →
      a.1.isPrefixOf b.1 = true → a.1 = b.1)
    (B : List Sub.Resp) (c : Client) (k : Path) (n : Noti) (d : Nat)
    (hw : WalkedB T tree B c) (hmem : (k, n) ∈ tree) :
    WalkedB T tree (B ++ [.upd n d]) (Client.recv true c (.upd n d)) := by
  obtain ⟨leaf, hl, hr⟩ := recv_good true c hw.failed hw.stopped T hT k n d (hgood _ hmem).1
  rw [hr]
  have hcf : isMetaKey k = false → PMap.conflicts c.tree (T :: k) = false := by
    intro hm
    unfold PMap.conflicts
    rw [List.any_eq_false]
    intro kv hkv
    obtain ⟨k2, n2, _, e1, e2, _⟩ := hw.keys kv hkv
    rw [e1, isPrefixOf_cons_cons, isPrefixOf_cons_cons]
    by_cases hk : k2 = k
    · simp [hk]
    · have h1 : k2.isPrefixOf k = false := by
        cases h : k2.isPrefixOf k with
        | false => rfl
        | true => exact absurd (hpf _ e2 _ hmem (Or.inr hm) h) hk
      have h2 : k.isPrefixOf k2 = false := by
        cases h : k.isPrefixOf k2 with
        | false => rfl
        | true => exact absurd (hpf _ hmem _ e2 (Or.inl hm) h).symm hk
      simp [h1, h2]
  refine ⟨hw.failed, hw.stopped, hw.synced, ?_, treeAdd_nodup _ _ _ hw.nodup, ?_⟩
  · intro kv hkv
    rcases treeAdd_keys _ _ _ kv hkv with e | hm
    · exact ⟨k, n, d, e, hmem, by simp⟩
    · obtain ⟨k', n', d', e1, e2, e3⟩ := hw.keys kv hm
      exact ⟨k', n', d', e1, e2, by simp [e3]⟩
  · intro k' n' d' hm' hmem' hB
    show cget (treeAdd c.tree (T :: k) leaf) (T :: k') = _
    by_cases e : k' = k
    · subst e
      have hn : n' = n := by
        have h1 := lookup_some_of_mem hu hmem'
        have h2 := lookup_some_of_mem hu hmem
        rw [h1] at h2; exact Option.some.inj h2
      rw [cget_treeAdd_same _ _ _ (hcf hm'), hn, hl]
    · rw [cget_treeAdd_other _ _ _ _ (by simpa using e)]
      rcases List.mem_append.1 hB with h | h
      · exact hw.get k' n' d' hm' hmem' h
      · simp only [List.mem_singleton, Sub.Resp.upd.injEq] at h
        -- the same notification under another key: impossible, a good leaf's key is its own index
        obtain ⟨_, _, _, u1, hu1, _, hk1⟩ := (hgood _ hmem').1
        obtain ⟨_, _, _, u2, hu2, _, hk2⟩ := (hgood _ hmem).1
        have a1 : n'.upd = [u1] := hu1
        have a2 : n.upd = [u2] := hu2
        rw [h.1, a2] at a1
        simp only [List.cons.injEq, and_true] at a1
        have b1 : k' = joinKey n' u1.path := hk1
        have b2 : k = joinKey n u2.path := hk2
        exact absurd (by rw [b1, b2, h.1, a1]) e

theorem walkedB_all (T : String) (hT : T ≠ "") (tree : PMap Noti) (hu : UniqueKeys tree)
    (hgood : ∀ kv ∈ tree, GoodLeaf T kv.1 kv.2 ∧ kv.1 ≠ [])
    (hpf : ∀ a ∈ tree, ∀ b ∈ tree, isMetaKey a.1 = false ∨ isMetaKey b.1 = false →
      a.1.isPrefixOf b.1 = true → a.1 = b.1) :
    ∀ (B2 B1 : List Sub.Resp) (c : Client), WalkedB T tree B1 c →
      (∀ x ∈ B2, ∃ k n d, x = Sub.Resp.upd n d ∧ (k, n) ∈ tree) →
      WalkedB T tree (B1 ++ B2) (B2.foldl (Client.recv true) c)
  | [], B1, c, hw, _ => by simpa using hw
  | x :: B2, B1, c, hw, hB => by
    obtain ⟨k, n, d, rfl, hmem⟩ := hB x (by simp)
    simp only [List.foldl_cons]
    have hstep := walkedB_step T hT tree hu hgood hpf B1 c k n d hw hmem
    have := walkedB_all T hT tree hu hgood hpf B2 (B1 ++ [.upd n d]) _ hstep
      (fun y hy => hB y (by simp [hy]))
    simpa [List.append_assoc] using this

end Relay
end Gnmi
