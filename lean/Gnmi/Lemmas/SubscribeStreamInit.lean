import Gnmi.Lemmas.SubscribeStream
import Gnmi.Lemmas.CacheNames
/-!
# The initial walk of a STREAM subscription delivers the matching snapshot

`streamSub_inv`: the subscriber created by `Sub.subscribe` for an accepted STREAM request that wants
the snapshot (flow control open: `streamSub`, by `subscribe_new` / `subscribe_stream_eq`), if alive,
satisfies `SubInv` against the cache it walked: the replay of the snapshot it was sent agrees with
the cache on the keys its registered queries match, and holds nothing else.  `items_iff`: the walk
collects exactly the leaves the registered queries match; `streamSub_alive`: it is alive when every
subscription path completes.
-/
namespace Gnmi
namespace SubStream
open Cache Sub Feed

/-- what the argument needs of a cache state (all consequences of `C03`'s invariants) -/
structure CacheOK (c : Cache.State) : Prop where
  names : NamesUnique c
  gt : ∀ t tg, c.get t = some tg → GT c.cfg t tg.tree tg.tree
  noStar : c.get glob = none

theorem treesOf_some {c : Cache.State} {t : String} {tg : Target} (h : c.get t = some tg) :
    treesOf c t = tg.tree := by
  unfold treesOf; rw [h]

theorem treesOf_none {c : Cache.State} {t : String} (h : c.get t = none) : treesOf c t = [] := by
  unfold treesOf; rw [h]

theorem CacheOK.vok {c : Cache.State} (h : CacheOK c) : VOK (treesOf c) := by
  refine ⟨?_, ?_, treesOf_none h.noStar⟩
  · intro t
    cases hg : c.get t with
    | none => rw [treesOf_none hg]; intro a ha; cases ha
    | some tg => rw [treesOf_some hg]; exact (h.gt t tg hg).pf
  · intro t
    cases hg : c.get t with
    | none => rw [treesOf_none hg]; intro a ha; cases ha
    | some tg => rw [treesOf_some hg]; exact (h.gt t tg hg).noGlob

theorem CacheOK.hkey {c : Cache.State} (h : CacheOK c) (t : String) (k : Path) (n : Noti)
    (hl : lookup (treesOf c t) k = some n) : respKey n = t :: k := by
  cases hg : c.get t with
  | none => rw [treesOf_none hg] at hl; simp [lookup] at hl
  | some tg =>
    rw [treesOf_some hg] at hl
    have hm := mem_of_lookup_some hl
    obtain ⟨u, us, hu, hk, _⟩ := (h.gt t tg hg).storedAt _ hm
    have ho := (h.gt t tg hg).owner _ hm
    simp only at hu hk ho
    rw [respKey_eq, ho, evKey_eq hu, hk]

theorem CacheOK.unique {c : Cache.State} (h : CacheOK c) {t : String} {tg : Target} (hg : c.get t = some tg) :
    UniqueKeys tg.tree := (h.gt t tg hg).unique

/-! ## keys of a replayed queue -/

theorem applyQ_keys : ∀ (Q : List (Item × Nat)) (W : PMap Noti) (κ : Path),
    (lookup (applyQ W Q) κ).isSome = true →
    (lookup W κ).isSome = true ∨ ∃ x ∈ Q, ∃ n d, toResp x = .upd n d ∧ respKey n = κ
  | [], _, _, h => Or.inl h
  | x :: Q, W, κ, h => by
    rw [applyQ_cons] at h
    rcases applyQ_keys Q _ κ h with h1 | ⟨y, hy, n, d, h2, h3⟩
    · rw [lookup_applyResp] at h1
      cases hr : toResp x with
      | upd n d =>
        rw [hr] at h1
        simp only [eff] at h1
        split at h1
        · rename_i hk
          exact Or.inr ⟨x, List.mem_cons_self .., n, d, hr, hk⟩
        · split at h1
          · cases h1
          · exact Or.inl h1
      | del t o p ts d =>
        rw [hr] at h1
        simp only [eff] at h1
        split at h1
        · cases h1
        · exact Or.inl h1
      | sync =>
        rw [hr] at h1
        exact Or.inl h1
    · exact Or.inr ⟨y, List.mem_cons_of_mem _ hy, n, d, h2, h3⟩

/-! ## the walk -/

abbrev WalkItem := String × Path × Noti

structure WalkInv (V : Views) (seen : List WalkItem) (Q : List (Item × Nat)) : Prop where
  handles : ∀ x ∈ Q, ∃ t k m d, x = (Item.handle t k m, d) ∧ lookup (V t) k = some m ∧ (t, k, m) ∈ seen
  pw : Q.Pairwise noAff
  ext : ExtFree [] Q
  complete : ∀ it ∈ seen, ∃ d, (Item.handle it.1 it.2.1 it.2.2, d) ∈ Q

theorem walkInv_nil (V : Views) : WalkInv V [] [] :=
  ⟨(fun x hx => by cases hx), List.Pairwise.nil, trivial, (fun it hit => by cases hit)⟩

theorem noHandleBeforeCover_of_handles {Q : List (Item × Nat)}
    (h : ∀ x ∈ Q, ∃ t k m d, x = (Item.handle t k m, d)) (t : String) (k : Path) :
    NoHandleBeforeCover Q t k := by
  intro a e d b hq _
  exfalso
  obtain ⟨t', k', m', d', he⟩ := h (Item.note e, d) (by rw [hq]; simp)
  cases he

theorem walk_step {V : Views} (hV : VOK V) (hkey : ∀ t k n, lookup (V t) k = some n → respKey n = t :: k)
    {seen : List WalkItem} {Q : List (Item × Nat)} (h : WalkInv V seen Q) (t : String) (k : Path) (m : Noti)
    (hl : lookup (V t) k = some m) :
    WalkInv V (seen ++ [(t, k, m)]) (insertHandle Q t k m) := by
  have hrk := hkey t k m hl
  rw [insertHandle_eq _ _ _ _ (noHandleBeforeCover_of_handles
    (fun x hx => by obtain ⟨t', k', m', d', he, _⟩ := h.handles x hx; exact ⟨t', k', m', d', he⟩) t k)]
  by_cases hany : Q.any (fun x => isHandleFor t k x.1) = true
  · rw [if_pos hany]
    -- the handle is queued already (same leaf, same notification)
    have hsame : ∀ x ∈ Q, isHandleFor t k x.1 = true → x.1 = Item.handle t k m := by
      intro x hx hh
      obtain ⟨t', k', m', d', he, hl', _⟩ := h.handles x hx
      obtain ⟨m'', hm''⟩ := isHandleFor_elim hh
      rw [he] at hm''
      simp only [Item.handle.injEq] at hm''
      obtain ⟨rfl, rfl, rfl⟩ := hm''
      rw [hl] at hl'
      rw [he, Option.some.inj hl']
    have hf : ∀ x ∈ Q, HRepl x (if isHandleFor t k x.1 then (Item.handle t k m, x.2 + 1) else x) := by
      intro x hx
      by_cases hh : isHandleFor t k x.1 = true
      · rw [if_pos hh]
        right
        refine ⟨t, k, m, m, x.2, x.2 + 1, ?_, rfl, hrk, hrk⟩
        obtain ⟨it, d⟩ := x
        have := hsame _ hx hh
        simp only at this
        rw [this]
      · rw [if_neg hh]; exact Or.inl rfl
    refine ⟨?_, pairwise_hrepl _ hf h.pw, (extFree_hrepl _ hf h.ext).1, ?_⟩
    · intro y hy
      obtain ⟨x, hx, rfl⟩ := List.mem_map.1 hy
      by_cases hh : isHandleFor t k x.1 = true
      · rw [if_pos hh]
        exact ⟨t, k, m, x.2 + 1, rfl, hl, by simp⟩
      · rw [if_neg hh]
        obtain ⟨t', k', m', d', he, hl', hs⟩ := h.handles x hx
        exact ⟨t', k', m', d', he, hl', List.mem_append_left _ hs⟩
    · intro it hit
      rcases List.mem_append.1 hit with hit | hit
      · obtain ⟨d, hd⟩ := h.complete it hit
        by_cases hh : isHandleFor t k (Item.handle it.1 it.2.1 it.2.2) = true
        · have := hsame _ hd hh
          simp only at this
          refine ⟨d + 1, List.mem_map.2 ⟨_, hd, ?_⟩⟩
          rw [if_pos hh, this]
        · exact ⟨d, List.mem_map.2 ⟨_, hd, by rw [if_neg hh]⟩⟩
      · simp only [List.mem_singleton] at hit
        subst hit
        obtain ⟨x, hx, hh⟩ := List.any_eq_true.1 hany
        refine ⟨x.2 + 1, List.mem_map.2 ⟨x, hx, ?_⟩⟩
        rw [if_pos hh]
  · rw [if_neg hany]
    have hany' : Q.any (fun x => isHandleFor t k x.1) = false := by simpa using hany
    refine ⟨?_, ?_, ?_, ?_⟩
    · intro y hy
      rcases List.mem_append.1 hy with hy | hy
      · obtain ⟨t', k', m', d', he, hl', hs⟩ := h.handles y hy
        exact ⟨t', k', m', d', he, hl', List.mem_append_left _ hs⟩
      · simp only [List.mem_singleton] at hy
        exact ⟨t, k, m, 0, hy, hl, by simp⟩
    · refine List.pairwise_append.2 ⟨h.pw, List.pairwise_singleton _ _, ?_⟩
      intro a ha b hb
      simp only [List.mem_singleton] at hb
      subst hb
      obtain ⟨t', k', m', d', he, hl', _⟩ := h.handles a ha
      subst he
      show touches (t' :: k') (.upd m 0) = false
      cases htc : touches (t' :: k') (.upd m 0) with
      | false => rfl
      | true =>
        exfalso
        have hp : respKey m <+: t' :: k' := List.isPrefixOf_iff_prefix.1 htc
        rw [hrk, List.cons_prefix_cons] at hp
        obtain ⟨rfl, hp⟩ := hp
        have := hV.pf t (k, m) (mem_of_lookup_some hl) (k', m') (mem_of_lookup_some hl') hp
        simp only at this
        subst this
        have := List.any_eq_false.1 hany' _ ha
        simp [isHandleFor] at this
    · refine (extFree_append Q [] _).2 ⟨h.ext, ?_, trivial⟩
      show extOK (applyQ [] Q) (.upd m 0)
      intro κ hp hne
      cases hlk : lookup (applyQ [] Q) κ with
      | none => rfl
      | some v =>
        exfalso
        rcases applyQ_keys Q [] κ (by rw [hlk]; rfl) with h0 | ⟨x, hx, n, d, hr, hk⟩
        · simp [lookup] at h0
        · obtain ⟨t', k', m', d', he, hl', _⟩ := h.handles x hx
          subst he
          simp only [toResp, Resp.upd.injEq] at hr
          obtain ⟨rfl, _⟩ := hr
          rw [hkey t' k' m' hl'] at hk
          subst hk
          rw [hrk] at hp
          rcases hp with hp | hp
          · rw [List.cons_prefix_cons] at hp
            obtain ⟨rfl, hp⟩ := hp
            have := hV.pf t (k, m) (mem_of_lookup_some hl) (k', m') (mem_of_lookup_some hl') hp
            simp only at this
            subst this
            exact hne hrk.symm
          · rw [List.cons_prefix_cons] at hp
            obtain ⟨rfl, hp⟩ := hp
            have := hV.pf t' (k', m') (mem_of_lookup_some hl') (k, m) (mem_of_lookup_some hl) hp
            simp only at this
            subst this
            exact hne hrk.symm
    · intro it hit
      rcases List.mem_append.1 hit with hit | hit
      · obtain ⟨d, hd⟩ := h.complete it hit
        exact ⟨d, List.mem_append_left _ hd⟩
      · simp only [List.mem_singleton] at hit
        subst hit
        exact ⟨0, by simp⟩

theorem walk_fold {V : Views} (hV : VOK V) (hkey : ∀ t k n, lookup (V t) k = some n → respKey n = t :: k) :
    ∀ (items seen : List WalkItem) (Q : List (Item × Nat)), WalkInv V seen Q →
      (∀ it ∈ items, lookup (V it.1) it.2.1 = some it.2.2) →
      WalkInv V (seen ++ items) (items.foldl (fun q it => insertHandle q it.1 it.2.1 it.2.2) Q)
  | [], seen, Q, h, _ => by simpa using h
  | it :: items, seen, Q, h, hit => by
    have h1 := walk_step hV hkey h it.1 it.2.1 it.2.2 (hit it (List.mem_cons_self ..))
    have := walk_fold hV hkey items _ _ h1 (fun x hx => hit x (List.mem_cons_of_mem _ hx))
    simpa using this

/-! ## registered queries vs walked paths; what `Cache.Query` returns -/

theorem completePath_reg (r : Req) (sp : SubPath) (full : Path) (h : completePath r sp = some full) :
    (r.target :: ((if r.origin = "" then [] else [r.origin]) ++ r.pfx)) ++
      (if r.origin = "" ∧ sp.origin ≠ "" then [sp.origin] else []) ++ sp.path = r.target :: full := by
  unfold completePath at h
  by_cases h1 : r.origin = ""
  · by_cases h2 : sp.origin = ""
    · simp [h1, h2] at h
      simp [h1, h2, h]
    · simp [h1, h2] at h
      obtain ⟨hp, rfl⟩ := h
      simp [h1, h2, hp]
  · by_cases h2 : sp.origin = ""
    · simp [h1, h2] at h
      simp [h1, h2, ← h]
    · simp [h1, h2] at h

theorem mem_regQueries (r : Req) (q : Path) :
    q ∈ regQueries r ↔ ∃ sp ∈ r.subs, q = (r.target :: ((if r.origin = "" then [] else [r.origin]) ++ r.pfx)) ++
      (if r.origin = "" ∧ sp.origin ≠ "" then [sp.origin] else []) ++ sp.path := by
  unfold regQueries
  simp only [List.mem_map]
  constructor
  · rintro ⟨sp, hsp, rfl⟩; exact ⟨sp, hsp, rfl⟩
  · rintro ⟨sp, hsp, rfl⟩; exact ⟨sp, hsp, rfl⟩

theorem regsOK_regQueries (r : Req) : RegsOK r.target (regQueries r) := by
  intro q hq
  obtain ⟨sp, _, rfl⟩ := (mem_regQueries r q).1 hq
  exact ⟨((if r.origin = "" then [] else [r.origin]) ++ r.pfx ++
    (if r.origin = "" ∧ sp.origin ≠ "" then [sp.origin] else [])) ++ sp.path, rfl⟩

theorem walk_none_absorbs (c : Cache.State) (r : Req) : ∀ (l : List SubPath), l.foldl (fun acc s =>
    match acc with
    | none => none
    | some items =>
      match completePath r s with
      | none => none
      | some full =>
        match c.query r.target full with
        | none => some items
        | some found => some (items ++ found)) (none : Option (List WalkItem)) = none := by
  intro l
  induction l with
  | nil => rfl
  | cons a l ih => simpa using ih

theorem walkItems_all_complete (c : Cache.State) (r : Req) (items : List WalkItem) (huo : r.updatesOnly = false)
    (hw : walkItems c r = some items) : ∀ sp ∈ r.subs, ∃ full, completePath r sp = some full := by
  unfold walkItems at hw
  simp only [huo, Bool.false_eq_true, if_false] at hw
  suffices ∀ (subs : List SubPath) (acc : List WalkItem),
      subs.foldl (fun acc s =>
        match acc with
        | none => none
        | some items =>
          match completePath r s with
          | none => none
          | some full =>
            match c.query r.target full with
            | none => some items
            | some found => some (items ++ found)) (some acc) = some items →
      ∀ sp ∈ subs, ∃ full, completePath r sp = some full from this r.subs [] hw
  intro subs
  induction subs with
  | nil => intro _ _ sp hsp; cases hsp
  | cons s subs ih =>
    intro acc h sp hsp
    simp only [List.foldl_cons] at h
    cases hc : completePath r s with
    | none =>
      rw [hc] at h
      simp only at h
      rw [walk_none_absorbs] at h
      cases h
    | some full =>
      rcases List.mem_cons.1 hsp with rfl | hsp'
      · exact ⟨full, hc⟩
      · rw [hc] at h
        simp only at h
        cases hq : c.query r.target full with
        | none => rw [hq] at h; exact ih acc h sp hsp'
        | some found => rw [hq] at h; exact ih _ h sp hsp'

theorem mem_targets_iff {c : Cache.State} (hn : NamesUnique c) (t : String) (tg : Target) :
    (t, tg) ∈ c.targets ↔ c.get t = some tg := by
  constructor
  · exact get_of_mem hn
  · intro h
    unfold State.get at h
    simp only [Option.map_eq_some_iff] at h
    obtain ⟨kv, hf, rfl⟩ := h
    have h1 := List.mem_of_find?_eq_some hf
    have h2 := List.find?_some hf
    have : kv.1 = t := by simpa using h2
    rw [← this]
    exact h1

theorem query_mem {c : Cache.State} (hn : NamesUnique c) {T : String} (hT : T ≠ "")
    (hex : T = glob ∨ (c.get T).isSome = true) (full : Path) :
    ∃ found, c.query T full = some found ∧ ∀ t k m, (t, k, m) ∈ found ↔
      tOK T t ∧ ∃ tg, c.get t = some tg ∧ (k, m) ∈ tg.tree ∧ qmatches full k = true := by
  unfold State.query
  rw [if_neg hT]
  by_cases hs : T = "*"
  · rw [if_pos hs]
    refine ⟨_, rfl, ?_⟩
    intro t k m
    simp only [List.mem_flatMap, List.mem_map, PMap.query, List.mem_filter]
    constructor
    · rintro ⟨kv, hkv, e, ⟨he, hq⟩, heq⟩
      simp only [Prod.mk.injEq] at heq
      obtain ⟨rfl, rfl, rfl⟩ := heq
      exact ⟨Or.inl hs, kv.2, (mem_targets_iff hn _ _).1 hkv, he, hq⟩
    · rintro ⟨_, tg, hg, hm, hq⟩
      exact ⟨(t, tg), (mem_targets_iff hn _ _).2 hg, (k, m), ⟨hm, hq⟩, rfl⟩
  · rw [if_neg hs]
    have hex' : (c.get T).isSome = true := by
      rcases hex with h | h
      · exact absurd h hs
      · exact h
    cases hg : c.get T with
    | none => rw [hg] at hex'; cases hex'
    | some tg =>
      refine ⟨_, rfl, ?_⟩
      intro t k m
      simp only [List.mem_map, PMap.query, List.mem_filter]
      constructor
      · rintro ⟨e, ⟨he, hq⟩, heq⟩
        simp only [Prod.mk.injEq] at heq
        obtain ⟨rfl, rfl, rfl⟩ := heq
        exact ⟨Or.inr rfl, tg, hg, he, hq⟩
      · rintro ⟨ht, tg', hg', hm, hq⟩
        have htT : t = T := by
          rcases ht with h | h
          · exact absurd h hs
          · exact h
        subst htT
        rw [hg] at hg'
        cases hg'
        exact ⟨(k, m), ⟨hm, hq⟩, rfl⟩

theorem qmatches_reg {T t : String} (full k : Path) :
    qmatches (T :: full) (t :: k) = true ↔ (T = glob ∨ T = t) ∧ qmatches full k = true := by
  rw [C06.qmatches_cons_cons]
  simp only [Bool.and_eq_true, Bool.or_eq_true, beq_iff_eq]

/-- the walk collects exactly the leaves the registered queries match -/
theorem items_iff {c : Cache.State} (hc : CacheOK c) {r : Req} {items : List WalkItem}
    (hT : r.target ≠ "") (hex : r.target = glob ∨ (c.get r.target).isSome = true)
    (huo : r.updatesOnly = false) (hw : walkItems c r = some items) (t : String) (k : Path) (m : Noti) :
    (t, k, m) ∈ items ↔
      lookup (treesOf c t) k = some m ∧ (regQueries r).any (fun q => qmatches q (t :: k)) = true := by
  rw [C05.walkItems_mem c r items huo hw]
  constructor
  · rintro ⟨sp, hsp, full, found, hcp, hq, hmem⟩
    obtain ⟨found', hq', hiff⟩ := query_mem hc.names hT hex full
    rw [hq] at hq'
    cases hq'
    obtain ⟨htok, tg, hg, hm, hqm⟩ := (hiff t k m).1 hmem
    refine ⟨?_, ?_⟩
    · rw [treesOf_some hg]
      exact lookup_some_of_mem (hc.unique hg) hm
    · refine List.any_eq_true.2 ⟨r.target :: full, ?_, ?_⟩
      · rw [mem_regQueries]
        exact ⟨sp, hsp, (completePath_reg r sp full hcp).symm⟩
      · rw [qmatches_reg]
        refine ⟨?_, hqm⟩
        rcases htok with h | h
        · exact Or.inl h
        · exact Or.inr h.symm
  · rintro ⟨hl, hm⟩
    obtain ⟨q, hq, hqm⟩ := List.any_eq_true.1 hm
    obtain ⟨sp, hsp, rfl⟩ := (mem_regQueries r q).1 hq
    obtain ⟨full, hcp⟩ := walkItems_all_complete c r items huo hw sp hsp
    rw [completePath_reg r sp full hcp, qmatches_reg] at hqm
    obtain ⟨found, hqf, hiff⟩ := query_mem hc.names hT hex full
    refine ⟨sp, hsp, full, found, hcp, hqf, (hiff t k m).2 ⟨?_, ?_⟩⟩
    · rcases hqm.1 with h | h
      · exact Or.inl h
      · exact Or.inr h.symm
    · cases hg : c.get t with
      | none => rw [treesOf_none hg] at hl; simp [lookup] at hl
      | some tg =>
        rw [treesOf_some hg] at hl
        exact ⟨tg, rfl, mem_of_lookup_some hl, hqm.2⟩

theorem applyQ_nil (W : PMap Noti) : applyQ W [] = W := rfl

/-- the subscriber `Sub.subscribe` creates for an accepted STREAM request that wants the snapshot
(flow control open) -/
def streamSub (c : Cache.State) (id : String) (r : Req) (acl : Acl) : Subscriber :=
  pumpAll (doWalk c { newSubscriber false id r acl with regs := regQueries r })

theorem doWalk_req (c : Cache.State) (s : Subscriber) : (doWalk c s).req = s.req := by
  unfold doWalk; split <;> rfl

theorem doWalk_acl (c : Cache.State) (s : Subscriber) : (doWalk c s).acl = s.acl := by
  unfold doWalk; split <;> rfl

theorem streamSub_req (c : Cache.State) (id : String) (r : Req) (acl : Acl) : (streamSub c id r acl).req = r := by
  unfold streamSub pumpAll
  rw [pump_req, doWalk_req]; rfl

theorem streamSub_acl (c : Cache.State) (id : String) (r : Req) (acl : Acl) : (streamSub c id r acl).acl = acl := by
  unfold streamSub pumpAll
  rw [pump_acl, doWalk_acl]; rfl

theorem streamSub_inv {c : Cache.State} (hc : CacheOK c) (id : String) (r : Req) (acl : Acl)
    (hT : r.target ≠ "") (hex : r.target = glob ∨ (c.get r.target).isSome = true)
    (hl : Live (streamSub c id r acl)) : SubInv c.cfg (treesOf c) (streamSub c id r acl) := by
  have huo : r.updatesOnly = false := by have := hl.2.2; rw [streamSub_req] at this; exact this
  cases hw : walkItems c r with
  | none =>
    exfalso
    have : (streamSub c id r acl).alive = false := by
      unfold streamSub pumpAll doWalk
      simp only [newSubscriber, hw]
      rw [pump_dead _ _ rfl]
    rw [hl.1] at this
    cases this
  | some items =>
    have hV := hc.vok
    have hkey := hc.hkey
    have hit := items_iff hc hT hex huo hw
    have hwalk := walk_fold hV hkey items [] [] (walkInv_nil _)
      (fun it hi => ((hit it.1 it.2.1 it.2.2).1 hi).1)
    simp only [List.nil_append] at hwalk
    generalize hQ : items.foldl (fun q it => insertHandle q it.1 it.2.1 it.2.2) [] = Q at hwalk
    have hsync : insertSync Q = Q ++ [(Item.sync, 0)] := by
      unfold insertSync
      have : Q.any (fun x => x.1 == Item.sync) = false := by
        rw [List.any_eq_false]
        intro x hx
        obtain ⟨t, k, m, d, he, _⟩ := hwalk.handles x hx
        rw [he]; simp
      simp [this]
    have hform : streamSub c id r acl =
        pumpAll { newSubscriber false id r acl with regs := regQueries r, queue := Q ++ [(Item.sync, 0)] } := by
      unfold streamSub doWalk
      simp only [newSubscriber, hw, hQ, hsync]
    have hmT : ∀ t k m, lookup (treesOf c t) k = some m → m.target = t := by
      intro t k m hlk
      have := hkey t k m hlk
      rw [respKey_eq] at this
      injection this
    have hopen := pumpAll_open
      { newSubscriber false id r acl with regs := regQueries r, queue := Q ++ [(Item.sync, 0)] }
      rfl rfl rfl rfl
    rw [← hform] at hopen
    rcases hopen with hdead | hres
    · rw [hl.1] at hdead; cases hdead
    · rw [hres]
      refine ⟨rfl, rfl, rfl, rfl, regsOK_regQueries r,
        ⟨(Q ++ [(Item.sync, 0)]).map (fun x => (toResp x, false)), ?_, ?_, ?_, ?_, ?_⟩, rfl, rfl⟩
      · show [] ++ ((Q ++ [(Item.sync, 0)]).filter (fun x => !denied acl (toResp x))).map
            (fun x => (toResp x, false)) =
          ((Q ++ [(Item.sync, 0)]).map (fun x => (toResp x, false))).filter (fun x => !denied acl x.1)
        rw [List.filter_map, List.nil_append]
        rfl
      · intro x hx
        obtain ⟨y, hy, rfl⟩ := List.mem_map.1 hx
        rcases List.mem_append.1 hy with hy | hy
        · obtain ⟨t, k, m, d, he, hlk, _⟩ := hwalk.handles y hy
          subst he
          show m.target ≠ glob
          rw [hmT t k m hlk]
          exact ne_glob_of_isSome hV (by rw [hlk]; rfl)
        · simp only [List.mem_singleton] at hy
          subst hy; trivial
      · exact (extFreeR_map _ _ _).2 ((extFree_append Q [] _).2 ⟨hwalk.ext, trivial, trivial⟩)
      · simp [toResp]
      show QInv c.cfg r.target (regQueries r)
        (replay ((Q ++ [(Item.sync, 0)]).map (fun x => (toResp x, false)))) (treesOf c) []
      have hrp : replay ((Q ++ [(Item.sync, 0)]).map (fun x => (toResp x, false))) =
          applyQ (replay []) (Q ++ [(Item.sync, 0)]) := by
        have := replay_append [] (Q ++ [(Item.sync, 0)]) false
        simpa using this
      rw [hrp]
      have hW : ∀ κ, lookup (applyQ (replay []) (Q ++ [(Item.sync, 0)])) κ = lookup (applyQ [] Q) κ := by
        intro κ
        rw [lookup_snoc]
        rfl
      have hkeys : ∀ κ, (lookup (applyQ [] Q) κ).isSome = true →
          ∃ t k m, κ = t :: k ∧ lookup (treesOf c t) k = some m ∧ (t, k, m) ∈ items := by
        intro κ hκ
        rcases applyQ_keys Q [] κ hκ with h0 | ⟨x, hx, n, d, hr, hk⟩
        · simp [lookup] at h0
        · obtain ⟨t, k, m, d', he, hlk, hs⟩ := hwalk.handles x hx
          subst he
          simp only [toResp, Resp.upd.injEq] at hr
          obtain ⟨rfl, _⟩ := hr
          rw [hkey t k m hlk] at hk
          exact ⟨t, k, m, hk.symm, hlk, hs⟩
      refine ⟨trivial, List.Pairwise.nil, (fun x hx => by cases hx), ?_, ?_⟩
      · intro κ hκ
        rw [applyQ_nil, hW] at hκ
        obtain ⟨t, k, m, rfl, hlk, hs⟩ := hkeys κ hκ
        refine ⟨t, k, rfl, by rw [hlk]; rfl, ?_⟩
        obtain ⟨q, hq, hqm⟩ := List.any_eq_true.1 ((hit t k m).1 hs).2
        exact List.any_eq_true.2 ⟨q, hq, C06.query_subset_stream _ _ hqm⟩
      · intro t k hm
        rw [applyQ_nil, hW]
        cases hlk : lookup (treesOf c t) k with
        | some m =>
          obtain ⟨d, hd⟩ := hwalk.complete (t, k, m) ((hit t k m).2 ⟨hlk, hm⟩)
          rw [lookup_handle hwalk.ext hwalk.pw hd (hkey t k m hlk)]
          exact Or.inl rfl
        | none =>
          cases hv : lookup (applyQ [] Q) (t :: k) with
          | none => trivial
          | some v =>
            exfalso
            obtain ⟨t', k', m', he, hlk', _⟩ := hkeys (t :: k) (by rw [hv]; rfl)
            injection he with h1 h2
            subst h1 h2
            rw [hlk] at hlk'
            cases hlk'

theorem pumpAll_req (s : Subscriber) : (pumpAll s).req = s.req := pump_req _ _

/-- the subscriber a `Subscribe` call adds (flow control open): not a live STREAM subscription
with a snapshot, or `streamSub` of an accepted request -/
theorem subscribe_new (st : Sub.State) (id : String) (acl : Acl) (req : Option Req) (hpre : st.pregated = []) :
    ∃ s, subscribe st id acl req = { st with subs := st.subs ++ [s] } ∧
      (¬ Live s ∨ ∃ r, r.target ≠ "" ∧ st.cache.hasTarget r.target = true ∧
        s = streamSub st.cache id r acl) := by
  have dead : ∀ (c : Code) (a : Acl), ¬ Live { id := id, req := {}, acl := a, alive := false, status := some c } :=
    fun c a h => Bool.noConfusion h.1
  unfold subscribe
  simp only [hpre]
  split
  · exact ⟨_, rfl, Or.inl (dead _ _)⟩
  · split
    · exact ⟨_, rfl, Or.inl (dead _ _)⟩
    · rename_i r
      split
      · exact ⟨_, rfl, Or.inl (dead _ _)⟩
      · split
        · exact ⟨_, rfl, Or.inl (dead _ _)⟩
        · split
          · exact ⟨_, rfl, Or.inl (dead _ _)⟩
          · split
            · exact ⟨_, rfl, Or.inl (dead _ _)⟩
            · split
              · exact ⟨_, rfl, Or.inl (dead _ _)⟩
              · rename_i h1 h2 h3 h4 h5
                split
                · rename_i hm
                  refine ⟨_, rfl, Or.inl ?_⟩
                  intro hl
                  have := hl.2.1
                  rw [pumpAll_req] at this
                  have hr : ∀ x : Subscriber, (if x.alive = true then { x with closed := true } else x).req = x.req := by
                    intro x; split <;> rfl
                  rw [hr, doWalk_req] at this
                  simp only [newSubscriber] at this
                  rw [hm] at this
                  cases this
                · rename_i hm
                  refine ⟨_, rfl, Or.inl ?_⟩
                  intro hl
                  have := hl.2.1
                  rw [pumpAll_req, doWalk_req] at this
                  simp only [newSubscriber] at this
                  rw [hm] at this
                  cases this
                · by_cases huo : r.updatesOnly = true
                  · refine ⟨_, rfl, Or.inl ?_⟩
                    intro hl
                    have := hl.2.2
                    rw [pumpAll_req] at this
                    simp only [huo, if_true, newSubscriber] at this
                    cases this
                  · refine ⟨_, rfl, Or.inr ⟨r, h3, by simpa using h4, ?_⟩⟩
                    simp only [huo, Bool.false_eq_true, if_false, streamSub]
                    rfl
                · exact ⟨_, rfl, Or.inl (dead _ _)⟩

theorem doWalk_id (c : Cache.State) (s : Subscriber) : (doWalk c s).id = s.id := by
  unfold doWalk; split <;> rfl

theorem pumpAll_id (s : Subscriber) : (pumpAll s).id = s.id := pump_id _ _
theorem pumpAll_acl (s : Subscriber) : (pumpAll s).acl = s.acl := pump_acl _ _

/-- the subscriber a `Subscribe` call adds carries the call's id and ACL -/
theorem subscribe_new_id (st : Sub.State) (id : String) (acl : Acl) (req : Option Req) :
    ∀ x ∈ (subscribe st id acl req).subs, x ∈ st.subs ∨ (x.id = id ∧ x.acl = acl) := by
  have ended : ∀ (c : Code) (a : Acl), a = acl → ∀ x ∈ st.subs ++
      [({ id := id, req := {}, acl := a, alive := false, status := some c } : Subscriber)],
      x ∈ st.subs ∨ (x.id = id ∧ x.acl = acl) := by
    intro c a ha x hx
    rcases List.mem_append.1 hx with h1 | h1
    · exact Or.inl h1
    · simp only [List.mem_singleton] at h1; rw [h1]; exact Or.inr ⟨rfl, ha⟩
  have added : ∀ s : Subscriber, s.id = id → s.acl = acl → ∀ x ∈ st.subs ++ [s],
      x ∈ st.subs ∨ (x.id = id ∧ x.acl = acl) := by
    intro s h1 h2 x hx
    rcases List.mem_append.1 hx with h | h
    · exact Or.inl h
    · simp only [List.mem_singleton] at h; rw [h]; exact Or.inr ⟨h1, h2⟩
  unfold subscribe
  split
  · exact ended _ _ rfl
  · split
    · exact ended _ _ rfl
    · rename_i r
      simp only
      split
      · exact ended _ _ rfl
      · split
        · exact ended _ _ rfl
        · split
          · exact ended _ _ rfl
          · split
            · exact ended _ _ rfl
            · split
              · exact ended _ _ rfl
              · have hif : ∀ x : Subscriber, (if x.alive = true then { x with closed := true } else x).id = x.id ∧
                    (if x.alive = true then { x with closed := true } else x).acl = x.acl := by
                  intro x; split <;> exact ⟨rfl, rfl⟩
                split
                · apply added
                  · rw [pumpAll_id, (hif _).1, doWalk_id]; rfl
                  · rw [pumpAll_acl, (hif _).2, doWalk_acl]; rfl
                · apply added
                  · rw [pumpAll_id, doWalk_id]; rfl
                  · rw [pumpAll_acl, doWalk_acl]; rfl
                · by_cases huo : r.updatesOnly = true
                  · simp only [huo, if_true]
                    apply added
                    · rw [pumpAll_id]; rfl
                    · rw [pumpAll_acl]; rfl
                  · simp only [huo, Bool.false_eq_true, if_false]
                    apply added
                    · rw [pumpAll_id, doWalk_id]; rfl
                    · rw [pumpAll_acl, doWalk_acl]; rfl
                · exact ended _ _ rfl

/-! ### an accepted STREAM call without ACL: the subscriber is `streamSub`, and it is alive -/

theorem walkItems_isSome (c : Cache.State) (r : Req) (h : ∀ sp ∈ r.subs, (completePath r sp).isSome = true) :
    (walkItems c r).isSome = true := by
  unfold walkItems
  split
  · rfl
  · suffices ∀ (subs : List SubPath) (acc : List WalkItem), (∀ sp ∈ subs, (completePath r sp).isSome = true) →
        (subs.foldl (fun acc s =>
          match acc with
          | none => none
          | some items =>
            match completePath r s with
            | none => none
            | some full =>
              match c.query r.target full with
              | none => some items
              | some found => some (items ++ found)) (some acc)).isSome = true from this r.subs [] h
    intro subs
    induction subs with
    | nil => intro acc _; rfl
    | cons sp subs ih =>
      intro acc hs
      simp only [List.foldl_cons]
      have h1 := hs sp (List.mem_cons_self ..)
      cases hc : completePath r sp with
      | none => rw [hc] at h1; cases h1
      | some full =>
        simp only
        cases c.query r.target full with
        | none => exact ih acc (fun x hx => hs x (List.mem_cons_of_mem _ hx))
        | some found => exact ih _ (fun x hx => hs x (List.mem_cons_of_mem _ hx))

theorem streamSub_alive (c : Cache.State) (id : String) (r : Req) (acl : Acl)
    (h : ∀ sp ∈ r.subs, (completePath r sp).isSome = true) : (streamSub c id r acl).alive = true := by
  have hw := walkItems_isSome c r h
  cases hwi : walkItems c r with
  | none => rw [hwi] at hw; cases hw
  | some items =>
    have hq : ∀ (l : List WalkItem) (q : List (Item × Nat)),
        (∀ x ∈ q, ∃ t k m, x.1 = Item.handle t k m) →
        ∀ x ∈ l.foldl (fun q it => insertHandle q it.1 it.2.1 it.2.2) q, ∃ t k m, x.1 = Item.handle t k m := by
      intro l
      induction l with
      | nil => intro q hq; exact hq
      | cons it l ih =>
        intro q hq
        simp only [List.foldl_cons]
        apply ih
        intro x hx
        rcases mem_insertHandle hx with h1 | ⟨d, rfl⟩
        · exact hq x h1
        · exact ⟨_, _, _, rfl⟩
    have hQh := hq items [] (fun x hx => by cases hx)
    generalize hQ : items.foldl (fun q it => insertHandle q it.1 it.2.1 it.2.2) [] = Q at hQh
    have hform : streamSub c id r acl =
        pumpAll { newSubscriber false id r acl with regs := regQueries r, queue := insertSync Q } := by
      unfold streamSub doWalk
      simp only [newSubscriber, hwi, hQ]
    have hnt : ∀ x ∈ insertSync Q, isTargetDelete (toResp x) = false := by
      intro x hx
      unfold insertSync at hx
      split at hx
      · obtain ⟨y, hy, rfl⟩ := List.mem_map.1 hx
        split
        · rename_i hs
          have : y.1 = Item.sync := by simpa using hs
          rw [this]; rfl
        · obtain ⟨t, k, m, he⟩ := hQh y hy
          obtain ⟨it, d⟩ := y
          simp only at he
          subst he; rfl
      · rcases List.mem_append.1 hx with h1 | h1
        · obtain ⟨t, k, m, he⟩ := hQh x h1
          obtain ⟨it, d⟩ := x
          simp only at he
          subst he; rfl
        · simp only [List.mem_singleton] at h1
          subst h1; rfl
    rw [hform, pumpAll_open_noTD _ rfl rfl rfl rfl hnt]
    rfl

theorem streamSub_id (c : Cache.State) (id : String) (r : Req) (acl : Acl) : (streamSub c id r acl).id = id := by
  unfold streamSub
  rw [pumpAll_id, doWalk_id]; rfl

theorem subscribe_stream_eq (st : Sub.State) (id : String) (r : Req) (hpre : st.pregated = [])
    (h1 : r.hasSubscribe = true) (h2 : r.prefixNil = false) (h3 : r.target ≠ "")
    (h4 : st.cache.hasTarget r.target = true) (hm : r.mode = .stream) (huo : r.updatesOnly = false) :
    subscribe st id .absent (some r) = { st with subs := st.subs ++ [streamSub st.cache id r .absent] } := by
  unfold subscribe
  simp only [h1, h2, h3, h4, hm, huo, hpre, Acl.check, streamSub]
  simp

end SubStream
end Gnmi
