import Gnmi.Model.CTree
import Gnmi.Spec.PMap
/-!
Helper lemmas relating the trie model to its flat content `walk t`.
-/
namespace Gnmi
namespace Trie
variable {V : Type}

/-! ### basic facts about `walkL` -/

theorem mem_walkL {cs : List (String × Trie V)} {x : Path × V} :
    x ∈ walkL cs ↔ ∃ k t, (k, t) ∈ cs ∧ ∃ y ∈ walk t, x = pre k y := by
  induction cs with
  | nil => simp [walkL]
  | cons kt cs ih =>
    obtain ⟨k, t⟩ := kt
    simp only [walkL, List.mem_append, List.mem_map, ih, List.mem_cons]
    constructor
    · rintro (⟨y, hy, rfl⟩ | ⟨k', t', hm, y, hy, rfl⟩)
      · exact ⟨k, t, Or.inl rfl, y, hy, rfl⟩
      · exact ⟨k', t', Or.inr hm, y, hy, rfl⟩
    · rintro ⟨k', t', (h | hm), y, hy, rfl⟩
      · cases h; exact Or.inl ⟨y, hy, rfl⟩
      · exact Or.inr ⟨k', t', hm, y, hy, rfl⟩

/-- every key below a child list starts with one of the child names -/
theorem head_of_mem_walkL {cs : List (String × Trie V)} {x : Path × V} (h : x ∈ walkL cs) :
    ∃ k p, x.1 = k :: p ∧ ∃ t, (k, t) ∈ cs := by
  obtain ⟨k, t, hm, y, _, rfl⟩ := mem_walkL.1 h
  exact ⟨k, y.1, rfl, t, hm⟩

theorem filter_walkL_of_fresh {cs : List (String × Trie V)} {k : String}
    (hk : ∀ kt ∈ cs, kt.1 ≠ k) (f : Path × V → Bool)
    (hf : ∀ x : Path × V, (∀ p, x.1 ≠ k :: p) → f x = false) :
    (walkL cs).filter f = [] := by
  rw [List.filter_eq_nil_iff]
  intro x hx
  obtain ⟨k', p, hxp, t, hm⟩ := head_of_mem_walkL hx
  have : f x = false := hf x (by
    intro p' hp'
    rw [hxp] at hp'
    cases hp'
    exact hk _ hm rfl)
  simp [this]

theorem filter_walkL_keep_of_fresh {cs : List (String × Trie V)} {k : String}
    (hk : ∀ kt ∈ cs, kt.1 ≠ k) (f : Path × V → Bool)
    (hf : ∀ x : Path × V, (∀ p, x.1 ≠ k :: p) → f x = true) :
    (walkL cs).filter f = walkL cs := by
  rw [List.filter_eq_self]
  intro x hx
  obtain ⟨k', p, hxp, t, hm⟩ := head_of_mem_walkL hx
  exact hf x (by
    intro p' hp'
    rw [hxp] at hp'
    cases hp'
    exact hk _ hm rfl)

theorem filter_map_pre (k : String) (f : Path × V → Bool) (l : List (Path × V)) :
    (l.map (pre k)).filter f = (l.filter (fun y => f (pre k y))).map (pre k) := by
  induction l with
  | nil => rfl
  | cons a l ih =>
    simp only [List.map_cons, List.filter_cons, ih]
    split <;> simp

/-! ### `qmatches` on a child -/

theorem qmatches_nil (k : Path) : qmatches [] k = true := by
  cases k <;> rfl

theorem qmatches_cons_cons (g : String) (q : Path) (k : String) (ks : Path) :
    qmatches (g :: q) (k :: ks) = ((g == glob || g == k) && qmatches q ks) := by
  cases q <;> rfl

theorem qmatches_cons_nil_of_ne {g : String} (q : Path) (hg : g ≠ glob) :
    qmatches (g :: q) [] = false := by
  cases q <;> simp [qmatches, hg]

theorem filter_const_true {α : Type} (l : List α) : l.filter (fun _ => true) = l := by
  induction l <;> simp_all

theorem endsHere_eq (q : Path) : endsHere q = qmatches q [] := by
  match q with
  | [] => rfl
  | [_] => rfl
  | _ :: _ :: _ => rfl

/-! ### query = filter of the walk -/

mutual
theorem query_eq_filter : ∀ (t : Trie V) (q : Path), (t = .empty ∨ WF t) →
    query t q = (walk t).filter (fun kv => qmatches q kv.1)
  | .empty, q, _ => by simp [query, walk]
  | .leaf v, [], _ => by simp [query, walk, qmatches]
  | .leaf v, [g], _ => by
      by_cases h : g = glob <;> simp [query, walk, qmatches, h]
  | .leaf v, _ :: _ :: _, _ => by simp [query, walk, qmatches]
  | .branch cs, [], h => by
      have hw : WFL cs := by
        rcases h with h | h
        · cases h
        · exact h.2
      simp only [query, walk]
      rw [queryAll_nil cs hw]
      simp [qmatches_nil, filter_const_true]
  | .branch cs, g :: q, h => by
      have hw : WFL cs := by
        rcases h with h | h
        · cases h
        · exact h.2
      simp only [query, walk]
      by_cases hg : g = glob
      · simp only [hg, if_true]
        exact queryAll_glob cs q hw
      · simp only [hg, if_false]
        exact queryOne_eq cs g q hg hw
theorem queryAll_nil : ∀ (cs : List (String × Trie V)), WFL cs →
    queryAll cs [] = walkL cs
  | [], _ => rfl
  | (k, t) :: cs, h => by
      simp only [queryAll, walkL]
      rw [query_eq_filter t [] (Or.inr h.1), queryAll_nil cs h.2.2]
      simp [qmatches_nil, filter_const_true]
theorem queryAll_glob : ∀ (cs : List (String × Trie V)) (q : Path), WFL cs →
    queryAll cs q = (walkL cs).filter (fun kv => qmatches (glob :: q) kv.1)
  | [], _, _ => rfl
  | (k, t) :: cs, q, h => by
      simp only [queryAll, walkL, List.filter_append]
      rw [query_eq_filter t q (Or.inr h.1), queryAll_glob cs q h.2.2, filter_map_pre]
      simp [qmatches_cons_cons]
theorem queryOne_eq : ∀ (cs : List (String × Trie V)) (g : String) (q : Path), g ≠ glob → WFL cs →
    queryOne cs g q = (walkL cs).filter (fun kv => qmatches (g :: q) kv.1)
  | [], _, _, _, _ => rfl
  | (k, t) :: cs, g, q, hg, h => by
      simp only [queryOne, walkL, List.filter_append]
      by_cases hk : k = g
      · subst hk
        simp only [if_true]
        rw [query_eq_filter t q (Or.inr h.1), filter_map_pre]
        rw [filter_walkL_of_fresh h.2.1]
        · simp [qmatches_cons_cons]
        · intro x hx
          match x, hx with
          | ([], _), _ => simp [qmatches_cons_nil_of_ne q hg]
          | (k' :: p, _), hx =>
            have : k' ≠ k := fun e => hx p (by simp [e])
            simp [qmatches_cons_cons, hg, Ne.symm this]
      · simp only [hk, if_false]
        rw [queryOne_eq cs g q hg h.2.2, filter_map_pre]
        have : (walk t).filter (fun y => qmatches (g :: q) (pre k y).1) = [] := by
          rw [List.filter_eq_nil_iff]
          intro y _
          simp [qmatches_cons_cons, hg, Ne.symm hk]
        rw [this]; simp
end

/-! ### delete = partition of the walk -/

theorem isEmpty_iff (t : Trie V) : isEmpty t = true ↔ t = .empty := by
  cases t <;> simp [isEmpty]

theorem walk_mkBranch (cs : List (String × Trie V)) : walk (mkBranch cs) = walkL cs := by
  cases cs <;> simp [mkBranch, walk, walkL]

theorem wf_mkBranch {cs : List (String × Trie V)} (h : WFL cs) :
    mkBranch cs = .empty ∨ WF (mkBranch cs) := by
  cases cs with
  | nil => exact Or.inl rfl
  | cons a cs => exact Or.inr ⟨by simp, h⟩

theorem walk_ne_nil_of_WF : ∀ (t : Trie V), WF t → walk t ≠ []
  | .empty, h => by cases h
  | .leaf v, _ => by simp [walk]
  | .branch [], h => by exact absurd rfl h.1
  | .branch ((k, t) :: cs), h => by
      have := walk_ne_nil_of_WF t h.2.1
      simp [walk, walkL, this]

/-- The three facts about one delete step, bundled (they are proved together). -/
structure DelSpec (f : Path × V → Bool) (old : List (Path × V)) (rest removed : List (Path × V)) : Prop where
  removed_eq : removed = old.filter f
  rest_eq : rest = old.filter (fun kv => !f kv)

mutual
theorem del_spec (c : V → Bool) : ∀ (t : Trie V) (q : Path), (t = .empty ∨ WF t) →
    ((del c t q).1 = .empty ∨ WF (del c t q).1) ∧
    DelSpec (fun kv => qmatches q kv.1 && c kv.2) (walk t) (walk (del c t q).1) (del c t q).2
  | .empty, q, _ => by
      refine ⟨Or.inl ?_, ?_, ?_⟩ <;> simp [del, walk]
  | .leaf v, q, _ => by
      rw [show del c (.leaf v) q = if (endsHere q && c v) = true then (.empty, [([], v)]) else (.leaf v, []) from rfl]
      rw [endsHere_eq]
      cases hq : qmatches q [] <;> cases hc : c v <;>
        refine ⟨?_, ?_, ?_⟩ <;> simp [walk, WF, hq, hc]
  | .branch cs, [], h => by
      have hw : WFL cs := by
        rcases h with h | h
        · cases h
        · exact h.2
      have := delAll_spec c cs [] (fun kv => qmatches [] kv.1 && c kv.2) hw
        (by intro k y; simp [qmatches_nil])
      simp only [del, walk, walk_mkBranch]
      exact ⟨wf_mkBranch this.1, this.2.2⟩
  | .branch cs, g :: q, h => by
      have hw : WFL cs := by
        rcases h with h | h
        · cases h
        · exact h.2
      by_cases hg : g = glob
      · have := delAll_spec c cs q (fun kv => qmatches (g :: q) kv.1 && c kv.2) hw
          (by intro k y; simp [qmatches_cons_cons, hg])
        simp only [del, hg, if_true, walk, walk_mkBranch]
        rw [hg] at this
        exact ⟨wf_mkBranch this.1, this.2.2⟩
      · have := delOne_spec c cs g q hg hw
        simp only [del, hg, if_false, walk, walk_mkBranch]
        exact ⟨wf_mkBranch this.1, this.2.2⟩
theorem delAll_spec (c : V → Bool) : ∀ (cs : List (String × Trie V)) (q : Path) (f : Path × V → Bool),
    WFL cs → (∀ k y, f (pre k y) = (qmatches q y.1 && c y.2)) →
    WFL (delAll c cs q).1 ∧
    (∀ k, (∀ kt ∈ cs, kt.1 ≠ k) → ∀ kt ∈ (delAll c cs q).1, kt.1 ≠ k) ∧
    DelSpec f (walkL cs) (walkL (delAll c cs q).1) (delAll c cs q).2
  | [], q, f, _, _ => by
      refine ⟨?_, ?_, ?_, ?_⟩ <;> simp [delAll, walkL, WFL]
  | (k, t) :: cs, q, f, h, hf => by
      obtain ⟨hwf, hs⟩ := del_spec c t q (Or.inr h.1)
      obtain ⟨ihw, ihk, ihs⟩ := delAll_spec c cs q f h.2.2 hf
      have hfk : ∀ y, f (pre k y) = (qmatches q y.1 && c y.2) := hf k
      have hrem : (delAll c ((k, t) :: cs) q).2 = (walkL ((k, t) :: cs)).filter f := by
        simp only [delAll, walkL, List.filter_append, filter_map_pre]
        rw [hs.removed_eq, ihs.removed_eq]
        simp [hfk]
      by_cases he : isEmpty (del c t q).1 = true
      · have he' := (isEmpty_iff _).1 he
        have hrest : walkL (delAll c ((k, t) :: cs) q).1 =
            (walkL ((k, t) :: cs)).filter (fun kv => !f kv) := by
          simp only [delAll, he, if_true, walkL, List.filter_append, filter_map_pre]
          rw [← ihs.rest_eq]
          have : (walk t).filter (fun y => !f (pre k y)) = [] := by
            have := hs.rest_eq
            rw [he'] at this
            simp only [walk] at this
            simp only [hfk]
            exact this.symm
          rw [this]; simp
        refine ⟨?_, ?_, hrem, hrest⟩
        · simp only [delAll, he, if_true]; exact ihw
        · intro k' hk' kt hkt
          simp only [delAll, he, if_true] at hkt
          exact ihk k' (fun kt hm => hk' kt (List.mem_cons_of_mem _ hm)) kt hkt
      · have hwf' : WF (del c t q).1 := by
          rcases hwf with h0 | h0
          · rw [h0] at he; simp [isEmpty] at he
          · exact h0
        have hrest : walkL (delAll c ((k, t) :: cs) q).1 =
            (walkL ((k, t) :: cs)).filter (fun kv => !f kv) := by
          simp only [delAll, he, Bool.false_eq_true, if_false, walkL, List.filter_append, filter_map_pre]
          rw [← ihs.rest_eq, hs.rest_eq]
          simp [hfk]
        refine ⟨?_, ?_, hrem, hrest⟩
        · simp only [delAll, he]
          exact ⟨hwf', ihk k h.2.1, ihw⟩
        · intro k' hk' kt hkt
          simp only [delAll, he] at hkt
          rcases List.mem_cons.1 hkt with e | hm
          · rw [e]; exact hk' (k, t) (List.mem_cons_self ..)
          · exact ihk k' (fun kt hm => hk' kt (List.mem_cons_of_mem _ hm)) kt hm
theorem delOne_spec (c : V → Bool) : ∀ (cs : List (String × Trie V)) (g : String) (q : Path),
    g ≠ glob → WFL cs →
    WFL (delOne c cs g q).1 ∧
    (∀ k, (∀ kt ∈ cs, kt.1 ≠ k) → ∀ kt ∈ (delOne c cs g q).1, kt.1 ≠ k) ∧
    DelSpec (fun kv => qmatches (g :: q) kv.1 && c kv.2) (walkL cs)
      (walkL (delOne c cs g q).1) (delOne c cs g q).2
  | [], g, q, _, _ => by
      refine ⟨?_, ?_, ?_, ?_⟩ <;> simp [delOne, walkL, WFL]
  | (k, t) :: cs, g, q, hg, h => by
      by_cases hk : k = g
      · subst hk
        obtain ⟨hwf, hs⟩ := del_spec c t q (Or.inr h.1)
        have hnone : (walkL cs).filter (fun kv => qmatches (k :: q) kv.1 && c kv.2) = [] := by
          apply filter_walkL_of_fresh h.2.1
          intro x hx
          match x, hx with
          | ([], _), _ => simp [qmatches_cons_nil_of_ne q hg]
          | (k' :: p, _), hx =>
            have : k' ≠ k := fun e => hx p (by simp [e])
            simp [qmatches_cons_cons, hg, Ne.symm this]
        have hall : (walkL cs).filter (fun kv => !(qmatches (k :: q) kv.1 && c kv.2)) = walkL cs := by
          apply filter_walkL_keep_of_fresh h.2.1
          intro x hx
          match x, hx with
          | ([], _), _ => simp [qmatches_cons_nil_of_ne q hg]
          | (k' :: p, _), hx =>
            have : k' ≠ k := fun e => hx p (by simp [e])
            simp [qmatches_cons_cons, hg, Ne.symm this]
        have hrem : (delOne c ((k, t) :: cs) k q).2 =
            (walkL ((k, t) :: cs)).filter (fun kv => qmatches (k :: q) kv.1 && c kv.2) := by
          simp only [delOne, if_true, walkL, List.filter_append, filter_map_pre, hnone]
          rw [hs.removed_eq]
          simp [qmatches_cons_cons]
        by_cases he : isEmpty (del c t q).1 = true
        · have he' := (isEmpty_iff _).1 he
          refine ⟨?_, ?_, hrem, ?_⟩
          · simp only [delOne, if_true, he]; exact h.2.2
          · intro k' hk' kt hkt
            simp only [delOne, if_true, he] at hkt
            exact hk' kt (List.mem_cons_of_mem _ hkt)
          · simp only [delOne, if_true, he, walkL, List.filter_append, filter_map_pre, hall]
            have : (walk t).filter (fun y => !(qmatches (k :: q) (pre k y).1 && c (pre k y).2)) = [] := by
              have := hs.rest_eq
              rw [he'] at this
              simp only [walk] at this
              simp only [pre_fst, pre_snd, qmatches_cons_cons, BEq.rfl, Bool.or_true, Bool.true_and]
              exact this.symm
            rw [this]; simp
        · have hwf' : WF (del c t q).1 := by
            rcases hwf with h0 | h0
            · rw [h0] at he; simp [isEmpty] at he
            · exact h0
          refine ⟨?_, ?_, hrem, ?_⟩
          · simp only [delOne, if_true, he]
            exact ⟨hwf', h.2.1, h.2.2⟩
          · intro k' hk' kt hkt
            simp only [delOne, if_true, he] at hkt
            rcases List.mem_cons.1 hkt with e | hm
            · rw [e]; exact hk' (k, t) (List.mem_cons_self ..)
            · exact hk' kt (List.mem_cons_of_mem _ hm)
          · simp only [delOne, if_true, he, Bool.false_eq_true, if_false, walkL, List.filter_append, filter_map_pre, hall]
            rw [hs.rest_eq]
            simp [qmatches_cons_cons]
      · obtain ⟨ihw, ihk, ihs⟩ := delOne_spec c cs g q hg h.2.2
        have hnone : (walk t).filter (fun y => qmatches (g :: q) (pre k y).1 && c (pre k y).2) = [] := by
          rw [List.filter_eq_nil_iff]
          intro y _
          simp [qmatches_cons_cons, hg, Ne.symm hk]
        have hall : (walk t).filter (fun y => !(qmatches (g :: q) (pre k y).1 && c (pre k y).2)) = walk t := by
          rw [List.filter_eq_self]
          intro y _
          simp [qmatches_cons_cons, hg, Ne.symm hk]
        refine ⟨?_, ?_, ?_, ?_⟩
        · simp only [delOne, hk, if_false]
          exact ⟨h.1, ihk k h.2.1, ihw⟩
        · intro k' hk' kt hkt
          simp only [delOne, hk, if_false] at hkt
          rcases List.mem_cons.1 hkt with e | hm
          · rw [e]; exact hk' (k, t) (List.mem_cons_self ..)
          · exact ihk k' (fun kt hm => hk' kt (List.mem_cons_of_mem _ hm)) kt hm
        · simp only [delOne, hk, if_false, walkL, List.filter_append, filter_map_pre, hnone]
          rw [ihs.removed_eq]; simp
        · simp only [delOne, hk, if_false, walkL, List.filter_append, filter_map_pre, hall]
          rw [ihs.rest_eq]
end

/-! ### add -/

theorem walk_chain : ∀ (p : Path) (v : V), walk (chain p v) = [(p, v)]
  | [], v => rfl
  | k :: p, v => by simp [chain, walk, walkL, walk_chain p v, pre]

theorem wf_chain : ∀ (p : Path) (v : V), WF (chain p v)
  | [], v => trivial
  | k :: p, v => by
      simp only [chain, WF, WFL]
      exact ⟨by simp, wf_chain p v, by simp, trivial⟩

theorem filter_ne_map_pre (k : String) (p : Path) (l : List (Path × V)) :
    (l.map (pre k)).filter (fun kv => kv.1 != k :: p) =
      (l.filter (fun kv => kv.1 != p)).map (pre k) := by
  rw [filter_map_pre]
  congr 1
  apply List.filter_congr
  intro x _
  simp only [pre, bne, List.cons_beq_cons, beq_self_eq_true, Bool.true_and]

mutual
theorem add_spec : ∀ (t : Trie V) (p : Path) (v : V) (t' : Trie V),
    (t = .empty ∨ WF t) → add t p v = some t' →
    WF t' ∧ (walk t').Perm ((p, v) :: (walk t).filter (fun kv => kv.1 != p))
  | .empty, [], v, t', _, h => by
      simp only [add, Option.some.injEq] at h; subst h
      exact ⟨trivial, by simp [walk]⟩
  | .empty, k :: p, v, t', _, h => by
      simp only [add, Option.some.injEq] at h; subst h
      refine ⟨?_, ?_⟩
      · simp only [WF, WFL]
        exact ⟨by simp, wf_chain p v, by simp, trivial⟩
      · simp [walk, walkL, walk_chain, pre]
  | .leaf v0, [], v, t', _, h => by
      simp only [add, Option.some.injEq] at h; subst h
      exact ⟨trivial, by simp [walk]⟩
  | .leaf _, _ :: _, _, _, _, h => by simp [add] at h
  | .branch _, [], _, _, _, h => by simp [add] at h
  | .branch cs, k :: p, v, t', hw, h => by
      have hw : WFL cs := by
        rcases hw with h | h
        · cases h
        · exact h.2
      simp only [add, Option.map_eq_some_iff] at h
      obtain ⟨cs', hcs', rfl⟩ := h
      obtain ⟨h1, h2, _, h4⟩ := addL_spec cs k p v cs' hw hcs'
      exact ⟨⟨h2, h1⟩, h4⟩
theorem addL_spec : ∀ (cs : List (String × Trie V)) (k : String) (p : Path) (v : V)
    (cs' : List (String × Trie V)), WFL cs → addL cs k p v = some cs' →
    WFL cs' ∧ cs' ≠ [] ∧
    (∀ k', k' ≠ k → (∀ kt ∈ cs, kt.1 ≠ k') → ∀ kt ∈ cs', kt.1 ≠ k') ∧
    (walkL cs').Perm ((k :: p, v) :: (walkL cs).filter (fun kv => kv.1 != k :: p))
  | [], k, p, v, cs', _, h => by
      simp only [addL, Option.some.injEq] at h; subst h
      refine ⟨?_, by simp, ?_, ?_⟩
      · simp only [WFL]; exact ⟨wf_chain p v, by simp, trivial⟩
      · intro k' hk' _ kt hkt
        simp at hkt; subst hkt; exact fun e => hk' e.symm
      · simp [walkL, walk_chain, pre]
  | (k0, t) :: cs, k, p, v, cs', hw, h => by
      by_cases hk : k0 = k
      · subst hk
        simp only [addL, if_true, Option.map_eq_some_iff] at h
        obtain ⟨t', ht', rfl⟩ := h
        obtain ⟨hwf', hperm⟩ := add_spec t p v t' (Or.inr hw.1) ht'
        refine ⟨⟨hwf', hw.2.1, hw.2.2⟩, by simp, ?_, ?_⟩
        · intro k' hk' hfresh kt hkt
          rcases List.mem_cons.1 hkt with e | hm
          · rw [e]; exact hfresh (k0, t) (List.mem_cons_self ..)
          · exact hfresh kt (List.mem_cons_of_mem _ hm)
        · simp only [walkL, List.filter_append, filter_ne_map_pre]
          rw [filter_walkL_keep_of_fresh hw.2.1]
          · have := (hperm.map (pre k0)).append_right (walkL cs)
            simpa [pre] using this
          · intro x hx
            simp only [bne_iff_ne, ne_eq]
            exact hx p
      · simp only [addL, hk, if_false, Option.map_eq_some_iff] at h
        obtain ⟨cs2, hcs2, rfl⟩ := h
        obtain ⟨h1, _, h3, h4⟩ := addL_spec cs k p v cs2 hw.2.2 hcs2
        refine ⟨⟨hw.1, h3 k0 hk hw.2.1, h1⟩, by simp, ?_, ?_⟩
        · intro k' hk' hfresh kt hkt
          rcases List.mem_cons.1 hkt with e | hm
          · rw [e]; exact hfresh (k0, t) (List.mem_cons_self ..)
          · exact h3 k' hk' (fun kt hm => hfresh kt (List.mem_cons_of_mem _ hm)) kt hm
        · simp only [walkL, List.filter_append]
          have hkeep : (List.map (pre k0) (walk t)).filter (fun kv => kv.1 != k :: p) =
              List.map (pre k0) (walk t) := by
            rw [List.filter_eq_self]
            intro x hx
            obtain ⟨y, _, rfl⟩ := List.mem_map.1 hx
            simp [pre, hk]
          rw [hkeep]
          have := h4.append_left (List.map (pre k0) (walk t))
          exact this.trans List.perm_middle
end

/-- `add` fails exactly on a conflict with a stored key. -/
def Conflict (m : List (Path × V)) (p : Path) : Prop :=
  ∃ kv ∈ m, (kv.1 <+: p ∨ p <+: kv.1) ∧ kv.1 ≠ p

theorem conflict_append {m₁ m₂ : List (Path × V)} {p : Path} :
    Conflict (m₁ ++ m₂) p ↔ Conflict m₁ p ∨ Conflict m₂ p := by
  simp only [Conflict, List.mem_append]
  constructor
  · rintro ⟨kv, (h | h), hc⟩
    · exact Or.inl ⟨kv, h, hc⟩
    · exact Or.inr ⟨kv, h, hc⟩
  · rintro (⟨kv, h, hc⟩ | ⟨kv, h, hc⟩)
    · exact ⟨kv, Or.inl h, hc⟩
    · exact ⟨kv, Or.inr h, hc⟩

theorem conflict_map_pre_same {m : List (Path × V)} {k : String} {p : Path} :
    Conflict (m.map (pre k)) (k :: p) ↔ Conflict m p := by
  simp only [Conflict, List.mem_map]
  constructor
  · rintro ⟨_, ⟨y, hy, rfl⟩, hc, hne⟩
    refine ⟨y, hy, ?_, ?_⟩
    · simpa [pre, List.cons_prefix_cons] using hc
    · simpa [pre] using hne
  · rintro ⟨y, hy, hc, hne⟩
    refine ⟨pre k y, ⟨y, hy, rfl⟩, ?_, ?_⟩
    · simpa [pre, List.cons_prefix_cons] using hc
    · simpa [pre] using hne

theorem not_conflict_map_pre_ne {m : List (Path × V)} {k k' : String} {p : Path} (h : k' ≠ k) :
    ¬ Conflict (m.map (pre k')) (k :: p) := by
  simp only [Conflict, List.mem_map]
  rintro ⟨_, ⟨y, _, rfl⟩, hc, _⟩
  simp [pre, List.cons_prefix_cons, h, Ne.symm h] at hc

theorem not_conflict_walkL_fresh {cs : List (String × Trie V)} {k : String} {p : Path}
    (hk : ∀ kt ∈ cs, kt.1 ≠ k) : ¬ Conflict (walkL cs) (k :: p) := by
  rintro ⟨x, hx, hc, _⟩
  obtain ⟨k', p', hxp, t, hm⟩ := head_of_mem_walkL hx
  have hne : k' ≠ k := hk _ hm
  rw [hxp] at hc
  simp [List.cons_prefix_cons, hne, Ne.symm hne] at hc

mutual
theorem add_none_iff : ∀ (t : Trie V) (p : Path) (v : V), (t = .empty ∨ WF t) →
    (add t p v = none ↔ Conflict (walk t) p)
  | .empty, [], v, _ => by simp [add, walk, Conflict]
  | .empty, _ :: _, v, _ => by simp [add, walk, Conflict]
  | .leaf v0, [], v, _ => by simp [add, walk, Conflict]
  | .leaf v0, k :: p, v, _ => by simp [add, walk, Conflict]
  | .branch cs, [], v, hw => by
      have hw' : WF (.branch cs) := by
        rcases hw with h | h
        · cases h
        · exact h
      simp only [add, walk, true_iff]
      have hne := walk_ne_nil_of_WF _ hw'
      simp only [walk] at hne
      obtain ⟨x, hx⟩ := List.exists_mem_of_ne_nil _ hne
      obtain ⟨k', p', hxp, _⟩ := head_of_mem_walkL hx
      exact ⟨x, hx, Or.inr (List.nil_prefix), by rw [hxp]; simp⟩
  | .branch cs, k :: p, v, hw => by
      have hw : WFL cs := by
        rcases hw with h | h
        · cases h
        · exact h.2
      simp only [add, walk, Option.map_eq_none_iff]
      exact addL_none_iff cs k p v hw
theorem addL_none_iff : ∀ (cs : List (String × Trie V)) (k : String) (p : Path) (v : V), WFL cs →
    (addL cs k p v = none ↔ Conflict (walkL cs) (k :: p))
  | [], k, p, v, _ => by simp [addL, walkL, Conflict]
  | (k0, t) :: cs, k, p, v, hw => by
      by_cases hk : k0 = k
      · subst hk
        simp only [addL, if_true, Option.map_eq_none_iff, walkL, conflict_append,
          conflict_map_pre_same]
        rw [add_none_iff t p v (Or.inr hw.1)]
        constructor
        · exact Or.inl
        · rintro (h | h)
          · exact h
          · exact absurd h (not_conflict_walkL_fresh hw.2.1)
      · simp only [addL, hk, if_false, Option.map_eq_none_iff, walkL, conflict_append]
        rw [addL_none_iff cs k p v hw.2.2]
        constructor
        · exact Or.inr
        · rintro (h | h)
          · exact absurd h (not_conflict_map_pre_ne hk)
          · exact h
end

/-! ### get: the node at `p` holds exactly the keys below `p` -/

theorem strip_nil (kv : Path × V) : strip [] kv = some kv := by
  simp [strip]

theorem strip_cons_pre (k k' : String) (p : Path) (y : Path × V) :
    strip (k :: p) (pre k' y) = if k = k' then strip p y else none := by
  by_cases h : k = k' <;> simp [strip, pre, h]

theorem filterMap_strip_fresh {cs : List (String × Trie V)} {k : String} (p : Path)
    (hk : ∀ kt ∈ cs, kt.1 ≠ k) : (walkL cs).filterMap (strip (k :: p)) = [] := by
  rw [List.filterMap_eq_nil_iff]
  intro x hx
  obtain ⟨k', t, hm, y, _, rfl⟩ := mem_walkL.1 hx
  have : k ≠ k' := fun e => hk _ hm e.symm
  simp [strip_cons_pre, this]

mutual
theorem get_walk : ∀ (t : Trie V) (p : Path) (n : Trie V), (t = .empty ∨ WF t) →
    get t p = some n → (n = .empty ∨ WF n) ∧ walk n = (walk t).filterMap (strip p)
  | t, [], n, hw, h => by
      simp only [get, Option.some.injEq] at h; subst h
      refine ⟨hw, ?_⟩
      have : (strip [] : Path × V → Option (Path × V)) = some := funext strip_nil
      rw [this]; simp
  | .branch cs, k :: p, n, hw, h => by
      have hw : WFL cs := by
        rcases hw with h | h
        · cases h
        · exact h.2
      simp only [get] at h
      simp only [walk]
      exact getL_walk cs k p n hw h
  | .empty, _ :: _, _, _, h => by simp [get] at h
  | .leaf _, _ :: _, _, _, h => by simp [get] at h
theorem getL_walk : ∀ (cs : List (String × Trie V)) (k : String) (p : Path) (n : Trie V),
    WFL cs → getL cs k p = some n →
    (n = .empty ∨ WF n) ∧ walk n = (walkL cs).filterMap (strip (k :: p))
  | [], _, _, _, _, h => by simp [getL] at h
  | (k0, t) :: cs, k, p, n, hw, h => by
      by_cases hk : k0 = k
      · subst hk
        simp only [getL, if_true] at h
        obtain ⟨h1, h2⟩ := get_walk t p n (Or.inr hw.1) h
        refine ⟨h1, ?_⟩
        simp only [walkL, List.filterMap_append, filterMap_strip_fresh p hw.2.1, List.append_nil,
          List.filterMap_map]
        have hfe : (strip (k0 :: p) ∘ pre k0 : Path × V → _) = strip p := by
          funext y; simp [strip_cons_pre]
        rw [hfe, h2]
      · simp only [getL, hk, if_false] at h
        obtain ⟨h1, h2⟩ := getL_walk cs k p n hw.2.2 h
        refine ⟨h1, ?_⟩
        simp only [walkL, List.filterMap_append, List.filterMap_map]
        have : (walk t).filterMap (strip (k :: p) ∘ pre k0) = [] := by
          rw [List.filterMap_eq_nil_iff]
          intro y _
          simp [strip_cons_pre, Ne.symm hk]
        rw [this, h2]; simp
end

mutual
theorem get_none : ∀ (t : Trie V) (p : Path), (t = .empty ∨ WF t) →
    get t p = none → p ≠ [] ∧ (walk t).filterMap (strip p) = []
  | t, [], _, h => by simp [get] at h
  | .branch cs, k :: p, hw, h => by
      have hw : WFL cs := by
        rcases hw with h | h
        · cases h
        · exact h.2
      simp only [get] at h
      simp only [walk]
      exact ⟨by simp, getL_none cs k p hw h⟩
  | .empty, _ :: _, _, _ => by simp [walk]
  | .leaf _, _ :: _, _, _ => by simp [walk, strip]
theorem getL_none : ∀ (cs : List (String × Trie V)) (k : String) (p : Path),
    WFL cs → getL cs k p = none → (walkL cs).filterMap (strip (k :: p)) = []
  | [], _, _, _, _ => by simp [walkL]
  | (k0, t) :: cs, k, p, hw, h => by
      by_cases hk : k0 = k
      · subst hk
        simp only [getL, if_true] at h
        obtain ⟨_, h2⟩ := get_none t p (Or.inr hw.1) h
        simp only [walkL, List.filterMap_append, filterMap_strip_fresh p hw.2.1, List.append_nil,
          List.filterMap_map]
        have hfe : (strip (k0 :: p) ∘ pre k0 : Path × V → _) = strip p := by
          funext y; simp [strip_cons_pre]
        rw [hfe, h2]
      · simp only [getL, hk, if_false] at h
        have h2 := getL_none cs k p hw.2.2 h
        simp only [walkL, List.filterMap_append, List.filterMap_map]
        have : (walk t).filterMap (strip (k :: p) ∘ pre k0) = [] := by
          rw [List.filterMap_eq_nil_iff]
          intro y _
          simp [strip_cons_pre, Ne.symm hk]
        rw [this, h2]; simp
end

mutual
theorem get_wf : ∀ (t : Trie V) (p : Path) (n : Trie V), WF t → get t p = some n → WF n
  | t, [], n, hw, h => by
      simp only [get, Option.some.injEq] at h; subst h; exact hw
  | .branch cs, k :: p, n, hw, h => by
      simp only [get] at h
      exact getL_wf cs k p n hw.2 h
  | .empty, _ :: _, _, _, h => by simp [get] at h
  | .leaf _, _ :: _, _, _, h => by simp [get] at h
theorem getL_wf : ∀ (cs : List (String × Trie V)) (k : String) (p : Path) (n : Trie V),
    WFL cs → getL cs k p = some n → WF n
  | [], _, _, _, _, h => by simp [getL] at h
  | (k0, t) :: cs, k, p, n, hw, h => by
      by_cases hk : k0 = k
      · subst hk
        simp only [getL, if_true] at h
        exact get_wf t p n hw.1 h
      · simp only [getL, hk, if_false] at h
        exact getL_wf cs k p n hw.2.2 h
end

/-! ### the walk is prefix-free with unique keys -/

/-- neither key is a prefix of the other (in particular they differ) -/
def Apart (a b : Path × V) : Prop := ¬ a.1 <+: b.1 ∧ ¬ b.1 <+: a.1

mutual
theorem walk_apart : ∀ (t : Trie V), (t = .empty ∨ WF t) → (walk t).Pairwise Apart
  | .empty, _ => by simp [walk]
  | .leaf v, _ => by simp [walk]
  | .branch cs, hw => by
      have hw : WFL cs := by
        rcases hw with h | h
        · cases h
        · exact h.2
      simp only [walk]
      exact walkL_apart cs hw
theorem walkL_apart : ∀ (cs : List (String × Trie V)), WFL cs → (walkL cs).Pairwise Apart
  | [], _ => by simp [walkL]
  | (k, t) :: cs, hw => by
      simp only [walkL, List.pairwise_append]
      refine ⟨?_, walkL_apart cs hw.2.2, ?_⟩
      · rw [List.pairwise_map]
        apply (walk_apart t (Or.inr hw.1)).imp
        intro a b hab
        simpa [Apart, pre, List.cons_prefix_cons] using hab
      · intro a ha b hb
        obtain ⟨y, _, rfl⟩ := List.mem_map.1 ha
        obtain ⟨k', p', hbp, t', hm⟩ := head_of_mem_walkL hb
        have hne : k' ≠ k := hw.2.1 _ hm
        simp [Apart, pre, hbp, List.cons_prefix_cons, hne, Ne.symm hne]
end

/-! ### sorted walk -/

theorem insKey_perm {α : Type} (k : String) (a : α) (l : List (String × α)) :
    (insKey k a l).Perm ((k, a) :: l) := by
  induction l with
  | nil => simp [insKey]
  | cons x l ih =>
    obtain ⟨k', a'⟩ := x
    simp only [insKey]
    split
    · exact List.Perm.refl _
    · exact (ih.cons _).trans (List.Perm.swap ..)

theorem mem_insKey {α : Type} {k : String} {a : α} {l : List (String × α)} {x : String × α} :
    x ∈ insKey k a l ↔ x = (k, a) ∨ x ∈ l := by
  rw [(insKey_perm k a l).mem_iff]; simp

theorem string_lt_of_not_lt_of_ne {a b : String} (h : ¬ a < b) (hne : a ≠ b) : b < a := by
  rcases Decidable.em (b < a) with h' | h'
  · exact h'
  · exact absurd (String.le_antisymm (String.not_lt.1 h') (String.not_lt.1 h)) hne

theorem insKey_sorted {α : Type} (k : String) (a : α) (l : List (String × α))
    (hl : l.Pairwise (fun x y => x.1 < y.1)) (hk : ∀ x ∈ l, x.1 ≠ k) :
    (insKey k a l).Pairwise (fun x y => x.1 < y.1) := by
  induction l with
  | nil => simp [insKey]
  | cons x l ih =>
    obtain ⟨k', a'⟩ := x
    simp only [insKey]
    rw [List.pairwise_cons] at hl
    split
    · rename_i hlt
      rw [List.pairwise_cons]
      refine ⟨?_, List.pairwise_cons.2 hl⟩
      intro y hy
      rcases List.mem_cons.1 hy with e | hm
      · rw [e]; exact hlt
      · exact String.lt_trans hlt (hl.1 y hm)
    · rename_i hlt
      have hk' : k' < k := string_lt_of_not_lt_of_ne hlt (fun e => hk (k', a') (List.mem_cons_self ..) e.symm)
      rw [List.pairwise_cons]
      refine ⟨?_, ih hl.2 (fun x hx => hk x (List.mem_cons_of_mem _ hx))⟩
      intro y hy
      rcases mem_insKey.1 hy with e | hm
      · rw [e]; exact hk'
      · exact hl.1 y hm

mutual
theorem walkSorted_perm : ∀ (t : Trie V), (walkSorted t).Perm (walk t)
  | .empty => by simp [walkSorted, walk]
  | .leaf v => by simp [walkSorted, walk]
  | .branch cs => by
      simp only [walkSorted, walk]
      exact walkSortedL_perm cs
theorem walkSortedL_perm : ∀ (cs : List (String × Trie V)),
    (((walkSortedL cs).map (fun kr => kr.2.map (pre kr.1))).flatten).Perm (walkL cs)
  | [] => by simp [walkSortedL, walkL]
  | (k, t) :: cs => by
      simp only [walkSortedL, walkL]
      have h1 := ((insKey_perm k (walkSorted t) (walkSortedL cs)).map
        (fun kr => kr.2.map (pre kr.1))).flatten
      refine h1.trans ?_
      simp only [List.map_cons, List.flatten_cons]
      exact ((walkSorted_perm t).map (pre k)).append (walkSortedL_perm cs)
end

/-- strict lexicographic order on keys -/
def KeyLt (a b : Path × V) : Prop := a.1 < b.1

theorem walkSortedL_keys : ∀ (cs : List (String × Trie V)) (x : String × List (Path × V)),
    x ∈ walkSortedL cs → ∃ t, (x.1, t) ∈ cs ∧ x.2 = walkSorted t
  | [], x, h => by simp [walkSortedL] at h
  | (k, t) :: cs, x, h => by
      simp only [walkSortedL] at h
      rcases mem_insKey.1 h with e | hm
      · exact ⟨t, by simp [e], by simp [e]⟩
      · obtain ⟨t', h1, h2⟩ := walkSortedL_keys cs x hm
        exact ⟨t', List.mem_cons_of_mem _ h1, h2⟩

mutual
theorem walkSorted_sorted : ∀ (t : Trie V), (t = .empty ∨ WF t) → (walkSorted t).Pairwise KeyLt
  | .empty, _ => by simp [walkSorted]
  | .leaf v, _ => by simp [walkSorted]
  | .branch cs, hw => by
      have hw : WFL cs := by
        rcases hw with h | h
        · cases h
        · exact h.2
      simp only [walkSorted]
      obtain ⟨h1, h2⟩ := walkSortedL_sorted cs hw
      rw [List.pairwise_flatten]
      refine ⟨?_, ?_⟩
      · intro l hl
        obtain ⟨kr, hkr, rfl⟩ := List.mem_map.1 hl
        rw [List.pairwise_map]
        apply (h2 kr hkr).imp
        intro a b hab
        simp only [KeyLt, pre, List.cons_lt_cons_iff]
        exact Or.inr ⟨trivial, hab⟩
      · rw [List.pairwise_map]
        apply h1.imp
        intro x y hxy a ha b hb
        obtain ⟨a', _, rfl⟩ := List.mem_map.1 ha
        obtain ⟨b', _, rfl⟩ := List.mem_map.1 hb
        simp only [KeyLt, pre, List.cons_lt_cons_iff]
        exact Or.inl hxy
theorem walkSortedL_sorted : ∀ (cs : List (String × Trie V)), WFL cs →
    (walkSortedL cs).Pairwise (fun x y => x.1 < y.1) ∧
    ∀ kr ∈ walkSortedL cs, kr.2.Pairwise KeyLt
  | [], _ => by simp [walkSortedL]
  | (k, t) :: cs, hw => by
      obtain ⟨ih1, ih2⟩ := walkSortedL_sorted cs hw.2.2
      simp only [walkSortedL]
      refine ⟨insKey_sorted k _ _ ih1 ?_, ?_⟩
      · intro x hx
        obtain ⟨t', hm, _⟩ := walkSortedL_keys cs x hx
        exact hw.2.1 _ hm
      · intro kr hkr
        rcases mem_insKey.1 hkr with e | hm
        · rw [e]; exact walkSorted_sorted t (Or.inr hw.1)
        · exact ih2 kr hm
end

end Trie
end Gnmi
