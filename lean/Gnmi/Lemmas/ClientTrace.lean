import Gnmi.Lemmas.ClientLTS
/-!
Trace invariants of the client LTS: callback discipline of the reconnect loop, `Connected`
first / once per stream, order preservation, and the bound on deliveries after `Close`.
-/
set_option linter.unusedSimpArgs false
set_option linter.unusedVariables false
namespace Gnmi
namespace ClientLTS

variable {N : Type}

/-! ## Callback discipline of the reconnect loop -/

/-- loop-level events: inner Subscribe called / returned, disconnect and reset callbacks -/
def Ev.isCb : Ev N → Bool
  | .start _ => true
  | .ended _ => true
  | .disc _ => true
  | .reset _ => true
  | _ => false

/-- loop-level projection of a trace -/
def cbs (t : List (Ev N)) : List (Ev N) := t.filter Ev.isCb

/-- the loop-level trace of `a` complete rounds:
`start 0 · ended 0 · disc 0 · reset 1 · start 1 · ended 1 · disc 1 · reset 2 · …` -/
def rounds : Nat → List (Ev N)
  | 0 => []
  | a + 1 => rounds a ++ [.start a, .ended a, .disc a, .reset (a + 1)]

/-- what the round in progress has contributed so far, by program counter -/
def roundTail (a : Nat) : SPc N → List (Ev N)
  | .idle => []
  | .connect => [.start a]
  | .install => [.start a]
  | .recv => [.start a]
  | .handling _ _ => [.start a]
  | .check => [.start a]
  | .runErr => [.start a]
  | .innerRet _ => [.start a, .ended a]
  | .ctxCheck _ => [.start a, .ended a, .disc a]
  | .sleeping => [.start a, .ended a, .disc a]
  | .resetCb => [.start a, .ended a, .disc a]
  | .finishing => [.start a, .ended a, .disc a]
  | .returned _ => [.start a, .ended a, .disc a]

/-- handler events: what the notification handler is called with -/
def Ev.isHandler : Ev N → Bool
  | .connected _ => true
  | .noti _ _ _ => true
  | _ => false

theorem msgEvents_handler (a i : Nat) (b : Bool) (m : Msg N) :
    ∀ e ∈ msgEvents a i b m, e.isHandler = true := by
  intro e he
  unfold msgEvents at he
  cases b <;> simp at he
  · rcases he with rfl | ⟨n, _, rfl⟩ <;> rfl
  · obtain ⟨n, _, rfl⟩ := he; rfl

theorem isCb_of_isHandler {e : Ev N} (h : e.isHandler = true) : e.isCb = false := by
  cases e <;> simp_all [Ev.isHandler, Ev.isCb]

structure InvD (c : Cfg N) : Prop where
  shape : cbs c.trace = rounds c.att ++ roundTail c.att c.spc
  pend : ∀ evs r, c.spc = .handling evs r → ∀ e ∈ evs, e.isHandler = true

theorem cbs_append (t u : List (Ev N)) : cbs (t ++ u) = cbs t ++ cbs u := by simp [cbs]

theorem invD_init : InvD (init : Cfg N) := by
  constructor <;> simp [init, cbs, rounds, roundTail]

theorem invD_step {s : Script N} {c c' : Cfg N} {l : Label}
    (hi : InvD c) (hs : Step true s c l c') : InvD c' := by
  obtain ⟨h1, h2⟩ := hi
  cases hs
  case handle e rest r hp =>
    have he : e.isCb = false := isCb_of_isHandler (h2 _ _ hp e (by simp))
    constructor
    · simp [Cfg.doHandle, cbs_append, h1, hp, roundTail]
      simp [cbs, he]
    · intro evs r' h e' he'
      simp [Cfg.doHandle] at h
      obtain ⟨rfl, rfl⟩ := h
      exact h2 _ _ hp e' (by simp [he'])
  case recvMsg m rest hp hi =>
    constructor
    · simp [Cfg.doRecvMsg, h1, hp, roundTail]
    · intro evs r' h e' he'
      simp [Cfg.doRecvMsg] at h
      obtain ⟨rfl, rfl⟩ := h
      exact msgEvents_handler _ _ _ _ e' he'
  case handled r hp =>
    cases r <;> constructor <;>
      simp_all [Cfg.doHandled, cbs_append, roundTail, cbs, Ev.isCb, List.append_assoc]
  case check hp =>
    unfold Cfg.doCheck; split <;> constructor <;>
      simp_all [cbs_append, roundTail, cbs, Ev.isCb, List.append_assoc]
  case closeInner sd hp => unfold Cfg.doBcClose; split <;> exact ⟨h1, h2⟩
  case closeCs => exact ⟨h1, h2⟩
  case closeWait => exact ⟨h1, h2⟩
  case parentCancel => exact ⟨h1, h2⟩
  case plainClose hw hp => cases hw
  case reset hp =>
    constructor
    · show cbs (c.trace ++ [_, _]) = _
      rw [cbs_append, h1, hp]
      simp [Cfg.doReset, roundTail, rounds, cbs, Ev.isCb, List.append_assoc]
    · simp [Cfg.doReset]
  all_goals
    constructor <;>
    simp_all [Cfg.doSubInit, Cfg.doPlainStart, Cfg.doConnFail, Cfg.doConnOk, Cfg.doInstall,
      Cfg.doRecvWait, Cfg.doRunErr, Cfg.doEof, Cfg.doPlainRet, Cfg.doDisc, Cfg.doFinish,
      Cfg.doCloseCs, cbs_append, roundTail, rounds, cbs, Ev.isCb, List.append_assoc, init]

theorem invD_reach {s : Script N} {c : Cfg N} (h : Reach true s c) : InvD c := by
  induction h with
  | init => exact invD_init
  | step _ hs ih => exact invD_step ih hs

/-! ## Per-stream view: `Connected` first and once, order preserved -/

/-- handler calls `defaultRecv` has committed to (the message is decoded) but not yet made -/
def pend (c : Cfg N) : List (Ev N) :=
  match c.spc with
  | .handling evs _ => evs
  | _ => []

/-- trace plus the committed handler calls -/
def vis (c : Cfg N) : List (Ev N) := c.trace ++ pend c

/-- handler events of the stream of attempt `a` -/
def Ev.ofAttempt (a : Nat) : Ev N → Bool
  | .connected b => b == a
  | .noti b _ _ => b == a
  | _ => false

def Ev.isNoti : Ev N → Bool
  | .noti _ _ _ => true
  | _ => false

def Ev.payload : Ev N → Option N
  | .noti _ _ n => some n
  | _ => none

/-- what the handler saw on the stream of attempt `a`, in order -/
def hs (a : Nat) (t : List (Ev N)) : List (Ev N) := t.filter (Ev.ofAttempt a)

/-- the notifications (without `Connected`) the handler saw on the stream of attempt `a` -/
def payloads (a : Nat) (t : List (Ev N)) : List N := (hs a t).filterMap Ev.payload

/-- the notifications a scripted stream carries, in order -/
def flat : List (Item N) → List N
  | [] => []
  | .msg m :: r => m.notis ++ flat r
  | .wait :: r => flat r

/-- `Connected` first, and only once -/
def ConnFirst (a : Nat) (l : List (Ev N)) : Prop :=
  l = [] ∨ ∃ r, l = .connected a :: r ∧ ∀ e ∈ r, e.isNoti = true

@[simp] def SPc.preStream : SPc N → Bool
  | .idle => true
  | .connect => true
  | _ => false

@[simp] def SPc.inStream : SPc N → Bool
  | .install => true
  | .recv => true
  | .handling _ _ => true
  | .check => true
  | .runErr => true
  | _ => false

structure InvV (s : Script N) (c : Cfg N) : Prop where
  connFirst : ∀ a, ConnFirst a (hs a (vis c))
  prefix_ : ∀ a, payloads a (vis c) <+: flat (s a).items
  future : ∀ a, c.att < a → hs a (vis c) = []
  pre : c.spc.preStream = true → hs c.att (vis c) = []
  stream : c.spc.inStream = true →
    (c.connected = false → hs c.att (vis c) = []) ∧
    (c.connected = true → hs c.att (vis c) ≠ []) ∧
    payloads c.att (vis c) ++ flat c.items = flat (s c.att).items

theorem hs_append (a : Nat) (t u : List (Ev N)) : hs a (t ++ u) = hs a t ++ hs a u := by simp [hs]

theorem payloads_append (a : Nat) (t u : List (Ev N)) :
    payloads a (t ++ u) = payloads a t ++ payloads a u := by simp [payloads, hs_append]

theorem hs_msgEvents (a a' i : Nat) (b : Bool) (m : Msg N) :
    hs a (msgEvents a' i b m) = if a' = a then msgEvents a' i b m else [] := by
  unfold hs msgEvents
  by_cases h : a' = a
  · subst h; cases b <;> simp [Ev.ofAttempt, List.filter_eq_self]
  · cases b <;> simp [Ev.ofAttempt, h, List.filter_eq_nil_iff]

theorem payloads_msgEvents (a i : Nat) (b : Bool) (m : Msg N) :
    (msgEvents a i b m).filterMap Ev.payload = m.notis := by
  have h : ∀ l : List N, (l.map (Ev.noti a i)).filterMap Ev.payload = l := by
    intro l; induction l with
    | nil => rfl
    | cons x r ih => simp [List.filterMap_cons, Ev.payload, ih]
  unfold msgEvents
  cases b
  · simp [List.filterMap_cons, Ev.payload, h]
  · simp [h]

/-- preservation of `InvV` by every transition that does not receive a message -/
theorem invV_frame {s : Script N} {c c' : Cfg N} (hv : InvV s c)
    (hvis : ∀ a, hs a (vis c') = hs a (vis c))
    (hatt : c.att ≤ c'.att)
    (hpre : c'.spc.preStream = true → (c.spc.preStream = true ∧ c'.att = c.att) ∨ c.att < c'.att)
    (hstr : c'.spc.inStream = true → c'.att = c.att ∧
      ((c.spc.inStream = true ∧ c'.connected = c.connected ∧ flat c'.items = flat c.items) ∨
       (c.spc.preStream = true ∧ c'.connected = false ∧ c'.items = (s c.att).items))) :
    InvV s c' := by
  obtain ⟨h1, h2, h3, h4, h5⟩ := hv
  have hpl : ∀ a, payloads a (vis c') = payloads a (vis c) := fun a => by simp [payloads, hvis]
  refine ⟨fun a => hvis a ▸ h1 a, fun a => hpl a ▸ h2 a, fun a ha => ?_, fun hp => ?_, fun hp => ?_⟩
  · rw [hvis]; exact h3 a (by omega)
  · rw [hvis]
    rcases hpre hp with ⟨hp', he⟩ | hlt
    · rw [he]; exact h4 hp'
    · exact h3 _ hlt
  · obtain ⟨he, hcase⟩ := hstr hp
    rw [hvis, hpl, he]
    rcases hcase with ⟨hin, hc, hf⟩ | ⟨hp', hc, hit⟩
    · rw [hc, hf]; exact h5 hin
    · have := h4 hp'
      refine ⟨fun _ => this, fun h => by simp [hc] at h, ?_⟩
      simp [payloads, this, hit]

theorem invV_init (s : Script N) : InvV s (init : Cfg N) := by
  constructor <;> simp [init, vis, pend, hs, payloads, ConnFirst]

theorem connFirst_recv {a i : Nat} {b : Bool} {m : Msg N} {l : List (Ev N)}
    (hw : ConnFirst a l) (h0 : b = false → l = []) (h1 : b = true → l ≠ []) :
    ConnFirst a (l ++ msgEvents a i b m) := by
  cases b with
  | false =>
      rw [h0 rfl]
      right
      refine ⟨m.notis.map (Ev.noti a i), by simp [msgEvents], ?_⟩
      intro e he; simp at he; obtain ⟨n, _, rfl⟩ := he; rfl
  | true =>
      rcases hw with h | ⟨r, hr, hn⟩
      · exact absurd h (h1 rfl)
      · right
        refine ⟨r ++ m.notis.map (Ev.noti a i), by simp [msgEvents, hr], ?_⟩
        intro e he
        simp at he
        rcases he with he | ⟨n, _, rfl⟩
        · exact hn e he
        · rfl

theorem invV_step {wrap : Bool} {s : Script N} {c c' : Cfg N} {l : Label}
    (hv : InvV s c) (hs : Step wrap s c l c') : InvV s c' := by
  cases hs
  case recvMsg m rest hp hi =>
    obtain ⟨h1, h2, h3, h4, h5⟩ := hv
    obtain ⟨h5a, h5b, h5c⟩ := h5 (by simp [hp])
    have hvis : vis (c.doRecvMsg m rest) = vis c ++ msgEvents c.att c.mi c.connected m := by
      simp [vis, pend, Cfg.doRecvMsg, hp]
    have hhs : ∀ a, hs a (vis (c.doRecvMsg m rest)) =
        hs a (vis c) ++ (if c.att = a then msgEvents c.att c.mi c.connected m else []) := by
      intro a; rw [hvis, hs_append, hs_msgEvents]
    have hpl : payloads c.att (vis (c.doRecvMsg m rest)) = payloads c.att (vis c) ++ m.notis := by
      simp [payloads, hhs, payloads_msgEvents]
    have hflat : payloads c.att (vis c) ++ m.notis ++ flat rest = flat (s c.att).items := by
      rw [← h5c, hi]; simp [flat]
    refine ⟨fun a => ?_, fun a => ?_, fun a ha => ?_, fun hp' => by simp [Cfg.doRecvMsg] at hp', fun _ => ?_⟩
    · rw [hhs]
      by_cases h : c.att = a
      · subst h; simpa using connFirst_recv (h1 _) h5a h5b
      · simpa [h] using h1 a
    · by_cases h : c.att = a
      · subst h; rw [hpl]; exact ⟨flat rest, hflat⟩
      · have : payloads a (vis (c.doRecvMsg m rest)) = payloads a (vis c) := by
          simp [payloads, hhs, h]
        rw [this]; exact h2 a
    · have hne : c.att ≠ a := by simp [Cfg.doRecvMsg] at ha; omega
      rw [hhs]; simp [hne]; exact h3 a (by simpa [Cfg.doRecvMsg] using ha)
    · refine ⟨fun h => by simp [Cfg.doRecvMsg] at h, fun _ => ?_, ?_⟩
      · show hs c.att (vis (c.doRecvMsg m rest)) ≠ []
        rw [hhs]
        cases hc : c.connected with
        | true => simp [h5b hc]
        | false => simp [msgEvents]
      · show payloads c.att (vis (c.doRecvMsg m rest)) ++ flat rest = flat (s c.att).items
        rw [hpl]; exact hflat
  case handle e rest r hp =>
    apply invV_frame hv <;> simp_all [Cfg.doHandle, vis, pend]
  case handled r hp =>
    cases r <;> apply invV_frame hv <;>
      simp_all [Cfg.doHandled, vis, pend, hs, Ev.ofAttempt]
  case check hp =>
    unfold Cfg.doCheck; split <;> apply invV_frame hv <;>
      simp_all [vis, pend, hs, Ev.ofAttempt]
  case closeInner sd hp =>
    unfold Cfg.doBcClose; split <;> apply invV_frame hv <;> simp_all [vis, pend]
  case plainClose hw hp =>
    unfold Cfg.doBcClose; split <;> apply invV_frame hv <;> simp_all [vis, pend]
  case recvWait rest hp hi hr =>
    apply invV_frame hv <;> simp_all [Cfg.doRecvWait, vis, pend, flat]
  all_goals
    apply invV_frame hv <;>
    simp_all [Cfg.doSubInit, Cfg.doPlainStart, Cfg.doConnFail, Cfg.doConnOk, Cfg.doInstall,
      Cfg.doRunErr, Cfg.doEof, Cfg.doPlainRet, Cfg.doDisc, Cfg.doReset, Cfg.doFinish,
      Cfg.doCloseCs, vis, pend, hs, Ev.ofAttempt]

theorem invV_reach {wrap : Bool} {s : Script N} {c : Cfg N} (h : Reach wrap s c) : InvV s c := by
  induction h with
  | init => exact invV_init s
  | step _ hs ih => exact invV_step ih hs

/-! ## After `Close` -/

/-- S is past `install` in the current attempt -/
@[simp] def SPc.pastInstall : SPc N → Bool
  | .idle => false
  | .connect => false
  | .install => false
  | _ => true

/-- `c.clientImpl` names an instance of this or an earlier attempt; this attempt's only once
S has installed it -/
def InvB (c : Cfg N) : Prop :=
  ∀ b, c.bcImpl = some b → b ≤ c.att ∧ (b = c.att → c.spc.pastInstall = true)

theorem invB_init : InvB (init : Cfg N) := by simp [InvB, init]

theorem invB_step {wrap : Bool} {s : Script N} {c c' : Cfg N} {l : Label}
    (hi : InvB c) (hs : Step wrap s c l c') : InvB c' := by
  unfold InvB at *
  lts_cases hs =>
    intro b hb
    have hib := hi b
    clear hi
    simp_all [Cfg.doSubInit, Cfg.doPlainStart, Cfg.doConnFail, Cfg.doConnOk, Cfg.doInstall,
      Cfg.doRecvMsg, Cfg.doRecvWait, Cfg.doHandle, Cfg.doRunErr, Cfg.doEof,
      Cfg.doPlainRet, Cfg.doDisc, Cfg.doReset, Cfg.doFinish, Cfg.doCloseCs] <;>
    (try omega)

theorem invB_reach {wrap : Bool} {s : Script N} {c : Cfg N} (h : Reach wrap s c) : InvB c := by
  induction h with
  | init => exact invB_init
  | step _ hs ih => exact invB_step ih hs

/-- pcs from which S does not come back to `Recv` on this stream without a new `Recv` -/
@[simp] def SPc.late : SPc N → Bool
  | .handling _ _ => true
  | .check => true
  | .runErr => true
  | .innerRet _ => true
  | .ctxCheck _ => true
  | .finishing => true
  | .returned _ => true
  | _ => false

@[simp] def SPc.runLoop : SPc N → Bool
  | .recv => true
  | .handling _ _ => true
  | .check => true
  | _ => false

@[simp] def SPc.isInstall : SPc N → Bool
  | .install => true
  | _ => false

structure InvQ (c : Cfg N) : Prop where
  le : ∀ n, c.postClose = some n → n ≤ 1
  late : c.postClose = some 1 → c.spc.late = true
  closed : ∀ n, c.postClose = some n → c.spc.runLoop = true → c.bcClosed = true
  kstarted : ∀ n, c.postClose = some n → c.kpc.isIdle = false
  atInstall : c.spc.isInstall = true → c.postClose = none

theorem invQ_init : InvQ (init : Cfg N) := by constructor <;> simp [init]

/-- in a reconnecting client, once `Close` is past its critical section and `Subscribe` past
`initDone`, the context is cancelled -/
theorem cancelled_of_started {wrap : Bool} {c : Cfg N} (hA : InvA wrap c) (hw : wrap = true)
    (hk : c.kpc.isIdle = false) (hs : c.spc.isIdle = false) : c.ctxDone = true := by
  obtain ⟨h1, h2, h3, h4, h5, h6, h7, h8⟩ := hA
  rw [Cfg.ctxDone, h4, h3, h1, hw, hk, hs]; cases c.parentC <;> rfl

theorem invQ_step {wrap : Bool} {s : Script N} {c c' : Cfg N} {l : Label}
    (hA : InvA wrap c) (hB : InvB c) (hP : wrap = false → c.spc.isLoop = false)
    (hQ : InvQ c) (hs : Step wrap s c l c') : InvQ c' := by
  obtain ⟨q1, q2, q3, q4, q5⟩ := hQ
  cases hs
  case sleepStart e hp hd =>
    -- with a delivery after Close pending, the loop cannot go back to sleep
    refine ⟨q1, fun h => ?_, fun n h hr => by simp at hr, q4, fun h => by simp at h⟩
    exfalso
    cases wrap with
    | false => simpa [hp] using hP rfl
    | true =>
        have := cancelled_of_started hA rfl (q4 _ h) (by simp [hp])
        simp [this] at hd
  case recvMsg m rest hp hi =>
    have h0 : ∀ n, c.postClose = some n → n = 0 := by
      intro n hn
      have := q1 n hn
      rcases Nat.le_one_iff_eq_zero_or_eq_one.mp this with h | h
      · exact h
      · subst h; have := q2 hn; simp [hp] at this
    refine ⟨fun n hn => ?_, fun _ => by simp [Cfg.doRecvMsg], fun n hn _ => ?_, fun n hn => ?_, fun h => by simp [Cfg.doRecvMsg] at h⟩
    · simp [Cfg.doRecvMsg] at hn
      obtain ⟨k, hk, rfl⟩ := hn
      rw [h0 k hk]; omega
    · simp [Cfg.doRecvMsg] at hn
      obtain ⟨k, hk, rfl⟩ := hn
      exact q3 k hk (by simp [hp])
    · simp [Cfg.doRecvMsg] at hn
      obtain ⟨k, hk, rfl⟩ := hn
      exact q4 k hk
  case check hp =>
    unfold Cfg.doCheck
    split
    · exact ⟨q1, fun _ => by simp, fun n h hr => by simp at hr, q4, fun h => by simp at h⟩
    · next hb =>
      have hnone : c.postClose = none := by
        cases hpc : c.postClose with
        | none => rfl
        | some n => exact absurd (q3 n hpc (by simp [hp])) hb
      constructor <;> simp [hnone]
  case closeInner sd hp =>
    have hnh : c.spc.isInstall = true → c.hitsCurrent = false := by
      intro hi
      cases hb : c.bcImpl with
      | none => simp [Cfg.hitsCurrent, hb]
      | some b =>
          have := hB b hb
          by_cases h : b = c.att
          · have := this.2 h; cases hsp : c.spc <;> simp_all
          · simp [Cfg.hitsCurrent, hb, h]
    unfold Cfg.doBcClose
    split
    · exact ⟨q1, q2, q3, fun n h => by simp, q5⟩
    · constructor
      · intro n hn; simp at hn; split at hn
        · cases hpc : c.postClose <;> simp_all <;> omega
        · exact q1 n hn
      · intro hn; simp at hn; split at hn
        · cases hpc : c.postClose <;> simp_all
        · exact q2 hn
      · intro n hn hr; simp
      · intro n hn; simp
      · intro hi
        simp at hi
        simp [hnh hi, q5 hi]
  case plainClose hw hp =>
    have hnh : c.spc.isInstall = true → c.hitsCurrent = false := by
      intro hi
      cases hb : c.bcImpl with
      | none => simp [Cfg.hitsCurrent, hb]
      | some b =>
          have := hB b hb
          by_cases h : b = c.att
          · have := this.2 h; cases hsp : c.spc <;> simp_all
          · simp [Cfg.hitsCurrent, hb, h]
    unfold Cfg.doBcClose
    split
    · exact ⟨q1, q2, q3, fun n h => by simp, q5⟩
    · constructor
      · intro n hn; simp at hn; split at hn
        · cases hpc : c.postClose <;> simp_all <;> omega
        · exact q1 n hn
      · intro hn; simp at hn; split at hn
        · cases hpc : c.postClose <;> simp_all
        · exact q2 hn
      · intro n hn hr; simp
      · intro n hn; simp
      · intro hi
        simp at hi
        simp [hnh hi, q5 hi]
  case handled r hp =>
    cases r <;> constructor <;> simp_all [Cfg.doHandled]
  all_goals
    constructor <;>
    simp_all [Cfg.doSubInit, Cfg.doPlainStart, Cfg.doConnFail, Cfg.doConnOk, Cfg.doInstall,
      Cfg.doRecvWait, Cfg.doHandle, Cfg.doRunErr, Cfg.doEof,
      Cfg.doPlainRet, Cfg.doDisc, Cfg.doReset, Cfg.doFinish, Cfg.doCloseCs]

theorem invQ_reach {wrap : Bool} {s : Script N} {c : Cfg N} (h : Reach wrap s c) : InvQ c := by
  induction h with
  | init => exact invQ_init
  | step hr hs ih =>
      refine invQ_step (invA_reach hr) (invB_reach hr) (fun hw => ?_) ih hs
      subst hw; exact plainS_reach hr

theorem bcClose_hit {c : Cfg N} (hB : InvB c)
    (hi : ∀ n, c.postClose = some n → c.spc.pastInstall = true ∧ c.curClosed = true) (k : Bool → KPc) :
    ∀ n, (c.doBcClose k).postClose = some n →
      (c.doBcClose k).spc.pastInstall = true ∧ (c.doBcClose k).curClosed = true := by
  unfold Cfg.doBcClose
  split
  · exact hi
  · next b hb =>
    intro n hn
    simp at hn
    split at hn
    · next hh =>
      have hba : b = c.att := by simpa [Cfg.hitsCurrent, hb] using hh
      exact ⟨(hB b hb).2 hba, by simp [hh]⟩
    · have := hi n hn; exact ⟨this.1, by simp [this.2]⟩

/-- plain clients: once `Close` has closed the instance S receives on, S stays past `install`
and the instance stays closed (so every blocked `Recv` is released) -/
theorem plainHit_step {s : Script N} {c c' : Cfg N} {l : Label}
    (hB : InvB c) (hL : c.spc.isLoop = false)
    (hi : ∀ n, c.postClose = some n → c.spc.pastInstall = true ∧ c.curClosed = true)
    (hs : Step false s c l c') :
    ∀ n, c'.postClose = some n → c'.spc.pastInstall = true ∧ c'.curClosed = true := by
  cases hs
  case closeInner sd hp => exact bcClose_hit hB hi _
  case plainClose hw hp => exact bcClose_hit hB hi _
  case handled r hp =>
    cases r <;> intro n hn <;> have := hi n hn <;> simp_all [Cfg.doHandled]
  case check hp =>
    unfold Cfg.doCheck; split <;> intro n hn <;> have := hi n hn <;> simp_all
  case recvMsg m rest hp hi' =>
    intro n hn
    simp [Cfg.doRecvMsg] at hn
    obtain ⟨k, hk, _⟩ := hn
    have := hi k hk
    simp_all [Cfg.doRecvMsg]
  all_goals
    intro n hn
    have hin := hi n
    clear hi
    simp_all [Cfg.doSubInit, Cfg.doPlainStart, Cfg.doConnFail, Cfg.doConnOk, Cfg.doInstall,
      Cfg.doRecvWait, Cfg.doHandle, Cfg.doRunErr, Cfg.doEof,
      Cfg.doPlainRet, Cfg.doDisc, Cfg.doReset, Cfg.doFinish, Cfg.doCloseCs]

theorem plainHit_reach {s : Script N} {c : Cfg N} (h : Reach false s c) :
    ∀ n, c.postClose = some n → c.spc.pastInstall = true ∧ c.curClosed = true := by
  induction h with
  | init => simp [init]
  | step hr hs ih => exact plainHit_step (invB_reach hr) (plainS_reach hr) ih hs

/-! ## Small invariants used by the property statements -/

@[simp] def SPc.isDone : SPc N → Bool
  | .finishing => true
  | .returned _ => true
  | _ => false

/-- a reconnecting `Subscribe` only leaves its loop through the cancelled-context exit -/
theorem done_ctxDone_step {s : Script N} {c c' : Cfg N} {l : Label}
    (hi : c.spc.isDone = true → c.ctxDone = true) (hs : Step true s c l c') :
    c'.spc.isDone = true → c'.ctxDone = true := by
  lts_cases hs =>
    simp_all [Cfg.ctxDone, Cfg.doSubInit, Cfg.doPlainStart, Cfg.doConnFail, Cfg.doConnOk, Cfg.doInstall,
      Cfg.doRecvMsg, Cfg.doRecvWait, Cfg.doHandle, Cfg.doRunErr, Cfg.doEof,
      Cfg.doPlainRet, Cfg.doDisc, Cfg.doReset, Cfg.doFinish, Cfg.doCloseCs] <;> grind

theorem done_ctxDone_reach {s : Script N} {c : Cfg N} (h : Reach true s c) :
    c.spc.isDone = true → c.ctxDone = true := by
  induction h with
  | init => simp [init]
  | step _ hs ih => exact done_ctxDone_step ih hs

/-- a `Close` that read a non-nil `subscribeDone` returns only after it was closed -/
theorem waited_step {wrap : Bool} {s : Script N} {c c' : Cfg N} {l : Label}
    (hi : ∀ e, c.kpc = .returned true e → c.sdClosed = true) (hs : Step wrap s c l c') :
    ∀ e, c'.kpc = .returned true e → c'.sdClosed = true := by
  lts_cases hs =>
    intro e' he'
    have hie := hi e'
    clear hi
    simp_all [Cfg.doSubInit, Cfg.doPlainStart, Cfg.doConnFail, Cfg.doConnOk, Cfg.doInstall,
      Cfg.doRecvMsg, Cfg.doRecvWait, Cfg.doHandle, Cfg.doRunErr, Cfg.doEof,
      Cfg.doPlainRet, Cfg.doDisc, Cfg.doReset, Cfg.doFinish, Cfg.doCloseCs]

theorem waited_reach {wrap : Bool} {s : Script N} {c : Cfg N} (h : Reach wrap s c) :
    ∀ e, c.kpc = .returned true e → c.sdClosed = true := by
  induction h with
  | init => simp [init]
  | step _ hs ih => exact waited_step ih hs

/-- nothing is ever appended to the trace once `Subscribe` has returned -/
theorem frozen_step {wrap : Bool} {s : Script N} {c c' : Cfg N} {l : Label}
    (hr : c.spc.isReturned = true) (hs : Step wrap s c l c') :
    c'.trace = c.trace ∧ c'.spc = c.spc := by
  lts_cases hs =>
    simp_all [Cfg.doSubInit, Cfg.doPlainStart, Cfg.doConnFail, Cfg.doConnOk, Cfg.doInstall,
      Cfg.doRecvMsg, Cfg.doRecvWait, Cfg.doHandle, Cfg.doRunErr, Cfg.doEof,
      Cfg.doPlainRet, Cfg.doDisc, Cfg.doReset, Cfg.doFinish, Cfg.doCloseCs]

end ClientLTS
end Gnmi
