import Gnmi.Model.RecvSurfaces
import Gnmi.Lemmas.CTree
/-!
# Lemmas for the C12 receive surfaces (`Model/RecvSurfaces.lean`)

* `pathmap.add` panics exactly when a proper prefix of the added path is bound to a value
  (`pmAddNE_panic_iff`); a sequence of adds whose paths are pairwise not proper prefixes of
  later ones never panics (`pmAddAll_ok`) — which is what the prefix-free client tree feeds
  `displayWalk` (`displayWalk_ok`);
* a handler that keeps an invariant and never panics makes `defaultRecv` / `run` total on
  WireValid responses (`run_ok`), and `CacheClient.defaultHandler` keeps the tree well formed
  (`cacheHandler_hok`);
* a rejected update unit leaves the handler state (the client tree) unchanged.
-/
namespace Gnmi.RX
open Gnmi.PV (GPath TV Scalar FloatOps Bytes toStrings completePath)
open List

/-! ## pathmap -/

section pathmap
variable {V : Type}

theorem pmGet_pmSet_same (m : PMap' V) (k : String) (x : PM V) : pmGet (pmSet m k x) k = some x := by
  induction m with
  | nil => simp [pmSet, pmGet]
  | cons a r ih =>
    obtain ⟨k', y⟩ := a
    by_cases h : k' = k
    · simp [pmSet, pmGet, h]
    · simp [pmSet, pmGet, h, ih]

theorem pmGet_pmSet_ne (m : PMap' V) (k k' : String) (x : PM V) (h : k' ≠ k) :
    pmGet (pmSet m k x) k' = pmGet m k' := by
  induction m with
  | nil => simp [pmSet, pmGet, Ne.symm h]
  | cons a r ih =>
    obtain ⟨k'', y⟩ := a
    by_cases h2 : k'' = k
    · subst h2
      simp [pmSet, pmGet, Ne.symm h]
    · by_cases h3 : k'' = k'
      · subst h3
        simp [pmSet, pmGet, h]
      · simp [pmSet, pmGet, h2, h3, ih]

/-- some proper, non-empty prefix of the path is bound to a value (not to a pathmap) -/
def blocked : PMap' V → Path → Bool
  | _, [] => false
  | _, [_] => false
  | m, k :: k2 :: rest =>
    match pmGet m k with
    | some (.val _) => true
    | some (.map mm) => blocked mm (k2 :: rest)
    | none => false

theorem blocked_nil (q : Path) : blocked ([] : PMap' V) q = false := by
  match q with
  | [] => rfl
  | [_] => rfl
  | _ :: _ :: _ => simp [blocked, pmGet]

/-- `pathmap.add` never returns an error, and panics exactly on a blocked path -/
theorem pmAddNE_spec : ∀ (m : PMap' V) (p : Path) (v : PM V),
    (blocked m p = true → pmAddNE m p v = .panic) ∧
    (blocked m p = false → ∃ m', pmAddNE m p v = .ok m')
  | m, [], v => by simp [blocked, pmAddNE]
  | m, [k], v => by simp [blocked, pmAddNE]
  | m, k :: k2 :: rest, v => by
    cases hg : pmGet m k with
    | none =>
      have ih := pmAddNE_spec [] (k2 :: rest) v
      rw [blocked_nil] at ih
      obtain ⟨m', hm'⟩ := ih.2 rfl
      simp [blocked, pmAddNE, hg, hm']
    | some x =>
      cases x with
      | val w => simp [blocked, pmAddNE, hg]
      | map mm =>
        have ih := pmAddNE_spec mm (k2 :: rest) v
        constructor
        · intro hb
          have hb' : blocked mm (k2 :: rest) = true := by simpa [blocked, hg] using hb
          simp [pmAddNE, hg, ih.1 hb']
        · intro hb
          have hb' : blocked mm (k2 :: rest) = false := by simpa [blocked, hg] using hb
          obtain ⟨m', hm'⟩ := ih.2 hb'
          simp [pmAddNE, hg, hm']

theorem pmAddNE_panic_iff (m : PMap' V) (p : Path) (v : PM V) :
    pmAddNE m p v = .panic ↔ blocked m p = true := by
  constructor
  · intro h
    cases hb : blocked m p with
    | true => rfl
    | false =>
      obtain ⟨m', hm'⟩ := (pmAddNE_spec m p v).2 hb
      rw [hm'] at h
      cases h
  · exact (pmAddNE_spec m p v).1

/-- `a` is a proper prefix of `b` -/
def ProperPrefix (a b : Path) : Prop := a <+: b ∧ a ≠ b

theorem properPrefix_cons {k : String} {a b : Path} (h : ProperPrefix a b) : ProperPrefix (k :: a) (k :: b) :=
  ⟨(prefix_cons_inj k).2 h.1, fun e => h.2 (List.cons.inj e).2⟩

/-- after an add, whatever is blocked was blocked before or runs through the added path -/
theorem blocked_after_add : ∀ (m m' : PMap' V) (p : Path) (v : PM V) (q : Path),
    pmAddNE m p v = .ok m' → blocked m' q = true → blocked m q = true ∨ ProperPrefix p q
  | m, m', [], v, q, ha, hb => by
    simp only [pmAddNE, Outcome.ok.injEq] at ha
    subst ha
    exact Or.inl hb
  | m, m', [k], v, q, ha, hb => by
    simp only [pmAddNE, Outcome.ok.injEq] at ha
    subst ha
    match q, hb with
    | [], hb => simp [blocked] at hb
    | [_], hb => simp [blocked] at hb
    | k' :: q2 :: qr, hb =>
      by_cases hk : k' = k
      · subst hk
        right
        exact ⟨by simp [cons_prefix_cons], by simp⟩
      · left
        simpa [blocked, pmGet_pmSet_ne m k k' v hk] using hb
  | m, m', k :: k2 :: rest, v, q, ha, hb => by
    match q, hb with
    | [], hb => simp [blocked] at hb
    | [_], hb => simp [blocked] at hb
    | k' :: q2 :: qr, hb =>
      by_cases hk : k' = k
      · subst hk
        cases hg : pmGet m k' with
        | none =>
          simp only [pmAddNE, hg] at ha
          cases hs : pmAddNE [] (k2 :: rest) v with
          | ok mm' =>
            simp only [hs, Outcome.ok.injEq] at ha
            subst ha
            have hb' : blocked mm' (q2 :: qr) = true := by simpa [blocked, pmGet_pmSet_same] using hb
            rcases blocked_after_add [] mm' (k2 :: rest) v (q2 :: qr) hs hb' with h | h
            · rw [blocked_nil] at h
              cases h
            · exact Or.inr (properPrefix_cons h)
          | err e => simp [hs] at ha
          | panic => simp [hs] at ha
        | some x =>
          cases x with
          | val w => simp [pmAddNE, hg] at ha
          | map mm =>
            simp only [pmAddNE, hg] at ha
            cases hs : pmAddNE mm (k2 :: rest) v with
            | ok mm' =>
              simp only [hs, Outcome.ok.injEq] at ha
              subst ha
              have hb' : blocked mm' (q2 :: qr) = true := by simpa [blocked, pmGet_pmSet_same] using hb
              rcases blocked_after_add mm mm' (k2 :: rest) v (q2 :: qr) hs hb' with h | h
              · left
                simpa [blocked, hg] using h
              · exact Or.inr (properPrefix_cons h)
            | err e => simp [hs] at ha
            | panic => simp [hs] at ha
      · left
        have hne : pmGet m' k' = pmGet m k' := by
          cases hg : pmGet m k with
          | none =>
            simp only [pmAddNE, hg] at ha
            cases hs : pmAddNE [] (k2 :: rest) v with
            | ok mm' =>
              simp only [hs, Outcome.ok.injEq] at ha
              subst ha
              exact pmGet_pmSet_ne m k k' _ hk
            | err e => simp [hs] at ha
            | panic => simp [hs] at ha
          | some x =>
            cases x with
            | val w => simp [pmAddNE, hg] at ha
            | map mm =>
              simp only [pmAddNE, hg] at ha
              cases hs : pmAddNE mm (k2 :: rest) v with
              | ok mm' =>
                simp only [hs, Outcome.ok.injEq] at ha
                subst ha
                exact pmGet_pmSet_ne m k k' _ hk
              | err e => simp [hs] at ha
              | panic => simp [hs] at ha
        simpa [blocked, hne] using hb

/-- everything blocked in `m` runs through one of the paths `added` -/
def NoBlock (added : List Path) (m : PMap' V) : Prop :=
  ∀ q, blocked m q = true → ∃ k ∈ added, ProperPrefix k q

theorem noBlock_nil : NoBlock [] ([] : PMap' V) := by
  intro q h
  rw [blocked_nil] at h
  cases h

/-- **a sequence of adds never panics** when no path is a proper prefix of a later one -/
theorem pmAddAll_ok : ∀ (kvs : List (Path × PM V)) (added : List Path) (m : PMap' V),
    NoBlock added m →
    (added ++ kvs.map (fun kv => normKey kv.1)).Pairwise (fun a b => ¬ ProperPrefix a b) →
    ∃ m', pmAddAll m kvs = .ok m'
  | [], _, m, _, _ => ⟨m, rfl⟩
  | (p, v) :: r, added, m, hm, hp => by
    have hnb : blocked m (normKey p) = false := by
      cases hb : blocked m (normKey p) with
      | false => rfl
      | true =>
        obtain ⟨k, hk, hpp⟩ := hm _ hb
        have := (pairwise_append.1 hp).2.2 k hk (normKey p) (by simp)
        exact absurd hpp this
    obtain ⟨m', hm'⟩ := (pmAddNE_spec m (normKey p) v).2 hnb
    have hm'' : NoBlock (added ++ [normKey p]) m' := by
      intro q hq
      rcases blocked_after_add m m' (normKey p) v q hm' hq with h | h
      · obtain ⟨k, hk, hpp⟩ := hm q h
        exact ⟨k, by simp [hk], hpp⟩
      · exact ⟨normKey p, by simp, h⟩
    have hp' : ((added ++ [normKey p]) ++ r.map (fun kv => normKey kv.1)).Pairwise
        (fun a b => ¬ ProperPrefix a b) := by
      simpa [List.append_assoc] using hp
    obtain ⟨m2, hm2⟩ := pmAddAll_ok r (added ++ [normKey p]) m' hm'' hp'
    exact ⟨m2, by simp [pmAddAll, pmAdd, hm', hm2]⟩

end pathmap


/-! ## displayWalk over a well-formed client tree -/

section display
variable {F D : Type}

theorem walkEntry_fst (tm : TsMode) (kv : Path × TreeVal F D) : (walkEntry tm kv).1 = kv.1 := by
  unfold walkEntry
  split <;> rfl

theorem walkSorted_branch_key_ne_nil {V : Type} (cs : List (String × Trie V)) (x : Path × V)
    (hx : x ∈ Trie.walkSorted (.branch cs)) : x.1 ≠ [] := by
  simp only [Trie.walkSorted, mem_flatten, mem_map] at hx
  obtain ⟨l, ⟨kr, _, rfl⟩, hxl⟩ := hx
  simp only [mem_map] at hxl
  obtain ⟨y, _, rfl⟩ := hxl
  simp [pre]

theorem apart_symm {V : Type} {a b : Path × V} (h : Trie.Apart a b) : Trie.Apart b a := ⟨h.2, h.1⟩

theorem walkSorted_apart {V : Type} (t : Trie V) (h : Trie.WFRoot t) :
    (Trie.walkSorted t).Pairwise Trie.Apart :=
  ((Trie.walkSorted_perm t).pairwise_iff (fun h => apart_symm h)).2 (Trie.walk_apart t h)

/-- **`displayWalk` never panics on a well-formed (prefix-free) client tree** -/
theorem displayWalk_ok (tm : TsMode) (t : CTree F D) (h : Trie.WFRoot t) :
    ∃ sh, displayWalk tm t = .ok sh := by
  have key : ∃ m', pmAddAll [] ((Trie.walkSorted t).map (walkEntry tm)) = .ok m' := by
    apply pmAddAll_ok _ [] [] noBlock_nil
    simp only [nil_append, map_map]
    cases t with
    | empty => simp [Trie.walkSorted]
    | leaf v => simp [Trie.walkSorted]
    | branch cs =>
      have hk : (Trie.walkSorted (.branch cs)).map ((fun kv => normKey kv.1) ∘ walkEntry tm) =
          (Trie.walkSorted (.branch cs)).map (fun kv => kv.1) := by
        apply map_congr_left
        intro x hx
        have := walkSorted_branch_key_ne_nil cs x hx
        simp [walkEntry_fst, normKey, this]
      rw [hk, pairwise_map]
      exact (walkSorted_apart _ h).imp (fun hab hpp => hab.1 hpp.1)
  obtain ⟨m', hm'⟩ := key
  exact ⟨.group m', by simp [displayWalk, hm']⟩

theorem normKey_append_singleton (p : Path) (x : String) : normKey (p ++ [x]) = p ++ [x] := by
  simp [normKey]

/-- the `display` closure of the streaming handler never panics -/
theorem streamDisplay_ok (tm : TsMode) (s : CliSt F D) (p : Path) (ts : Int) (v : CVal F D) :
    ∃ s', streamDisplay tm s p ts v = some s' := by
  unfold streamDisplay
  by_cases hc : s.complete
  · simp only [hc, Bool.not_true, Bool.false_eq_true, if_false]
    have key : ∀ adds : List (Path × PM (DV F D)),
        (adds.map (fun kv => normKey kv.1)).Pairwise (fun a b => ¬ ProperPrefix a b) →
        ∃ m', pmAddAll [] adds = .ok m' := fun adds hp =>
      pmAddAll_ok adds [] [] noBlock_nil (by simpa using hp)
    cases ht : formatTime (F := F) (D := D) tm ts with
    | none =>
      obtain ⟨m', hm'⟩ := key [(p, .val (.cval v))] (by simp)
      simp only [hm']
      exact ⟨_, rfl⟩
    | some t =>
      obtain ⟨m', hm'⟩ := key [(p ++ ["timestamp"], .val t), (p ++ ["value"], .val (.cval v))] (by
        simp only [map_cons, map_nil, normKey_append_singleton, pairwise_cons, mem_cons, mem_nil_iff,
          or_false, forall_eq, Pairwise.nil, and_true]
        refine ⟨?_, by simp⟩
        intro hpp
        have := (prefix_append_right_inj p).1 hpp.1
        simp [cons_prefix_cons] at this)
      simp only [hm']
      exact ⟨_, rfl⟩
  · simp [hc]

theorem streamHandler_ok (tm : TsMode) (t : CTree F D) (ht : Trie.WFRoot t) (s : CliSt F D) (n : CNoti F D) :
    ∃ s', streamHandler tm t s n = some s' := by
  cases n with
  | update p ts v d => exact streamDisplay_ok tm s p ts v
  | delete p ts => exact streamDisplay_ok tm s p ts .nil
  | sync =>
    obtain ⟨sh, hsh⟩ := displayWalk_ok tm t ht
    simp only [streamHandler, hsh]
    exact ⟨_, rfl⟩
  | nilN => exact ⟨s, rfl⟩
  | connected => exact ⟨s, rfl⟩
  | error => exact ⟨s, rfl⟩

end display

/-! ## value decoding and `noti` -/

section recv
variable {F D : Type} [FloatOps F D]

omit [FloatOps F D] in
theorem tvWireElems_cons {e : TV F D} {r : List (TV F D)} (h : tvWireElems (e :: r) = true) :
    e ≠ .nilMsg ∧ tvWire e = true ∧ tvWireElems r = true := by
  cases e <;> simp_all [tvWireElems, tvWire]

mutual
/-- `value.ToScalar` does not panic on a decoded value -/
theorem toScalarJ_ok (jv : Bytes → Bool) : ∀ (tv : TV F D), tvWire tv = true → tv ≠ .nilMsg →
    toScalarJ jv tv ≠ .panic
  | .leaflistVal l, hw, _ => by
    have := toScalarJList_ok jv l (by simpa [tvWire] using hw)
    simp only [toScalarJ]
    split <;> simp_all
  | .decimalNil, hw, _ => by simp [tvWire] at hw
  | .leaflistNil, hw, _ => by simp [tvWire] at hw
  | .nilMsg, _, hn => absurd rfl hn
  | .jsonVal b, _, _ => by
    simp only [toScalarJ]
    split <;> simp
  | .jsonIetfVal b, _, _ => by
    simp only [toScalarJ]
    split <;> simp
  | .decimalVal _ _, _, _ => by simp [toScalarJ]
  | .stringVal _, _, _ => by simp [toScalarJ]
  | .intVal _, _, _ => by simp [toScalarJ]
  | .uintVal _, _, _ => by simp [toScalarJ]
  | .boolVal _, _, _ => by simp [toScalarJ]
  | .floatVal _, _, _ => by simp [toScalarJ]
  | .doubleVal _, _, _ => by simp [toScalarJ]
  | .bytesVal _, _, _ => by simp [toScalarJ]
  | .unset, _, _ => by simp [toScalarJ]
  | .anyVal _, _, _ => by simp [toScalarJ]
  | .asciiVal _, _, _ => by simp [toScalarJ]
  | .protoBytes _, _, _ => by simp [toScalarJ]
theorem toScalarJList_ok (jv : Bytes → Bool) : ∀ (l : List (TV F D)), tvWireElems l = true →
    toScalarJList jv l ≠ .panic
  | [], _ => by simp [toScalarJList]
  | e :: r, hw => by
    obtain ⟨h1, h2, h3⟩ := tvWireElems_cons hw
    have he := toScalarJ_ok jv e h2 h1
    have hr := toScalarJList_ok jv r h3
    simp only [toScalarJList]
    split
    · split <;> simp_all
    · simp
    · simp_all
end

/-- `noti` does not panic on a decoded update -/
theorem noti_ok (jv : Bytes → Bool) (pfx : Path) (pp : Option GPath) (ts : Int) (u : Update F D)
    (hw : u.wireValid = true) : noti jv pfx pp ts (some u) ≠ .panic := by
  unfold noti
  simp only []
  split
  · split
    · simp
    · split
      · simp
      · split
        · split <;> simp
        · simp
  · rename_i hne
    have := toScalarJ_ok jv u.val hw (by
      intro h
      exact hne h)
    split <;> simp_all

/-- the delete call of `noti` returns a `Delete` -/
theorem noti_delete (jv : Bytes → Bool) (pfx : Path) (pp : Option GPath) (ts : Int) :
    noti (F := F) (D := D) jv pfx pp ts none = .ok (.delete (pfx ++ toStrings pp false) ts) := rfl

/-! ## handlers with an invariant -/

variable {σ : Type}

/-- the handler keeps `I` and never panics on a state satisfying it -/
def HOK (h : σ → CNoti F D → Option σ) (I : σ → Prop) : Prop :=
  ∀ s n, I s → ∃ s', h s n = some s' ∧ I s'

def UpdatesWire (us : List (Option (Update F D))) : Prop :=
  ∀ u ∈ us, ∃ u', u = some u' ∧ u'.wireValid = true

theorem recvUpdates_ok (jv : Bytes → Bool) (h : σ → CNoti F D → Option σ) (I : σ → Prop) (hh : HOK h I)
    (pfx : Path) (ts : Int) : ∀ (us : List (Option (Update F D))) (s : σ), I s → UpdatesWire us →
    (recvUpdates jv h pfx ts us s).1 ≠ .panic ∧ I (recvUpdates jv h pfx ts us s).2
  | [], s, hi, _ => by simp [recvUpdates, hi]
  | none :: r, s, _, hw => by
    obtain ⟨u', hu, _⟩ := hw none (by simp)
    cases hu
  | some u :: r, s, hi, hw => by
    have hu : u.wireValid = true := by
      obtain ⟨u', hu, hv⟩ := hw (some u) (by simp)
      cases hu
      exact hv
    have hr : UpdatesWire r := fun x hx => hw x (by simp [hx])
    simp only [recvUpdates]
    cases hp : u.path with
    | none => simp [hi]
    | some pp =>
      simp only []
      cases hn : noti jv pfx (some pp) ts (some u) with
      | panic => exact absurd hn (noti_ok jv pfx (some pp) ts u hu)
      | err e => simp [hi]
      | ok n =>
        obtain ⟨s', hs', hi'⟩ := hh s n hi
        simp only [hs']
        exact recvUpdates_ok jv h I hh pfx ts r s' hi' hr

omit [FloatOps F D] in
theorem recvDeletes_ok (h : σ → CNoti F D → Option σ) (I : σ → Prop) (hh : HOK h I)
    (pfx : Path) (ts : Int) : ∀ (ds : List (Option GPath)) (s : σ), I s →
    (recvDeletes h pfx ts ds s).1 = .ok () ∧ I (recvDeletes h pfx ts ds s).2
  | [], s, hi => by simp [recvDeletes, hi]
  | d :: r, s, hi => by
    obtain ⟨s', hs', hi'⟩ := hh s (.delete (pfx ++ toStrings d false) ts) hi
    simp only [recvDeletes, hs']
    exact recvDeletes_ok h I hh pfx ts r s' hi'

omit [FloatOps F D] in
theorem notification_updatesWire {n : Notification F D} (h : n.wireValid = true) : UpdatesWire n.update := by
  intro u hu
  simp only [Notification.wireValid, Bool.and_eq_true, all_eq_true] at h
  have := h.1 u hu
  cases u with
  | none => simp at this
  | some u' => exact ⟨u', rfl, this⟩

theorem recvBody_ok (jv : Bytes → Bool) (qt : QType) (h : σ → CNoti F D → Option σ) (I : σ → Prop)
    (hh : HOK h I) (s : σ) (hi : I s) (r : Response F D) (hw : r.wireValid = true) :
    (recvBody jv qt h s r).1 ≠ .panic ∧ I (recvBody jv qt h s r).2 := by
  cases r with
  | nilMsg => simp [Response.wireValid] at hw
  | unset => simp [recvBody, hi]
  | error p => simp [recvBody, hi]
  | sync b =>
    obtain ⟨s', hs', hi'⟩ := hh s .sync hi
    simp [recvBody, hs', hi']
  | update n =>
    cases n with
    | none => simp [Response.wireValid] at hw
    | some n =>
      have hu := recvUpdates_ok jv h I hh (toStrings n.pfx true) n.ts n.update s hi
        (notification_updatesWire hw)
      simp only [recvBody]
      generalize recvUpdates jv h (toStrings n.pfx true) n.ts n.update s = ru at hu ⊢
      obtain ⟨o, s'⟩ := ru
      cases o with
      | panic => exact absurd rfl hu.1
      | err e => exact ⟨by simp, hu.2⟩
      | ok x =>
        cases x
        have hd := recvDeletes_ok h I hh (toStrings n.pfx true) n.ts n.delete s' hu.2
        simp only []
        generalize recvDeletes h (toStrings n.pfx true) n.ts n.delete s' = rd at hd ⊢
        obtain ⟨o2, s''⟩ := rd
        simp only at hd
        obtain ⟨h1, h2⟩ := hd
        subst h1
        exact ⟨by simp, h2⟩

theorem defaultRecv_ok (jv : Bytes → Bool) (qt : QType) (h : σ → CNoti F D → Option σ) (I : σ → Prop)
    (hh : HOK h I) (s : RecvSt σ) (hi : I s.h) (r : Response F D) (hw : r.wireValid = true) :
    (defaultRecv jv qt h s r).1 ≠ .panic ∧ I (defaultRecv jv qt h s r).2.h := by
  unfold defaultRecv
  by_cases hc : s.connected
  · simp only [hc, if_true]
    exact recvBody_ok jv qt h I hh s.h hi r hw
  · obtain ⟨s', hs', hi'⟩ := hh s.h .connected hi
    simp only [hc, Bool.false_eq_true, if_false, hs']
    exact recvBody_ok jv qt h I hh s' hi' r hw

/-- **the read loop never panics on WireValid responses** and keeps the handler invariant;
the unread rest of the script is a suffix of the script -/
theorem run_ok (jv : Bytes → Bool) (qt : QType) (h : σ → CNoti F D → Option σ) (I : σ → Prop)
    (hh : HOK h I) : ∀ (rs : List (Response F D)) (s : RecvSt σ), I s.h →
    (∀ r ∈ rs, r.wireValid = true) →
    (run jv qt h rs s).1 ≠ .panic ∧ I (run jv qt h rs s).2.1.h ∧
      (∀ r ∈ (run jv qt h rs s).2.2, r.wireValid = true)
  | [], s, hi, _ => by simp [run, hi]
  | r :: rest, s, hi, hw => by
    have hr := defaultRecv_ok jv qt h I hh s hi r (hw r (by simp))
    have hrest : ∀ x ∈ rest, x.wireValid = true := fun x hx => hw x (by simp [hx])
    simp only [run]
    generalize defaultRecv jv qt h s r = dr at hr ⊢
    obtain ⟨o, s'⟩ := dr
    cases o with
    | panic => exact absurd rfl hr.1
    | err e => exact ⟨by simp, hr.2, hrest⟩
    | ok c =>
      cases c with
      | cont => exact run_ok jv qt h I hh rest s' hr.2 hrest
      | stop => exact ⟨by simp, hr.2, hrest⟩

/-! ## `CacheClient.defaultHandler` keeps the client tree well formed -/

omit [FloatOps F D] in
theorem cacheHandler_hok (ch : CTree F D → σ → CNoti F D → Option σ) (J : σ → Prop)
    (hch : ∀ t s n, Trie.WFRoot t → J s → ∃ s', ch t s n = some s' ∧ J s') :
    HOK (cacheHandler ch) (fun x : CTree F D × σ => Trie.WFRoot x.1 ∧ J x.2) := by
  intro s n hi
  obtain ⟨t, x⟩ := s
  obtain ⟨ht, hj⟩ := hi
  cases n with
  | nilN => exact ⟨_, rfl, ht, hj⟩
  | error => exact ⟨_, rfl, ht, hj⟩
  | connected =>
    obtain ⟨x', hx', hj'⟩ := hch t x .connected ht hj
    exact ⟨(t, x'), by simp [cacheHandler, hx'], ht, hj'⟩
  | sync =>
    obtain ⟨x', hx', hj'⟩ := hch t x .sync ht hj
    exact ⟨(t, x'), by simp [cacheHandler, hx'], ht, hj'⟩
  | update p ts v d =>
    have ht' : Trie.WFRoot ((t.add p { ts := ts, val := v }).getD t) := by
      cases ha : t.add p { ts := ts, val := v } with
      | none => simpa using ht
      | some t' => exact Or.inr (Trie.add_spec t p _ t' ht ha).1
    obtain ⟨x', hx', hj'⟩ := hch _ x (.update p ts v d) ht' hj
    refine ⟨(_, x'), ?_, ht', hj'⟩
    simp only [cacheHandler, hx', Option.map_some]
    cases Trie.add t p { ts := ts, val := v } <;> rfl
  | delete p ts =>
    have ht' : Trie.WFRoot (Trie.del (fun _ => true) t p).1 := (Trie.del_spec _ t p ht).1
    obtain ⟨x', hx', hj'⟩ := hch _ x (.delete p ts) ht' hj
    refine ⟨(_, x'), ?_, ht', hj'⟩
    simp only [cacheHandler, hx', Option.map_some]

/-! ## a rejected update unit changes nothing -/

/-- If the update loop of `defaultRecv` ends with an error, the state it leaves is exactly the
state after the accepted units in front of the rejected one: the rejected unit and everything
after it in the message change nothing. -/
theorem recvUpdates_err_split (jv : Bytes → Bool) (h : σ → CNoti F D → Option σ) (pfx : Path) (ts : Int) :
    ∀ (us : List (Option (Update F D))) (s : σ) (e : ErrClass) (s' : σ),
    recvUpdates jv h pfx ts us s = (.err e, s') →
    ∃ acc rest, us = acc ++ rest ∧ rest ≠ [] ∧ recvUpdates jv h pfx ts acc s = (.ok (), s') ∧
      recvUpdates jv h pfx ts rest s' = (.err e, s')
  | [], s, e, s', hr => by simp [recvUpdates] at hr
  | none :: r, s, e, s', hr => by simp [recvUpdates] at hr
  | some u :: r, s, e, s', hr => by
    cases hp : u.path with
    | none =>
      simp only [recvUpdates, hp, Prod.mk.injEq, Outcome.err.injEq] at hr
      obtain ⟨rfl, rfl⟩ := hr
      exact ⟨[], some u :: r, rfl, by simp, by simp [recvUpdates], by simp [recvUpdates, hp]⟩
    | some pp =>
      cases hn : noti jv pfx (some pp) ts (some u) with
      | panic => simp [recvUpdates, hp, hn] at hr
      | err e' =>
        simp only [recvUpdates, hp, hn, Prod.mk.injEq, Outcome.err.injEq] at hr
        obtain ⟨rfl, rfl⟩ := hr
        exact ⟨[], some u :: r, rfl, by simp, by simp [recvUpdates], by simp [recvUpdates, hp, hn]⟩
      | ok n =>
        cases hh : h s n with
        | none => simp [recvUpdates, hp, hn, hh] at hr
        | some s1 =>
          simp only [recvUpdates, hp, hn, hh] at hr
          obtain ⟨acc, rest, rfl, hne, hacc, hrest⟩ := recvUpdates_err_split jv h pfx ts r s1 e s' hr
          exact ⟨some u :: acc, rest, rfl, hne, by simp [recvUpdates, hp, hn, hh, hacc], hrest⟩

omit [FloatOps F D] in
/-- the delete loop never returns an error -/
theorem recvDeletes_not_err (h : σ → CNoti F D → Option σ) (pfx : Path) (ts : Int) :
    ∀ (ds : List (Option GPath)) (s : σ) (e : ErrClass) (s' : σ), recvDeletes h pfx ts ds s ≠ (.err e, s')
  | [], s, e, s' => by simp [recvDeletes]
  | d :: r, s, e, s' => by
    simp only [recvDeletes]
    cases hh : h s (.delete (pfx ++ toStrings d false) ts) with
    | none => simp
    | some s1 => exact recvDeletes_not_err h pfx ts r s1 e s'

/-- a response that is rejected without being an update leaves the state untouched; a
rejected update response leaves the state reached by the accepted units before the rejected one -/
theorem recvBody_rejected (jv : Bytes → Bool) (qt : QType) (h : σ → CNoti F D → Option σ) (s s' : σ)
    (r : Response F D) (e : ErrClass) (hr : recvBody jv qt h s r = (.err e, s')) :
    ((∀ n, r ≠ .update (some n)) → s' = s) ∧
    (∀ n, r = .update (some n) → ∃ acc rest, n.update = acc ++ rest ∧ rest ≠ [] ∧
      recvUpdates jv h (toStrings n.pfx true) n.ts acc s = (.ok (), s') ∧
      recvUpdates jv h (toStrings n.pfx true) n.ts rest s' = (.err e, s')) := by
  cases r with
  | nilMsg => simp [recvBody] at hr
  | unset =>
    simp only [recvBody, Prod.mk.injEq] at hr
    exact ⟨fun _ => hr.2.symm, fun n hn => by cases hn⟩
  | error p =>
    simp only [recvBody, Prod.mk.injEq] at hr
    exact ⟨fun _ => hr.2.symm, fun n hn => by cases hn⟩
  | sync b =>
    simp only [recvBody] at hr
    cases hh : h s .sync with
    | none => simp [hh] at hr
    | some s1 => simp [hh] at hr
  | update n =>
    cases n with
    | none => simp [recvBody] at hr
    | some n =>
      refine ⟨fun hne => absurd rfl (hne n), fun n' hn' => ?_⟩
      cases hn'
      simp only [recvBody] at hr
      cases hu : recvUpdates jv h (toStrings n.pfx true) n.ts n.update s with
      | mk o s1 =>
        rw [hu] at hr
        cases o with
        | panic => simp at hr
        | err e1 =>
          simp only [Prod.mk.injEq, Outcome.err.injEq] at hr
          obtain ⟨rfl, rfl⟩ := hr
          exact recvUpdates_err_split jv h _ _ _ _ _ _ hu
        | ok x =>
          cases x
          simp only [] at hr
          cases hd : recvDeletes h (toStrings n.pfx true) n.ts n.delete s1 with
          | mk o2 s2 =>
            rw [hd] at hr
            cases o2 with
            | panic => simp at hr
            | ok y => cases y; simp at hr
            | err e2 => exact absurd hd (recvDeletes_not_err h _ _ _ _ _ _)

end recv

/-! ## the Subscribe handler -/

section subscribe
variable {F D : Type}

theorem makeResponse_some_ok (noDup : Bool) (n : Notification F D) (dup : Nat) :
    makeResponse noDup (.noti (some n)) dup ≠ .panic := by
  unfold makeResponse
  simp only []
  split
  · rename_i hc
    simp only [Bool.and_eq_true, decide_eq_true_eq] at hc
    cases hu : n.update with
    | nil => simp [hu] at hc
    | cons u r =>
      cases u <;> simp [cloneNoti, hu]
  · simp

theorem makeResponse_ok (noDup : Bool) (st : Stored F D) (dup : Nat) (hw : st.wireValid = true) :
    makeResponse noDup st dup ≠ .panic := by
  cases st with
  | foreign => simp [makeResponse]
  | noti n =>
    cases n with
    | none => simp [Stored.wireValid] at hw
    | some n => exact makeResponse_some_ok noDup n dup

theorem isTargetDelete_ok (st : Stored F D) (hw : st.wireValid = true) : isTargetDelete st ≠ none := by
  cases st with
  | foreign => simp [isTargetDelete]
  | noti n =>
    cases n with
    | none => simp [Stored.wireValid] at hw
    | some n =>
      simp only [isTargetDelete]
      split <;> simp

theorem offerUpdates_ok (pre : Path) : ∀ (us : List (Option (Update F D))), (∀ u ∈ us, u ≠ none) →
    offerUpdates pre us ≠ none
  | [], _ => by simp [offerUpdates]
  | none :: r, h => absurd rfl (h none (by simp))
  | some u :: r, h => by
    have := offerUpdates_ok pre r (fun x hx => h x (by simp [hx]))
    simp only [offerUpdates]
    cases ho : offerUpdates pre r with
    | none => exact absurd ho this
    | some l => simp

theorem offeredPaths_ok (st : Stored F D) (hw : st.wireValid = true) : offeredPaths st ≠ none := by
  cases st with
  | foreign => simp [offeredPaths]
  | noti n =>
    cases n with
    | none => simp [Stored.wireValid] at hw
    | some n =>
      simp only [Stored.wireValid, Notification.wireValid, Bool.and_eq_true, all_eq_true] at hw
      have := offerUpdates_ok (toStrings n.pfx true) n.update (fun u hu hn => by
        have := hw.1 u hu
        subst hn
        simp at this)
      simp only [offeredPaths]
      cases ho : offerUpdates (toStrings n.pfx true) n.update with
      | none => exact absurd ho this
      | some l => simp

theorem sendItem_ok (noDup : Bool) (target : String) (st : Stored F D) (dup : Nat)
    (hw : st.wireValid = true) : sendItem noDup target st dup ≠ .panic := by
  unfold sendItem
  have h1 := makeResponse_ok noDup st dup hw
  have h2 := isTargetDelete_ok st hw
  cases hm : makeResponse noDup st dup with
  | panic => exact absurd hm h1
  | err e => simp
  | ok x =>
    cases hi : isTargetDelete st with
    | none => exact absurd hi h2
    | some b => simp

theorem sendAll_ok (noDup : Bool) (target : String) (dup : Nat → Nat) :
    ∀ (i : Nat) (items : List (Path × Stored F D)) (acc : List Path),
    (∀ kv ∈ items, kv.2.wireValid = true) → sendAll noDup target dup i items acc ≠ .panic
  | _, [], _, _ => by simp [sendAll]
  | i, (k, st) :: rest, acc, hw => by
    have h1 := sendItem_ok noDup target st (dup i) (hw (k, st) (by simp))
    simp only [sendAll]
    cases hs : sendItem noDup target st (dup i) with
    | panic => exact absurd hs h1
    | err e => simp
    | ok b =>
      cases b with
      | true => simp
      | false => exact sendAll_ok noDup target dup (i + 1) rest _ (fun kv hkv => hw kv (by simp [hkv]))

theorem cacheQuery_wire (c : CacheView F D) (hc : c.wireValid = true) (target : String) (q : Path)
    (found : List (Path × Stored F D)) (hq : cacheQuery c target q = some found) :
    ∀ kv ∈ found, kv.2.wireValid = true := by
  simp only [CacheView.wireValid, all_eq_true] at hc
  unfold cacheQuery at hq
  split at hq
  · cases hq
  · split at hq
    · cases hq
      intro kv hkv
      simp only [mem_flatMap, mem_map, mem_filter] at hkv
      obtain ⟨t, ht, x, ⟨hx, _⟩, rfl⟩ := hkv
      exact hc t ht x hx
    · split at hq
      · cases hq
      · rename_i t hf
        cases hq
        intro kv hkv
        simp only [mem_map, mem_filter] at hkv
        obtain ⟨x, ⟨hx, _⟩, rfl⟩ := hkv
        exact hc t (mem_of_find?_eq_some hf) x hx

theorem walkItems_ok (c : CacheView F D) (hc : c.wireValid = true) (target : String) (s : SubscriptionList) :
    walkItems c target s ≠ .panic ∧
      ∀ items, walkItems c target s = .ok items → ∀ kv ∈ items, kv.2.wireValid = true := by
  unfold walkItems
  split
  · simp
  · have key : ∀ (subs : List (Option Subscription)) (acc : Outcome (List (Path × Stored F D))),
        (acc ≠ .panic ∧ ∀ items, acc = .ok items → ∀ kv ∈ items, kv.2.wireValid = true) →
        let r := subs.foldl (fun acc sub =>
          match acc with
          | .ok items =>
            (match completePath s.pfx (subPath sub) with
             | .error _ => .err .unknown
             | .ok full =>
               match cacheQuery c target full with
               | none => .ok items
               | some found => .ok (items ++ found))
          | o => o) acc
        (r ≠ .panic ∧ ∀ items, r = .ok items → ∀ kv ∈ items, kv.2.wireValid = true) := by
      intro subs
      induction subs with
      | nil => intro acc h; simpa using h
      | cons sub rest ih =>
        intro acc h
        simp only [foldl_cons]
        apply ih
        cases acc with
        | panic => exact absurd rfl h.1
        | err e => simp
        | ok items =>
          simp only []
          cases hcp : completePath s.pfx (subPath sub) with
          | error e => simp
          | ok full =>
            simp only []
            cases hq : cacheQuery c target full with
            | none => simpa using h.2 items rfl
            | some found =>
              refine ⟨by simp, ?_⟩
              intro items' hi kv hkv
              simp only [Outcome.ok.injEq] at hi
              subst hi
              rcases mem_append.1 hkv with h1 | h1
              · exact h.2 items rfl kv h1
              · exact cacheQuery_wire c hc target full found hq kv h1
    exact key s.subs (.ok []) ⟨by simp, by simp⟩

theorem subscribe_ok (c : CacheView F D) (hc : c.wireValid = true) (noDup : Bool) (dup : Nat → Nat)
    (req : Request) : subscribe c noDup dup req ≠ .panic := by
  cases req with
  | nilMsg => simp [subscribe]
  | unset => simp [subscribe]
  | poll => simp [subscribe]
  | subscribe so =>
    cases so with
    | none => simp [subscribe]
    | some s =>
      simp only [subscribe]
      cases hp : s.pfx with
      | none => simp
      | some pfx =>
        simp only []
        split
        · simp
        · split
          · simp
          · split
            · simp
            · have hw := walkItems_ok c hc pfx.target s
              cases hwi : walkItems c pfx.target s with
              | panic => exact absurd hwi hw.1
              | err e => simp
              | ok items =>
                have hs := sendAll_ok noDup pfx.target dup 0 items [] (hw.2 items hwi)
                simp only []
                cases hsa : sendAll noDup pfx.target dup 0 items [] with
                | panic => exact absurd hsa hs
                | err e => simp
                | ok r => simp

end subscribe

end Gnmi.RX
