import Gnmi.Lemmas.SubscribeStreamInit
/-!
# A STREAM subscriber under flow control (sequential Subscribe model)

`Lemmas/SubscribeStream.lean` follows a subscriber whose gate is never shut: between operations its
queue is empty and nothing is held (`SubInv`).  Here the gate may be shut, stepped and opened at
any point (`Sub.setGate`, `Sub.stepGate`), so between operations a subscriber may hold one frozen
response (`blocked`) and a queue of handles behind it.

* `pend s`: what the subscriber was sent, then the held response, then what the queue would be sent
  as (`toResp`, what `pump` does when it dequeues), minus what the per-response ACL check drops.
* `GInv`: the generalisation of `SubInv`: for a ghost list `g` of everything the sender *dequeued*
  (`out` and `blocked` are its ACL-filtered image), `QInv … (replay g) V s.queue` — the queue
  invariant of one cache operation, now carried across operations.
* `pump_gen_mk`/`pumpAll_gen`: the sender at any gate; `pinv_pumpAll`: it keeps the invariant
  (the ghost list grows by the dequeued prefix: `qinv_split`).
* `feed_sub_ginv`, `setGate_ginv`, `stepGate_ginv`: one operation each.
* `GInv.pend_view`: the replay of `pend s` agrees with the views on every allowed matched key and
  holds nothing else.
-/
namespace Gnmi
namespace SubGate
open Cache Gnmi.Sub Feed SubStream

/-! ## replay of plain responses; what is pending for a subscriber -/

/-- `replay` without the bookkeeping flag -/
def replayR (rs : List Resp) : PMap Noti := rs.foldl applyResp []

theorem replay_eq_replayR (out : List (Resp × Bool)) : replay out = replayR (out.map (·.1)) := by
  simp [replay, replayR, List.foldl_map]

/-- everything the subscriber was sent, the response frozen inside a gated `Send`, and the
responses the queued items produce when the sender dequeues them (`toResp`, as `pump` does; what the
per-response ACL check drops is left out, as `pump` drops it) -/
def pend (s : Subscriber) : List Resp :=
  s.out.map (·.1) ++ s.blocked.toList ++ (s.queue.map toResp).filter (fun r => !denied s.acl r)

theorem filter_map_toResp (acl : Acl) (b : Bool) : ∀ (a : List (Item × Nat)),
    ((a.map (fun x => (toResp x, b))).filter (fun x => !denied acl x.1)).map (·.1) =
      (a.map toResp).filter (fun r => !denied acl r)
  | [] => rfl
  | x :: a => by
    simp only [List.map_cons]
    by_cases hd : denied acl (toResp x) = true
    · rw [List.filter_cons_of_neg (by simp [hd]), List.filter_cons_of_neg (by simp [hd])]
      exact filter_map_toResp acl b a
    · rw [List.filter_cons_of_pos (by simpa using hd), List.filter_cons_of_pos (by simpa using hd),
        List.map_cons, filter_map_toResp acl b a]

/-! ## the queue invariant across a dequeue and across `refreshQueue` -/

/-- dequeuing a prefix: the view moves on by it -/
theorem qinv_split {cfg : Cfg} {T : String} {regs : List Path} {W0 : PMap Noti} {V : Views}
    {a b : List (Item × Nat)} (h : QInv cfg T regs W0 V (a ++ b)) : QInv cfg T regs (applyQ W0 a) V b := by
  refine ⟨((extFree_append a W0 b).1 h.ext).2, (List.pairwise_append.1 h.pw).2.1,
    fun x hx => h.items x (List.mem_append_right _ hx), ?_, ?_⟩
  · intro κ hκ
    rw [← applyQ_append] at hκ
    exact h.jv κ hκ
  · intro t k hm
    rw [← applyQ_append]
    exact h.jm t k hm

/-- every queued handle shows what the views hold for its leaf -/
def Fresh (V : Views) (Q : List (Item × Nat)) : Prop :=
  ∀ t k m d, (Item.handle t k m, d) ∈ Q → lookup (V t) k = some m

/-- `refreshQueue` against the new cache: the queue built during the operation (against the views
that applied its events) satisfies the invariant against the cache's trees -/
theorem qinv_refresh {cfg : Cfg} {T : String} {regs : List Path} {W0 : PMap Noti} {V' : Views}
    {c' : Cache.State} {Qn : List (Item × Nat)}
    (hsim : ∀ t k, Sim cfg (lookup (V' t) k) (lookup (treesOf c' t) k))
    (hkey : ∀ t k n, lookup (treesOf c' t) k = some n → respKey n = t :: k)
    (hq : QInv cfg T regs W0 V' Qn) :
    QInv cfg T regs W0 (treesOf c') (Qn.map (rf c')) ∧ Fresh (treesOf c') (Qn.map (rf c')) := by
  have hf : ∀ x ∈ Qn, HRepl x (rf c' x) := by
    intro x hx
    have hi := hq.items x hx
    obtain ⟨it, d⟩ := x
    cases it with
    | handle t k last =>
      simp only [rf]
      rw [← lookup_treesOf]
      cases hl : lookup (treesOf c' t) k with
      | none => exact Or.inl rfl
      | some m =>
        right
        refine ⟨t, k, last, m, d, d, rfl, rfl, ?_, hkey t k m hl⟩
        rw [respKey_eq, hi.1, hi.2.1]
    | detached => exact Or.inl rfl
    | note => exact Or.inl rfl
    | sync => exact Or.inl rfl
  obtain ⟨hext, hkeq⟩ := extFree_hrepl _ hf hq.ext
  have hpw := pairwise_hrepl _ hf hq.pw
  -- a refreshed handle shows the cache's leaf
  have hrf : ∀ t k m d, (Item.handle t k m, d) ∈ Qn.map (rf c') →
      lookup (treesOf c' t) k = some m ∧ ∃ last, (Item.handle t k last, d) ∈ Qn := by
    intro t k m d hmem
    obtain ⟨x, hx, hxe⟩ := List.mem_map.1 hmem
    have hi := hq.items x hx
    obtain ⟨it, dx⟩ := x
    cases it with
    | handle t' k' last =>
      have hv : (lookup (treesOf c' t') k').isSome = true := by
        rw [← sim_isSome (hsim t' k')]; exact hi.2.2.1
      simp only [rf] at hxe
      rw [← lookup_treesOf] at hxe
      cases hl : lookup (treesOf c' t') k' with
      | none => rw [hl] at hv; cases hv
      | some m' =>
        rw [hl] at hxe
        simp only [Prod.mk.injEq, Item.handle.injEq] at hxe
        obtain ⟨⟨rfl, rfl, rfl⟩, rfl⟩ := hxe
        exact ⟨hl, last, hx⟩
    | detached t' k' m' => simp [rf] at hxe
    | note e => simp [rf] at hxe
    | sync => simp [rf] at hxe
  refine ⟨⟨hext, hpw, ?_, ?_, ?_⟩, fun t k m d hmem => (hrf t k m d hmem).1⟩
  · intro y hy
    obtain ⟨x, hx, rfl⟩ := List.mem_map.1 hy
    have hi := hq.items x hx
    obtain ⟨it, d⟩ := x
    cases it with
    | handle t k last =>
      have hmem : rf c' (Item.handle t k last, d) ∈ Qn.map (rf c') := List.mem_map.2 ⟨_, hx, rfl⟩
      have hv : (lookup (treesOf c' t) k).isSome = true := by
        rw [← sim_isSome (hsim t k)]; exact hi.2.2.1
      cases hl : lookup (treesOf c' t) k with
      | none => rw [hl] at hv; cases hv
      | some m =>
        have hrfx : rf c' (Item.handle t k last, d) = (Item.handle t k m, d) := by
          simp only [rf]
          rw [← lookup_treesOf, hl]
        rw [hrfx]
        have hk := hkey t k m hl
        rw [respKey_eq] at hk
        injection hk with h1 h2
        exact ⟨h1, h2, by rw [hl]; rfl, hi.2.2.2⟩
    | detached t k m => exact hi
    | note e => exact hi
    | sync => exact hi
  · intro κ hκ
    have : (lookup (applyQ W0 Qn) κ).isSome = true := by rw [hkeq κ]; exact hκ
    obtain ⟨t, k, e, hv, hc⟩ := hq.jv κ this
    refine ⟨t, k, e, ?_, hc⟩
    rw [← sim_isSome (hsim t k)]
    exact hv
  · intro t k hm
    by_cases hh : ∃ m d, (Item.handle t k m, d) ∈ Qn
    · obtain ⟨m, d, hmem⟩ := hh
      have hi := hq.items _ hmem
      have hv : (lookup (treesOf c' t) k).isSome = true := by
        rw [← sim_isSome (hsim t k)]; exact hi.2.2.1
      cases hl : lookup (treesOf c' t) k with
      | none => rw [hl] at hv; cases hv
      | some m' =>
        have hmem' : (Item.handle t k m', d) ∈ Qn.map (rf c') := by
          refine List.mem_map.2 ⟨_, hmem, ?_⟩
          simp only [rf]
          rw [← lookup_treesOf, hl]
        rw [lookup_handle hext hpw hmem' (hkey t k m' hl)]
        exact Or.inl rfl
    · have : lookup (applyQ W0 (Qn.map (rf c'))) (t :: k) = lookup (applyQ W0 Qn) (t :: k) := by
        apply lookup_hrepl_other _ hf hq.ext
        intro x hx
        obtain ⟨it, d⟩ := x
        cases it with
        | handle t' k' m =>
          right
          refine ⟨t', k', m, rfl, ?_⟩
          intro e
          injection e with h1 h2
          subst h1 h2
          exact hh ⟨m, d, hx⟩
        | detached => exact Or.inl rfl
        | note => exact Or.inl rfl
        | sync => exact Or.inl rfl
      rw [this]
      exact sim_trans (hq.jm t k hm) (hsim t k)

/-- a queue whose handles are fresh is a fixed point of `refreshQueue` -/
theorem refreshQueue_fresh (c : Cache.State) {Q : List (Item × Nat)} (hpw : Q.Pairwise noAff)
    (hf : Fresh (treesOf c) Q) : refreshQueue c Q = Q := by
  rw [refreshQueue_eq c Q hpw]
  conv => rhs; rw [← List.map_id Q]
  apply List.map_congr_left
  intro x hx
  obtain ⟨it, d⟩ := x
  cases it with
  | handle t k m =>
    have := hf t k m d hx
    rw [lookup_treesOf] at this
    simp only [rf, this, id]
  | detached => rfl
  | note => rfl
  | sync => rfl

/-! ## the sender at any gate -/

/-- with nothing held, the sender dequeues a prefix `a` of the queue: the whole queue if flow
control is open; up to and including the first response the ACL lets through if it is shut — that
response is then frozen in `blocked` (or the RPC ends at a whole-target delete) -/
theorem pump_gen_mk : ∀ (q : List (Item × Nat)) (fuel : Nat) (id : String) (req : Req) (acl : Acl)
    (regs : List Path) (status : Option Code) (gs gsd : Bool) (out : List (Resp × Bool)),
    fuel ≥ q.length + 1 →
    (pump fuel (Subscriber.mk id req acl regs true status gs gsd none q false out)).alive = false ∨
    ∃ (a b : List (Item × Nat)) (bl : Option Resp) (out' : List (Resp × Bool)), q = a ++ b ∧
      pump fuel (Subscriber.mk id req acl regs true status gs gsd none q false out) =
        Subscriber.mk id req acl regs true status gs gsd bl b false out' ∧
      out'.map (·.1) ++ bl.toList = out.map (·.1) ++ (a.map toResp).filter (fun r => !denied acl r) ∧
      (gs = false → b = [] ∧ bl = none) ∧ (bl = none → b = [])
  | [], fuel + 1, id, req, acl, regs, status, gs, gsd, out, _ => by
    right
    refine ⟨[], [], none, out, rfl, by simp [pump], by simp, fun _ => ⟨rfl, rfl⟩, fun _ => rfl⟩
  | x :: rest, fuel + 1, id, req, acl, regs, status, gs, gsd, out, hf => by
    by_cases hdx : denied acl (toResp x) = true
    · have ih := pump_gen_mk rest fuel id req acl regs status gs gsd out (by simp at hf ⊢; omega)
      have hstep : pump (fuel + 1) (Subscriber.mk id req acl regs true status gs gsd none (x :: rest) false out) =
          pump fuel (Subscriber.mk id req acl regs true status gs gsd none rest false out) := by
        simp [pump, hdx]
      rw [hstep]
      rcases ih with ih | ⟨a, b, bl, out', hq, hp, ho, h1, h2⟩
      · left; exact ih
      · right
        refine ⟨x :: a, b, bl, out', by rw [hq]; rfl, hp, ?_, h1, h2⟩
        rw [ho, List.map_cons, List.filter_cons_of_neg (by simp [hdx])]
    · have hdx' : denied acl (toResp x) = false := by simpa using hdx
      cases gs with
      | true =>
        right
        refine ⟨[x], rest, some (toResp x), out, rfl, by simp [pump, hdx'], ?_, fun h => (by cases h),
          fun h => (by cases h)⟩
        simp [hdx']
      | false =>
        by_cases htd : (isTargetDelete (toResp x) && req.target != "*") = true
        · left
          simp [pump, hdx', htd]
        · have ih := pump_gen_mk rest fuel id req acl regs status false gsd (out ++ [(toResp x, gsd)])
            (by simp at hf ⊢; omega)
          have hstep : pump (fuel + 1) (Subscriber.mk id req acl regs true status false gsd none (x :: rest) false out) =
              pump fuel (Subscriber.mk id req acl regs true status false gsd none rest false (out ++ [(toResp x, gsd)])) := by
            simp [pump, hdx', htd]
          rw [hstep]
          rcases ih with ih | ⟨a, b, bl, out', hq, hp, ho, h1, h2⟩
          · left; exact ih
          · right
            refine ⟨x :: a, b, bl, out', by rw [hq]; rfl, hp, ?_, h1, h2⟩
            rw [ho, List.map_cons, List.filter_cons_of_pos (by simp [hdx'])]
            simp
  | [], 0, _, _, _, _, _, _, _, _, hf => by simp at hf
  | _ :: _, 0, _, _, _, _, _, _, _, _, hf => by simp at hf

theorem pumpAll_gen (s : Subscriber) (ha : s.alive = true) (hb : s.blocked = none) (hc : s.closed = false) :
    (pumpAll s).alive = false ∨
    ∃ (a b : List (Item × Nat)) (bl : Option Resp) (out' : List (Resp × Bool)), s.queue = a ++ b ∧
      pumpAll s = { s with queue := b, blocked := bl, out := out' } ∧
      out'.map (·.1) ++ bl.toList = s.out.map (·.1) ++ (a.map toResp).filter (fun r => !denied s.acl r) ∧
      (s.gateShut = false → b = [] ∧ bl = none) ∧ (bl = none → b = []) := by
  obtain ⟨id, req, acl, regs, alive, status, gateShut, gsd, blocked, queue, closed, out⟩ := s
  simp only at ha hb hc
  subst ha hb hc
  exact pump_gen_mk queue _ id req acl regs status gateShut gsd out (by simp)

/-- a sender inside a gated `Send` does nothing -/
theorem pumpAll_blocked (s : Subscriber) (h : s.blocked.isSome = true) : pumpAll s = s := by
  unfold pumpAll pump
  simp [h]

/-! ## the invariant of a live STREAM subscriber between operations, at any gate -/

/-- what the sender starts from (`blocked` arbitrary): `g` is everything the sender dequeued so
far — sent, frozen in `blocked`, or dropped by the per-response ACL check -/
structure PInv (cfg : Cfg) (V : Views) (s : Subscriber) : Prop where
  closed : s.closed = false
  regs : RegsOK s.req.target s.regs
  status : s.status = none
  regsEq : s.regs = regQueries s.req
  /-- a response is only held while flow control is shut -/
  held : s.blocked.isSome = true → s.gateShut = true
  fresh : Fresh V s.queue
  ghost : ∃ g : List (Resp × Bool),
    (g.filter (fun x => !denied s.acl x.1)).map (·.1) = s.out.map (·.1) ++ s.blocked.toList ∧
    (∀ x ∈ g, respNoStar x.1) ∧ ExtFreeR [] g ∧ Resp.sync ∈ g.map (·.1) ∧
    QInv cfg s.req.target s.regs (replay g) V s.queue

/-- between operations: with flow control open everything was sent; with nothing held nothing is
queued (the sender only stops inside a gated `Send`) -/
structure GInv (cfg : Cfg) (V : Views) (s : Subscriber) : Prop extends PInv cfg V s where
  drained : s.gateShut = false → s.queue = [] ∧ s.blocked = none
  idle : s.blocked = none → s.queue = []

theorem itemOK_noStar {T : String} {V : Views} (hV : VOK V) {x : Item × Nat} (h : itemOK T V x.1) :
    respNoStar (toResp x) := by
  obtain ⟨it, d⟩ := x
  cases it with
  | handle t k n =>
    show n.target ≠ glob
    rw [h.1]; exact ne_glob_of_isSome hV h.2.2.1
  | detached t k n =>
    show n.target ≠ glob
    rw [h.1]; exact h.2.2
  | note e =>
    obtain ⟨t, o, p, ts, rfl, _, ht⟩ := h
    exact ht
  | sync => exact h.elim

/-- the sender runs until it blocks: the invariant is kept (if the RPC does not end) -/
theorem pinv_pumpAll {cfg : Cfg} {V : Views} {s : Subscriber} (hV : VOK V) (inv : PInv cfg V s)
    (ha : s.alive = true) (ha' : (pumpAll s).alive = true) : GInv cfg V (pumpAll s) := by
  cases hb : s.blocked with
  | some r =>
    have hbs : s.blocked.isSome = true := by rw [hb]; rfl
    rw [pumpAll_blocked s hbs]
    refine ⟨inv, ?_, ?_⟩
    · intro hg
      rw [inv.held hbs] at hg
      cases hg
    · intro hn
      rw [hn] at hb
      cases hb
  | none =>
    rcases pumpAll_gen s ha hb inv.closed with hd | ⟨a, b, bl, out', hq, hres, hout, hopen, hidle⟩
    · rw [hd] at ha'
      cases ha'
    · rw [hres]
      obtain ⟨g, hgout, hgns, hgext, hgsync, hgq⟩ := inv.ghost
      rw [hq] at hgq
      rw [hb] at hgout
      have hfr := inv.fresh
      rw [hq] at hfr
      refine ⟨⟨inv.closed, inv.regs, inv.status, inv.regsEq, ?_, ?_,
        ⟨g ++ a.map (fun x => (toResp x, true)), ?_, ?_, ?_, ?_, ?_⟩⟩, hopen, hidle⟩
      · intro hbl
        show s.gateShut = true
        cases hgs : s.gateShut with
        | true => rfl
        | false =>
          have h2 : bl = none := (hopen hgs).2
          rw [h2] at hbl
          cases hbl
      · intro t k m d hmem
        exact hfr t k m d (List.mem_append_right _ hmem)
      · show ((g ++ a.map (fun x => (toResp x, true))).filter (fun x => !denied s.acl x.1)).map (·.1) =
          out'.map (·.1) ++ bl.toList
        rw [List.filter_append, List.map_append, hgout, filter_map_toResp, hout]
        simp
      · intro x hx
        rcases List.mem_append.1 hx with hx | hx
        · exact hgns x hx
        · obtain ⟨y, hy, rfl⟩ := List.mem_map.1 hx
          exact itemOK_noStar hV (hgq.items y (List.mem_append_left _ hy))
      · exact (extFreeR_append g [] _).2 ⟨hgext, (extFreeR_map _ _ _).2 ((extFree_append a _ b).1 hgq.ext).1⟩
      · rw [List.map_append]
        exact List.mem_append_left _ hgsync
      · show QInv cfg s.req.target s.regs (replay (g ++ a.map (fun x => (toResp x, true)))) V b
        rw [replay_append]
        exact qinv_split hgq

/-- `SubInv` (gate never shut) is the special case -/
theorem ginv_of_subInv {cfg : Cfg} {V : Views} {s : Subscriber} (inv : SubInv cfg V s) : GInv cfg V s := by
  obtain ⟨g, hgout, hgns, hgext, hgsync, hgq⟩ := inv.ghost
  refine ⟨⟨inv.closed, inv.regs, inv.status, inv.regsEq, ?_, ?_, ⟨g, ?_, hgns, hgext, hgsync, ?_⟩⟩,
    fun _ => ⟨inv.queue, inv.blocked⟩, fun _ => inv.queue⟩
  · intro h
    rw [inv.blocked] at h
    cases h
  · rw [inv.queue]
    intro t k m d h
    cases h
  · rw [inv.blocked, ← hgout]
    simp
  · rw [inv.queue]
    exact hgq

/-- with flow control open `GInv` is `SubInv` -/
theorem subInv_of_ginv {cfg : Cfg} {V : Views} {s : Subscriber} (inv : GInv cfg V s) (hg : s.gateShut = false) :
    s.queue = [] ∧ s.blocked = none := inv.drained hg

/-! ## what the invariant says about `pend` -/

theorem PInv.pend_view {cfg : Cfg} {V : Views} {s : Subscriber} (hV : VOK V) (inv : PInv cfg V s) :
    (∀ t k, s.acl.check t = true → s.regs.any (fun q => qmatches q (t :: k)) = true →
      Sim cfg (lookup (replayR (pend s)) (t :: k)) (lookup (V t) k)) ∧
    (∀ κ, (lookup (replayR (pend s)) κ).isSome = true →
      ∃ t k, κ = t :: k ∧ (lookup (V t) k).isSome = true) := by
  obtain ⟨g, hgout, hgns, _, _, hgq⟩ := inv.ghost
  -- everything dequeued so far, then everything still queued
  have hG : ∃ G : List (Resp × Bool), (G.filter (fun x => !denied s.acl x.1)).map (·.1) = pend s ∧
      (∀ x ∈ G, respNoStar x.1) ∧ replay G = applyQ (replay g) s.queue := by
    refine ⟨g ++ s.queue.map (fun x => (toResp x, true)), ?_, ?_, replay_append _ _ _⟩
    · rw [List.filter_append, List.map_append, hgout, filter_map_toResp]
      rfl
    · intro x hx
      rcases List.mem_append.1 hx with hx | hx
      · exact hgns x hx
      · obtain ⟨y, hy, rfl⟩ := List.mem_map.1 hx
        exact itemOK_noStar hV (hgq.items y hy)
  obtain ⟨G, hGp, hGns, hGr⟩ := hG
  have hrp : replayR (pend s) = replay (G.filter (fun x => !denied s.acl x.1)) := by
    rw [replay_eq_replayR, hGp]
  have hsame : ∀ t k, s.acl.check t = true →
      lookup (applyQ (replay g) s.queue) (t :: k) = lookup (replayR (pend s)) (t :: k) := by
    intro t k ht
    rw [hrp, ← hGr]
    apply lookup_replay_filter
    intro x hx hpx
    exact denied_not_touch k (by simpa using hpx) (hGns x hx) ht
  constructor
  · intro t k ht hm
    rw [← hsame t k ht]
    exact hgq.jm t k hm
  · intro κ hκ
    rw [hrp] at hκ
    rcases replay_keys _ [] κ hκ with h0 | ⟨x, hx, n, d, hr, hk⟩
    · simp [lookup] at h0
    · have hnd := (List.mem_filter.1 hx).2
      rw [hr] at hnd
      have hchk : s.acl.check n.target = true := by simpa [denied, respTarget] using hnd
      rw [respKey_eq] at hk
      subst hk
      rw [← hrp, ← hsame _ _ hchk] at hκ
      obtain ⟨t, k, e, hv, _⟩ := hgq.jv _ hκ
      exact ⟨t, k, e, hv⟩

/-! ## one cache operation -/

theorem feed_sub_ginv {cfg : Cfg} {V : Views} {c' : Cache.State} {evs : List Event} {s : Subscriber}
    (hV : VOK V) (hV2 : VOK (treesOf c')) (hg : GoodTr V evs)
    (hsim : ∀ t k, Sim cfg (lookup (applySs V evs t) k) (lookup (treesOf c' t) k))
    (hkey : ∀ t k n, lookup (treesOf c' t) k = some n → respKey n = t :: k)
    (hs : Live s → GInv cfg V s) (hl' : Live (feedSub c' evs s)) :
    GInv cfg (treesOf c') (feedSub c' evs s) := by
  have halive : s.alive = true := by
    cases ha : s.alive with
    | true => rfl
    | false =>
      have := hl'.1
      rw [feedSub_dead c' evs s ha] at this
      cases this
  have hL : Live s := by
    have h1 := hl'.2.1
    have h2 := hl'.2.2
    rw [feedSub_req] at h1 h2
    exact ⟨halive, h1, h2⟩
  have inv := hs hL
  obtain ⟨g, hgout, hgns, hgext, hgsync, hgq⟩ := inv.ghost
  obtain ⟨hq, _⟩ := qfold_inv (cfg := cfg) (W0 := replay g) inv.regs evs V s.queue hV hg hgq
  generalize hQn : evs.foldl (qstep s.regs) s.queue = Qn at hq
  have hfeed : feedSub c' evs s = pumpAll { s with queue := Qn.map (rf c') } := by
    unfold feedSub
    simp only
    rw [enqueue_fold evs s halive inv.closed]
    simp only
    rw [hQn, refreshQueue_eq c' Qn hq.pw]
  obtain ⟨hq', hfr⟩ := qinv_refresh hsim hkey hq
  have pinv : PInv cfg (treesOf c') { s with queue := Qn.map (rf c') } :=
    ⟨inv.closed, inv.regs, inv.status, inv.regsEq, inv.held, hfr, ⟨g, hgout, hgns, hgext, hgsync, hq'⟩⟩
  rw [hfeed]
  apply pinv_pumpAll hV2 pinv halive
  rw [← hfeed]
  exact hl'.1

/-! ## flow-control operations -/

/-- `Sub.setGate` on one subscriber -/
def gateF (shut : Bool) (s : Subscriber) : Subscriber :=
  if shut then { s with gateShut := true, gatedSinceDrain := true }
  else
    let s := { s with gateShut := false }
    let s := match s.blocked with
      | some r =>
        let s := { s with blocked := none, out := s.out ++ [(r, s.gatedSinceDrain)] }
        if isTargetDelete r && s.req.target != "*" then { s with alive := false, status := some .ok } else s
      | none => s
    pumpAll s

theorem setGate_eq (st : Sub.State) (id : String) (shut : Bool) :
    setGate st id shut = updateSub st id (gateF shut) := rfl

/-- `Sub.stepGate` on one subscriber -/
def stepF (s : Subscriber) : Subscriber :=
  if s.gateShut then
    match s.blocked with
    | some r =>
      let s := { s with blocked := none, out := s.out ++ [(r, s.gatedSinceDrain)] }
      if isTargetDelete r && s.req.target != "*" then { s with alive := false, status := some .ok }
      else pumpAll s
    | none => s
  else s

theorem stepGate_eq (st : Sub.State) (id : String) : stepGate st id = updateSub st id stepF := rfl

theorem pumpAll_dead (s : Subscriber) (h : s.alive = false) : pumpAll s = s := pump_dead _ s h

theorem gateF_req (shut : Bool) (s : Subscriber) : (gateF shut s).req = s.req := by
  obtain ⟨id, req, acl, regs, alive, status, gateShut, gsd, blocked, queue, closed, out⟩ := s
  cases shut with
  | true => rfl
  | false =>
    cases blocked with
    | none => simp only [gateF, Bool.false_eq_true, if_false, pumpAll_req]
    | some r =>
      simp only [gateF, Bool.false_eq_true, if_false, pumpAll_req]
      split <;> rfl

theorem gateF_dead (shut : Bool) (s : Subscriber) (h : s.alive = false) : (gateF shut s).alive = false := by
  obtain ⟨id, req, acl, regs, alive, status, gateShut, gsd, blocked, queue, closed, out⟩ := s
  simp only at h
  subst h
  cases shut with
  | true => rfl
  | false =>
    cases blocked with
    | none =>
      simp only [gateF, Bool.false_eq_true, if_false]
      rw [pumpAll_dead _ rfl]
    | some r =>
      simp only [gateF, Bool.false_eq_true, if_false]
      split
      · rw [pumpAll_dead _ rfl]
      · rw [pumpAll_dead _ rfl]

theorem stepF_req (s : Subscriber) : (stepF s).req = s.req := by
  obtain ⟨id, req, acl, regs, alive, status, gateShut, gsd, blocked, queue, closed, out⟩ := s
  cases gateShut with
  | false => rfl
  | true =>
    cases blocked with
    | none => rfl
    | some r =>
      simp only [stepF, if_true]
      split
      · rfl
      · rw [pumpAll_req]

theorem stepF_dead (s : Subscriber) (h : s.alive = false) : (stepF s).alive = false := by
  obtain ⟨id, req, acl, regs, alive, status, gateShut, gsd, blocked, queue, closed, out⟩ := s
  simp only at h
  subst h
  cases gateShut with
  | false => rfl
  | true =>
    cases blocked with
    | none => rfl
    | some r =>
      simp only [stepF, if_true]
      split
      · rfl
      · rw [pumpAll_dead _ rfl]

/-- the held response goes out: the ghost list already holds it -/
theorem pinv_release {cfg : Cfg} {V : Views} {s : Subscriber} {r : Resp} (gs : Bool) (inv : PInv cfg V s)
    (hb : s.blocked = some r) :
    PInv cfg V { s with gateShut := gs, blocked := none, out := s.out ++ [(r, s.gatedSinceDrain)] } := by
  obtain ⟨g, hgout, hgns, hgext, hgsync, hgq⟩ := inv.ghost
  refine ⟨inv.closed, inv.regs, inv.status, inv.regsEq, fun h => (by cases h), inv.fresh,
    ⟨g, ?_, hgns, hgext, hgsync, hgq⟩⟩
  show (g.filter (fun x => !denied s.acl x.1)).map (·.1) =
    (s.out ++ [(r, s.gatedSinceDrain)]).map (·.1) ++ (none : Option Resp).toList
  rw [hgout, hb]
  simp

theorem setGate_sub_ginv {cfg : Cfg} {V : Views} (hV : VOK V) (shut : Bool) {s : Subscriber}
    (hs : Live s → GInv cfg V s) (hl' : Live (gateF shut s)) : GInv cfg V (gateF shut s) := by
  have halive : s.alive = true := by
    cases ha : s.alive with
    | true => rfl
    | false =>
      have := hl'.1
      rw [gateF_dead shut s ha] at this
      cases this
  have hL : Live s := by
    have h1 := hl'.2.1
    have h2 := hl'.2.2
    rw [gateF_req] at h1 h2
    exact ⟨halive, h1, h2⟩
  have inv := hs hL
  cases shut with
  | true =>
    obtain ⟨g, hgout, hgns, hgext, hgsync, hgq⟩ := inv.ghost
    exact ⟨⟨inv.closed, inv.regs, inv.status, inv.regsEq, fun _ => rfl, inv.fresh,
      ⟨g, hgout, hgns, hgext, hgsync, hgq⟩⟩, fun h => (by cases h), inv.idle⟩
  | false =>
    cases hb : s.blocked with
    | none =>
      have hform : gateF false s = pumpAll { s with gateShut := false } := by
        obtain ⟨id, req, acl, regs, alive, status, gateShut, gsd, blocked, queue, closed, out⟩ := s
        simp only at hb
        subst hb
        simp only [gateF, Bool.false_eq_true, if_false]
      obtain ⟨g, hgout, hgns, hgext, hgsync, hgq⟩ := inv.ghost
      have pinv : PInv cfg V { s with gateShut := false } :=
        ⟨inv.closed, inv.regs, inv.status, inv.regsEq,
          fun h => (by have h' : s.blocked.isSome = true := h; rw [hb] at h'; cases h'), inv.fresh,
          ⟨g, hgout, hgns, hgext, hgsync, hgq⟩⟩
      rw [hform]
      apply pinv_pumpAll hV pinv halive
      rw [← hform]
      exact hl'.1
    | some r =>
      by_cases htd : (isTargetDelete r && s.req.target != "*") = true
      · exfalso
        have : (gateF false s).alive = false := by
          obtain ⟨id, req, acl, regs, alive, status, gateShut, gsd, blocked, queue, closed, out⟩ := s
          simp only at hb htd
          subst hb
          simp only [gateF, Bool.false_eq_true, if_false, htd, if_true]
          rw [pumpAll_dead _ rfl]
        rw [hl'.1] at this
        cases this
      · have hform : gateF false s =
            pumpAll { s with gateShut := false, blocked := none, out := s.out ++ [(r, s.gatedSinceDrain)] } := by
          obtain ⟨id, req, acl, regs, alive, status, gateShut, gsd, blocked, queue, closed, out⟩ := s
          simp only at hb htd
          subst hb
          simp only [gateF, Bool.false_eq_true, if_false, htd]
        rw [hform]
        apply pinv_pumpAll hV (pinv_release false inv.toPInv hb) halive
        rw [← hform]
        exact hl'.1

theorem stepGate_sub_ginv {cfg : Cfg} {V : Views} (hV : VOK V) {s : Subscriber}
    (hs : Live s → GInv cfg V s) (hl' : Live (stepF s)) : GInv cfg V (stepF s) := by
  have halive : s.alive = true := by
    cases ha : s.alive with
    | true => rfl
    | false =>
      have := hl'.1
      rw [stepF_dead s ha] at this
      cases this
  have hL : Live s := by
    have h1 := hl'.2.1
    have h2 := hl'.2.2
    rw [stepF_req] at h1 h2
    exact ⟨halive, h1, h2⟩
  have inv := hs hL
  cases hgs : s.gateShut with
  | false =>
    have : stepF s = s := by unfold stepF; simp [hgs]
    rw [this]; exact inv
  | true =>
    cases hb : s.blocked with
    | none =>
      have : stepF s = s := by unfold stepF; simp [hgs, hb]
      rw [this]; exact inv
    | some r =>
      by_cases htd : (isTargetDelete r && s.req.target != "*") = true
      · exfalso
        have : (stepF s).alive = false := by
          obtain ⟨id, req, acl, regs, alive, status, gateShut, gsd, blocked, queue, closed, out⟩ := s
          simp only at hb htd hgs
          subst hb hgs
          simp only [stepF, if_true, htd]
        rw [hl'.1] at this
        cases this
      · have hform : stepF s =
            pumpAll { s with gateShut := true, blocked := none, out := s.out ++ [(r, s.gatedSinceDrain)] } := by
          obtain ⟨id, req, acl, regs, alive, status, gateShut, gsd, blocked, queue, closed, out⟩ := s
          simp only at hb htd hgs
          subst hb hgs
          simp only [stepF, if_true, htd]
          rfl
        rw [hform]
        apply pinv_pumpAll hV (pinv_release true inv.toPInv hb) halive
        rw [← hform]
        exact hl'.1

end SubGate
end Gnmi
