import Gnmi.Lemmas.Cache
/-!
Lemmas about the metadata refresh, `Reset`, and the multi-target cache state.
-/
namespace Gnmi
namespace Cache

/-! ### metadata refresh (`generateMetaUpdates`) -/

theorem Effect.lc_meta {cfg : Cfg} {t : Target} {n : Noti} {u : Upd} {key : Path}
    {r : Res × Target × Option Noti}
    (he : Effect cfg t n u key r) (hm : isMetaKey key = true) (hp : r.1 ≠ .panic) : LcSame t r.2.1 := by
  cases he with
  | rejected _ _ _ _ _ _ h4 => exact h4
  | replaced _ _ _ _ _ _ _ _ h4 => exact h4
  | suppressed _ _ _ _ _ _ _ _ _ _ h4 => exact h4
  | added t' _ _ _ _ _ m1 m2 m3 => exact ⟨by simpa [hm] using m1, by simpa [hm] using m2, m3⟩
  | panicOld => exact absurd rfl hp

/-- what one step of the metadata refresh keeps -/
structure MetaStep (a b : Int) (t r : Target) : Prop where
  inv : TInvD a b r
  name : r.name = t.name
  lcs : LcSame t r
  grow : Grow t r
  latest : r.latest = t.latest

theorem MetaStep.refl {a b : Int} {t : Target} (hi : TInvD a b t) : MetaStep a b t t :=
  ⟨hi, rfl, LcSame.refl _, Grow.refl _, rfl⟩

theorem MetaStep.trans {a b : Int} {x y z : Target} (h1 : MetaStep a b x y) (h2 : MetaStep a b y z) :
    MetaStep a b x z :=
  ⟨h2.inv, h2.name.trans h1.name, h1.lcs.trans h2.lcs, h1.grow.trans h2.grow, h2.latest.trans h1.latest⟩

theorem genMetaOne_ok {a b : Int} (cfg : Cfg) (enc : String → String) (now : Int) (emit : Bool)
    (acc : Target × List Event) (name : String) (v : Scalar) (isCur : Val → Bool)
    (hi : TInvD a b acc.1) (hn : acc.1.name ≠ "") :
    MetaStep a b acc.1 (genMetaOne cfg enc now emit acc name v isCur).1 := by
  unfold genMetaOne
  split
  · exact MetaStep.refl hi
  · split
    · exact MetaStep.refl hi
    · simp only
      have hu : (metaNoti enc acc.1.name name v now).upd =
          [{ origin := "", path := [metaRoot, name], val := .scalar v,
             raw := rawMetaUpdate name (rawScalar enc v) enc }] := rfl
      have he := gnmiUpdate1_effect cfg now acc.1 (metaNoti enc acc.1.name name v now) _ [] hu hn
      have hk : updKey (metaNoti enc acc.1.name name v now)
          { origin := "", path := [metaRoot, name], val := .scalar v,
            raw := rawMetaUpdate name (rawScalar enc v) enc } = [metaRoot, name] := by
        simp [updKey, joinKey, metaNoti]
      rw [hk] at he
      obtain ⟨c1, c2, c3, c4, c5⟩ := he.consequences hi (by rw [hu]; simp)
      have c6 := he.lc_meta (by simp [isMetaKey]) c1
      have res : MetaStep a b acc.1
          (Target.gnmiUpdate1 cfg now acc.1 (metaNoti enc acc.1.name name v now)).2.1 :=
        ⟨c2, c5, c6, c3, c4⟩
      split <;> exact res

theorem genServerName_ok {a b : Int} (cfg : Cfg) (enc : String → String) (now : Int) (emit : Bool)
    (acc : Target × List Event) (hi : TInvD a b acc.1) (hn : acc.1.name ≠ "") :
    MetaStep a b acc.1 (genServerName cfg enc now emit acc).1 := by
  unfold genServerName
  split
  · exact genMetaOne_ok cfg enc now emit acc _ _ _ hi hn
  · exact MetaStep.refl hi

theorem foldl_metaStep {a b : Int} {α : Type} (f : Target × List Event → α → Target × List Event)
    (hf : ∀ acc x, TInvD a b acc.1 → acc.1.name ≠ "" → MetaStep a b acc.1 (f acc x).1) :
    ∀ (l : List α) (acc : Target × List Event), TInvD a b acc.1 → acc.1.name ≠ "" →
      MetaStep a b acc.1 (l.foldl f acc).1
  | [], acc, hi, _ => MetaStep.refl hi
  | x :: l, acc, hi, hn => by
    have h1 := hf acc x hi hn
    have h2 := foldl_metaStep f hf l (f acc x) h1.inv (by rw [h1.name]; exact hn)
    exact h1.trans h2

theorem generateMetaUpdates_ok {a b : Int} (cfg : Cfg) (enc : String → String) (now : Int) (emit : Bool)
    (t : Target) (hi : TInvD a b t) (hn : t.name ≠ "") :
    MetaStep a b t (t.generateMetaUpdates cfg enc now emit).1 := by
  unfold Target.generateMetaUpdates
  have s1 := foldl_metaStep (a := a) (b := b) (fun acc name =>
      match acc.1.md.getBool name with
      | some v => genMetaOne cfg enc now emit acc name (.bool v)
          (fun sv => match sv with | .scalar (.bool b) => b == v | _ => false)
      | none => acc)
    (by intro acc x hi hn; split
        · exact genMetaOne_ok cfg enc now emit acc x _ _ hi hn
        · exact MetaStep.refl hi) boolNames (t, []) hi hn
  have s2 := foldl_metaStep (a := a) (b := b) (fun acc name =>
      match acc.1.md.getInt name with
      | some v => genMetaOne cfg enc now emit acc name (.int v)
          (fun sv => match sv with | .scalar (.int i) => i == v | _ => false)
      | none => acc)
    (by intro acc x hi hn; split
        · exact genMetaOne_ok cfg enc now emit acc x _ _ hi hn
        · exact MetaStep.refl hi) intNames _ s1.inv (by rw [s1.name]; exact hn)
  have s3 := foldl_metaStep (a := a) (b := b) (fun acc name =>
      match acc.1.md.getStr name with
      | some v => genMetaOne cfg enc now emit acc name (.str v)
          (fun sv => match sv with | .scalar (.str s) => s == v | _ => false)
      | none => acc)
    (by intro acc x hi hn; split
        · exact genMetaOne_ok cfg enc now emit acc x _ _ hi hn
        · exact MetaStep.refl hi) strNames _ s2.inv (by rw [s2.name, s1.name]; exact hn)
  have s4 := genServerName_ok (a := a) (b := b) cfg enc now emit _ s3.inv
    (by rw [s3.name, s2.name, s1.name]; exact hn)
  exact ((s1.trans s2).trans s3).trans s4

theorem updateMeta_ok {a b : Int} (cfg : Cfg) (enc : String → String) (now : Int) (emit : Bool)
    (t : Target) (hi : TInvD a b t) (hn : t.name ≠ "") :
    MetaStep a b t (t.updateMeta cfg enc now emit).1 := by
  unfold Target.updateMeta
  have h0 : MetaStep a b t { t with md := { t.md with latest := match t.latest with
      | some x => x
      | none => zeroUnixNano } } :=
    ⟨hi.with_md _ ⟨rfl, rfl, rfl⟩, rfl, ⟨rfl, rfl, rfl⟩, Grow.refl _, rfl⟩
  exact h0.trans (generateMetaUpdates_ok cfg enc now emit _ h0.inv hn)

/-! ### `Reset` -/

/-- deleting the top-level subtrees `roots` one after the other -/
def dropRoots (name : String) (now : Int) (roots : List String) (acc : Target × List Event) :
    Target × List Event :=
  roots.foldl (fun acc root =>
    ({ acc.1 with tree := (PMap.delete (fun _ => true) acc.1.tree [root]).1 },
     acc.2 ++ [Event.del acc.1.name root [glob] now])) acc

theorem reset_eq (cfg : Cfg) (enc : String → String) (now : Int) (t : Target) :
    t.reset cfg enc now =
      (let r := Target.updateMeta cfg enc now true { t with latest := none, md := Meta.clear }
       dropRoots t.name now ((rootChildren r.1.tree).filter (· != metaRoot)) r) := rfl

theorem qmatches_root (root : String) (rest : Path) : qmatches [root] (root :: rest) = true := by
  simp [qmatches]

theorem dropRoots_spec (name : String) (now : Int) : ∀ (roots : List String) (acc : Target × List Event),
    (dropRoots name now roots acc).1.md = acc.1.md ∧ (dropRoots name now roots acc).1.name = acc.1.name ∧
    (dropRoots name now roots acc).1.latest = acc.1.latest ∧
    (∀ kv, kv ∈ (dropRoots name now roots acc).1.tree ↔
      kv ∈ acc.1.tree ∧ ∀ root ∈ roots, qmatches [root] kv.1 = false)
  | [], acc => by simp [dropRoots]
  | root :: roots, acc => by
    have ih := dropRoots_spec name now roots
      ({ acc.1 with tree := (PMap.delete (fun _ => true) acc.1.tree [root]).1 },
       acc.2 ++ [Event.del acc.1.name root [glob] now])
    simp only [dropRoots, List.foldl_cons] at ih ⊢
    obtain ⟨h1, h2, h3, h4⟩ := ih
    refine ⟨h1, h2, h3, ?_⟩
    intro kv
    rw [h4 kv]
    simp only [PMap.delete, List.mem_filter, Bool.and_true, Bool.not_eq_eq_eq_not, Bool.not_true,
      List.mem_cons, forall_eq_or_imp]
    constructor
    · rintro ⟨⟨a, b⟩, c⟩; exact ⟨a, b, c⟩
    · rintro ⟨a, b, c⟩; exact ⟨⟨a, b⟩, c⟩

theorem mem_rootChildren {m : PMap Noti} {kv : Path × Noti} {h : String} {rest : Path}
    (hm : kv ∈ m) (hk : kv.1 = h :: rest) : h ∈ rootChildren m := by
  unfold rootChildren
  rw [List.mem_eraseDups]
  exact List.mem_filterMap.2 ⟨kv, hm, by simp [hk]⟩

/-- **After `Reset`**: only metadata leaves remain, the leaf counters are zero and truthful. -/
theorem reset_ok (cfg : Cfg) (enc : String → String) (now : Int) (t : Target) (hi : TInv t) (hn : t.name ≠ "") :
    let r := t.reset cfg enc now
    TInv r.1 ∧ r.1.name = t.name ∧ r.1.latest = none ∧
    (∀ kv ∈ r.1.tree, isMetaKey kv.1 = true) ∧
    r.1.md.leaves = 0 ∧ r.1.md.added = 0 ∧ r.1.md.deleted = 0 := by
  intro r
  have hr : r = t.reset cfg enc now := rfl
  rw [reset_eq] at hr
  simp only at hr
  -- the cleared target: counters zero, tree still there
  have h0 : TInvD (0 - (nm t.tree : Nat)) 0 { t with latest := none, md := Meta.clear } :=
    ⟨hi.unique, hi.hasUpd, hi.nonEmpty, by simp [Meta.clear], by simp [Meta.clear]⟩
  have hm := updateMeta_ok cfg enc now true { t with latest := none, md := Meta.clear } h0 hn
  generalize Target.updateMeta cfg enc now true { t with latest := none, md := Meta.clear } = u at hr hm
  obtain ⟨d1, d2, d3, d4⟩ := dropRoots_spec t.name now ((rootChildren u.1.tree).filter (· != metaRoot)) u
  rw [← hr] at d1 d2 d3 d4
  have hmeta : ∀ kv ∈ r.1.tree, isMetaKey kv.1 = true := by
    intro kv hkv
    obtain ⟨hin, hno⟩ := (d4 kv).1 hkv
    match hk : kv.1 with
    | [] => exact absurd hk (hm.inv.nonEmpty kv hin)
    | h :: rest =>
      by_cases hh : h = metaRoot
      · simp [isMetaKey, hh]
      · exfalso
        have hroot : h ∈ (rootChildren u.1.tree).filter (· != metaRoot) :=
          List.mem_filter.2 ⟨mem_rootChildren hin hk, by simpa using hh⟩
        have := hno h hroot
        rw [hk, qmatches_root] at this
        cases this
  have hnm : nm r.1.tree = 0 := by
    unfold nm
    rw [List.length_eq_zero_iff, List.filter_eq_nil_iff]
    intro kv hkv
    simp [hmeta kv hkv]
  have hl : r.1.md.leaves = 0 := by rw [d1, hm.lcs.1]; rfl
  have ha : r.1.md.added = 0 := by rw [d1, hm.lcs.2.1]; rfl
  have hd : r.1.md.deleted = 0 := by rw [d1, hm.lcs.2.2]; rfl
  refine ⟨⟨?_, ?_, ?_, ?_, ?_⟩, d2.trans hm.name, d3.trans hm.latest, hmeta, hl, ha, hd⟩
  · -- unique keys: a sublist of a list with unique keys
    have hsub : ∀ (roots : List String) (acc : Target × List Event),
        ((dropRoots t.name now roots acc).1.tree).Sublist acc.1.tree := by
      intro roots
      induction roots with
      | nil => intro acc; exact List.Sublist.refl _
      | cons root roots ih =>
        intro acc
        simp only [dropRoots, List.foldl_cons] at ih ⊢
        exact (ih _).trans List.filter_sublist
    have := hsub ((rootChildren u.1.tree).filter (· != metaRoot)) u
    rw [← hr] at this
    exact (this.map _).nodup hm.inv.unique
  · intro kv hkv; exact hm.inv.hasUpd kv ((d4 kv).1 hkv).1
  · intro kv hkv; exact hm.inv.nonEmpty kv ((d4 kv).1 hkv).1
  · rw [hl, hnm]; rfl
  · rw [hl, ha, hd]; rfl

/-! ### the multi-target state -/

theorem find_map_same (name : String) (t : Target) : ∀ (l : List (String × Target)),
    l.any (fun kv => kv.1 == name) = true →
    ((l.map (fun kv => if kv.1 == name then (name, t) else kv)).find? (fun kv => kv.1 == name)).map (·.2) = some t
  | [], h => by simp at h
  | x :: l, h => by
    simp only [List.map_cons, List.find?_cons]
    by_cases hx : (x.1 == name) = true
    · simp [hx]
    · simp only [hx, Bool.false_eq_true, if_false]
      simp only [List.any_cons, hx, Bool.false_or] at h
      exact find_map_same name t l h

theorem find_map_other (name other : String) (t : Target) (h : other ≠ name) : ∀ (l : List (String × Target)),
    (l.map (fun kv => if kv.1 == name then (name, t) else kv)).find? (fun kv => kv.1 == other) =
      l.find? (fun kv => kv.1 == other)
  | [] => rfl
  | x :: l => by
    simp only [List.map_cons, List.find?_cons]
    have hno : (name == other) = false := by simpa using fun e => h e.symm
    by_cases hx : (x.1 == name) = true
    · have hxn : x.1 = name := by simpa using hx
      have h2 : (x.1 == other) = false := by rw [hxn]; exact hno
      simp only [hx, if_true, hno, h2]
      exact find_map_other name other t h l
    · simp only [hx, Bool.false_eq_true, if_false]
      split
      · rfl
      · exact find_map_other name other t h l

theorem get_set_same (s : State) (name : String) (t : Target) : (s.set name t).get name = some t := by
  unfold State.set State.get
  split
  · rename_i h
    exact find_map_same name t s.targets h
  · rename_i h
    simp only [List.find?_append]
    have : s.targets.find? (fun kv => kv.1 == name) = none := by
      rw [List.find?_eq_none]
      intro x hx hh
      exact h (List.any_eq_true.2 ⟨x, hx, hh⟩)
    simp [this]

theorem get_set_other (s : State) (name other : String) (t : Target) (h : other ≠ name) :
    (s.set name t).get other = s.get other := by
  unfold State.set State.get
  split
  · simp only
    rw [find_map_other name other t h]
  · simp only [List.find?_append]
    have : (name == other) = false := by simpa using fun e => h e.symm
    cases s.targets.find? (fun kv => kv.1 == other) <;> simp [this]

theorem set_cfg (s : State) (name : String) (t : Target) : (s.set name t).cfg = s.cfg := by
  unfold State.set; split <;> rfl

theorem get_filter_other (l : List (String × Target)) (name other : String) (h : other ≠ name) :
    (l.filter (fun kv => kv.1 != name)).find? (fun kv => kv.1 == other) =
      l.find? (fun kv => kv.1 == other) := by
  induction l with
  | nil => rfl
  | cons x l ih =>
    simp only [List.filter_cons]
    by_cases hx : x.1 = name
    · have h1 : (x.1 != name) = false := by simp [hx]
      have h2 : (x.1 == other) = false := by rw [hx]; simpa using fun e => h e.symm
      simp only [h1, Bool.false_eq_true, if_false, List.find?_cons, h2]
      exact ih
    · have h1 : (x.1 != name) = true := by simpa using hx
      simp only [h1, if_true, List.find?_cons]
      split
      · rfl
      · exact ih

theorem get_filter_same (l : List (String × Target)) (name : String) :
    (l.filter (fun kv => kv.1 != name)).find? (fun kv => kv.1 == name) = none := by
  rw [List.find?_eq_none]
  intro x hx
  have := (List.mem_filter.1 hx).2
  simpa using this

/-- every registered target is well formed, carries its own name, and the name is not empty -/
def SInv (s : State) : Prop :=
  ∀ name t, s.get name = some t → TInv t ∧ t.name = name ∧ name ≠ ""

theorem SInv.set {s : State} {name : String} {t : Target} (hs : SInv s)
    (ht : TInv t ∧ t.name = name ∧ name ≠ "") : SInv (s.set name t) := by
  intro nm t' hg
  by_cases h : nm = name
  · subst h
    rw [get_set_same] at hg; cases hg; exact ht
  · rw [get_set_other _ _ _ _ h] at hg
    exact hs nm t' hg

theorem SInv.onTarget {s : State} {name : String} {f : Target → Target × List Event} (hs : SInv s)
    (hf : ∀ t, TInv t → t.name = name → name ≠ "" → TInv (f t).1 ∧ (f t).1.name = name) :
    SInv (s.onTarget name f).1 := by
  unfold State.onTarget
  split
  · exact hs
  · rename_i t hg
    obtain ⟨h1, h2, h3⟩ := hs name t hg
    obtain ⟨a, b⟩ := hf t h1 h2 h3
    exact hs.set ⟨a, b, h3⟩

theorem metaNoti_target (enc : String → String) (t name : String) (v : Scalar) (now : Int) :
    (metaNoti enc t name v now).target = t := rfl

theorem SInv.empty (cfg : Cfg) : SInv { cfg := cfg } := by
  intro name t h; simp [State.get] at h

theorem fresh_target_inv (name : String) (sn : Option String := none) :
    TInv ({ name := name, serverName := sn } : Target) :=
  ⟨by simp [UniqueKeys], by simp, by simp, by simp [nm], by simp⟩

/-- a valid API call: targets are registered under non-empty names -/
def Op.valid : Op → Prop
  | .add name => name ≠ ""
  | _ => True

theorem updateMetadata_sinv (enc : String → String) (now : Int) (s : State) (hs : SInv s) :
    SInv (s.updateMetadata enc now).1 := by
  unfold State.updateMetadata
  suffices ∀ (l : List (String × Target)) (acc : State × List Event), SInv acc.1 →
      SInv (l.foldl (fun acc kv =>
        match acc.1.get kv.1 with
        | none => acc
        | some t =>
          let r := t.updateMeta s.cfg enc now true
          (acc.1.set kv.1 r.1, acc.2 ++ r.2)) acc).1 from this s.targets (s, []) hs
  intro l
  induction l with
  | nil => intro acc h; exact h
  | cons kv l ih =>
    intro acc h
    simp only [List.foldl_cons]
    apply ih
    split
    · exact h
    · rename_i t hg
      obtain ⟨h1, h2, h3⟩ := h kv.1 t hg
      have hm := updateMeta_ok s.cfg enc now true t h1 (by rw [h2]; exact h3)
      exact h.set ⟨hm.inv, hm.name.trans h2, h3⟩

/-- **Every API call keeps every target well formed, and `GnmiUpdate` never panics.** -/
theorem step_sinv (enc : String → String) (s : State) (op : Op) (hs : SInv s) (hv : op.valid) :
    SInv (s.step enc op).1 ∧ (s.step enc op).2.1 ≠ .panic := by
  cases op with
  | add name =>
    refine ⟨?_, by simp [State.step]⟩
    exact hs.set ⟨fresh_target_inv name, rfl, hv⟩
  | remove name now =>
    refine ⟨?_, by simp [State.step]⟩
    intro nm t hg
    simp only [State.step, State.remove, State.get] at hg
    by_cases h : nm = name
    · subst h; rw [get_filter_same] at hg; simp at hg
    · rw [get_filter_other _ _ _ h] at hg; exact hs nm t hg
  | reset name now =>
    refine ⟨?_, by simp [State.step]⟩
    apply hs.onTarget
    intro t h1 h2 h3
    obtain ⟨a, b, _⟩ := reset_ok s.cfg enc now t h1 (by rw [h2]; exact h3)
    exact ⟨a, b.trans h2⟩
  | sync name now =>
    refine ⟨?_, by simp [State.step]⟩
    apply hs.onTarget
    intro t h1 h2 h3
    obtain ⟨_, a, _, b⟩ := gnmiUpdate_ok s.cfg now t (metaNoti enc name "sync" (.bool true) now) h1 h3
    exact ⟨a, b.trans h2⟩
  | connect name now =>
    refine ⟨?_, by simp [State.step]⟩
    apply hs.onTarget
    intro t h1 h2 h3
    obtain ⟨_, a, _, b⟩ := gnmiUpdate_ok s.cfg now t (metaNoti enc name "connected" (.bool true) now) h1 h3
    obtain ⟨_, c, _, d⟩ := gnmiUpdate_ok s.cfg now _ (deleteNotiOf enc name [metaRoot, "connectError"] now) a h3
    exact ⟨c, (d.trans b).trans h2⟩
  | connectError name msg now =>
    refine ⟨?_, by simp [State.step]⟩
    apply hs.onTarget
    intro t h1 h2 h3
    obtain ⟨_, a, _, b⟩ := gnmiUpdate_ok s.cfg now t (metaNoti enc name "connectError" (.str msg) now) h1 h3
    exact ⟨a, b.trans h2⟩
  | update now pn n =>
    simp only [State.step, State.gnmiUpdate]
    split
    · exact ⟨hs, by simp⟩
    · split
      · exact ⟨hs, by simp⟩
      · rename_i t hg
        obtain ⟨h1, h2, h3⟩ := hs n.target t hg
        obtain ⟨a, b, _, d⟩ := gnmiUpdate_ok s.cfg now t n h1 h3
        exact ⟨hs.set ⟨b, d.trans h2, h3⟩, a⟩
  | updateMetadata now =>
    exact ⟨updateMetadata_sinv enc now s hs, by simp [State.step]⟩

theorem run_sinv (enc : String → String) : ∀ (ops : List Op) (s : State), SInv s → (∀ op ∈ ops, op.valid) →
    SInv (s.run enc ops)
  | [], s, h, _ => h
  | op :: ops, s, h, hv =>
    run_sinv enc ops _ (step_sinv enc s op h (hv op (List.mem_cons_self ..))).1
      (fun o ho => hv o (List.mem_cons_of_mem _ ho))

end Cache
end Gnmi
