import Gnmi.Lemmas.CacheNames
/-!
Accounting lemmas for the cache model (`Model/Cache.lean`), used by `Props/C15Hist.lean`.

* `Ctr`: the eight counters of a target's metadata the cache maintains itself
  (`targetLeavesUpdated/Suppressed/Stale/Future/Empty/Added/Deleted`, `targetLeaves`).
* `UnitOut`: the outcome of one *unit* of work — one update, one delete, a whole atomic
  notification, an empty notification, or one of the cache's own metadata writes — and `delta`,
  what that outcome adds to the counters.  The outcome of a unit is read off the *existing*
  model functions (`Target.dispatch` on the unit notification, `Target.gnmiUpdate1` for the
  cache's own writes): result class, whether an event was handed to the feed, whether the key
  was new, how many non-metadata leaves disappeared.  It never looks at a counter.
* `multiUpdates_round` / `multiDeletes_round`: the two loops of a multi-update notification are
  folds of `Target.dispatch` over the unit notifications (`unitStep`), field for field.
* `foldl_units`: a fold over unit notifications moves the counters by the sum of the deltas of
  the unit outcomes; `updateMeta_ctr`: the same for the metadata refresh.
* `updateMetadata_get`: `Cache.UpdateMetadata` refreshes every registered target once.
-/
namespace Gnmi
namespace Acc
open Cache Feed

/-! ## Counter vectors -/

@[ext] structure Ctr where
  updated : Int := 0
  suppressed : Int := 0
  stale : Int := 0
  future : Int := 0
  empty : Int := 0
  added : Int := 0
  deleted : Int := 0
  leaves : Int := 0
deriving DecidableEq, Repr

/-- the counters of a metadata object -/
def ctrOf (m : Meta) : Ctr :=
  ⟨m.updated, m.suppressed, m.stale, m.future, m.empty, m.added, m.deleted, m.leaves⟩

def Ctr.zero : Ctr := {}

def Ctr.add (a b : Ctr) : Ctr :=
  ⟨a.updated + b.updated, a.suppressed + b.suppressed, a.stale + b.stale, a.future + b.future,
   a.empty + b.empty, a.added + b.added, a.deleted + b.deleted, a.leaves + b.leaves⟩

instance : Add Ctr := ⟨Ctr.add⟩
instance : OfNat Ctr 0 := ⟨Ctr.zero⟩

theorem Ctr.add_def (a b : Ctr) : a + b =
    ⟨a.updated + b.updated, a.suppressed + b.suppressed, a.stale + b.stale, a.future + b.future,
     a.empty + b.empty, a.added + b.added, a.deleted + b.deleted, a.leaves + b.leaves⟩ := rfl

theorem Ctr.zero_def : (0 : Ctr) = ⟨0, 0, 0, 0, 0, 0, 0, 0⟩ := rfl

/-- closes an equation between counter vectors field by field -/
macro "ctr_eq" : tactic =>
  `(tactic| (simp only [Ctr.ext_iff, Ctr.add_def, Ctr.zero_def, ctrOf] <;> (repeat' apply And.intro) <;>
    first | trivial | omega))

theorem Ctr.add_zero (a : Ctr) : a + 0 = a := by ctr_eq
theorem Ctr.zero_add (a : Ctr) : 0 + a = a := by ctr_eq
theorem Ctr.add_assoc (a b c : Ctr) : a + b + c = a + (b + c) := by ctr_eq

/-- sum of a list of counter vectors -/
def Ctr.sum : List Ctr → Ctr
  | [] => 0
  | c :: cs => c + Ctr.sum cs

theorem Ctr.sum_append (a b : List Ctr) : Ctr.sum (a ++ b) = Ctr.sum a + Ctr.sum b := by
  induction a with
  | nil => simp [Ctr.sum, Ctr.zero_add]
  | cons x a ih => simp [Ctr.sum, ih, Ctr.add_assoc]

/-! ## Unit outcomes -/

/-- The outcome of one unit of work on a target. -/
inductive UnitOut where
  /-- update(s) stored and handed to the feed.  `k` is what the caller adds to
  `targetLeavesUpdated`: 1 for an update, the number of updates for an atomic notification,
  0 for the cache's own metadata writes (`generateMetaUpdates` calls `gnmiUpdate` directly).
  `fresh`: the key was not stored before and is not under `meta`. -/
  | accepted (k : Nat) (fresh : Bool)
  /-- update stored but withheld from the feed (same value, event-driven mode) -/
  | suppressed
  | stale
  | future
  /-- an error (or a Go panic): nothing is counted -/
  | rejected
  /-- a delete that removed `cnt` non-metadata leaves (deletes are counted as "updated"
  before they are looked at, whatever they remove) -/
  | deleted (cnt : Nat)
  /-- a delete whose callback panicked after the leaves were removed -/
  | deletePanic
  | empty
deriving DecidableEq, Repr

/-- what an outcome adds to the counters: *exactly one* of `updated`, `suppressed`, `stale`,
`future`, `empty` moves (none for `rejected`) -/
def delta : UnitOut → Ctr
  | .accepted k fresh =>
    { updated := k, added := if fresh then 1 else 0, leaves := if fresh then 1 else 0 }
  | .suppressed => { suppressed := 1 }
  | .stale => { stale := 1 }
  | .future => { future := 1 }
  | .rejected => 0
  | .deleted c => { updated := 1, deleted := c, leaves := -(c : Int) }
  | .deletePanic => { updated := 1 }
  | .empty => { empty := 1 }

/-- the update was stored (announced or suppressed): what sets `updateTS` in `GnmiUpdate` -/
def UnitOut.isAccept : UnitOut → Bool
  | .accepted _ _ => true
  | .suppressed => true
  | _ => false

def sumDelta (l : List UnitOut) : Ctr := Ctr.sum (l.map delta)

theorem sumDelta_nil : sumDelta [] = 0 := rfl

theorem sumDelta_cons (o : UnitOut) (l : List UnitOut) : sumDelta (o :: l) = delta o + sumDelta l := rfl

theorem sumDelta_append (a b : List UnitOut) : sumDelta (a ++ b) = sumDelta a + sumDelta b := by
  simp [sumDelta, Ctr.sum_append]

/-! ## One `gnmiUpdate1` -/

theorem metaSideEffect_ctr {t t' : Target} {name : String} {v : Val}
    (h : metaSideEffect t name v = some t') : ctrOf t'.md = ctrOf t.md ∧ t'.md.latest = t.md.latest := by
  unfold metaSideEffect at h
  repeat' split at h
  all_goals first
    | (cases h; exact ⟨rfl, rfl⟩)
    | (simp at h)

theorem metaPre_ctr {t t' : Target} {h : String} {rest : Path} {v : Val} {rd : Bool}
    (hp : metaPre t h rest v = some (t', rd)) : ctrOf t'.md = ctrOf t.md ∧ t'.md.latest = t.md.latest := by
  unfold metaPre at hp
  split at hp
  · split at hp
    · cases hp
    · simp only [Option.map_eq_some_iff, Prod.mk.injEq] at hp
      obtain ⟨t0, h0, rfl, _⟩ := hp
      exact metaSideEffect_ctr h0
  · cases hp; exact ⟨rfl, rfl⟩

/-- is the first update of `n` a new leaf outside `meta`? (read off the tree before the call) -/
def isFresh (t : Target) (n : Noti) : Bool :=
  match n.upd with
  | u :: _ =>
    match updKey? n u with
    | some key => (lookup t.tree key).isNone && !isMetaKey key
    | none => false
  | [] => false

/-- what one `gnmiUpdate` (lower case) does to the counters, from its result: a stale update
bumps `stale`, a future one `future`, a stored but withheld one `suppressed`, a stored and
returned one bumps `added` and `leaves` when the leaf is new real data; `updated` is left to
the caller. -/
def g1Delta (res : Res) (ev : Option Noti) (fresh : Bool) : Ctr :=
  match res, ev with
  | .stale, _ => { stale := 1 }
  | .future, _ => { future := 1 }
  | .ok, none => { suppressed := 1 }
  | .ok, some _ => if fresh then { added := 1, leaves := 1 } else 0
  | _, _ => 0

theorem updateCore_ctr (cfg : Cfg) (now : Int) (t : Target) (rd : Bool) (path : Path) (n : Noti) (u : Upd) :
    let r := updateCore cfg now t rd path n u
    ctrOf r.2.1.md = ctrOf t.md + g1Delta r.1 r.2.2 ((lookup t.tree path).isNone && rd) ∧
    r.2.1.md.latest = t.md.latest := by
  intro r
  have hr : r = updateCore cfg now t rd path n u := rfl
  unfold updateCore at hr
  cases hl : lookup t.tree path with
  | some old =>
    simp only [hl] at hr
    repeat' split at hr
    all_goals (rw [hr]; refine ⟨?_, rfl⟩; simp only [g1Delta, Option.isNone_some, Bool.false_and,
      Bool.false_eq_true, if_false]; ctr_eq)
  | none =>
    simp only [hl] at hr
    split at hr
    · rw [hr]; refine ⟨?_, rfl⟩; simp only [g1Delta]; ctr_eq
    · cases rd
      · rw [hr]; refine ⟨?_, rfl⟩
        simp only [g1Delta, Option.isNone_none, Bool.and_false, Bool.false_eq_true, if_false]; ctr_eq
      · rw [hr]; refine ⟨?_, rfl⟩
        simp only [g1Delta, Option.isNone_none, Bool.and_true, if_true]; ctr_eq

theorem gnmiUpdate1_ctr (cfg : Cfg) (now : Int) (t : Target) (n : Noti) :
    let r := Target.gnmiUpdate1 cfg now t n
    ctrOf r.2.1.md = ctrOf t.md + g1Delta r.1 r.2.2 (isFresh t n) ∧ r.2.1.md.latest = t.md.latest := by
  intro r
  have hr : r = Target.gnmiUpdate1 cfg now t n := rfl
  unfold Target.gnmiUpdate1 at hr
  unfold isFresh
  split at hr
  · rw [hr]; refine ⟨?_, rfl⟩; simp only [g1Delta]; ctr_eq
  · rename_i u us hu
    split at hr
    · rw [hr]; refine ⟨?_, rfl⟩; simp only [g1Delta]; ctr_eq
    · rw [hr]; refine ⟨?_, rfl⟩; simp only [g1Delta]; ctr_eq
    · rename_i h rest hk
      simp only [hu, hk]
      split at hr
      · rw [hr]; refine ⟨?_, rfl⟩; simp only [g1Delta]; ctr_eq
      · rename_i t' rd hp
        obtain ⟨h1, h2⟩ := metaPre_ctr hp
        obtain ⟨f1, _, _, _, f5⟩ := metaPre_frame hp
        have := updateCore_ctr cfg now t' rd (h :: rest) n u
        simp only at this
        rw [hr, ← h1, ← h2, ← f1, f5] at *
        rw [f5] at this
        exact this

/-! ## One `gnmiRemove1` -/

theorem resetEntry_ctr (m : Meta) (name : String) (h : intNames.contains name = false) :
    ctrOf (m.resetEntry name) = ctrOf m ∧ (m.resetEntry name).latest = m.latest := by
  have h' : ¬name = "targetLeavesAdded" ∧ ¬name = "targetLeavesDeleted" ∧ ¬name = "targetLeavesEmpty" ∧
      ¬name = "targetLeaves" ∧ ¬name = "targetLeavesUpdated" ∧ ¬name = "targetLeavesStale" ∧
      ¬name = "targetLeavesFuture" ∧ ¬name = "targetLeavesSuppressed" ∧ ¬name = "targetSize" ∧
      ¬name = "latestTimestamp" := by simpa [intNames] using h
  obtain ⟨a1, a2, a3, a4, a5, a6, a7, a8, a9, a10⟩ := h'
  unfold Meta.resetEntry
  simp only [a1, a2, a3, a4, a5, a6, a7, a8, a9, a10, if_false]
  by_cases c1 : name = "sync"
  · rw [if_pos c1]; exact ⟨rfl, rfl⟩
  by_cases c2 : name = "connected"
  · rw [if_neg c1, if_pos c2]; exact ⟨rfl, rfl⟩
  by_cases c3 : name = "connectedAddress"
  · rw [if_neg c1, if_neg c2, if_pos c3]; exact ⟨rfl, rfl⟩
  by_cases c4 : name = "connectError"
  · rw [if_neg c1, if_neg c2, if_neg c3, if_pos c4]; exact ⟨rfl, rfl⟩
  rw [if_neg c1, if_neg c2, if_neg c3, if_neg c4]; exact ⟨rfl, rfl⟩

theorem resetMetaFor_ctr (t : Target) (path : Path) :
    ctrOf (resetMetaFor t path).md = ctrOf t.md ∧ (resetMetaFor t path).md.latest = t.md.latest := by
  unfold resetMetaFor
  split
  · split
    · rename_i hc
      exact resetEntry_ctr _ _ (by simpa using hc.2)
    · exact ⟨rfl, rfl⟩
  · exact ⟨rfl, rfl⟩

/-- what a delete that removed `c` non-metadata leaves does to the counters (the `updated` bump
is done by the caller) -/
def delDelta (c : Nat) : Ctr := { deleted := c, leaves := -(c : Int) }

theorem removeCore_ctr (t : Target) (ts : Int) (path : Path) :
    let r := removeCore t ts path
    ctrOf r.1.md = ctrOf t.md + (if r.2.2 then 0 else delDelta (nm t.tree - nm r.1.tree)) ∧
    r.1.md.latest = t.md.latest := by
  intro r
  have hr : r = removeCore t ts path := rfl
  have hpart := nm_partition t.tree (fun kv => qmatches path kv.1 && olderThan ts kv.2)
  unfold removeCore at hr
  simp only at hr
  split at hr
  · rw [hr]; refine ⟨?_, rfl⟩
    simp only [Bool.false_eq_true, if_false, Nat.sub_self, delDelta]; ctr_eq
  · rename_i x xs hx
    split at hr
    · rw [hr]; refine ⟨?_, rfl⟩; simp only [if_true]; ctr_eq
    · rw [hr]; refine ⟨?_, rfl⟩
      simp only [Bool.false_eq_true, if_false, delDelta]
      have h1 : ((x :: xs).filter (fun kv => !isMetaKey kv.1)).length =
          nm (PMap.delete (olderThan ts) t.tree path).2 := by rw [hx]; rfl
      have h2 : nm t.tree - nm (PMap.delete (olderThan ts) t.tree path).1 =
          nm (PMap.delete (olderThan ts) t.tree path).2 := by
        unfold PMap.delete; simp only; omega
      rw [h1, h2]
      ctr_eq

theorem gnmiRemove1_ctr (t : Target) (n : Noti) :
    let r := Target.gnmiRemove1 t n
    ctrOf r.1.md = ctrOf t.md + (if r.2.2 then 0 else delDelta (nm t.tree - nm r.1.tree)) ∧
    r.1.md.latest = t.md.latest := by
  intro r
  have hr : r = Target.gnmiRemove1 t n := rfl
  unfold Target.gnmiRemove1 at hr
  split at hr
  · rw [hr]; refine ⟨?_, rfl⟩; simp only [if_true]; ctr_eq
  · split at hr
    · rw [hr]; refine ⟨?_, rfl⟩; simp only [if_true]; ctr_eq
    · rename_i path _
      obtain ⟨a, b⟩ := resetMetaFor_ctr t path
      obtain ⟨c, _⟩ := resetMetaFor_frame t path
      have := removeCore_ctr (resetMetaFor t path) n.ts path
      simp only at this
      rw [hr, ← a, ← b, ← c]
      exact this

/-! ## Unit notifications -/

/-- the notification the update loop of a multi-update notification hands to `gnmiUpdate` -/
def updUnit (n : Noti) (u : Upd) : Noti := { n with upd := [u], del := [] }
/-- the notification the delete loop hands to `gnmiRemove` -/
def delUnit (n : Noti) (d : Del) : Noti := { n with upd := [], del := [d] }

/-- a notification `Target.GnmiUpdate` processes in one piece: atomic, or at most one update
or delete -/
def isUnit (n : Noti) : Bool := n.atomic || decide (n.upd.length + n.del.length ≤ 1)

/-- the units `Target.GnmiUpdate` breaks a notification into, in processing order (all updates,
then all deletes) -/
def unitNotis (n : Noti) : List Noti :=
  if isUnit n then [n] else n.upd.map (updUnit n) ++ n.del.map (delUnit n)

/-- outcome of an update unit from what `dispatch` returned: the result class and the feed
events -/
def outOfArm (res : Res) (evs : List (List Event)) (k : Nat) (fresh : Bool) : UnitOut :=
  match res with
  | .ok => if evs.isEmpty then .suppressed else .accepted k fresh
  | .stale => .stale
  | .future => .future
  | _ => .rejected

/-- **The outcome of a unit notification `m` on target `t`**, read off `t.dispatch … m`:
the result class, whether an event came out, and the tree before and after. -/
def unitOut (cfg : Cfg) (now : Int) (t : Target) (m : Noti) : UnitOut :=
  let r := t.dispatch cfg now m
  if m.upd.isEmpty then
    if m.del.isEmpty then .empty
    else if m.atomic then .rejected
    else if r.1 = .panic then .deletePanic
    else .deleted (nm t.tree - nm r.2.1.tree)
  else outOfArm r.1 r.2.2.1 (if m.atomic then m.upd.length else 1) (isFresh t m)

theorem singleArm_unit (g : Res × Target × Option Noti) (k : Nat) (c : Ctr) (fresh : Bool)
    (hg : ctrOf g.2.1.md = c + g1Delta g.1 g.2.2 fresh) :
    let r := singleArm g k
    ctrOf r.2.1.md = c + delta (outOfArm r.1 r.2.2.1 k fresh) ∧
    r.2.1.md.latest = g.2.1.md.latest ∧ r.2.2.2 = (outOfArm r.1 r.2.2.1 k fresh).isAccept := by
  obtain ⟨res, t', ev⟩ := g
  cases res <;> cases ev <;> cases fresh <;>
    simp only [singleArm, Res.isErr, outOfArm, g1Delta, delta, UnitOut.isAccept, List.isEmpty_nil,
      List.isEmpty_cons, if_true, if_false, Bool.false_eq_true] at hg ⊢ <;>
    refine ⟨?_, by first | trivial | rfl, by first | trivial | rfl⟩ <;>
    (simp only [Ctr.ext_iff, Ctr.add_def, Ctr.zero_def, ctrOf] at hg ⊢; omega)

/-- **One unit.** `dispatch` on a unit notification moves the counters by the delta of its
outcome, leaves the exported latest-timestamp alone, and raises `updateTS` exactly when the
outcome is an accepted (announced or suppressed) update. -/
theorem unit_delta (cfg : Cfg) (now : Int) (t : Target) (m : Noti) (hu : isUnit m = true) :
    let r := t.dispatch cfg now m
    ctrOf r.2.1.md = ctrOf t.md + delta (unitOut cfg now t m) ∧
    r.2.1.md.latest = t.md.latest ∧ r.2.2.2 = (unitOut cfg now t m).isAccept := by
  intro r
  have hg := gnmiUpdate1_ctr cfg now t m
  simp only at hg
  obtain ⟨hg1, hg2⟩ := hg
  have hr : r = t.dispatch cfg now m := rfl
  unfold unitOut
  simp only [← hr]
  unfold Target.dispatch at hr
  cases hat : m.atomic with
  | true =>
    simp only [hat, if_true] at hr ⊢
    cases hdel : m.del with
    | cons d ds =>
      simp only [hdel, List.isEmpty_cons, Bool.not_false, if_true] at hr
      rw [hr]
      cases hupd : m.upd with
      | nil =>
        simp only [List.isEmpty_nil, List.isEmpty_cons, if_true, Bool.false_eq_true, if_false, delta,
          UnitOut.isAccept]
        exact ⟨by ctr_eq, by trivial, by trivial⟩
      | cons u us =>
        simp only [List.isEmpty_cons, Bool.false_eq_true, if_false, outOfArm, delta, UnitOut.isAccept]
        exact ⟨by ctr_eq, by trivial, by trivial⟩
    | nil =>
      simp only [hdel, List.isEmpty_nil, Bool.not_true, Bool.false_eq_true, if_false] at hr
      cases hupd : m.upd with
      | nil =>
        simp only [hupd, List.isEmpty_nil, if_true] at hr
        rw [hr]
        simp only [List.isEmpty_nil, if_true, delta, UnitOut.isAccept]
        exact ⟨by ctr_eq, by trivial, by trivial⟩
      | cons u us =>
        simp only [hupd, List.isEmpty_cons, Bool.false_eq_true, if_false] at hr
        rw [← hupd] at hr
        have := singleArm_unit (Target.gnmiUpdate1 cfg now t m) m.upd.length (ctrOf t.md) (isFresh t m) hg1
        simp only [← hr] at this
        simp only [List.isEmpty_cons, Bool.false_eq_true, if_false]
        rw [← hupd]
        exact ⟨this.1, this.2.1.trans hg2, this.2.2⟩
  | false =>
    have hlen : m.upd.length + m.del.length ≤ 1 := by
      simpa [isUnit, hat] using hu
    simp only [hat, Bool.false_eq_true, if_false] at hr ⊢
    have hnot : ¬ (m.upd.length + m.del.length > 1) := by omega
    simp only [hnot, if_false] at hr
    cases hupd : m.upd with
    | cons u us =>
      have h1 : m.upd.length = 1 := by
        rw [hupd] at hlen ⊢; simp only [List.length_cons] at hlen ⊢; omega
      simp only [h1, if_true] at hr
      have := singleArm_unit (Target.gnmiUpdate1 cfg now t m) 1 (ctrOf t.md) (isFresh t m) hg1
      have h11 : ((1 : Nat) : Int) = 1 := rfl
      rw [h11] at this
      simp only [← hr] at this
      simp only [List.isEmpty_cons, Bool.false_eq_true, if_false]
      exact ⟨this.1, this.2.1.trans hg2, this.2.2⟩
    | nil =>
      have h0 : ¬ (m.upd.length = 1) := by rw [hupd]; simp
      simp only [h0, if_false] at hr
      simp only [List.isEmpty_nil, if_true]
      cases hdel : m.del with
      | nil =>
        have h2 : ¬ (m.del.length = 1) := by rw [hdel]; simp
        simp only [h2, if_false] at hr
        rw [hr]
        simp only [List.isEmpty_nil, if_true, delta, UnitOut.isAccept]
        exact ⟨by ctr_eq, by trivial, by trivial⟩
      | cons d ds =>
        have h2 : m.del.length = 1 := by
          rw [hupd, hdel] at hlen; rw [hdel]; simp only [List.length_cons, List.length_nil] at hlen ⊢; omega
        simp only [h2, if_true] at hr
        have hrm := gnmiRemove1_ctr { t with md := { t.md with updated := t.md.updated + 1 } } m
        simp only at hrm
        obtain ⟨r1, r2⟩ := hrm
        simp only [List.isEmpty_cons, Bool.false_eq_true, if_false]
        cases hp : (Target.gnmiRemove1 { t with md := { t.md with updated := t.md.updated + 1 } } m).2.2 with
        | true =>
          simp only [hp, if_true] at hr r1
          rw [hr]
          simp only [if_true, delta, UnitOut.isAccept]
          refine ⟨?_, r2, by trivial⟩
          rw [r1]; ctr_eq
        | false =>
          simp only [hp, Bool.false_eq_true, if_false] at hr r1
          rw [hr]
          simp only [reduceCtorEq, if_false, delta, UnitOut.isAccept]
          refine ⟨?_, r2, by trivial⟩
          rw [r1]; simp only [delDelta]; ctr_eq

/-! ## A multi-update notification is processed as its units, one after the other -/

/-- one round of the loops of `Target.GnmiUpdate`, written with `dispatch` on the unit
notification: stop at a panic, otherwise collect the error / accepted flags and the events -/
def unitStep (cfg : Cfg) (now : Int) (acc : MultiAcc) (m : Noti) : MultiAcc :=
  if acc.panicked then acc else
  let r := acc.t.dispatch cfg now m
  if r.1 = .panic then { acc with panicked := true, t := r.2.1 }
  else { acc with anyErr := acc.anyErr || r.1.isErr, anyOk := acc.anyOk || r.2.2.2, t := r.2.1,
                  evs := acc.evs ++ r.2.2.1 }

theorem foldl_unitStep_panicked (cfg : Cfg) (now : Int) : ∀ (ms : List Noti) (acc : MultiAcc),
    acc.panicked = true → ms.foldl (unitStep cfg now) acc = acc
  | [], _, _ => rfl
  | m :: ms, acc, h => by
    have : unitStep cfg now acc m = acc := by simp [unitStep, h]
    rw [List.foldl_cons, this]
    exact foldl_unitStep_panicked cfg now ms acc h

theorem dispatch_updUnit (cfg : Cfg) (now : Int) (t : Target) (hdr : Noti) (u : Upd)
    (ha : hdr.atomic = false) :
    t.dispatch cfg now (updUnit hdr u) = singleArm (Target.gnmiUpdate1 cfg now t (updUnit hdr u)) 1 := by
  unfold Target.dispatch
  simp [updUnit, ha]

theorem dispatch_delUnit (cfg : Cfg) (now : Int) (t : Target) (hdr : Noti) (d : Del)
    (ha : hdr.atomic = false) :
    t.dispatch cfg now (delUnit hdr d) =
      (let t1 := { t with md := { t.md with updated := t.md.updated + 1 } }
       let r := Target.gnmiRemove1 t1 (delUnit hdr d)
       if r.2.2 then (.panic, r.1, [], false)
       else (.ok, r.1, (if r.2.1.isEmpty then [] else [r.2.1]), false)) := by
  unfold Target.dispatch
  simp [delUnit, ha]

theorem multiUpdates_cons (cfg : Cfg) (now : Int) (hdr : Noti) (u : Upd) (us : List Upd) (acc : MultiAcc)
    (hp : acc.panicked = false) :
    multiUpdates cfg now hdr (u :: us) acc =
      (let r := Target.gnmiUpdate1 cfg now acc.t (updUnit hdr u)
       if r.1 = .panic then { acc with panicked := true, t := r.2.1 }
       else if r.1.isErr then multiUpdates cfg now hdr us { acc with anyErr := true, t := r.2.1 }
       else
         match r.2.2 with
         | some nd =>
           multiUpdates cfg now hdr us
             { acc with anyOk := true,
                        t := { r.2.1 with md := { r.2.1.md with updated := r.2.1.md.updated + 1 } },
                        evs := acc.evs ++ [[Event.upd nd]] }
         | none => multiUpdates cfg now hdr us { acc with anyOk := true, t := r.2.1 }) := by
  conv => lhs; unfold multiUpdates
  rw [if_neg (by rw [hp]; simp)]
  rfl

theorem multiDeletes_cons (hdr : Noti) (d : Del) (ds : List Del) (acc : MultiAcc)
    (hp : acc.panicked = false) :
    multiDeletes hdr (d :: ds) acc =
      (let r := Target.gnmiRemove1 { acc.t with md := { acc.t.md with updated := acc.t.md.updated + 1 } }
          (delUnit hdr d)
       if r.2.2 then { acc with panicked := true, t := r.1 }
       else multiDeletes hdr ds
         { acc with t := r.1, evs := if r.2.1.isEmpty then acc.evs else acc.evs ++ [r.2.1] }) := by
  conv => lhs; unfold multiDeletes
  rw [if_neg (by rw [hp]; simp)]
  rfl

/-- **The update loop is a fold of `dispatch` over the update units.** -/
theorem multiUpdates_round (cfg : Cfg) (now : Int) (hdr : Noti) (ha : hdr.atomic = false) :
    ∀ (us : List Upd) (acc : MultiAcc),
      multiUpdates cfg now hdr us acc = (us.map (updUnit hdr)).foldl (unitStep cfg now) acc
  | [], acc => by simp [multiUpdates]
  | u :: us, acc => by
    cases hp : acc.panicked with
    | true =>
      rw [foldl_unitStep_panicked cfg now _ acc hp]
      unfold multiUpdates
      simp [hp]
    | false =>
      simp only [List.map_cons, List.foldl_cons]
      have hstep : unitStep cfg now acc (updUnit hdr u) =
          (let r := singleArm (Target.gnmiUpdate1 cfg now acc.t (updUnit hdr u)) 1
           if r.1 = .panic then { acc with panicked := true, t := r.2.1 }
           else { acc with anyErr := acc.anyErr || r.1.isErr, anyOk := acc.anyOk || r.2.2.2, t := r.2.1,
                           evs := acc.evs ++ r.2.2.1 }) := by
        unfold unitStep
        simp only [hp, Bool.false_eq_true, if_false]
        rw [dispatch_updUnit cfg now acc.t hdr u ha]
      rw [hstep, multiUpdates_cons cfg now hdr u us acc hp]
      generalize Target.gnmiUpdate1 cfg now acc.t (updUnit hdr u) = g
      obtain ⟨res, t', ev⟩ := g
      cases res <;> cases ev <;>
        simp only [singleArm, Res.isErr, reduceCtorEq, if_true, if_false, Bool.false_eq_true,
          Bool.or_true, Bool.or_false, List.append_nil] <;>
        first
          | (rw [multiUpdates_round cfg now hdr ha us])
          | (rw [foldl_unitStep_panicked cfg now _ _ rfl])

/-- **The delete loop is a fold of `dispatch` over the delete units.** -/
theorem multiDeletes_round (cfg : Cfg) (now : Int) (hdr : Noti) (ha : hdr.atomic = false) :
    ∀ (ds : List Del) (acc : MultiAcc),
      multiDeletes hdr ds acc = (ds.map (delUnit hdr)).foldl (unitStep cfg now) acc
  | [], acc => by simp [multiDeletes]
  | d :: ds, acc => by
    cases hp : acc.panicked with
    | true =>
      rw [foldl_unitStep_panicked cfg now _ acc hp]
      unfold multiDeletes
      simp [hp]
    | false =>
      simp only [List.map_cons, List.foldl_cons]
      have hstep : unitStep cfg now acc (delUnit hdr d) =
          (let r := Target.gnmiRemove1 { acc.t with md := { acc.t.md with updated := acc.t.md.updated + 1 } }
              (delUnit hdr d)
           if r.2.2 then { acc with panicked := true, t := r.1 }
           else { acc with t := r.1, evs := acc.evs ++ (if r.2.1.isEmpty then [] else [r.2.1]) }) := by
        unfold unitStep
        simp only [hp, Bool.false_eq_true, if_false]
        rw [dispatch_delUnit cfg now acc.t hdr d ha]
        simp only
        split <;> simp [Res.isErr]
      rw [hstep, multiDeletes_cons hdr d ds acc hp]
      generalize Target.gnmiRemove1 _ (delUnit hdr d) = g
      obtain ⟨t', evs, pk⟩ := g
      cases pk
      · simp only [Bool.false_eq_true, if_false]
        rw [multiDeletes_round cfg now hdr ha ds]
        congr 2
        cases evs <;> simp
      · simp only [if_true]
        rw [foldl_unitStep_panicked cfg now _ _ rfl]

theorem updUnit_hdr (n : Noti) (u : Upd) : updUnit { n with upd := [], del := [] } u = updUnit n u := rfl
theorem delUnit_hdr (n : Noti) (d : Del) : delUnit { n with upd := [], del := [] } d = delUnit n d := rfl

/-- **A non-atomic notification with more than one update or delete is processed as the fold
of `dispatch` over its unit notifications** (result class, target, events, `updateTS`). -/
theorem dispatch_multi (cfg : Cfg) (now : Int) (t : Target) (n : Noti) (hu : isUnit n = false) :
    t.dispatch cfg now n =
      (let b := (unitNotis n).foldl (unitStep cfg now) { t := t }
       if b.panicked then (.panic, b.t, b.evs, false)
       else ((if b.anyErr then .err else .ok), b.t, b.evs, b.anyOk)) := by
  have ha : n.atomic = false := by
    cases h : n.atomic
    · rfl
    · simp [isUnit, h] at hu
  have hl : n.upd.length + n.del.length > 1 := by
    simp [isUnit, ha] at hu; omega
  have key : ∀ hdr : Noti, hdr.atomic = false →
      multiDeletes hdr n.del (multiUpdates cfg now hdr n.upd { t := t }) =
        (n.upd.map (updUnit hdr) ++ n.del.map (delUnit hdr)).foldl (unitStep cfg now) { t := t } := by
    intro hdr h
    rw [multiUpdates_round cfg now hdr h, multiDeletes_round cfg now hdr h, List.foldl_append]
  have hk := key { n with upd := [], del := [] } ha
  have hun : unitNotis n = n.upd.map (updUnit n) ++ n.del.map (delUnit n) := by simp [unitNotis, hu]
  rw [hun]
  unfold Target.dispatch
  rw [if_neg (by simp [ha]), if_pos hl]
  simp only [hk]
  rfl

theorem updUnit_isUnit (n : Noti) (u : Upd) : isUnit (updUnit n u) = true := by
  simp [isUnit, updUnit]
theorem delUnit_isUnit (n : Noti) (d : Del) : isUnit (delUnit n d) = true := by
  simp [isUnit, delUnit]

theorem unitNotis_isUnit (n : Noti) : ∀ m ∈ unitNotis n, isUnit m = true := by
  intro m hm
  unfold unitNotis at hm
  cases hu : isUnit n with
  | true => simp only [hu, if_true, List.mem_singleton] at hm; rw [hm]; exact hu
  | false =>
    simp only [hu, Bool.false_eq_true, if_false, List.mem_append, List.mem_map] at hm
    rcases hm with ⟨u, _, rfl⟩ | ⟨d, _, rfl⟩
    · exact updUnit_isUnit n u
    · exact delUnit_isUnit n d

/-- the outcomes of a sequence of unit notifications processed one after the other from `t`
(processing stops at a panic, as the loops do) -/
def unitOuts (cfg : Cfg) (now : Int) : Target → List Noti → List UnitOut
  | _, [] => []
  | t, m :: ms =>
    unitOut cfg now t m ::
      (if (t.dispatch cfg now m).1 = .panic then [] else unitOuts cfg now (t.dispatch cfg now m).2.1 ms)

/-- **The outcomes of the units of notification `n` on target `t`.** -/
def notiOuts (cfg : Cfg) (now : Int) (t : Target) (n : Noti) : List UnitOut :=
  unitOuts cfg now t (unitNotis n)

/-- a fold over unit notifications moves the counters by the sum of the outcome deltas, and
collects in `anyOk` whether some unit was an accepted update -/
theorem foldl_units (cfg : Cfg) (now : Int) : ∀ (ms : List Noti) (acc : MultiAcc),
    acc.panicked = false → (∀ m ∈ ms, isUnit m = true) →
    ctrOf (ms.foldl (unitStep cfg now) acc).t.md = ctrOf acc.t.md + sumDelta (unitOuts cfg now acc.t ms) ∧
    (ms.foldl (unitStep cfg now) acc).t.md.latest = acc.t.md.latest ∧
    (ms.foldl (unitStep cfg now) acc).anyOk = (acc.anyOk || (unitOuts cfg now acc.t ms).any UnitOut.isAccept)
  | [], acc, _, _ => by
    simp only [List.foldl_nil, unitOuts, sumDelta_nil, List.any_nil, Bool.or_false]
    exact ⟨by ctr_eq, by trivial, by trivial⟩
  | m :: ms, acc, hp, hall => by
    obtain ⟨d1, d2, d3⟩ := unit_delta cfg now acc.t m (hall m (List.mem_cons_self ..))
    simp only [List.foldl_cons, unitOuts, sumDelta_cons, List.any_cons]
    by_cases hpk : (acc.t.dispatch cfg now m).1 = .panic
    · have hs : unitStep cfg now acc m = { acc with panicked := true, t := (acc.t.dispatch cfg now m).2.1 } := by
        simp [unitStep, hp, hpk]
      rw [hs, foldl_unitStep_panicked cfg now ms _ rfl]
      simp only [hpk, if_true, sumDelta_nil, List.any_nil, Bool.or_false]
      refine ⟨?_, d2, ?_⟩
      · rw [d1]; ctr_eq
      · rw [← d3]
        -- a panicking unit never raises `updateTS`
        have : (acc.t.dispatch cfg now m).2.2.2 = false := by
          have hr : ∀ r : Res × Target × List (List Event) × Bool, r = acc.t.dispatch cfg now m → r.1 = .panic →
              r.2.2.2 = false := by
            intro r hr hpan
            unfold Target.dispatch at hr
            repeat' split at hr
            all_goals first
              | (rw [hr]; done)
              | (rw [hr] at hpan ⊢; simp only [singleArm] at hpan ⊢; repeat' split at hpan
                 all_goals first | (cases hpan; done) | (simp_all [Res.isErr]; done))
              | (rw [hr] at hpan; split at hpan <;> cases hpan)
          exact hr _ rfl hpk
        rw [this, Bool.or_false]
    · have hs : unitStep cfg now acc m =
          { acc with anyErr := acc.anyErr || (acc.t.dispatch cfg now m).1.isErr,
                     anyOk := acc.anyOk || (acc.t.dispatch cfg now m).2.2.2,
                     t := (acc.t.dispatch cfg now m).2.1,
                     evs := acc.evs ++ (acc.t.dispatch cfg now m).2.2.1 } := by
        simp [unitStep, hp, hpk]
      rw [hs]
      obtain ⟨i1, i2, i3⟩ := foldl_units cfg now ms
        { acc with anyErr := acc.anyErr || (acc.t.dispatch cfg now m).1.isErr,
                   anyOk := acc.anyOk || (acc.t.dispatch cfg now m).2.2.2,
                   t := (acc.t.dispatch cfg now m).2.1,
                   evs := acc.evs ++ (acc.t.dispatch cfg now m).2.2.1 }
        hp (fun x hx => hall x (List.mem_cons_of_mem _ hx))
      simp only [hpk, if_false]
      refine ⟨?_, i2.trans d2, ?_⟩
      · rw [i1, d1, Ctr.add_assoc]
      · rw [i3, d3, Bool.or_assoc]

/-! ## A whole notification -/

theorem unitOuts_single (cfg : Cfg) (now : Int) (t : Target) (m : Noti) :
    unitOuts cfg now t [m] = [unitOut cfg now t m] := by
  simp only [unitOuts]; split <;> rfl

/-- **Any notification.** `dispatch` moves the counters by the sum of the deltas of the outcomes
of its units, leaves the exported latest-timestamp alone, and (unless it panics) raises
`updateTS` exactly when one of its units is an accepted update. -/
theorem dispatch_ctr (cfg : Cfg) (now : Int) (t : Target) (n : Noti) :
    let r := t.dispatch cfg now n
    ctrOf r.2.1.md = ctrOf t.md + sumDelta (notiOuts cfg now t n) ∧
    r.2.1.md.latest = t.md.latest ∧
    (r.1 ≠ .panic → r.2.2.2 = (notiOuts cfg now t n).any UnitOut.isAccept) := by
  intro r
  cases hu : isUnit n with
  | true =>
    obtain ⟨d1, d2, d3⟩ := unit_delta cfg now t n hu
    have hn : notiOuts cfg now t n = [unitOut cfg now t n] := by
      unfold notiOuts unitNotis; rw [if_pos hu, unitOuts_single]
    rw [hn]
    refine ⟨?_, d2, fun _ => ?_⟩
    · rw [sumDelta_cons, sumDelta_nil, Ctr.add_zero]; exact d1
    · simp only [List.any_cons, List.any_nil, Bool.or_false]; exact d3
  | false =>
    have hr : r = t.dispatch cfg now n := rfl
    rw [dispatch_multi cfg now t n hu] at hr
    obtain ⟨f1, f2, f3⟩ := foldl_units cfg now (unitNotis n) { t := t } rfl (unitNotis_isUnit n)
    simp only at hr f1 f2 f3
    cases hp : ((unitNotis n).foldl (unitStep cfg now) { t := t }).panicked with
    | true =>
      simp only [hp, if_true] at hr
      rw [hr]
      exact ⟨f1, f2, fun h => absurd rfl h⟩
    | false =>
      simp only [hp, Bool.false_eq_true, if_false] at hr
      rw [hr]
      refine ⟨f1, f2, fun _ => ?_⟩
      simp only [f3, Bool.false_or]; rfl

theorem checkTimestamp_md (t : Target) (ts : Int) : (t.checkTimestamp ts).md = t.md := by
  unfold Target.checkTimestamp
  split
  · rfl
  · split <;> rfl

theorem gnmiUpdate_md (cfg : Cfg) (now : Int) (t : Target) (n : Noti) (ht : n.target ≠ "") :
    (t.gnmiUpdate cfg now n).2.1.md = (t.dispatch cfg now n).2.1.md := by
  obtain ⟨b, hb⟩ := tracksTimestamp?_isSome n ht
  unfold Target.gnmiUpdate
  rw [hb]
  simp only
  split
  · exact checkTimestamp_md _ _
  · rfl

/-- **`Target.GnmiUpdate` of any notification** addressed to a named target -/
theorem gnmiUpdate_ctr (cfg : Cfg) (now : Int) (t : Target) (n : Noti) (ht : n.target ≠ "") :
    ctrOf (t.gnmiUpdate cfg now n).2.1.md = ctrOf t.md + sumDelta (notiOuts cfg now t n) ∧
    (t.gnmiUpdate cfg now n).2.1.md.latest = t.md.latest := by
  rw [gnmiUpdate_md cfg now t n ht]
  obtain ⟨a, b, _⟩ := dispatch_ctr cfg now t n
  exact ⟨a, b⟩

/-! ## The metadata refresh (`updateMeta` / `generateMetaUpdates`) -/

/-- outcome of one direct call of `gnmiUpdate` (lower case), as `generateMetaUpdates` makes them:
the caller does not count it in `targetLeavesUpdated` (`k = 0`) -/
def updOut (k : Nat) (t : Target) (m : Noti) (r : Res × Target × Option Noti) : UnitOut :=
  match r.1, r.2.2 with
  | .ok, some _ => .accepted k (isFresh t m)
  | .ok, none => .suppressed
  | .stale, _ => .stale
  | .future, _ => .future
  | _, _ => .rejected

theorem updOut_delta (t : Target) (m : Noti) (r : Res × Target × Option Noti) :
    delta (updOut 0 t m r) = g1Delta r.1 r.2.2 (isFresh t m) := by
  obtain ⟨res, t', ev⟩ := r
  cases res <;> cases ev <;> simp only [updOut, g1Delta, delta] <;> cases isFresh t m <;> rfl

/-- the outcomes of one step of `generateMetaUpdates` (none when the value is excluded or the
stored leaf already shows it) -/
def genOneOuts (cfg : Cfg) (enc : String → String) (now : Int) (t : Target) (name : String) (v : Scalar)
    (isCur : Val → Bool) : List UnitOut :=
  if cfg.excluded.contains name then []
  else if metaIsCurrent t name isCur then []
  else [updOut 0 t (metaNoti enc t.name name v now)
          (Target.gnmiUpdate1 cfg now t (metaNoti enc t.name name v now))]

theorem genMetaOne_ctr (cfg : Cfg) (enc : String → String) (now : Int) (emit : Bool)
    (acc : Target × List Event) (name : String) (v : Scalar) (isCur : Val → Bool) :
    ctrOf (genMetaOne cfg enc now emit acc name v isCur).1.md =
      ctrOf acc.1.md + sumDelta (genOneOuts cfg enc now acc.1 name v isCur) ∧
    (genMetaOne cfg enc now emit acc name v isCur).1.md.latest = acc.1.md.latest := by
  unfold genMetaOne genOneOuts
  split
  · exact ⟨by rw [sumDelta_nil, Ctr.add_zero], rfl⟩
  · split
    · exact ⟨by rw [sumDelta_nil, Ctr.add_zero], rfl⟩
    · obtain ⟨g1, g2⟩ := gnmiUpdate1_ctr cfg now acc.1 (metaNoti enc acc.1.name name v now)
      simp only at g1 g2 ⊢
      rw [sumDelta_cons, sumDelta_nil, Ctr.add_zero, updOut_delta]
      split <;> exact ⟨g1, g2⟩

def curB (v : Bool) (sv : Val) : Bool := match sv with | .scalar (.bool b) => b == v | _ => false
def curI (v : Int) (sv : Val) : Bool := match sv with | .scalar (.int i) => i == v | _ => false
def curS (v : String) (sv : Val) : Bool := match sv with | .scalar (.str s) => s == v | _ => false

/-- one step of one of the three loops of `generateMetaUpdates` -/
def stepG {α : Type} (cfg : Cfg) (enc : String → String) (now : Int) (emit : Bool)
    (get : Meta → String → Option α) (mk : α → Scalar) (cur : α → Val → Bool)
    (acc : Target × List Event) (name : String) : Target × List Event :=
  match get acc.1.md name with
  | some v => genMetaOne cfg enc now emit acc name (mk v) (cur v)
  | none => acc

def outG {α : Type} (cfg : Cfg) (enc : String → String) (now : Int)
    (get : Meta → String → Option α) (mk : α → Scalar) (cur : α → Val → Bool)
    (t : Target) (name : String) : List UnitOut :=
  match get t.md name with
  | some v => genOneOuts cfg enc now t name (mk v) (cur v)
  | none => []

def traceG {α : Type} (cfg : Cfg) (enc : String → String) (now : Int) (emit : Bool)
    (get : Meta → String → Option α) (mk : α → Scalar) (cur : α → Val → Bool) :
    List String → Target × List Event → List UnitOut
  | [], _ => []
  | nm :: l, acc =>
    outG cfg enc now get mk cur acc.1 nm ++
      traceG cfg enc now emit get mk cur l (stepG cfg enc now emit get mk cur acc nm)

theorem generateMetaUpdates_eq (cfg : Cfg) (enc : String → String) (now : Int) (emit : Bool) (t : Target) :
    t.generateMetaUpdates cfg enc now emit =
      genServerName cfg enc now emit
        (strNames.foldl (stepG cfg enc now emit Meta.getStr Scalar.str curS)
          (intNames.foldl (stepG cfg enc now emit Meta.getInt Scalar.int curI)
            (boolNames.foldl (stepG cfg enc now emit Meta.getBool Scalar.bool curB) (t, [])))) := by
  unfold Target.generateMetaUpdates
  have hB : (fun (acc : Target × List Event) (name : String) =>
      match acc.1.md.getBool name with
      | some v => genMetaOne cfg enc now emit acc name (.bool v)
          (fun sv => match sv with | .scalar (.bool b) => b == v | _ => false)
      | none => acc) = stepG cfg enc now emit Meta.getBool Scalar.bool curB := by
    funext acc name; unfold stepG; cases acc.1.md.getBool name <;> rfl
  have hI : (fun (acc : Target × List Event) (name : String) =>
      match acc.1.md.getInt name with
      | some v => genMetaOne cfg enc now emit acc name (.int v)
          (fun sv => match sv with | .scalar (.int i) => i == v | _ => false)
      | none => acc) = stepG cfg enc now emit Meta.getInt Scalar.int curI := by
    funext acc name; unfold stepG; cases acc.1.md.getInt name <;> rfl
  have hS : (fun (acc : Target × List Event) (name : String) =>
      match acc.1.md.getStr name with
      | some v => genMetaOne cfg enc now emit acc name (.str v)
          (fun sv => match sv with | .scalar (.str s) => s == v | _ => false)
      | none => acc) = stepG cfg enc now emit Meta.getStr Scalar.str curS := by
    funext acc name; unfold stepG; cases acc.1.md.getStr name <;> rfl
  simp only
  rw [← hB, ← hI, ← hS]
  rfl

theorem stepG_ctr {α : Type} (cfg : Cfg) (enc : String → String) (now : Int) (emit : Bool)
    (get : Meta → String → Option α) (mk : α → Scalar) (cur : α → Val → Bool)
    (acc : Target × List Event) (name : String) :
    ctrOf (stepG cfg enc now emit get mk cur acc name).1.md =
      ctrOf acc.1.md + sumDelta (outG cfg enc now get mk cur acc.1 name) ∧
    (stepG cfg enc now emit get mk cur acc name).1.md.latest = acc.1.md.latest := by
  unfold stepG outG
  split
  · exact genMetaOne_ctr cfg enc now emit acc name _ _
  · exact ⟨by rw [sumDelta_nil, Ctr.add_zero], rfl⟩

theorem foldl_stepG_ctr {α : Type} (cfg : Cfg) (enc : String → String) (now : Int) (emit : Bool)
    (get : Meta → String → Option α) (mk : α → Scalar) (cur : α → Val → Bool) :
    ∀ (names : List String) (acc : Target × List Event),
    ctrOf (names.foldl (stepG cfg enc now emit get mk cur) acc).1.md =
      ctrOf acc.1.md + sumDelta (traceG cfg enc now emit get mk cur names acc) ∧
    (names.foldl (stepG cfg enc now emit get mk cur) acc).1.md.latest = acc.1.md.latest
  | [], acc => ⟨by simp only [List.foldl_nil, traceG, sumDelta_nil, Ctr.add_zero], rfl⟩
  | nm :: l, acc => by
    obtain ⟨s1, s2⟩ := stepG_ctr cfg enc now emit get mk cur acc nm
    obtain ⟨i1, i2⟩ := foldl_stepG_ctr cfg enc now emit get mk cur l (stepG cfg enc now emit get mk cur acc nm)
    simp only [List.foldl_cons, traceG, sumDelta_append]
    exact ⟨by rw [i1, s1, Ctr.add_assoc], i2.trans s2⟩

/-- the outcomes of the last step of `generateMetaUpdates`: the optional `serverName` string -/
def serverNameOuts (cfg : Cfg) (enc : String → String) (now : Int) (t : Target) : List UnitOut :=
  match t.serverName with
  | some v => genOneOuts cfg enc now t "serverName" (.str v) (curS v)
  | none => []

theorem genServerName_ctr (cfg : Cfg) (enc : String → String) (now : Int) (emit : Bool)
    (acc : Target × List Event) :
    ctrOf (genServerName cfg enc now emit acc).1.md =
      ctrOf acc.1.md + sumDelta (serverNameOuts cfg enc now acc.1) ∧
    (genServerName cfg enc now emit acc).1.md.latest = acc.1.md.latest := by
  unfold genServerName serverNameOuts
  split
  · rename_i v hv
    rw [hv]
    exact genMetaOne_ctr cfg enc now emit acc "serverName" (.str v) (curS v)
  · rename_i hv
    rw [hv]
    exact ⟨by rw [sumDelta_nil, Ctr.add_zero], rfl⟩

/-- **the unit outcomes of `generateMetaUpdates` on `t`**: the three loops and the `serverName`
step, in order -/
def genOuts (cfg : Cfg) (enc : String → String) (now : Int) (emit : Bool) (t : Target) : List UnitOut :=
  let a := boolNames.foldl (stepG cfg enc now emit Meta.getBool Scalar.bool curB) (t, [])
  let b := intNames.foldl (stepG cfg enc now emit Meta.getInt Scalar.int curI) a
  let c := strNames.foldl (stepG cfg enc now emit Meta.getStr Scalar.str curS) b
  traceG cfg enc now emit Meta.getBool Scalar.bool curB boolNames (t, []) ++
    (traceG cfg enc now emit Meta.getInt Scalar.int curI intNames a ++
      (traceG cfg enc now emit Meta.getStr Scalar.str curS strNames b ++
        serverNameOuts cfg enc now c.1))

/-- the value `updateMeta` exports as `latestTimestamp`: `Target.ts` in Unix nanoseconds (what Go
computes for the zero `time.Time` while nothing was accepted) -/
def exportedLatest (t : Target) : Int :=
  match t.latest with
  | some x => x
  | none => zeroUnixNano

/-- **the unit outcomes of `Target.updateMeta` on `t`** -/
def refreshOuts (cfg : Cfg) (enc : String → String) (now : Int) (emit : Bool) (t : Target) : List UnitOut :=
  genOuts cfg enc now emit { t with md := { t.md with latest := exportedLatest t } }

theorem generateMetaUpdates_ctr (cfg : Cfg) (enc : String → String) (now : Int) (emit : Bool) (t : Target) :
    ctrOf (t.generateMetaUpdates cfg enc now emit).1.md = ctrOf t.md + sumDelta (genOuts cfg enc now emit t) ∧
    (t.generateMetaUpdates cfg enc now emit).1.md.latest = t.md.latest := by
  rw [generateMetaUpdates_eq]
  unfold genOuts
  obtain ⟨a1, a2⟩ := foldl_stepG_ctr cfg enc now emit Meta.getBool Scalar.bool curB boolNames (t, [])
  obtain ⟨b1, b2⟩ := foldl_stepG_ctr cfg enc now emit Meta.getInt Scalar.int curI intNames
    (boolNames.foldl (stepG cfg enc now emit Meta.getBool Scalar.bool curB) (t, []))
  obtain ⟨c1, c2⟩ := foldl_stepG_ctr cfg enc now emit Meta.getStr Scalar.str curS strNames
    (intNames.foldl (stepG cfg enc now emit Meta.getInt Scalar.int curI)
      (boolNames.foldl (stepG cfg enc now emit Meta.getBool Scalar.bool curB) (t, [])))
  obtain ⟨d1, d2⟩ := genServerName_ctr cfg enc now emit
    (strNames.foldl (stepG cfg enc now emit Meta.getStr Scalar.str curS)
      (intNames.foldl (stepG cfg enc now emit Meta.getInt Scalar.int curI)
        (boolNames.foldl (stepG cfg enc now emit Meta.getBool Scalar.bool curB) (t, []))))
  simp only [sumDelta_append]
  exact ⟨by rw [d1, c1, b1, a1, Ctr.add_assoc, Ctr.add_assoc, Ctr.add_assoc],
    ((d2.trans c2).trans b2).trans a2⟩

/-- **The metadata refresh** moves the counters by the sum of the deltas of its own writes
(a metadata leaf that is stale or whose write fails is counted like any other update), and
exports `Target.ts` as `latestTimestamp`. -/
theorem updateMeta_ctr (cfg : Cfg) (enc : String → String) (now : Int) (emit : Bool) (t : Target) :
    ctrOf (t.updateMeta cfg enc now emit).1.md = ctrOf t.md + sumDelta (refreshOuts cfg enc now emit t) ∧
    (t.updateMeta cfg enc now emit).1.md.latest = exportedLatest t := by
  obtain ⟨a, b⟩ := generateMetaUpdates_ctr cfg enc now emit
    { t with md := { t.md with latest := exportedLatest t } }
  exact ⟨a, b⟩

/-! ## `Cache.UpdateMetadata` refreshes every registered target once -/

theorem get_none_of_not_mem (s : State) (name : String) (h : name ∉ s.targets.map (·.1)) :
    s.get name = none := by
  unfold State.get
  rw [Option.map_eq_none_iff, List.find?_eq_none]
  intro kv hkv hk
  exact h (List.mem_map.2 ⟨kv, hkv, by simpa using hk⟩)

theorem mem_names_of_get {s : State} {name : String} {t : Target} (h : s.get name = some t) :
    name ∈ s.targets.map (·.1) := by
  unfold State.get at h
  simp only [Option.map_eq_some_iff] at h
  obtain ⟨kv, hf, _⟩ := h
  exact List.mem_map.2 ⟨kv, List.mem_of_find?_eq_some hf, by simpa using List.find?_some hf⟩

theorem updateMetadata_get (enc : String → String) (now : Int) (s : State) (hn : NamesUnique s)
    (name : String) :
    (s.updateMetadata enc now).1.get name =
      (s.get name).map (fun t => (t.updateMeta s.cfg enc now true).1) := by
  unfold State.updateMetadata
  have key : ∀ (l : List (String × Target)) (acc : State × List Event), (l.map (·.1)).Nodup →
      (l.foldl (fun acc kv =>
        match acc.1.get kv.1 with
        | none => acc
        | some t =>
          let r := t.updateMeta s.cfg enc now true
          (acc.1.set kv.1 r.1, acc.2 ++ r.2)) acc).1.get name =
      if name ∈ l.map (·.1) then (acc.1.get name).map (fun t => (t.updateMeta s.cfg enc now true).1)
      else acc.1.get name := by
    intro l
    induction l with
    | nil => intro acc _; simp
    | cons kv l ih =>
      intro acc hnd
      simp only [List.map_cons, List.nodup_cons] at hnd
      simp only [List.foldl_cons]
      rw [ih _ hnd.2]
      by_cases hk : name = kv.1
      · subst hk
        simp only [hnd.1, if_false, List.map_cons, List.mem_cons, true_or, if_true]
        split
        · rename_i hg; rw [hg]; rfl
        · rename_i t hg; rw [hg]; simp only [get_set_same, Option.map_some]
      · have hne : name ≠ kv.1 := hk
        have hget : ∀ (acc' : State × List Event),
            acc' = (match acc.1.get kv.1 with
              | none => acc
              | some t =>
                let r := t.updateMeta s.cfg enc now true
                (acc.1.set kv.1 r.1, acc.2 ++ r.2)) → acc'.1.get name = acc.1.get name := by
          intro acc' h
          split at h
          · rw [h]
          · rw [h]; exact get_set_other _ _ _ _ hne
        rw [hget _ rfl]
        simp only [List.map_cons, List.mem_cons, hk, false_or]
  refine (key s.targets (s, []) hn).trans ?_
  split
  · rfl
  · rename_i h
    rw [get_none_of_not_mem s name h]; rfl

/-! ## The stored `meta/latestTimestamp` leaf after a refresh -/

def latestKey : Path := [metaRoot, "latestTimestamp"]

/-- the value the leaf stored at `p` shows (`metaLeafValue`) -/
def leafVal (t : Target) (p : Path) : Option Val :=
  (lookup t.tree p).bind (fun n => n.upd.head?.map (·.val))

theorem conflicts_false_iff (m : PMap Noti) (p : Path) :
    PMap.conflicts m p = false ↔
      ∀ kv ∈ m, ((kv.1.isPrefixOf p || p.isPrefixOf kv.1) && kv.1 != p) = false := by
  unfold PMap.conflicts
  rw [List.any_eq_false]
  constructor
  · intro h kv hkv; simpa using h kv hkv
  · intro h kv hkv; simpa using h kv hkv

theorem conflicts_setLeaf (m : PMap Noti) (p K : Path) (n : Noti) (h : PMap.conflicts m K = false) :
    PMap.conflicts (setLeaf m p n) K = false := by
  rw [conflicts_false_iff] at h ⊢
  intro kv hkv
  rcases mem_setLeaf.1 hkv with ⟨h1, _, old, ho⟩ | ⟨h1, _⟩
  · have := h (p, old) ho
    rw [h1]; exact this
  · exact h kv h1

/-- a `gnmiUpdate1` whose key is unrelated to `K` leaves the leaf at `K` and the absence of
conflicts with `K` alone -/
theorem gnmiUpdate1_other_key {a b : Int} (cfg : Cfg) (now : Int) (t : Target) (n : Noti) (u : Upd)
    (us : List Upd) (hu : n.upd = u :: us) (ht : n.target ≠ "") (hi : TInvD a b t) (K : Path)
    (hk : updKey n u ≠ K)
    (hpre : ((updKey n u).isPrefixOf K || K.isPrefixOf (updKey n u)) = false) :
    lookup (Target.gnmiUpdate1 cfg now t n).2.1.tree K = lookup t.tree K ∧
    (PMap.conflicts t.tree K = false → PMap.conflicts (Target.gnmiUpdate1 cfg now t n).2.1.tree K = false) := by
  have he := gnmiUpdate1_effect cfg now t n u us hu ht
  generalize Target.gnmiUpdate1 cfg now t n = r at he
  cases he with
  | rejected r t' _ h1 _ _ _ =>
    show lookup t'.tree K = _ ∧ (_ → PMap.conflicts t'.tree K = false)
    rw [h1]; exact ⟨rfl, id⟩
  | replaced t' old _ _ _ h1 _ _ _ =>
    simp only [h1]
    exact ⟨lookup_setLeaf_other hi.unique (fun e => hk e.symm), conflicts_setLeaf _ _ _ _⟩
  | suppressed t' old _ _ _ _ _ h1 _ _ _ =>
    simp only [h1]
    exact ⟨lookup_setLeaf_other hi.unique (fun e => hk e.symm), conflicts_setLeaf _ _ _ _⟩
  | added t' _ _ ha _ _ _ _ _ =>
    simp only
    refine ⟨lookup_add_other ha (fun e => hk e.symm), ?_⟩
    intro hc
    rw [add_eq_some ha]
    rw [conflicts_false_iff] at hc ⊢
    intro kv hkv
    rcases List.mem_cons.1 hkv with rfl | h
    · simp only [hpre, Bool.false_and]
    · exact hc kv (List.mem_filter.1 h).1
  | panicOld t' old hl ho => exact absurd ho (hi.hasUpd _ (mem_of_lookup_some hl))

/-- an update newer than the stored leaf (or to a free key), not in the future, is stored -/
theorem updateCore_stores (cfg : Cfg) (now : Int) (t : Target) (rd : Bool) (path : Path) (n : Noti) (u : Upd)
    (hu : UniqueKeys t.tree) (hupd : ∀ kv ∈ t.tree, kv.2.upd ≠ [])
    (hts : ∀ old, lookup t.tree path = some old → old.ts < n.ts) (hnow : n.ts ≤ now)
    (hc : PMap.conflicts t.tree path = false) :
    lookup (updateCore cfg now t rd path n u).2.1.tree path = some n := by
  unfold updateCore
  cases hl : lookup t.tree path with
  | some old =>
    have ho := hts old hl
    have hv : verdict cfg now t.latest old n = .accept := by
      unfold verdict
      rw [if_neg (by omega), if_neg (by omega), if_neg (by omega)]
    simp only [hv]
    have hset := lookup_setLeaf_same (n := n) hu hl
    split
    · exact hset
    · split
      · rename_i h; exact absurd h (hupd _ (mem_of_lookup_some hl))
      · split <;> exact hset
  | none =>
    simp only
    have : PMap.add t.tree path n = some ((path, n) :: t.tree.filter (fun kv => kv.1 != path)) := by
      unfold PMap.add; rw [hc]; rfl
    rw [this]
    simp only
    split <;> exact lookup_add_same this

theorem gnmiUpdate1_latestNoti (cfg : Cfg) (enc : String → String) (now : Int) (t : Target) (L : Int)
    (hn : t.name ≠ "") :
    Target.gnmiUpdate1 cfg now t (metaNoti enc t.name "latestTimestamp" (.int L) now) =
      updateCore cfg now t false latestKey (metaNoti enc t.name "latestTimestamp" (.int L) now)
        { origin := "", path := [metaRoot, "latestTimestamp"], val := .scalar (.int L),
          raw := rawMetaUpdate "latestTimestamp" (rawScalar enc (.int L)) enc } := by
  unfold Target.gnmiUpdate1
  simp [metaNoti, updKey?, joinKey?, hn, metaPre, metaSideEffect, metaRoot, latestKey]

/-- what the loops of `generateMetaUpdates` keep before they reach `latestTimestamp` -/
structure PreL (a b now L : Int) (x : Target) : Prop where
  inv : TInvD a b x
  name : x.name ≠ ""
  mdl : x.md.latest = L
  free : PMap.conflicts x.tree latestKey = false
  fresh : ∀ old, lookup x.tree latestKey = some old → old.ts < now

/-- … and after -/
structure PostL (a b L : Int) (x : Target) : Prop where
  inv : TInvD a b x
  name : x.name ≠ ""
  shows : leafVal x latestKey = some (.scalar (.int L))

theorem genMetaOne_other {a b : Int} (cfg : Cfg) (enc : String → String) (now : Int) (emit : Bool)
    (acc : Target × List Event) (name : String) (v : Scalar) (isCur : Val → Bool)
    (hi : TInvD a b acc.1) (hn : acc.1.name ≠ "") (hne : name ≠ "latestTimestamp") :
    TInvD a b (genMetaOne cfg enc now emit acc name v isCur).1 ∧
    (genMetaOne cfg enc now emit acc name v isCur).1.name = acc.1.name ∧
    (genMetaOne cfg enc now emit acc name v isCur).1.md.latest = acc.1.md.latest ∧
    lookup (genMetaOne cfg enc now emit acc name v isCur).1.tree latestKey = lookup acc.1.tree latestKey ∧
    (PMap.conflicts acc.1.tree latestKey = false →
      PMap.conflicts (genMetaOne cfg enc now emit acc name v isCur).1.tree latestKey = false) := by
  have hms := genMetaOne_ok cfg enc now emit acc name v isCur hi hn
  have hl := (genMetaOne_ctr cfg enc now emit acc name v isCur).2
  refine ⟨hms.inv, hms.name, hl, ?_⟩
  unfold genMetaOne
  split
  · exact ⟨rfl, id⟩
  · split
    · exact ⟨rfl, id⟩
    · have hu : (metaNoti enc acc.1.name name v now).upd =
          [{ origin := "", path := [metaRoot, name], val := .scalar v,
             raw := rawMetaUpdate name (rawScalar enc v) enc }] := rfl
      have hk : updKey (metaNoti enc acc.1.name name v now)
          { origin := "", path := [metaRoot, name], val := .scalar v,
            raw := rawMetaUpdate name (rawScalar enc v) enc } = [metaRoot, name] := by
        simp [updKey, joinKey, metaNoti]
      have hne' : ¬ "latestTimestamp" = name := fun e => hne e.symm
      have := gnmiUpdate1_other_key cfg now acc.1 (metaNoti enc acc.1.name name v now) _ [] hu hn hi latestKey
        (by rw [hk]; simp [latestKey, hne])
        (by rw [hk]; simp [latestKey, hne, hne', List.isPrefixOf])
      simp only
      split <;> exact this

theorem stepG_other_pre {α : Type} {a b now' L : Int} (cfg : Cfg) (enc : String → String) (now : Int) (emit : Bool)
    (get : Meta → String → Option α) (mk : α → Scalar) (cur : α → Val → Bool)
    (acc : Target × List Event) (name : String) (hne : name ≠ "latestTimestamp")
    (hp : PreL a b now' L acc.1) : PreL a b now' L (stepG cfg enc now emit get mk cur acc name).1 := by
  unfold stepG
  split
  · obtain ⟨g1, g2, g3, g4, g5⟩ := genMetaOne_other cfg enc now emit acc name _ _ hp.inv hp.name hne
    exact ⟨g1, by rw [g2]; exact hp.name, g3.trans hp.mdl, g5 hp.free, by rw [g4]; exact hp.fresh⟩
  · exact hp

theorem stepG_other_post {α : Type} {a b L : Int} (cfg : Cfg) (enc : String → String) (now : Int) (emit : Bool)
    (get : Meta → String → Option α) (mk : α → Scalar) (cur : α → Val → Bool)
    (acc : Target × List Event) (name : String) (hne : name ≠ "latestTimestamp")
    (hp : PostL a b L acc.1) : PostL a b L (stepG cfg enc now emit get mk cur acc name).1 := by
  unfold stepG
  split
  · obtain ⟨g1, g2, _, g4, _⟩ := genMetaOne_other cfg enc now emit acc name _ _ hp.inv hp.name hne
    exact ⟨g1, by rw [g2]; exact hp.name, by unfold leafVal; rw [g4]; exact hp.shows⟩
  · exact hp

theorem foldl_stepG_inv {α : Type} (P : Target → Prop) (cfg : Cfg) (enc : String → String) (now : Int) (emit : Bool)
    (get : Meta → String → Option α) (mk : α → Scalar) (cur : α → Val → Bool) :
    ∀ (names : List String),
    (∀ acc name, name ∈ names → P acc.1 → P (stepG cfg enc now emit get mk cur acc name).1) →
    ∀ acc : Target × List Event, P acc.1 → P (names.foldl (stepG cfg enc now emit get mk cur) acc).1
  | [], _, _, h => h
  | nm :: l, hstep, acc, h =>
    foldl_stepG_inv P cfg enc now emit get mk cur l
      (fun acc' name hm => hstep acc' name (List.mem_cons_of_mem _ hm)) _
      (hstep acc nm (List.mem_cons_self ..) h)

theorem stepG_latest {a b L : Int} (cfg : Cfg) (enc : String → String) (now : Int) (emit : Bool)
    (acc : Target × List Event) (hx : cfg.excluded.contains "latestTimestamp" = false)
    (hp : PreL a b now L acc.1) :
    PostL a b L (stepG cfg enc now emit Meta.getInt Scalar.int curI acc "latestTimestamp").1 := by
  have hget : acc.1.md.getInt "latestTimestamp" = some L := by
    simp [Meta.getInt, hp.mdl]
  unfold stepG
  rw [hget]
  simp only
  unfold genMetaOne
  rw [if_neg (by rw [hx]; exact Bool.false_ne_true)]
  split
  · rename_i hcur
    refine ⟨hp.inv, hp.name, ?_⟩
    unfold metaIsCurrent at hcur
    show (lookup acc.1.tree [metaRoot, "latestTimestamp"]).bind (fun n => n.upd.head?.map (·.val)) = _
    cases hv : (lookup acc.1.tree [metaRoot, "latestTimestamp"]).bind (fun n => n.upd.head?.map (·.val)) with
    | none => rw [hv] at hcur; simp at hcur
    | some sv =>
      rw [hv] at hcur
      simp only [curI] at hcur
      split at hcur
      · rename_i i
        have : i = L := by simpa using hcur
        rw [this]
      · cases hcur
  · have hc := gnmiUpdate1_consequences cfg now acc.1 (metaNoti enc acc.1.name "latestTimestamp" (.int L) now)
      hp.inv (by simp [metaNoti]) hp.name
    simp only at hc
    obtain ⟨_, c2, _, _, c5⟩ := hc
    have hst := updateCore_stores cfg now acc.1 false latestKey
      (metaNoti enc acc.1.name "latestTimestamp" (.int L) now)
      { origin := "", path := [metaRoot, "latestTimestamp"], val := .scalar (.int L),
        raw := rawMetaUpdate "latestTimestamp" (rawScalar enc (.int L)) enc }
      hp.inv.unique hp.inv.hasUpd hp.fresh (Int.le_refl _) hp.free
    rw [← gnmiUpdate1_latestNoti cfg enc now acc.1 L hp.name] at hst
    have res : PostL a b L
        (Target.gnmiUpdate1 cfg now acc.1 (metaNoti enc acc.1.name "latestTimestamp" (.int L) now)).2.1 :=
      ⟨c2, by rw [c5]; exact hp.name, by unfold leafVal; rw [hst]; rfl⟩
    simp only
    split <;> exact res

theorem intNames_split : intNames =
    ["targetLeavesAdded", "targetLeavesDeleted", "targetLeavesEmpty", "targetLeaves",
     "targetLeavesUpdated", "targetLeavesStale", "targetLeavesFuture", "targetLeavesSuppressed",
     "targetSize"] ++ ["latestTimestamp"] := rfl

/-- **After `generateMetaUpdates`** on a target whose metadata object says `latestTimestamp = L`:
unless the value is excluded, a longer path is stored below `meta/latestTimestamp`, or the stored
leaf is not older than `now`, the stored `meta/latestTimestamp` leaf shows `L`. -/
theorem generateMetaUpdates_leaf {a b : Int} (cfg : Cfg) (enc : String → String) (now : Int) (emit : Bool)
    (t : Target) (L : Int) (hx : cfg.excluded.contains "latestTimestamp" = false)
    (hp : PreL a b now L t) :
    leafVal (t.generateMetaUpdates cfg enc now emit).1 latestKey = some (.scalar (.int L)) := by
  rw [generateMetaUpdates_eq, intNames_split, List.foldl_append]
  have h1 := foldl_stepG_inv (PreL a b now L) cfg enc now emit Meta.getBool Scalar.bool curB boolNames
    (fun acc name hm h => stepG_other_pre cfg enc now emit _ _ _ acc name
      (by revert name; decide) h) (t, []) hp
  have h2 := foldl_stepG_inv (PreL a b now L) cfg enc now emit Meta.getInt Scalar.int curI
    ["targetLeavesAdded", "targetLeavesDeleted", "targetLeavesEmpty", "targetLeaves",
     "targetLeavesUpdated", "targetLeavesStale", "targetLeavesFuture", "targetLeavesSuppressed",
     "targetSize"]
    (fun acc name hm h => stepG_other_pre cfg enc now emit _ _ _ acc name
      (by revert name; decide) h) _ h1
  have h3 := stepG_latest cfg enc now emit _ hx h2
  have h4 := foldl_stepG_inv (PostL a b L) cfg enc now emit Meta.getStr Scalar.str curS strNames
    (fun acc name hm h => stepG_other_post cfg enc now emit _ _ _ acc name
      (by revert name; decide) h) _ h3
  have h5 : PostL a b L (genServerName cfg enc now emit
      (strNames.foldl (stepG cfg enc now emit Meta.getStr Scalar.str curS)
        (stepG cfg enc now emit Meta.getInt Scalar.int curI
          (List.foldl (stepG cfg enc now emit Meta.getInt Scalar.int curI)
            (boolNames.foldl (stepG cfg enc now emit Meta.getBool Scalar.bool curB) (t, []))
            ["targetLeavesAdded", "targetLeavesDeleted", "targetLeavesEmpty", "targetLeaves",
             "targetLeavesUpdated", "targetLeavesStale", "targetLeavesFuture", "targetLeavesSuppressed",
             "targetSize"]) "latestTimestamp"))).1 := by
    unfold genServerName
    split
    · obtain ⟨g1, g2, _, g4, _⟩ := genMetaOne_other cfg enc now emit _ "serverName" _ _ h4.inv h4.name (by decide)
      exact ⟨g1, by rw [g2]; exact h4.name, by unfold leafVal; rw [g4]; exact h4.shows⟩
    · exact h4
  exact h5.shows

end Acc
end Gnmi
