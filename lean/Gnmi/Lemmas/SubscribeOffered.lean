import Gnmi.Lemmas.SubscribeSyncSeq
/-!
# Events offered since registration are accounted for (sequential Subscribe model)

The ghost machinery behind `Props/C04UpdatesOnly.lean`: the trace ("event") form of
`no_missed_change` over `Model/Subscribe.lean`, for a STREAM subscriber with either value of
`updates_only`.

* `atKey κ r`: the response is an update stored at index `κ` ("a response for that leaf").
* `JS t k V s` — the ghost invariant that is *established* by any event that decides the key
  `t :: k` (an update of that leaf, an atomic update above it, a delete covering it: `decidesEv`)
  and then *kept* by everything the model does to a subscriber: a response for the leaf is among
  what the subscriber was sent, the response held in a gated `Send`, or what its queue stands for
  (`SubGate.pend`) — or the views (the cache) hold nothing at the key.
  - `qstep_J`/`qfold_J`: one event / all events of one cache operation on the queue (coalescing
    replaces a queued handle by one for the same leaf; freezing keeps the response; an offered
    update of the leaf is appended or coalesced);
  - `refresh_J`: `refreshQueue` re-reads a handle into a notification stored at the same index;
  - `pend_pumpAll`, `pend_gateF`, `pend_stepF`: the sender and flow control move responses between
    queue, `blocked` and `out` but (while the RPC is alive) never change `pend`;
  - `feedSub_JS`: one cache operation.
* `norm r`: a request with the same target and the same registration queries as `r` whose paths
  `CompletePath` accepts.  `uinv_init_any`: the shadow invariant `SubSync.UInv` of a fresh
  `updates_only` subscriber **without** the hypothesis that `CompletePath` accepts its paths
  (`SubSync.uinv_init` needs it): the snapshot the shadow carries is the one of `norm r`; `GInv`
  only reads the request's target and registration queries (`ginv_setReq`).
* `uinv_plain`: a subscriber that asked for the snapshot is its own shadow.
-/
namespace Gnmi
namespace SubOff
open Cache Gnmi.Sub Feed SubStream SubGate SubSync

/-! ## a response for the leaf at `κ` -/

/-- the response is an update stored at index `κ` -/
def atKey (κ : Path) : Resp → Bool
  | .upd n _ => respKey n == κ
  | _ => false

theorem atKey_elim {κ : Path} {r : Resp} (h : atKey κ r = true) : ∃ n d, r = .upd n d ∧ respKey n = κ := by
  cases r with
  | upd n d => exact ⟨n, d, rfl, by simpa [atKey] using h⟩
  | del t o p ts d => cases h
  | sync => cases h

theorem atKey_decides {κ : Path} {r : Resp} (h : atKey κ r = true) : decides κ r = true := by
  obtain ⟨n, d, rfl, hk⟩ := atKey_elim h
  simp [decides, hk]

/-- a response for a leaf of a target the ACL allows passes the per-response ACL check -/
theorem atKey_not_denied {a : Acl} {t : String} {k : Path} {r : Resp} (h : atKey (t :: k) r = true)
    (ha : a.check t = true) : denied a r = false := by
  obtain ⟨n, d, rfl, hk⟩ := atKey_elim h
  rw [respKey_eq] at hk
  injection hk with h1 _
  simp [denied, respTarget, h1, ha]

/-- the event decides what is held at `κ`: an update of that leaf, an atomic update above it, a
delete covering it (as `SubSync.decides` of the response the event is sent as) -/
def decidesEv (κ : Path) (e : Event) : Bool := decides κ (toResp (Item.note e, 0))

/-- the event is an update of the leaf at `κ` -/
def updAt (κ : Path) : Event → Bool
  | .upd n => respKey n == κ
  | .del .. => false

/-! ## the queue during one cache operation -/

/-- `P` (a response for the leaf was already dequeued), or a queued item stands for a response for
the leaf, or — in the weak form `w` only — the views hold nothing at the leaf -/
def JQ (P : Prop) (w : Prop) (V : Views) (t : String) (k : Path) (Q : List (Item × Nat)) : Prop :=
  P ∨ (∃ y ∈ Q, atKey (t :: k) (toResp y) = true) ∨ (w ∧ lookup (V t) k = none)

/-- an offered update ends up in the queue: appended, or coalesced into the pending handle of its leaf -/
theorem upd_inserted {cfg : Cfg} {T : String} {regs : List Path} {W0 : PMap Noti} {V : Views}
    {Q : List (Item × Nat)} {n : Noti} (h : QInv cfg T regs W0 V Q) (hoff : offeredR regs (.upd n) = true) :
    ∃ y ∈ qstep regs Q (.upd n), atKey (respKey n) (toResp y) = true := by
  unfold qstep
  rw [freezeCovered_upd, if_pos hoff]
  simp only
  rw [eventKey_eq, insertHandle_eq _ _ _ _ (noHandleBeforeCover_of_pw h.pw _ _)]
  by_cases hany : Q.any (fun x => isHandleFor n.target (evKey n) x.1) = true
  · rw [if_pos hany]
    obtain ⟨x0, hx0, hh0⟩ := List.any_eq_true.1 hany
    refine ⟨_, List.mem_map.2 ⟨x0, hx0, rfl⟩, ?_⟩
    rw [if_pos hh0]
    simp [toResp, atKey]
  · rw [if_neg hany]
    refine ⟨(Item.handle n.target (evKey n) n, 0), List.mem_append_right _ (List.mem_singleton.2 rfl), ?_⟩
    simp [toResp, atKey]

/-- coalescing keeps the leaf: a queued response for `κ` is still one after an update event -/
theorem upd_keeps {cfg : Cfg} {T : String} {regs : List Path} {W0 : PMap Noti} {V : Views}
    {Q : List (Item × Nat)} {n : Noti} {κ : Path} (h : QInv cfg T regs W0 V Q)
    {y : Item × Nat} (hy : y ∈ Q) (hat : atKey κ (toResp y) = true) :
    ∃ y' ∈ qstep regs Q (.upd n), atKey κ (toResp y') = true := by
  unfold qstep
  rw [freezeCovered_upd]
  by_cases hoff : offeredR regs (.upd n) = true
  · rw [if_pos hoff]
    simp only
    rw [eventKey_eq, insertHandle_eq _ _ _ _ (noHandleBeforeCover_of_pw h.pw _ _)]
    by_cases hany : Q.any (fun x => isHandleFor n.target (evKey n) x.1) = true
    · rw [if_pos hany]
      refine ⟨_, List.mem_map.2 ⟨y, hy, rfl⟩, ?_⟩
      by_cases hh : isHandleFor n.target (evKey n) y.1 = true
      · rw [if_pos hh]
        obtain ⟨m, hm⟩ := isHandleFor_elim hh
        have hi := h.items y hy
        obtain ⟨it, d⟩ := y
        simp only at hm
        subst hm
        have hk : respKey m = κ := by simpa [toResp, atKey] using hat
        have : respKey n = κ := by rw [← hk, respKey_eq, respKey_eq, hi.1, hi.2.1]
        simp [toResp, atKey, this]
      · rw [if_neg hh]
        exact hat
    · rw [if_neg hany]
      exact ⟨y, List.mem_append_left _ hy, hat⟩
  · rw [if_neg hoff]
    exact ⟨y, hy, hat⟩

/-- freezing keeps the response -/
theorem del_keeps {regs : List Path} {Q : List (Item × Nat)} (te o : String) (p : Path) (ts : Int) {κ : Path}
    {y : Item × Nat} (hy : y ∈ Q) (hat : atKey κ (toResp y) = true) :
    ∃ y' ∈ qstep regs Q (.del te o p ts), atKey κ (toResp y') = true := by
  have hmem : frz (.del te o p ts) y ∈ freezeCovered (.del te o p ts) Q := by
    rw [freezeCovered_eq]
    exact List.mem_map.2 ⟨y, hy, rfl⟩
  have hat' : atKey κ (toResp (frz (.del te o p ts) y)) = true := by rw [toResp_frz]; exact hat
  unfold qstep
  split
  · exact ⟨_, List.mem_append_left _ hmem, hat'⟩
  · exact ⟨_, hmem, hat'⟩

/-- **one event**: the invariant is kept, and an event that decides the key establishes it -/
theorem qstep_J {cfg : Cfg} {T : String} {regs : List Path} {W0 : PMap Noti} {V : Views}
    {Q : List (Item × Nat)} {e : Event} {P w : Prop} {t : String} {k : Path}
    (hg : GoodEv V e) (h : QInv cfg T regs W0 V Q)
    (hm : regs.any (fun q => qmatches q (t :: k)) = true)
    (hj : JQ P w V t k Q ∨ (decidesEv (t :: k) e = true ∧ (w ∨ updAt (t :: k) e = true))) :
    JQ P w (applyS V e) t k (qstep regs Q e) := by
  cases e with
  | upd n =>
    have key : respKey n = t :: k → JQ P w (applyS V (.upd n)) t k (qstep regs Q (.upd n)) := by
      intro hk
      have hoff : offeredR regs (.upd n) = true := matched_offered hg.2.2.1 (by rw [hk]; exact hm)
      obtain ⟨y, hy, hat⟩ := upd_inserted h hoff
      exact Or.inr (Or.inl ⟨y, hy, by rw [← hk]; exact hat⟩)
    have other : respKey n ≠ t :: k → w → lookup (V t) k = none →
        JQ P w (applyS V (.upd n)) t k (qstep regs Q (.upd n)) := by
      intro hk hw hn
      refine Or.inr (Or.inr ⟨hw, ?_⟩)
      rw [lookup_applyS_upd hg, if_neg]
      · exact hn
      · rintro ⟨h1, h2⟩
        exact hk (by rw [respKey_eq, h1, h2])
    rcases hj with (hp | ⟨y, hy, hat⟩ | ⟨hw, hn⟩) | ⟨hd, hwu⟩
    · exact Or.inl hp
    · exact Or.inr (Or.inl (upd_keeps h hy hat))
    · by_cases hk : respKey n = t :: k
      · exact key hk
      · exact other hk hw hn
    · by_cases hk : respKey n = t :: k
      · exact key hk
      · have hw : w := by
          rcases hwu with hw | hu
          · exact hw
          · exact absurd (by simpa [updAt] using hu) hk
        apply other hk hw
        have hd' : decides (t :: k) (Resp.upd n 0) = true := hd
        simp only [decides, Bool.or_eq_true, beq_iff_eq, Bool.and_eq_true] at hd'
        rcases hd' with hd' | ⟨_, hp⟩
        · exact absurd hd' hk
        · exact good_ext_none hg (List.isPrefixOf_iff_prefix.1 hp) (fun e => hk e.symm)
  | del te o p ts =>
    have hte : te ≠ glob := hg
    have hV' := lookup_applyS_del V te o p ts t k
    rcases hj with (hp | ⟨y, hy, hat⟩ | ⟨hw, hn⟩) | ⟨hd, hwu⟩
    · exact Or.inl hp
    · exact Or.inr (Or.inl (del_keeps te o p ts hy hat))
    · refine Or.inr (Or.inr ⟨hw, ?_⟩)
      rw [hV']
      by_cases hcnd : t = te ∧ qmatches ((if o = "" then [] else [o]) ++ p) k = true
      · rw [if_pos hcnd]
      · rw [if_neg hcnd]; exact hn
    · have hw : w := by
        rcases hwu with hw | hu
        · exact hw
        · cases hu
      refine Or.inr (Or.inr ⟨hw, ?_⟩)
      have hd' : qmatches (subIndex te o p) (t :: k) = true := hd
      rw [subIndex_eq, qmatches_target hte] at hd'
      simp only [Bool.and_eq_true, decide_eq_true_eq] at hd'
      rw [hV', if_pos ⟨hd'.1.symm, hd'.2⟩]

/-- **all events of one cache operation** -/
theorem qfold_J {cfg : Cfg} {T : String} {regs : List Path} {W0 : PMap Noti} {P w : Prop} {t : String} {k : Path}
    (hr : RegsOK T regs) (hm : regs.any (fun q => qmatches q (t :: k)) = true) :
    ∀ (evs : List Event) (V : Views) (Q : List (Item × Nat)), VOK V → GoodTr V evs → QInv cfg T regs W0 V Q →
      (JQ P w V t k Q ∨ ∃ e ∈ evs, decidesEv (t :: k) e = true ∧ (w ∨ updAt (t :: k) e = true)) →
      JQ P w (applySs V evs) t k (evs.foldl (qstep regs) Q)
  | [], _, _, _, _, _, hj => by
    rcases hj with hj | ⟨e, he, _⟩
    · exact hj
    · cases he
  | e :: evs, V, Q, hV, hg, h, hj => by
    have hq' := qstep_inv hV hg.1 hr h
    have hV' := hV.step hg.1
    show JQ P w (applySs (applyS V e) evs) t k (evs.foldl (qstep regs) (qstep regs Q e))
    apply qfold_J hr hm evs (applyS V e) (qstep regs Q e) hV' hg.2 hq'
    rcases hj with hj | ⟨e', he', hd⟩
    · exact Or.inl (qstep_J hg.1 h hm (Or.inl hj))
    · rcases List.mem_cons.1 he' with rfl | he''
      · exact Or.inl (qstep_J hg.1 h hm (Or.inr hd))
      · exact Or.inr ⟨e', he'', hd⟩

theorem rf_handle (c' : Cache.State) (t : String) (k : Path) (m : Noti) (d : Nat) :
    rf c' (Item.handle t k m, d) = (Item.handle t k m, d) ∨
    ∃ m', lookup (treesOf c' t) k = some m' ∧ rf c' (Item.handle t k m, d) = (Item.handle t k m', d) := by
  simp only [rf]
  rw [← lookup_treesOf]
  cases hl : lookup (treesOf c' t) k with
  | none => exact Or.inl rfl
  | some m' => exact Or.inr ⟨m', rfl, rfl⟩

/-- **`refreshQueue`**: a handle is re-read into a notification stored at the same index; the
views of the operation and the new cache hold the same keys -/
theorem refresh_J {cfg : Cfg} {T : String} {regs : List Path} {W0 : PMap Noti} {V' : Views}
    {c' : Cache.State} {Qn : List (Item × Nat)} {P w : Prop} {t : String} {k : Path}
    (hsim : ∀ t k, Sim cfg (lookup (V' t) k) (lookup (treesOf c' t) k))
    (hkey : ∀ t k n, lookup (treesOf c' t) k = some n → respKey n = t :: k)
    (hq : QInv cfg T regs W0 V' Qn) (hj : JQ P w V' t k Qn) : JQ P w (treesOf c') t k (Qn.map (rf c')) := by
  rcases hj with hp | ⟨y, hy, hat⟩ | ⟨hw, hn⟩
  · exact Or.inl hp
  · refine Or.inr (Or.inl ⟨rf c' y, List.mem_map.2 ⟨y, hy, rfl⟩, ?_⟩)
    have hi := hq.items y hy
    obtain ⟨it, d⟩ := y
    cases it with
    | handle t' k' m =>
      rcases rf_handle c' t' k' m d with he | ⟨m', hl, he⟩
      · rw [he]; exact hat
      · rw [he]
        have hk : respKey m = t :: k := by simpa [toResp, atKey] using hat
        have hk' : respKey m = t' :: k' := by rw [respKey_eq, hi.1, hi.2.1]
        have := hkey t' k' m' hl
        simp [toResp, atKey, this, ← hk', hk]
    | detached t' k' m => exact hat
    | note e => exact hat
    | sync => exact hat
  · refine Or.inr (Or.inr ⟨hw, ?_⟩)
    have := hsim t k
    rw [hn] at this
    cases hl : lookup (treesOf c' t) k with
    | none => rfl
    | some v => rw [hl] at this; exact this.elim

/-! ## the subscriber -/

/-- a response for the leaf `t :: k` is among what the subscriber was sent, the held response and
what its queue stands for — or, in the weak form (`w`) only, the views hold nothing at the leaf.
`JS False …` is the strong form: a response for the leaf is there. -/
def JS (w : Prop) (t : String) (k : Path) (V : Views) (s : Subscriber) : Prop :=
  (∃ x ∈ pend s, atKey (t :: k) x = true) ∨ (w ∧ lookup (V t) k = none)

/-- a response for the leaf was sent or is held -/
def sentAt (κ : Path) (s : Subscriber) : Prop := ∃ x ∈ s.out.map (·.1) ++ s.blocked.toList, atKey κ x = true

theorem js_iff_jq {w : Prop} {t : String} {k : Path} {V : Views} (s : Subscriber) (ha : s.acl.check t = true) :
    JS w t k V s ↔ JQ (sentAt (t :: k) s) w V t k s.queue := by
  unfold JS JQ sentAt pend
  constructor
  · rintro (⟨x, hx, hat⟩ | hn)
    · rcases List.mem_append.1 hx with hx | hx
      · exact Or.inl ⟨x, hx, hat⟩
      · obtain ⟨hx1, _⟩ := List.mem_filter.1 hx
        obtain ⟨y, hy, rfl⟩ := List.mem_map.1 hx1
        exact Or.inr (Or.inl ⟨y, hy, hat⟩)
    · exact Or.inr (Or.inr hn)
  · rintro (⟨x, hx, hat⟩ | ⟨y, hy, hat⟩ | hn)
    · exact Or.inl ⟨x, List.mem_append_left _ hx, hat⟩
    · refine Or.inl ⟨toResp y, List.mem_append_right _ (List.mem_filter.2 ⟨List.mem_map.2 ⟨y, hy, rfl⟩, ?_⟩), hat⟩
      rw [atKey_not_denied hat ha]
      rfl
    · exact Or.inr hn

/-- **the sender never changes `pend`** (while the RPC stays alive): a dequeued item goes to `out`
or `blocked`, or is dropped by the per-response ACL check — and `pend` leaves those out already -/
theorem pend_pumpAll (s : Subscriber) (ha : s.alive = true) (hc : s.closed = false)
    (ha' : (pumpAll s).alive = true) : pend (pumpAll s) = pend s := by
  cases hb : s.blocked with
  | some r => rw [pumpAll_blocked s (by rw [hb]; rfl)]
  | none =>
    rcases pumpAll_gen s ha hb hc with hd | ⟨a, b, bl, out', hq, hres, hout, _, _⟩
    · rw [hd] at ha'; cases ha'
    · rw [hres]
      unfold pend
      simp only
      rw [hout, hq, hb, List.map_append, List.filter_append]
      simp

theorem gateF_alive_of {shut : Bool} {s : Subscriber} (h : (gateF shut s).alive = true) : s.alive = true := by
  cases ha : s.alive with
  | true => rfl
  | false => rw [gateF_dead shut s ha] at h; cases h

theorem stepF_alive_of {s : Subscriber} (h : (stepF s).alive = true) : s.alive = true := by
  cases ha : s.alive with
  | true => rfl
  | false => rw [stepF_dead s ha] at h; cases h

theorem feedSub_alive_of {c' : Cache.State} {evs : List Event} {s : Subscriber}
    (h : (feedSub c' evs s).alive = true) : s.alive = true := by
  cases ha : s.alive with
  | true => rfl
  | false => rw [feedSub_dead c' evs s ha] at h; cases h

/-- shutting, opening the gate: `pend` is unchanged (the held response goes out in place) -/
theorem pend_gateF (shut : Bool) (s : Subscriber) (hc : s.closed = false) (ha' : (gateF shut s).alive = true) :
    pend (gateF shut s) = pend s := by
  have ha := gateF_alive_of ha'
  obtain ⟨id, req, acl, regs, alive, status, gateShut, gsd, blocked, queue, closed, out⟩ := s
  simp only at ha hc
  subst ha hc
  cases shut with
  | true => rfl
  | false =>
    cases blocked with
    | none =>
      simp only [gateF, Bool.false_eq_true, if_false] at ha' ⊢
      rw [pend_pumpAll _ rfl rfl ha']
      rfl
    | some r =>
      by_cases htd : (isTargetDelete r && req.target != "*") = true
      · exfalso
        simp only [gateF, Bool.false_eq_true, if_false, htd, if_true] at ha'
        rw [pumpAll_dead _ rfl] at ha'
        cases ha'
      · simp only [gateF, Bool.false_eq_true, if_false, htd] at ha' ⊢
        rw [pend_pumpAll _ rfl rfl ha']
        unfold pend
        simp

/-- letting one held response through: `pend` is unchanged -/
theorem pend_stepF (s : Subscriber) (hc : s.closed = false) (ha' : (stepF s).alive = true) :
    pend (stepF s) = pend s := by
  have ha := stepF_alive_of ha'
  obtain ⟨id, req, acl, regs, alive, status, gateShut, gsd, blocked, queue, closed, out⟩ := s
  simp only at ha hc
  subst ha hc
  cases gateShut with
  | false => rfl
  | true =>
    cases blocked with
    | none => rfl
    | some r =>
      by_cases htd : (isTargetDelete r && req.target != "*") = true
      · exfalso
        simp only [stepF, if_true, htd] at ha'
        cases ha'
      · simp only [stepF, if_true, htd, Bool.false_eq_true, if_false] at ha' ⊢
        rw [pend_pumpAll _ rfl rfl ha']
        unfold pend
        simp

theorem gateF_JS {cfg : Cfg} {V : Views} {snap : List (Resp × Bool)} {w : Prop} {t : String} {k : Path} (shut : Bool)
    {s : Subscriber} (inv : GInv cfg V (shadow snap s)) (ha' : (gateF shut s).alive = true) (hj : JS w t k V s) :
    JS w t k V (gateF shut s) := by
  unfold JS
  rw [pend_gateF shut s inv.closed ha']
  exact hj

theorem stepF_JS {cfg : Cfg} {V : Views} {snap : List (Resp × Bool)} {w : Prop} {t : String} {k : Path}
    {s : Subscriber} (inv : GInv cfg V (shadow snap s)) (ha' : (stepF s).alive = true) (hj : JS w t k V s) :
    JS w t k V (stepF s) := by
  unfold JS
  rw [pend_stepF s inv.closed ha']
  exact hj

/-- **one cache operation**: the invariant is kept, and established if one of the operation's
events decides the key.  (`inv`: the `C04Gate` invariant of the subscriber's shadow — of the
subscriber itself if it asked for the snapshot — supplies the queue invariant.) -/
theorem feedSub_JS {cfg : Cfg} {V : Views} {c' : Cache.State} {evs : List Event} {s : Subscriber}
    {snap : List (Resp × Bool)} {w : Prop} {t : String} {k : Path}
    (hV : VOK V) (hg : GoodTr V evs)
    (hsim : ∀ t k, Sim cfg (lookup (applySs V evs t) k) (lookup (treesOf c' t) k))
    (hkey : ∀ t k n, lookup (treesOf c' t) k = some n → respKey n = t :: k)
    (inv : GInv cfg V (shadow snap s)) (ha' : (feedSub c' evs s).alive = true)
    (hacl : s.acl.check t = true) (hm : s.regs.any (fun q => qmatches q (t :: k)) = true)
    (hj : JS w t k V s ∨ ∃ e ∈ evs, decidesEv (t :: k) e = true ∧ (w ∨ updAt (t :: k) e = true)) :
    JS w t k (treesOf c') (feedSub c' evs s) := by
  have halive := feedSub_alive_of ha'
  have hclosed : s.closed = false := inv.closed
  have hregs : RegsOK s.req.target s.regs := inv.regs
  obtain ⟨g, _, _, _, _, hgq⟩ := inv.ghost
  have hgq' : QInv cfg s.req.target s.regs (replay g) V s.queue := hgq
  obtain ⟨hq, _⟩ := qfold_inv hregs evs V s.queue hV hg hgq'
  have jq0 : JQ (sentAt (t :: k) s) w V t k s.queue ∨
      ∃ e ∈ evs, decidesEv (t :: k) e = true ∧ (w ∨ updAt (t :: k) e = true) :=
    hj.imp (js_iff_jq s hacl).1 id
  have jq1 := qfold_J hregs hm evs V s.queue hV hg hgq' jq0
  generalize hQn : evs.foldl (qstep s.regs) s.queue = Qn at hq jq1
  have hfeed : feedSub c' evs s = pumpAll { s with queue := Qn.map (rf c') } := by
    unfold feedSub
    simp only
    rw [enqueue_fold evs s halive hclosed]
    simp only
    rw [hQn, refreshQueue_eq c' Qn hq.pw]
  have jq2 := refresh_J hsim hkey hq jq1
  rw [hfeed] at ha' ⊢
  unfold JS
  rw [pend_pumpAll { s with queue := Qn.map (rf c') } halive hclosed ha']
  exact (js_iff_jq { s with queue := Qn.map (rf c') } hacl).2 jq2

/-! ## requests whose paths `CompletePath` rejects -/

/-- the same subscription with the origin moved into the prefix / the paths: same target, same
registration queries, and `CompletePath` accepts every path -/
def norm (r : Req) : Req :=
  { r with
    origin := ""
    pfx := (if r.origin = "" then [] else [r.origin]) ++ r.pfx
    updatesOnly := false
    subs := r.subs.map (fun s =>
      { s with origin := "", path := (if r.origin = "" ∧ s.origin ≠ "" then [s.origin] else []) ++ s.path }) }

theorem norm_target (r : Req) : (norm r).target = r.target := rfl
theorem norm_mode (r : Req) : (norm r).mode = r.mode := rfl

theorem regQueries_norm (r : Req) : regQueries (norm r) = regQueries r := by
  unfold regQueries norm
  simp only [List.map_map]
  apply List.map_congr_left
  intro s _
  simp [List.append_assoc]

theorem completePath_norm (r : Req) : ∀ sp ∈ (norm r).subs, (completePath (norm r) sp).isSome = true := by
  intro sp hsp
  obtain ⟨s, _, rfl⟩ := List.mem_map.1 hsp
  simp [completePath, norm]

/-- `GInv` reads only the target and the registration queries of the request -/
theorem ginv_setReq {cfg : Cfg} {V : Views} {s : Subscriber} (r' : Req) (h1 : r'.target = s.req.target)
    (h2 : regQueries r' = regQueries s.req) (inv : GInv cfg V s) : GInv cfg V { s with req := r' } := by
  obtain ⟨g, hgout, hgns, hgext, hgsync, hgq⟩ := inv.ghost
  refine ⟨⟨inv.closed, ?_, inv.status, ?_, inv.held, inv.fresh, ⟨g, hgout, hgns, hgext, hgsync, ?_⟩⟩,
    inv.drained, inv.idle⟩
  · show RegsOK r'.target s.regs
    rw [h1]; exact inv.regs
  · show s.regs = regQueries r'
    rw [h2]; exact inv.regsEq
  · show QInv cfg r'.target s.regs (replay g) V s.queue
    rw [h1]; exact hgq

/-- registration of an `updates_only` subscriber, **whatever `CompletePath` says of its paths**:
its shadow carries the snapshot of `norm r` -/
theorem uinv_init_any {c : Cache.State} (hc : CacheOK c) (id : String) (r : Req) (acl : Acl)
    (hm : r.mode = .stream) (hT : r.target ≠ "") (hex : r.target = glob ∨ (c.get r.target).isSome = true) :
    UInv c.cfg (fun t k => lookup (treesOf c t) k) (treesOf c) acl r
      { newSubscriber false id r acl with regs := regQueries r, out := [(Resp.sync, false)] } := by
  refine ⟨rfl, rfl, hm, ?_⟩
  have hcp := completePath_norm r
  have hws := walkItems_isSome c (norm r) hcp
  cases hw : walkItems c (norm r) with
  | none => rw [hw] at hws; cases hws
  | some items =>
    obtain ⟨body, he, _, _⟩ := streamSub_exact hc id (norm r) acl hT hex rfl hw
    have hlive : Live (streamSub c id (norm r) acl) :=
      ⟨streamSub_alive c id (norm r) acl hcp, by rw [streamSub_req]; exact hm, by rw [streamSub_req]; rfl⟩
    have sinv := streamSub_inv hc id (norm r) acl hT hex hlive
    have hsh : shadow (body.map (fun x => (x, false)))
        { newSubscriber false id r acl with regs := regQueries r, out := [(Resp.sync, false)] } =
        { streamSub c id (norm r) acl with req := { r with updatesOnly := false } } := by
      rw [he, List.map_append, regQueries_norm]
      rfl
    refine ⟨body.map (fun x => (x, false)), ?_, ?_⟩
    · rw [hsh]
      apply ginv_setReq _ _ _ (ginv_of_subInv sinv)
      · rw [streamSub_req]; rfl
      · rw [streamSub_req, regQueries_norm]; rfl
    · intro t k ha hq
      have hv := sinv.view.1 t k (by rw [streamSub_acl]; exact ha)
        (by rw [sinv.regsEq, streamSub_req, regQueries_norm]; exact hq)
      rw [he] at hv
      simp only [List.map_append, List.map_cons, List.map_nil] at hv
      have : replay (body.map (fun x => (x, false)) ++ [(Resp.sync, false)]) = replay (body.map (fun x => (x, false))) := by
        unfold replay
        rw [List.foldl_append]
        rfl
      rw [this] at hv
      exact hv

/-! ## a subscriber that asked for the snapshot is its own shadow -/

theorem shadow_nil (s : Subscriber) (h : s.req.updatesOnly = false) : shadow [] s = s := by
  obtain ⟨id, req, acl, regs, alive, status, gateShut, gsd, blocked, queue, closed, out⟩ := s
  obtain ⟨a1, a2, a3, a4, a5, a6, a7, a8⟩ := req
  simp only at h
  subst h
  rfl

/-- the `C04Gate` invariant of a subscriber that asked for the snapshot, as `UInv` (empty extra
prefix, nothing to show for the registration-time content) -/
theorem uinv_plain {cfg : Cfg} {V : Views} {a : Acl} {r : Req} {s : Subscriber} (inv : GInv cfg V s)
    (hr : s.req = r) (hacl : s.acl = a) (hm : r.mode = .stream) (hu : r.updatesOnly = false) :
    UInv cfg (fun _ _ => none) V a r s := by
  refine ⟨hr, hacl, hm, [], ?_, fun _ _ _ _ => trivial⟩
  rw [shadow_nil s (by rw [hr]; exact hu)]
  exact inv

end SubOff
end Gnmi
