import Gnmi.Lemmas.SubscribeLTS
/-!
# Basic invariants of the Subscribe LTS (per subscriber)
-/
namespace Gnmi
namespace SubLTS
set_option linter.unusedSimpArgs false
set_option linter.unusedSectionVars false

section
variable {K V T R : Type} [DecidableEq K] [DecidableEq R]

/-! ### field lemmas -/

@[simp] theorem ins_pc (b : Sub K V R) (i : Item K R) : (b.ins i).pc = b.pc := by
  unfold Sub.ins; split <;> rfl
@[simp] theorem ins_registered (b : Sub K V R) (i : Item K R) : (b.ins i).registered = b.registered := by
  unfold Sub.ins; split <;> rfl
@[simp] theorem ins_closed (b : Sub K V R) (i : Item K R) : (b.ins i).closed = b.closed := by
  unfold Sub.ins; split <;> rfl
@[simp] theorem ins_walker (b : Sub K V R) (i : Item K R) : (b.ins i).walker = b.walker := by
  unfold Sub.ins; split <;> rfl
@[simp] theorem ins_snd (b : Sub K V R) (i : Item K R) : (b.ins i).snd = b.snd := by
  unfold Sub.ins; split <;> rfl
@[simp] theorem ins_armed (b : Sub K V R) (i : Item K R) : (b.ins i).armed = b.armed := by
  unfold Sub.ins; split <;> rfl
@[simp] theorem ins_blocked (b : Sub K V R) (i : Item K R) : (b.ins i).blocked = b.blocked := by
  unfold Sub.ins; split <;> rfl
@[simp] theorem ins_sent (b : Sub K V R) (i : Item K R) : (b.ins i).sent = b.sent := by
  unfold Sub.ins; split <;> rfl
@[simp] theorem ins_status (b : Sub K V R) (i : Item K R) : (b.ins i).status = b.status := by
  unfold Sub.ins; split <;> rfl
@[simp] theorem ins_deliv (b : Sub K V R) (i : Item K R) : (b.ins i).deliv = b.deliv := by
  unfold Sub.ins; split <;> rfl
@[simp] theorem ins_held (b : Sub K V R) (i : Item K R) : (b.ins i).held = b.held := by
  unfold Sub.ins; split <;> rfl
@[simp] theorem ins_since (b : Sub K V R) (i : Item K R) : (b.ins i).since = b.since := by
  unfold Sub.ins; split <;> rfl
@[simp] theorem ins_rounds (b : Sub K V R) (i : Item K R) : (b.ins i).rounds = b.rounds := by
  unfold Sub.ins; split <;> rfl
theorem ins_q (b : Sub K V R) (i : Item K R) :
    (b.ins i).q = if b.closed then b.q else qins b.q i := by
  unfold Sub.ins; split <;> rfl
theorem ins_insLog (b : Sub K V R) (i : Item K R) :
    (b.ins i).insLog = if b.closed then b.insLog else b.insLog ++ [i] := by
  unfold Sub.ins; split <;> rfl

/-! ### the queue insert on item lists -/

theorem bump_map_fst (i : Item K R) (q : List (Item K R × Nat)) :
    (Coalesce.bump i q).map (·.1) = q.map (·.1) := by
  induction q with
  | nil => rfl
  | cons a l ih =>
    obtain ⟨k, c⟩ := a
    simp only [Coalesce.bump, List.map_cons, ih]
    split <;> rfl

theorem bump_length (i : Item K R) (q : List (Item K R × Nat)) :
    (Coalesce.bump i q).length = q.length := by
  have := congrArg List.length (bump_map_fst i q)
  simpa using this

/-- the items of the queue after an insert: unchanged (coalesced) or one more at the end -/
theorem qins_items (q : List (Item K R × Nat)) (i : Item K R) :
    (qins q i).map (·.1) =
      if i.coal = true ∧ i ∈ q.map (·.1) then q.map (·.1) else q.map (·.1) ++ [i] := by
  unfold qins
  split
  · exact bump_map_fst i q
  · simp

/-- `qins` is `CoQ.insert` of the C11 specification on coalescable items -/
theorem qins_eq_spec (q : List (Item K R × Nat)) (i : Item K R) (h : i.coal = true) :
    qins q i = ((Coalesce.CoQ.insert ⟨q, false⟩ i).1).items := by
  unfold qins Coalesce.CoQ.insert
  simp only [h, true_and]
  split <;> simp


/-! ### Phase invariant: what the program counters imply (register-before-walk system) -/

/-- the handler has not yet started the walker and sender goroutines -/
def HPc.pre : HPc → Bool
  | .h0 | .h1 | .h2 | .h3 | .h4 | .reg | .spawn => true
  | .run | .fin => false

/-- the handler has not yet registered the subscription -/
def HPc.preReg : HPc → Bool
  | .h0 | .h1 | .h2 | .h3 | .h4 | .reg => true
  | _ => false

def syncOnly (q : List (Item K R × Nat)) : Prop := ∀ x ∈ q, x.1 = Item.syncMarker

theorem syncOnly_qins (q : List (Item K R × Nat)) (h : syncOnly q) : syncOnly (qins q .syncMarker) := by
  intro x hx
  have : x.1 ∈ (qins q .syncMarker).map (·.1) := List.mem_map_of_mem hx
  rw [qins_items] at this
  split at this
  · obtain ⟨y, hy, he⟩ := List.mem_map.1 this
    rw [← he]; exact h y hy
  · rcases List.mem_append.1 this with h1 | h1
    · obtain ⟨y, hy, he⟩ := List.mem_map.1 h1
      rw [← he]; exact h y hy
    · simpa using h1

theorem syncOnly_ins (b : Sub K V R) (h : syncOnly b.q) : syncOnly (b.ins .syncMarker).q := by
  rw [ins_q]; split
  · exact h
  · exact syncOnly_qins _ h

structure Phase (rq : Req K T R) (b : Sub K V R) : Prop where
  pre_snd : b.pc.pre = true → b.snd = .off
  pre_walker : b.pc.pre = true → b.walker = .idle
  snd_off : b.snd = .off → b.pc.pre = true
  fin_snd : b.pc = .fin → b.snd = .stopped
  status_fin : b.status = none ↔ b.pc ≠ .fin
  armed : b.armed = true ↔ (b.snd = .sendSync ∨ ∃ r, b.snd = .sending r)
  pre_sent : b.pc.pre = true → b.sent = []
  pre_q : b.pc.preReg = true → syncOnly b.q
  reg_mode : b.pc = .reg → rq.mode = .stream
  reg_open : b.registered = true → b.closed = false ∧ rq.mode = .stream
  reg_pc : b.registered = true → b.pc = .spawn ∨ b.pc = .run
  pre_reg : b.pc.preReg = true → b.registered = false
  closed_why : b.closed = true → b.pc = .fin ∨ (rq.mode = .once ∧ b.walker = .done)
  uo_walker : rq.mode = .stream → rq.updatesOnly = true → b.walker = .idle ∨ b.walker = .done

theorem phase_init (rq : Req K T R) : Phase rq ({} : Sub K V R) := by
  constructor <;> simp [HPc.pre, HPc.preReg, syncOnly]

section
variable {sys : Sys K T R} {rq : Req K T R} {sh : Shared K V T R} {b b' : Sub K V R} {l : SLabel K}

theorem phase_local (hsw : sys.swap = false) (h : SubStep sys rq sh b l b') (hi : Phase rq b) :
    Phase rq b' := by
  obtain ⟨h1, h2, h3, h4, h5, h6, h7, h8, h9, h10, h11, h12, h13, h14⟩ := hi
  refine ⟨?_, ?_, ?_, ?_, ?_, ?_, ?_, ?_, ?_, ?_, ?_, ?_, ?_, ?_⟩
  · clear h2 h3 h4 h5 h6 h7 h8 h9 h10 h11 h12 h13 h14
    cases h <;> simp_all [Sub.finish, Sub.startWalk, HPc.pre, HPc.preReg]
  · clear h3 h4 h5 h6 h7 h8 h9 h10 h11 h12 h13 h14
    cases h <;> simp_all [Sub.finish, Sub.startWalk, HPc.pre, HPc.preReg]
  · clear h2 h4 h5 h6 h7 h8 h9 h10 h11 h12 h13 h14
    cases h <;> simp_all [Sub.finish, Sub.startWalk, HPc.pre, HPc.preReg]
  · clear h1 h2 h3 h5 h6 h7 h8 h9 h10 h11 h12 h13 h14
    cases h <;> simp_all [Sub.finish, Sub.startWalk, HPc.pre, HPc.preReg]
  · clear h1 h2 h3 h4 h6 h7 h8 h9 h10 h11 h12 h13 h14
    cases h <;> simp_all [Sub.finish, Sub.startWalk, HPc.pre, HPc.preReg]
  · clear h2 h3 h4 h5 h7 h8 h9 h10 h11 h12 h13 h14
    cases h <;> simp_all [Sub.finish, Sub.startWalk, HPc.pre, HPc.preReg]
  · clear h2 h3 h4 h5 h6 h8 h9 h10 h11 h12 h13 h14
    cases h <;> simp_all [Sub.finish, Sub.startWalk, HPc.pre, HPc.preReg]
  · clear h3 h4 h5 h6 h7 h9 h10 h11 h12 h13 h14
    have hpp : b.pc.preReg = true → b.pc.pre = true := by cases b.pc <;> simp [HPc.pre, HPc.preReg]
    cases h <;> simp_all [Sub.finish, Sub.startWalk, HPc.pre, HPc.preReg]
    all_goals first | exact syncOnly_ins _ (by assumption) | skip
  · clear h1 h2 h3 h4 h5 h6 h7 h8 h10 h11 h12 h13 h14
    cases h <;> simp_all [Sub.finish, Sub.startWalk, HPc.pre, HPc.preReg]
  · clear h1 h3 h4 h5 h6 h7 h8 h11 h12 h14
    cases h <;> simp_all [Sub.finish, Sub.startWalk, HPc.pre, HPc.preReg]
  · clear h1 h2 h3 h4 h5 h6 h7 h8 h9 h10 h12 h13 h14
    cases h <;> simp_all [Sub.finish, Sub.startWalk, HPc.pre, HPc.preReg]
  · clear h1 h2 h3 h4 h5 h6 h7 h8 h9 h10 h11 h13 h14
    cases h <;> simp_all [Sub.finish, Sub.startWalk, HPc.pre, HPc.preReg]
  · clear h1 h3 h4 h5 h6 h7 h8 h9 h10 h11 h12 h14
    cases h <;> simp_all [Sub.finish, Sub.startWalk, HPc.pre, HPc.preReg]
    rintro (hc | hc)
    · exact Or.inl (h13 hc)
    · exact Or.inr hc
  · clear h1 h3 h4 h5 h6 h7 h8 h9 h10 h11 h12 h13
    cases h <;> simp_all [Sub.finish, Sub.startWalk, HPc.pre, HPc.preReg]

@[simp] theorem walker_filter_idle (w : Walker K) (f : K → Bool) : w.filter f = .idle ↔ w = .idle := by
  cases w <;> simp [Walker.filter]
@[simp] theorem walker_filter_done (w : Walker K) (f : K → Bool) : w.filter f = .done ↔ w = .done := by
  cases w <;> simp [Walker.filter]

theorem phase_shared (l : ShLabel K V T R) (hi : Phase rq b) : Phase rq (b.onShared sys rq l) := by
  obtain ⟨h1, h2, h3, h4, h5, h6, h7, h8, h9, h10, h11, h12, h13, h14⟩ := hi
  have key : ∀ i : Item K R, b.registered = true → Phase rq (b.ins i) := by
    intro i hr
    refine ⟨?_, ?_, ?_, ?_, ?_, ?_, ?_, ?_, ?_, ?_, ?_, ?_, ?_, ?_⟩ <;> simp_all
    all_goals (intro hp; have := h12 hp; simp_all)
  cases l with
  | tAdd t => exact ⟨h1, h2, h3, h4, h5, h6, h7, h8, h9, h10, h11, h12, h13, h14⟩
  | w1Upd k v => exact ⟨h1, h2, h3, h4, h5, h6, h7, h8, h9, h10, h11, h12, h13, h14⟩
  | w1Add k v => exact ⟨h1, h2, h3, h4, h5, h6, h7, h8, h9, h10, h11, h12, h13, h14⟩
  | w1Quiet k v => exact ⟨h1, h2, h3, h4, h5, h6, h7, h8, h9, h10, h11, h12, h13, h14⟩
  | w1Del ks =>
    refine ⟨h1, ?_, h3, h4, h5, h6, h7, h8, h9, h10, h11, h12, ?_, ?_⟩ <;>
      simp_all [Sub.onShared]
  | w1Reg r =>
    refine ⟨h1, ?_, h3, h4, h5, h6, h7, h8, h9, h10, h11, h12, ?_, ?_⟩ <;>
      simp_all [Sub.onShared]
  | w2 u =>
    cases u <;> simp only [Sub.onShared] <;> split
    all_goals first
      | exact ⟨h1, h2, h3, h4, h5, h6, h7, h8, h9, h10, h11, h12, h13, h14⟩
      | (apply key; simp_all)

end

/-! ### Invariant of the shared state (cache + pending writer units) -/

variable [DecidableEq T]

structure ShInv (sys : Sys K T R) (sh : Shared K V T R) : Prop where
  /-- a written leaf whose notification is pending is still the current leaf -/
  upd_cur : ∀ k g, WUnit.upd k g ∈ sh.pend → sh.present k = true ∧ sh.gen k = g
  /-- a deleted leaf whose notification is pending has not been re-added -/
  del_abs : ∀ k, WUnit.del k ∈ sh.pend → sh.present k = false
  reg_abs : ∀ r k, WUnit.reg r ∈ sh.pend → sys.covers r k = true → sh.present k = false
  keys : ∀ k, sh.present k = true → k ∈ sh.keys

theorem shInv_init [Inhabited V] (sys : Sys K T R) : ShInv sys (Cfg.init : Cfg K V T R).sh := by
  constructor <;> simp [Cfg.init]

theorem inflight_false {sys : Sys K T R} {sh : Shared K V T R} {k : K}
    (h : sh.inflight sys k = false) : ∀ u ∈ sh.pend, WUnit.touches sys k u = false := by
  simpa [Shared.inflight] using h

theorem shInv_step {sys : Sys K T R} {sh sh' : Shared K V T R} {l : ShLabel K V T R}
    (hi : ShInv sys sh) (h : shFire sys sh l = some sh') : ShInv sys sh' := by
  obtain ⟨h1, h2, h3, h4⟩ := hi
  cases l with
  | tAdd t =>
    simp only [shFire, Option.some.injEq] at h; subst h
    exact ⟨h1, h2, h3, h4⟩
  | w1Upd k v =>
    simp only [shFire, Option.ite_none_right_eq_some, Option.some.injEq] at h
    obtain ⟨⟨hp, hf⟩, rfl⟩ := h
    refine ⟨?_, ?_, ?_, h4⟩
    · intro k' g hm
      rcases List.mem_append.1 hm with hm | hm
      · exact h1 k' g hm
      · simp only [List.mem_singleton, WUnit.upd.injEq] at hm
        obtain ⟨rfl, rfl⟩ := hm
        exact ⟨hp, rfl⟩
    · intro k' hm
      exact h2 k' (by simpa using hm)
    · intro r k' hm hc
      exact h3 r k' (by simpa using hm) hc
  | w1Quiet k v =>
    simp only [shFire, Option.ite_none_right_eq_some, Option.some.injEq] at h
    obtain ⟨_, rfl⟩ := h
    exact ⟨h1, h2, h3, h4⟩
  | w1Add k v =>
    simp only [shFire, Option.ite_none_right_eq_some, Option.some.injEq] at h
    obtain ⟨⟨hp, hf, _⟩, rfl⟩ := h
    have hf := inflight_false hf
    refine ⟨?_, ?_, ?_, ?_⟩
    · intro k' g hm
      rcases List.mem_append.1 hm with hm | hm
      · have hne : k' ≠ k := by
          intro e; rw [e] at hm
          have := hf _ hm; simp [WUnit.touches] at this
        simpa [setFn, hne] using h1 k' g hm
      · simp only [List.mem_singleton, WUnit.upd.injEq] at hm
        obtain ⟨rfl, rfl⟩ := hm
        simp [setFn]
    · intro k' hm
      have hm : WUnit.del k' ∈ sh.pend := by simpa using hm
      have hne : k' ≠ k := by
        intro e; rw [e] at hm
        have := hf _ hm; simp [WUnit.touches] at this
      simpa [setFn, hne] using h2 k' hm
    · intro r k' hm hc
      have hm : WUnit.reg r ∈ sh.pend := by simpa using hm
      have hne : k' ≠ k := by
        intro e; rw [e] at hc
        have := hf _ hm; simp [WUnit.touches, hc] at this
      simpa [setFn, hne] using h3 r k' hm hc
    · intro k' hp'
      by_cases e : k' = k
      · rw [e]; show k ∈ (if k ∈ sh.keys then sh.keys else sh.keys ++ [k])
        split <;> simp_all
      · have : sh.present k' = true := by simpa [setFn, e] using hp'
        have := h4 k' this
        show k' ∈ (if k ∈ sh.keys then sh.keys else sh.keys ++ [k])
        split <;> simp_all
  | w1Del ks =>
    simp only [shFire, Option.ite_none_right_eq_some, Option.some.injEq] at h
    obtain ⟨hg, rfl⟩ := h
    have hg : ∀ k ∈ ks, sh.present k = true ∧ sh.inflight sys k = false := by
      simpa using hg
    refine ⟨?_, ?_, ?_, ?_⟩
    · intro k g hm
      have hm : WUnit.upd k g ∈ sh.pend := by simpa using hm
      have hnk : k ∉ ks := by
        intro hk
        have := inflight_false (hg k hk).2 _ hm
        simp [WUnit.touches] at this
      simpa [hnk] using h1 k g hm
    · intro k hm
      rcases List.mem_append.1 hm with hm | hm
      · simp [h2 k hm]
      · have : k ∈ ks := by simpa using hm
        simp [this]
    · intro r k hm hc
      have hm : WUnit.reg r ∈ sh.pend := by simpa using hm
      simp [h3 r k hm hc]
    · intro k hp
      have : sh.present k = true := by
        simp only [Bool.and_eq_true] at hp; exact hp.1
      exact h4 k this
  | w1Reg r =>
    simp only [shFire, Option.ite_none_right_eq_some, Option.some.injEq] at h
    obtain ⟨hg, rfl⟩ := h
    have hg : ∀ u ∈ sh.pend, u.inRegion sys r = false := by simpa using hg
    refine ⟨?_, ?_, ?_, ?_⟩
    · intro k g hm
      have hm : WUnit.upd k g ∈ sh.pend := by simpa using hm
      have hc : sys.covers r k = false := by simpa [WUnit.inRegion] using hg _ hm
      simpa [hc] using h1 k g hm
    · intro k hm
      have hm : WUnit.del k ∈ sh.pend := by simpa using hm
      simp [h2 k hm]
    · intro r' k hm hc
      rcases List.mem_append.1 hm with hm | hm
      · simp [h3 r' k hm hc]
      · have : r' = r := by simpa using hm
        subst this; simp [hc]
    · intro k hp
      have : sh.present k = true := by
        simp only [Bool.and_eq_true] at hp; exact hp.1
      exact h4 k this
  | w2 u =>
    simp only [shFire, Option.ite_none_right_eq_some, Option.some.injEq] at h
    obtain ⟨hg, rfl⟩ := h
    exact ⟨fun k g hm => h1 k g (List.mem_of_mem_erase hm), fun k hm => h2 k (List.mem_of_mem_erase hm),
      fun r k hm => h3 r k (List.mem_of_mem_erase hm), h4⟩


/-! ### generations are positive; `val` is the last write (ghost `wlog`) -/

/-- the last value written to the leaf object `(k, g)` according to the write log -/
def lastW (k : K) (g : Nat) (wl : List (K × Nat × V)) : Option V :=
  wl.foldl (fun acc e => if e.1 = k ∧ e.2.1 = g then some e.2.2 else acc) none

theorem lastW_snoc (k : K) (g : Nat) (wl : List (K × Nat × V)) (e : K × Nat × V) :
    lastW k g (wl ++ [e]) = if e.1 = k ∧ e.2.1 = g then some e.2.2 else lastW k g wl := by
  simp [lastW, List.foldl_append]

structure ShInv2 (sh : Shared K V T R) : Prop where
  gen_pos : ∀ k, sh.present k = true → 1 ≤ sh.gen k
  /-- what a handle reads is the newest value written to that leaf object -/
  newest : ∀ k g, 1 ≤ g → g ≤ sh.gen k → lastW k g sh.wlog = some (sh.val k g)

theorem shInv2_init [Inhabited V] : ShInv2 (Cfg.init : Cfg K V T R).sh := by
  constructor
  · intro k h; simp [Cfg.init] at h
  · intro k g h1 h2; simp [Cfg.init] at h2; omega

theorem shFire_gen_mono {sys : Sys K T R} {sh sh' : Shared K V T R} {l : ShLabel K V T R}
    (h : shFire sys sh l = some sh') (k : K) : sh.gen k ≤ sh'.gen k := by
  cases l with
  | tAdd t => simp only [shFire, Option.some.injEq] at h; subst h; exact Nat.le_refl _
  | w1Add k0 v =>
    simp only [shFire, Option.ite_none_right_eq_some, Option.some.injEq] at h
    obtain ⟨_, rfl⟩ := h
    show sh.gen k ≤ setFn sh.gen k0 (sh.gen k0 + 1) k
    unfold setFn; split
    · next e => rw [e]; omega
    · exact Nat.le_refl _
  | _ =>
    simp only [shFire, Option.ite_none_right_eq_some, Option.some.injEq] at h
    obtain ⟨_, rfl⟩ := h; exact Nat.le_refl _

theorem shInv2_step {sys : Sys K T R} {sh sh' : Shared K V T R} {l : ShLabel K V T R}
    (hi : ShInv2 sh) (h : shFire sys sh l = some sh') : ShInv2 sh' := by
  obtain ⟨h1, h2⟩ := hi
  cases l with
  | tAdd t => simp only [shFire, Option.some.injEq] at h; subst h; exact ⟨h1, h2⟩
  | w1Upd k0 v =>
    simp only [shFire, Option.ite_none_right_eq_some, Option.some.injEq] at h
    obtain ⟨_, rfl⟩ := h
    refine ⟨h1, ?_⟩
    intro k g hg1 hg2
    show lastW k g (sh.wlog ++ [(k0, sh.gen k0, v)]) = some (setFn sh.val k0 (setFn (sh.val k0) (sh.gen k0) v) k g)
    rw [lastW_snoc]
    by_cases e : k0 = k
    · subst e
      by_cases e' : sh.gen k0 = g
      · subst e'; simp [setFn]
      · have : g ≠ sh.gen k0 := fun x => e' x.symm
        simp [setFn, e', this]; exact h2 k0 g hg1 hg2
    · have : k ≠ k0 := fun x => e x.symm
      simp [setFn, e, this]; exact h2 k g hg1 hg2
  | w1Quiet k0 v =>
    simp only [shFire, Option.ite_none_right_eq_some, Option.some.injEq] at h
    obtain ⟨_, rfl⟩ := h
    refine ⟨h1, ?_⟩
    intro k g hg1 hg2
    show lastW k g (sh.wlog ++ [(k0, sh.gen k0, v)]) = some (setFn sh.val k0 (setFn (sh.val k0) (sh.gen k0) v) k g)
    rw [lastW_snoc]
    by_cases e : k0 = k
    · subst e
      by_cases e' : sh.gen k0 = g
      · subst e'; simp [setFn]
      · have : g ≠ sh.gen k0 := fun x => e' x.symm
        simp [setFn, e', this]; exact h2 k0 g hg1 hg2
    · have : k ≠ k0 := fun x => e x.symm
      simp [setFn, e, this]; exact h2 k g hg1 hg2
  | w1Add k0 v =>
    simp only [shFire, Option.ite_none_right_eq_some, Option.some.injEq] at h
    obtain ⟨_, rfl⟩ := h
    refine ⟨?_, ?_⟩
    · intro k hp
      show 1 ≤ setFn sh.gen k0 (sh.gen k0 + 1) k
      by_cases e : k = k0
      · subst e; simp [setFn]
      · rw [setFn_other _ _ e]; exact h1 k (by simpa [setFn, e] using hp)
    · intro k g hg1 hg2
      show lastW k g (sh.wlog ++ [(k0, sh.gen k0 + 1, v)]) =
        some (setFn sh.val k0 (setFn (sh.val k0) (sh.gen k0 + 1) v) k g)
      have hg2 : g ≤ setFn sh.gen k0 (sh.gen k0 + 1) k := hg2
      rw [lastW_snoc]
      by_cases e : k0 = k
      · subst e
        by_cases e' : sh.gen k0 + 1 = g
        · subst e'; simp [setFn]
        · have : g ≠ sh.gen k0 + 1 := fun x => e' x.symm
          simp only [setFn, if_true] at hg2
          simp [setFn, e', this]; exact h2 k0 g hg1 (by omega)
      · have : k ≠ k0 := fun x => e x.symm
        rw [setFn_other _ _ this] at hg2
        simp [setFn, e, this]; exact h2 k g hg1 hg2
  | w1Del ks =>
    simp only [shFire, Option.ite_none_right_eq_some, Option.some.injEq] at h
    obtain ⟨_, rfl⟩ := h
    refine ⟨?_, h2⟩
    intro k hp
    have : sh.present k = true := by simp only [Bool.and_eq_true] at hp; exact hp.1
    exact h1 k this
  | w1Reg r =>
    simp only [shFire, Option.ite_none_right_eq_some, Option.some.injEq] at h
    obtain ⟨_, rfl⟩ := h
    refine ⟨?_, h2⟩
    intro k hp
    have : sh.present k = true := by simp only [Bool.and_eq_true] at hp; exact hp.1
    exact h1 k this
  | w2 u =>
    simp only [shFire, Option.ite_none_right_eq_some, Option.some.injEq] at h
    obtain ⟨_, rfl⟩ := h
    exact ⟨h1, h2⟩

end
end SubLTS
end Gnmi
