import Gnmi.Model.Match
/-!
Helper lemmas for property C06.

The proof device is `visit`: the clients found at the nodes `update` reaches, in order,
with repetitions and *without* the `updated` set.  `update` is then `updateClients` (the
set filter) applied to that list (`update_eq_visit`), which separates the two concerns:
which nodes are reached (trie induction, `count_visit`) and how the set removes
repetitions (list induction, `updateClients_*`).
-/
set_option linter.unusedSectionVars false
set_option linter.unusedVariables false

namespace Gnmi
namespace Match

variable {C : Type} [DecidableEq C]

/-! ### `updateClients`: the `updated` set as a filter over a list of clients -/

theorem updateClients_none (l : List C) : updateClients l none = (l, none) := by
  induction l with
  | nil => rfl
  | cons c l ih => simp [updateClients, ih]

theorem updateClients_append (a b : List C) (u : Option (List C)) :
    updateClients (a ++ b) u =
      ((updateClients a u).1 ++ (updateClients b (updateClients a u).2).1,
       (updateClients b (updateClients a u).2).2) := by
  induction a generalizing u with
  | nil => simp [updateClients]
  | cons c a ih =>
    cases u with
    | none => simp [updateClients, ih]
    | some s =>
      by_cases h : c ∈ s
      · simp [updateClients, h, ih]
      · simp [updateClients, h, ih]

/-- with an allocated set: the set stays allocated, grows by exactly the invoked clients;
the invoked clients are those of `l` not in the set before, each once -/
theorem updateClients_some (l : List C) (s : List C) :
    ∃ s', (updateClients l (some s)).2 = some s' ∧
      (∀ x, x ∈ s' ↔ x ∈ s ∨ x ∈ l) ∧
      (updateClients l (some s)).1.Nodup ∧
      (∀ x, x ∈ (updateClients l (some s)).1 ↔ x ∈ l ∧ x ∉ s) := by
  induction l generalizing s with
  | nil => exact ⟨s, rfl, by simp, by simp [updateClients], by simp [updateClients]⟩
  | cons c l ih =>
    by_cases h : c ∈ s
    · obtain ⟨s', h1, h2, h3, h4⟩ := ih s
      refine ⟨s', by simp [updateClients, h, h1], ?_, by simpa [updateClients, h] using h3, ?_⟩
      · intro x
        rw [h2 x]
        constructor
        · rintro (hx | hx)
          · exact Or.inl hx
          · exact Or.inr (List.mem_cons_of_mem _ hx)
        · rintro (hx | hx)
          · exact Or.inl hx
          · rcases List.mem_cons.1 hx with rfl | hx
            · exact Or.inl h
            · exact Or.inr hx
      · intro x
        simp only [updateClients, h, if_true]
        rw [h4 x]
        constructor
        · rintro ⟨hx, hn⟩
          exact ⟨List.mem_cons_of_mem _ hx, hn⟩
        · rintro ⟨hx, hn⟩
          rcases List.mem_cons.1 hx with rfl | hx
          · exact absurd h hn
          · exact ⟨hx, hn⟩
    · obtain ⟨s', h1, h2, h3, h4⟩ := ih (c :: s)
      refine ⟨s', by simp [updateClients, h, h1], ?_, ?_, ?_⟩
      · intro x
        rw [h2 x]
        simp only [List.mem_cons]
        constructor
        · rintro ((rfl | hx) | hx)
          · exact Or.inr (Or.inl rfl)
          · exact Or.inl hx
          · exact Or.inr (Or.inr hx)
        · rintro (hx | rfl | hx)
          · exact Or.inl (Or.inr hx)
          · exact Or.inl (Or.inl rfl)
          · exact Or.inr hx
      · simp only [updateClients, h, if_false]
        refine List.nodup_cons.2 ⟨?_, h3⟩
        intro hc
        exact ((h4 c).1 hc).2 (List.mem_cons_self ..)
      · intro x
        simp only [updateClients, h, if_false, List.mem_cons]
        rw [h4 x]
        simp only [List.mem_cons, not_or]
        constructor
        · rintro (rfl | ⟨hx, hn1, hn2⟩)
          · exact ⟨Or.inl rfl, h⟩
          · exact ⟨Or.inr hx, hn2⟩
        · rintro ⟨rfl | hx, hn⟩
          · exact Or.inl rfl
          · by_cases hxc : x = c
            · exact Or.inl hxc
            · exact Or.inr ⟨hx, hxc, hn⟩

theorem mem_updateClients (l : List C) (u : Option (List C)) (x : C) :
    x ∈ (updateClients l u).1 ↔ x ∈ l ∧ ∀ s, u = some s → x ∉ s := by
  cases u with
  | none => simp [updateClients_none]
  | some s =>
    obtain ⟨_, _, _, _, h4⟩ := updateClients_some l s
    rw [h4 x]
    simp

/-- number of invocations of `x`: with no set, its multiplicity; with a set, at most one -/
theorem count_updateClients_some (l s : List C) (x : C) :
    (updateClients l (some s)).1.count x = if x ∈ l ∧ x ∉ s then 1 else 0 := by
  obtain ⟨_, _, _, h3, h4⟩ := updateClients_some l s
  rw [List.Nodup.count h3]
  simp [h4 x]

/-! ### `visit`: the nodes `update` reaches -/

mutual
/-- clients at the nodes reached by `update b p _`, in the order of the traversal -/
def visit : Branch C → Path → List C
  | .mk cl ch, [] => cl ++ visitAll ch []
  | .mk cl ch, g :: p =>
      cl ++ (if g = glob then visitAll ch p else visitOne ch glob p ++ visitOne ch g p)
def visitAll : List (String × Branch C) → Path → List C
  | [], _ => []
  | (_, b) :: r, p => visit b p ++ visitAll r p
def visitOne : List (String × Branch C) → String → Path → List C
  | [], _, _ => []
  | (k', b) :: r, k, p => if k' = k then visit b p else visitOne r k p
end

mutual
theorem update_eq_visit : ∀ (b : Branch C) (p : Path) (u : Option (List C)),
    update b p u = updateClients (visit b p) u
  | .mk cl ch, [], u => by
      cases ch with
      | nil => simp [update, visit, visitAll]
      | cons kb r =>
        simp only [update, visit, List.isEmpty_cons, Bool.false_eq_true, if_false]
        rw [updateClients_append, updateAll_eq_visit (kb :: r) [] _]
  | .mk cl ch, g :: p, u => by
      cases ch with
      | nil => by_cases hg : g = glob <;> simp [update, visit, visitAll, visitOne, hg]
      | cons kb r =>
        simp only [update, visit, List.isEmpty_cons, Bool.false_eq_true, if_false]
        by_cases hg : g = glob
        · simp only [hg, if_true]
          rw [updateClients_append, updateAll_eq_visit (kb :: r) p _]
        · simp only [hg, if_false]
          rw [updateClients_append, updateClients_append,
            updateOne_eq_visit (kb :: r) glob p _, updateOne_eq_visit (kb :: r) g p _]
theorem updateAll_eq_visit : ∀ (ch : List (String × Branch C)) (p : Path) (u : Option (List C)),
    updateAll ch p u = updateClients (visitAll ch p) u
  | [], p, u => by simp [updateAll, visitAll, updateClients]
  | (k, b) :: r, p, u => by
      simp only [updateAll, visitAll]
      rw [updateClients_append, update_eq_visit b p u, updateAll_eq_visit r p _]
theorem updateOne_eq_visit : ∀ (ch : List (String × Branch C)) (k : String) (p : Path)
    (u : Option (List C)), updateOne ch k p u = updateClients (visitOne ch k p) u
  | [], k, p, u => by simp [updateOne, visitOne, updateClients]
  | (k', b) :: r, k, p, u => by
      simp only [updateOne, visitOne]
      by_cases h : k' = k
      · simp only [h, if_true]; exact update_eq_visit b p u
      · simp only [h, if_false]; exact updateOne_eq_visit r k p u
end

/-- all paths of a notification: one set filter over the concatenated visits -/
theorem updateMany_eq_visit (t : Branch C) (ps : List Path) (u : Option (List C)) :
    updateMany t ps u = updateClients ((ps.map (visit t)).flatten) u := by
  induction ps generalizing u with
  | nil => simp [updateMany, updateClients]
  | cons p ps ih =>
    simp only [updateMany, List.map_cons, List.flatten_cons]
    rw [updateClients_append, update_eq_visit, ih]

/-! ### `compatible` -/

theorem compatible_nil_left (p : Path) : compatible [] p = true := by
  cases p <;> rfl

theorem compatible_nil_right (q : Path) : compatible q [] = true := by
  cases q <;> rfl

theorem compatible_cons_cons (k g : String) (q p : Path) :
    compatible (k :: q) (g :: p) = ((k == glob || g == glob || k == g) && compatible q p) := rfl

/-! ### multiplicity of a client in `visit` = number of its compatible registrations -/

/-- number of registrations of `c` in `l` whose query is compatible with `p` -/
def hits (l : List (C × Path)) (c : C) (p : Path) : Nat :=
  l.countP (fun r => r.1 == c && compatible r.2 p)

theorem hits_append (l₁ l₂ : List (C × Path)) (c : C) (p : Path) :
    hits (l₁ ++ l₂) c p = hits l₁ c p + hits l₂ c p := by
  simp [hits, List.countP_append]

theorem hits_clients (cl : List C) (c : C) (p : Path) :
    hits (cl.map (fun x => (x, ([] : Path)))) c p = cl.count c := by
  simp only [hits, List.countP_map, List.count_eq_countP]
  congr 1
  funext x
  simp [compatible_nil_left]

theorem hits_push_nil (l : List (C × Path)) (k : String) (c : C) :
    hits (l.map (push k)) c [] = hits l c [] := by
  simp only [hits, List.countP_map]
  congr 1
  funext x
  simp [push, compatible_nil_right]

theorem hits_push_glob (l : List (C × Path)) (k : String) (c : C) (p : Path) :
    hits (l.map (push k)) c (glob :: p) = hits l c p := by
  simp only [hits, List.countP_map]
  congr 1
  funext x
  simp [push, compatible_cons_cons]

theorem hits_push_lit (l : List (C × Path)) (k g : String) (c : C) (p : Path) (hg : g ≠ glob) :
    hits (l.map (push k)) c (g :: p) = if k = glob ∨ k = g then hits l c p else 0 := by
  simp only [hits, List.countP_map]
  by_cases h : k = glob ∨ k = g
  · rw [if_pos h]
    congr 1
    funext x
    rcases h with h | h <;> simp [push, compatible_cons_cons, h]
  · rw [if_neg h]
    rw [List.countP_eq_zero]
    intro x _
    have h1 : k ≠ glob := fun e => h (Or.inl e)
    have h2 : k ≠ g := fun e => h (Or.inr e)
    simp [push, compatible_cons_cons, h1, h2, hg]

omit [DecidableEq C] in
theorem visitOne_fresh {r : List (String × Branch C)} {k : String} (p : Path)
    (h : ∀ kb ∈ r, kb.1 ≠ k) : visitOne r k p = [] := by
  induction r with
  | nil => rfl
  | cons kb r ih =>
    obtain ⟨k', b⟩ := kb
    have hk : k' ≠ k := h (k', b) (List.mem_cons_self ..)
    simp only [visitOne, hk, if_false]
    exact ih (fun x hx => h x (List.mem_cons_of_mem _ hx))

mutual
theorem count_visit (c : C) : ∀ (b : Branch C) (p : Path), WF b →
    (visit b p).count c = hits (regs b) c p
  | .mk cl ch, [], h => by
      simp only [visit, regs, List.count_append, hits_append, hits_clients]
      rw [count_visitAll_nil c ch h.2]
  | .mk cl ch, g :: p, h => by
      simp only [visit, regs, List.count_append, hits_append, hits_clients]
      by_cases hg : g = glob
      · simp only [hg, if_true]
        rw [count_visitAll_glob c ch p h.2]
      · simp only [hg, if_false, List.count_append]
        rw [count_visitOne c ch g p hg h.2]
theorem count_visitAll_nil (c : C) : ∀ (ch : List (String × Branch C)), WFL ch →
    (visitAll ch []).count c = hits (regsL ch) c []
  | [], _ => by simp [visitAll, regsL, hits]
  | (k, b) :: r, h => by
      simp only [visitAll, regsL, List.count_append, hits_append, hits_push_nil]
      rw [count_visit c b [] h.1, count_visitAll_nil c r h.2.2]
theorem count_visitAll_glob (c : C) : ∀ (ch : List (String × Branch C)) (p : Path), WFL ch →
    (visitAll ch p).count c = hits (regsL ch) c (glob :: p)
  | [], _, _ => by simp [visitAll, regsL, hits]
  | (k, b) :: r, p, h => by
      simp only [visitAll, regsL, List.count_append, hits_append, hits_push_glob]
      rw [count_visit c b p h.1, count_visitAll_glob c r p h.2.2]
theorem count_visitOne (c : C) : ∀ (ch : List (String × Branch C)) (g : String) (p : Path),
    g ≠ glob → WFL ch →
    (visitOne ch glob p).count c + (visitOne ch g p).count c = hits (regsL ch) c (g :: p)
  | [], _, _, _, _ => by simp [visitOne, regsL, hits]
  | (k, b) :: r, g, p, hg, h => by
      have ih := count_visitOne c r g p hg h.2.2
      have ihb := count_visit c b p h.1
      simp only [visitOne, regsL, hits_append, hits_push_lit _ _ _ _ _ hg]
      by_cases h1 : k = glob
      · subst h1
        have hf : visitOne r glob p = [] := visitOne_fresh p h.2.1
        have hne : ¬ glob = g := fun e => hg e.symm
        rw [hf] at ih
        simp only [true_or, if_true, hne, if_false]
        simp only [List.count_nil, Nat.zero_add] at ih
        omega
      · by_cases h2 : k = g
        · subst h2
          have hf : visitOne r k p = [] := visitOne_fresh p h.2.1
          rw [hf] at ih
          simp only [h1, if_false, if_true, or_true]
          simp only [List.count_nil, Nat.add_zero] at ih
          omega
        · simp only [h1, h2, if_false, or_self]
          omega
end

/-! ### small facts about the client set and `regs` -/

theorem mem_insertClient (c x : C) (cl : List C) : x ∈ insertClient c cl ↔ x = c ∨ x ∈ cl := by
  unfold insertClient
  by_cases h : c ∈ cl
  · simp only [h, if_true]
    constructor
    · exact Or.inr
    · rintro (rfl | hx)
      · exact h
      · exact hx
  · simp only [h, if_false, List.mem_append, List.mem_singleton]
    exact Or.comm

theorem nodup_insertClient (c : C) {cl : List C} (h : cl.Nodup) : (insertClient c cl).Nodup := by
  unfold insertClient
  by_cases hc : c ∈ cl
  · simpa [hc] using h
  · simp only [hc, if_false]
    rw [List.nodup_append]
    refine ⟨h, by simp, ?_⟩
    intro a ha b hb
    rw [List.mem_singleton] at hb
    subst hb
    exact fun e => hc (e ▸ ha)

theorem nodup_deleteClient (c : C) {cl : List C} (h : cl.Nodup) : (deleteClient c cl).Nodup :=
  List.Nodup.sublist List.filter_sublist h

theorem deleteClient_insertClient (c : C) {cl : List C} (h : c ∉ cl) :
    deleteClient c (insertClient c cl) = cl := by
  unfold insertClient deleteClient
  simp only [h, if_false, List.filter_append]
  have : cl.filter (fun x => decide (x ≠ c)) = cl := by
    rw [List.filter_eq_self]
    intro a ha
    simp only [ne_eq, decide_eq_true_eq]
    exact fun e => h (e ▸ ha)
  rw [this]
  simp

theorem deleteClient_idem (c : C) (cl : List C) :
    deleteClient c (deleteClient c cl) = deleteClient c cl := by
  unfold deleteClient
  rw [List.filter_filter]
  congr 1
  funext x
  simp

omit [DecidableEq C] in
theorem push_inj {k : String} {a b : C × Path} (h : push k a = push k b) : a = b := by
  cases a; cases b; simp [push] at h; simp [h]

omit [DecidableEq C] in
/-- registrations below a child list start with one of the child names -/
theorem head_of_mem_regsL {ch : List (String × Branch C)} {x : C × Path} (h : x ∈ regsL ch) :
    ∃ kb ∈ ch, ∃ q, x.2 = kb.1 :: q := by
  induction ch with
  | nil => simp [regsL] at h
  | cons kb r ih =>
    obtain ⟨k, b⟩ := kb
    simp only [regsL, List.mem_append, List.mem_map] at h
    rcases h with ⟨y, _, rfl⟩ | h
    · exact ⟨(k, b), List.mem_cons_self .., y.2, rfl⟩
    · obtain ⟨kb, hm, q, hq⟩ := ih h
      exact ⟨kb, List.mem_cons_of_mem _ hm, q, hq⟩

omit [DecidableEq C] in
theorem regs_chain (q : Path) (c : C) : regs (chain q c) = [(c, q)] := by
  induction q with
  | nil => simp [chain, regs, regsL]
  | cons k q ih => simp [chain, regs, regsL, ih, push]

theorem isEmptyB_regs {b : Branch C} (h : isEmptyB b = true) : regs b = [] := by
  obtain ⟨cl, ch⟩ := b
  simp only [isEmptyB, Bool.and_eq_true, List.isEmpty_iff] at h
  simp [regs, regsL, h.1, h.2]

/-! ### `addQuery` -/

mutual
theorem mem_regs_addQuery (c : C) (x : C × Path) : ∀ (b : Branch C) (q : Path),
    x ∈ regs (addQuery b q c) ↔ x = (c, q) ∨ x ∈ regs b
  | .mk cl ch, [] => by
      simp only [addQuery, regs, List.mem_append, List.mem_map, mem_insertClient]
      constructor
      · rintro (⟨y, (rfl | hy), rfl⟩ | h)
        · exact Or.inl rfl
        · exact Or.inr (Or.inl ⟨y, hy, rfl⟩)
        · exact Or.inr (Or.inr h)
      · rintro (rfl | ⟨y, hy, rfl⟩ | h)
        · exact Or.inl ⟨c, Or.inl rfl, rfl⟩
        · exact Or.inl ⟨y, Or.inr hy, rfl⟩
        · exact Or.inr h
  | .mk cl ch, k :: q => by
      simp only [addQuery, regs, List.mem_append, mem_regsL_addQueryL c x ch k q]
      constructor
      · rintro (h | h | h)
        · exact Or.inr (Or.inl h)
        · exact Or.inl h
        · exact Or.inr (Or.inr h)
      · rintro (h | h | h)
        · exact Or.inr (Or.inl h)
        · exact Or.inl h
        · exact Or.inr (Or.inr h)
theorem mem_regsL_addQueryL (c : C) (x : C × Path) : ∀ (ch : List (String × Branch C)) (k : String)
    (q : Path), x ∈ regsL (addQueryL ch k q c) ↔ x = (c, k :: q) ∨ x ∈ regsL ch
  | [], k, q => by simp [addQueryL, regsL, regs_chain, push]
  | (k', b) :: r, k, q => by
      by_cases h : k' = k
      · subst h
        simp only [addQueryL, if_true, regsL, List.mem_append, List.mem_map,
          mem_regs_addQuery c _ b q]
        constructor
        · rintro (⟨y, (rfl | hy), rfl⟩ | h)
          · exact Or.inl rfl
          · exact Or.inr (Or.inl ⟨y, hy, rfl⟩)
          · exact Or.inr (Or.inr h)
        · rintro (rfl | ⟨y, hy, rfl⟩ | h)
          · exact Or.inl ⟨(c, q), Or.inl rfl, rfl⟩
          · exact Or.inl ⟨y, Or.inr hy, rfl⟩
          · exact Or.inr h
      · simp only [addQueryL, h, if_false, regsL, List.mem_append,
          mem_regsL_addQueryL c x r k q]
        constructor
        · rintro (h | h | h)
          · exact Or.inr (Or.inl h)
          · exact Or.inl h
          · exact Or.inr (Or.inr h)
        · rintro (h | h | h)
          · exact Or.inr (Or.inl h)
          · exact Or.inl h
          · exact Or.inr (Or.inr h)
end

theorem keys_addQueryL (c : C) (k : String) (q : Path) : ∀ (ch : List (String × Branch C)),
    ∀ kb ∈ addQueryL ch k q c, kb.1 = k ∨ ∃ kb' ∈ ch, kb'.1 = kb.1
  | [], kb, h => by
      simp only [addQueryL, List.mem_singleton] at h
      exact Or.inl (by rw [h])
  | (k', b) :: r, kb, h => by
      by_cases hk : k' = k
      · simp only [addQueryL, hk, if_true, List.mem_cons] at h
        rcases h with rfl | h
        · exact Or.inl rfl
        · exact Or.inr ⟨kb, List.mem_cons_of_mem _ h, rfl⟩
      · simp only [addQueryL, hk, if_false, List.mem_cons] at h
        rcases h with rfl | h
        · exact Or.inr ⟨(k', b), List.mem_cons_self .., rfl⟩
        · rcases keys_addQueryL c k q r kb h with h | ⟨kb', hm, he⟩
          · exact Or.inl h
          · exact Or.inr ⟨kb', List.mem_cons_of_mem _ hm, he⟩

theorem wf_chain (q : Path) (c : C) : WF (chain q c) := by
  induction q with
  | nil => simp [chain, WF, WFL]
  | cons k q ih => simp [chain, WF, WFL, ih]

mutual
theorem wf_addQuery (c : C) : ∀ (b : Branch C) (q : Path), WF b → WF (addQuery b q c)
  | .mk cl ch, [], h => ⟨nodup_insertClient c h.1, h.2⟩
  | .mk cl ch, k :: q, h => ⟨h.1, wfL_addQueryL c ch k q h.2⟩
theorem wfL_addQueryL (c : C) : ∀ (ch : List (String × Branch C)) (k : String) (q : Path),
    WFL ch → WFL (addQueryL ch k q c)
  | [], k, q, _ => by simp [addQueryL, WFL, wf_chain]
  | (k', b) :: r, k, q, h => by
      by_cases hk : k' = k
      · simp only [addQueryL, hk, if_true]
        exact ⟨wf_addQuery c b q h.1, hk ▸ h.2.1, h.2.2⟩
      · simp only [addQueryL, hk, if_false]
        refine ⟨h.1, ?_, wfL_addQueryL c r k q h.2.2⟩
        intro kb hkb
        rcases keys_addQueryL c k q r kb hkb with e | ⟨kb', hm, he⟩
        · rw [e]; exact fun e' => hk e'.symm
        · rw [← he]; exact h.2.1 kb' hm
end

theorem isEmptyB_chain (q : Path) (c : C) : isEmptyB (chain q c) = false := by
  cases q <;> simp [chain, isEmptyB]

theorem tight_chain (q : Path) (c : C) : Tight (chain q c) := by
  induction q with
  | nil => simp [chain, Tight, TightL]
  | cons k q ih => simp [chain, Tight, TightL, ih, isEmptyB_chain]

theorem isEmptyB_addQuery (c : C) (b : Branch C) (q : Path) : isEmptyB (addQuery b q c) = false := by
  obtain ⟨cl, ch⟩ := b
  cases q with
  | nil =>
    have : insertClient c cl ≠ [] := by
      intro e
      have := (mem_insertClient c c cl).2 (Or.inl rfl)
      rw [e] at this
      cases this
    simp [addQuery, isEmptyB, this]
  | cons k q =>
    have : addQueryL ch k q c ≠ [] := by
      cases ch with
      | nil => simp [addQueryL]
      | cons kb r =>
        obtain ⟨k', b⟩ := kb
        by_cases hk : k' = k <;> simp [addQueryL, hk]
    simp [addQuery, isEmptyB, this]

mutual
theorem tight_addQuery (c : C) : ∀ (b : Branch C) (q : Path), Tight b → Tight (addQuery b q c)
  | .mk cl ch, [], h => h
  | .mk cl ch, k :: q, h => tightL_addQueryL c ch k q h
theorem tightL_addQueryL (c : C) : ∀ (ch : List (String × Branch C)) (k : String) (q : Path),
    TightL ch → TightL (addQueryL ch k q c)
  | [], k, q, _ => by simp [addQueryL, TightL, tight_chain, isEmptyB_chain]
  | (k', b) :: r, k, q, h => by
      by_cases hk : k' = k
      · simp only [addQueryL, hk, if_true]
        exact ⟨isEmptyB_addQuery c b q, tight_addQuery c b q h.2.1, h.2.2⟩
      · simp only [addQueryL, hk, if_false]
        exact ⟨h.1, h.2.1, tightL_addQueryL c r k q h.2.2⟩
end

/-! ### `removeQuery` -/

theorem keys_removeQueryL (c : C) (k : String) (q : Path) : ∀ (ch : List (String × Branch C)),
    ∀ kb ∈ removeQueryL ch k q c, ∃ kb' ∈ ch, kb'.1 = kb.1
  | [], kb, h => by simp [removeQueryL] at h
  | (k', b) :: r, kb, h => by
      by_cases hk : k' = k
      · simp only [removeQueryL, hk, if_true] at h
        rcases Bool.eq_false_or_eq_true (isEmptyB (removeQuery b q c)) with he | he
        · simp only [he, if_true] at h
          exact ⟨kb, List.mem_cons_of_mem _ h, rfl⟩
        · simp only [he, Bool.false_eq_true, if_false, List.mem_cons] at h
          rcases h with rfl | h
          · exact ⟨(k', b), List.mem_cons_self .., hk⟩
          · exact ⟨kb, List.mem_cons_of_mem _ h, rfl⟩
      · simp only [removeQueryL, hk, if_false, List.mem_cons] at h
        rcases h with rfl | h
        · exact ⟨(k', b), List.mem_cons_self .., rfl⟩
        · obtain ⟨kb', hm, he⟩ := keys_removeQueryL c k q r kb h
          exact ⟨kb', List.mem_cons_of_mem _ hm, he⟩

/-- no child named `k`: the remove closure finds nothing (`!ok`) -/
theorem removeQueryL_fresh (c : C) (q : Path) {k : String} : ∀ {r : List (String × Branch C)},
    (∀ kb ∈ r, kb.1 ≠ k) → removeQueryL r k q c = r
  | [], _ => rfl
  | (k', b) :: r, h => by
      have hk : k' ≠ k := h (k', b) (List.mem_cons_self ..)
      simp only [removeQueryL, hk, if_false]
      rw [removeQueryL_fresh c q (fun x hx => h x (List.mem_cons_of_mem _ hx))]

mutual
theorem wf_removeQuery (c : C) : ∀ (b : Branch C) (q : Path), WF b → WF (removeQuery b q c)
  | .mk cl ch, [], h => ⟨nodup_deleteClient c h.1, h.2⟩
  | .mk cl ch, k :: q, h => ⟨h.1, wfL_removeQueryL c ch k q h.2⟩
theorem wfL_removeQueryL (c : C) : ∀ (ch : List (String × Branch C)) (k : String) (q : Path),
    WFL ch → WFL (removeQueryL ch k q c)
  | [], k, q, _ => by simp [removeQueryL, WFL]
  | (k', b) :: r, k, q, h => by
      by_cases hk : k' = k
      · simp only [removeQueryL, hk, if_true]
        rcases Bool.eq_false_or_eq_true (isEmptyB (removeQuery b q c)) with he | he
        · simp only [he, if_true]; exact h.2.2
        · simp only [he, Bool.false_eq_true, if_false]
          exact ⟨wf_removeQuery c b q h.1, hk ▸ h.2.1, h.2.2⟩
      · simp only [removeQueryL, hk, if_false]
        refine ⟨h.1, ?_, wfL_removeQueryL c r k q h.2.2⟩
        intro kb hkb
        obtain ⟨kb', hm, he⟩ := keys_removeQueryL c k q r kb hkb
        rw [← he]; exact h.2.1 kb' hm
end

mutual
theorem tight_removeQuery (c : C) : ∀ (b : Branch C) (q : Path), Tight b → Tight (removeQuery b q c)
  | .mk cl ch, [], h => h
  | .mk cl ch, k :: q, h => tightL_removeQueryL c ch k q h
theorem tightL_removeQueryL (c : C) : ∀ (ch : List (String × Branch C)) (k : String) (q : Path),
    TightL ch → TightL (removeQueryL ch k q c)
  | [], k, q, _ => by simp [removeQueryL, TightL]
  | (k', b) :: r, k, q, h => by
      by_cases hk : k' = k
      · simp only [removeQueryL, hk, if_true]
        rcases Bool.eq_false_or_eq_true (isEmptyB (removeQuery b q c)) with he | he
        · simp only [he, if_true]; exact h.2.2
        · simp only [he, Bool.false_eq_true, if_false]
          exact ⟨he, tight_removeQuery c b q h.2.1, h.2.2⟩
      · simp only [removeQueryL, hk, if_false]
        exact ⟨h.1, h.2.1, tightL_removeQueryL c r k q h.2.2⟩
end

theorem filter_regsL_of_fresh {r : List (String × Branch C)} {k : String} (c : C) (q : Path)
    (h : ∀ kb ∈ r, kb.1 ≠ k) :
    (regsL r).filter (fun x => decide (x ≠ (c, k :: q))) = regsL r := by
  rw [List.filter_eq_self]
  intro x hx
  obtain ⟨kb, hm, q', hq'⟩ := head_of_mem_regsL hx
  simp only [ne_eq, decide_eq_true_eq]
  intro e
  rw [e] at hq'
  simp only [List.cons.injEq] at hq'
  exact h kb hm hq'.1.symm

theorem filter_push (k : String) (c : C) (q : Path) (l : List (C × Path)) :
    (l.map (push k)).filter (fun x => decide (x ≠ (c, k :: q))) =
      (l.filter (fun x => decide (x ≠ (c, q)))).map (push k) := by
  rw [List.filter_map]
  congr 1
  apply List.filter_congr
  intro x _
  obtain ⟨a, b⟩ := x
  simp [push]

theorem filter_push_other {k' k : String} (hk : k' ≠ k) (c : C) (q : Path) (l : List (C × Path)) :
    (l.map (push k')).filter (fun x => decide (x ≠ (c, k :: q))) = l.map (push k') := by
  rw [List.filter_eq_self]
  intro x hx
  obtain ⟨y, _, rfl⟩ := List.mem_map.1 hx
  simp [push, hk]

mutual
/-- running the remove closure for `(q, c)` removes exactly that registration -/
theorem regs_removeQuery (c : C) : ∀ (b : Branch C) (q : Path), WF b →
    regs (removeQuery b q c) = (regs b).filter (fun x => decide (x ≠ (c, q)))
  | .mk cl ch, [], h => by
      simp only [removeQuery, regs, List.filter_append]
      congr 1
      · unfold deleteClient
        rw [List.filter_map]
        congr 1
        apply List.filter_congr
        intro x _
        simp
      · symm
        rw [List.filter_eq_self]
        intro x hx
        obtain ⟨kb, _, q', hq'⟩ := head_of_mem_regsL hx
        simp only [ne_eq, decide_eq_true_eq]
        intro e
        rw [e] at hq'
        cases hq'
  | .mk cl ch, k :: q, h => by
      simp only [removeQuery, regs, List.filter_append]
      rw [regsL_removeQueryL c ch k q h.2]
      congr 1
      symm
      rw [List.filter_eq_self]
      intro x hx
      obtain ⟨y, _, rfl⟩ := List.mem_map.1 hx
      simp
theorem regsL_removeQueryL (c : C) : ∀ (ch : List (String × Branch C)) (k : String) (q : Path),
    WFL ch → regsL (removeQueryL ch k q c) = (regsL ch).filter (fun x => decide (x ≠ (c, k :: q)))
  | [], k, q, _ => by simp [removeQueryL, regsL]
  | (k', b) :: r, k, q, h => by
      by_cases hk : k' = k
      · subst hk
        have ih := regs_removeQuery c b q h.1
        simp only [removeQueryL, if_true, regsL, List.filter_append, filter_push,
          filter_regsL_of_fresh c q h.2.1]
        rcases Bool.eq_false_or_eq_true (isEmptyB (removeQuery b q c)) with he | he
        · simp only [he, if_true]
          rw [← ih, isEmptyB_regs he]
          simp
        · simp only [he, Bool.false_eq_true, if_false, regsL, ih]
      · simp only [removeQueryL, hk, if_false, regsL, List.filter_append,
          filter_push_other hk, regsL_removeQueryL c r k q h.2.2]
end

mutual
/-- "The remove function is idempotent." -/
theorem removeQuery_idem (c : C) : ∀ (b : Branch C) (q : Path), WF b →
    removeQuery (removeQuery b q c) q c = removeQuery b q c
  | .mk cl ch, [], _ => by simp [removeQuery, deleteClient_idem]
  | .mk cl ch, k :: q, h => by
      simp only [removeQuery]
      rw [removeQueryL_idem c ch k q h.2]
theorem removeQueryL_idem (c : C) : ∀ (ch : List (String × Branch C)) (k : String) (q : Path),
    WFL ch → removeQueryL (removeQueryL ch k q c) k q c = removeQueryL ch k q c
  | [], k, q, _ => by simp [removeQueryL]
  | (k', b) :: r, k, q, h => by
      by_cases hk : k' = k
      · subst hk
        rcases Bool.eq_false_or_eq_true (isEmptyB (removeQuery b q c)) with he | he
        · simp only [removeQueryL, if_true, he]
          exact removeQueryL_fresh c q h.2.1
        · simp only [removeQueryL, if_true, he, Bool.false_eq_true, if_false, removeQuery_idem c b q h.1]
      · simp only [removeQueryL, hk, if_false, removeQueryL_idem c r k q h.2.2]
end

theorem isEmptyB_remove_chain (c : C) (q : Path) : isEmptyB (removeQuery (chain q c) q c) = true := by
  induction q with
  | nil => simp [chain, removeQuery, deleteClient, isEmptyB]
  | cons k q ih =>
    simp only [chain, removeQuery, removeQueryL, if_true, ih]
    rfl

mutual
/-- the remove closure undoes its `AddQuery` exactly (pruning restores the shape) -/
theorem removeQuery_addQuery (c : C) : ∀ (b : Branch C) (q : Path), Tight b →
    (c, q) ∉ regs b → removeQuery (addQuery b q c) q c = b
  | .mk cl ch, [], _, hn => by
      have : c ∉ cl := by
        intro hc
        apply hn
        simp only [regs, List.mem_append, List.mem_map]
        exact Or.inl ⟨c, hc, rfl⟩
      simp [addQuery, removeQuery, deleteClient_insertClient c this]
  | .mk cl ch, k :: q, ht, hn => by
      simp only [addQuery, removeQuery]
      rw [removeQueryL_addQueryL c ch k q ht (by
        intro hc
        apply hn
        simp only [regs, List.mem_append]
        exact Or.inr hc)]
theorem removeQueryL_addQueryL (c : C) : ∀ (ch : List (String × Branch C)) (k : String) (q : Path),
    TightL ch → (c, k :: q) ∉ regsL ch → removeQueryL (addQueryL ch k q c) k q c = ch
  | [], k, q, _, _ => by simp [addQueryL, removeQueryL, isEmptyB_remove_chain]
  | (k', b) :: r, k, q, ht, hn => by
      by_cases hk : k' = k
      · subst hk
        have hb : (c, q) ∉ regs b := by
          intro hc
          apply hn
          simp only [regsL, List.mem_append, List.mem_map]
          exact Or.inl ⟨(c, q), hc, rfl⟩
        simp only [addQueryL, if_true, removeQueryL, removeQuery_addQuery c b q ht.2.1 hb, ht.1]
        simp
      · have hr : (c, k :: q) ∉ regsL r := by
          intro hc
          apply hn
          simp only [regsL, List.mem_append]
          exact Or.inr hc
        simp only [addQueryL, hk, if_false, removeQueryL,
          removeQueryL_addQueryL c r k q ht.2.2 hr]
end

/-! ### `regs` of a well-formed trie has no repetition -/

mutual
theorem nodup_regs : ∀ (b : Branch C), WF b → (regs b).Nodup
  | .mk cl ch, h => by
      simp only [regs]
      rw [List.nodup_append]
      refine ⟨List.Pairwise.map _ (fun a b hab e => hab (by simpa using e)) h.1,
        nodup_regsL ch h.2, ?_⟩
      intro a ha b hb e
      obtain ⟨y, _, rfl⟩ := List.mem_map.1 ha
      obtain ⟨kb, _, q', hq'⟩ := head_of_mem_regsL hb
      rw [← e] at hq'
      cases hq'
theorem nodup_regsL : ∀ (ch : List (String × Branch C)), WFL ch → (regsL ch).Nodup
  | [], _ => by simp [regsL]
  | (k, b) :: r, h => by
      simp only [regsL]
      rw [List.nodup_append]
      refine ⟨List.Pairwise.map _ (fun a b hab e => hab (push_inj e)) (nodup_regs b h.1),
        nodup_regsL r h.2.2, ?_⟩
      intro x hx y hy e
      obtain ⟨z, _, rfl⟩ := List.mem_map.1 hx
      obtain ⟨kb, hm, q', hq'⟩ := head_of_mem_regsL hy
      rw [← e] at hq'
      simp only [push, List.cons.injEq] at hq'
      exact h.2.1 kb hm hq'.1.symm
end

/-! ### histories: the trie refines the registration set -/

/-- the refinement invariant between a trie and the abstract registration set -/
def Inv (t : Branch C) (s : Regs C) : Prop :=
  WF t ∧ Tight t ∧ s.Nodup ∧ ∀ x, x ∈ regs t ↔ x ∈ s

theorem inv_empty : Inv (Branch.empty : Branch C) [] := by
  refine ⟨?_, ?_, List.nodup_nil, ?_⟩ <;> simp [Branch.empty, WF, WFL, Tight, TightL, regs, regsL]

theorem Regs.mem_add (s : Regs C) (q : Path) (c : C) (x : C × Path) :
    x ∈ Regs.add s q c ↔ x = (c, q) ∨ x ∈ s := by
  unfold Regs.add
  by_cases h : (c, q) ∈ s
  · simp only [h, if_true]
    constructor
    · exact Or.inr
    · rintro (rfl | hx)
      · exact h
      · exact hx
  · simp [h]

theorem Regs.mem_remove (s : Regs C) (q : Path) (c : C) (x : C × Path) :
    x ∈ Regs.remove s q c ↔ x ∈ s ∧ x ≠ (c, q) := by
  simp [Regs.remove, List.mem_filter]

theorem inv_step {t : Branch C} {s : Regs C} (h : Inv t s) (op : Op C) :
    Inv (stepTrie t op) (stepSpec s op) := by
  obtain ⟨hw, ht, hn, hm⟩ := h
  cases op with
  | add c q =>
    refine ⟨wf_addQuery c t q hw, tight_addQuery c t q ht, ?_, ?_⟩
    · simp only [stepSpec, Regs.add]
      by_cases hc : (c, q) ∈ s
      · simpa [hc] using hn
      · simp only [hc, if_false]
        exact List.nodup_cons.2 ⟨hc, hn⟩
    · intro x
      simp only [stepTrie, stepSpec]
      rw [mem_regs_addQuery, Regs.mem_add, hm x]
  | remove c q =>
    refine ⟨wf_removeQuery c t q hw, tight_removeQuery c t q ht,
      List.Nodup.sublist List.filter_sublist hn, ?_⟩
    intro x
    simp only [stepTrie, stepSpec]
    rw [regs_removeQuery c t q hw, Regs.mem_remove, List.mem_filter, hm x]
    simp

theorem inv_foldl (ops : List (Op C)) : ∀ {t : Branch C} {s : Regs C}, Inv t s →
    Inv (ops.foldl stepTrie t) (ops.foldl stepSpec s) := by
  induction ops with
  | nil => intro t s h; exact h
  | cons op ops ih => intro t s h; exact ih (inv_step h op)

theorem inv_run (ops : List (Op C)) : Inv (runTrie ops) (runSpec ops) :=
  inv_foldl ops inv_empty

/-- under the invariant, counting compatible registrations gives the same number on both sides -/
theorem hits_of_inv {t : Branch C} {s : Regs C} (h : Inv t s) (c : C) (p : Path) :
    hits (regs t) c p = hits s c p := by
  obtain ⟨hw, _, hn, hm⟩ := h
  exact List.Perm.countP_eq _ ((List.perm_ext_iff_of_nodup (nodup_regs t hw) hn).2 hm)

/-! ### `Registered`: the registration set read off the history -/

theorem registered_nil (c : C) (q : Path) : ¬ Registered ([] : List (Op C)) c q := by
  rintro ⟨pre, post, h, _⟩
  cases pre <;> simp at h

theorem registered_cons (op : Op C) (ops : List (Op C)) (c : C) (q : Path) :
    Registered (op :: ops) c q ↔ (op = Op.add c q ∧ Op.remove c q ∉ ops) ∨ Registered ops c q := by
  constructor
  · rintro ⟨pre, post, h, hn⟩
    cases pre with
    | nil =>
      simp only [List.nil_append, List.cons.injEq] at h
      exact Or.inl ⟨h.1, h.2 ▸ hn⟩
    | cons a pre =>
      simp only [List.cons_append, List.cons.injEq] at h
      exact Or.inr ⟨pre, post, h.2, hn⟩
  · rintro (⟨rfl, hn⟩ | ⟨pre, post, h, hn⟩)
    · exact ⟨[], ops, rfl, hn⟩
    · exact ⟨op :: pre, post, by simp [h], hn⟩

theorem mem_foldl_spec (c : C) (q : Path) : ∀ (ops : List (Op C)) (s : Regs C),
    (c, q) ∈ ops.foldl stepSpec s ↔ ((c, q) ∈ s ∧ Op.remove c q ∉ ops) ∨ Registered ops c q
  | [], s => by simp [registered_nil]
  | op :: ops, s => by
      rw [List.foldl_cons, mem_foldl_spec c q ops, registered_cons]
      cases op with
      | add c' q' =>
        simp only [stepSpec, Regs.mem_add, List.mem_cons, Prod.mk.injEq, Op.add.injEq, reduceCtorEq,
          false_or]
        constructor
        · rintro (⟨(⟨rfl, rfl⟩ | h), hn⟩ | h)
          · exact Or.inr (Or.inl ⟨⟨rfl, rfl⟩, hn⟩)
          · exact Or.inl ⟨h, hn⟩
          · exact Or.inr (Or.inr h)
        · rintro (⟨h, hn⟩ | ⟨⟨rfl, rfl⟩, hn⟩ | h)
          · exact Or.inl ⟨Or.inr h, hn⟩
          · exact Or.inl ⟨Or.inl ⟨rfl, rfl⟩, hn⟩
          · exact Or.inr h
      | remove c' q' =>
        simp only [stepSpec, Regs.mem_remove, List.mem_cons, Op.remove.injEq, reduceCtorEq,
          false_and, false_or, ne_eq, Prod.mk.injEq, not_or]
        constructor
        · rintro (⟨⟨h, hne⟩, hn⟩ | h)
          · exact Or.inl ⟨h, hne, hn⟩
          · exact Or.inr h
        · rintro (⟨h, hne, hn⟩ | h)
          · exact Or.inl ⟨⟨h, hne⟩, hn⟩
          · exact Or.inr h

theorem mem_runSpec (ops : List (Op C)) (c : C) (q : Path) :
    (c, q) ∈ runSpec ops ↔ Registered ops c q := by
  unfold runSpec
  rw [mem_foldl_spec]
  simp

theorem runTrie_append (a b : List (Op C)) : runTrie (a ++ b) = b.foldl stepTrie (runTrie a) := by
  simp [runTrie, List.foldl_append]

theorem runSpec_append (a b : List (Op C)) : runSpec (a ++ b) = b.foldl stepSpec (runSpec a) := by
  simp [runSpec, List.foldl_append]

/-- a registration present at the end was added at some point or was there from the start -/
theorem add_mem_of_registered {ops : List (Op C)} {c : C} {q : Path} (h : Registered ops c q) :
    Op.add c q ∈ ops := by
  obtain ⟨pre, post, rfl, _⟩ := h
  simp

/-! ### `dedup`, `prefixes` -/

theorem mem_dedup {α : Type} [DecidableEq α] (a : α) : ∀ (l : List α), a ∈ dedup l ↔ a ∈ l
  | [] => by simp [dedup]
  | b :: l => by
      by_cases h : b ∈ l
      · simp only [dedup, h, if_true, mem_dedup a l, List.mem_cons]
        constructor
        · exact Or.inr
        · rintro (rfl | h')
          · exact h
          · exact h'
      · simp only [dedup, h, if_false, List.mem_cons, mem_dedup a l]

theorem nodup_dedup {α : Type} [DecidableEq α] : ∀ (l : List α), (dedup l).Nodup
  | [] => by simp [dedup]
  | b :: l => by
      by_cases h : b ∈ l
      · simp only [dedup, h, if_true]; exact nodup_dedup l
      · simp only [dedup, h, if_false]
        exact List.nodup_cons.2 ⟨fun hb => h ((mem_dedup b l).1 hb), nodup_dedup l⟩

theorem mem_prefixes (p : Path) : ∀ (q : Path), p ∈ prefixes q ↔ p <+: q
  | [] => by simp [prefixes]
  | a :: q => by
      simp only [prefixes, List.mem_cons, List.mem_map, List.prefix_cons_iff]
      constructor
      · rintro (rfl | ⟨t, ht, rfl⟩)
        · exact Or.inl rfl
        · exact Or.inr ⟨t, rfl, (mem_prefixes t q).1 ht⟩
      · rintro (rfl | ⟨t, rfl, ht⟩)
        · exact Or.inl rfl
        · exact Or.inr ⟨t, (mem_prefixes t q).2 ht, rfl⟩

/-! ### the node count of a reachable trie is minimal: one node per distinct query prefix -/

mutual
/-- the paths of all nodes -/
def nodePaths : Branch C → List Path
  | .mk _ ch => [] :: nodePathsL ch
def nodePathsL : List (String × Branch C) → List Path
  | [] => []
  | (k, b) :: r => (nodePaths b).map (k :: ·) ++ nodePathsL r
end

mutual
theorem length_nodePaths : ∀ (b : Branch C), (nodePaths b).length = nodes b
  | .mk _ ch => by simp [nodePaths, nodes, length_nodePathsL ch, Nat.add_comm]
theorem length_nodePathsL : ∀ (ch : List (String × Branch C)), (nodePathsL ch).length = nodesL ch
  | [] => rfl
  | (k, b) :: r => by simp [nodePathsL, nodesL, length_nodePaths b, length_nodePathsL r]
end

theorem head_of_mem_nodePathsL {ch : List (String × Branch C)} {p : Path} (h : p ∈ nodePathsL ch) :
    ∃ kb ∈ ch, ∃ p', p = kb.1 :: p' := by
  induction ch with
  | nil => simp [nodePathsL] at h
  | cons kb r ih =>
    obtain ⟨k, b⟩ := kb
    simp only [nodePathsL, List.mem_append, List.mem_map] at h
    rcases h with ⟨y, _, rfl⟩ | h
    · exact ⟨(k, b), List.mem_cons_self .., y, rfl⟩
    · obtain ⟨kb, hm, p', hp'⟩ := ih h
      exact ⟨kb, List.mem_cons_of_mem _ hm, p', hp'⟩

mutual
theorem nodup_nodePaths : ∀ (b : Branch C), WF b → (nodePaths b).Nodup
  | .mk cl ch, h => by
      simp only [nodePaths]
      refine List.nodup_cons.2 ⟨?_, nodup_nodePathsL ch h.2⟩
      intro hm
      obtain ⟨_, _, p', hp'⟩ := head_of_mem_nodePathsL hm
      cases hp'
theorem nodup_nodePathsL : ∀ (ch : List (String × Branch C)), WFL ch → (nodePathsL ch).Nodup
  | [], _ => by simp [nodePathsL]
  | (k, b) :: r, h => by
      simp only [nodePathsL]
      rw [List.nodup_append]
      refine ⟨List.Pairwise.map _ (fun a b hab e => hab (by simpa using e)) (nodup_nodePaths b h.1),
        nodup_nodePathsL r h.2.2, ?_⟩
      intro x hx y hy e
      obtain ⟨z, _, rfl⟩ := List.mem_map.1 hx
      obtain ⟨kb, hm, p', hp'⟩ := head_of_mem_nodePathsL hy
      rw [← e] at hp'
      simp only [List.cons.injEq] at hp'
      exact h.2.1 kb hm hp'.1.symm
end

mutual
/-- a non-empty node of a pruned trie holds a registration at or below it -/
theorem regs_ne_nil : ∀ (b : Branch C), Tight b → isEmptyB b = false → regs b ≠ []
  | .mk [] [], _, he => by simp [isEmptyB] at he
  | .mk (c :: cl) ch, _, _ => by simp [regs]
  | .mk [] (kb :: r), ht, _ => by
      have := regsL_ne_nil (kb :: r) ht (by simp)
      simpa [regs] using this
theorem regsL_ne_nil : ∀ (ch : List (String × Branch C)), TightL ch → ch ≠ [] → regsL ch ≠ []
  | [], _, h => absurd rfl h
  | (k, b) :: r, ht, _ => by
      have := regs_ne_nil b ht.2.1 ht.1
      simp [regsL, this]
end

mutual
theorem mem_nodePaths (p : Path) : ∀ (b : Branch C), Tight b →
    (p ∈ nodePaths b ↔ p = [] ∨ ∃ x ∈ regs b, p <+: x.2)
  | .mk cl ch, ht => by
      simp only [nodePaths, List.mem_cons, regs, List.mem_append, List.mem_map]
      rw [mem_nodePathsL p ch ht]
      constructor
      · rintro (h | ⟨_, x, hx, hp⟩)
        · exact Or.inl h
        · exact Or.inr ⟨x, Or.inr hx, hp⟩
      · rintro (h | ⟨x, (⟨c, _, rfl⟩ | hx), hp⟩)
        · exact Or.inl h
        · exact Or.inl (List.prefix_nil.1 hp)
        · by_cases h0 : p = []
          · exact Or.inl h0
          · exact Or.inr ⟨h0, x, hx, hp⟩
theorem mem_nodePathsL (p : Path) : ∀ (ch : List (String × Branch C)), TightL ch →
    (p ∈ nodePathsL ch ↔ p ≠ [] ∧ ∃ x ∈ regsL ch, p <+: x.2)
  | [], _ => by simp [nodePathsL, regsL]
  | (k, b) :: r, ht => by
      simp only [nodePathsL, regsL, List.mem_append, List.mem_map]
      rw [mem_nodePathsL p r ht.2.2]
      constructor
      · rintro (⟨p', hp', rfl⟩ | ⟨hne, x, hx, hp⟩)
        · refine ⟨by simp, ?_⟩
          rcases (mem_nodePaths p' b ht.2.1).1 hp' with rfl | ⟨y, hy, hpy⟩
          · obtain ⟨y, hy⟩ := List.exists_mem_of_ne_nil _ (regs_ne_nil b ht.2.1 ht.1)
            exact ⟨push k y, Or.inl ⟨y, hy, rfl⟩, by simp [push, List.prefix_cons_iff]⟩
          · exact ⟨push k y, Or.inl ⟨y, hy, rfl⟩, by simpa [push, List.cons_prefix_cons] using hpy⟩
        · exact ⟨hne, x, Or.inr hx, hp⟩
      · rintro ⟨hne, x, (⟨y, hy, rfl⟩ | hx), hp⟩
        · simp only [push, List.prefix_cons_iff] at hp
          rcases hp with rfl | ⟨t, rfl, ht'⟩
          · exact absurd rfl hne
          · exact Or.inl ⟨t, (mem_nodePaths t b ht.2.1).2 (by
              by_cases h0 : t = []
              · exact Or.inl h0
              · exact Or.inr ⟨y, hy, ht'⟩), rfl⟩
        · exact Or.inr ⟨hne, x, hx, hp⟩
end

/-- under the invariant the trie has exactly one node per distinct prefix of a registered query -/
theorem nodes_of_inv {t : Branch C} {s : Regs C} (h : Inv t s) : nodes t = Regs.nodeCount s := by
  obtain ⟨hw, ht, _, hm⟩ := h
  rw [← length_nodePaths, Regs.nodeCount]
  apply List.Perm.length_eq
  rw [List.perm_ext_iff_of_nodup (nodup_nodePaths t hw) (nodup_dedup _)]
  intro p
  rw [mem_nodePaths p t ht, mem_dedup]
  simp only [List.mem_cons, List.mem_flatten, List.mem_map]
  constructor
  · rintro (h0 | ⟨x, hx, hp⟩)
    · exact Or.inl h0
    · exact Or.inr ⟨_, ⟨x, (hm x).1 hx, rfl⟩, (mem_prefixes p x.2).2 hp⟩
  · rintro (h0 | ⟨_, ⟨x, hx, rfl⟩, hp⟩)
    · exact Or.inl h0
    · exact Or.inr ⟨x, (hm x).2 hx, (mem_prefixes p x.2).1 hp⟩

/-! ### the spec observations -/

theorem count_specUpdate (s : Regs C) (p : Path) (c : C) :
    (Regs.update s p).count c = hits s c p := by
  induction s with
  | nil => rfl
  | cons r s ih =>
    obtain ⟨a, q⟩ := r
    unfold Regs.update hits at ih ⊢
    by_cases hq : compatible q p = true
    · by_cases ha : a = c
      · simp [hq, ha]
        simpa using ih
      · simp [hq, ha]
        simpa using ih
    · simp [hq]
      simpa using ih

theorem nodup_specOnce (s : Regs C) (ps : List Path) : (Regs.once s ps).Nodup := nodup_dedup _

theorem mem_specOnce (s : Regs C) (ps : List Path) (c : C) :
    c ∈ Regs.once s ps ↔ ∃ q, (c, q) ∈ s ∧ ∃ p ∈ ps, compatible q p = true := by
  unfold Regs.once
  rw [mem_dedup]
  simp only [List.mem_map, List.mem_filter, List.any_eq_true]
  constructor
  · rintro ⟨⟨a, q⟩, ⟨hm, hp⟩, rfl⟩
    exact ⟨q, hm, hp⟩
  · rintro ⟨q, hm, hp⟩
    exact ⟨(c, q), ⟨hm, hp⟩, rfl⟩

end Match
end Gnmi
