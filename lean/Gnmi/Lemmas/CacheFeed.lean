import Gnmi.Lemmas.CacheState
import Gnmi.Spec.Feed
/-!
Lemmas for the feed simulation (C03): lookups in filtered views, transitivity of
`value.Equal`, the tree invariant the simulation needs, and the per-primitive steps.
-/
namespace Gnmi
namespace Feed
open Cache

/-! ### lookups -/

theorem lookup_cons (k k' : Path) (n : Noti) (m : PMap Noti) :
    lookup ((k, n) :: m) k' = if k = k' then some n else lookup m k' := by
  by_cases h : k = k'
  · simp [lookup, h]
  · have : (k == k') = false := by simpa using h
    simp [lookup, this, h]

theorem lookup_filter_key (p : Path → Bool) (m : PMap Noti) (k : Path) :
    lookup (m.filter (fun kv => p kv.1)) k = if p k then lookup m k else none := by
  induction m with
  | nil => simp [lookup]
  | cons x m ih =>
    simp only [List.filter_cons]
    by_cases hx : x.1 = k
    · cases hp : p x.1
      · simp only [hp, Bool.false_eq_true, if_false]
        rw [ih, ← hx, hp]; simp
      · simp only [hp, if_true]
        obtain ⟨xk, xv⟩ := x
        simp only at hx hp
        subst hx
        rw [lookup_cons, lookup_cons]; simp [hp]
    · cases hp : p x.1
      · simp only [hp, Bool.false_eq_true, if_false]
        rw [ih]
        obtain ⟨xk, xv⟩ := x
        rw [lookup_cons]; simp [hx]
      · simp only [hp, if_true]
        obtain ⟨xk, xv⟩ := x
        rw [lookup_cons, lookup_cons, ih]; simp [hx]

theorem unique_filter {m : PMap Noti} (f : Path × Noti → Bool) (h : UniqueKeys m) :
    UniqueKeys (m.filter f) := by
  unfold UniqueKeys at h ⊢
  exact (List.filter_sublist.map _).nodup h

theorem unique_cons_of_filtered {m : PMap Noti} {k : Path} {n : Noti} (p : Path → Bool)
    (hp : p k = false) (h : UniqueKeys m) : UniqueKeys ((k, n) :: m.filter (fun kv => p kv.1)) := by
  have hu := unique_filter (fun kv => p kv.1) h
  unfold UniqueKeys at hu ⊢
  simp only [List.map_cons, List.nodup_cons]
  refine ⟨?_, hu⟩
  intro hm
  obtain ⟨kv, hkv, hk⟩ := List.mem_map.1 hm
  have := (List.mem_filter.1 hkv).2
  simp only [hk, hp] at this
  cases this

/-! ### `value.Equal` is transitive -/

theorem floatBitsEq_iff (e m a b : Nat) :
    floatBitsEq e m a b = true ↔
      isNaNBits e m a = false ∧ isNaNBits e m b = false ∧
        ((isZeroBits e m a = true ∧ isZeroBits e m b = true) ∨ a = b) := by
  unfold floatBitsEq
  cases ha : isNaNBits e m a <;> cases hb : isNaNBits e m b <;>
    cases za : isZeroBits e m a <;> cases zb : isZeroBits e m b <;> simp

theorem floatBitsEq_trans (e m a b c : Nat) (h1 : floatBitsEq e m a b = true)
    (h2 : floatBitsEq e m b c = true) : floatBitsEq e m a c = true := by
  rw [floatBitsEq_iff] at h1 h2 ⊢
  obtain ⟨a1, a2, a3⟩ := h1
  obtain ⟨b1, b2, b3⟩ := h2
  refine ⟨a1, b2, ?_⟩
  rcases a3 with ⟨x, y⟩ | rfl <;> rcases b3 with ⟨z, w⟩ | rfl
  · exact Or.inl ⟨x, w⟩
  · exact Or.inl ⟨x, y⟩
  · exact Or.inl ⟨z, w⟩
  · exact Or.inr rfl

theorem scalarEqual_trans (a b c : Scalar) (h1 : scalarEqual a b = true) (h2 : scalarEqual b c = true) :
    scalarEqual a c = true := by
  cases a <;> cases b <;> simp [scalarEqual] at h1 <;> cases c <;> simp [scalarEqual] at h2 ⊢
  all_goals first
    | (subst h1; exact h2)
    | exact floatBitsEq_trans _ _ _ _ _ h1 h2
    | (obtain ⟨x, y⟩ := h1; obtain ⟨z, w⟩ := h2; exact ⟨x.trans z, y.trans w⟩)

theorem scalarsEqual_trans : ∀ (a b c : List Scalar), scalarsEqual a b = true → scalarsEqual b c = true →
    scalarsEqual a c = true
  | [], [], [], _, _ => rfl
  | [], [], _ :: _, _, h => by simp [scalarsEqual] at h
  | [], _ :: _, _, h, _ => by simp [scalarsEqual] at h
  | _ :: _, [], _, h, _ => by simp [scalarsEqual] at h
  | _ :: _, _ :: _, [], _, h => by simp [scalarsEqual] at h
  | x :: a, y :: b, z :: c, h1, h2 => by
    simp only [scalarsEqual, Bool.and_eq_true] at h1 h2 ⊢
    exact ⟨scalarEqual_trans x y z h1.1 h2.1, scalarsEqual_trans a b c h1.2 h2.2⟩

theorem valueEqual_trans (a b c : Val) (h1 : valueEqual a b = true) (h2 : valueEqual b c = true) :
    valueEqual a c = true := by
  cases a <;> cases b <;> simp [valueEqual] at h1 <;> cases c <;> simp [valueEqual] at h2 ⊢
  · exact scalarEqual_trans _ _ _ h1 h2
  · exact scalarsEqual_trans _ _ _ h1 h2

/-! ### `qmatches` for a wildcard-free index is the prefix relation -/

theorem qmatches_noGlob : ∀ (q k : Path), glob ∉ q → qmatches q k = q.isPrefixOf k
  | [], k, _ => by cases k <;> simp [qmatches]
  | [g], [], h => by
    have : g ≠ glob := fun e => h (by simp [e])
    simp [qmatches, this]
  | _ :: _ :: _, [], _ => by simp [qmatches]
  | g :: q, a :: k, h => by
    have hg : g ≠ glob := fun e => h (by simp [e])
    have hq : glob ∉ q := fun e => h (List.mem_cons_of_mem _ e)
    have : qmatches (g :: q) (a :: k) = ((g == glob || g == a) && qmatches q k) := by
      cases q <;> rfl
    rw [this, qmatches_noGlob q k hq, List.isPrefixOf_cons_cons]
    have : (g == glob) = false := by simpa using hg
    rw [this, Bool.false_or]

/-! ### the tree invariant the simulation needs -/

/-- keys are prefix free and wildcard free, and every stored notification sits at its own index
with its origin in the prefix (the cache's stated contract for origins) -/
structure FInv (t : Target) : Prop where
  pf : ∀ a ∈ t.tree, ∀ b ∈ t.tree, a.1 <+: b.1 → a.1 = b.1
  noGlob : ∀ kv ∈ t.tree, glob ∉ kv.1
  storedAt : ∀ kv ∈ t.tree, ∃ u us, kv.2.upd = u :: us ∧ updKey kv.2 u = kv.1 ∧
    (kv.2.origin ≠ "" ∨ u.origin = "")

/-- input contract of a notification for the replay claim: its update paths hold no element
named `*` and its origin, if any, is carried in the prefix -/
def Clean (n : Noti) : Prop :=
  ∀ u ∈ n.upd, glob ∉ updKey n u ∧ (n.origin ≠ "" ∨ u.origin = "")

theorem FInv.of_tree_eq {t t' : Target} (h : t'.tree = t.tree) (hf : FInv t) : FInv t' :=
  ⟨by rw [h]; exact hf.pf, by rw [h]; exact hf.noGlob, by rw [h]; exact hf.storedAt⟩

theorem not_mem_of_prefix {t : Target} (hf : FInv t) {k k' : Path} {old : Noti}
    (hl : lookup t.tree k = some old) (hp : k <+: k') (hne : k' ≠ k) : lookup t.tree k' = none := by
  cases h : lookup t.tree k' with
  | none => rfl
  | some v =>
    have := hf.pf (k, old) (mem_of_lookup_some hl) (k', v) (mem_of_lookup_some h) hp
    exact absurd this.symm hne

end Feed
end Gnmi
