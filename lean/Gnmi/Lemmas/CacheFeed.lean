import Gnmi.Lemmas.CacheState
import Gnmi.Spec.Feed
/-!
Lemmas for the feed simulation (C03): lookups in filtered views, transitivity of
`value.Equal`, the tree invariant the simulation needs, and the per-primitive steps.
-/
namespace Gnmi
namespace Feed
open Cache

/-! ### lookups -/

theorem lookup_cons (k k' : Path) (n : Noti) (m : PMap Noti) :
    lookup ((k, n) :: m) k' = if k = k' then some n else lookup m k' := by
  by_cases h : k = k'
  · simp [lookup, h]
  · have : (k == k') = false := by simpa using h
    simp [lookup, this, h]

theorem lookup_filter_key (p : Path → Bool) (m : PMap Noti) (k : Path) :
    lookup (m.filter (fun kv => p kv.1)) k = if p k then lookup m k else none := by
  induction m with
  | nil => simp [lookup]
  | cons x m ih =>
    simp only [List.filter_cons]
    by_cases hx : x.1 = k
    · cases hp : p x.1
      · simp only [hp, Bool.false_eq_true, if_false]
        rw [ih, ← hx, hp]; simp
      · simp only [hp, if_true]
        obtain ⟨xk, xv⟩ := x
        simp only at hx hp
        subst hx
        rw [lookup_cons, lookup_cons]; simp [hp]
    · cases hp : p x.1
      · simp only [hp, Bool.false_eq_true, if_false]
        rw [ih]
        obtain ⟨xk, xv⟩ := x
        rw [lookup_cons]; simp [hx]
      · simp only [hp, if_true]
        obtain ⟨xk, xv⟩ := x
        rw [lookup_cons, lookup_cons, ih]; simp [hx]

theorem unique_filter {m : PMap Noti} (f : Path × Noti → Bool) (h : UniqueKeys m) :
    UniqueKeys (m.filter f) := by
  unfold UniqueKeys at h ⊢
  exact (List.filter_sublist.map _).nodup h

theorem unique_cons_of_filtered {m : PMap Noti} {k : Path} {n : Noti} (p : Path → Bool)
    (hp : p k = false) (h : UniqueKeys m) : UniqueKeys ((k, n) :: m.filter (fun kv => p kv.1)) := by
  have hu := unique_filter (fun kv => p kv.1) h
  unfold UniqueKeys at hu ⊢
  simp only [List.map_cons, List.nodup_cons]
  refine ⟨?_, hu⟩
  intro hm
  obtain ⟨kv, hkv, hk⟩ := List.mem_map.1 hm
  have := (List.mem_filter.1 hkv).2
  simp only [hk, hp] at this
  cases this

/-! ### `value.Equal` is transitive -/

theorem floatBitsEq_iff (e m a b : Nat) :
    floatBitsEq e m a b = true ↔
      isNaNBits e m a = false ∧ isNaNBits e m b = false ∧
        ((isZeroBits e m a = true ∧ isZeroBits e m b = true) ∨ a = b) := by
  unfold floatBitsEq
  cases ha : isNaNBits e m a <;> cases hb : isNaNBits e m b <;>
    cases za : isZeroBits e m a <;> cases zb : isZeroBits e m b <;> simp

theorem floatBitsEq_trans (e m a b c : Nat) (h1 : floatBitsEq e m a b = true)
    (h2 : floatBitsEq e m b c = true) : floatBitsEq e m a c = true := by
  rw [floatBitsEq_iff] at h1 h2 ⊢
  obtain ⟨a1, a2, a3⟩ := h1
  obtain ⟨b1, b2, b3⟩ := h2
  refine ⟨a1, b2, ?_⟩
  rcases a3 with ⟨x, y⟩ | rfl <;> rcases b3 with ⟨z, w⟩ | rfl
  · exact Or.inl ⟨x, w⟩
  · exact Or.inl ⟨x, y⟩
  · exact Or.inl ⟨z, w⟩
  · exact Or.inr rfl

theorem scalarEqual_trans (a b c : Scalar) (h1 : scalarEqual a b = true) (h2 : scalarEqual b c = true) :
    scalarEqual a c = true := by
  cases a <;> cases b <;> simp [scalarEqual] at h1 <;> cases c <;> simp [scalarEqual] at h2 ⊢
  all_goals first
    | (subst h1; exact h2)
    | exact floatBitsEq_trans _ _ _ _ _ h1 h2
    | (obtain ⟨x, y⟩ := h1; obtain ⟨z, w⟩ := h2; exact ⟨x.trans z, y.trans w⟩)

theorem scalarsEqual_trans : ∀ (a b c : List Scalar), scalarsEqual a b = true → scalarsEqual b c = true →
    scalarsEqual a c = true
  | [], [], [], _, _ => rfl
  | [], [], _ :: _, _, h => by simp [scalarsEqual] at h
  | [], _ :: _, _, h, _ => by simp [scalarsEqual] at h
  | _ :: _, [], _, h, _ => by simp [scalarsEqual] at h
  | _ :: _, _ :: _, [], _, h => by simp [scalarsEqual] at h
  | x :: a, y :: b, z :: c, h1, h2 => by
    simp only [scalarsEqual, Bool.and_eq_true] at h1 h2 ⊢
    exact ⟨scalarEqual_trans x y z h1.1 h2.1, scalarsEqual_trans a b c h1.2 h2.2⟩

theorem valueEqual_trans (a b c : Val) (h1 : valueEqual a b = true) (h2 : valueEqual b c = true) :
    valueEqual a c = true := by
  cases a <;> cases b <;> simp [valueEqual] at h1 <;> cases c <;> simp [valueEqual] at h2 ⊢
  · exact scalarEqual_trans _ _ _ h1 h2
  · exact scalarsEqual_trans _ _ _ h1 h2

/-! ### `qmatches` for a wildcard-free index is the prefix relation -/

theorem qmatches_noGlob : ∀ (q k : Path), glob ∉ q → qmatches q k = q.isPrefixOf k
  | [], k, _ => by cases k <;> simp [qmatches]
  | [g], [], h => by
    have : g ≠ glob := fun e => h (by simp [e])
    simp [qmatches, this]
  | _ :: _ :: _, [], _ => by simp [qmatches]
  | g :: q, a :: k, h => by
    have hg : g ≠ glob := fun e => h (by simp [e])
    have hq : glob ∉ q := fun e => h (List.mem_cons_of_mem _ e)
    have : qmatches (g :: q) (a :: k) = ((g == glob || g == a) && qmatches q k) := by
      cases q <;> rfl
    rw [this, qmatches_noGlob q k hq, List.isPrefixOf_cons_cons]
    have : (g == glob) = false := by simpa using hg
    rw [this, Bool.false_or]

theorem qmatches_self {k : Path} (h : glob ∉ k) : qmatches k k = true := by
  rw [qmatches_noGlob k k h]; simp

/-! ### the simulation relation -/

/-- what the replay claim assumes of one update of an incoming notification: its index holds no
element named `*`, its origin, if any, is carried in the prefix (the cache indexes updates
without the origin of the update path: `ToStrings(path, false)`), and its first index element is
not the empty string (`Reset` announces the delete of a top-level subtree `r` as origin `r`,
path `*`: for `r = ""` that reads "everything") -/
def CleanU (n : Noti) (u : Upd) : Prop :=
  glob ∉ updKey n u ∧ (n.origin ≠ "" ∨ u.origin = "") ∧ (updKey n u).head? ≠ some ""

def Clean (n : Noti) : Prop := ∀ u ∈ n.upd, CleanU n u

/-- a stored notification sits at its own index with its origin in the prefix -/
def StoredAt (kv : Path × Noti) : Prop :=
  ∃ u us, kv.2.upd = u :: us ∧ updKey kv.2 u = kv.1 ∧ (kv.2.origin ≠ "" ∨ u.origin = "")

/-- everything the simulation maintains about a target's tree and the view following its feed -/
structure GT (cfg : Cfg) (nm : String) (view : View) (tree : PMap Noti) : Prop where
  unique : UniqueKeys tree
  pf : PrefixFree tree
  noGlob : ∀ kv ∈ tree, glob ∉ kv.1
  storedAt : ∀ kv ∈ tree, StoredAt kv
  owner : ∀ kv ∈ tree, kv.2.target = nm
  head : ∀ kv ∈ tree, kv.1.head? ≠ some ""
  r : R cfg view tree

theorem GT.init (cfg : Cfg) (nm : String) : GT cfg nm [] [] :=
  ⟨List.nodup_nil, fun a h => (by cases h), fun kv h => (by cases h), fun kv h => (by cases h),
   fun kv h => (by cases h), fun kv h => (by cases h), ⟨List.nodup_nil, fun _ => trivial⟩⟩

theorem sim_none_left {cfg : Cfg} {a : Option Noti} (h : Sim cfg a none) : a = none := by
  cases a with
  | none => rfl
  | some v => exact h.elim

/-! ### an accepted update: the view sets the same leaf -/

theorem view_set {cfg : Cfg} {view : View} {tree tree' : PMap Noti} {k : Path} {n : Noti} (p : Path → Bool)
    (hpk : p k = false) (hp : ∀ k', k' ≠ k → p k' = false → lookup tree k' = none)
    (hR : R cfg view tree) (hk : lookup tree' k = some n)
    (ho : ∀ k', k' ≠ k → lookup tree' k' = lookup tree k') :
    R cfg ((k, n) :: view.filter (fun kv => p kv.1)) tree' := by
  refine ⟨unique_cons_of_filtered p hpk hR.unique, ?_⟩
  intro k'
  rw [lookup_cons, lookup_filter_key]
  by_cases hkk : k = k'
  · subst hkk
    simp only [if_true, hk]
    exact Or.inl rfl
  · have hne : k' ≠ k := fun e => hkk e.symm
    simp only [hkk, if_false]
    rw [ho k' hne]
    cases hpk' : p k'
    · simp only [Bool.false_eq_true, if_false]
      rw [hp k' hne hpk']
      trivial
    · simp only [if_true]
      exact hR.agree k'

theorem evKey_eq {n : Noti} {u : Upd} {us : List Upd} (hu : n.upd = u :: us) : evKey n = updKey n u := by
  unfold evKey; rw [hu]

/-- the tree moves from `tree` to `tree'` by setting `key := n` (an overwrite or a clean add), and
the view applies the update event -/
theorem GT.set {cfg : Cfg} {nm : String} {view : View} {tree tree' : PMap Noti} {key : Path} {n : Noti} {u : Upd}
    {us : List Upd} (hg : GT cfg nm view tree) (htg : n.target = nm) (hu' : UniqueKeys tree')
    (hd : lookup tree' key = some n) (he : ∀ k', k' ≠ key → lookup tree' k' = lookup tree k')
    (hc : ∀ kv ∈ tree, kv.1 ≠ key → ¬ key <+: kv.1 ∧ ¬ kv.1 <+: key)
    (hn : n.upd = u :: us) (hk : updKey n u = key) (hcl : CleanU n u) :
    GT cfg nm (applyEvent view (.upd n)) tree' := by
  have hmem : ∀ kv ∈ tree', kv = (key, n) ∨ (kv ∈ tree ∧ kv.1 ≠ key) := by
    intro kv hkv
    have hl := lookup_some_of_mem hu' hkv
    by_cases hkk : kv.1 = key
    · rw [hkk, hd] at hl
      left
      obtain ⟨a, b⟩ := kv
      simp only at hkk hl
      rw [hkk, Option.some.inj hl]
    · rw [he _ hkk] at hl
      exact Or.inr ⟨mem_of_lookup_some hl, hkk⟩
  refine ⟨hu', ?_, ?_, ?_, ?_, ?_, ?_⟩
  · intro a ha b hb hab
    rcases hmem a ha with rfl | ⟨ha', hak⟩ <;> rcases hmem b hb with rfl | ⟨hb', hbk⟩
    · rfl
    · exact absurd hab (hc b hb' hbk).1
    · exact absurd hab (hc a ha' hak).2
    · exact hg.pf a ha' b hb' hab
  · intro kv hkv
    rcases hmem kv hkv with rfl | ⟨h, _⟩
    · rw [← hk]; exact hcl.1
    · exact hg.noGlob kv h
  · intro kv hkv
    rcases hmem kv hkv with rfl | ⟨h, _⟩
    · exact ⟨u, us, hn, hk, hcl.2.1⟩
    · exact hg.storedAt kv h
  · intro kv hkv
    rcases hmem kv hkv with rfl | ⟨h, _⟩
    · exact htg
    · exact hg.owner kv h
  · intro kv hkv
    rcases hmem kv hkv with rfl | ⟨h, _⟩
    · rw [← hk]; exact hcl.2.2
    · exact hg.head kv h
  · have hek : evKey n = key := (evKey_eq hn).trans hk
    have hnone : ∀ k', k' ≠ key → key <+: k' → lookup tree k' = none := by
      intro k' hne hpre
      cases h : lookup tree k' with
      | none => rfl
      | some v => exact absurd hpre (hc (k', v) (mem_of_lookup_some h) hne).1
    simp only [applyEvent, hek]
    split
    · refine view_set (fun k' => !key.isPrefixOf k') (by simp) ?_ hg.r hd he
      intro k' hne hp
      have : key <+: k' := by simpa using hp
      exact hnone k' hne this
    · refine view_set (fun k' => k' != key) (by simp) ?_ hg.r hd he
      intro k' hne hp
      have : k' = key := by simpa using hp
      exact absurd this hne

/-- the leaf is overwritten but the feed is told nothing (event-driven suppression): the view
keeps a notification with an equal value -/
theorem GT.suppress {cfg : Cfg} {nm : String} {view : View} {tree : PMap Noti} {key : Path} {n old : Noti} {u ou : Upd}
    {us ous : List Upd} (hg : GT cfg nm view tree) (htg : n.target = nm) (hl : lookup tree key = some old)
    (hn : n.upd = u :: us) (hk : updKey n u = key) (hcl : CleanU n u)
    (hna : n.atomic = false) (hoa : old.atomic = false) (hou : old.upd = ou :: ous)
    (hve : valueEqual ou.val u.val = true) (hed : cfg.eventDriven = true) :
    GT cfg nm view (setLeaf tree key n) := by
  have hu' := setLeaf_unique key n hg.unique
  have hd := lookup_setLeaf_same (n := n) hg.unique hl
  have he : ∀ k', k' ≠ key → lookup (setLeaf tree key n) k' = lookup tree k' :=
    fun k' hne => lookup_setLeaf_other hg.unique hne
  have hmem : ∀ kv ∈ setLeaf tree key n, kv = (key, n) ∨ (kv ∈ tree ∧ kv.1 ≠ key) := by
    intro kv hkv
    rcases mem_setLeaf.1 hkv with ⟨h1, h2, _⟩ | h
    · left; obtain ⟨a, b⟩ := kv; simp only at h1 h2; rw [h1, h2]
    · exact Or.inr h
  have hkm := mem_of_lookup_some hl
  refine ⟨hu', ?_, ?_, ?_, ?_, ?_, hg.r.unique, ?_⟩
  · intro a ha b hb hab
    have ha' : ∃ v, (a.1, v) ∈ tree := by
      rcases hmem a ha with rfl | ⟨h, _⟩
      · exact ⟨old, hkm⟩
      · exact ⟨a.2, h⟩
    have hb' : ∃ v, (b.1, v) ∈ tree := by
      rcases hmem b hb with rfl | ⟨h, _⟩
      · exact ⟨old, hkm⟩
      · exact ⟨b.2, h⟩
    obtain ⟨va, hva⟩ := ha'
    obtain ⟨vb, hvb⟩ := hb'
    exact hg.pf (a.1, va) hva (b.1, vb) hvb hab
  · intro kv hkv
    rcases hmem kv hkv with rfl | ⟨h, _⟩
    · rw [← hk]; exact hcl.1
    · exact hg.noGlob kv h
  · intro kv hkv
    rcases hmem kv hkv with rfl | ⟨h, _⟩
    · exact ⟨u, us, hn, hk, hcl.2.1⟩
    · exact hg.storedAt kv h
  · intro kv hkv
    rcases hmem kv hkv with rfl | ⟨h, _⟩
    · exact htg
    · exact hg.owner kv h
  · intro kv hkv
    rcases hmem kv hkv with rfl | ⟨h, _⟩
    · rw [← hk]; exact hcl.2.2
    · exact hg.head kv h
  · intro k'
    by_cases hkk : k' = key
    · subst hkk
      rw [hd]
      have := hg.r.agree k'
      rw [hl] at this
      cases hv : lookup view k' with
      | none => rw [hv] at this; exact this.elim
      | some v =>
        rw [hv] at this
        right
        have hhn : headVal n = u.val := by unfold headVal; rw [hn]
        have hho : headVal old = ou.val := by unfold headVal; rw [hou]
        rcases this with rfl | ⟨_, s2, _, s4⟩
        · exact ⟨hed, hoa, hna, by rw [hhn, hho]; exact hve⟩
        · refine ⟨hed, s2, hna, ?_⟩
          rw [hhn]
          rw [hho] at s4
          exact valueEqual_trans _ _ _ s4 hve
    · rw [he k' hkk]; exact hg.r.agree k'

/-- the view after the feed is handed (or not handed) a leaf -/
def afterUpd (view : View) : Option Noti → View
  | some nd => applyEvent view (.upd nd)
  | none => view

theorem conflicts_false {tree : PMap Noti} {key : Path} (h : PMap.conflicts tree key = false) :
    ∀ kv ∈ tree, kv.1 ≠ key → ¬ key <+: kv.1 ∧ ¬ kv.1 <+: key := by
  intro kv hkv hne
  unfold PMap.conflicts at h
  have := List.any_eq_false.1 h kv hkv
  have hne' : (kv.1 != key) = true := by simpa using hne
  simp only [hne', Bool.and_true, Bool.or_eq_true, not_or, Bool.not_eq_true] at this
  constructor
  · intro hp
    have := this.2
    rw [List.isPrefixOf_iff_prefix.2 hp] at this
    cases this
  · intro hp
    have := this.1
    rw [List.isPrefixOf_iff_prefix.2 hp] at this
    cases this

/-- **One update.** Whatever `gnmiUpdate1` does to the tree, applying what it hands to the feed
keeps the view in step. -/
theorem _root_.Gnmi.Cache.Effect.sim {cfg : Cfg} {nm : String} {t : Target} {n : Noti} {u : Upd} {us : List Upd}
    {out : Res × Target × Option Noti} {view : View}
    (he : Effect cfg t n u (updKey n u) out) (hu : n.upd = u :: us) (hc : CleanU n u) (htg : n.target = nm)
    (hg : GT cfg nm view t.tree) :
    out.1 ≠ .panic ∧ (out.1.isErr = true → out.2.2 = none) ∧ (∀ nd, out.2.2 = some nd → nd.target = nm) ∧
    GT cfg nm (afterUpd view out.2.2) out.2.1.tree ∧
    out.2.1.name = t.name := by
  cases he with
  | rejected r t' hr h1 h2 h3 h4 =>
    refine ⟨?_, fun _ => rfl, fun nd h => (by cases h), ?_, h3⟩
    · rcases hr with rfl | rfl | rfl <;> simp
    · show GT cfg nm view t'.tree
      rw [h1]; exact hg
  | replaced t' old hk hl hts h1 h2 h3 h4 =>
    refine ⟨by simp, fun h => by simp [Res.isErr] at h, fun nd h => (by cases h; exact htg), ?_, h3⟩
    show GT cfg nm (applyEvent view (.upd n)) t'.tree
    rw [h1]
    refine hg.set htg (setLeaf_unique _ n hg.unique) (lookup_setLeaf_same hg.unique hl)
      (fun k' hne => lookup_setLeaf_other hg.unique hne) ?_ hu rfl hc
    intro kv hkv hne
    have hkm := mem_of_lookup_some hl
    constructor
    · intro hp; exact hne (hg.pf _ hkm _ hkv hp).symm
    · intro hp; exact hne (hg.pf _ hkv _ hkm hp)
  | suppressed t' old ou ous hk hl hts h1 h2 h3 h4 hna hoa hou hve hed =>
    refine ⟨by simp, fun _ => rfl, fun nd h => (by cases h), ?_, h3⟩
    show GT cfg nm view t'.tree
    rw [h1]
    exact hg.suppress htg hl hu rfl hc hna hoa hou hve hed
  | added t' hk hl ha h2 h3 m1 m2 m3 =>
    refine ⟨by simp, fun h => by simp [Res.isErr] at h, fun nd h => (by cases h; exact htg), ?_, h3⟩
    show GT cfg nm (applyEvent view (.upd n)) t'.tree
    have hcf : PMap.conflicts t.tree (updKey n u) = false := by
      unfold PMap.add at ha
      cases hcf : PMap.conflicts t.tree (updKey n u) with
      | false => rfl
      | true => simp [hcf] at ha
    exact hg.set htg (add_unique hg.unique ha) (lookup_add_same ha)
      (fun k' hne => lookup_add_other ha hne) (conflicts_false hcf) hu rfl hc
  | panicOld t' old hl ho =>
    obtain ⟨u', us', h', _⟩ := hg.storedAt _ (mem_of_lookup_some hl)
    rw [ho] at h'; cases h'

theorem gnmiUpdate1_sim {cfg : Cfg} {nm : String} {view : View} (now : Int) (t : Target) (n : Noti) (u : Upd)
    (us : List Upd) (hu : n.upd = u :: us) (ht : nm ≠ "") (htg : n.target = nm) (hc : CleanU n u)
    (hg : GT cfg nm view t.tree) :
    (Target.gnmiUpdate1 cfg now t n).1 ≠ .panic ∧
    ((Target.gnmiUpdate1 cfg now t n).1.isErr = true → (Target.gnmiUpdate1 cfg now t n).2.2 = none) ∧
    (∀ nd, (Target.gnmiUpdate1 cfg now t n).2.2 = some nd → nd.target = nm) ∧
    GT cfg nm (afterUpd view (Target.gnmiUpdate1 cfg now t n).2.2) (Target.gnmiUpdate1 cfg now t n).2.1.tree ∧
    (Target.gnmiUpdate1 cfg now t n).2.1.name = t.name :=
  (gnmiUpdate1_effect cfg now t n u us hu (by rw [htg]; exact ht)).sim hu hc htg hg

/-! ### deletes: the view drops exactly the removed leaves -/

theorem toDeleteEvent_stored {kv : Path × Noti} (ts : Int) (h : StoredAt kv) :
    ∃ o p, toDeleteEvent? kv.2 ts = some (.del kv.2.target o p ts) ∧ (if o = "" then [] else [o]) ++ p = kv.1 := by
  obtain ⟨u, us, hu, hk, ho⟩ := h
  have hcond : (decide (kv.2.origin = "") && (u.origin != "")) = false := by
    rcases ho with h | h
    · simp [h]
    · simp [h]
  unfold toDeleteEvent?
  rw [hu]
  simp only [hcond, Bool.false_eq_true, if_false]
  refine ⟨_, _, rfl, ?_⟩
  rw [← hk]
  unfold updKey joinKey
  simp [List.append_assoc]

theorem applyEvent_del_unique {view : View} (tg o : String) (p : Path) (ts : Int) (h : UniqueKeys view) :
    UniqueKeys (applyEvent view (.del tg o p ts)) := unique_filter _ h

theorem applyDels (ts : Int) : ∀ (rem : PMap Noti) (evs : List Event) (view : View),
    (∀ kv ∈ rem, StoredAt kv) →
    allSome (rem.map (fun kv => toDeleteEvent? kv.2 ts)) = some evs →
    (UniqueKeys view → UniqueKeys (applyEvents view evs)) ∧
    (∀ e ∈ evs, ∃ kv ∈ rem, evTarget e = kv.2.target) ∧
    ∀ k, lookup (applyEvents view evs) k =
      if rem.any (fun kv => qmatches kv.1 k) then none else lookup view k
  | [], evs, view, _, hall => by
    simp only [List.map_nil, allSome] at hall
    cases hall
    exact ⟨fun h => h, fun e h => (by cases h), fun k => by simp [applyEvents]⟩
  | kv :: rest, evs, view, hst, hall => by
    obtain ⟨o, p, he, hkey⟩ := toDeleteEvent_stored ts (hst kv (List.mem_cons_self ..))
    generalize htg : kv.2.target = tg at he
    simp only [List.map_cons, he, allSome, Option.map_eq_some_iff] at hall
    obtain ⟨evs', hall', rfl⟩ := hall
    obtain ⟨ih1, ih3, ih2⟩ := applyDels ts rest evs' (applyEvent view (.del tg o p ts))
      (fun x hx => hst x (List.mem_cons_of_mem _ hx)) hall'
    have hap : applyEvents view (Event.del tg o p ts :: evs') =
        applyEvents (applyEvent view (.del tg o p ts)) evs' := rfl
    rw [hap]
    refine ⟨fun h => ih1 (applyEvent_del_unique tg o p ts h), ?_, ?_⟩
    · intro e he'
      rcases List.mem_cons.1 he' with rfl | h
      · exact ⟨kv, List.mem_cons_self .., htg.symm⟩
      · obtain ⟨x, hx, hxe⟩ := ih3 e h
        exact ⟨x, List.mem_cons_of_mem _ hx, hxe⟩
    intro k
    rw [ih2 k]
    have happ : applyEvent view (.del tg o p ts) = view.filter (fun x => !qmatches kv.1 x.1) := by
      simp only [applyEvent, hkey]
    have hflt : lookup (view.filter (fun x => !qmatches kv.1 x.1)) k =
        if (!qmatches kv.1 k) = true then lookup view k else none :=
      lookup_filter_key (fun k' => !qmatches kv.1 k') view k
    rw [happ, hflt]
    simp only [List.any_cons]
    by_cases h1 : qmatches kv.1 k = true <;> by_cases h2 : rest.any (fun x => qmatches x.1 k) = true <;>
      simp [h1, h2]

theorem GT.delete {cfg : Cfg} {nm : String} {view : View} {tree : PMap Noti} (hg : GT cfg nm view tree)
    (c : Noti → Bool) (q : Path) (ts : Int) (evs : List Event)
    (hall : allSome ((PMap.delete c tree q).2.map (fun kv => toDeleteEvent? kv.2 ts)) = some evs) :
    (∀ e ∈ evs, evTarget e = nm) ∧ GT cfg nm (applyEvents view evs) (PMap.delete c tree q).1 := by
  have hsub1 : ∀ kv ∈ (PMap.delete c tree q).1, kv ∈ tree := fun kv h => (List.mem_filter.1 h).1
  have hrem : ∀ kv, kv ∈ (PMap.delete c tree q).2 ↔ kv ∈ tree ∧ (qmatches q kv.1 && c kv.2) = true :=
    fun kv => List.mem_filter
  obtain ⟨hu, hto, hlk⟩ := applyDels ts (PMap.delete c tree q).2 evs view
    (fun kv h => hg.storedAt kv ((hrem kv).1 h).1) hall
  refine ⟨?_, delete_unique c q hg.unique, ?_, ?_, ?_, ?_, ?_, hu hg.r.unique, ?_⟩
  · intro e he
    obtain ⟨kv, hkv, hk⟩ := hto e he
    rw [hk]; exact hg.owner kv ((hrem kv).1 hkv).1
  · intro a ha b hb; exact hg.pf a (hsub1 a ha) b (hsub1 b hb)
  · intro kv h; exact hg.noGlob kv (hsub1 kv h)
  · intro kv h; exact hg.storedAt kv (hsub1 kv h)
  · intro kv h; exact hg.owner kv (hsub1 kv h)
  · intro kv h; exact hg.head kv (hsub1 kv h)
  · intro k
    rw [hlk k]
    cases hl : lookup tree k with
    | none =>
      have h1 : lookup (PMap.delete c tree q).1 k = none := by
        cases h : lookup (PMap.delete c tree q).1 k with
        | none => rfl
        | some v => have := lookup_delete_some hg.unique h; rw [hl] at this; cases this
      have h2 : lookup view k = none := by
        have := hg.r.agree k; rw [hl] at this; exact sim_none_left this
      rw [h1, h2]
      split <;> trivial
    | some v =>
      have hkm := mem_of_lookup_some hl
      cases hk : (qmatches q k && c v) with
      | true =>
        rw [lookup_delete_removed hg.unique hl hk]
        have : (PMap.delete c tree q).2.any (fun kv => qmatches kv.1 k) = true :=
          List.any_eq_true.2 ⟨(k, v), (hrem _).2 ⟨hkm, hk⟩, qmatches_self (hg.noGlob _ hkm)⟩
        rw [this]
        trivial
      | false =>
        rw [lookup_delete_kept hg.unique hl hk]
        have : (PMap.delete c tree q).2.any (fun kv => qmatches kv.1 k) = false := by
          cases h : (PMap.delete c tree q).2.any (fun kv => qmatches kv.1 k) with
          | false => rfl
          | true =>
            exfalso
            obtain ⟨kv, hkv, hq⟩ := List.any_eq_true.1 h
            obtain ⟨hm, hc⟩ := (hrem kv).1 hkv
            rw [qmatches_noGlob _ _ (hg.noGlob kv hm)] at hq
            have hpre : kv.1 <+: k := List.isPrefixOf_iff_prefix.1 hq
            have hek : kv.1 = k := hg.pf kv hm (k, v) hkm hpre
            have hv : kv.2 = v := by
              have h1 := lookup_some_of_mem hg.unique hm
              rw [hek, hl] at h1
              exact (Option.some.inj h1).symm
            rw [hek, hv, hk] at hc
            cases hc
        rw [this]
        simp only [Bool.false_eq_true, if_false]
        have := hg.r.agree k
        rw [hl] at this
        exact this

theorem gnmiRemove1_sim {cfg : Cfg} {nm : String} {view : View} (t : Target) (n : Noti) (hd : n.del ≠ [])
    (ht : n.target ≠ "") (hg : GT cfg nm view t.tree) :
    (Target.gnmiRemove1 t n).2.2 = false ∧ (∀ e ∈ (Target.gnmiRemove1 t n).2.1, evTarget e = nm) ∧
    GT cfg nm (applyEvents view (Target.gnmiRemove1 t n).2.1) (Target.gnmiRemove1 t n).1.tree := by
  match hdd : n.del with
  | [] => exact absurd hdd hd
  | d :: ds =>
    obtain ⟨h1, _, _, h4, h5⟩ := gnmiRemove1_spec t n d ds hdd ht
    have hp : (Target.gnmiRemove1 t n).2.2 = false := by
      cases hp : (Target.gnmiRemove1 t n).2.2 with
      | false => rfl
      | true =>
        obtain ⟨kv, hkv, hu⟩ := h5 hp
        obtain ⟨u', us', h', _⟩ := hg.storedAt kv (List.mem_filter.1 hkv).1
        rw [hu] at h'; cases h'
    refine ⟨hp, ?_⟩
    rw [h1]
    exact hg.delete _ _ _ _ (h4 hp).1

/-! ### lifting through a whole notification -/

theorem applyEvents_append (v : View) (a b : List Event) :
    applyEvents (applyEvents v a) b = applyEvents v (a ++ b) := by
  simp [applyEvents, List.foldl_append]

theorem applyEvents_snoc (view : View) (evs : List (List Event)) (e : Event) :
    applyEvents view (evs ++ [[e]]).flatten = applyEvent (applyEvents view evs.flatten) e := by
  simp [applyEvents, List.foldl_append]

theorem applyEvents_group (view : View) (evs : List (List Event)) (g : List Event) :
    applyEvents view (if g.isEmpty then evs else evs ++ [g]).flatten =
      applyEvents (applyEvents view evs.flatten) g := by
  split
  · rename_i h
    have : g = [] := by simpa using h
    subst this; rfl
  · simp [applyEvents, List.foldl_append]

/-- what the loops of a multi-update notification maintain: the view that has applied the events
emitted so far follows the accumulator's tree, and every event names the target -/
structure AccSim (cfg : Cfg) (nm : String) (view : View) (acc : MultiAcc) : Prop where
  noPanic : acc.panicked = false
  to : ∀ e ∈ acc.evs.flatten, evTarget e = nm
  g : GT cfg nm (applyEvents view acc.evs.flatten) acc.t.tree

theorem mem_flatten_snoc {e x : Event} {evs : List (List Event)} (h : e ∈ (evs ++ [[x]]).flatten) :
    e ∈ evs.flatten ∨ e = x := by
  simpa using h

theorem mem_flatten_group {e : Event} {evs : List (List Event)} {g : List Event}
    (h : e ∈ (if g.isEmpty then evs else evs ++ [g]).flatten) : e ∈ evs.flatten ∨ e ∈ g := by
  split at h
  · exact Or.inl h
  · simpa using h

theorem multiUpdates_sim {cfg : Cfg} {nm : String} {view : View} (now : Int) (hdr : Noti) (hh : nm ≠ "")
    (htg : hdr.target = nm) :
    ∀ (us : List Upd) (acc : MultiAcc), (∀ u ∈ us, CleanU hdr u) → AccSim cfg nm view acc →
      AccSim cfg nm view (multiUpdates cfg now hdr us acc)
  | [], acc, _, h => by simpa [multiUpdates] using h
  | u :: us, acc, hc, h => by
    have hs := gnmiUpdate1_sim (cfg := cfg) (nm := nm) (view := applyEvents view acc.evs.flatten) now acc.t
      { hdr with upd := [u], del := [] } u [] rfl hh htg (hc u (List.mem_cons_self ..)) h.g
    obtain ⟨s1, s2, s5, s3, _⟩ := hs
    have hp := h.noPanic
    have hc' : ∀ u ∈ us, CleanU hdr u := fun x hx => hc x (List.mem_cons_of_mem _ hx)
    unfold multiUpdates
    simp only [hp, Bool.false_eq_true, if_false, s1]
    split
    · rename_i herr
      apply multiUpdates_sim now hdr hh htg us _ hc'
      rw [s2 herr] at s3
      exact ⟨rfl, h.to, s3⟩
    · split
      · rename_i nd hnd
        apply multiUpdates_sim now hdr hh htg us _ hc'
        rw [hnd] at s3
        change GT cfg nm (applyEvent _ (.upd nd)) _ at s3
        rw [← applyEvents_snoc] at s3
        refine ⟨rfl, ?_, s3⟩
        intro e he
        rcases mem_flatten_snoc he with h1 | rfl
        · exact h.to e h1
        · exact s5 nd hnd
      · rename_i hnone
        apply multiUpdates_sim now hdr hh htg us _ hc'
        rw [hnone] at s3
        exact ⟨rfl, h.to, s3⟩

theorem multiDeletes_sim {cfg : Cfg} {nm : String} {view : View} (hdr : Noti) (hh : hdr.target ≠ "") :
    ∀ (ds : List Del) (acc : MultiAcc), AccSim cfg nm view acc → AccSim cfg nm view (multiDeletes hdr ds acc)
  | [], acc, h => by simpa [multiDeletes] using h
  | d :: ds, acc, h => by
    have hs := gnmiRemove1_sim (cfg := cfg) (nm := nm) (view := applyEvents view acc.evs.flatten)
      { acc.t with md := { acc.t.md with updated := acc.t.md.updated + 1 } }
      { hdr with upd := [], del := [d] } (by simp) hh h.g
    obtain ⟨s1, s3, s2⟩ := hs
    have hp := h.noPanic
    unfold multiDeletes
    simp only [hp, Bool.false_eq_true, if_false, s1]
    apply multiDeletes_sim hdr hh ds
    refine ⟨rfl, ?_, ?_⟩
    · intro e he
      rcases mem_flatten_group he with h1 | h1
      · exact h.to e h1
      · exact s3 e h1
    · rw [← applyEvents_group] at s2
      exact s2

theorem singleArm_sim {cfg : Cfg} {nm : String} {view : View} {r : Res × Target × Option Noti} (cnt : Int)
    (h : r.1 ≠ .panic ∧ (r.1.isErr = true → r.2.2 = none) ∧ (∀ nd, r.2.2 = some nd → nd.target = nm) ∧
      GT cfg nm (afterUpd view r.2.2) r.2.1.tree) :
    (singleArm r cnt).1 ≠ .panic ∧ (∀ e ∈ (singleArm r cnt).2.2.1.flatten, evTarget e = nm) ∧
    GT cfg nm (applyEvents view (singleArm r cnt).2.2.1.flatten) (singleArm r cnt).2.1.tree := by
  obtain ⟨s1, s2, s4, s3⟩ := h
  unfold singleArm
  split
  · rename_i herr
    rw [s2 herr] at s3
    exact ⟨s1, fun e he => (by simp at he), s3⟩
  · split
    · rename_i nd hnd
      rw [hnd] at s3
      refine ⟨by simp, ?_, s3⟩
      intro e he
      have : e = .upd nd := by simpa using he
      rw [this]; exact s4 nd hnd
    · rename_i hnone
      rw [hnone] at s3
      exact ⟨by simp, fun e he => (by simp at he), s3⟩

/-- **The switch of `Target.GnmiUpdate`**: the view that applies the emitted events follows the
tree, whatever the shape of the notification, and every event names the notification's target. -/
theorem dispatch_sim {cfg : Cfg} {nm : String} {view : View} (now : Int) (t : Target) (n : Noti) (ht : nm ≠ "")
    (htg : n.target = nm) (hc : Clean n) (hg : GT cfg nm view t.tree) :
    (t.dispatch cfg now n).1 ≠ .panic ∧ (∀ e ∈ (t.dispatch cfg now n).2.2.1.flatten, evTarget e = nm) ∧
    GT cfg nm (applyEvents view (t.dispatch cfg now n).2.2.1.flatten) (t.dispatch cfg now n).2.1.tree := by
  have first : ∀ u us, n.upd = u :: us → CleanU n u := fun u us h => hc u (by rw [h]; exact List.mem_cons_self ..)
  have ht' : n.target ≠ "" := by rw [htg]; exact ht
  have nil : ∀ e ∈ ([] : List (List Event)).flatten, evTarget e = nm := fun e he => (by simp at he)
  unfold Target.dispatch
  split
  · split
    · exact ⟨by simp, nil, hg⟩
    · split
      · exact ⟨by simp, nil, hg⟩
      · rename_i hne
        match hu : n.upd with
        | [] => rw [hu] at hne; simp at hne
        | u :: us =>
          have hs := gnmiUpdate1_sim (cfg := cfg) (nm := nm) (view := view) now t n u us hu ht htg (first u us hu) hg
          exact singleArm_sim _ ⟨hs.1, hs.2.1, hs.2.2.1, hs.2.2.2.1⟩
  · split
    · have ha := multiUpdates_sim (cfg := cfg) (nm := nm) (view := view) now { n with upd := [], del := [] } ht htg
        n.upd { t := t } (fun u hu => hc u hu) ⟨rfl, nil, hg⟩
      have hb := multiDeletes_sim (cfg := cfg) (nm := nm) (view := view) { n with upd := [], del := [] } ht' n.del _ ha
      simp only [hb.noPanic, Bool.false_eq_true, if_false]
      refine ⟨?_, hb.to, hb.g⟩
      split <;> simp
    · split
      · rename_i h1
        match hu : n.upd with
        | [] => rw [hu] at h1; simp at h1
        | u :: us =>
          have hs := gnmiUpdate1_sim (cfg := cfg) (nm := nm) (view := view) now t n u us hu ht htg (first u us hu) hg
          exact singleArm_sim _ ⟨hs.1, hs.2.1, hs.2.2.1, hs.2.2.2.1⟩
      · split
        · rename_i h1
          have hd : n.del ≠ [] := by
            intro e; rw [e] at h1; simp at h1
          have hs := gnmiRemove1_sim (cfg := cfg) (nm := nm) (view := view)
            { t with md := { t.md with updated := t.md.updated + 1 } } n hd ht' hg
          obtain ⟨s1, s3, s2⟩ := hs
          simp only [s1, Bool.false_eq_true, if_false]
          refine ⟨by simp, ?_, ?_⟩
          · intro e he
            have := mem_flatten_group (evs := []) he
            rcases this with h | h
            · simp at h
            · exact s3 e h
          · have := applyEvents_group view [] (Target.gnmiRemove1 { t with md := { t.md with updated := t.md.updated + 1 } } n).2.1
            simp only [List.nil_append] at this
            rw [this]
            exact s2
        · exact ⟨by simp, nil, hg⟩

/-- **One notification, any shape.** -/
theorem gnmiUpdate_sim {cfg : Cfg} {nm : String} {view : View} (now : Int) (t : Target) (n : Noti) (ht : nm ≠ "")
    (htg : n.target = nm) (hc : Clean n) (hg : GT cfg nm view t.tree) :
    (t.gnmiUpdate cfg now n).1 ≠ .panic ∧ (∀ e ∈ (t.gnmiUpdate cfg now n).2.2.flatten, evTarget e = nm) ∧
    GT cfg nm (applyEvents view (t.gnmiUpdate cfg now n).2.2.flatten) (t.gnmiUpdate cfg now n).2.1.tree := by
  obtain ⟨b, hb⟩ := tracksTimestamp?_isSome n (by rw [htg]; exact ht)
  obtain ⟨d1, d3, d2⟩ := dispatch_sim (cfg := cfg) (nm := nm) (view := view) now t n ht htg hc hg
  unfold Target.gnmiUpdate
  rw [hb]
  simp only
  refine ⟨d1, d3, ?_⟩
  split
  · rw [(checkTimestamp_frame _ n.ts).1]; exact d2
  · exact d2

end Feed
end Gnmi
