import Gnmi.Model.CliGroup
import Gnmi.Lemmas.RecvSurfaces
import Gnmi.Lemmas.PipelineOnce
/-!
# Lemmas for the CLI clause of C01 (`Props/C01Cli.lean`)

* what `pathmap.add` does to the **leaves** of a pathmap (`pmAddNE_leaves`): when no leaf sits at
  or below the added path, the new pathmap's leaves are the old ones plus the added ones — and when,
  moreover, no leaf sits on a proper prefix of the path the add returns (no panic): `pmAddNE_apart`;
* a sequence of adds with pairwise prefix-incomparable paths (`pmAddAll_leaves`): returns, and the
  leaves of the result are exactly (a permutation of) the added ones — nothing lost, nothing
  overwritten, nothing extra;
* `displayWalk` over a well-formed client tree shows exactly its leaves (`displayWalk_leaves`);
* the tree of the pipeline's client is prefix-free with unique keys after *every* run of
  responses (`run_treeInv`), so its walk — in any order — meets the hypothesis above
  (`cliGroupOf_leaves`); such a tree is the content of a well-formed `ctree` (`exists_trie`).
-/
namespace Gnmi
namespace RX
open List

/-! ## leaves of a pathmap under `pathmap.add` -/

section pathmap
variable {V : Type}

theorem pmLeavesV_map (cs : PMap' V) : pmLeavesV (.map cs) = pmLeaves cs := by simp [pmLeavesV]

theorem pmLeaves_cons (k : String) (x : PM V) (r : PMap' V) :
    pmLeaves ((k, x) :: r) = (pmLeavesV x).map (pre k) ++ pmLeaves r := by simp [pmLeaves]

theorem pmLeaves_nil : pmLeaves ([] : PMap' V) = [] := by simp [pmLeaves]

/-- `m[k] = x` on an absent key: a new entry -/
theorem pmLeaves_pmSet_none : ∀ (m : PMap' V) (k : String) (x : PM V), pmGet m k = none →
    pmLeaves (pmSet m k x) = pmLeaves m ++ (pmLeavesV x).map (pre k)
  | [], k, x, _ => by simp [pmSet, pmLeaves_cons, pmLeaves_nil]
  | (k', y) :: r, k, x, h => by
    by_cases hk : k' = k
    · simp [pmGet, hk] at h
    · have h' : pmGet r k = none := by simpa [pmGet, hk] using h
      simp [pmSet, hk, pmLeaves_cons, pmLeaves_pmSet_none r k x h']

/-- `m[k] = x` on a present key: the entry read by `m[k]` is replaced, the rest stays -/
theorem pmLeaves_pmSet_some : ∀ (m : PMap' V) (k : String) (x y : PM V), pmGet m k = some y →
    ∃ rest, (pmLeaves m).Perm ((pmLeavesV y).map (pre k) ++ rest) ∧
      (pmLeaves (pmSet m k x)).Perm ((pmLeavesV x).map (pre k) ++ rest)
  | [], k, x, y, h => by simp [pmGet] at h
  | (k', z) :: r, k, x, y, h => by
    by_cases hk : k' = k
    · subst hk
      have : z = y := by simpa [pmGet] using h
      subst this
      exact ⟨pmLeaves r, by simp [pmLeaves_cons], by simp [pmSet, pmLeaves_cons]⟩
    · have h' : pmGet r k = some y := by simpa [pmGet, hk] using h
      obtain ⟨rest, h1, h2⟩ := pmLeaves_pmSet_some r k x y h'
      refine ⟨(pmLeavesV z).map (pre k') ++ rest, ?_, ?_⟩
      · rw [pmLeaves_cons]
        exact ((h1.append_left _)).trans (perm_append_comm_assoc _ _ _)
      · simp only [pmSet, hk, if_false, pmLeaves_cons]
        exact ((h2.append_left _)).trans (perm_append_comm_assoc _ _ _)

/-- what `m[k]` holds is part of the pathmap's leaves -/
theorem pmGet_leaves {m : PMap' V} {k : String} {y : PM V} (h : pmGet m k = some y) :
    ∀ kv ∈ pmLeavesV y, pre k kv ∈ pmLeaves m := by
  obtain ⟨rest, h1, _⟩ := pmLeaves_pmSet_some m k y y h
  intro kv hkv
  exact h1.mem_iff.2 (mem_append_left _ (mem_map_of_mem hkv))

theorem pre_eq_append (k : String) : (pre k : Path × V → Path × V) = fun kv => ([k] ++ kv.1, kv.2) := by
  funext kv
  rfl

theorem map_pre_append (k : String) (p : Path) (l : List (Path × V)) :
    (l.map (fun kv => (p ++ kv.1, kv.2))).map (pre k) = l.map (fun kv => (k :: p ++ kv.1, kv.2)) := by
  simp [pre]

/-- **the leaves after one `pathmap.add`**: when no leaf sits at or below the added (non-empty)
path, a returning add keeps every leaf and adds those of the added value under the path -/
theorem pmAddNE_leaves : ∀ (m : PMap' V) (p : Path) (x : PM V) (m' : PMap' V), p ≠ [] →
    (∀ kv ∈ pmLeaves m, ¬ p <+: kv.1) → pmAddNE m p x = .ok m' →
    (pmLeaves m').Perm (pmLeaves m ++ (pmLeavesV x).map (fun kv => (p ++ kv.1, kv.2)))
  | m, [], x, m', hp, _, _ => absurd rfl hp
  | m, [k], x, m', _, hfree, ha => by
    simp only [pmAddNE, Outcome.ok.injEq] at ha
    subst ha
    rw [← pre_eq_append]
    cases hg : pmGet m k with
    | none => rw [pmLeaves_pmSet_none m k x hg]
    | some y =>
      obtain ⟨rest, h1, h2⟩ := pmLeaves_pmSet_some m k x y hg
      have hy : pmLeavesV y = [] := by
        cases hl : pmLeavesV y with
        | nil => rfl
        | cons a r =>
          have hm := pmGet_leaves hg a (by simp [hl])
          exact absurd (by simp [pre, cons_prefix_cons]) (hfree _ hm)
      rw [hy] at h1
      simp only [map_nil, nil_append] at h1
      exact h2.trans (perm_append_comm.trans (h1.symm.append_right _))
  | m, k :: k2 :: rest, x, m', _, hfree, ha => by
    cases hg : pmGet m k with
    | none =>
      simp only [pmAddNE, hg] at ha
      cases hs : pmAddNE [] (k2 :: rest) x with
      | ok mm =>
        simp only [hs, Outcome.ok.injEq] at ha
        subst ha
        have ih := pmAddNE_leaves [] (k2 :: rest) x mm (by simp) (by simp [pmLeaves_nil]) hs
        simp only [pmLeaves_nil, nil_append] at ih
        rw [pmLeaves_pmSet_none m k _ hg, pmLeavesV_map]
        refine Perm.append_left _ ?_
        have := ih.map (pre k)
        rwa [map_pre_append] at this
      | err e => simp [hs] at ha
      | panic => simp [hs] at ha
    | some y =>
      cases y with
      | val w => simp [pmAddNE, hg] at ha
      | map mm =>
        simp only [pmAddNE, hg] at ha
        cases hs : pmAddNE mm (k2 :: rest) x with
        | ok mm' =>
          simp only [hs, Outcome.ok.injEq] at ha
          subst ha
          obtain ⟨R, h1, h2⟩ := pmLeaves_pmSet_some m k (.map mm') (.map mm) hg
          simp only [pmLeavesV_map] at h1 h2
          have hfree' : ∀ kv ∈ pmLeaves mm, ¬ (k2 :: rest) <+: kv.1 := by
            intro kv hkv hpre
            have hm := pmGet_leaves hg kv (by simpa [pmLeavesV_map] using hkv)
            exact hfree _ hm (by simpa [pre, cons_prefix_cons] using hpre)
          have ih := pmAddNE_leaves mm (k2 :: rest) x mm' (by simp) hfree' hs
          have ih' := ih.map (pre k)
          rw [map_append, map_pre_append] at ih'
          -- (A' ++ R) ~ ((A ++ N) ++ R) ~ ((A ++ R) ++ N) ~ leaves m ++ N
          refine h2.trans ((ih'.append_right R).trans ?_)
          rw [append_assoc]
          refine (Perm.append_left _ perm_append_comm).trans ?_
          rw [← append_assoc]
          exact h1.symm.append_right _
        | err e => simp [hs] at ha
        | panic => simp [hs] at ha

/-- a path bound to a value on the way to `q` is a leaf of the pathmap -/
theorem blocked_leaf : ∀ (m : PMap' V) (q : Path), blocked m q = true →
    ∃ kv ∈ pmLeaves m, ProperPrefix kv.1 q
  | _, [], h => by simp [blocked] at h
  | _, [_], h => by simp [blocked] at h
  | m, k :: k2 :: rest, h => by
    cases hg : pmGet m k with
    | none => simp [blocked, hg] at h
    | some y =>
      cases y with
      | val w =>
        have hm := pmGet_leaves hg ([], w) (by simp [pmLeavesV])
        exact ⟨_, hm, by simp [pre, cons_prefix_cons], by simp [pre]⟩
      | map mm =>
        have hb : blocked mm (k2 :: rest) = true := by simpa [blocked, hg] using h
        obtain ⟨kv, hkv, hpp⟩ := blocked_leaf mm (k2 :: rest) hb
        exact ⟨pre k kv, pmGet_leaves hg kv (by simpa [pmLeavesV_map] using hkv), properPrefix_cons hpp⟩

/-- neither path is a prefix of the other (in particular they differ) -/
def ApartP (a b : Path) : Prop := ¬ a <+: b ∧ ¬ b <+: a

theorem ApartP.symm {a b : Path} (h : ApartP a b) : ApartP b a := ⟨h.2, h.1⟩

theorem ApartP.append_left {a b : Path} (h : ApartP a b) (q : Path) : ApartP (a ++ q) b := by
  refine ⟨fun hp => h.1 ((prefix_append a q).trans hp), fun hp => ?_⟩
  rcases prefix_or_prefix_of_prefix (prefix_append a q) hp with h' | h'
  · exact h.1 h'
  · exact h.2 h'

theorem ApartP.ne_nil {a b : Path} (h : ApartP a b) : a ≠ [] ∧ b ≠ [] :=
  ⟨fun e => h.1 (e ▸ nil_prefix), fun e => h.2 (e ▸ nil_prefix)⟩

theorem normKey_of_ne_nil {p : Path} (h : p ≠ []) : normKey p = p := by simp [normKey, h]

theorem normKey_ne_nil (p : Path) : normKey p ≠ [] := by
  unfold normKey
  split
  · simp
  · assumption

theorem ApartP.normKey {a b : Path} (h : ApartP a b) : ApartP (normKey a) (normKey b) := by
  rw [normKey_of_ne_nil h.ne_nil.1, normKey_of_ne_nil h.ne_nil.2]
  exact h

/-- one add on a non-empty path that is prefix-incomparable with every leaf: returns, leaves kept -/
theorem pmAddNE_apart (m : PMap' V) (p : Path) (x : PM V) (hp : p ≠ [])
    (h : ∀ kv ∈ pmLeaves m, ApartP kv.1 p) :
    ∃ m', pmAddNE m p x = .ok m' ∧
      (pmLeaves m').Perm (pmLeaves m ++ (pmLeavesV x).map (fun kv => (p ++ kv.1, kv.2))) := by
  have hnb : blocked m p = false := by
    cases hb : blocked m p with
    | false => rfl
    | true =>
      obtain ⟨kv, hkv, hpp⟩ := blocked_leaf m p hb
      exact absurd hpp.1 (h kv hkv).1
  obtain ⟨m', hm'⟩ := (pmAddNE_spec m p x).2 hnb
  exact ⟨m', hm', pmAddNE_leaves m p x m' hp (fun kv hkv => (h kv hkv).2) hm'⟩

/-- **a sequence of `pathmap.add`s on pairwise prefix-incomparable paths** (also incomparable
with the leaves already there) returns — no panic, and the model has no error outcome for it — and
the resulting pathmap's leaves are the old ones plus, for every add, the leaves of the added value
under its path: nothing lost, overwritten or invented -/
theorem pmAddAll_leaves : ∀ (kvs : List (Path × PM V)) (m : PMap' V),
    (∀ kv ∈ pmLeaves m, ∀ e ∈ kvs, ApartP kv.1 (normKey e.1)) →
    (kvs.map (fun e => normKey e.1)).Pairwise ApartP →
    ∃ m', pmAddAll m kvs = .ok m' ∧
      (pmLeaves m').Perm (pmLeaves m ++ kvs.flatMap (fun e => addedLeaves e.1 e.2))
  | [], m, _, _ => ⟨m, rfl, by simp⟩
  | (p, x) :: r, m, hm, hpw => by
    obtain ⟨m1, ha, hl⟩ := pmAddNE_apart m (normKey p) x (normKey_ne_nil p)
      (fun kv hkv => hm kv hkv (p, x) (by simp))
    simp only [map_cons, pairwise_cons, mem_map] at hpw
    have hm1 : ∀ kv ∈ pmLeaves m1, ∀ e ∈ r, ApartP kv.1 (normKey e.1) := by
      intro kv hkv e he
      rcases mem_append.1 (hl.mem_iff.1 hkv) with h | h
      · exact hm kv h e (mem_cons_of_mem _ he)
      · obtain ⟨y, _, rfl⟩ := mem_map.1 h
        exact (hpw.1 _ ⟨e, he, rfl⟩).append_left _
    obtain ⟨m2, ha2, hl2⟩ := pmAddAll_leaves r m1 hm1 hpw.2
    refine ⟨m2, by simp [pmAddAll, pmAdd, ha, ha2], ?_⟩
    rw [flatMap_cons, ← append_assoc]
    exact hl2.trans (hl.append_right _)

/-- from the empty pathmap -/
theorem pmAddAll_nil_leaves (kvs : List (Path × PM V))
    (hpw : (kvs.map (fun e => normKey e.1)).Pairwise ApartP) :
    ∃ m', pmAddAll [] kvs = .ok m' ∧ (pmLeaves m').Perm (kvs.flatMap (fun e => addedLeaves e.1 e.2)) := by
  obtain ⟨m', h1, h2⟩ := pmAddAll_leaves kvs [] (by simp [pmLeaves_nil]) hpw
  exact ⟨m', h1, by simpa [pmLeaves_nil] using h2⟩

theorem addedLeaves_val (p : Path) (v : V) : addedLeaves p (.val v) = [(normKey p, v)] := by
  simp [addedLeaves, pmLeavesV]

end pathmap

/-! ## `displayWalk` -/

section display
variable {F D : Type}

theorem addedLeaves_walkEntry (tm : TsMode) (kv : Path × TreeVal F D) :
    addedLeaves (walkEntry tm kv).1 (walkEntry tm kv).2 = shownLeaves tm kv := by
  unfold walkEntry shownLeaves
  cases formatTime (F := F) (D := D) tm kv.2.ts with
  | none => simp [addedLeaves, pmLeavesV]
  | some t => simp [addedLeaves, pmLeavesV, pmLeaves_cons, pmLeaves_nil, pre]

/-- keys of a list of entries are pairwise prefix-incomparable -/
def KeysApart {α : Type} (l : List (Path × α)) : Prop := l.Pairwise (fun a b => ApartP a.1 b.1)

theorem keysApart_perm {α : Type} {l l' : List (Path × α)} (h : l.Perm l') : KeysApart l ↔ KeysApart l' :=
  h.pairwise_iff (fun h => h.symm)

theorem walk_keysApart {V : Type} (t : Trie V) (h : Trie.WFRoot t) : KeysApart (Trie.walk t) :=
  Trie.walk_apart t h

/-- **`displayWalk` shows exactly the client tree's leaves**: on every well-formed client tree and
for every timestamp setting it returns a pathmap (no panic; the model has no error outcome here)
whose leaves are a permutation of `shownLeaves` of the tree's leaves -/
theorem displayWalk_leaves (tm : TsMode) (t : CTree F D) (h : Trie.WFRoot t) :
    ∃ m, displayWalk tm t = .ok (.group m) ∧
      (pmLeaves m).Perm ((Trie.walk t).flatMap (shownLeaves tm)) := by
  have hap : KeysApart (Trie.walkSorted t) := (keysApart_perm (Trie.walkSorted_perm t)).2 (walk_keysApart t h)
  have hpw : (((Trie.walkSorted t).map (walkEntry tm)).map (fun e => normKey e.1)).Pairwise ApartP := by
    rw [pairwise_map, pairwise_map]
    exact hap.imp (fun hab => by simpa [walkEntry_fst] using hab.normKey)
  obtain ⟨m, h1, h2⟩ := pmAddAll_nil_leaves _ hpw
  refine ⟨m, by simp [displayWalk, h1], ?_⟩
  rw [flatMap_map] at h2
  simp only [addedLeaves_walkEntry] at h2
  exact h2.trans ((Trie.walkSorted_perm t).flatMap_right _)

end display
end RX

/-! ## the pipeline client's tree -/

namespace Pipeline
open List RX

/-- unique keys and no key a prefix of another: what `ctree` guarantees of a client tree (C09) -/
def TreeInv {α : Type} (m : PMap α) : Prop := UniqueKeys m ∧ PrefixFree m

theorem treeInv_nil {α : Type} : TreeInv ([] : PMap α) := by
  refine ⟨by simp [UniqueKeys], ?_⟩
  intro a ha
  simp at ha

theorem treeInv_filter {α : Type} {m : PMap α} (f : Path × α → Bool) (h : TreeInv m) : TreeInv (m.filter f) :=
  ⟨(filter_sublist.map _).nodup h.1,
   fun a ha b hb => h.2 a (mem_filter.1 ha).1 b (mem_filter.1 hb).1⟩

theorem treeInv_treeAdd (m : PMap CLeaf) (p : Path) (v : CLeaf) (h : TreeInv m) : TreeInv (treeAdd m p v) := by
  refine ⟨Relay.treeAdd_nodup m p v h.1, ?_⟩
  unfold treeAdd PMap.add
  by_cases hc : PMap.conflicts m p = true
  · simp only [hc, if_true]
    exact h.2
  · simp only [hc]
    have hnc : ∀ kv ∈ m, (kv.1 <+: p ∨ p <+: kv.1) → kv.1 = p := by
      intro kv hkv hpre
      have hc' : PMap.conflicts m p = false := by simpa using hc
      unfold PMap.conflicts at hc'
      have := (any_eq_false.1 hc') kv hkv
      simp only [Bool.and_eq_true, Bool.or_eq_true, isPrefixOf_iff_prefix, bne_iff_ne, ne_eq, not_and,
        Decidable.not_not] at this
      exact this hpre
    intro a ha b hb hab
    rcases mem_cons.1 ha with rfl | ha'
    · rcases mem_cons.1 hb with rfl | hb'
      · rfl
      · exact (hnc b (mem_filter.1 hb').1 (Or.inr hab)).symm
    · rcases mem_cons.1 hb with rfl | hb'
      · exact hnc a (mem_filter.1 ha').1 (Or.inl hab)
      · exact h.2 a (mem_filter.1 ha').1 b (mem_filter.1 hb').1 hab

theorem treeInv_treeDelete (m : PMap CLeaf) (p : Path) (h : TreeInv m) : TreeInv (treeDelete m p) := by
  unfold treeDelete PMap.delete
  exact treeInv_filter _ h

theorem recvUpdates_treeInv (pre : Path) (ts : Int) : ∀ (us : List Cache.Upd) (c : Client),
    TreeInv c.tree → TreeInv (recvUpdates pre ts us c).tree
  | [], c, h => h
  | u :: us, c, h => by
    unfold recvUpdates
    split
    · exact h
    · exact recvUpdates_treeInv pre ts us c h
    · exact recvUpdates_treeInv pre ts us _ (treeInv_treeAdd _ _ _ h)

theorem recvDeletes_treeInv (pre : Path) : ∀ (ds : List Path) (c : Client),
    TreeInv c.tree → TreeInv (recvDeletes pre ds c).tree
  | [], c, h => h
  | d :: ds, c, h => by
    unfold recvDeletes
    exact recvDeletes_treeInv pre ds _ (treeInv_treeDelete _ _ h)

theorem recv_treeInv (once : Bool) (c : Client) (r : Sub.Resp) (h : TreeInv c.tree) :
    TreeInv (Client.recv once c r).tree := by
  unfold Client.recv
  split
  · exact h
  · split
    · exact h
    · simp only
      split
      · exact recvUpdates_treeInv _ _ _ _ h
      · exact recvDeletes_treeInv _ _ _ (recvUpdates_treeInv _ _ _ _ h)
    · exact treeInv_treeDelete _ _ h

/-- **the client tree is prefix-free with unique keys after every run of responses** -/
theorem run_treeInv (once : Bool) : ∀ (rs : List Sub.Resp) (c : Client), TreeInv c.tree →
    TreeInv (Client.run once c rs).tree
  | [], c, h => h
  | r :: rs, c, h => by
    unfold Client.run
    rw [foldl_cons]
    exact run_treeInv once rs _ (recv_treeInv once c r h)

theorem finish_tree (c : Client) (st : Option Sub.Code) : (c.finish st).tree = c.tree := by
  unfold Client.finish
  split
  · rfl
  · rfl
  · split <;> rfl

/-- … in particular the tree of every ONCE client, whatever the state and the query -/
theorem once_treeInv (s : Sys) (T : String) (qs : List Path) : TreeInv (s.once T qs).tree := by
  unfold Sys.once
  simp only [finish_tree]
  exact run_treeInv true _ _ treeInv_nil

theorem keysApart_of_treeInv {α : Type} {m : PMap α} (h : TreeInv m) : KeysApart m := by
  have hn : m.Pairwise (fun a b => a.1 ≠ b.1) := by
    have := h.1
    unfold UniqueKeys at this
    rwa [Nodup, pairwise_map] at this
  refine hn.imp_of_mem ?_
  intro a b ha hb hne
  exact ⟨fun hp => hne (h.2 a ha b hb hp), fun hp => hne (h.2 b hb a ha hp).symm⟩

/-- **the group display of a client tree**: for a prefix-free tree with unique keys, walked in any
order, `displayWalk`'s adds return a pathmap whose leaves are exactly the tree's leaves (path
and value; the root leaf, if it is the tree, under the empty name) -/
theorem cliGroupOf_leaves (tree walk : List (Path × CLeaf)) (hinv : TreeInv tree) (hw : walk.Perm tree) :
    ∃ m, cliGroupOf walk = .ok m ∧
      (pmLeaves m).Perm (tree.map (fun kv => (normKey kv.1, kv.2.val))) := by
  have hap : KeysApart walk := (keysApart_perm hw).2 (keysApart_of_treeInv hinv)
  have hpw : ((walk.map (fun kv => (kv.1, (RX.PM.val kv.2.val : RX.PM CVal)))).map
      (fun e => normKey e.1)).Pairwise ApartP := by
    rw [pairwise_map, pairwise_map]
    exact hap.imp (fun hab => hab.normKey)
  obtain ⟨m, h1, h2⟩ := pmAddAll_nil_leaves _ hpw
  refine ⟨m, h1, ?_⟩
  rw [flatMap_map] at h2
  simp only [addedLeaves_val] at h2
  have h3 : (walk.flatMap (fun kv => [(normKey kv.1, kv.2.val)])).Perm
      (tree.flatMap (fun kv => [(normKey kv.1, kv.2.val)])) := hw.flatMap_right _
  have h4 : ∀ l : List (Path × CLeaf), l.flatMap (fun kv => [(normKey kv.1, kv.2.val)]) =
      l.map (fun kv => (normKey kv.1, kv.2.val)) := by
    intro l
    induction l with
    | nil => rfl
    | cons a r ih => simp [flatMap_cons, ih]
  rw [h4, h4] at h3
  rw [h4] at h2
  exact h2.trans h3

theorem treeInv_tail {α : Type} {x : Path × α} {r : PMap α} (h : TreeInv (x :: r)) : TreeInv r := by
  refine ⟨?_, fun a ha b hb => h.2 a (mem_cons_of_mem _ ha) b (mem_cons_of_mem _ hb)⟩
  have hnd : (x.1 :: r.map (·.1)).Nodup := h.1
  exact (nodup_cons.1 hnd).2

/-- **a prefix-free map with unique keys is the content of a well-formed `ctree`**: adding its
entries one by one, `ctree.Add` refuses none of them and the walk of the result is the map -/
theorem trieOf_spec {α : Type} : ∀ (m : PMap α), TreeInv m →
    Trie.WFRoot (trieOf m) ∧ (Trie.walk (trieOf m)).Perm m
  | [], _ => ⟨Or.inl rfl, by simp [trieOf, Trie.walk]⟩
  | (p, v) :: r, h => by
    obtain ⟨hwf, hperm⟩ := trieOf_spec r (treeInv_tail h)
    have hfresh : ∀ kv ∈ r, kv.1 ≠ p := by
      have hnd : (p :: r.map (·.1)).Nodup := h.1
      have hnin := (nodup_cons.1 hnd).1
      intro kv hkv e
      exact hnin (e ▸ mem_map_of_mem (f := (·.1)) hkv)
    unfold trieOf
    cases ha : Trie.add (trieOf r) p v with
    | none =>
      obtain ⟨kv, hkv, hpre, hne⟩ := (Trie.add_none_iff (trieOf r) p v hwf).1 ha
      have hkv0 := hperm.mem_iff.1 hkv
      rcases hpre with hp | hp
      · exact absurd (h.2 kv (mem_cons_of_mem _ hkv0) (p, v) (by simp) hp) hne
      · exact absurd (h.2 (p, v) (by simp) kv (mem_cons_of_mem _ hkv0) hp).symm hne
    | some t' =>
      obtain ⟨hwf', hperm'⟩ := Trie.add_spec (trieOf r) p v t' hwf ha
      refine ⟨Or.inr hwf', ?_⟩
      have hfil : (Trie.walk (trieOf r)).filter (fun kv => kv.1 != p) = Trie.walk (trieOf r) := by
        apply filter_eq_self.2
        intro kv hkv
        simpa using hfresh kv (hperm.mem_iff.1 hkv)
      rw [hfil] at hperm'
      exact hperm'.trans (hperm.cons _)

theorem treeInv_mapVals {α β : Type} (f : Path × α → β) {m : PMap α} (h : TreeInv m) :
    TreeInv (m.map (fun kv => (kv.1, f kv))) := by
  refine ⟨?_, ?_⟩
  · have : (m.map (fun kv => (kv.1, f kv))).map (·.1) = m.map (·.1) := by simp [Function.comp_def]
    unfold UniqueKeys
    rw [this]
    exact h.1
  · intro a ha b hb hab
    obtain ⟨a0, ha0, rfl⟩ := mem_map.1 ha
    obtain ⟨b0, hb0, rfl⟩ := mem_map.1 hb
    exact h.2 a0 ha0 b0 hb0 hab

/-- … for any function on the values -/
theorem exists_trie {α β : Type} (f : Path × α → β) (m : PMap α) (h : TreeInv m) :
    ∃ t : Trie β, Trie.WFRoot t ∧ (Trie.walk t).Perm (m.map (fun kv => (kv.1, f kv))) :=
  ⟨_, trieOf_spec _ (treeInv_mapVals f h)⟩

/-- the order `WalkSorted` visits a client's leaves in is a permutation of its leaves -/
theorem sortedWalk_perm (c : Client) (h : TreeInv c.tree) : c.sortedWalk.Perm c.leaves :=
  (Trie.walkSorted_perm _).trans (trieOf_spec c.leaves h).2

/-- with unique keys, a stored entry is what a lookup finds -/
theorem cget_of_mem : ∀ {m : PMap CLeaf} {p : Path} {leaf : CLeaf}, UniqueKeys m → (p, leaf) ∈ m →
    Relay.cget m p = some leaf
  | [], _, _, _, h => by cases h
  | x :: m, p, leaf, hu, h => by
    have hnd : (x.1 :: m.map (·.1)).Nodup := hu
    obtain ⟨hnin, hnd'⟩ := nodup_cons.1 hnd
    rcases mem_cons.1 h with e | h'
    · subst e
      simp [Relay.cget]
    · have hne : x.1 ≠ p := fun e => hnin (e ▸ mem_map_of_mem (f := (·.1)) h')
      have ih := cget_of_mem (m := m) hnd' h'
      unfold Relay.cget at ih ⊢
      have hb : (x.1 == p) = false := by simpa using hne
      simp only [find?_cons, hb]
      exact ih

/-- a displayed `(path, value)` is a held leaf with that value, and conversely -/
theorem mem_leafValues {m : PMap CLeaf} (hu : UniqueKeys m) (p : Path) (cv : CVal) :
    (p, cv) ∈ m.map (fun kv => (kv.1, kv.2.val)) ↔ ∃ ts, Relay.cget m p = some { ts := ts, val := cv } := by
  constructor
  · intro h
    obtain ⟨kv, hkv, he⟩ := mem_map.1 h
    obtain ⟨k, leaf⟩ := kv
    simp only [Prod.mk.injEq] at he
    obtain ⟨rfl, rfl⟩ := he
    exact ⟨leaf.ts, cget_of_mem hu hkv⟩
  · rintro ⟨ts, h⟩
    unfold Relay.cget at h
    simp only [Option.map_eq_some_iff] at h
    obtain ⟨kv, hf, hkv⟩ := h
    have h1 := List.mem_of_find?_eq_some hf
    have h2 : kv.1 = p := by simpa using List.find?_some hf
    exact mem_map.2 ⟨kv, h1, by simp [h2, hkv]⟩

end Pipeline
end Gnmi
