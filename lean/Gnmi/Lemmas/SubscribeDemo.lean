import Gnmi.Lemmas.SubscribeLTS
/-!
# A small concrete instance of the Subscribe LTS, used by the non-vacuity examples

Two targets `0` and `1` (target of key `k` = `k / 10`), values and regions are numbers
(region `r` = the whole target `r`).  Subscribers:

| id | request |
|----|---------|
| 0  | STREAM `*`, everything allowed |
| 1  | STREAM `*`, ACL allows only target 0 |
| 2  | ONCE, single target 0 |
| 3  | STREAM, single target 1, ACL denies target 1 |
| 4  | `NewRPCACL` fails |
| 5  | POLL `*` |
| 6  | STREAM `*`, `updates_only` |
| 7  | STREAM `*`, streamed everything but the walk only matches even keys |
-/
namespace Gnmi
namespace SubLTS
namespace Demo

def req : Nat → Req Nat Nat Nat
  | 1 => { wants := fun _ => true, walks := fun _ => true, wantsR := fun _ => true, allow := fun t => t == 0 }
  | 2 => { mode := .once, single := some 0, wants := fun k => k / 10 == 0, walks := fun k => k / 10 == 0,
           wantsR := fun _ => true, allow := fun _ => true }
  | 3 => { single := some 1, wants := fun k => k / 10 == 1, walks := fun k => k / 10 == 1,
           wantsR := fun _ => true, allow := fun t => t == 0 }
  | 4 => { wants := fun _ => true, walks := fun _ => true, wantsR := fun _ => true, allow := fun _ => true,
           aclOk := false }
  | 5 => { mode := .poll, wants := fun _ => true, walks := fun _ => true, wantsR := fun _ => true,
           allow := fun _ => true }
  | 6 => { updatesOnly := true, wants := fun _ => true, walks := fun _ => true, wantsR := fun _ => true,
           allow := fun _ => true }
  | 7 => { wants := fun _ => true, walks := fun k => k % 2 == 0, wantsR := fun _ => true,
           allow := fun _ => true }
  | _ => { wants := fun _ => true, walks := fun _ => true, wantsR := fun _ => true, allow := fun _ => true }

def sys : Sys Nat Nat Nat :=
  { tgt := fun k => k / 10, covers := fun r k => k / 10 == r, rtgt := fun r => r,
    isTD := fun _ => true, req := req }

theorem sys_wf : sys.WF := by
  refine ⟨?_, ?_, ?_⟩
  · intro s k h
    match s with
    | 0 | 1 | 2 | 3 | 4 | 5 | 6 => exact h
    | 7 => rfl
    | n + 8 => exact h
  · intro s k r _ _
    match s with
    | 0 | 1 | 2 | 3 | 4 | 5 | 6 | 7 => rfl
    | n + 8 => rfl
  · intro r k h
    simpa [sys] using h

theorem sys_swap : sys.swap = false := rfl

abbrev L := Label Nat Nat Nat Nat
abbrev C := Cfg Nat Nat Nat Nat

/-- the handler of subscriber `s` runs up to `<-errC` (7 statements for a STREAM, 6 otherwise) -/
def hsN (s n : Nat) : List L := List.replicate n (.sub s .hs)

/-- deliver the head of the queue of `s` -/
def deliver (s : Nat) : List L := [.sub s .next, .sub s .build, .sub s .sent]

/-- both targets exist; leaves `1 ↦ 7` (target 0) and `11 ↦ 70` (target 1) are written and announced -/
def setup : List L :=
  [.sh (.tAdd 0), .sh (.tAdd 1), .sh (.w1Add 1 7), .sh (.w2 (.upd 1 1)),
   .sh (.w1Add 11 70), .sh (.w2 (.upd 11 1))]

/-- a schedule that runs, and ends in a configuration with observation `P` -/
theorem reach_of_trace (tr : List L) (P : C → Bool)
    (h : (fireAll sys Cfg.init tr).map P = some true) : ∃ c : C, Reach sys c ∧ P c = true := by
  cases hc : fireAll sys Cfg.init tr with
  | none => rw [hc] at h; cases h
  | some c =>
    rw [hc] at h
    exact ⟨c, fireAll_reach _ Reach.init hc, by simpa using h⟩

/-- two consecutive schedules -/
theorem reach_of_trace2 (tr1 tr2 : List L) (P : C → C → Bool)
    (h : ((fireAll sys Cfg.init tr1).bind fun c1 => (fireAll sys c1 tr2).map (P c1)) = some true) :
    ∃ c1 c2 : C, Reach sys c1 ∧ fireAll sys c1 tr2 = some c2 ∧ P c1 c2 = true := by
  cases h1 : fireAll sys Cfg.init tr1 with
  | none => rw [h1] at h; cases h
  | some c1 =>
    rw [h1] at h
    simp only [Option.bind_some] at h
    cases h2 : fireAll sys c1 tr2 with
    | none => rw [h2] at h; cases h
    | some c2 =>
      rw [h2] at h
      exact ⟨c1, c2, fireAll_reach _ Reach.init h1, h2, by simpa using h⟩

end Demo
end SubLTS
end Gnmi
