import Gnmi.Model.CacheX
import Gnmi.Lemmas.CacheAccounting
/-!
# The wired cache (`Model/CacheX.lean`) against the cache model (`Model/Cache.lean`)

* `…X_base`: the `Target` component of every `…X` function is what the existing function of
  `Model/Cache.lean` computes, so the existing theorems apply to it.
* `…X_lat`: the latency component, characterised from the *result* of the existing function:
  `Compute` is reached exactly when the update is real data (not under `meta`), the target is in
  sync, and `gnmiUpdate` returns a leaf (`announced`: neither rejected nor suppressed).
-/
namespace Gnmi
namespace Cache
open _root_.Gnmi.Acc

/-- `gnmiUpdate` returned a leaf: the update was stored and is handed to the client -/
def announced (r : Res × Target × Option Noti) : Bool := r.1 == .ok && r.2.2.isSome

theorem updateCoreX_base (cfg : Cfg) (now : Int) (t : Target) (l : LatSt) (rd : Bool) (path : Path)
    (n : Noti) (u : Upd) :
    (updateCoreX cfg now t l rd path n u).1 = updateCore cfg now t rd path n u := by
  unfold updateCoreX updateCore
  repeat' split
  all_goals first | rfl | (cases rd <;> simp_all)

/-- **The two `Compute` sites.**  `t.sync` is read after the leaf was written; `updateCore` never
changes it. -/
theorem updateCoreX_lat (cfg : Cfg) (now : Int) (t : Target) (l : LatSt) (rd : Bool) (path : Path)
    (n : Noti) (u : Upd) :
    (updateCoreX cfg now t l rd path n u).2 =
      if rd && t.sync && announced (updateCore cfg now t rd path n u) then l.compute now n.ts else l := by
  unfold updateCoreX updateCore announced
  repeat' split
  all_goals (cases rd <;> cases hs : t.sync <;> simp_all)

/-- is the first update of `n` stored outside `meta`?  (`realData` of `gnmiUpdate`; `false` for a
notification without updates or without an index path) -/
def realData1 (n : Noti) : Bool :=
  match n.upd with
  | u :: _ =>
    match updKey? n u with
    | some (h :: _) => h != metaRoot
    | _ => false
  | [] => false

theorem metaPre_rd {t t' : Target} {h : String} {rest : Path} {v : Val} {rd : Bool}
    (hp : metaPre t h rest v = some (t', rd)) : rd = (h != metaRoot) ∧ (rd = true → t' = t) := by
  unfold metaPre at hp
  split at hp
  · rename_i hm
    split at hp
    · cases hp
    · simp only [Option.map_eq_some_iff, Prod.mk.injEq] at hp
      obtain ⟨_, _, _, rfl⟩ := hp
      exact ⟨by simp [hm], by simp⟩
  · rename_i hm
    cases hp
    exact ⟨by simpa using hm, fun _ => rfl⟩

theorem gnmiUpdate1X_base (cfg : Cfg) (now : Int) (t : Target) (l : LatSt) (n : Noti) :
    (Target.gnmiUpdate1X cfg now t l n).1 = Target.gnmiUpdate1 cfg now t n := by
  cases hu : n.upd with
  | nil => simp [Target.gnmiUpdate1X, Target.gnmiUpdate1, hu]
  | cons u us =>
    cases hk : updKey? n u with
    | none => simp [Target.gnmiUpdate1X, Target.gnmiUpdate1, hu, hk]
    | some key =>
      cases key with
      | nil => simp [Target.gnmiUpdate1X, Target.gnmiUpdate1, hu, hk]
      | cons h rest =>
        cases hp : metaPre t h rest u.val with
        | none => simp [Target.gnmiUpdate1X, Target.gnmiUpdate1, hu, hk, hp]
        | some p =>
          simp only [Target.gnmiUpdate1X, Target.gnmiUpdate1, hu, hk, hp]
          exact updateCoreX_base ..

/-- **`Compute` is reached exactly for an announced real-data update of a target in sync.** -/
theorem gnmiUpdate1X_lat (cfg : Cfg) (now : Int) (t : Target) (l : LatSt) (n : Noti) :
    (Target.gnmiUpdate1X cfg now t l n).2 =
      if realData1 n && t.sync && announced (Target.gnmiUpdate1 cfg now t n) then l.compute now n.ts
      else l := by
  unfold realData1
  cases hu : n.upd with
  | nil => simp [Target.gnmiUpdate1X, hu]
  | cons u us =>
    cases hk : updKey? n u with
    | none => simp [Target.gnmiUpdate1X, hu, hk]
    | some key =>
      cases key with
      | nil => simp [Target.gnmiUpdate1X, hu, hk]
      | cons h rest =>
        cases hp : metaPre t h rest u.val with
        | none => simp [Target.gnmiUpdate1X, Target.gnmiUpdate1, hu, hk, hp, announced]
        | some p =>
          obtain ⟨t', rd⟩ := p
          obtain ⟨h1, h2⟩ := metaPre_rd hp
          simp only [Target.gnmiUpdate1X, Target.gnmiUpdate1, hu, hk, hp]
          rw [updateCoreX_lat]
          cases hrd : rd
          · rw [hrd] at h1
            simp [← h1]
          · rw [h2 hrd]
            rw [hrd] at h1
            simp [← h1]

/-! ## Samples, read off the existing model -/

/-- the latency object after `Compute(ts)` for every `ts` of `tss`, in order, at clock reading `now` -/
def LatSt.feed (l : LatSt) (now : Int) (tss : List Int) : LatSt :=
  tss.foldl (fun l ts => l.compute now ts) l

theorem LatSt.feed_nil (l : LatSt) (now : Int) : l.feed now [] = l := rfl

theorem LatSt.feed_append (l : LatSt) (now : Int) (a b : List Int) :
    l.feed now (a ++ b) = (l.feed now a).feed now b := by
  simp [LatSt.feed, List.foldl_append]

theorem LatSt.feed_vals (l : LatSt) (now : Int) (tss : List Int) : (l.feed now tss).vals = l.vals := by
  induction tss generalizing l with
  | nil => rfl
  | cons ts r ih => simp only [LatSt.feed, List.foldl_cons] at ih ⊢; rw [ih]; rfl

def _root_.Gnmi.Acc.UnitOut.isAnnounced : UnitOut → Bool
  | .accepted _ _ => true
  | _ => false

/-- **The latency sample of one unit of work** (`Lemmas/CacheAccounting.unitOut`, the ledger entry
of `C15Hist.history_accounting`): its timestamp, when the unit is an *accepted* update (stored
and announced: neither rejected, stale, future nor suppressed) of *real data* (not under `meta`)
on a target that is *in sync* when the unit is processed. -/
def unitSample (cfg : Cfg) (now : Int) (t : Target) (m : Noti) : List Int :=
  if realData1 m && t.sync && (unitOut cfg now t m).isAnnounced then [m.ts] else []

/-- the samples of a sequence of units processed one after the other (as `unitOuts`) -/
def unitSamples (cfg : Cfg) (now : Int) : Target → List Noti → List Int
  | _, [] => []
  | t, m :: ms =>
    unitSample cfg now t m ++
      (if (t.dispatch cfg now m).1 = .panic then [] else unitSamples cfg now (t.dispatch cfg now m).2.1 ms)

/-- **the samples of notification `n` on target `t`** -/
def notiSamples (cfg : Cfg) (now : Int) (t : Target) (n : Noti) : List Int :=
  unitSamples cfg now t (unitNotis n)

theorem singleArm_announced (g : Res × Target × Option Noti) (k : Nat) (fresh : Bool) :
    (outOfArm (singleArm g k).1 (singleArm g k).2.2.1 k fresh).isAnnounced = announced g := by
  obtain ⟨res, t', ev⟩ := g
  cases res <;> cases ev <;> simp [singleArm, Res.isErr, outOfArm, UnitOut.isAnnounced, announced]

theorem multiUpdatesX_base (cfg : Cfg) (now : Int) (hdr : Noti) :
    ∀ (us : List Upd) (acc : MultiAcc) (l : LatSt),
      (multiUpdatesX cfg now hdr us (acc, l)).1 = multiUpdates cfg now hdr us acc
  | [], acc, l => by simp [multiUpdatesX, multiUpdates]
  | u :: us, acc, l => by
    have hb := gnmiUpdate1X_base cfg now acc.t l { hdr with upd := [u], del := [] }
    unfold multiUpdatesX multiUpdates
    simp only [← hb]
    generalize Target.gnmiUpdate1X cfg now acc.t l { hdr with upd := [u], del := [] } = g
    obtain ⟨⟨res, t', ev⟩, l'⟩ := g
    by_cases hp : acc.panicked = true
    · simp [hp]
    · cases res <;> cases ev <;> simp [hp, Res.isErr] <;> exact multiUpdatesX_base cfg now hdr us _ _

theorem dispatchX_base (cfg : Cfg) (now : Int) (t : Target) (l : LatSt) (n : Noti) :
    (t.dispatchX cfg now l n).1 = t.dispatch cfg now n := by
  unfold Target.dispatchX Target.dispatch
  simp only [gnmiUpdate1X_base, multiUpdatesX_base]
  repeat' split
  all_goals rfl

theorem gnmiUpdateX_base (cfg : Cfg) (now : Int) (t : Target) (l : LatSt) (n : Noti) :
    (t.gnmiUpdateX cfg now l n).1 = t.gnmiUpdate cfg now n := by
  cases h : tracksTimestamp? n <;> simp [Target.gnmiUpdateX, Target.gnmiUpdate, h, dispatchX_base]

theorem realData1_noUpd (m : Noti) (h : m.upd = []) : realData1 m = false := by
  unfold realData1; rw [h]

theorem unitSample_noUpd (cfg : Cfg) (now : Int) (t : Target) (m : Noti) (h : m.upd = []) :
    unitSample cfg now t m = [] := by
  unfold unitSample; rw [realData1_noUpd m h]; rfl

theorem compute_feed (l : LatSt) (now ts : Int) (b : Bool) :
    (if b then l.compute now ts else l) = l.feed now (if b then [ts] else []) := by
  cases b <;> rfl

/-- an atomic notification with updates and without deletes, or a single update: one `gnmiUpdate` -/
theorem unitOut_single (cfg : Cfg) (now : Int) (t : Target) (m : Noti) (k : Nat)
    (hd : t.dispatch cfg now m = singleArm (Target.gnmiUpdate1 cfg now t m) k)
    (hk : (if m.atomic then m.upd.length else 1) = k) (hup : m.upd ≠ []) :
    (unitOut cfg now t m).isAnnounced = announced (Target.gnmiUpdate1 cfg now t m) := by
  unfold unitOut
  have : m.upd.isEmpty = false := by cases h : m.upd <;> simp_all
  simp only [this, Bool.false_eq_true, if_false, hd, hk]
  exact singleArm_announced _ _ _

/-- one unit notification through `dispatchX`: the latency side -/
theorem dispatchX_unit (cfg : Cfg) (now : Int) (t : Target) (l : LatSt) (m : Noti) (hu : isUnit m = true) :
    (t.dispatchX cfg now l m).2 = l.feed now (unitSample cfg now t m) := by
  by_cases ha : m.atomic = true
  · by_cases hd : m.del.isEmpty = true
    · by_cases hup : m.upd.isEmpty = true
      · have h0 : m.upd = [] := by cases h : m.upd <;> simp_all
        rw [unitSample_noUpd cfg now t m h0]
        unfold Target.dispatchX
        simp [ha, hd, hup, LatSt.feed]
      · have h0 : m.upd ≠ [] := by intro h; simp [h] at hup
        have hdisp : t.dispatch cfg now m = singleArm (Target.gnmiUpdate1 cfg now t m) m.upd.length := by
          unfold Target.dispatch; simp [ha, hd, hup]
        unfold Target.dispatchX unitSample
        simp only [ha, if_true, hd, hup, Bool.not_true, Bool.false_eq_true, if_false]
        rw [gnmiUpdate1X_lat, compute_feed, unitOut_single cfg now t m _ hdisp (by simp [ha]) h0]
    · have hd' : (!m.del.isEmpty) = true := by simpa using hd
      have hdisp : t.dispatch cfg now m = (.err, t, [], false) := by
        unfold Target.dispatch; simp [ha, hd']
      have : (unitOut cfg now t m).isAnnounced = false := by
        unfold unitOut
        rw [hdisp]
        split
        · simp only [hd, Bool.false_eq_true, if_false, ha, if_true]; rfl
        · rfl
      unfold Target.dispatchX unitSample
      simp [ha, hd', this, LatSt.feed]
  · have ha' : m.atomic = false := by simpa using ha
    have hl : m.upd.length + m.del.length ≤ 1 := by simpa [isUnit, ha'] using hu
    have hnot : ¬ (m.upd.length + m.del.length > 1) := by omega
    by_cases h1 : m.upd.length = 1
    · have h0 : m.upd ≠ [] := by intro h; simp [h] at h1
      have hdisp : t.dispatch cfg now m = singleArm (Target.gnmiUpdate1 cfg now t m) 1 := by
        unfold Target.dispatch; simp only [ha', Bool.false_eq_true, if_false]; rw [if_neg hnot, if_pos h1]
      unfold Target.dispatchX unitSample
      simp only [ha', Bool.false_eq_true, if_false]
      rw [if_neg hnot, if_pos h1]
      simp only
      rw [gnmiUpdate1X_lat, compute_feed, unitOut_single cfg now t m _ hdisp (by simp [ha']) h0]
    · have h0 : m.upd = [] := by
        cases h : m.upd with
        | nil => rfl
        | cons _ tl => simp only [h, List.length_cons] at h1 hl; omega
      rw [unitSample_noUpd cfg now t m h0]
      unfold Target.dispatchX
      simp only [ha', Bool.false_eq_true, if_false]
      rw [if_neg hnot, if_neg h1]
      split <;> rfl

theorem unitSamples_nil (cfg : Cfg) (now : Int) (t : Target) : unitSamples cfg now t [] = [] := rfl

theorem multiUpdatesX_cons (cfg : Cfg) (now : Int) (hdr : Noti) (u : Upd) (us : List Upd) (acc : MultiAcc)
    (l : LatSt) (hp : acc.panicked = false) :
    multiUpdatesX cfg now hdr (u :: us) (acc, l) =
      (let r := Target.gnmiUpdate1X cfg now acc.t l (updUnit hdr u)
       if r.1.1 = .panic then ({ acc with panicked := true, t := r.1.2.1 }, r.2)
       else if r.1.1.isErr then multiUpdatesX cfg now hdr us ({ acc with anyErr := true, t := r.1.2.1 }, r.2)
       else
         match r.1.2.2 with
         | some nd =>
           multiUpdatesX cfg now hdr us
             ({ acc with anyOk := true,
                         t := { r.1.2.1 with md := { r.1.2.1.md with updated := r.1.2.1.md.updated + 1 } },
                         evs := acc.evs ++ [[Event.upd nd]] }, r.2)
         | none => multiUpdatesX cfg now hdr us ({ acc with anyOk := true, t := r.1.2.1 }, r.2)) := by
  conv => lhs; unfold multiUpdatesX
  simp only [hp, Bool.false_eq_true, if_false]
  rfl

/-- the update loop of a multi-update notification: one `Compute` per sampled unit, in order -/
theorem multiUpdatesX_lat (cfg : Cfg) (now : Int) (hdr : Noti) (ha : hdr.atomic = false) :
    ∀ (us : List Upd) (acc : MultiAcc) (l : LatSt),
      (multiUpdatesX cfg now hdr us (acc, l)).2 =
        if acc.panicked then l else l.feed now (unitSamples cfg now acc.t (us.map (updUnit hdr)))
  | [], acc, l => by cases acc.panicked <;> simp [multiUpdatesX, unitSamples, LatSt.feed]
  | u :: us, acc, l => by
    by_cases hp : acc.panicked = true
    · unfold multiUpdatesX; simp [hp]
    · have hp' : acc.panicked = false := by simpa using hp
      have hb := gnmiUpdate1X_base cfg now acc.t l (updUnit hdr u)
      have hl1 : (Target.gnmiUpdate1X cfg now acc.t l (updUnit hdr u)).2 =
          l.feed now (unitSample cfg now acc.t (updUnit hdr u)) := by
        rw [← dispatchX_unit cfg now acc.t l _ (updUnit_isUnit hdr u)]
        unfold Target.dispatchX; simp [updUnit, ha]
      have hd := dispatch_updUnit cfg now acc.t hdr u ha
      rw [multiUpdatesX_cons cfg now hdr u us acc l hp']
      simp only [hp', Bool.false_eq_true, if_false, List.map_cons, unitSamples, hd, LatSt.feed_append]
      rw [← hl1, ← hb]
      generalize Target.gnmiUpdate1X cfg now acc.t l (updUnit hdr u) = g
      obtain ⟨⟨res, t', ev⟩, l'⟩ := g
      cases res <;> cases ev <;>
        simp only [singleArm, Res.isErr, reduceCtorEq, if_true, if_false, Bool.false_eq_true, LatSt.feed_nil] <;>
        first
          | rfl
          | (rw [multiUpdatesX_lat cfg now hdr ha us]; simp only [hp', Bool.false_eq_true, if_false])

theorem unitSamples_noUpd (cfg : Cfg) (now : Int) : ∀ (ms : List Noti) (t : Target),
    (∀ m ∈ ms, m.upd = []) → unitSamples cfg now t ms = []
  | [], _, _ => rfl
  | m :: ms, t, h => by
    unfold unitSamples
    rw [unitSample_noUpd cfg now t m (h m (List.mem_cons_self ..))]
    split
    · rfl
    · exact unitSamples_noUpd cfg now ms _ (fun x hx => h x (List.mem_cons_of_mem _ hx))

theorem unitSamples_append_noUpd (cfg : Cfg) (now : Int) (b : List Noti) (hb : ∀ m ∈ b, m.upd = []) :
    ∀ (a : List Noti) (t : Target), unitSamples cfg now t (a ++ b) = unitSamples cfg now t a
  | [], t => by simpa [unitSamples] using unitSamples_noUpd cfg now b t hb
  | m :: a, t => by
    simp only [List.cons_append, unitSamples]
    split
    · rfl
    · rw [unitSamples_append_noUpd cfg now b hb a]

theorem unitSamples_single (cfg : Cfg) (now : Int) (t : Target) (m : Noti) :
    unitSamples cfg now t [m] = unitSample cfg now t m := by
  simp only [unitSamples]; split <;> simp

/-- **`Target.GnmiUpdate`'s switch feeds the latency object exactly the samples of the units** of
the notification, in processing order. -/
theorem dispatchX_lat (cfg : Cfg) (now : Int) (t : Target) (l : LatSt) (n : Noti) :
    (t.dispatchX cfg now l n).2 = l.feed now (notiSamples cfg now t n) := by
  cases hu : isUnit n with
  | true =>
    unfold notiSamples unitNotis
    rw [if_pos hu, unitSamples_single]
    exact dispatchX_unit cfg now t l n hu
  | false =>
    have ha : n.atomic = false := by
      cases h : n.atomic
      · rfl
      · simp [isUnit, h] at hu
    have hl : n.upd.length + n.del.length > 1 := by
      simp [isUnit, ha] at hu; omega
    have hun : unitNotis n = n.upd.map (updUnit n) ++ n.del.map (delUnit n) := by simp [unitNotis, hu]
    unfold notiSamples
    rw [hun, unitSamples_append_noUpd cfg now _ (by
      intro m hm; obtain ⟨d, _, rfl⟩ := List.mem_map.1 hm; rfl)]
    unfold Target.dispatchX
    simp only [ha, Bool.false_eq_true, if_false, if_pos hl]
    have key := multiUpdatesX_lat cfg now { n with upd := [], del := [] } ha n.upd { t := t } l
    simp only [Bool.false_eq_true, if_false] at key
    have e : n.upd.map (updUnit { n with upd := [], del := [] }) = n.upd.map (updUnit n) := rfl
    rw [e] at key
    simp only [ha] at key
    split <;> exact key

theorem gnmiUpdateX_lat (cfg : Cfg) (now : Int) (t : Target) (l : LatSt) (n : Noti) (ht : n.target ≠ "") :
    (t.gnmiUpdateX cfg now l n).2 = l.feed now (notiSamples cfg now t n) := by
  obtain ⟨b, hb⟩ := tracksTimestamp?_isSome n ht
  unfold Target.gnmiUpdateX
  rw [hb]
  exact dispatchX_lat cfg now t l n

end Cache
end Gnmi
