import Gnmi.Model.CoalesceLTS
import Gnmi.Lemmas.Coalesce
/-!
The inductive invariant of the coalescing-queue LTS (`Model/CoalesceLTS.lean`) and its
preservation by every transition.  `Props/C11.lean` reads the property off the invariant.
-/
namespace Gnmi
namespace CoLTS
open Coalesce

variable {Item : Type} [DecidableEq Item]

/-- the inductive invariant -/
structure Inv (c : Cfg Item) : Prop where
  /-- representation invariant of the shared object -/
  qinv : QInv c.q
  /-- first-insertion order: new-item inserts, in lock order = deliveries ++ pending -/
  order : c.freshLog = c.delivered.map (·.1) ++ c.q.queue
  /-- per item: locked inserts = insertions represented by deliveries + by the pending entry -/
  item : ∀ j, c.insLog.count j = dsum j c.delivered + pend c.q j
  /-- the same, summed -/
  total : c.insLog.length = wsum c.delivered + pendTotal c.q
  /-- no lost wake-up -/
  wake : c.cons = .c2 → c.q.queue ≠ [] → c.q.token = true ∨ c.q.closed = true ∨ 0 < c.atP3
  /-- every locked insert has returned or is about to post the token -/
  acct : c.completed + c.atP3 = c.insLog.length
  /-- the snapshots taken by the first `Close` -/
  snap : c.q.closed = true →
    c.insLogAtClose <+: c.insLog ∧ c.completedAtClose ≤ c.insLogAtClose.length
  c3_closed : c.cons = .c3 → c.q.closed = true
  /-- the consumer was told `closed` only after everything inserted before `Close` was delivered -/
  drained : c.cons = .done .closed →
    c.q.closed = true ∧ ∀ j, c.insLogAtClose.count j ≤ dsum j c.delivered

theorem inv_init : Inv (Cfg.init : Cfg Item) where
  qinv := QInv.new
  order := rfl
  item := by intro j; simp [Cfg.init, pend]
  total := by simp [Cfg.init, pendTotal]
  wake := fun h => by cases h
  acct := rfl
  snap := by intro h; cases h
  c3_closed := by intro h; cases h
  drained := by intro h; cases h

theorem count_snoc (l : List Item) (i j : Item) :
    (l ++ [i]).count j = l.count j + (if j = i then 1 else 0) := by
  rw [List.count_append, List.count_singleton]
  by_cases h : j = i
  · subst h; simp
  · have : ¬ i = j := fun e => h e.symm
    simp [h, this]

theorem prefix_snoc {l m : List Item} (i : Item) (h : l <+: m) : l <+: m ++ [i] := by
  obtain ⟨t, rfl⟩ := h
  exact ⟨t ++ [i], by simp⟩

theorem inv_insertCfg (c : Cfg Item) (i : Item) (h : Inv c) : Inv (insertCfg c i) := by
  have hs := insertLocked_spec c.q i h.qinv
  unfold insertCfg
  simp only []
  generalize (insertLocked c.q i).1 = q1 at hs ⊢
  generalize (insertLocked c.q i).2 = fresh at hs ⊢
  have hclosed : q1.closed = c.q.closed := hs.closed_eq
  cases fresh with
  | true =>
    simp only [if_true]
    have hq : q1.queue = c.q.queue ++ [i] := by rw [hs.queue_eq]; rfl
    refine ⟨hs.inv, ?_, ?_, ?_, ?_, ?_, ?_, ?_, ?_⟩
    · show c.freshLog ++ [i] = c.delivered.map (·.1) ++ q1.queue
      rw [hq, h.order, List.append_assoc]
    · intro j
      show (c.insLog ++ [i]).count j = dsum j c.delivered + pend q1 j
      rw [count_snoc, hs.pend_eq j, h.item j]; omega
    · show (c.insLog ++ [i]).length = wsum c.delivered + pendTotal q1
      rw [List.length_append, hs.total_eq, h.total]; simp; omega
    · intro _ _
      exact Or.inr (Or.inr (Nat.succ_pos _))
    · show c.completed + (c.atP3 + 1) = (c.insLog ++ [i]).length
      rw [List.length_append]; have := h.acct; simp; omega
    · intro hc
      have := h.snap (hclosed ▸ hc)
      exact ⟨prefix_snoc i this.1, this.2⟩
    · intro hc; exact hclosed ▸ h.c3_closed hc
    · intro hc
      have := h.drained hc
      exact ⟨hclosed ▸ this.1, this.2⟩
  | false =>
    simp only [Bool.false_eq_true, if_false]
    have hq : q1.queue = c.q.queue := by rw [hs.queue_eq]; rfl
    refine ⟨hs.inv, ?_, ?_, ?_, ?_, ?_, ?_, ?_, ?_⟩
    · show c.freshLog = c.delivered.map (·.1) ++ q1.queue
      rw [hq, h.order]
    · intro j
      show (c.insLog ++ [i]).count j = dsum j c.delivered + pend q1 j
      rw [count_snoc, hs.pend_eq j, h.item j]; omega
    · show (c.insLog ++ [i]).length = wsum c.delivered + pendTotal q1
      rw [List.length_append, hs.total_eq, h.total]; simp; omega
    · intro hc hne
      show q1.token = true ∨ q1.closed = true ∨ 0 < c.atP3
      rw [hs.token_eq, hclosed]
      exact h.wake hc (hq ▸ hne)
    · show c.completed + 1 + c.atP3 = (c.insLog ++ [i]).length
      rw [List.length_append]; have := h.acct; simp; omega
    · intro hc
      have := h.snap (hclosed ▸ hc)
      exact ⟨prefix_snoc i this.1, this.2⟩
    · intro hc; exact hclosed ▸ h.c3_closed hc
    · intro hc
      have := h.drained hc
      exact ⟨hclosed ▸ this.1, this.2⟩

theorem nextCfg_eq (c : Cfg Item) :
    ((nextLocked c.q).2 = none ∧ nextCfg c = { c with q := (nextLocked c.q).1, cons := .c2 }) ∨
    (∃ i d, (nextLocked c.q).2 = some (i, d) ∧
      nextCfg c = { c with q := (nextLocked c.q).1, cons := .idle, delivered := c.delivered ++ [(i, d)] }) := by
  unfold nextCfg
  generalize nextLocked c.q = r
  obtain ⟨q1, o⟩ := r
  cases o with
  | none => exact Or.inl ⟨rfl, rfl⟩
  | some p => obtain ⟨i, d⟩ := p; exact Or.inr ⟨i, d, rfl, rfl⟩

theorem inv_nextCfg (c : Cfg Item) (h : Inv c) : Inv (nextCfg c) := by
  rcases nextCfg_eq c with ⟨hn, he⟩ | ⟨i, d, hsome, he⟩
  · rw [he]
    obtain ⟨hq, hempty⟩ := nextLocked_none c.q hn
    rw [hq]
    exact ⟨h.qinv, h.order, h.item, h.total, fun _ hne => absurd hempty hne, h.acct, h.snap,
      (fun hc => by cases hc), (fun hc => by cases hc)⟩
  · rw [he]
    have hs := nextLocked_some c.q i d h.qinv hsome
    generalize (nextLocked c.q).1 = q1 at hs ⊢
    refine ⟨hs.inv, ?_, ?_, ?_, (fun hc => by cases hc), h.acct, ?_, (fun hc => by cases hc),
      (fun hc => by cases hc)⟩
    · show c.freshLog = (c.delivered ++ [(i, d)]).map (·.1) ++ q1.queue
      rw [h.order, hs.queue_eq]; simp
    · intro j
      show c.insLog.count j = dsum j (c.delivered ++ [(i, d)]) + pend q1 j
      rw [h.item j, dsum_append, dsum_single]
      by_cases hj : j = i
      · subst hj; rw [hs.pend_self, hs.pend_self']; simp
      · have : ¬ i = j := fun e => hj e.symm
        rw [hs.pend_other j hj]; simp [this]
    · show c.insLog.length = wsum (c.delivered ++ [(i, d)]) + pendTotal q1
      rw [h.total, wsum_append, wsum_single, hs.total_eq]; omega
    · intro hc
      exact h.snap (hs.closed_eq ▸ hc)

theorem inv_lenCfg (c : Cfg Item) (h : Inv c) (hc3 : c.cons = .c3) : Inv (lenCfg c) := by
  unfold lenCfg
  by_cases hl : len c.q = 0
  · rw [if_pos hl]
    have hq : c.q.queue = [] := by
      unfold len at hl
      exact List.eq_nil_of_length_eq_zero hl
    refine ⟨h.qinv, h.order, h.item, h.total, (fun hc => by cases hc), h.acct, h.snap,
      (fun hc => by cases hc), ?_⟩
    intro _
    have hcl := h.c3_closed hc3
    refine ⟨hcl, ?_⟩
    intro j
    have hp : pend c.q j = 0 := by simp [pend, hq]
    have := h.item j
    rw [hp] at this
    have hle := (h.snap hcl).1.sublist.count_le j
    show c.insLogAtClose.count j ≤ dsum j c.delivered
    omega
  · rw [if_neg hl]
    exact ⟨h.qinv, h.order, h.item, h.total, (fun hc => by cases hc), h.acct, h.snap,
      (fun hc => by cases hc), (fun hc => by cases hc)⟩

theorem inv_closeCfg (c : Cfg Item) (h : Inv c) : Inv (closeCfg c) := by
  unfold closeCfg
  by_cases hc : c.q.closed = true
  · rw [if_pos hc]; exact h
  · rw [if_neg hc]
    have hp : ∀ j, pend (Coalesce.close c.q) j = pend c.q j := fun _ => rfl
    have ht : pendTotal (Coalesce.close c.q) = pendTotal c.q := rfl
    refine ⟨⟨h.qinv.nodup, h.qinv.dom⟩, h.order, ?_, ?_, ?_, h.acct, ?_, fun _ => rfl, ?_⟩
    · intro j; show c.insLog.count j = dsum j c.delivered + pend (Coalesce.close c.q) j
      rw [hp]; exact h.item j
    · show c.insLog.length = wsum c.delivered + pendTotal (Coalesce.close c.q)
      rw [ht]; exact h.total
    · intro _ _; exact Or.inr (Or.inl rfl)
    · intro _
      refine ⟨List.prefix_refl _, ?_⟩
      show c.completed ≤ c.insLog.length
      have := h.acct; omega
    · intro hd
      exact absurd (h.drained hd).1 hc

/-- every transition preserves the invariant -/
theorem inv_step {c c' : Cfg Item} {l : Label Item} (h : Inv c) (hs : Step c l c') : Inv c' := by
  cases hs with
  | pRefused _ _ => exact h
  | pCheck i _ => exact ⟨h.qinv, h.order, h.item, h.total, h.wake, h.acct, h.snap, h.c3_closed, h.drained⟩
  | pInsert i _ => exact inv_insertCfg c i h
  | pPost hp =>
    refine ⟨(postToken_same c.q).inv h.qinv, h.order, ?_, ?_, fun _ _ => Or.inl rfl, ?_, h.snap,
      h.c3_closed, h.drained⟩
    · intro j; exact h.item j
    · exact h.total
    · show c.completed + 1 + (c.atP3 - 1) = c.insLog.length
      have := h.acct; omega
  | cCall newCtx _ =>
    exact ⟨h.qinv, h.order, h.item, h.total, (fun hc => by cases hc), h.acct, h.snap,
      (fun hc => by cases hc), (fun hc => by cases hc)⟩
  | cNext _ => exact inv_nextCfg c h
  | cSelCtx _ _ =>
    exact ⟨h.qinv, h.order, h.item, h.total, (fun hc => by cases hc), h.acct, h.snap,
      (fun hc => by cases hc), (fun hc => by cases hc)⟩
  | cSelToken _ _ =>
    exact ⟨⟨h.qinv.nodup, h.qinv.dom⟩, h.order, h.item, h.total, (fun hc => by cases hc), h.acct,
      h.snap, (fun hc => by cases hc), (fun hc => by cases hc)⟩
  | cSelClosed _ hcl =>
    exact ⟨h.qinv, h.order, h.item, h.total, (fun hc => by cases hc), h.acct, h.snap,
      fun _ => hcl, (fun hc => by cases hc)⟩
  | cLen hc3 => exact inv_lenCfg c h hc3
  | close => exact inv_closeCfg c h
  | cancel => exact ⟨h.qinv, h.order, h.item, h.total, h.wake, h.acct, h.snap, h.c3_closed, h.drained⟩

/-- the invariant holds in every reachable configuration -/
theorem inv_reach {c : Cfg Item} (h : Reach c) : Inv c := by
  induction h with
  | init => exact inv_init
  | step _ hs ih => exact inv_step ih hs

/-! ## `fire` is `Step` -/

theorem fire_sound {c c' : Cfg Item} {l : Label Item} (h : fire c l = some c') : Step c l c' := by
  cases l with
  | pRefused i =>
    simp only [fire] at h
    split at h
    · next hc => cases h; exact Step.pRefused c i hc
    · cases h
  | pCheck i =>
    simp only [fire] at h
    split at h
    · cases h
    · next hc => cases h; exact Step.pCheck c i (by simpa using hc)
  | pInsert i =>
    simp only [fire] at h
    split at h
    · next hm => cases h; exact Step.pInsert c i hm
    · cases h
  | pPost =>
    simp only [fire] at h
    split at h
    · next hp => cases h; exact Step.pPost c hp
    · cases h
  | cCall n =>
    simp only [fire] at h
    split at h
    · next hc => cases h; exact Step.cCall c n (Or.inl hc)
    · next r hc => cases h; exact Step.cCall c n (Or.inr ⟨r, hc⟩)
    · cases h
  | cNext =>
    simp only [fire] at h
    split at h
    · next hc => cases h; exact Step.cNext c hc
    · cases h
  | cSelCtx =>
    simp only [fire] at h
    split at h
    · next hc => cases h; exact Step.cSelCtx c hc.1 hc.2
    · cases h
  | cSelToken =>
    simp only [fire] at h
    split at h
    · next hc => cases h; exact Step.cSelToken c hc.1 hc.2
    · cases h
  | cSelClosed =>
    simp only [fire] at h
    split at h
    · next hc => cases h; exact Step.cSelClosed c hc.1 hc.2
    · cases h
  | cLen =>
    simp only [fire] at h
    split at h
    · next hc => cases h; exact Step.cLen c hc
    · cases h
  | close => simp only [fire] at h; cases h; exact Step.close c
  | cancel => simp only [fire] at h; cases h; exact Step.cancel c

theorem fire_complete {c c' : Cfg Item} {l : Label Item} (h : Step c l c') : fire c l = some c' := by
  cases h with
  | pRefused i hc => simp [fire, hc]
  | pCheck i hc => simp [fire, hc]
  | pInsert i hm => simp [fire, hm]
  | pPost hp => simp [fire, hp]
  | cCall n hc =>
    rcases hc with hc | ⟨r, hc⟩ <;> simp [fire, hc]
  | cNext hc => simp [fire, hc]
  | cSelCtx h1 h2 => simp [fire, h1, h2]
  | cSelToken h1 h2 => simp [fire, h1, h2]
  | cSelClosed h1 h2 => simp [fire, h1, h2]
  | cLen hc => simp [fire, hc]
  | close => rfl
  | cancel => rfl

theorem fireAll_cons {c c1 : Cfg Item} {l : Label Item} (ls : List (Label Item))
    (h : fire c l = some c1) : fireAll c (l :: ls) = fireAll c1 ls := by
  simp [fireAll, h]

/-- a fired schedule stays within the reachable configurations -/
theorem fireAll_reach {c c' : Cfg Item} (ls : List (Label Item)) (hr : Reach c)
    (h : fireAll c ls = some c') : Reach c' := by
  induction ls generalizing c with
  | nil => simp only [fireAll, Option.some.injEq] at h; exact h ▸ hr
  | cons l ls ih =>
    simp only [fireAll] at h
    cases hf : fire c l with
    | none => rw [hf] at h; cases h
    | some c1 =>
      rw [hf] at h
      exact ih (Reach.step hr (fire_sound hf)) h

end CoLTS
end Gnmi
