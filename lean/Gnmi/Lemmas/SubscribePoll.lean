import Gnmi.Lemmas.SubscribeStreamInit
import Gnmi.Props.C05Reach
/-!
# POLL subscriptions in the sequential Subscribe model: one round of the walk, and what the
other operations do to a POLL subscriber

A POLL subscriber between rounds is *idle*: nothing queued, nothing held in a gated `Send`, flow
control open, the queue not closed (`Idle`); it has no registered query (`regs = []`: only STREAM
registers with the cache's update feed).  This file proves

* `round_exact` — one walk (`pumpAll (doWalk c s)`, the body of both the initial request and a
  poll trigger) on an idle live subscriber appends to `out` exactly the snapshot of `c`
  (`SnapshotBody`, the set `C05.once_static_exact` describes) followed by one sync, and changes
  nothing else of the subscriber;
* `feedSub_idle` — `feed` leaves a subscriber without registrations and with an empty queue as it is;
* `subscribe_shape` — what `subscribe` appends to the list of subscribers;
* `walkItems_isSome_congr` — whether the walk fails (`CompletePath` error) depends on the request only;
* `good_of_reach` — the two cache hypotheses of `once_static_exact` hold of every reachable cache.
-/
namespace Gnmi
namespace SubPoll
open Cache _root_.Gnmi.Sub C05 Feed C03

/-! ## the snapshot a walk delivers -/

/-- `body` is the snapshot of `items` as seen through the ACL `a`: every response is the update of
a collected leaf on a visible target, showing the leaf's notification, and every collected leaf on
a visible target is there.  This is — literally — the pair of clauses of `C05.once_static_exact`
(`once_static_exact_snapshot` restates that theorem with this definition). -/
def SnapshotBody (a : Acl) (items : List WalkItem) (body : List Resp) : Prop :=
  (∀ x ∈ body, ∃ it ∈ items, ∃ d, x = Resp.upd it.2.2 d ∧ a.check it.1 = true) ∧
  (∀ it ∈ items, a.check it.1 = true → ∃ d, Resp.upd it.2.2 d ∈ body)

/-- between rounds: nothing queued, nothing held, flow control open, queue not closed -/
structure Idle (s : Subscriber) : Prop where
  queue : s.queue = []
  blocked : s.blocked = none
  gate : s.gateShut = false
  closed : s.closed = false

/-- the two facts about the cache that `once_static_exact` assumes, for every request -/
def Good (c : Cache.State) : Prop :=
  ∀ (r : Req) (items : List WalkItem), walkItems c r = some items →
    Functional items ∧ ∀ it ∈ items, it.2.2.target = it.1

theorem walk_queue (items : List WalkItem) (hfun : Functional items) :
    WalkQ items (items.foldl (fun q it => insertHandle q it.1 it.2.1 it.2.2) []) := by
  have := walk_fold items [] [] ⟨by simp, by simp⟩ (by simpa using hfun)
  simpa using this

theorem insertSync_walk {items : List WalkItem} {Q : List (Item × Nat)} (hwq : WalkQ items Q) :
    insertSync Q = Q ++ [(Item.sync, 0)] := by
  unfold insertSync
  have : Q.any (fun x => x.1 == Item.sync) = false := by
    rw [List.any_eq_false]
    intro x hx
    obtain ⟨i, _, hi⟩ := hwq.onlyHandles x hx
    rw [hi]; simp
  simp [this]

theorem walk_noTD {items : List WalkItem} {Q : List (Item × Nat)} (hwq : WalkQ items Q) :
    ∀ x ∈ Q ++ [(Item.sync, 0)], isTargetDelete (toResp x) = false := by
  intro x hx
  rcases List.mem_append.1 hx with h | h
  · obtain ⟨i, _, hi⟩ := hwq.onlyHandles x h
    obtain ⟨xi, xd⟩ := x
    simp only at hi
    subst hi
    rfl
  · simp only [List.mem_singleton] at h; subst h; rfl

/-- the responses the sender makes of the queue a walk built -/
theorem walk_body {a : Acl} {items : List WalkItem} {Q : List (Item × Nat)} (hwq : WalkQ items Q)
    (hT : ∀ it ∈ items, it.2.2.target = it.1) :
    SnapshotBody a items ((Q.filter (fun x => !denied a (toResp x))).map toResp) := by
  constructor
  · intro x hx
    obtain ⟨y, hy, rfl⟩ := List.mem_map.1 hx
    have hy' := List.mem_filter.1 hy
    obtain ⟨i, hi, hih⟩ := hwq.onlyHandles y hy'.1
    obtain ⟨yi, yd⟩ := y
    simp only at hih
    subst hih
    refine ⟨i, hi, yd, rfl, ?_⟩
    have := hy'.2
    rw [← hT i hi]
    simpa [denied, toResp, respTarget] using this
  · intro i hi hal
    obtain ⟨d, hd⟩ := hwq.complete i hi
    refine ⟨d, List.mem_map.2 ⟨_, List.mem_filter.2 ⟨hd, ?_⟩, rfl⟩⟩
    rw [← hT i hi] at hal
    simp [denied, toResp, respTarget, hal]

/-! ### each leaf once -/

/-- the leaf a queued handle stands for -/
def qkey : Item × Nat → String × Path
  | (.handle t k _, _) => (t, k)
  | _ => ("", [])

/-- no two queue entries stand for the same leaf -/
def KeysNodup (q : List (Item × Nat)) : Prop := (q.map qkey).Nodup

theorem insertHandle_keys (seen : List WalkItem) (q : List (Item × Nat)) (t : String) (k : Path) (n : Noti)
    (hq : WalkQ seen q) (hn : KeysNodup q) : KeysNodup (insertHandle q t k n) := by
  have hnn : ∀ x ∈ q, isNote x.1 = false := by
    intro x hx
    obtain ⟨i, _, hi⟩ := hq.onlyHandles x hx
    rw [hi]; rfl
  unfold insertHandle KeysNodup
  simp only [lastCover_no_notes q t k hnn, List.take_zero, List.drop_zero, List.nil_append]
  split
  · -- coalesced in place: the keys are as before
    have : (q.map (fun x => if isHandleFor t k x.1 = true then (Item.handle t k n, x.2 + 1) else x)).map qkey =
        q.map qkey := by
      rw [List.map_map]
      apply List.map_congr_left
      intro x _
      simp only [Function.comp]
      split
      · rename_i hh
        obtain ⟨xi, xd⟩ := x
        cases xi with
        | handle t' k' n' =>
          simp only [isHandleFor, Bool.and_eq_true, beq_iff_eq] at hh
          simp only [qkey, hh.1, hh.2]
        | detached => simp [isHandleFor] at hh
        | note => simp [isHandleFor] at hh
        | sync => simp [isHandleFor] at hh
      · rfl
    rw [this]; exact hn
  · rename_i hany
    rw [List.map_append, List.nodup_append]
    refine ⟨hn, by simp, ?_⟩
    intro a ha b hb
    simp only [List.map_cons, List.map_nil, List.mem_singleton] at hb
    subst hb
    obtain ⟨x, hx, rfl⟩ := List.mem_map.1 ha
    intro he
    apply hany
    refine List.any_eq_true.2 ⟨x, hx, ?_⟩
    obtain ⟨i, _, hi⟩ := hq.onlyHandles x hx
    obtain ⟨xi, xd⟩ := x
    simp only at hi
    subst hi
    simp only [qkey, Prod.mk.injEq] at he
    simp [isHandleFor, he.1, he.2]

theorem walk_fold_keys (items : List WalkItem) : ∀ (seen : List WalkItem) (q : List (Item × Nat)),
    WalkQ seen q → Functional (seen ++ items) → KeysNodup q →
    KeysNodup (items.foldl (fun q it => insertHandle q it.1 it.2.1 it.2.2) q) := by
  induction items with
  | nil => intro seen q _ _ hn; exact hn
  | cons it items ih =>
    intro seen q h hf hn
    have hf1 : Functional (seen ++ [it]) := by
      intro a ha b hb
      exact hf a (by simp at ha ⊢; rcases ha with h | h <;> simp [h]) b
        (by simp at hb ⊢; rcases hb with h | h <;> simp [h])
    exact ih (seen ++ [it]) _ (insertHandle_walk seen q it h hf1) (by simpa using hf)
      (insertHandle_keys seen q it.1 it.2.1 it.2.2 h hn)

theorem walk_queue_keys (items : List WalkItem) (hfun : Functional items) :
    KeysNodup (items.foldl (fun q it => insertHandle q it.1 it.2.1 it.2.2) []) :=
  walk_fold_keys items [] [] ⟨by simp, by simp⟩ (by simpa using hfun) List.nodup_nil

/-- `body` is, response for response, the update of a collected leaf on a visible target
(`picks`: the leaf and the response's dup count), **no leaf — (target, key) — twice**, every
collected leaf on a visible target present: one update per distinct matching visible leaf.
Stronger than `SnapshotBody` (`SnapshotOnce.body`). -/
def SnapshotOnce (a : Acl) (items : List WalkItem) (body : List Resp) : Prop :=
  ∃ picks : List (WalkItem × Nat),
    body = picks.map (fun p => Resp.upd p.1.2.2 p.2) ∧
    (picks.map (fun p => (p.1.1, p.1.2.1))).Nodup ∧
    (∀ p ∈ picks, p.1 ∈ items ∧ a.check p.1.1 = true) ∧
    (∀ it ∈ items, a.check it.1 = true → ∃ d, (it, d) ∈ picks)

theorem SnapshotOnce.body {a : Acl} {items : List WalkItem} {body : List Resp}
    (h : SnapshotOnce a items body) : SnapshotBody a items body := by
  obtain ⟨picks, rfl, _, h1, h2⟩ := h
  constructor
  · intro x hx
    obtain ⟨p, hp, rfl⟩ := List.mem_map.1 hx
    exact ⟨p.1, (h1 p hp).1, p.2, rfl, (h1 p hp).2⟩
  · intro it hit hc
    obtain ⟨d, hd⟩ := h2 it hit hc
    exact ⟨d, List.mem_map.2 ⟨(it, d), hd, rfl⟩⟩

/-- a queued handle as a collected leaf and a dup count -/
def pickOf : Item × Nat → WalkItem × Nat
  | (.handle t k n, d) => ((t, k, n), d)
  | (_, d) => (("", [], default), d)

theorem walk_once {a : Acl} {items : List WalkItem} {Q : List (Item × Nat)} (hwq : WalkQ items Q)
    (hn : KeysNodup Q) (hT : ∀ it ∈ items, it.2.2.target = it.1) :
    SnapshotOnce a items ((Q.filter (fun x => !denied a (toResp x))).map toResp) := by
  refine ⟨(Q.filter (fun x => !denied a (toResp x))).map pickOf, ?_, ?_, ?_, ?_⟩
  · rw [List.map_map]
    apply List.map_congr_left
    intro x hx
    obtain ⟨i, _, hi⟩ := hwq.onlyHandles x (List.mem_filter.1 hx).1
    obtain ⟨xi, xd⟩ := x
    simp only at hi
    subst hi
    rfl
  · rw [List.map_map]
    have hsub : ((Q.filter (fun x => !denied a (toResp x))).map qkey).Nodup :=
      (List.filter_sublist.map qkey).nodup hn
    have : (Q.filter (fun x => !denied a (toResp x))).map ((fun p : WalkItem × Nat => (p.1.1, p.1.2.1)) ∘ pickOf) =
        (Q.filter (fun x => !denied a (toResp x))).map qkey := by
      apply List.map_congr_left
      intro x hx
      obtain ⟨i, _, hi⟩ := hwq.onlyHandles x (List.mem_filter.1 hx).1
      obtain ⟨xi, xd⟩ := x
      simp only at hi
      subst hi
      rfl
    rw [this]; exact hsub
  · intro p hp
    obtain ⟨y, hy, rfl⟩ := List.mem_map.1 hp
    have hy' := List.mem_filter.1 hy
    obtain ⟨i, hi, hih⟩ := hwq.onlyHandles y hy'.1
    obtain ⟨yi, yd⟩ := y
    simp only at hih
    subst hih
    refine ⟨hi, ?_⟩
    have := hy'.2
    show a.check i.1 = true
    rw [← hT i hi]
    simpa [denied, toResp, respTarget] using this
  · intro i hi hal
    obtain ⟨d, hd⟩ := hwq.complete i hi
    refine ⟨d, List.mem_map.2 ⟨_, List.mem_filter.2 ⟨hd, ?_⟩, rfl⟩⟩
    rw [← hT i hi] at hal
    simp [denied, toResp, respTarget, hal]

/-- **One round.**  The walk of `c` by an idle live subscriber, then the sender until it blocks:
`out` grows by the snapshot of `c` (as a set: `SnapshotBody`, the clauses of `once_static_exact`;
and each leaf exactly once: `SnapshotOnce`) and one sync; every other field is as before (alive, no
status, empty queue). -/
theorem round_exact (c : Cache.State) (s : Subscriber) (items : List WalkItem)
    (ha : s.alive = true) (hi : Idle s) (hw : walkItems c s.req = some items)
    (hfun : Functional items) (hT : ∀ it ∈ items, it.2.2.target = it.1) :
    ∃ body, pumpAll (doWalk c s) =
        { s with out := s.out ++ (body ++ [Resp.sync]).map (fun r => (r, s.gatedSinceDrain)) } ∧
      SnapshotBody s.acl items body ∧ SnapshotOnce s.acl items body := by
  obtain ⟨id, req, acl, regs, alive, status, gateShut, gsd, blocked, queue, closed, out⟩ := s
  obtain ⟨hq, hb, hg, hc⟩ := hi
  simp only at ha hq hb hg hc hw
  subst ha hq hb hg hc
  have hwq := walk_queue items hfun
  have hkn := walk_queue_keys items hfun
  generalize hQ : items.foldl (fun q it => insertHandle q it.1 it.2.1 it.2.2) [] = Q at hwq hkn
  have hdw : doWalk c (Subscriber.mk id req acl regs true status false gsd none [] false out) =
      Subscriber.mk id req acl regs true status false gsd none (Q ++ [(Item.sync, 0)]) false out := by
    unfold doWalk
    simp only [hw, hQ, insertSync_walk hwq]
  rw [hdw, SubStream.pumpAll_open_noTD _ rfl rfl rfl rfl (walk_noTD hwq)]
  refine ⟨(Q.filter (fun x => !denied acl (toResp x))).map toResp, ?_, walk_body hwq hT, walk_once hwq hkn hT⟩
  have hsyncnd : denied acl (toResp (Item.sync, 0)) = false := rfl
  have hs1 : [((Item.sync, 0) : Item × Nat)].filter (fun x => !denied acl (toResp x)) = [(Item.sync, 0)] := by
    simp [hsyncnd]
  simp only [List.filter_append, hs1, List.map_append, List.map_map]
  rfl

/-! ## whether the walk fails depends on the request only -/

theorem walk_none_fold (c : Cache.State) (r : Req) : ∀ (l : List SubPath), l.foldl (fun acc s =>
    match acc with
    | none => none
    | some items =>
      match completePath r s with
      | none => none
      | some full =>
        match c.query r.target full with
        | none => some items
        | some found => some (items ++ found)) (none : Option (List WalkItem)) = none := by
  intro l; induction l with
  | nil => rfl
  | cons a l ih => simpa using ih

/-- the walk fails iff some subscription path is rejected by `CompletePath` -/
theorem walkItems_isSome (c : Cache.State) (r : Req) :
    (walkItems c r).isSome = (r.updatesOnly || r.subs.all (fun s => (completePath r s).isSome)) := by
  unfold walkItems
  cases huo : r.updatesOnly with
  | true => simp
  | false =>
    simp only [Bool.false_eq_true, if_false, Bool.false_or]
    suffices ∀ (subs : List SubPath) (acc : List WalkItem),
        (subs.foldl (fun acc s =>
          match acc with
          | none => none
          | some items =>
            match completePath r s with
            | none => none
            | some full =>
              match c.query r.target full with
              | none => some items
              | some found => some (items ++ found)) (some acc)).isSome =
        subs.all (fun s => (completePath r s).isSome) from this r.subs []
    intro subs
    induction subs with
    | nil => intro acc; rfl
    | cons s subs ih =>
      intro acc
      simp only [List.foldl_cons, List.all_cons]
      cases hc : completePath r s with
      | none =>
        simp only [walk_none_fold, Option.isSome_none, Bool.false_and]
      | some full =>
        simp only [Option.isSome_some, Bool.true_and]
        cases hq : c.query r.target full with
        | none => exact ih acc
        | some found => exact ih (acc ++ found)

theorem walkItems_isSome_congr (c c' : Cache.State) (r : Req) :
    (walkItems c r).isSome = (walkItems c' r).isSome := by
  rw [walkItems_isSome, walkItems_isSome]

/-! ## `feed`, `poll`, `eof` on one subscriber -/

/-- `poll` on one subscriber -/
def pollSub (c : Cache.State) (s : Subscriber) : Subscriber :=
  if s.alive ∧ s.req.mode = .poll then pumpAll (doWalk c s) else s

/-- `eof` on one subscriber -/
def eofSub (s : Subscriber) : Subscriber :=
  if s.alive ∧ s.req.mode = .poll then { s with alive := false, status := some .ok, blocked := none } else s

theorem poll_eq (st : Sub.State) (id : String) : poll st id = updateSub st id (pollSub st.cache) := rfl

theorem eof_eq (st : Sub.State) (id : String) : eof st id = updateSub st id eofSub := rfl

theorem enqueue_noregs (e : Event) (s : Subscriber) (hr : s.regs = []) (hq : s.queue = []) :
    enqueueEvent { s with queue := freezeCovered e s.queue } e = s := by
  obtain ⟨id, req, acl, regs, alive, status, gateShut, gsd, blocked, queue, closed, out⟩ := s
  simp only at hr hq
  subst hr hq
  unfold enqueueEvent
  simp [offered, freezeCovered]

/-- **A subscriber that is not registered for updates is not touched by `feed`**: no registered
query (`regs = []` — every POLL and ONCE subscriber), nothing queued, queue not closed. -/
theorem feedSub_idle (c' : Cache.State) (evs : List Event) (s : Subscriber) (hr : s.regs = [])
    (hq : s.queue = []) (hc : s.closed = false) : SubStream.feedSub c' evs s = s := by
  unfold SubStream.feedSub
  have hfold : evs.foldl (fun s e => enqueueEvent { s with queue := freezeCovered e s.queue } e) s = s := by
    induction evs with
    | nil => rfl
    | cons e evs ih =>
      simp only [List.foldl_cons]
      rw [enqueue_noregs e s hr hq]
      exact ih
  simp only [hfold]
  obtain ⟨id, req, acl, regs, alive, status, gateShut, gsd, blocked, queue, closed, out⟩ := s
  simp only at hr hq hc
  subst hr hq hc
  simp only [refreshQueue, pumpAll, List.length_nil]
  unfold pump
  by_cases h : (!alive || blocked.isSome) = true
  · simp only [h, if_true]
  · simp only [h]
    simp

/-! ## the invariant of a POLL subscriber -/

/-- what holds of every POLL subscriber (live or ended) between operations when flow control is
never shut: no registered query, and idle -/
structure PInv (s : Subscriber) : Prop where
  regs : s.regs = []
  idle : Idle s

theorem walk_fail (c : Cache.State) (s : Subscriber) (hw : walkItems c s.req = none) :
    pumpAll (doWalk c s) = { s with alive := false, status := some .unknown } := by
  unfold doWalk
  simp only [hw]
  exact SubStream.pump_dead _ _ rfl

/-- a round keeps the invariant -/
theorem round_pinv (c : Cache.State) (hg : Good c) (s : Subscriber) (ha : s.alive = true) (hp : PInv s) :
    PInv (pumpAll (doWalk c s)) := by
  cases hw : walkItems c s.req with
  | none =>
    rw [walk_fail c s hw]
    exact ⟨hp.regs, ⟨hp.idle.queue, hp.idle.blocked, hp.idle.gate, hp.idle.closed⟩⟩
  | some items =>
    obtain ⟨hf, hT⟩ := hg s.req items hw
    obtain ⟨body, hb, _⟩ := round_exact c s items ha hp.idle hw hf hT
    rw [hb]
    exact ⟨hp.regs, ⟨hp.idle.queue, hp.idle.blocked, hp.idle.gate, hp.idle.closed⟩⟩

theorem pollSub_pinv (c : Cache.State) (hg : Good c) (s : Subscriber) (hp : PInv s) : PInv (pollSub c s) := by
  unfold pollSub
  split
  · rename_i h; exact round_pinv c hg s h.1 hp
  · exact hp

theorem eofSub_pinv (s : Subscriber) (hp : PInv s) : PInv (eofSub s) := by
  unfold eofSub
  split
  · exact ⟨hp.regs, ⟨hp.idle.queue, rfl, hp.idle.gate, hp.idle.closed⟩⟩
  · exact hp

theorem feedSub_pinv (c' : Cache.State) (evs : List Event) (s : Subscriber) (hp : PInv s) :
    SubStream.feedSub c' evs s = s := feedSub_idle c' evs s hp.regs hp.idle.queue hp.idle.closed

theorem pollSub_dead (c : Cache.State) (s : Subscriber) (h : s.alive = false) : pollSub c s = s := by
  unfold pollSub; simp [h]

theorem eofSub_dead (s : Subscriber) (h : s.alive = false) : eofSub s = s := by
  unfold eofSub; simp [h]

theorem pollSub_req (c : Cache.State) (s : Subscriber) : (pollSub c s).req = s.req := by
  unfold pollSub; split
  · rw [SubStream.pumpAll_req, SubStream.doWalk_req]
  · rfl

theorem pollSub_id (c : Cache.State) (s : Subscriber) : (pollSub c s).id = s.id := by
  unfold pollSub; split
  · rw [SubStream.pumpAll_id, SubStream.doWalk_id]
  · rfl

theorem pollSub_acl (c : Cache.State) (s : Subscriber) : (pollSub c s).acl = s.acl := by
  unfold pollSub; split
  · rw [SubStream.pumpAll_acl, SubStream.doWalk_acl]
  · rfl

theorem eofSub_req (s : Subscriber) : (eofSub s).req = s.req := by unfold eofSub; split <;> rfl
theorem eofSub_id (s : Subscriber) : (eofSub s).id = s.id := by unfold eofSub; split <;> rfl
theorem eofSub_acl (s : Subscriber) : (eofSub s).acl = s.acl := by unfold eofSub; split <;> rfl

/-! ## what `subscribe` appends -/

theorem newSubscriber_pinv (id : String) (r : Req) (acl : Acl) : PInv (newSubscriber false id r acl) :=
  ⟨rfl, ⟨rfl, rfl, rfl, rfl⟩⟩

theorem closeIf_id (x : Subscriber) : (if x.alive = true then { x with closed := true } else x).id = x.id := by
  split <;> rfl
theorem closeIf_acl (x : Subscriber) : (if x.alive = true then { x with closed := true } else x).acl = x.acl := by
  split <;> rfl
theorem closeIf_req (x : Subscriber) : (if x.alive = true then { x with closed := true } else x).req = x.req := by
  split <;> rfl

/-- `Subscribe` (flow control open from the start) appends one subscriber carrying the call's id and
ACL; if it is a POLL subscriber, the request passed the handler's validation and ACL gate and the
subscriber is the initial walk run to quiescence on a fresh subscriber -/
theorem subscribe_shape (st : Sub.State) (id : String) (acl : Acl) (req : Option Req) (hpre : st.pregated = []) :
    ∃ s, subscribe st id acl req = { st with subs := st.subs ++ [s] } ∧ s.id = id ∧ s.acl = acl ∧
      (s.req.mode = .poll → ∃ r, req = some r ∧ Accepted st.cache acl r ∧ r.mode = .poll ∧
        s = pumpAll (doWalk st.cache (newSubscriber false id r acl))) := by
  obtain ⟨cache, subs, pregated⟩ := st
  simp only at hpre
  subst hpre
  let st : Sub.State := { cache := cache, subs := subs, pregated := [] }
  show ∃ s, subscribe st id acl req = { st with subs := st.subs ++ [s] } ∧ s.id = id ∧ s.acl = acl ∧
      (s.req.mode = .poll → ∃ r, req = some r ∧ Accepted st.cache acl r ∧ r.mode = .poll ∧
        s = pumpAll (doWalk st.cache (newSubscriber false id r acl)))
  have dead : ∀ (c : Code) (a : Acl), a = acl →
      ∃ s, ({ st with subs := st.subs ++ [({ id := id, req := {}, acl := a, alive := false, status := some c } : Subscriber)] } : Sub.State) =
        { st with subs := st.subs ++ [s] } ∧ s.id = id ∧ s.acl = acl ∧
      (s.req.mode = .poll → ∃ r, req = some r ∧ Accepted st.cache acl r ∧ r.mode = .poll ∧
        s = pumpAll (doWalk st.cache (newSubscriber false id r acl))) :=
    fun c a ha => ⟨_, rfl, rfl, ha, fun h => Mode.noConfusion h⟩
  unfold subscribe
  simp only [st, List.contains_nil]
  split
  · exact dead _ _ rfl
  · rename_i hnf
    split
    · exact dead _ _ rfl
    · rename_i r
      split
      · exact dead _ _ rfl
      · split
        · exact dead _ _ rfl
        · split
          · exact dead _ _ rfl
          · split
            · exact dead _ _ rfl
            · split
              · exact dead _ _ rfl
              · rename_i h1 h2 h3 h4 h5
                have hacc : Accepted st.cache acl r := by
                  refine ⟨by simpa using h1, by simpa using h2, h3, by simpa using h4, ?_, rfl, ?_⟩
                  · by_cases ht : r.target = "*"
                    · exact Or.inl ht
                    · right
                      cases hck : acl.check r.target with
                      | true => rfl
                      | false => exact absurd ⟨ht, by simp [hck]⟩ h5
                  · cases acl with
                    | fails => exact absurd rfl (hnf)
                    | absent => trivial
                    | allow ts => trivial
                split
                · rename_i hm
                  refine ⟨_, rfl, ?_, ?_, ?_⟩
                  · exact (SubStream.pumpAll_id _).trans ((closeIf_id _).trans (SubStream.doWalk_id _ _))
                  · exact (SubStream.pumpAll_acl _).trans ((closeIf_acl _).trans (SubStream.doWalk_acl _ _))
                  · intro this
                    have h2 : r.mode = .poll :=
                      (congrArg Req.mode ((SubStream.pumpAll_req _).trans
                        ((closeIf_req _).trans (SubStream.doWalk_req _ _)))).symm.trans this
                    rw [hm] at h2
                    cases h2
                · rename_i hm
                  refine ⟨_, rfl, ?_, ?_, ?_⟩
                  · rw [SubStream.pumpAll_id, SubStream.doWalk_id]; rfl
                  · rw [SubStream.pumpAll_acl, SubStream.doWalk_acl]; rfl
                  · intro _
                    exact ⟨r, rfl, hacc, hm, rfl⟩
                · rename_i hm
                  refine ⟨_, rfl, ?_, ?_, ?_⟩
                  · rw [SubStream.pumpAll_id]
                    by_cases huo : r.updatesOnly = true
                    · simp only [huo, if_true]; rfl
                    · simp only [huo, Bool.false_eq_true, if_false]
                      rw [SubStream.doWalk_id]; rfl
                  · rw [SubStream.pumpAll_acl]
                    by_cases huo : r.updatesOnly = true
                    · simp only [huo, if_true]; rfl
                    · simp only [huo, Bool.false_eq_true, if_false]
                      rw [SubStream.doWalk_acl]; rfl
                  · intro this
                    rw [SubStream.pumpAll_req] at this
                    by_cases huo : r.updatesOnly = true
                    · simp only [huo, if_true, newSubscriber] at this
                      rw [hm] at this; cases this
                    · simp only [huo, Bool.false_eq_true, if_false] at this
                      rw [SubStream.doWalk_req] at this
                      simp only [newSubscriber] at this
                      rw [hm] at this; cases this
                · exact dead _ _ rfl

/-! ## reachable caches are `Good` -/

theorem runS_append (enc : String → String) : ∀ (a b : List Op) (s : Cache.State),
    (runS enc s (a ++ b)).1 = (runS enc (runS enc s a).1 b).1
  | [], _, _ => rfl
  | op :: a, b, s => by
    show (runS enc (s.step enc op).1 (a ++ b)).1 = _
    rw [runS_append enc a b]
    rfl

theorem okRun_append (enc : String → String) : ∀ (a b : List Op) (s : Cache.State),
    OkRun enc s a → OkRun enc (runS enc s a).1 b → OkRun enc s (a ++ b)
  | [], _, _, _, h => h
  | _ :: a, b, _, h1, h2 => ⟨h1.1, okRun_append enc a b _ h1.2 h2⟩

/-- reachable through the cache API from the empty cache, every call satisfying its side condition -/
def Reach (enc : String → String) (c : Cache.State) : Prop :=
  ∃ (cfg : Cfg) (ops : List Op), OkRun enc { cfg := cfg } ops ∧ c = (runS enc { cfg := cfg } ops).1

theorem reach_init (enc : String → String) (cfg : Cfg) : Reach enc { cfg := cfg } :=
  ⟨cfg, [], trivial, rfl⟩

theorem reach_step (enc : String → String) (c : Cache.State) (op : Op) (hr : Reach enc c)
    (hok : Feed.Op.ok c op) : Reach enc (c.step enc op).1 := by
  obtain ⟨cfg, ops, h1, rfl⟩ := hr
  refine ⟨cfg, ops ++ [op], okRun_append enc ops [op] _ h1 ⟨hok, trivial⟩, ?_⟩
  rw [runS_append]
  rfl

/-- on a reachable cache a leaf has one value and every stored notification carries its target's
name (`C05Reach`): the hypotheses of `once_static_exact` -/
theorem good_of_reach (enc : String → String) (c : Cache.State) (hr : Reach enc c) : Good c := by
  obtain ⟨cfg, ops, hok, rfl⟩ := hr
  intro r items hw
  exact ⟨walk_functional_reachable enc cfg ops hok r items hw,
    walk_targets_reachable enc cfg ops hok r items hw⟩

end SubPoll
end Gnmi
