import Gnmi.Lemmas.CacheFeedState
/-!
Target names are unique in every cache state reachable through the API, and every stored
notification carries the name of the target it is stored under (used by C05: the walk of a
subscription hands each leaf to the subscriber under the target `Cache.Query` reports).
-/
namespace Gnmi
namespace Feed
open Cache

def NamesUnique (s : State) : Prop := (s.targets.map (·.1)).Nodup

theorem NamesUnique.empty (cfg : Cfg) : NamesUnique { cfg := cfg } := List.nodup_nil

theorem map_replace_names (name : String) (t : Target) : ∀ (l : List (String × Target)),
    (l.map (fun kv => if kv.1 == name then (name, t) else kv)).map (·.1) = l.map (·.1)
  | [] => rfl
  | kv :: l => by
    simp only [List.map_cons, map_replace_names name t l]
    by_cases h : (kv.1 == name) = true
    · have : kv.1 = name := by simpa using h
      simp [h, this]
    · simp [h]

theorem NamesUnique.set {s : State} (h : NamesUnique s) (name : String) (t : Target) :
    NamesUnique (s.set name t) := by
  unfold NamesUnique State.set at *
  split
  · simp only
    rw [map_replace_names]; exact h
  · rename_i hany
    simp only [List.map_append, List.map_cons, List.map_nil]
    rw [List.nodup_append]
    refine ⟨h, by simp, ?_⟩
    intro a ha b hb
    have : b = name := by simpa using hb
    rw [this]
    intro e
    apply hany
    obtain ⟨kv, hkv, hk⟩ := List.mem_map.1 ha
    exact List.any_eq_true.2 ⟨kv, hkv, by simp [hk, e]⟩

theorem NamesUnique.filter {s : State} (h : NamesUnique s) (p : String × Target → Bool) :
    NamesUnique { s with targets := s.targets.filter p } := by
  unfold NamesUnique at *
  exact (List.filter_sublist.map _).nodup h

theorem NamesUnique.onTarget {s : State} (h : NamesUnique s) (name : String) (f : Target → Target × List Event) :
    NamesUnique (s.onTarget name f).1 := by
  unfold State.onTarget
  split
  · exact h
  · exact h.set _ _

theorem updateMetadata_names (enc : String → String) (now : Int) (s : State) (h : NamesUnique s) :
    NamesUnique (s.updateMetadata enc now).1 := by
  unfold State.updateMetadata
  suffices ∀ (l : List (String × Target)) (acc : State × List Event), NamesUnique acc.1 →
      NamesUnique (l.foldl (fun acc kv =>
        match acc.1.get kv.1 with
        | none => acc
        | some t =>
          let r := t.updateMeta s.cfg enc now true
          (acc.1.set kv.1 r.1, acc.2 ++ r.2)) acc).1 from this s.targets (s, []) h
  intro l
  induction l with
  | nil => intro acc h; exact h
  | cons kv l ih =>
    intro acc h
    simp only [List.foldl_cons]
    apply ih
    split
    · exact h
    · exact h.set _ _

theorem step_names (enc : String → String) (s : State) (op : Op) (h : NamesUnique s) :
    NamesUnique (s.step enc op).1 := by
  cases op with
  | add name => exact h.set _ _
  | remove name now => exact h.filter _
  | reset name now => exact h.onTarget _ _
  | sync name now => exact h.onTarget _ _
  | connect name now => exact h.onTarget _ _
  | connectError name msg now => exact h.onTarget _ _
  | update now pn n =>
    simp only [State.step, State.gnmiUpdate]
    split
    · exact h
    · split
      · exact h
      · exact h.set _ _
  | updateMetadata now => exact updateMetadata_names enc now s h

theorem get_of_mem {s : State} (h : NamesUnique s) {name : String} {t : Target} (hm : (name, t) ∈ s.targets) :
    s.get name = some t := by
  unfold State.get
  unfold NamesUnique at h
  generalize s.targets = l at h hm
  induction l with
  | nil => cases hm
  | cons kv l ih =>
    simp only [List.map_cons, List.nodup_cons] at h
    rcases List.mem_cons.1 hm with e | hm'
    · subst e; simp
    · have hne : kv.1 ≠ name := by
        intro e
        apply h.1
        rw [e]
        exact List.mem_map.2 ⟨(name, t), hm', rfl⟩
      have : (kv.1 == name) = false := by simpa using hne
      simp only [List.find?_cons, this]
      exact ih h.2 hm'

end Feed
end Gnmi
