import Gnmi.Model.Cache
/-!
Helper lemmas for the cache model: lookups in the abstract tree, the structural
invariant of a target (`TInv`), and how each ingest primitive moves them.
-/
namespace Gnmi
namespace Cache

/-! ### lookups in a `PMap` with unique keys -/

theorem lookup_some_of_mem {m : PMap Noti} {p : Path} {v : Noti}
    (hu : UniqueKeys m) (h : (p, v) ∈ m) : lookup m p = some v := by
  induction m with
  | nil => cases h
  | cons x m ih =>
    unfold UniqueKeys at hu
    simp only [List.map_cons, List.nodup_cons] at hu
    simp only [lookup, List.find?_cons]
    rcases List.mem_cons.1 h with rfl | h'
    · simp
    · have hne : x.1 ≠ p := by
        intro e
        exact hu.1 (List.mem_map.2 ⟨(p, v), h', by simp [e]⟩)
      have : (x.1 == p) = false := by simpa using hne
      simp only [this]
      exact ih hu.2 h'

theorem mem_of_lookup_some {m : PMap Noti} {p : Path} {v : Noti}
    (h : lookup m p = some v) : (p, v) ∈ m := by
  simp only [lookup, Option.map_eq_some_iff] at h
  obtain ⟨kv, hf, rfl⟩ := h
  have h1 := List.mem_of_find?_eq_some hf
  have h2 := List.find?_some hf
  have : kv.1 = p := by simpa using h2
  rw [← this]; exact h1

theorem lookup_some_iff {m : PMap Noti} {p : Path} {v : Noti} (hu : UniqueKeys m) :
    lookup m p = some v ↔ (p, v) ∈ m :=
  ⟨mem_of_lookup_some, lookup_some_of_mem hu⟩

theorem lookup_none_iff {m : PMap Noti} {p : Path} :
    lookup m p = none ↔ ∀ kv ∈ m, kv.1 ≠ p := by
  simp [lookup, List.find?_eq_none]

/-! ### `setLeaf` -/

theorem setLeaf_keys (m : PMap Noti) (p : Path) (n : Noti) :
    (setLeaf m p n).map (·.1) = m.map (·.1) := by
  induction m with
  | nil => rfl
  | cons x m ih =>
    simp only [setLeaf, List.map_cons] at ih ⊢
    rw [ih]
    by_cases h : (x.1 == p) = true <;> simp [h]

theorem setLeaf_unique {m : PMap Noti} (p : Path) (n : Noti) (hu : UniqueKeys m) :
    UniqueKeys (setLeaf m p n) := by
  unfold UniqueKeys; rw [setLeaf_keys]; exact hu

theorem mem_setLeaf {m : PMap Noti} {p : Path} {n : Noti} {x : Path × Noti} :
    x ∈ setLeaf m p n ↔ (x.1 = p ∧ x.2 = n ∧ ∃ old, (p, old) ∈ m) ∨ (x ∈ m ∧ x.1 ≠ p) := by
  simp only [setLeaf, List.mem_map]
  constructor
  · rintro ⟨kv, hkv, rfl⟩
    by_cases h : (kv.1 == p) = true
    · have hp : kv.1 = p := by simpa using h
      simp only [h, if_true]
      exact Or.inl ⟨hp, by first | rfl | trivial, kv.2, by rw [← hp]; exact hkv⟩
    · have hp : kv.1 ≠ p := by simpa using h
      simp only [h]
      exact Or.inr ⟨hkv, hp⟩
  · rintro (⟨h1, h2, old, ho⟩ | ⟨hx, hne⟩)
    · refine ⟨(p, old), ho, ?_⟩
      simp only [beq_self_eq_true, if_true]
      cases x; simp_all
    · refine ⟨x, hx, ?_⟩
      have : (x.1 == p) = false := by simpa using hne
      simp [this]

theorem lookup_setLeaf_same {m : PMap Noti} {p : Path} {n old : Noti} (hu : UniqueKeys m)
    (h : lookup m p = some old) : lookup (setLeaf m p n) p = some n := by
  rw [lookup_some_iff (setLeaf_unique p n hu)]
  exact mem_setLeaf.2 (Or.inl ⟨rfl, rfl, old, mem_of_lookup_some h⟩)

theorem lookup_setLeaf_other {m : PMap Noti} {p k : Path} {n : Noti} (hu : UniqueKeys m)
    (hne : k ≠ p) : lookup (setLeaf m p n) k = lookup m k := by
  cases h : lookup m k with
  | none =>
    rw [lookup_none_iff] at h ⊢
    intro kv hkv
    rcases mem_setLeaf.1 hkv with ⟨h1, _, _⟩ | ⟨h1, _⟩
    · rw [h1]; exact fun e => hne e.symm
    · exact h kv h1
  | some v =>
    rw [lookup_some_iff (setLeaf_unique p n hu)]
    exact mem_setLeaf.2 (Or.inr ⟨mem_of_lookup_some h, hne⟩)

/-! ### `PMap.add` -/

theorem add_eq_some {m m' : PMap Noti} {p : Path} {n : Noti} (h : PMap.add m p n = some m') :
    m' = (p, n) :: m.filter (fun kv => kv.1 != p) := by
  unfold PMap.add at h
  split at h
  · cases h
  · exact (Option.some.inj h).symm

theorem add_unique {m m' : PMap Noti} {p : Path} {n : Noti} (hu : UniqueKeys m)
    (h : PMap.add m p n = some m') : UniqueKeys m' := by
  rw [add_eq_some h]
  unfold UniqueKeys at hu ⊢
  simp only [List.map_cons, List.nodup_cons]
  refine ⟨?_, ?_⟩
  · intro hm
    obtain ⟨kv, hkv, hk⟩ := List.mem_map.1 hm
    have := (List.mem_filter.1 hkv).2
    simp only [bne_iff_ne, ne_eq] at this
    exact this hk
  · exact (List.filter_sublist.map _).nodup hu

theorem lookup_add_same {m m' : PMap Noti} {p : Path} {n : Noti}
    (h : PMap.add m p n = some m') : lookup m' p = some n := by
  rw [add_eq_some h]; simp [lookup]

theorem find_filter_ne (m : PMap Noti) {p k : Path} (hne : k ≠ p) :
    (m.filter (fun kv => kv.1 != p)).find? (fun kv => kv.1 == k) = m.find? (fun kv => kv.1 == k) := by
  induction m with
  | nil => rfl
  | cons x m ih =>
    simp only [List.filter_cons]
    by_cases hx : x.1 = p
    · have h1 : (x.1 != p) = false := by simp [hx]
      have h2 : (x.1 == k) = false := by rw [hx]; simpa using fun e => hne e.symm
      simp only [h1, List.find?_cons, h2]
      exact ih
    · have h1 : (x.1 != p) = true := by simpa using hx
      simp only [h1, if_true, List.find?_cons]
      split
      · rfl
      · exact ih

theorem lookup_add_other {m m' : PMap Noti} {p k : Path} {n : Noti}
    (h : PMap.add m p n = some m') (hne : k ≠ p) : lookup m' k = lookup m k := by
  rw [add_eq_some h]
  have h1 : ((p == k) = false) := by simpa using fun e => hne e.symm
  simp only [lookup, List.find?_cons, h1]
  rw [find_filter_ne m hne]

/-! ### `PMap.delete` -/

theorem delete_unique {m : PMap Noti} (c : Noti → Bool) (q : Path) (hu : UniqueKeys m) :
    UniqueKeys (PMap.delete c m q).1 := by
  unfold UniqueKeys at hu ⊢
  exact (List.filter_sublist.map _).nodup hu

theorem lookup_delete_some {m : PMap Noti} {c : Noti → Bool} {q k : Path} {v : Noti}
    (hu : UniqueKeys m) (h : lookup (PMap.delete c m q).1 k = some v) : lookup m k = some v := by
  rw [lookup_some_iff hu]
  have := mem_of_lookup_some h
  exact (List.mem_filter.1 this).1

theorem lookup_delete_kept {m : PMap Noti} {c : Noti → Bool} {q k : Path} {v : Noti}
    (hu : UniqueKeys m) (h : lookup m k = some v) (hk : (qmatches q k && c v) = false) :
    lookup (PMap.delete c m q).1 k = some v := by
  rw [lookup_some_iff (delete_unique c q hu)]
  exact List.mem_filter.2 ⟨mem_of_lookup_some h, by simp [hk]⟩

theorem lookup_delete_removed {m : PMap Noti} {c : Noti → Bool} {q k : Path} {v : Noti}
    (hu : UniqueKeys m) (h : lookup m k = some v) (hk : (qmatches q k && c v) = true) :
    lookup (PMap.delete c m q).1 k = none := by
  rw [lookup_none_iff]
  intro kv hkv hk'
  have hm := List.mem_filter.1 hkv
  have : kv.2 = v := by
    have h1 : lookup m kv.1 = some kv.2 := lookup_some_of_mem hu hm.1
    rw [hk', h] at h1
    exact (Option.some.inj h1).symm
  have h2 := hm.2
  rw [hk', this] at h2
  simp [hk] at h2

/-! ### what one `gnmiUpdate1` does -/

/-- the three counters behind `targetLeaves` are equal in two targets -/
def LcSame (t t' : Target) : Prop :=
  t'.md.leaves = t.md.leaves ∧ t'.md.added = t.md.added ∧ t'.md.deleted = t.md.deleted

theorem LcSame.refl (t : Target) : LcSame t t := ⟨rfl, rfl, rfl⟩

theorem LcSame.trans {a b c : Target} (h1 : LcSame a b) (h2 : LcSame b c) : LcSame a c :=
  ⟨h2.1.trans h1.1, h2.2.1.trans h1.2.1, h2.2.2.trans h1.2.2⟩

theorem metaSideEffect_frame {t t' : Target} {name : String} {v : Val}
    (h : metaSideEffect t name v = some t') :
    t'.tree = t.tree ∧ t'.latest = t.latest ∧ t'.name = t.name ∧ LcSame t t' := by
  unfold metaSideEffect at h
  repeat' split at h
  all_goals first
    | (cases h; exact ⟨rfl, rfl, rfl, rfl, rfl, rfl⟩)
    | (simp at h)

theorem metaPre_frame {t t' : Target} {h : String} {rest : Path} {v : Val} {rd : Bool}
    (hp : metaPre t h rest v = some (t', rd)) :
    t'.tree = t.tree ∧ t'.latest = t.latest ∧ t'.name = t.name ∧ LcSame t t' ∧
    rd = !isMetaKey (h :: rest) := by
  unfold metaPre at hp
  split at hp
  · rename_i hm
    split at hp
    · cases hp
    · simp only [Option.map_eq_some_iff, Prod.mk.injEq] at hp
      obtain ⟨t0, h0, rfl, rfl⟩ := hp
      obtain ⟨a, b, c, d⟩ := metaSideEffect_frame h0
      exact ⟨a, b, c, d, by simp [isMetaKey, hm]⟩
  · rename_i hm
    cases hp
    exact ⟨rfl, rfl, rfl, LcSame.refl _, by simp [isMetaKey, hm]⟩

theorem verdict_accept_ts {cfg : Cfg} {now : Int} {l : Option Int} {old n : Noti}
    (h : verdict cfg now l old n = .accept) : old.ts ≤ n.ts := by
  unfold verdict at h
  split at h
  · cases h
  · omega

/-- what a single `gnmiUpdate1` can do to a target's tree and leaf counters (`key` = index of
the update, `u` = the update applied) -/
inductive Effect (cfg : Cfg) (t : Target) (n : Noti) (u : Upd) (key : Path) : Res × Target × Option Noti → Prop
  | rejected (r : Res) (t' : Target) : r = .stale ∨ r = .future ∨ r = .err → t'.tree = t.tree →
      t'.latest = t.latest → t'.name = t.name → LcSame t t' → Effect cfg t n u key (r, t', none)
  | replaced (t' : Target) (old : Noti) :
      key ≠ [] → lookup t.tree key = some old → old.ts ≤ n.ts →
      t'.tree = setLeaf t.tree key n → t'.latest = t.latest → t'.name = t.name → LcSame t t' →
      Effect cfg t n u key (.ok, t', some n)
  | suppressed (t' : Target) (old : Noti) (ou : Upd) (ous : List Upd) :
      key ≠ [] → lookup t.tree key = some old → old.ts ≤ n.ts →
      t'.tree = setLeaf t.tree key n → t'.latest = t.latest → t'.name = t.name → LcSame t t' →
      n.atomic = false → old.atomic = false → old.upd = ou :: ous → valueEqual ou.val u.val = true →
      cfg.eventDriven = true → Effect cfg t n u key (.ok, t', none)
  | added (t' : Target) :
      key ≠ [] → lookup t.tree key = none → PMap.add t.tree key n = some t'.tree →
      t'.latest = t.latest → t'.name = t.name →
      t'.md.leaves = t.md.leaves + (if isMetaKey key then 0 else 1) →
      t'.md.added = t.md.added + (if isMetaKey key then 0 else 1) →
      t'.md.deleted = t.md.deleted → Effect cfg t n u key (.ok, t', some n)
  | panicOld (t' : Target) (old : Noti) : lookup t.tree key = some old → old.upd = [] →
      Effect cfg t n u key (.panic, t', none)

theorem updateCore_effect (cfg : Cfg) (now : Int) (t t0 : Target) (realData : Bool) (path : Path)
    (n : Noti) (u : Upd) (hp : path ≠ [])
    (h1 : t0.tree = t.tree) (h2 : t0.latest = t.latest) (h3 : t0.name = t.name) (h4 : LcSame t t0)
    (hrd : realData = !isMetaKey path) :
    Effect cfg t n u path (updateCore cfg now t0 realData path n u) := by
  unfold updateCore
  cases hl : lookup t0.tree path with
  | some old =>
    have hl' : lookup t.tree path = some old := by rw [← h1]; exact hl
    simp only
    cases hv : verdict cfg now t0.latest old n with
    | stale => exact .rejected _ _ (Or.inl rfl) h1 h2 h3 h4
    | future => exact .rejected _ _ (Or.inr (Or.inl rfl)) h1 h2 h3 h4
    | accept =>
      have hts := verdict_accept_ts hv
      simp only
      split
      · exact .replaced _ old hp hl' hts (by simp [h1]) h2 h3 h4
      · rename_i hat
        split
        · rename_i ho; exact .panicOld _ old hl' ho
        · rename_i ou ous ho
          split
          · rename_i hve
            simp only [Bool.or_eq_true, not_or, Bool.not_eq_true] at hat
            simp only [Bool.and_eq_true] at hve
            exact .suppressed _ old ou ous hp hl' hts (by simp [h1]) h2 h3 h4 hat.1 hat.2 ho hve.1 hve.2
          · exact .replaced _ old hp hl' hts (by simp [h1]) h2 h3 h4
  | none =>
    have hl' : lookup t.tree path = none := by rw [← h1]; exact hl
    simp only
    cases ha : PMap.add t0.tree path n with
    | none => exact .rejected _ _ (Or.inr (Or.inr rfl)) h1 h2 h3 h4
    | some tree' =>
      have ha' : PMap.add t.tree path n = some tree' := by rw [← h1]; exact ha
      simp only
      cases hm : isMetaKey path with
      | true =>
        have : realData = false := by rw [hrd, hm]; rfl
        subst this
        exact .added _ hp hl' (by simpa using ha') h2 h3 (by simpa [hm] using h4.1) (by simpa [hm] using h4.2.1) h4.2.2
      | false =>
        have : realData = true := by rw [hrd, hm]; rfl
        subst this
        refine .added _ hp hl' (by simpa using ha') h2 h3 ?_ ?_ h4.2.2
        · simp [h4.1, hm]
        · simp [h4.2.1, hm]

theorem gnmiUpdate1_effect (cfg : Cfg) (now : Int) (t : Target) (n : Noti) (u : Upd) (us : List Upd)
    (hu : n.upd = u :: us) (ht : n.target ≠ "") :
    Effect cfg t n u (updKey n u) (Target.gnmiUpdate1 cfg now t n) := by
  have hk' : updKey? n u = some (updKey n u) := by
    unfold updKey? updKey; exact joinKey?_eq _ _ ht
  unfold Target.gnmiUpdate1
  simp only [hu, hk']
  generalize updKey n u = key
  match key with
  | [] => exact .rejected _ _ (Or.inr (Or.inr rfl)) rfl rfl rfl (LcSame.refl _)
  | h :: rest =>
    simp only
    cases hp : metaPre t h rest u.val with
    | none => exact .rejected _ _ (Or.inr (Or.inr rfl)) rfl rfl rfl (LcSame.refl _)
    | some tr =>
      obtain ⟨t0, rd⟩ := tr
      obtain ⟨h1, h2, h3, h4, h5⟩ := metaPre_frame hp
      exact updateCore_effect cfg now t t0 rd (h :: rest) n u (by simp) h1 h2 h3 h4 h5

/-! ### what one `gnmiRemove1` does -/

theorem filter_not_of_filter_nil {α : Type} (p : α → Bool) (l : List α) (h : l.filter p = []) :
    l.filter (fun x => !p x) = l := by
  rw [List.filter_eq_self]
  intro x hx
  have := List.filter_eq_nil_iff.1 h x hx
  simpa using this

theorem resetEntry_lc (m : Meta) (name : String) (h : intNames.contains name = false) :
    (m.resetEntry name).leaves = m.leaves ∧ (m.resetEntry name).added = m.added ∧
    (m.resetEntry name).deleted = m.deleted := by
  have h1 : name ≠ "targetLeaves" := by intro e; subst e; simp [intNames] at h
  have h2 : name ≠ "targetLeavesAdded" := by intro e; subst e; simp [intNames] at h
  have h3 : name ≠ "targetLeavesDeleted" := by intro e; subst e; simp [intNames] at h
  unfold Meta.resetEntry
  by_cases c0 : name = "sync"
  · simp [c0]
  by_cases c1 : name = "connected"
  · simp [c0, c1]
  have c2 : name ≠ "targetLeavesAdded" := h2
  have c3 : name ≠ "targetLeavesDeleted" := h3
  by_cases c4 : name = "targetLeavesEmpty"
  · simp [c0, c1, c2, c3, c4]
  have c5 : name ≠ "targetLeaves" := h1
  by_cases c6 : name = "targetLeavesUpdated"
  · simp [c0, c1, c2, c3, c4, c5, c6]
  by_cases c7 : name = "targetLeavesStale"
  · simp [c0, c1, c2, c3, c4, c5, c6, c7]
  by_cases c8 : name = "targetLeavesFuture"
  · simp [c0, c1, c2, c3, c4, c5, c6, c7, c8]
  by_cases c9 : name = "targetLeavesSuppressed"
  · simp [c0, c1, c2, c3, c4, c5, c6, c7, c8, c9]
  by_cases c10 : name = "targetSize"
  · simp [c0, c1, c2, c3, c4, c5, c6, c7, c8, c9, c10]
  by_cases c11 : name = "latestTimestamp"
  · simp [c0, c1, c2, c3, c4, c5, c6, c7, c8, c9, c10, c11]
  by_cases c12 : name = "connectedAddress"
  · simp [c0, c1, c2, c3, c4, c5, c6, c7, c8, c9, c10, c11, c12]
  by_cases c13 : name = "connectError"
  · simp [c0, c1, c2, c3, c4, c5, c6, c7, c8, c9, c10, c11, c12, c13]
  simp [c0, c1, c2, c3, c4, c5, c6, c7, c8, c9, c10, c11, c12, c13]

theorem resetMetaFor_frame (t : Target) (path : Path) :
    (resetMetaFor t path).tree = t.tree ∧ (resetMetaFor t path).latest = t.latest ∧
    (resetMetaFor t path).name = t.name ∧ LcSame t (resetMetaFor t path) := by
  unfold resetMetaFor
  split
  · split
    · rename_i hc
      refine ⟨rfl, rfl, rfl, ?_⟩
      exact resetEntry_lc _ _ (by simpa using hc.2)
    · exact ⟨rfl, rfl, rfl, LcSame.refl _⟩
  · exact ⟨rfl, rfl, rfl, LcSame.refl _⟩

/-- number of non-metadata leaves -/
def nm (m : PMap Noti) : Nat := (m.filter (fun kv => !isMetaKey kv.1)).length

theorem nm_eq_keys (m : PMap Noti) :
    nm m = ((m.map (·.1)).filter (fun k => !isMetaKey k)).length := by
  induction m with
  | nil => rfl
  | cons x m ih =>
    simp only [nm, List.filter_cons, List.map_cons] at ih ⊢
    split <;> simp [ih]

theorem nm_setLeaf (m : PMap Noti) (p : Path) (n : Noti) : nm (setLeaf m p n) = nm m := by
  rw [nm_eq_keys, nm_eq_keys, setLeaf_keys]

theorem filter_ne_of_lookup_none {m : PMap Noti} {p : Path} (h : lookup m p = none) :
    m.filter (fun kv => kv.1 != p) = m := by
  rw [List.filter_eq_self]
  intro kv hkv
  have := lookup_none_iff.1 h kv hkv
  simpa using this

theorem nm_add {m m' : PMap Noti} {p : Path} {n : Noti} (h : PMap.add m p n = some m')
    (hl : lookup m p = none) : nm m' = nm m + (if isMetaKey p then 0 else 1) := by
  rw [add_eq_some h, filter_ne_of_lookup_none hl]
  simp only [nm, List.filter_cons]
  cases isMetaKey p <;> simp

theorem nm_partition (m : PMap Noti) (c : Path × Noti → Bool) :
    nm (m.filter (fun kv => !c kv)) + nm (m.filter c) = nm m := by
  induction m with
  | nil => rfl
  | cons x m ih =>
    unfold nm at ih ⊢
    cases hc : c x <;> cases hm : isMetaKey x.1 <;>
      simp only [List.filter_cons, hc, hm, Bool.not_true, Bool.not_false, if_true, Bool.false_eq_true,
        if_false, List.length_cons] <;> omega

theorem allSome_none_witness (ts : Int) : ∀ (l : List (Path × Noti)),
    allSome (l.map (fun kv => toDeleteEvent? kv.2 ts)) = none → ∃ kv ∈ l, kv.2.upd = []
  | [], h => by simp [allSome] at h
  | y :: ys, h => by
    simp only [List.map_cons] at h
    cases hy : toDeleteEvent? y.2 ts with
    | none =>
      refine ⟨y, List.mem_cons_self .., ?_⟩
      unfold toDeleteEvent? at hy
      split at hy
      · assumption
      · cases hy
    | some e =>
      rw [hy] at h
      simp only [allSome, Option.map_eq_none_iff] at h
      obtain ⟨kv, hkv, hu⟩ := allSome_none_witness ts ys h
      exact ⟨kv, List.mem_cons_of_mem _ hkv, hu⟩

theorem removeCore_spec (t : Target) (ts : Int) (path : Path) :
    let r := removeCore t ts path
    let del := PMap.delete (olderThan ts) t.tree path
    r.1.tree = del.1 ∧ r.1.latest = t.latest ∧ r.1.name = t.name ∧
    (r.2.2 = false → allSome (del.2.map (fun kv => toDeleteEvent? kv.2 ts)) = some r.2.1 ∧
      r.1.md.leaves = t.md.leaves - (nm del.2 : Nat) ∧ r.1.md.added = t.md.added ∧
      r.1.md.deleted = t.md.deleted + (nm del.2 : Nat)) ∧
    (r.2.2 = true → ∃ kv ∈ del.2, kv.2.upd = []) := by
  intro r del
  have hr : r = removeCore t ts path := rfl
  unfold removeCore at hr
  simp only at hr
  change r = (match del.2 with
    | [] => (t, [], false)
    | x :: xs =>
      match allSome ((x :: xs).map (fun kv => toDeleteEvent? kv.2 ts)) with
      | none => ({ t with tree := del.1 }, [], true)
      | some evs =>
        ({ t with tree := del.1,
                  md := { t.md with
                    leaves := t.md.leaves - (((x :: xs).filter (fun kv => !isMetaKey kv.1)).length : Nat),
                    deleted := t.md.deleted + (((x :: xs).filter (fun kv => !isMetaKey kv.1)).length : Nat) } },
         evs, false)) at hr
  cases hrem : del.2 with
  | nil =>
    rw [hrem] at hr
    have htree : del.1 = t.tree := filter_not_of_filter_nil _ _ hrem
    rw [hr]
    refine ⟨htree.symm, rfl, rfl, ?_, ?_⟩
    · intro _; simp [allSome, nm]
    · intro h; cases h
  | cons x xs =>
    rw [hrem] at hr
    simp only at hr
    cases hall : allSome ((x :: xs).map (fun kv => toDeleteEvent? kv.2 ts)) with
    | none =>
      rw [hall] at hr
      simp only at hr
      rw [hr]
      refine ⟨rfl, rfl, rfl, ?_, ?_⟩
      · intro h; cases h
      · intro _; exact allSome_none_witness ts _ hall
    | some evs =>
      rw [hall] at hr
      simp only at hr
      rw [hr]
      refine ⟨rfl, rfl, rfl, ?_, ?_⟩
      · intro _; exact ⟨rfl, rfl, rfl, rfl⟩
      · intro h; cases h

theorem gnmiRemove1_spec (t : Target) (n : Noti) (d : Del) (ds : List Del)
    (hd : n.del = d :: ds) (ht : n.target ≠ "") :
    let r := Target.gnmiRemove1 t n
    let del := PMap.delete (olderThan n.ts) t.tree (joinKey n d.path)
    r.1.tree = del.1 ∧ r.1.latest = t.latest ∧ r.1.name = t.name ∧
    (r.2.2 = false → allSome (del.2.map (fun kv => toDeleteEvent? kv.2 n.ts)) = some r.2.1 ∧
      r.1.md.leaves = t.md.leaves - (nm del.2 : Nat) ∧ r.1.md.added = t.md.added ∧
      r.1.md.deleted = t.md.deleted + (nm del.2 : Nat)) ∧
    (r.2.2 = true → ∃ kv ∈ del.2, kv.2.upd = []) := by
  intro r del
  have hk : joinKey? n d.path = some (joinKey n d.path) := joinKey?_eq _ _ ht
  have hr : r = removeCore (resetMetaFor t (joinKey n d.path)) n.ts (joinKey n d.path) := by
    show Target.gnmiRemove1 t n = _
    unfold Target.gnmiRemove1
    simp only [hd, hk]
  obtain ⟨f1, f2, f3, f4⟩ := resetMetaFor_frame t (joinKey n d.path)
  have := removeCore_spec (resetMetaFor t (joinKey n d.path)) n.ts (joinKey n d.path)
  simp only [f1] at this
  rw [hr]
  obtain ⟨a, b, c, d', e⟩ := this
  refine ⟨a, b.trans f2, c.trans f3, ?_, e⟩
  intro hp
  obtain ⟨d1, d2, d3, d4⟩ := d' hp
  exact ⟨d1, by rw [d2, f4.1], by rw [d3, f4.2.1], by rw [d4, f4.2.2]⟩

/-! ### the structural invariant of a target and the two monotonicity relations -/

/-- Keys are unique and non-empty, every stored notification carries at least one update, and
the leaf counters are off by the constants `a`, `b`:
`targetLeaves − (number of non-metadata leaves stored) = a` and
`targetLeaves − (targetLeavesAdded − targetLeavesDeleted) = b`.
(`a = b = 0` in every state reachable through the API: `TInv`; other constants occur only in
the middle of `Reset`, between clearing the metadata and deleting the leaves.) -/
structure TInvD (a b : Int) (t : Target) : Prop where
  unique : UniqueKeys t.tree
  hasUpd : ∀ kv ∈ t.tree, kv.2.upd ≠ []
  nonEmpty : ∀ kv ∈ t.tree, kv.1 ≠ []
  lc : t.md.leaves - (nm t.tree : Nat) = a
  bal : t.md.leaves - (t.md.added - t.md.deleted) = b

/-- the invariant of every reachable target: the leaf counters are truthful -/
abbrev TInv (t : Target) : Prop := TInvD 0 0 t

theorem TInvD.of_tree_eq {a b : Int} {t t' : Target} (h : t'.tree = t.tree) (hl : LcSame t t')
    (hi : TInvD a b t) : TInvD a b t' :=
  ⟨by rw [h]; exact hi.unique, by rw [h]; exact hi.hasUpd, by rw [h]; exact hi.nonEmpty,
   by rw [h, hl.1]; exact hi.lc, by rw [hl.1, hl.2.1, hl.2.2]; exact hi.bal⟩

theorem TInvD.with_md {a b : Int} {t : Target} (hi : TInvD a b t) (m : Meta)
    (h : m.leaves = t.md.leaves ∧ m.added = t.md.added ∧ m.deleted = t.md.deleted) :
    TInvD a b { t with md := m } :=
  TInvD.of_tree_eq (t := t) (t' := { t with md := m }) rfl h hi

/-- no key disappears and no stored timestamp decreases -/
def Grow (t t' : Target) : Prop :=
  ∀ k old, lookup t.tree k = some old → ∃ new, lookup t'.tree k = some new ∧ old.ts ≤ new.ts

/-- nothing is added or changed (leaves may disappear) -/
def Shrink (t t' : Target) : Prop :=
  ∀ k v, lookup t'.tree k = some v → lookup t.tree k = some v

/-- a leaf present before and after holds a timestamp that did not decrease -/
def TsMono (t t' : Target) : Prop :=
  ∀ k old new, lookup t.tree k = some old → lookup t'.tree k = some new → old.ts ≤ new.ts

theorem Grow.refl (t : Target) : Grow t t := fun _ old h => ⟨old, h, Int.le_refl _⟩

theorem Grow.of_tree_eq {t t' : Target} (h : t'.tree = t.tree) : Grow t t' := by
  intro k old hl; exact ⟨old, by rw [h]; exact hl, Int.le_refl _⟩

theorem Grow.trans {a b c : Target} (h1 : Grow a b) (h2 : Grow b c) : Grow a c := by
  intro k old hl
  obtain ⟨m, hm, h⟩ := h1 k old hl
  obtain ⟨n, hn, h'⟩ := h2 k m hm
  exact ⟨n, hn, Int.le_trans h h'⟩

theorem Grow.with_md {a b : Target} (h : Grow a b) (m : Meta) : Grow a { b with md := m } := h

theorem Shrink.refl (t : Target) : Shrink t t := fun _ _ h => h

theorem Shrink.of_tree_eq {t t' : Target} (h : t'.tree = t.tree) : Shrink t t' := by
  intro k v hl; rw [h] at hl; exact hl

theorem Shrink.trans {a b c : Target} (h1 : Shrink a b) (h2 : Shrink b c) : Shrink a c :=
  fun k v h => h1 k v (h2 k v h)

theorem Shrink.with_md {a b : Target} (h : Shrink a b) (m : Meta) : Shrink a { b with md := m } := h

theorem Shrink.from_md {a b : Target} (m : Meta) (h : Shrink { a with md := m } b) : Shrink a b := h

theorem TsMono.of_grow_shrink {a b c : Target} (h1 : Grow a b) (h2 : Shrink b c) : TsMono a c := by
  intro k old new ho hn
  obtain ⟨m, hm, h⟩ := h1 k old ho
  have := h2 k new hn
  rw [hm] at this
  cases this
  exact h

/-- consequences of an existing leaf being overwritten by `n` -/
theorem overwrite_consequences {a b : Int} {t t' : Target} {n old : Noti} {key : Path}
    (hi : TInvD a b t) (hn : n.upd ≠ []) (hk : key ≠ []) (hl : lookup t.tree key = some old)
    (hts : old.ts ≤ n.ts) (h1 : t'.tree = setLeaf t.tree key n) (h4 : LcSame t t') :
    TInvD a b t' ∧ Grow t t' := by
  refine ⟨⟨?_, ?_, ?_, ?_, ?_⟩, ?_⟩
  · rw [h1]; exact setLeaf_unique _ _ hi.unique
  · rw [h1]
    intro kv hkv
    rcases mem_setLeaf.1 hkv with ⟨_, h, _⟩ | ⟨h, _⟩
    · rw [h]; exact hn
    · exact hi.hasUpd kv h
  · rw [h1]
    intro kv hkv
    rcases mem_setLeaf.1 hkv with ⟨h, _, _⟩ | ⟨h, _⟩
    · rw [h]; exact hk
    · exact hi.nonEmpty kv h
  · show t'.md.leaves - _ = _
    rw [h1, nm_setLeaf, h4.1]; exact hi.lc
  · show t'.md.leaves - _ = _
    rw [h4.1, h4.2.1, h4.2.2]; exact hi.bal
  · intro k o ho
    by_cases hkk : k = key
    · subst hkk
      rw [hl] at ho; cases ho
      exact ⟨n, by rw [h1]; exact lookup_setLeaf_same hi.unique hl, hts⟩
    · exact ⟨o, by rw [h1, lookup_setLeaf_other hi.unique hkk]; exact ho, Int.le_refl _⟩

/-- consequences of one non-panicking `gnmiUpdate1` -/
theorem Effect.consequences {cfg : Cfg} {t : Target} {n : Noti} {u : Upd} {key : Path}
    {r : Res × Target × Option Noti}
    {a b : Int} (he : Effect cfg t n u key r) (hi : TInvD a b t) (hn : n.upd ≠ []) :
    r.1 ≠ .panic ∧ TInvD a b r.2.1 ∧ Grow t r.2.1 ∧ r.2.1.latest = t.latest ∧ r.2.1.name = t.name := by
  cases he with
  | rejected r t' hr h1 h2 h3 h4 =>
    refine ⟨?_, hi.of_tree_eq h1 h4, Grow.of_tree_eq h1, h2, h3⟩
    rcases hr with rfl | rfl | rfl <;> simp
  | replaced t' old hk hl hts h1 h2 h3 h4 =>
    obtain ⟨x, y⟩ := overwrite_consequences hi hn hk hl hts h1 h4
    exact ⟨by simp, x, y, h2, h3⟩
  | suppressed t' old ou ous hk hl hts h1 h2 h3 h4 =>
    obtain ⟨x, y⟩ := overwrite_consequences hi hn hk hl hts h1 h4
    exact ⟨by simp, x, y, h2, h3⟩
  | added t' hk hl ha h2 h3 m1 m2 m3 =>
    refine ⟨by simp, ⟨add_unique hi.unique ha, ?_, ?_, ?_, ?_⟩, ?_, h2, h3⟩
    · rw [add_eq_some ha]
      intro kv hkv
      rcases List.mem_cons.1 hkv with rfl | h
      · exact hn
      · exact hi.hasUpd kv (List.mem_filter.1 h).1
    · rw [add_eq_some ha]
      intro kv hkv
      rcases List.mem_cons.1 hkv with rfl | h
      · exact hk
      · exact hi.nonEmpty kv (List.mem_filter.1 h).1
    · show t'.md.leaves - _ = _
      have := hi.lc
      rw [m1, nm_add ha hl]
      cases isMetaKey key <;> simp <;> omega
    · show t'.md.leaves - _ = _
      have := hi.bal
      rw [m1, m2, m3]; omega
    · intro k o ho
      have hkk : k ≠ key := by
        intro e; subst e; rw [hl] at ho; cases ho
      exact ⟨o, by rw [lookup_add_other ha hkk]; exact ho, Int.le_refl _⟩
  | panicOld t' old hl ho =>
    exact absurd ho (hi.hasUpd (key, old) (mem_of_lookup_some hl))

theorem gnmiUpdate1_consequences {a b : Int} (cfg : Cfg) (now : Int) (t : Target) (n : Noti)
    (hi : TInvD a b t) (hn : n.upd ≠ []) (ht : n.target ≠ "") :
    let r := Target.gnmiUpdate1 cfg now t n
    r.1 ≠ .panic ∧ TInvD a b r.2.1 ∧ Grow t r.2.1 ∧ r.2.1.latest = t.latest ∧ r.2.1.name = t.name := by
  match hu : n.upd with
  | [] => exact absurd hu hn
  | u :: us => exact (gnmiUpdate1_effect cfg now t n u us hu ht).consequences hi hn

/-- consequences of one `gnmiRemove1` -/
theorem gnmiRemove1_consequences {a b : Int} (t : Target) (n : Noti) (hi : TInvD a b t) (hd : n.del ≠ [])
    (ht : n.target ≠ "") :
    let r := Target.gnmiRemove1 t n
    r.2.2 = false ∧ TInvD a b r.1 ∧ Shrink t r.1 ∧ r.1.latest = t.latest ∧ r.1.name = t.name := by
  match hdd : n.del with
  | [] => exact absurd hdd hd
  | d :: ds =>
    obtain ⟨h1, h2, h3, h4, h5⟩ := gnmiRemove1_spec t n d ds hdd ht
    have hp : (Target.gnmiRemove1 t n).2.2 = false := by
      cases hp : (Target.gnmiRemove1 t n).2.2 with
      | false => rfl
      | true =>
        obtain ⟨kv, hkv, hu⟩ := h5 hp
        exact absurd hu (hi.hasUpd kv (List.mem_filter.1 hkv).1)
    obtain ⟨_, m1, m2, m3⟩ := h4 hp
    have hpart := nm_partition t.tree (fun kv => qmatches (joinKey n d.path) kv.1 && olderThan n.ts kv.2)
    refine ⟨hp, ⟨?_, ?_, ?_, ?_, ?_⟩, ?_, h2, h3⟩
    · rw [h1]; exact delete_unique _ _ hi.unique
    · rw [h1]; intro kv hkv; exact hi.hasUpd kv (List.mem_filter.1 hkv).1
    · rw [h1]; intro kv hkv; exact hi.nonEmpty kv (List.mem_filter.1 hkv).1
    · have := hi.lc
      rw [m1, h1]
      unfold PMap.delete at hpart ⊢
      simp only at hpart ⊢
      omega
    · have := hi.bal
      rw [m1, m2, m3]; omega
    · intro k v hl
      rw [h1] at hl
      exact lookup_delete_some hi.unique hl

/-! ### lifting through the loops of a multi-update notification -/

/-- what the loops maintain about the accumulator, relative to a reference target `t0` and a
relation `R` (`Grow` for the update loop, `Shrink` for the delete loop) -/
structure AccOK (a b : Int) (R : Target → Target → Prop) (t0 : Target) (acc : MultiAcc) : Prop where
  noPanic : acc.panicked = false
  inv : TInvD a b acc.t
  rel : R t0 acc.t
  latest : acc.t.latest = t0.latest
  name : acc.t.name = t0.name

theorem multiUpdates_ok {a b : Int} (cfg : Cfg) (now : Int) (hdr : Noti) (hh : hdr.target ≠ "") (t0 : Target) :
    ∀ (us : List Upd) (acc : MultiAcc), AccOK a b Grow t0 acc → AccOK a b Grow t0 (multiUpdates cfg now hdr us acc)
  | [], acc, h => by simpa [multiUpdates] using h
  | u :: us, acc, h => by
    have hc := gnmiUpdate1_consequences cfg now acc.t { hdr with upd := [u], del := [] } h.inv
      (by simp) hh
    simp only at hc
    obtain ⟨c1, c2, c3, c4, c5⟩ := hc
    have hp := h.noPanic
    unfold multiUpdates
    simp only [hp, Bool.false_eq_true, if_false, c1]
    split
    · apply multiUpdates_ok cfg now hdr hh t0 us
      exact ⟨rfl, c2, h.rel.trans c3, c4.trans h.latest, c5.trans h.name⟩
    · split
      · apply multiUpdates_ok cfg now hdr hh t0 us
        exact ⟨rfl, c2.with_md _ ⟨rfl, rfl, rfl⟩, (h.rel.trans c3).with_md _, c4.trans h.latest, c5.trans h.name⟩
      · apply multiUpdates_ok cfg now hdr hh t0 us
        exact ⟨rfl, c2, h.rel.trans c3, c4.trans h.latest, c5.trans h.name⟩

theorem multiDeletes_ok {a b : Int} (hdr : Noti) (hh : hdr.target ≠ "") (t0 : Target) :
    ∀ (ds : List Del) (acc : MultiAcc), AccOK a b Shrink t0 acc → AccOK a b Shrink t0 (multiDeletes hdr ds acc)
  | [], acc, h => by simpa [multiDeletes] using h
  | d :: ds, acc, h => by
    have hc := gnmiRemove1_consequences
      { acc.t with md := { acc.t.md with updated := acc.t.md.updated + 1 } }
      { hdr with upd := [], del := [d] } (h.inv.with_md _ ⟨rfl, rfl, rfl⟩) (by simp) hh
    simp only at hc
    obtain ⟨c1, c2, c3, c4, c5⟩ := hc
    have hp := h.noPanic
    unfold multiDeletes
    simp only [hp, Bool.false_eq_true, if_false, c1]
    apply multiDeletes_ok hdr hh t0 ds
    exact ⟨rfl, c2, h.rel.trans (Shrink.from_md _ c3), c4.trans h.latest, c5.trans h.name⟩

/-! ### a whole notification -/

theorem checkTimestamp_frame (t : Target) (ts : Int) :
    (t.checkTimestamp ts).tree = t.tree ∧ (t.checkTimestamp ts).name = t.name ∧
    LcSame t (t.checkTimestamp ts) := by
  unfold Target.checkTimestamp
  split
  · exact ⟨rfl, rfl, LcSame.refl _⟩
  · split <;> exact ⟨rfl, rfl, LcSame.refl _⟩

theorem singleArm_ok {a b : Int} {t : Target} {r : Res × Target × Option Noti} (cnt : Int)
    (h : r.1 ≠ .panic ∧ TInvD a b r.2.1 ∧ Grow t r.2.1 ∧ r.2.1.latest = t.latest ∧ r.2.1.name = t.name) :
    (singleArm r cnt).1 ≠ .panic ∧ TInvD a b (singleArm r cnt).2.1 ∧ Grow t (singleArm r cnt).2.1 ∧
    (singleArm r cnt).2.1.name = t.name ∧ (singleArm r cnt).2.1.latest = t.latest := by
  obtain ⟨c1, c2, c3, c4, c5⟩ := h
  unfold singleArm
  split
  · exact ⟨c1, c2, c3, c5, c4⟩
  · split
    · exact ⟨by simp, c2.with_md _ ⟨rfl, rfl, rfl⟩, c3.with_md _, c5, c4⟩
    · exact ⟨by simp, c2, c3, c5, c4⟩

/-- The switch of `Target.GnmiUpdate` never panics on a well-formed target, keeps the
invariant, and moves the tree by "grow, then shrink". -/
theorem dispatch_ok {a b : Int} (cfg : Cfg) (now : Int) (t : Target) (n : Noti) (hi : TInvD a b t)
    (ht : n.target ≠ "") :
    let r := t.dispatch cfg now n
    r.1 ≠ .panic ∧ TInvD a b r.2.1 ∧ (∃ mid, Grow t mid ∧ Shrink mid r.2.1) ∧ r.2.1.name = t.name ∧
    r.2.1.latest = t.latest := by
  intro r
  have hr : r = t.dispatch cfg now n := rfl
  unfold Target.dispatch at hr
  split at hr
  · -- atomic
    split at hr
    · rw [hr]; exact ⟨by simp, hi, ⟨t, Grow.refl t, Shrink.refl t⟩, rfl, rfl⟩
    · split at hr
      · rw [hr]; exact ⟨by simp, hi.with_md _ ⟨rfl, rfl, rfl⟩, ⟨t, Grow.refl t, (Shrink.refl t).with_md _⟩, rfl, rfl⟩
      · rename_i _ _ hne
        have hn : n.upd ≠ [] := by
          intro e; rw [e] at hne; simp at hne
        obtain ⟨a, b, c, d, e⟩ := singleArm_ok (t := t) ((n.upd.length : Nat) : Int)
          (gnmiUpdate1_consequences cfg now t n hi hn ht)
        rw [hr]; exact ⟨a, b, ⟨_, c, Shrink.refl _⟩, d, e⟩
  · split at hr
    · -- multi
      have ha := multiUpdates_ok cfg now { n with upd := [], del := [] } ht t n.upd { t := t }
        ⟨rfl, hi, Grow.refl t, rfl, rfl⟩
      have hb := multiDeletes_ok { n with upd := [], del := [] } ht
        (multiUpdates cfg now { n with upd := [], del := [] } n.upd { t := t }).t n.del
        (multiUpdates cfg now { n with upd := [], del := [] } n.upd { t := t })
        ⟨ha.noPanic, ha.inv, Shrink.refl _, rfl, rfl⟩
      simp only [hb.noPanic, Bool.false_eq_true, if_false] at hr
      rw [hr]
      refine ⟨?_, hb.inv, ⟨_, ha.rel, hb.rel⟩, hb.name.trans ha.name, hb.latest.trans ha.latest⟩
      split <;> simp
    · split at hr
      · rename_i _ _ h1
        have hn : n.upd ≠ [] := by
          intro e; rw [e] at h1; simp at h1
        obtain ⟨a, b, c, d, e⟩ := singleArm_ok (t := t) 1
          (gnmiUpdate1_consequences cfg now t n hi hn ht)
        rw [hr]; exact ⟨a, b, ⟨_, c, Shrink.refl _⟩, d, e⟩
      · split at hr
        · rename_i _ _ _ h1
          have hd : n.del ≠ [] := by
            intro e; rw [e] at h1; simp at h1
          have hc := gnmiRemove1_consequences
            { t with md := { t.md with updated := t.md.updated + 1 } } n (hi.with_md _ ⟨rfl, rfl, rfl⟩) hd ht
          simp only at hc
          obtain ⟨c1, c2, c3, c4, c5⟩ := hc
          simp only [c1, Bool.false_eq_true, if_false] at hr
          rw [hr]
          exact ⟨by simp, c2, ⟨t, Grow.refl t, Shrink.from_md _ c3⟩, c5, c4⟩
        · rw [hr]; exact ⟨by simp, hi.with_md _ ⟨rfl, rfl, rfl⟩, ⟨t, Grow.refl t, (Shrink.refl t).with_md _⟩, rfl, rfl⟩

theorem tracksTimestamp?_isSome (n : Noti) (ht : n.target ≠ "") : ∃ b, tracksTimestamp? n = some b := by
  unfold tracksTimestamp?
  split
  · rename_i u _ _
    have : updKey? n u = some (updKey n u) := by
      unfold updKey? updKey; exact joinKey?_eq _ _ ht
    rw [this]
    split
    · rename_i h; cases h
    · exact ⟨_, rfl⟩
    · exact ⟨_, rfl⟩
  · exact ⟨_, rfl⟩

/-- **Whole notification.** `Target.GnmiUpdate` of any shape on a well-formed target: no
panic, the invariant is kept, no surviving leaf's timestamp decreases. -/
theorem gnmiUpdate_ok {a b : Int} (cfg : Cfg) (now : Int) (t : Target) (n : Noti) (hi : TInvD a b t)
    (ht : n.target ≠ "") :
    let r := t.gnmiUpdate cfg now n
    r.1 ≠ .panic ∧ TInvD a b r.2.1 ∧ TsMono t r.2.1 ∧ r.2.1.name = t.name := by
  intro r
  obtain ⟨b, hb⟩ := tracksTimestamp?_isSome n ht
  obtain ⟨d1, d2, ⟨mid, d3, d4⟩, d5, _⟩ := dispatch_ok cfg now t n hi ht
  have hr : r = ((t.dispatch cfg now n).1,
      (if (t.dispatch cfg now n).2.2.2 && b then (t.dispatch cfg now n).2.1.checkTimestamp n.ts
       else (t.dispatch cfg now n).2.1), (t.dispatch cfg now n).2.2.1) := by
    show t.gnmiUpdate cfg now n = _
    unfold Target.gnmiUpdate
    rw [hb]
  rw [hr]
  simp only
  split
  · obtain ⟨f1, f2, f3⟩ := checkTimestamp_frame (t.dispatch cfg now n).2.1 n.ts
    exact ⟨d1, d2.of_tree_eq f1 f3, TsMono.of_grow_shrink d3 (d4.trans (Shrink.of_tree_eq f1)), f2.trans d5⟩
  · exact ⟨d1, d2, TsMono.of_grow_shrink d3 d4, d5⟩

end Cache
end Gnmi
