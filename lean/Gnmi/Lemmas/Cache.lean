import Gnmi.Model.Cache
/-!
Helper lemmas for the cache model: lookups in the abstract tree, the structural
invariant of a target (`TInv`), and how each ingest primitive moves them.
-/
namespace Gnmi
namespace Cache

/-! ### lookups in a `PMap` with unique keys -/

theorem lookup_some_of_mem {m : PMap Noti} {p : Path} {v : Noti}
    (hu : UniqueKeys m) (h : (p, v) ∈ m) : lookup m p = some v := by
  induction m with
  | nil => cases h
  | cons x m ih =>
    unfold UniqueKeys at hu
    simp only [List.map_cons, List.nodup_cons] at hu
    simp only [lookup, List.find?_cons]
    rcases List.mem_cons.1 h with rfl | h'
    · simp
    · have hne : x.1 ≠ p := by
        intro e
        exact hu.1 (List.mem_map.2 ⟨(p, v), h', by simp [e]⟩)
      have : (x.1 == p) = false := by simpa using hne
      simp only [this]
      exact ih hu.2 h'

theorem mem_of_lookup_some {m : PMap Noti} {p : Path} {v : Noti}
    (h : lookup m p = some v) : (p, v) ∈ m := by
  simp only [lookup, Option.map_eq_some_iff] at h
  obtain ⟨kv, hf, rfl⟩ := h
  have h1 := List.mem_of_find?_eq_some hf
  have h2 := List.find?_some hf
  have : kv.1 = p := by simpa using h2
  rw [← this]; exact h1

theorem lookup_some_iff {m : PMap Noti} {p : Path} {v : Noti} (hu : UniqueKeys m) :
    lookup m p = some v ↔ (p, v) ∈ m :=
  ⟨mem_of_lookup_some, lookup_some_of_mem hu⟩

theorem lookup_none_iff {m : PMap Noti} {p : Path} :
    lookup m p = none ↔ ∀ kv ∈ m, kv.1 ≠ p := by
  simp [lookup, List.find?_eq_none]

/-! ### `setLeaf` -/

theorem setLeaf_keys (m : PMap Noti) (p : Path) (n : Noti) :
    (setLeaf m p n).map (·.1) = m.map (·.1) := by
  induction m with
  | nil => rfl
  | cons x m ih =>
    simp only [setLeaf, List.map_cons] at ih ⊢
    rw [ih]
    by_cases h : (x.1 == p) = true <;> simp [h]

theorem setLeaf_unique {m : PMap Noti} (p : Path) (n : Noti) (hu : UniqueKeys m) :
    UniqueKeys (setLeaf m p n) := by
  unfold UniqueKeys; rw [setLeaf_keys]; exact hu

theorem mem_setLeaf {m : PMap Noti} {p : Path} {n : Noti} {x : Path × Noti} :
    x ∈ setLeaf m p n ↔ (x.1 = p ∧ x.2 = n ∧ ∃ old, (p, old) ∈ m) ∨ (x ∈ m ∧ x.1 ≠ p) := by
  simp only [setLeaf, List.mem_map]
  constructor
  · rintro ⟨kv, hkv, rfl⟩
    by_cases h : (kv.1 == p) = true
    · have hp : kv.1 = p := by simpa using h
      simp only [h, if_true]
      exact Or.inl ⟨hp, by first | rfl | trivial, kv.2, by rw [← hp]; exact hkv⟩
    · have hp : kv.1 ≠ p := by simpa using h
      simp only [h]
      exact Or.inr ⟨hkv, hp⟩
  · rintro (⟨h1, h2, old, ho⟩ | ⟨hx, hne⟩)
    · refine ⟨(p, old), ho, ?_⟩
      simp only [beq_self_eq_true, if_true]
      cases x; simp_all
    · refine ⟨x, hx, ?_⟩
      have : (x.1 == p) = false := by simpa using hne
      simp [this]

theorem lookup_setLeaf_same {m : PMap Noti} {p : Path} {n old : Noti} (hu : UniqueKeys m)
    (h : lookup m p = some old) : lookup (setLeaf m p n) p = some n := by
  rw [lookup_some_iff (setLeaf_unique p n hu)]
  exact mem_setLeaf.2 (Or.inl ⟨rfl, rfl, old, mem_of_lookup_some h⟩)

theorem lookup_setLeaf_other {m : PMap Noti} {p k : Path} {n : Noti} (hu : UniqueKeys m)
    (hne : k ≠ p) : lookup (setLeaf m p n) k = lookup m k := by
  cases h : lookup m k with
  | none =>
    rw [lookup_none_iff] at h ⊢
    intro kv hkv
    rcases mem_setLeaf.1 hkv with ⟨h1, _, _⟩ | ⟨h1, _⟩
    · rw [h1]; exact fun e => hne e.symm
    · exact h kv h1
  | some v =>
    rw [lookup_some_iff (setLeaf_unique p n hu)]
    exact mem_setLeaf.2 (Or.inr ⟨mem_of_lookup_some h, hne⟩)

/-! ### `PMap.add` -/

theorem add_eq_some {m m' : PMap Noti} {p : Path} {n : Noti} (h : PMap.add m p n = some m') :
    m' = (p, n) :: m.filter (fun kv => kv.1 != p) := by
  unfold PMap.add at h
  split at h
  · cases h
  · exact (Option.some.inj h).symm

theorem add_unique {m m' : PMap Noti} {p : Path} {n : Noti} (hu : UniqueKeys m)
    (h : PMap.add m p n = some m') : UniqueKeys m' := by
  rw [add_eq_some h]
  unfold UniqueKeys at hu ⊢
  simp only [List.map_cons, List.nodup_cons]
  refine ⟨?_, ?_⟩
  · intro hm
    obtain ⟨kv, hkv, hk⟩ := List.mem_map.1 hm
    have := (List.mem_filter.1 hkv).2
    simp only [bne_iff_ne, ne_eq] at this
    exact this hk
  · exact (List.filter_sublist.map _).nodup hu

theorem lookup_add_same {m m' : PMap Noti} {p : Path} {n : Noti}
    (h : PMap.add m p n = some m') : lookup m' p = some n := by
  rw [add_eq_some h]; simp [lookup]

theorem find_filter_ne (m : PMap Noti) {p k : Path} (hne : k ≠ p) :
    (m.filter (fun kv => kv.1 != p)).find? (fun kv => kv.1 == k) = m.find? (fun kv => kv.1 == k) := by
  induction m with
  | nil => rfl
  | cons x m ih =>
    simp only [List.filter_cons]
    by_cases hx : x.1 = p
    · have h1 : (x.1 != p) = false := by simp [hx]
      have h2 : (x.1 == k) = false := by rw [hx]; simpa using fun e => hne e.symm
      simp only [h1, List.find?_cons, h2]
      exact ih
    · have h1 : (x.1 != p) = true := by simpa using hx
      simp only [h1, if_true, List.find?_cons]
      split
      · rfl
      · exact ih

theorem lookup_add_other {m m' : PMap Noti} {p k : Path} {n : Noti}
    (h : PMap.add m p n = some m') (hne : k ≠ p) : lookup m' k = lookup m k := by
  rw [add_eq_some h]
  have h1 : ((p == k) = false) := by simpa using fun e => hne e.symm
  simp only [lookup, List.find?_cons, h1]
  rw [find_filter_ne m hne]

/-! ### `PMap.delete` -/

theorem delete_unique {m : PMap Noti} (c : Noti → Bool) (q : Path) (hu : UniqueKeys m) :
    UniqueKeys (PMap.delete c m q).1 := by
  unfold UniqueKeys at hu ⊢
  exact (List.filter_sublist.map _).nodup hu

theorem lookup_delete_some {m : PMap Noti} {c : Noti → Bool} {q k : Path} {v : Noti}
    (hu : UniqueKeys m) (h : lookup (PMap.delete c m q).1 k = some v) : lookup m k = some v := by
  rw [lookup_some_iff hu]
  have := mem_of_lookup_some h
  exact (List.mem_filter.1 this).1

theorem lookup_delete_kept {m : PMap Noti} {c : Noti → Bool} {q k : Path} {v : Noti}
    (hu : UniqueKeys m) (h : lookup m k = some v) (hk : (qmatches q k && c v) = false) :
    lookup (PMap.delete c m q).1 k = some v := by
  rw [lookup_some_iff (delete_unique c q hu)]
  exact List.mem_filter.2 ⟨mem_of_lookup_some h, by simp [hk]⟩

theorem lookup_delete_removed {m : PMap Noti} {c : Noti → Bool} {q k : Path} {v : Noti}
    (hu : UniqueKeys m) (h : lookup m k = some v) (hk : (qmatches q k && c v) = true) :
    lookup (PMap.delete c m q).1 k = none := by
  rw [lookup_none_iff]
  intro kv hkv hk'
  have hm := List.mem_filter.1 hkv
  have : kv.2 = v := by
    have h1 : lookup m kv.1 = some kv.2 := lookup_some_of_mem hu hm.1
    rw [hk', h] at h1
    exact (Option.some.inj h1).symm
  have h2 := hm.2
  rw [hk', this] at h2
  simp [hk] at h2

end Cache
end Gnmi
