import Gnmi.Model.Metadata
/-!
Lemmas about the metadata model: lookups in association lists, the effect of `ResetEntry`,
of a run of `ResetEntry` calls and of `Clear` on every lookup, and the observational
equivalence `Md.Equiv` (same answer to every lookup = same Go maps up to key order).
-/
namespace Gnmi
namespace Metadata

/-! ### association lists -/

namespace AMap
variable {α : Type}

theorem get?_erase (m : AMap α) (k k' : String) :
    (erase m k).get? k' = if k = k' then none else m.get? k' := by
  induction m with
  | nil => simp [erase, get?]
  | cons kv r ih =>
    obtain ⟨a, v⟩ := kv
    unfold erase at ih ⊢
    by_cases ha : a = k
    · subst ha
      simp only [List.filter_cons, bne_self_eq_false, Bool.false_eq_true, if_false, get?]
      rw [ih]
      by_cases h1 : a = k' <;> simp [h1]
    · have : (a != k) = true := by simp [ha]
      simp only [List.filter_cons, this, if_true, get?]
      rw [ih]
      by_cases h1 : a = k'
      · subst h1
        have : ¬ k = a := fun e => ha e.symm
        simp [this]
      · simp [h1]

theorem get?_set (m : AMap α) (k : String) (v : α) (k' : String) :
    (set m k v).get? k' = if k = k' then some v else m.get? k' := by
  unfold set
  simp only [get?]
  by_cases h : k = k'
  · simp [h]
  · simp [h, get?_erase]

theorem get?_erase_same (m : AMap α) (k : String) : (erase m k).get? k = none := by
  simp [get?_erase]

theorem get?_erase_ne (m : AMap α) {k k' : String} (h : k ≠ k') : (erase m k).get? k' = m.get? k' := by
  simp [get?_erase, h]

theorem get?_set_same (m : AMap α) (k : String) (v : α) : (set m k v).get? k = some v := by
  simp [get?_set]

theorem get?_set_ne (m : AMap α) {k k' : String} (v : α) (h : k ≠ k') : (set m k v).get? k' = m.get? k' := by
  simp [get?_set, h]

theorem mem_keys_of_get? {m : AMap α} {k : String} {v : α} (h : m.get? k = some v) : k ∈ m.keys := by
  induction m with
  | nil => simp [get?] at h
  | cons kv r ih =>
    obtain ⟨a, w⟩ := kv
    simp only [get?] at h
    by_cases ha : a = k
    · subst ha; simp [keys]
    · simp only [ha, if_false] at h
      have := ih h
      simp only [keys, List.map_cons, List.mem_cons] at this ⊢
      exact Or.inr this

theorem get?_eq_none_of_not_mem {m : AMap α} {k : String} (h : k ∉ m.keys) : m.get? k = none := by
  cases hg : m.get? k with
  | none => rfl
  | some v => exact absurd (mem_keys_of_get? hg) h

/-- keys stay unique under `set` -/
theorem keys_set_nodup (m : AMap α) (k : String) (v : α) (h : m.keys.Nodup) : (set m k v).keys.Nodup := by
  unfold set keys erase at *
  simp only [List.map_cons, List.nodup_cons, List.mem_map, List.mem_filter, not_exists, not_and]
  refine ⟨?_, ?_⟩
  · intro x hx he
    have := hx.2
    simp [he] at this
  · exact (List.filter_sublist.map _).nodup h

end AMap

/-! ### validity -/

theorem validBool_none {r : Registry} {k : String} : validBool r k = none ↔ r.boolVal k = true := by
  unfold validBool; split <;> simp_all

theorem validInt_none {r : Registry} {k : String} : validInt r k = none ↔ (r.intVal? k).isSome = true := by
  unfold validInt; split <;> simp_all

theorem validStr_none {r : Registry} {k : String} : validStr r k = none ↔ (r.strVal? k).isSome = true := by
  unfold validStr; split <;> simp_all

theorem Registry.mem_bools_of_boolVal {r : Registry} {k : String} (h : r.boolVal k = true) : k ∈ r.bools.keys := by
  unfold Registry.boolVal at h
  cases hg : r.bools.get? k with
  | none => simp [hg] at h
  | some v => exact AMap.mem_keys_of_get? hg

theorem Registry.mem_ints_of_intVal {r : Registry} {k : String} {v : IntValue} (h : r.intVal? k = some v) :
    k ∈ r.ints.keys := by
  unfold Registry.intVal? at h
  cases hg : r.ints.get? k with
  | none => simp [hg] at h
  | some v => exact AMap.mem_keys_of_get? hg

theorem Registry.mem_strs_of_strVal {r : Registry} {k : String} {v : StrValue} (h : r.strVal? k = some v) :
    k ∈ r.strs.keys := by
  unfold Registry.strVal? at h
  cases hg : r.strs.get? k with
  | none => simp [hg] at h
  | some v => exact AMap.mem_keys_of_get? hg

/-! ### what a reset does to one lookup -/

/-- the bool stored under `k` after `ResetEntry(k)` -/
def rb (r : Registry) (k : String) (old : Option Bool) : Option Bool :=
  if r.boolVal k then some false else old

/-- the int stored under `k` after `ResetEntry(k)` -/
def ri (r : Registry) (k : String) (old : Option Int64) : Option Int64 :=
  if r.boolVal k then old
  else
    match r.intVal? k with
    | some v => if v.initZero then some 0 else none
    | none => old

/-- what a string reset action does to a stored string -/
def actStr (a : ResetAction) (old : Option String) : Option String :=
  match a with
  | .defaultValue => some ""
  | .delete => none
  | _ => old

/-- the string stored under `k` after `ResetEntry(k)` -/
def rs (r : Registry) (k : String) (old : Option String) : Option String :=
  if r.boolVal k then old
  else
    match r.intVal? k with
    | some _ => old
    | none =>
      match r.strVal? k with
      | some sv => actStr sv.resetAction old
      | none => old

theorem rb_idem (r : Registry) (k : String) (o : Option Bool) : rb r k (rb r k o) = rb r k o := by
  unfold rb; split <;> rfl

theorem ri_idem (r : Registry) (k : String) (o : Option Int64) : ri r k (ri r k o) = ri r k o := by
  unfold ri; split
  · rfl
  · split <;> rfl

theorem actStr_idem (a : ResetAction) (o : Option String) : actStr a (actStr a o) = actStr a o := by
  cases a <;> rfl

theorem rs_idem (r : Registry) (k : String) (o : Option String) : rs r k (rs r k o) = rs r k o := by
  unfold rs; split
  · rfl
  · split
    · rfl
    · split
      · exact actStr_idem _ _
      · rfl

theorem resetEntry_bools (r : Registry) (m : Md) (e k : String) :
    (m.resetEntry r e).1.bools.get? k = if e = k then rb r k (m.bools.get? k) else m.bools.get? k := by
  unfold Md.resetEntry
  by_cases hb : r.boolVal e = true
  · have hv : validBool r e = none := validBool_none.mpr hb
    simp only [hv, if_true, Md.setBool, AMap.get?_set]
    by_cases h : e = k
    · subst h; simp [rb, hb]
    · simp [h]
  · have hv : ¬ validBool r e = none := fun h => hb (validBool_none.mp h)
    have hrb : ∀ o, rb r e o = o := by intro o; simp [rb, hb]
    simp only [hv, if_false]
    have keep : ∀ (x : Md × Option Err), x.1.bools = m.bools →
        x.1.bools.get? k = if e = k then rb r k (m.bools.get? k) else m.bools.get? k := by
      intro x hx
      rw [hx]
      by_cases h : e = k
      · subst h; simp [hrb]
      · simp [h]
    apply keep
    split
    · split
      · split
        · simp only [Md.setInt]; split <;> rfl
        · rfl
      · rfl
    · split
      · split
        · split
          · simp only [Md.setStr]; split <;> rfl
          · split <;> rfl
        · rfl
      · rfl

theorem resetEntry_ints (r : Registry) (m : Md) (e k : String) :
    (m.resetEntry r e).1.ints.get? k = if e = k then ri r k (m.ints.get? k) else m.ints.get? k := by
  unfold Md.resetEntry
  by_cases hb : r.boolVal e = true
  · have hv : validBool r e = none := validBool_none.mpr hb
    simp only [hv, if_true, Md.setBool]
    by_cases h : e = k
    · subst h; simp [ri, hb]
    · simp [h]
  · have hv : ¬ validBool r e = none := fun h => hb (validBool_none.mp h)
    simp only [hv, if_false]
    cases hi : r.intVal? e with
    | some v =>
      have hvi : validInt r e = none := validInt_none.mpr (by simp [hi])
      simp only [hvi, if_true]
      by_cases hz : v.initZero = true
      · simp only [hz, if_true, Md.setInt, hvi, AMap.get?_set]
        by_cases h : e = k
        · subst h; simp [ri, hb, hi, hz]
        · simp [h]
      · simp only [hz]
        by_cases h : e = k
        · subst h; simp [ri, hb, hi, hz, AMap.get?_erase]
        · simp [h, AMap.get?_erase]
    | none =>
      have hvi : ¬ validInt r e = none := fun h => by
        have := validInt_none.mp h; simp [hi] at this
      have hri : ∀ o, ri r e o = o := by intro o; simp [ri, hb, hi]
      simp only [hvi, if_false]
      have keep : ∀ (x : Md × Option Err), x.1.ints = m.ints →
          x.1.ints.get? k = if e = k then ri r k (m.ints.get? k) else m.ints.get? k := by
        intro x hx
        rw [hx]
        by_cases h : e = k
        · subst h; simp [hri]
        · simp [h]
      apply keep
      split
      · split
        · split
          · simp only [Md.setStr]; split <;> rfl
          · split <;> rfl
        · rfl
      · rfl

theorem resetEntry_strs (r : Registry) (m : Md) (e k : String) :
    (m.resetEntry r e).1.strs.get? k = if e = k then rs r k (m.strs.get? k) else m.strs.get? k := by
  unfold Md.resetEntry
  by_cases hb : r.boolVal e = true
  · have hv : validBool r e = none := validBool_none.mpr hb
    simp only [hv, if_true, Md.setBool]
    by_cases h : e = k
    · subst h; simp [rs, hb]
    · simp [h]
  · have hv : ¬ validBool r e = none := fun h => hb (validBool_none.mp h)
    simp only [hv, if_false]
    cases hi : r.intVal? e with
    | some v =>
      have hvi : validInt r e = none := validInt_none.mpr (by simp [hi])
      have hrs : ∀ o, rs r e o = o := by intro o; simp [rs, hb, hi]
      simp only [hvi, if_true]
      have keep : ∀ (x : Md × Option Err), x.1.strs = m.strs →
          x.1.strs.get? k = if e = k then rs r k (m.strs.get? k) else m.strs.get? k := by
        intro x hx
        rw [hx]
        by_cases h : e = k
        · subst h; simp [hrs]
        · simp [h]
      apply keep
      split
      · simp only [Md.setInt]; split <;> rfl
      · rfl
    | none =>
      have hvi : ¬ validInt r e = none := fun h => by
        have := validInt_none.mp h; simp [hi] at this
      simp only [hvi, if_false]
      cases hs : r.strVal? e with
      | some sv =>
        have hvs : validStr r e = none := validStr_none.mpr (by simp [hs])
        simp only [hvs, if_true]
        by_cases hd : sv.resetAction = .defaultValue
        · simp only [hd, if_true, Md.setStr, hvs, AMap.get?_set]
          by_cases h : e = k
          · subst h; simp [rs, hb, hi, hs, hd, actStr]
          · simp [h]
        · simp only [hd, if_false]
          by_cases hx : sv.resetAction = .delete
          · simp only [hx, if_true, AMap.get?_erase]
            by_cases h : e = k
            · subst h; simp [rs, hb, hi, hs, hx, actStr]
            · simp [h]
          · simp only [hx, if_false]
            by_cases h : e = k
            · subst h
              have : actStr sv.resetAction (m.strs.get? e) = m.strs.get? e := by
                cases ha : sv.resetAction <;> simp_all [actStr]
              simp [rs, hb, hi, hs, this]
            · simp [h]
      | none =>
        have hvs : ¬ validStr r e = none := fun h => by
          have := validStr_none.mp h; simp [hs] at this
        simp only [hvs, if_false]
        by_cases h : e = k
        · subst h; simp [rs, hb, hi, hs]
        · simp [h]

/-- `ResetEntry` of a name that is valid under no kind: an error, nothing changes -/
theorem resetEntry_unsupported (r : Registry) (m : Md) (e : String)
    (hb : r.boolVal e = false) (hi : r.intVal? e = none) (hs : r.strVal? e = none) :
    m.resetEntry r e = (m, some .unsupported) := by
  unfold Md.resetEntry
  have h1 : ¬ validBool r e = none := fun h => by have := validBool_none.mp h; simp [hb] at this
  have h2 : ¬ validInt r e = none := fun h => by have := validInt_none.mp h; simp [hi] at this
  have h3 : ¬ validStr r e = none := fun h => by have := validStr_none.mp h; simp [hs] at this
  simp [h1, h2, h3]

/-- `ResetEntry` of a name valid under some kind returns nil -/
theorem resetEntry_ok (r : Registry) (m : Md) (e : String)
    (h : r.boolVal e = true ∨ (r.intVal? e).isSome = true ∨ (r.strVal? e).isSome = true) :
    (m.resetEntry r e).2 = none := by
  unfold Md.resetEntry
  split
  · rfl
  · split
    · split
      · split <;> rfl
      · rfl
    · split
      · split
        · split
          · rfl
          · split <;> rfl
        · rfl
      · rename_i h1 h2 h3
        rcases h with h | h | h
        · exact absurd (validBool_none.mpr h) h1
        · exact absurd (validInt_none.mpr h) h2
        · exact absurd (validStr_none.mpr h) h3

/-! ### a run of `ResetEntry` calls -/

theorem resetAll_nil (r : Registry) (m : Md) : m.resetAll r [] = m := rfl

theorem resetAll_cons (r : Registry) (m : Md) (e : String) (ks : List String) :
    m.resetAll r (e :: ks) = ((m.resetEntry r e).1).resetAll r ks := rfl

theorem resetAll_append (r : Registry) (m : Md) (a b : List String) :
    m.resetAll r (a ++ b) = (m.resetAll r a).resetAll r b := by
  simp [Md.resetAll, List.foldl_append]

theorem resetAll_bools (r : Registry) (ks : List String) : ∀ (m : Md) (k : String),
    (m.resetAll r ks).bools.get? k = if k ∈ ks then rb r k (m.bools.get? k) else m.bools.get? k := by
  induction ks with
  | nil => intro m k; simp [resetAll_nil]
  | cons e ks ih =>
    intro m k
    rw [resetAll_cons, ih, resetEntry_bools]
    by_cases h1 : e = k
    · subst h1
      by_cases h2 : e ∈ ks <;> simp [h2, rb_idem]
    · have : ¬ k = e := fun x => h1 x.symm
      simp [h1, this]

theorem resetAll_ints (r : Registry) (ks : List String) : ∀ (m : Md) (k : String),
    (m.resetAll r ks).ints.get? k = if k ∈ ks then ri r k (m.ints.get? k) else m.ints.get? k := by
  induction ks with
  | nil => intro m k; simp [resetAll_nil]
  | cons e ks ih =>
    intro m k
    rw [resetAll_cons, ih, resetEntry_ints]
    by_cases h1 : e = k
    · subst h1
      by_cases h2 : e ∈ ks <;> simp [h2, ri_idem]
    · have : ¬ k = e := fun x => h1 x.symm
      simp [h1, this]

theorem resetAll_strs (r : Registry) (ks : List String) : ∀ (m : Md) (k : String),
    (m.resetAll r ks).strs.get? k = if k ∈ ks then rs r k (m.strs.get? k) else m.strs.get? k := by
  induction ks with
  | nil => intro m k; simp [resetAll_nil]
  | cons e ks ih =>
    intro m k
    rw [resetAll_cons, ih, resetEntry_strs]
    by_cases h1 : e = k
    · subst h1
      by_cases h2 : e ∈ ks <;> simp [h2, rs_idem]
    · have : ¬ k = e := fun x => h1 x.symm
      simp [h1, this]

/-- every key of the three registries -/
def Registry.allKeys (r : Registry) : List String := r.bools.keys ++ r.ints.keys ++ r.strs.keys

theorem clear_eq_resetAll (r : Registry) (m : Md) : m.clear r = m.resetAll r r.allKeys := by
  simp [Md.clear, Registry.allKeys, resetAll_append]

theorem rb_of_not_mem {r : Registry} {k : String} (h : k ∉ r.allKeys) (o : Option Bool) : rb r k o = o := by
  unfold rb
  split
  · rename_i hb
    exact absurd (by simp [Registry.allKeys, Registry.mem_bools_of_boolVal hb]) h
  · rfl

theorem ri_of_not_mem {r : Registry} {k : String} (h : k ∉ r.allKeys) (o : Option Int64) : ri r k o = o := by
  unfold ri
  split
  · rfl
  · split
    · rename_i v hi
      exact absurd (by simp [Registry.allKeys, Registry.mem_ints_of_intVal hi]) h
    · rfl

theorem rs_of_not_mem {r : Registry} {k : String} (h : k ∉ r.allKeys) (o : Option String) : rs r k o = o := by
  unfold rs
  split
  · rfl
  · split
    · rfl
    · split
      · rename_i sv hs
        exact absurd (by simp [Registry.allKeys, Registry.mem_strs_of_strVal hs]) h
      · rfl

/-- resetting (at least) every registered key, in any order and with any repetitions -/
theorem resetAll_cover_bools (r : Registry) (ks : List String) (hc : ∀ k, k ∈ r.allKeys → k ∈ ks) (m : Md)
    (k : String) : (m.resetAll r ks).bools.get? k = rb r k (m.bools.get? k) := by
  rw [resetAll_bools]
  split
  · rfl
  · rename_i h
    exact (rb_of_not_mem (fun hk => h (hc k hk)) _).symm

theorem resetAll_cover_ints (r : Registry) (ks : List String) (hc : ∀ k, k ∈ r.allKeys → k ∈ ks) (m : Md)
    (k : String) : (m.resetAll r ks).ints.get? k = ri r k (m.ints.get? k) := by
  rw [resetAll_ints]
  split
  · rfl
  · rename_i h
    exact (ri_of_not_mem (fun hk => h (hc k hk)) _).symm

theorem resetAll_cover_strs (r : Registry) (ks : List String) (hc : ∀ k, k ∈ r.allKeys → k ∈ ks) (m : Md)
    (k : String) : (m.resetAll r ks).strs.get? k = rs r k (m.strs.get? k) := by
  rw [resetAll_strs]
  split
  · rfl
  · rename_i h
    exact (rs_of_not_mem (fun hk => h (hc k hk)) _).symm

/-! ### `Clear`, lookup by lookup -/

theorem clear_bools (r : Registry) (m : Md) (k : String) :
    (m.clear r).bools.get? k = rb r k (m.bools.get? k) := by
  rw [clear_eq_resetAll]; exact resetAll_cover_bools r _ (fun _ h => h) m k

theorem clear_ints (r : Registry) (m : Md) (k : String) :
    (m.clear r).ints.get? k = ri r k (m.ints.get? k) := by
  rw [clear_eq_resetAll]; exact resetAll_cover_ints r _ (fun _ h => h) m k

theorem clear_strs (r : Registry) (m : Md) (k : String) :
    (m.clear r).strs.get? k = rs r k (m.strs.get? k) := by
  rw [clear_eq_resetAll]; exact resetAll_cover_strs r _ (fun _ h => h) m k

theorem new_bools (r : Registry) (k : String) : (Md.new r).bools.get? k = rb r k none := by
  unfold Md.new; rw [clear_bools]; rfl

theorem new_ints (r : Registry) (k : String) : (Md.new r).ints.get? k = ri r k none := by
  unfold Md.new; rw [clear_ints]; rfl

theorem new_strs (r : Registry) (k : String) : (Md.new r).strs.get? k = rs r k none := by
  unfold Md.new; rw [clear_strs]; rfl

/-! ### observational equivalence (Go maps up to key order) -/

/-- the two objects answer every lookup alike -/
structure Md.Equiv (a b : Md) : Prop where
  ints : ∀ k, a.ints.get? k = b.ints.get? k
  bools : ∀ k, a.bools.get? k = b.bools.get? k
  strs : ∀ k, a.strs.get? k = b.strs.get? k

theorem Md.Equiv.refl (a : Md) : Md.Equiv a a := ⟨fun _ => rfl, fun _ => rfl, fun _ => rfl⟩

theorem Md.Equiv.symm {a b : Md} (h : Md.Equiv a b) : Md.Equiv b a :=
  ⟨fun k => (h.ints k).symm, fun k => (h.bools k).symm, fun k => (h.strs k).symm⟩

theorem Md.Equiv.trans {a b c : Md} (h1 : Md.Equiv a b) (h2 : Md.Equiv b c) : Md.Equiv a c :=
  ⟨fun k => (h1.ints k).trans (h2.ints k), fun k => (h1.bools k).trans (h2.bools k),
   fun k => (h1.strs k).trans (h2.strs k)⟩

theorem Md.Equiv.getInt {a b : Md} (h : Md.Equiv a b) (r : Registry) (k : String) :
    a.getInt r k = b.getInt r k := by
  unfold Md.getInt; rw [h.ints k]

theorem Md.Equiv.getBool {a b : Md} (h : Md.Equiv a b) (r : Registry) (k : String) :
    a.getBool r k = b.getBool r k := by
  unfold Md.getBool; rw [h.bools k]

theorem Md.Equiv.getStr {a b : Md} (h : Md.Equiv a b) (r : Registry) (k : String) :
    a.getStr r k = b.getStr r k := by
  unfold Md.getStr; rw [h.strs k]

theorem Md.Equiv.addInt {a b : Md} (h : Md.Equiv a b) (r : Registry) (n : String) (i : Int64) :
    Md.Equiv (a.addInt r n i).1 (b.addInt r n i).1 ∧ (a.addInt r n i).2 = (b.addInt r n i).2 := by
  unfold Md.addInt
  split
  · exact ⟨h, rfl⟩
  · exact ⟨⟨fun k => by simp only [AMap.get?_set, h.ints n, h.ints k], h.bools, h.strs⟩, rfl⟩

theorem Md.Equiv.setInt {a b : Md} (h : Md.Equiv a b) (r : Registry) (n : String) (v : Int64) :
    Md.Equiv (a.setInt r n v).1 (b.setInt r n v).1 ∧ (a.setInt r n v).2 = (b.setInt r n v).2 := by
  unfold Md.setInt
  split
  · exact ⟨h, rfl⟩
  · exact ⟨⟨fun k => by simp only [AMap.get?_set, h.ints k], h.bools, h.strs⟩, rfl⟩

theorem Md.Equiv.setBool {a b : Md} (h : Md.Equiv a b) (r : Registry) (n : String) (v : Bool) :
    Md.Equiv (a.setBool r n v).1 (b.setBool r n v).1 ∧ (a.setBool r n v).2 = (b.setBool r n v).2 := by
  unfold Md.setBool
  split
  · exact ⟨h, rfl⟩
  · exact ⟨⟨h.ints, fun k => by simp only [AMap.get?_set, h.bools k], h.strs⟩, rfl⟩

theorem Md.Equiv.setStr {a b : Md} (h : Md.Equiv a b) (r : Registry) (n v : String) :
    Md.Equiv (a.setStr r n v).1 (b.setStr r n v).1 ∧ (a.setStr r n v).2 = (b.setStr r n v).2 := by
  unfold Md.setStr
  split
  · exact ⟨h, rfl⟩
  · exact ⟨⟨h.ints, h.bools, fun k => by simp only [AMap.get?_set, h.strs k]⟩, rfl⟩

/-- the returned error of `ResetEntry` depends on the registries only -/
theorem resetEntry_err (r : Registry) (a b : Md) (e : String) : (a.resetEntry r e).2 = (b.resetEntry r e).2 := by
  by_cases h : r.boolVal e = true ∨ (r.intVal? e).isSome = true ∨ (r.strVal? e).isSome = true
  · rw [resetEntry_ok r a e h, resetEntry_ok r b e h]
  · have hb : r.boolVal e = false := by
      cases hx : r.boolVal e with
      | false => rfl
      | true => exact absurd (Or.inl hx) h
    have hi : r.intVal? e = none := by
      cases hx : r.intVal? e with
      | none => rfl
      | some v => exact absurd (Or.inr (Or.inl (by simp [hx]))) h
    have hs : r.strVal? e = none := by
      cases hx : r.strVal? e with
      | none => rfl
      | some v => exact absurd (Or.inr (Or.inr (by simp [hx]))) h
    rw [resetEntry_unsupported r a e hb hi hs, resetEntry_unsupported r b e hb hi hs]

theorem Md.Equiv.resetEntry {a b : Md} (h : Md.Equiv a b) (r : Registry) (e : String) :
    Md.Equiv (a.resetEntry r e).1 (b.resetEntry r e).1 ∧ (a.resetEntry r e).2 = (b.resetEntry r e).2 :=
  ⟨⟨fun k => by rw [resetEntry_ints, resetEntry_ints, h.ints k],
    fun k => by rw [resetEntry_bools, resetEntry_bools, h.bools k],
    fun k => by rw [resetEntry_strs, resetEntry_strs, h.strs k]⟩, resetEntry_err r a b e⟩

theorem Md.Equiv.clear {a b : Md} (h : Md.Equiv a b) (r : Registry) : Md.Equiv (a.clear r) (b.clear r) :=
  ⟨fun k => by rw [clear_ints, clear_ints, h.ints k],
   fun k => by rw [clear_bools, clear_bools, h.bools k],
   fun k => by rw [clear_strs, clear_strs, h.strs k]⟩

end Metadata
end Gnmi
