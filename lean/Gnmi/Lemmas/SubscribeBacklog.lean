import Gnmi.Lemmas.SubscribeGate
/-!
# The backlog of a stalled STREAM subscriber (sequential Subscribe model)

Lemmas for `Props/C08Seq.lean` (property C08 over the code-shaped model):

* `hkeys`, `hkeys_nodup`: the handle entries of a queue satisfying the queue invariant (`QInv.pw`,
  `QInv.items`) are for pairwise distinct leaves; `cacheLeaves`: the leaves a cache holds.
* `CoverSafe`: no handle is queued before a delete item covering its key — a purely structural
  invariant of `qstep`/`refreshQueue`/`pump` (implied by `Pairwise noAff`), under which
  `insertHandle` is "coalesce with the entry of the leaf, else append" for every key.
* `qfold_entries`: the entries for one leaf after the event loop of one `feed`: each offered update
  of the leaf either creates the entry (count 0) or bumps its count (`bump`); `bump_fold_nil`,
  `bump_fold_one`: `k` offers give count `k - 1` resp. `d + k`.
* `skel`/`refreshQueue_skel`: `refreshQueue` changes nothing but the notification a handle shows.
* `feedSub_blocked`: a subscriber holding a response in a gated `Send` only has its queue changed.
* `gateF_open_out`: when flow control opens, exactly `pend s` has been sent.
* `subscribe_append`, `gstep_at`: every operation acts on each subscriber separately, as a function of
  the cache and that subscriber alone (`subStep`); `AgreeL`: states that differ only in subscriber `id`.
* `hkeys_subStep`: the handle keys of a queue only grow by the keys of offered update events.
-/
namespace Gnmi
namespace SubBacklog
open Cache Gnmi.Sub Feed SubStream SubGate

/-! ## handle entries and their leaves -/

/-- the queue entry is a handle of a cache leaf (`*ctree.Leaf` still attached to the tree) -/
def isHandleItem : Item → Bool
  | .handle .. => true
  | _ => false

/-- the entry is a delete item -/
def isNoteItem : Item → Bool
  | .note _ => true
  | _ => false

/-- the leaf (target, key) a handle entry is for -/
def hkey : Item → Option (String × Path)
  | .handle t k _ => some (t, k)
  | _ => none

/-- the leaves of the handle entries of a queue, in queue order -/
def hkeys (q : List (Item × Nat)) : List (String × Path) := q.filterMap (fun x => hkey x.1)

theorem hkeys_cons (x : Item × Nat) (q : List (Item × Nat)) :
    hkeys (x :: q) = (match hkey x.1 with
      | some p => p :: hkeys q
      | none => hkeys q) := by
  unfold hkeys
  rw [List.filterMap_cons]
  cases hkey x.1 <;> rfl

theorem mem_hkeys {q : List (Item × Nat)} {t : String} {k : Path} :
    (t, k) ∈ hkeys q ↔ ∃ n d, (Item.handle t k n, d) ∈ q := by
  unfold hkeys
  rw [List.mem_filterMap]
  constructor
  · rintro ⟨⟨it, d⟩, hx, he⟩
    cases it with
    | handle t' k' n =>
      simp only [hkey, Option.some.injEq, Prod.mk.injEq] at he
      obtain ⟨rfl, rfl⟩ := he
      exact ⟨n, d, hx⟩
    | detached => cases he
    | note => cases he
    | sync => cases he
  · rintro ⟨n, d, hx⟩
    exact ⟨_, hx, rfl⟩

theorem hkeys_length (q : List (Item × Nat)) :
    (hkeys q).length = (q.filter (fun x => isHandleItem x.1)).length := by
  induction q with
  | nil => rfl
  | cons x q ih =>
    obtain ⟨it, d⟩ := x
    rw [hkeys_cons]
    cases it <;> simp [hkey, isHandleItem, ih]

theorem hkeys_append (a b : List (Item × Nat)) : hkeys (a ++ b) = hkeys a ++ hkeys b := by
  unfold hkeys
  rw [List.filterMap_append]

/-- **no two handle entries for one leaf**: under the queue invariant (a handle is not touched by
anything queued behind it; a handle's notification is the one of its leaf) -/
theorem hkeys_nodup {T : String} {V : Views} : ∀ {Q : List (Item × Nat)}, Q.Pairwise noAff →
    (∀ x ∈ Q, itemOK T V x.1) → (hkeys Q).Nodup
  | [], _, _ => List.nodup_nil
  | (it, d) :: rest, hpw, hit => by
    rw [List.pairwise_cons] at hpw
    have ih := hkeys_nodup hpw.2 (fun x hx => hit x (List.mem_cons_of_mem _ hx))
    rw [hkeys_cons]
    cases it with
    | handle t k n =>
      simp only [hkey]
      rw [List.nodup_cons]
      refine ⟨?_, ih⟩
      intro hmem
      obtain ⟨m, dm, hm⟩ := mem_hkeys.1 hmem
      have h1 : touches (t :: k) (toResp (Item.handle t k m, dm)) = false := hpw.1 _ hm
      have hok := hit _ (List.mem_cons_of_mem _ hm)
      have hk : respKey m = t :: k := by rw [respKey_eq, hok.1, hok.2.1]
      simp only [toResp, touches, hk] at h1
      rw [List.isPrefixOf_iff_prefix.2 (List.prefix_refl _)] at h1
      cases h1
    | detached t k n => exact ih
    | note e => exact ih
    | sync => exact ih

/-- the leaves (target, key) a cache holds -/
def cacheLeaves (c : Cache.State) : List (String × Path) :=
  c.targets.flatMap (fun tt => tt.2.tree.map (fun kv => (tt.1, kv.1)))

theorem mem_cacheLeaves {c : Cache.State} {t : String} {k : Path}
    (h : (lookup (treesOf c t) k).isSome = true) : (t, k) ∈ cacheLeaves c := by
  rw [lookup_treesOf] at h
  cases hg : c.get t with
  | none => rw [hg] at h; cases h
  | some tg =>
    rw [hg] at h
    simp only [Option.bind_some] at h
    cases hl : lookup tg.tree k with
    | none => rw [hl] at h; cases h
    | some n =>
      unfold Cache.State.get at hg
      cases hf : c.targets.find? (fun kv => kv.1 == t) with
      | none => rw [hf] at hg; cases hg
      | some tt =>
        rw [hf] at hg
        simp only [Option.map_some, Option.some.injEq] at hg
        have hmem := List.mem_of_find?_eq_some hf
        have hname : tt.1 = t := by simpa using List.find?_some hf
        unfold cacheLeaves
        rw [List.mem_flatMap]
        refine ⟨tt, hmem, ?_⟩
        rw [List.mem_map]
        refine ⟨(k, n), ?_, by rw [hname]⟩
        rw [hg]
        exact mem_of_lookup_some hl

/-! ## `CoverSafe`: no handle before a delete item covering its key -/

/-- `y` (queued behind `x`) is not a delete item covering the leaf of the handle `x` -/
def cvr (x y : Item × Nat) : Prop :=
  ∀ t k n e, x.1 = Item.handle t k n → y.1 = Item.note e → coversKey e t k = false

/-- no handle is queued before a delete item covering its key (a delete detaches the handles it
covers before it is queued: `freezeCovered`) -/
def CoverSafe (q : List (Item × Nat)) : Prop := q.Pairwise cvr

theorem coverSafe_nil : CoverSafe [] := List.Pairwise.nil

theorem coverSafe_noHandleBeforeCover {q : List (Item × Nat)} (h : CoverSafe q) (t : String) (k : Path) :
    NoHandleBeforeCover q t k := by
  intro a e d b hq hc x hx
  cases hh : isHandleFor t k x.1 with
  | false => rfl
  | true =>
    exfalso
    obtain ⟨m, hm⟩ := isHandleFor_elim hh
    unfold CoverSafe at h
    rw [hq] at h
    have := (List.pairwise_append.1 h).2.2 x hx (Item.note e, d) (List.mem_cons_self ..) t k m e hm rfl
    rw [this] at hc
    cases hc

/-- the queue invariant of `SubscribeStream` implies `CoverSafe` -/
theorem coverSafe_of_pw {Q : List (Item × Nat)} (hpw : Q.Pairwise noAff) : CoverSafe Q := by
  refine List.Pairwise.imp ?_ hpw
  intro x y hxy t k n e hx hy
  obtain ⟨itx, dx⟩ := x
  obtain ⟨ity, dy⟩ := y
  simp only at hx hy
  subst hx hy
  cases e with
  | upd m => rfl
  | del te o p ts => exact hxy

theorem frz_handle {e : Event} {x : Item × Nat} {t : String} {k : Path} {n : Noti}
    (h : (frz e x).1 = Item.handle t k n) : x.1 = Item.handle t k n ∧ coversKey e t k = false ∧ frz e x = x := by
  rcases frz_cases e x with ⟨h1, h2⟩ | ⟨t', k', m, _, _, h3⟩
  · rw [h1] at h
    exact ⟨h, h2 t k n h, h1⟩
  · rw [h3] at h
    cases h

theorem frz_note {e : Event} {x : Item × Nat} {e' : Event} (h : (frz e x).1 = Item.note e') :
    x.1 = Item.note e' := by
  rcases frz_cases e x with ⟨h1, _⟩ | ⟨t', k', m, _, _, h3⟩
  · rw [h1] at h
    exact h
  · rw [h3] at h
    cases h

theorem coverSafe_frz (e : Event) {q : List (Item × Nat)} (h : CoverSafe q) : CoverSafe (q.map (frz e)) := by
  unfold CoverSafe
  rw [List.pairwise_map]
  refine List.Pairwise.imp ?_ h
  intro x y hxy t k n e' hx hy
  exact hxy t k n e' (frz_handle hx).1 (frz_note hy)

/-- the coalescing map of `insertHandle` -/
def co (t : String) (k : Path) (n : Noti) (x : Item × Nat) : Item × Nat :=
  if isHandleFor t k x.1 then (Item.handle t k n, x.2 + 1) else x

theorem co_handle {t : String} {k : Path} {n : Noti} {x : Item × Nat} {t' : String} {k' : Path} {n' : Noti}
    (h : (co t k n x).1 = Item.handle t' k' n') : ∃ m, x.1 = Item.handle t' k' m := by
  unfold co at h
  split at h
  · rename_i hh
    obtain ⟨m, hm⟩ := isHandleFor_elim hh
    simp only [Item.handle.injEq] at h
    obtain ⟨rfl, rfl, _⟩ := h
    exact ⟨m, hm⟩
  · exact ⟨n', h⟩

theorem co_note {t : String} {k : Path} {n : Noti} {x : Item × Nat} {e : Event}
    (h : (co t k n x).1 = Item.note e) : x.1 = Item.note e := by
  unfold co at h
  split at h
  · cases h
  · exact h

theorem insertHandle_safe {q : List (Item × Nat)} (h : CoverSafe q) (t : String) (k : Path) (n : Noti) :
    insertHandle q t k n =
      (if q.any (fun x => isHandleFor t k x.1) then q.map (co t k n) else q ++ [(Item.handle t k n, 0)]) :=
  insertHandle_eq q t k n (coverSafe_noHandleBeforeCover h t k)

theorem coverSafe_insertHandle {q : List (Item × Nat)} (h : CoverSafe q) (t : String) (k : Path) (n : Noti) :
    CoverSafe (insertHandle q t k n) := by
  rw [insertHandle_safe h]
  split
  · unfold CoverSafe
    rw [List.pairwise_map]
    refine List.Pairwise.imp ?_ h
    intro x y hxy t' k' n' e hx hy
    obtain ⟨m, hm⟩ := co_handle hx
    exact hxy t' k' m e hm (co_note hy)
  · unfold CoverSafe
    rw [List.pairwise_append]
    refine ⟨h, List.pairwise_singleton _ _, ?_⟩
    intro a _ b hb t' k' n' e _ hy
    simp only [List.mem_singleton] at hb
    rw [hb] at hy
    cases hy

/-- **`CoverSafe` is kept by every event of a feed**, offered or not -/
theorem coverSafe_qstep (regs : List Path) {q : List (Item × Nat)} (e : Event) (h : CoverSafe q) :
    CoverSafe (qstep regs q e) := by
  unfold qstep
  rw [freezeCovered_eq]
  have hf := coverSafe_frz e h
  split
  · cases e with
    | upd n => exact coverSafe_insertHandle hf _ _ _
    | del te o p ts =>
      simp only
      unfold CoverSafe
      rw [List.pairwise_append]
      refine ⟨hf, List.pairwise_singleton _ _, ?_⟩
      intro a ha b hb t k n e' hx hy
      simp only [List.mem_singleton] at hb
      rw [hb] at hy
      simp only [Item.note.injEq] at hy
      subst hy
      obtain ⟨x, _, rfl⟩ := List.mem_map.1 ha
      exact (frz_handle hx).2.1
  · exact hf

theorem coverSafe_qfold (regs : List Path) : ∀ (evs : List Event) {q : List (Item × Nat)}, CoverSafe q →
    CoverSafe (evs.foldl (qstep regs) q)
  | [], _, h => h
  | e :: evs, _, h => coverSafe_qfold regs evs (coverSafe_qstep regs e h)

theorem coverSafe_suffix {a b : List (Item × Nat)} (h : CoverSafe (a ++ b)) : CoverSafe b :=
  (List.pairwise_append.1 h).2.1

/-! ## the entries for one leaf, and their duplicate counts -/

/-- the entry is a handle of the leaf `(t, k)` -/
def isFor (t : String) (k : Path) (x : Item × Nat) : Bool := isHandleFor t k x.1

/-- the handle entries of the queue for the leaf `(t, k)` -/
def entriesFor (t : String) (k : Path) (q : List (Item × Nat)) : List (Item × Nat) := q.filter (isFor t k)

/-- the duplicate counts of the entries for the leaf -/
def dupsFor (t : String) (k : Path) (q : List (Item × Nat)) : List Nat := (entriesFor t k q).map (·.2)

theorem filter_map_fix {α : Type} (p : α → Bool) (g : α → α) (h1 : ∀ x, p (g x) = p x)
    (h2 : ∀ x, p x = true → g x = x) : ∀ (q : List α), (q.map g).filter p = q.filter p
  | [] => rfl
  | x :: q => by
    rw [List.map_cons]
    by_cases hp : p x = true
    · rw [List.filter_cons_of_pos (by rw [h1]; exact hp), List.filter_cons_of_pos hp, h2 x hp,
        filter_map_fix p g h1 h2 q]
    · rw [List.filter_cons_of_neg (by rw [h1]; exact hp), List.filter_cons_of_neg hp,
        filter_map_fix p g h1 h2 q]

theorem filter_pos {α : Type} (p : α → Bool) {x : α} (q : List α) (h : p x = true) :
    (x :: q).filter p = x :: q.filter p := List.filter_cons_of_pos h

theorem filter_neg {α : Type} (p : α → Bool) {x : α} (q : List α) (h : ¬ p x = true) :
    (x :: q).filter p = q.filter p := List.filter_cons_of_neg h

theorem isHandleFor_self (t : String) (k : Path) (n : Noti) : isHandleFor t k (Item.handle t k n) = true := by
  simp [isHandleFor]

theorem isHandleFor_other {t t' : String} {k k' : Path} (h : ¬ (t' = t ∧ k' = k)) (n : Noti) :
    isHandleFor t k (Item.handle t' k' n) = false := by
  cases hh : isHandleFor t k (Item.handle t' k' n) with
  | false => rfl
  | true =>
    exfalso
    simp only [isHandleFor, Bool.and_eq_true, beq_iff_eq] at hh
    exact h hh

/-- what one offered update of the leaf does to the entries for it: create the entry with count 0,
or replace the notification and add one to the count -/
def bump (t : String) (k : Path) (l : List (Item × Nat)) (n : Noti) : List (Item × Nat) :=
  if l = [] then [(Item.handle t k n, 0)] else l.map (fun x => (Item.handle t k n, x.2 + 1))

theorem entriesFor_co_same (t : String) (k : Path) (n : Noti) : ∀ (q : List (Item × Nat)),
    entriesFor t k (q.map (co t k n)) = (entriesFor t k q).map (fun x => (Item.handle t k n, x.2 + 1))
  | [] => rfl
  | x :: q => by
    unfold entriesFor
    rw [List.map_cons]
    by_cases hp : isHandleFor t k x.1 = true
    · have hc : co t k n x = (Item.handle t k n, x.2 + 1) := by unfold co; rw [if_pos hp]
      have e1 : isFor t k (co t k n x) = true := by
        show isHandleFor t k (co t k n x).1 = true
        rw [hc]; exact isHandleFor_self t k n
      rw [filter_pos (isFor t k) _ e1, filter_pos (isFor t k) _ hp, List.map_cons, hc]
      exact congrArg _ (entriesFor_co_same t k n q)
    · have hc : co t k n x = x := by unfold co; rw [if_neg hp]
      have e1 : ¬ isFor t k (co t k n x) = true := by
        show ¬ isHandleFor t k (co t k n x).1 = true
        rw [hc]; exact hp
      rw [filter_neg (isFor t k) _ e1, filter_neg (isFor t k) _ hp]
      exact entriesFor_co_same t k n q

/-- an offered update of the leaf itself -/
theorem entriesFor_insert_same {q : List (Item × Nat)} (h : CoverSafe q) (t : String) (k : Path) (n : Noti) :
    entriesFor t k (insertHandle q t k n) = bump t k (entriesFor t k q) n := by
  rw [insertHandle_safe h]
  unfold bump
  by_cases hany : q.any (fun x => isHandleFor t k x.1) = true
  · rw [if_pos hany, entriesFor_co_same]
    have : entriesFor t k q ≠ [] := by
      obtain ⟨x, hx, hp⟩ := List.any_eq_true.1 hany
      intro he
      have : x ∈ entriesFor t k q := List.mem_filter.2 ⟨hx, hp⟩
      rw [he] at this
      cases this
    rw [if_neg this]
  · rw [if_neg hany]
    have he : entriesFor t k q = [] := by
      unfold entriesFor
      rw [List.filter_eq_nil_iff]
      intro x hx hp
      exact hany (List.any_eq_true.2 ⟨x, hx, hp⟩)
    rw [if_pos he]
    unfold entriesFor at he ⊢
    have e1 : isFor t k (Item.handle t k n, 0) = true := isHandleFor_self t k n
    rw [List.filter_append, he, filter_pos (isFor t k) _ e1]
    rfl

/-- an offered update of another leaf -/
theorem entriesFor_insert_other {q : List (Item × Nat)} (h : CoverSafe q) {t t' : String} {k k' : Path}
    (hne : ¬ (t' = t ∧ k' = k)) (n : Noti) :
    entriesFor t k (insertHandle q t' k' n) = entriesFor t k q := by
  rw [insertHandle_safe h]
  split
  · unfold entriesFor
    apply filter_map_fix
    · intro x
      show isHandleFor t k (co t' k' n x).1 = isHandleFor t k x.1
      unfold co
      split
      · rename_i hh
        obtain ⟨m, hm⟩ := isHandleFor_elim hh
        rw [hm]
        show isHandleFor t k (Item.handle t' k' n) = _
        rw [isHandleFor_other hne, isHandleFor_other hne]
      · rfl
    · intro x hp
      have hp' : isHandleFor t k x.1 = true := hp
      unfold co
      split
      · rename_i hh
        obtain ⟨m, hm⟩ := isHandleFor_elim hh
        rw [hm, isHandleFor_other hne] at hp'
        cases hp'
      · rfl
  · unfold entriesFor
    have e1 : ¬ isFor t k (Item.handle t' k' n, 0) = true := by
      show ¬ isHandleFor t k (Item.handle t' k' n) = true
      rw [isHandleFor_other hne]; simp
    rw [List.filter_append, filter_neg (isFor t k) _ e1]
    simp

/-- a delete that does not cover the leaf leaves its entries alone -/
theorem entriesFor_frz {e : Event} {t : String} {k : Path} (hc : coversKey e t k = false)
    (q : List (Item × Nat)) : entriesFor t k (q.map (frz e)) = entriesFor t k q := by
  unfold entriesFor
  apply filter_map_fix
  · intro x
    rcases frz_cases e x with ⟨h1, _⟩ | ⟨t', k', m, h1, h2, h3⟩
    · rw [h1]
    · rw [h3]
      show isHandleFor t k (Item.detached t' k' m) = isHandleFor t k x.1
      rw [h1]
      have : ¬ (t' = t ∧ k' = k) := by
        rintro ⟨rfl, rfl⟩
        rw [hc] at h2
        cases h2
      exact (isHandleFor_other this m).symm
  · intro x hp
    have hp' : isHandleFor t k x.1 = true := hp
    rcases frz_cases e x with ⟨h1, _⟩ | ⟨t', k', m, h1, h2, _⟩
    · exact h1
    · exfalso
      rw [h1] at hp'
      simp only [isHandleFor, Bool.and_eq_true, beq_iff_eq] at hp'
      rw [hp'.1, hp'.2, hc] at h2
      cases h2

/-- the notification of an offered update of the leaf `(t, k)` -/
def offerOf (regs : List Path) (t : String) (k : Path) : Event → Option Noti
  | .upd n => if offeredR regs (.upd n) = true ∧ n.target = t ∧ eventKey n = k then some n else none
  | .del .. => none

/-- the offered updates of the leaf `(t, k)` among the events, in order -/
def offersOf (regs : List Path) (t : String) (k : Path) (evs : List Event) : List Noti :=
  evs.filterMap (offerOf regs t k)

theorem offersOf_append (regs : List Path) (t : String) (k : Path) (a b : List Event) :
    offersOf regs t k (a ++ b) = offersOf regs t k a ++ offersOf regs t k b := by
  unfold offersOf
  rw [List.filterMap_append]

/-- one event of a feed, on the entries for the leaf `(t, k)` (the event does not delete the leaf) -/
theorem entriesFor_qstep (regs : List Path) {q : List (Item × Nat)} (h : CoverSafe q) {e : Event}
    {t : String} {k : Path} (hc : coversKey e t k = false) :
    entriesFor t k (qstep regs q e) = (match offerOf regs t k e with
      | some n => bump t k (entriesFor t k q) n
      | none => entriesFor t k q) := by
  unfold qstep
  rw [freezeCovered_eq]
  have hf := coverSafe_frz e h
  have hfe := entriesFor_frz hc q
  cases e with
  | del te o p ts =>
    simp only [offerOf]
    split
    · unfold entriesFor at hfe ⊢
      have e1 : ¬ isFor t k (Item.note (Event.del te o p ts), 0) = true := by
        show ¬ isHandleFor t k (Item.note (Event.del te o p ts)) = true
        simp [isHandleFor]
      rw [List.filter_append, hfe, filter_neg (isFor t k) _ e1]
      simp
    · exact hfe
  | upd n =>
    simp only [offerOf]
    by_cases hoff : offeredR regs (.upd n) = true
    · rw [if_pos hoff]
      by_cases hk : n.target = t ∧ eventKey n = k
      · rw [if_pos ⟨hoff, hk⟩]
        obtain ⟨rfl, rfl⟩ := hk
        show entriesFor _ _ (insertHandle _ _ _ _) = bump _ _ _ _
        rw [entriesFor_insert_same hf, hfe]
      · rw [if_neg (fun hh => hk hh.2)]
        show entriesFor _ _ (insertHandle _ _ _ _) = entriesFor _ _ _
        rw [entriesFor_insert_other hf hk, hfe]
    · rw [if_neg hoff, if_neg (fun hh => hoff hh.1)]
      exact hfe

/-- **the event loop of one feed, on the entries for one leaf**: they are the old entries, bumped
once per offered update of the leaf (no event of the feed deletes the leaf) -/
theorem qfold_entries (regs : List Path) (t : String) (k : Path) : ∀ (evs : List Event) {q : List (Item × Nat)},
    CoverSafe q → (∀ e ∈ evs, coversKey e t k = false) →
    entriesFor t k (evs.foldl (qstep regs) q) = (offersOf regs t k evs).foldl (bump t k) (entriesFor t k q)
  | [], _, _, _ => rfl
  | e :: evs, q, h, hc => by
    rw [List.foldl_cons, qfold_entries regs t k evs (coverSafe_qstep regs e h)
      (fun x hx => hc x (List.mem_cons_of_mem _ hx)), entriesFor_qstep regs h (hc e (List.mem_cons_self ..))]
    unfold offersOf
    rw [List.filterMap_cons]
    cases offerOf regs t k e <;> rfl

/-- an existing entry with count `d`: after `ns.length` offers, one entry with count `d + ns.length`
showing the last notification offered -/
theorem bump_fold_one (t : String) (k : Path) : ∀ (ns : List Noti) (n0 : Noti) (d : Nat),
    ns.foldl (bump t k) [(Item.handle t k n0, d)] = [(Item.handle t k (ns.getLast?.getD n0), d + ns.length)]
  | [], _, _ => rfl
  | n :: ns, n0, d => by
    rw [List.foldl_cons]
    have : bump t k [(Item.handle t k n0, d)] n = [(Item.handle t k n, d + 1)] := by simp [bump]
    rw [this, bump_fold_one t k ns n (d + 1), List.getLast?_cons]
    simp only [Option.getD_some, List.length_cons]
    congr 2
    omega

/-- no entry before: after `ns.length ≥ 1` offers, one entry with count `ns.length - 1` -/
theorem bump_fold_nil (t : String) (k : Path) (n : Noti) (ns : List Noti) :
    (n :: ns).foldl (bump t k) [] = [(Item.handle t k (ns.getLast?.getD n), ns.length)] := by
  rw [List.foldl_cons]
  have : bump t k [] n = [(Item.handle t k n, 0)] := by simp [bump]
  rw [this, bump_fold_one]
  simp

/-! ## `refreshQueue` only changes the notification a handle shows -/

/-- an entry without the notification its handle shows -/
def skel : Item × Nat → Item × Nat
  | (.handle t k _, d) => (Item.handle t k default, d)
  | x => x

theorem refreshQueue_skel (c : Cache.State) : ∀ (q : List (Item × Nat)),
    (refreshQueue c q).map skel = q.map skel
  | [] => rfl
  | (it, d) :: rest => by
    have ih := refreshQueue_skel c rest
    cases it with
    | handle t k last =>
      simp only [refreshQueue, List.map_cons, ih]
      congr 1
      split
      · rfl
      · split <;> rfl
    | detached t k m => simp only [refreshQueue, List.map_cons, ih]
    | note e => simp only [refreshQueue, List.map_cons, ih]
    | sync => simp only [refreshQueue, List.map_cons, ih]

theorem skel_fst_handle {x : Item × Nat} {t : String} {k : Path} {n : Noti} (h : (skel x).1 = Item.handle t k n) :
    ∃ m, x.1 = Item.handle t k m := by
  obtain ⟨it, d⟩ := x
  cases it with
  | handle t' k' m =>
    simp only [skel, Item.handle.injEq] at h
    obtain ⟨rfl, rfl, _⟩ := h
    exact ⟨m, rfl⟩
  | detached => cases h
  | note => cases h
  | sync => cases h

theorem skel_fst_note {x : Item × Nat} {e : Event} : (skel x).1 = Item.note e ↔ x.1 = Item.note e := by
  obtain ⟨it, d⟩ := x
  cases it <;> simp [skel]

theorem skel_handle (t : String) (k : Path) (n : Noti) (d : Nat) :
    skel (Item.handle t k n, d) = (Item.handle t k default, d) := rfl

theorem coverSafe_skel {q : List (Item × Nat)} : CoverSafe (q.map skel) ↔ CoverSafe q := by
  unfold CoverSafe
  rw [List.pairwise_map]
  constructor
  · refine List.Pairwise.imp ?_
    intro x y hxy t k n e hx hy
    obtain ⟨itx, dx⟩ := x
    simp only at hx
    subst hx
    exact hxy t k default e rfl (skel_fst_note.2 hy)
  · refine List.Pairwise.imp ?_
    intro x y hxy t k n e hx hy
    obtain ⟨m, hm⟩ := skel_fst_handle hx
    exact hxy t k m e hm (skel_fst_note.1 hy)

theorem coverSafe_refresh (c : Cache.State) {q : List (Item × Nat)} (h : CoverSafe q) :
    CoverSafe (refreshQueue c q) := by
  rw [← coverSafe_skel, refreshQueue_skel, coverSafe_skel]
  exact h

theorem isFor_skel (t : String) (k : Path) (x : Item × Nat) : isFor t k (skel x) = isFor t k x := by
  obtain ⟨it, d⟩ := x
  cases it <;> rfl

theorem skel_snd (x : Item × Nat) : (skel x).2 = x.2 := by
  obtain ⟨it, d⟩ := x
  cases it <;> rfl

theorem dupsFor_skel (t : String) (k : Path) : ∀ (q : List (Item × Nat)), dupsFor t k (q.map skel) = dupsFor t k q
  | [] => rfl
  | x :: q => by
    have ih := dupsFor_skel t k q
    unfold dupsFor entriesFor at ih ⊢
    rw [List.map_cons]
    by_cases hp : isFor t k x = true
    · rw [filter_pos (isFor t k) _ (by rw [isFor_skel]; exact hp), filter_pos (isFor t k) _ hp, List.map_cons,
        List.map_cons, ih, skel_snd]
    · rw [filter_neg (isFor t k) _ (by rw [isFor_skel]; exact hp), filter_neg (isFor t k) _ hp, ih]

/-- re-reading the handles changes neither which leaves have an entry nor the duplicate counts -/
theorem dupsFor_refresh (c : Cache.State) (t : String) (k : Path) (q : List (Item × Nat)) :
    dupsFor t k (refreshQueue c q) = dupsFor t k q := by
  rw [← dupsFor_skel, refreshQueue_skel, dupsFor_skel]

theorem hkey_skel (x : Item × Nat) : hkey (skel x).1 = hkey x.1 := by
  obtain ⟨it, d⟩ := x
  cases it <;> rfl

theorem hkeys_skel (q : List (Item × Nat)) : hkeys (q.map skel) = hkeys q := by
  unfold hkeys
  rw [List.filterMap_map]
  congr 1
  funext x
  exact hkey_skel x

theorem hkeys_refresh (c : Cache.State) (q : List (Item × Nat)) : hkeys (refreshQueue c q) = hkeys q := by
  rw [← hkeys_skel, refreshQueue_skel, hkeys_skel]

/-! ## a subscriber whose sender is inside a gated `Send` -/

/-- while a response is held (`blocked`), a cache operation only changes the subscriber's queue:
the events are coalesced into it and the handles are re-read; nothing is sent -/
theorem feedSub_blocked (c' : Cache.State) (evs : List Event) (s : Subscriber) (ha : s.alive = true)
    (hc : s.closed = false) (hb : s.blocked.isSome = true) :
    feedSub c' evs s = { s with queue := refreshQueue c' (evs.foldl (qstep s.regs) s.queue) } := by
  unfold feedSub
  simp only
  rw [enqueue_fold evs s ha hc]
  exact pumpAll_blocked _ hb

/-- the sender only removes entries from the front of the queue -/
theorem pump_queue_suffix : ∀ (fuel : Nat) (s : Subscriber), ∃ a, s.queue = a ++ (pump fuel s).queue
  | 0, _ => ⟨[], rfl⟩
  | fuel + 1, s => by
    unfold pump
    split
    · exact ⟨[], rfl⟩
    · split
      · split <;> exact ⟨[], rfl⟩
      · rename_i it rest hq
        simp only
        split
        · obtain ⟨a, ha⟩ := pump_queue_suffix fuel { s with queue := rest }
          exact ⟨it :: a, by rw [hq]; exact congrArg (it :: ·) ha⟩
        · split
          · exact ⟨[it], by rw [hq]; rfl⟩
          · split
            · exact ⟨[it], by rw [hq]; rfl⟩
            · obtain ⟨a, ha⟩ := pump_queue_suffix fuel
                { s with queue := rest, out := s.out ++ [(toResp it, s.gatedSinceDrain)] }
              exact ⟨it :: a, by rw [hq]; exact congrArg (it :: ·) ha⟩

theorem pumpAll_queue_suffix (s : Subscriber) : ∃ a, s.queue = a ++ (pumpAll s).queue :=
  pump_queue_suffix _ s

/-! ## flow control opens: exactly `pend s` has been sent -/

theorem gateF_open_none (s : Subscriber) (hb : s.blocked = none) :
    gateF false s = pumpAll { s with gateShut := false } := by
  obtain ⟨id, req, acl, regs, alive, status, gateShut, gsd, blocked, queue, closed, out⟩ := s
  simp only at hb
  subst hb
  simp only [gateF, Bool.false_eq_true, if_false]

theorem gateF_open_some (s : Subscriber) {r : Resp} (hb : s.blocked = some r)
    (htd : ¬ (isTargetDelete r && s.req.target != "*") = true) :
    gateF false s =
      pumpAll { s with gateShut := false, blocked := none, out := s.out ++ [(r, s.gatedSinceDrain)] } := by
  obtain ⟨id, req, acl, regs, alive, status, gateShut, gsd, blocked, queue, closed, out⟩ := s
  simp only at hb htd
  subst hb
  simp only [gateF, Bool.false_eq_true, if_false, htd]

theorem gateF_open_td (s : Subscriber) {r : Resp} (hb : s.blocked = some r)
    (htd : (isTargetDelete r && s.req.target != "*") = true) : (gateF false s).alive = false := by
  obtain ⟨id, req, acl, regs, alive, status, gateShut, gsd, blocked, queue, closed, out⟩ := s
  simp only at hb htd
  subst hb
  simp only [gateF, Bool.false_eq_true, if_false, htd, if_true]
  rw [pumpAll_dead _ rfl]

/-- **`gateOpen`**: if the RPC does not end (no whole-target delete is released), the subscriber has
been sent exactly what was pending — the held response, then one response per queue entry the ACL
lets through, in queue order — and nothing is left -/
theorem gateF_open_out (s : Subscriber) (ha : s.alive = true) (hc : s.closed = false)
    (ha' : (gateF false s).alive = true) :
    (gateF false s).out.map (·.1) = pend s ∧ (gateF false s).queue = [] ∧ (gateF false s).blocked = none := by
  cases hb : s.blocked with
  | none =>
    rw [gateF_open_none s hb] at ha' ⊢
    rcases pumpAll_gen { s with gateShut := false } ha hb hc with hd | ⟨a, b, bl, out', hq, hres, hout, hopen, _⟩
    · rw [hd] at ha'; cases ha'
    · obtain ⟨hb0, hbl⟩ := hopen rfl
      subst hb0 hbl
      rw [hres]
      refine ⟨?_, rfl, rfl⟩
      show out'.map (·.1) = pend s
      have hq' : s.queue = a := by simpa using hq
      simp only [Option.toList, List.append_nil] at hout
      rw [hout]
      unfold pend
      rw [hb, hq']
      simp
  | some r =>
    by_cases htd : (isTargetDelete r && s.req.target != "*") = true
    · rw [gateF_open_td s hb htd] at ha'; cases ha'
    · rw [gateF_open_some s hb htd] at ha' ⊢
      rcases pumpAll_gen { s with gateShut := false, blocked := none, out := s.out ++ [(r, s.gatedSinceDrain)] }
        ha rfl hc with hd | ⟨a, b, bl, out', hq, hres, hout, hopen, _⟩
      · rw [hd] at ha'; cases ha'
      · obtain ⟨hb0, hbl⟩ := hopen rfl
        subst hb0 hbl
        rw [hres]
        refine ⟨?_, rfl, rfl⟩
        show out'.map (·.1) = pend s
        have hq' : s.queue = a := by simpa using hq
        simp only [Option.toList, List.append_nil] at hout
        rw [hout]
        unfold pend
        rw [hb, hq']
        simp

/-! ## ids are kept -/

theorem gateF_id (shut : Bool) (s : Subscriber) : (gateF shut s).id = s.id := by
  obtain ⟨id, req, acl, regs, alive, status, gateShut, gsd, blocked, queue, closed, out⟩ := s
  cases shut with
  | true => rfl
  | false =>
    cases blocked with
    | none => simp only [gateF, Bool.false_eq_true, if_false, pumpAll_id]
    | some r =>
      simp only [gateF, Bool.false_eq_true, if_false, pumpAll_id]
      split <;> rfl

theorem stepF_id (s : Subscriber) : (stepF s).id = s.id := by
  obtain ⟨id, req, acl, regs, alive, status, gateShut, gsd, blocked, queue, closed, out⟩ := s
  cases gateShut with
  | false => rfl
  | true =>
    cases blocked with
    | none => rfl
    | some r =>
      simp only [stepF, if_true]
      split
      · rfl
      · rw [pumpAll_id]

/-! ## `Server.Subscribe` adds one subscriber, computed from the cache alone -/

/-- the subscriber a `Subscribe` call adds: a function of the cache, the pre-gated ids and the call -/
def subscribeOne (c : Cache.State) (pg : List String) (id : String) (acl : Acl) (req : Option Req) :
    List Subscriber :=
  (subscribe { cache := c, subs := [], pregated := pg } id acl req).subs

theorem subscribe_append (st : Sub.State) (id : String) (acl : Acl) (req : Option Req) :
    subscribe st id acl req =
      { st with subs := st.subs ++ subscribeOne st.cache st.pregated id acl req } := by
  unfold subscribeOne subscribe
  simp only [List.nil_append]
  split
  · rfl
  · split
    · rfl
    · split
      · rfl
      · split
        · rfl
        · split
          · rfl
          · split
            · rfl
            · split
              · rfl
              · split <;> rfl

theorem subscribeOne_length (c : Cache.State) (pg : List String) (id : String) (acl : Acl) (req : Option Req) :
    (subscribeOne c pg id acl req).length = 1 := by
  unfold subscribeOne subscribe
  simp only [List.nil_append]
  split
  · rfl
  · split
    · rfl
    · split
      · rfl
      · split
        · rfl
        · split
          · rfl
          · split
            · rfl
            · split
              · rfl
              · split <;> rfl

/-! ## the handle keys of a queue only grow by the leaves written -/

/-- the leaf an update event writes -/
def evLeaf? : Event → Option (String × Path)
  | .upd n => some (n.target, eventKey n)
  | .del .. => none

/-- the leaves written by the update events of a list -/
def updKeys (evs : List Event) : List (String × Path) := evs.filterMap evLeaf?

theorem hkeys_frz {e : Event} {q : List (Item × Nat)} {p : String × Path} (h : p ∈ hkeys (q.map (frz e))) :
    p ∈ hkeys q := by
  obtain ⟨t, k⟩ := p
  obtain ⟨n, d, hm⟩ := mem_hkeys.1 h
  obtain ⟨x, hx, hfx⟩ := List.mem_map.1 hm
  have h1 : (frz e x).1 = Item.handle t k n := by rw [hfx]
  have h2 := (frz_handle h1).2.2
  rw [h2] at hfx
  rw [hfx] at hx
  exact mem_hkeys.2 ⟨n, d, hx⟩

theorem hkeys_enqueue (s : Subscriber) (e : Event) {p : String × Path}
    (h : p ∈ hkeys (enqueueEvent { s with queue := freezeCovered e s.queue } e).queue) :
    p ∈ hkeys s.queue ∨ evLeaf? e = some p := by
  unfold enqueueEvent at h
  split at h
  · exact Or.inl (hkeys_frz h)
  · cases e with
    | upd n =>
      simp only at h
      obtain ⟨t, k⟩ := p
      obtain ⟨m, d, hm⟩ := mem_hkeys.1 h
      rcases mem_insertHandle hm with h1 | ⟨d', h1⟩
      · exact Or.inl (hkeys_frz (mem_hkeys.2 ⟨m, d, h1⟩))
      · simp only [Prod.mk.injEq, Item.handle.injEq] at h1
        obtain ⟨⟨rfl, rfl, _⟩, _⟩ := h1
        exact Or.inr rfl
    | del te o q ts =>
      simp only at h
      rw [hkeys_append] at h
      rcases List.mem_append.1 h with h1 | h1
      · exact Or.inl (hkeys_frz h1)
      · simp [hkeys, hkey] at h1

theorem hkeys_enqueue_fold : ∀ (evs : List Event) (s : Subscriber) {p : String × Path},
    p ∈ hkeys (evs.foldl (fun s e => enqueueEvent { s with queue := freezeCovered e s.queue } e) s).queue →
    p ∈ hkeys s.queue ∨ p ∈ updKeys evs
  | [], _, _, h => Or.inl h
  | e :: evs, s, p, h => by
    rw [List.foldl_cons] at h
    rcases hkeys_enqueue_fold evs _ h with h1 | h1
    · rcases hkeys_enqueue s e h1 with h2 | h2
      · exact Or.inl h2
      · right
        unfold updKeys
        rw [List.filterMap_cons, h2]
        exact List.mem_cons_self ..
    · right
      unfold updKeys at h1 ⊢
      rw [List.filterMap_cons]
      cases evLeaf? e with
      | none => exact h1
      | some _ => exact List.mem_cons_of_mem _ h1

theorem hkeys_suffix {a b : List (Item × Nat)} {p : String × Path} (h : p ∈ hkeys b) : p ∈ hkeys (a ++ b) := by
  rw [hkeys_append]
  exact List.mem_append_right _ h

theorem hkeys_pumpAll (s : Subscriber) {p : String × Path} (h : p ∈ hkeys (pumpAll s).queue) :
    p ∈ hkeys s.queue := by
  obtain ⟨a, ha⟩ := pumpAll_queue_suffix s
  rw [ha]
  exact hkeys_suffix h

/-- **a cache operation adds handle entries only for leaves it writes** -/
theorem hkeys_feedSub (c' : Cache.State) (evs : List Event) (s : Subscriber) {p : String × Path}
    (h : p ∈ hkeys (feedSub c' evs s).queue) : p ∈ hkeys s.queue ∨ p ∈ updKeys evs := by
  unfold feedSub at h
  have h1 := hkeys_pumpAll _ h
  simp only at h1
  rw [hkeys_refresh] at h1
  exact hkeys_enqueue_fold evs s h1

theorem hkeys_gateF (shut : Bool) (s : Subscriber) {p : String × Path} (h : p ∈ hkeys (gateF shut s).queue) :
    p ∈ hkeys s.queue := by
  obtain ⟨id, req, acl, regs, alive, status, gateShut, gsd, blocked, queue, closed, out⟩ := s
  cases shut with
  | true => exact h
  | false =>
    cases blocked with
    | none =>
      simp only [gateF, Bool.false_eq_true, if_false] at h
      have := hkeys_pumpAll _ h
      exact this
    | some r =>
      simp only [gateF, Bool.false_eq_true, if_false] at h
      have := hkeys_pumpAll _ h
      revert this
      split <;> exact fun x => x

theorem hkeys_stepF (s : Subscriber) {p : String × Path} (h : p ∈ hkeys (stepF s).queue) :
    p ∈ hkeys s.queue := by
  obtain ⟨id, req, acl, regs, alive, status, gateShut, gsd, blocked, queue, closed, out⟩ := s
  cases gateShut with
  | false => exact h
  | true =>
    cases blocked with
    | none => exact h
    | some r =>
      simp only [stepF, if_true] at h
      revert h
      split
      · exact fun x => x
      · intro x
        have := hkeys_pumpAll _ x
        exact this

/-! ## lists of subscribers that differ only in the subscribers called `id` -/

/-- same length, same ids position by position, and equal wherever the id is not `id` -/
def AgreeL (id : String) : List Subscriber → List Subscriber → Prop
  | [], [] => True
  | a :: as, b :: bs => a.id = b.id ∧ (a.id ≠ id → a = b) ∧ AgreeL id as bs
  | _, _ => False

theorem AgreeL.refl (id : String) : ∀ (l : List Subscriber), AgreeL id l l
  | [] => trivial
  | _ :: l => ⟨rfl, fun _ => rfl, AgreeL.refl id l⟩

theorem AgreeL.length {id : String} : ∀ {l1 l2 : List Subscriber}, AgreeL id l1 l2 → l1.length = l2.length
  | [], [], _ => rfl
  | _ :: _, _ :: _, h => by simp only [List.length_cons]; rw [AgreeL.length h.2.2]
  | [], _ :: _, h => h.elim
  | _ :: _, [], h => h.elim

/-- the same id-preserving function on both sides -/
theorem AgreeL.map {id : String} (f : Subscriber → Subscriber) (hf : ∀ s, (f s).id = s.id) :
    ∀ {l1 l2 : List Subscriber}, AgreeL id l1 l2 → AgreeL id (l1.map f) (l2.map f)
  | [], [], _ => trivial
  | a :: _, b :: _, h => by
    refine ⟨by rw [hf, hf]; exact h.1, ?_, AgreeL.map f hf h.2.2⟩
    intro hne
    rw [hf] at hne
    rw [h.2.1 hne]
  | [], _ :: _, h => h.elim
  | _ :: _, [], h => h.elim

/-- a function that only touches the subscribers called `id`, on the left side only -/
theorem AgreeL.map_left {id : String} (f : Subscriber → Subscriber) (hf : ∀ s, (f s).id = s.id)
    (hfix : ∀ s, s.id ≠ id → f s = s) :
    ∀ {l1 l2 : List Subscriber}, AgreeL id l1 l2 → AgreeL id (l1.map f) l2
  | [], [], _ => trivial
  | a :: _, b :: _, h => by
    refine ⟨by rw [hf]; exact h.1, ?_, AgreeL.map_left f hf hfix h.2.2⟩
    intro hne
    rw [hf] at hne
    rw [hfix a hne]
    exact h.2.1 hne
  | [], _ :: _, h => h.elim
  | _ :: _, [], h => h.elim

theorem AgreeL.append {id : String} : ∀ {l1 l2 : List Subscriber} (m : List Subscriber), AgreeL id l1 l2 →
    AgreeL id (l1 ++ m) (l2 ++ m)
  | [], [], m, _ => AgreeL.refl id m
  | _ :: _, _ :: _, m, h => ⟨h.1, h.2.1, AgreeL.append m h.2.2⟩
  | [], _ :: _, _, h => h.elim
  | _ :: _, [], _, h => h.elim

/-- position by position: a subscriber not called `id` is the same on both sides -/
theorem AgreeL.get {id : String} : ∀ {l1 l2 : List Subscriber}, AgreeL id l1 l2 → ∀ (i : Nat) (s : Subscriber),
    l1[i]? = some s → s.id ≠ id → l2[i]? = some s
  | [], [], _, _, _, h, _ => by simp at h
  | a :: _, b :: _, h, 0, s, hs, hne => by
    simp only [List.getElem?_cons_zero, Option.some.injEq] at hs ⊢
    subst hs
    exact (h.2.1 hne).symm
  | _ :: _, _ :: _, h, i + 1, s, hs, hne => by
    simp only [List.getElem?_cons_succ] at hs ⊢
    exact AgreeL.get h.2.2 i s hs hne
  | [], _ :: _, h, _, _, _, _ => h.elim
  | _ :: _, [], h, _, _, _, _ => h.elim

theorem AgreeL.symm {id : String} : ∀ {l1 l2 : List Subscriber}, AgreeL id l1 l2 → AgreeL id l2 l1
  | [], [], _ => trivial
  | a :: _, b :: _, h => by
    refine ⟨h.1.symm, ?_, AgreeL.symm h.2.2⟩
    intro hne
    rw [← h.1] at hne
    exact (h.2.1 hne).symm
  | [], _ :: _, h => h.elim
  | _ :: _, [], h => h.elim

end SubBacklog
end Gnmi
