import Gnmi.Lemmas.SubscribeRefine
import Gnmi.Lemmas.SubscribePoll
/-!
# The simulation of the sequential Subscribe model by the Subscribe LTS, extended to ONCE and POLL

`Lemmas/SubscribeRefine.lean` relates a live STREAM subscriber of SEQ to its LTS client (`LiveRel`:
registered, queue open).  This file adds the relation for a live **ONCE / POLL** subscriber
(`PLiveRel`: never registered, its queue holds only leaf handles and the sync marker; the queue of a
ONCE subscriber is closed once its walk is over) and proves, piece by piece:

* `ppump_sim` — `Sub.pump` of such a subscriber = the sender run `next; build; sent`…, ending with
  `drained` (RPC returns OK) when the queue is closed and empty;
* `pgateF_sim`, `pstepF_sim` — flow control;
* `pev_step`, `prefresh` — a cache call seen by an **unregistered** subscriber: nothing is offered to it, a
  delete detaches the queued handles it covers (`freezeCovered`), and `refreshQueue` re-reads the attached
  handles at the end of the call.  In between the SEQ queue may hold a *stale* value (`IRelW`): the side
  condition `StaleFree` (no update of a queued leaf is followed, in the same call, by a delete covering
  it) is what makes SEQ's frozen value the one the detached leaf object holds;
* `pwalk_sim` — a walk over a queue that may already hold items (a POLL trigger under flow control):
  `visit`… `finish`;
* `SRelX`, `StRelX` and the glue (`feed_simX`, `updateSub_simX`, `newSub_simX`, `add_simX`);
* `subscribe_simX` (every mode), `poll_simX`, `eof_simX`, `expire_simX`.
-/
namespace Gnmi
namespace Refine
open Cache Feed SubStream
set_option linter.unusedSimpArgs false
set_option linter.unusedVariables false

/-! ## a live ONCE / POLL subscriber -/

/-- no delete item is queued -/
def NoNotes (q : List (Sub.Item × Nat)) : Prop := ∀ x ∈ q, ∀ e, x.1 ≠ Sub.Item.note e

theorem NoNotes.tail {x : Sub.Item × Nat} {q : List (Sub.Item × Nat)} (h : NoNotes (x :: q)) : NoNotes q :=
  fun y hy => h y (List.mem_cons_of_mem _ hy)

/-- number of poll triggers in a local run -/
def npollL (ls : List SL) : Nat := ls.countP (fun l => decide (l = SubLTS.SLabel.poll))

theorem npollL_nil : npollL [] = 0 := rfl

theorem npollL_append (a b : List SL) : npollL (a ++ b) = npollL a + npollL b := by
  unfold npollL; rw [List.countP_append]

theorem npollL_cons_ne {l : SL} (h : l ≠ SubLTS.SLabel.poll) (ls : List SL) : npollL (l :: ls) = npollL ls := by
  unfold npollL
  rw [List.countP_cons_of_neg (by simpa using h)]

theorem npollL_nb : npollL [SubLTS.SLabel.next, SubLTS.SLabel.build] = 0 := by
  rw [npollL_cons_ne (by intro e; cases e), npollL_cons_ne (by intro e; cases e)]; rfl

/-- a live ONCE / POLL subscriber and its LTS client (handler in `<-errC`, walk over, never
registered), for a relation `QR` between the two queues -/
structure PLiveRelG (QR : List (Sub.Item × Nat) → List (LItem × Nat) → Prop) (rq : Sub.Req × Sub.Acl)
    (s : Sub.Subscriber) (b : LSub) : Prop where
  alive : s.alive = true
  req : s.req = rq.1
  acl : s.acl = rq.2
  mode : rq.1.mode = .poll ∨ rq.1.mode = .once
  regs : s.regs = []
  closed : s.closed = b.closed
  closed_once : b.closed = true → rq.1.mode = .once
  status : s.status = none
  pc : b.pc = .run
  reg : b.registered = false
  bstatus : b.status = none
  walker : b.walker = .done
  gate : b.blocked = s.gateShut
  q : QR s.queue b.q
  snd : SndRel s.blocked b
  sent : SentRel s.out b.sent
  nonotes : NoNotes s.queue
  held : ∀ r, s.blocked = some r → Sub.isTargetDelete r = false
  /-- the request was accepted: it names a target -/
  tgt : rq.1.target ≠ ""
  /-- every subscription path completes (else the walk ends the RPC with a non-status error: not simulated) -/
  paths : rq.1.updatesOnly = false → ∀ sp ∈ rq.1.subs, (Sub.completePath rq.1 sp).isSome = true

abbrev PLiveRel (sh : LShared) := PLiveRelG (QRel sh)

/-- a SEQ subscriber and its LTS client: live STREAM, ended, or live ONCE / POLL -/
def SRelX (sh : LShared) (rq : Sub.Req × Sub.Acl) (s : Sub.Subscriber) (b : LSub) : Prop :=
  SRel sh rq s b ∨ PLiveRel sh rq s b

theorem isTargetDelete_toResp_of_not_note {x : Sub.Item × Nat} (h : ∀ e, x.1 ≠ Sub.Item.note e) :
    Sub.isTargetDelete (Sub.toResp x) = false := by
  obtain ⟨it, d⟩ := x
  cases it with
  | handle t k n => rfl
  | detached t k n => rfl
  | note e => exact absurd rfl (h e)
  | sync => rfl

/-! ### the sender: `next; build` -/

theorem pdequeue_sim (reqs : Nat → Sub.Req × Sub.Acl) {sh : LShared} {rq : Sub.Req × Sub.Acl}
    {s : Sub.Subscriber} {b : LSub} {it : Sub.Item × Nat} {rest : List (Sub.Item × Nat)}
    (h : PLiveRel sh rq s b) (hb : s.blocked = none) (hq : s.queue = it :: rest) :
    ∃ ls b', runSub (C06Glue.subSys reqs) (ltsOf rq) sh b ls = some b' ∧ npollL ls = 0 ∧
      if Sub.denied s.acl (Sub.toResp it) then PLiveRel sh rq { s with queue := rest } b'
      else PLiveRel sh rq { s with queue := rest, blocked := some (Sub.toResp it) } b' := by
  have hsnd := h.snd
  rw [hb] at hsnd
  obtain ⟨hidle, harm⟩ := hsnd
  have hQ := h.q
  rw [hq] at hQ
  have hnn : NoNotes rest := by
    have := h.nonotes; rw [hq] at this; exact this.tail
  have hitd : Sub.isTargetDelete (Sub.toResp it) = false :=
    isTargetDelete_toResp_of_not_note (h.nonotes it (by rw [hq]; exact List.mem_cons_self ..))
  cases hbq : b.q with
  | nil => rw [hbq] at hQ; exact hQ.elim
  | cons y ys =>
    rw [hbq] at hQ
    obtain ⟨hI, hQ'⟩ := hQ
    obtain ⟨li, ld⟩ := y
    obtain ⟨iti, itd⟩ := it
    have hnext : SubLTS.subFire (C06Glue.subSys reqs) (ltsOf rq) sh b .next =
        some { b with q := ys, snd := .got li ld, deliv := b.deliv ++ [(li, ld)] } := by
      simp [SubLTS.subFire, hidle, hbq]
    rcases mkResp_rel (reqs := reqs) hI itd ld with ⟨rfl, rfl⟩ | ⟨r', tg, hmk, her, hrt, hit, hns, hrok⟩
    · -- the sync marker
      refine ⟨[.next, .build], { b with q := ys, snd := .sendSync, armed := true, deliv := b.deliv ++ [(.syncMarker, ld)] }, ?_, npollL_nb, ?_⟩
      · have hbuild : SubLTS.subFire (C06Glue.subSys reqs) (ltsOf rq) sh
            { b with q := ys, snd := .got .syncMarker ld, deliv := b.deliv ++ [(.syncMarker, ld)] } .build =
            some { b with q := ys, snd := .sendSync, armed := true, deliv := b.deliv ++ [(.syncMarker, ld)] } := by
          simp [SubLTS.subFire, SubLTS.mkResp]
        simp only [runSub, hnext, hbuild]
      · have hd : Sub.denied s.acl (Sub.toResp (Sub.Item.sync, itd)) = false := rfl
        rw [hd]
        simp only [Bool.false_eq_true, if_false]
        exact { alive := h.alive, req := h.req, acl := h.acl, mode := h.mode, regs := h.regs, closed := h.closed,
                closed_once := h.closed_once, status := h.status, pc := h.pc, reg := h.reg, bstatus := h.bstatus,
                walker := h.walker, gate := h.gate, q := hQ', snd := Or.inl ⟨rfl, rfl, rfl⟩, sent := h.sent,
                nonotes := hnn, held := (fun r hr => by cases hr; rfl), tgt := h.tgt, paths := h.paths }
    · have hden : Sub.denied s.acl (Sub.toResp (iti, itd)) = !rq.2.check tg := by
        simp only [Sub.denied, hrt, h.acl]
      have hends : SubLTS.endsStream (C06Glue.subSys reqs) (ltsOf rq) li = false := by
        cases li with
        | regionDel r =>
          exfalso
          cases iti with
          | note e => exact h.nonotes (Sub.Item.note e, itd) (by rw [hq]; exact List.mem_cons_self ..) e rfl
          | handle t k n => exact hI.elim
          | detached t k n => exact hI.elim
          | sync => exact hI.elim
        | _ => rfl
      by_cases hal : rq.2.check tg = true
      · refine ⟨[.next, .build],
          { b with q := ys, snd := .sending r', armed := true, deliv := b.deliv ++ [(li, ld)] }, ?_, npollL_nb, ?_⟩
        · have : (ltsOf rq).allow tg = true := hal
          have hbuild : SubLTS.subFire (C06Glue.subSys reqs) (ltsOf rq) sh
              { b with q := ys, snd := .got li ld, deliv := b.deliv ++ [(li, ld)] } .build =
              some { b with q := ys, snd := .sending r', armed := true, deliv := b.deliv ++ [(li, ld)] } := by
            simp [SubLTS.subFire, hmk, this]
          simp only [runSub, hnext, hbuild]
        · rw [hden, hal]
          simp only [Bool.not_true, Bool.false_eq_true, if_false]
          exact { alive := h.alive, req := h.req, acl := h.acl, mode := h.mode, regs := h.regs, closed := h.closed,
                  closed_once := h.closed_once, status := h.status, pc := h.pc, reg := h.reg, bstatus := h.bstatus,
                  walker := h.walker, gate := h.gate, q := hQ',
                  snd := Or.inr ⟨hns, hrok, r', rfl, rfl, her⟩, sent := h.sent,
                  nonotes := hnn, held := (fun r hr => by cases hr; exact hitd), tgt := h.tgt, paths := h.paths }
      · have hal' : rq.2.check tg = false := by simpa using hal
        refine ⟨[.next, .build], { b with q := ys, snd := .idle, deliv := b.deliv ++ [(li, ld)] }, ?_, npollL_nb, ?_⟩
        · have : (ltsOf rq).allow tg = false := hal'
          have hbuild : SubLTS.subFire (C06Glue.subSys reqs) (ltsOf rq) sh
              { b with q := ys, snd := .got li ld, deliv := b.deliv ++ [(li, ld)] } .build =
              some { b with q := ys, snd := .idle, deliv := b.deliv ++ [(li, ld)] } := by
            simp [SubLTS.subFire, hmk, this, hends]
          simp only [runSub, hnext, hbuild]
        · rw [hden, hal']
          simp only [Bool.not_false, if_true]
          exact { alive := h.alive, req := h.req, acl := h.acl, mode := h.mode, regs := h.regs, closed := h.closed,
                  closed_once := h.closed_once, status := h.status, pc := h.pc, reg := h.reg, bstatus := h.bstatus,
                  walker := h.walker, gate := h.gate, q := hQ', snd := by rw [hb]; exact ⟨rfl, harm⟩,
                  sent := h.sent, nonotes := hnn, held := (fun r hr => by rw [hb] at hr; cases hr), tgt := h.tgt, paths := h.paths }

/-! ### the sender: `sent` -/

theorem prelease_sim (reqs : Nat → Sub.Req × Sub.Acl) {sh : LShared} {rq : Sub.Req × Sub.Acl}
    {s : Sub.Subscriber} {b : LSub} {r : Sub.Resp}
    (h : PLiveRel sh rq s b) (hb : s.blocked = some r) (hg : b.blocked = false) :
    ∃ b', runSub (C06Glue.subSys reqs) (ltsOf rq) sh b [.sent] = some b' ∧
      PLiveRel sh rq (releaseS s r) b' ∧
      releaseS s r = { s with blocked := none, out := s.out ++ [(r, s.gatedSinceDrain)] } := by
  have hsnd := h.snd
  rw [hb] at hsnd
  have hntd : Sub.isTargetDelete r = false := h.held r hb
  have hrel : releaseS s r = { s with blocked := none, out := s.out ++ [(r, s.gatedSinceDrain)] } := by
    simp [releaseS, hntd]
  rw [hrel]
  rcases hsnd with ⟨rfl, hss, harm⟩ | ⟨hns, hrok, r', hss, harm, her⟩
  · refine ⟨{ b with snd := .idle, armed := false, sent := b.sent ++ [.sync] }, ?_, ?_, rfl⟩
    · simp [runSub, SubLTS.subFire, hg, hss]
    · exact { alive := h.alive, req := h.req, acl := h.acl, mode := h.mode, regs := h.regs, closed := h.closed,
              closed_once := h.closed_once, status := h.status, pc := h.pc, reg := h.reg, bstatus := h.bstatus,
              walker := h.walker, gate := h.gate, q := h.q, snd := ⟨rfl, rfl⟩,
              sent := h.sent.snoc (r := Sub.Resp.sync) rfl trivial _, nonotes := h.nonotes,
              held := (fun r hr => by cases hr), tgt := h.tgt, paths := h.paths }
  · have hends : SubLTS.endsStreamR (C06Glue.subSys reqs) (ltsOf rq) r' = false := by
      cases r with
      | upd n d =>
        cases r' with
        | upd k v dd => rfl
        | _ => simp [eraseDup, absResp] at her
      | del t o p ts d =>
        cases r' with
        | rdel g =>
          simp only [eraseDup, absResp, SubLTS.Resp.rdel.injEq] at her
          subst her
          simp only [SubLTS.endsStreamR, isTD_regOf reqs t o p hrok.1]
          simp only [Sub.isTargetDelete] at hntd
          rw [hntd]; rfl
        | _ => simp [eraseDup, absResp] at her
      | sync => exact absurd rfl hns
    refine ⟨{ b with snd := .idle, armed := false, sent := b.sent ++ [r'] }, ?_, ?_, rfl⟩
    · simp [runSub, SubLTS.subFire, hg, hss, hends]
    · exact { alive := h.alive, req := h.req, acl := h.acl, mode := h.mode, regs := h.regs, closed := h.closed,
              closed_once := h.closed_once, status := h.status, pc := h.pc, reg := h.reg, bstatus := h.bstatus,
              walker := h.walker, gate := h.gate, q := h.q, snd := ⟨rfl, rfl⟩,
              sent := h.sent.snoc her hrok _, nonotes := h.nonotes, held := (fun r hr => by cases hr), tgt := h.tgt, paths := h.paths }

/-! ### `Sub.pump` = the sender run (ending with `drained` on a closed, empty queue) -/

theorem ppump_sim (reqs : Nat → Sub.Req × Sub.Acl) {sh : LShared} {rq : Sub.Req × Sub.Acl} :
    ∀ (fuel : Nat) (s : Sub.Subscriber) (b : LSub), PLiveRel sh rq s b →
    ∃ ls b', runSub (C06Glue.subSys reqs) (ltsOf rq) sh b ls = some b' ∧ npollL ls = 0 ∧
      SRelX sh rq (Sub.pump fuel s) b'
  | 0, s, b, h => ⟨[], b, rfl, rfl, Or.inr h⟩
  | fuel + 1, s, b, h => by
    cases hb : s.blocked with
    | some r =>
      refine ⟨[], b, rfl, rfl, Or.inr ?_⟩
      have : Sub.pump (fuel + 1) s = s := by
        rw [Sub.pump]; simp [hb]
      rw [this]; exact h
    | none =>
      cases hq : s.queue with
      | nil =>
        have hsnd := h.snd
        rw [hb] at hsnd
        have hbq : b.q = [] := by
          have := h.q
          rw [hq] at this
          cases hbq : b.q with
          | nil => rfl
          | cons y ys => rw [hbq] at this; exact this.elim
        cases hc : s.closed with
        | false =>
          refine ⟨[], b, rfl, rfl, Or.inr ?_⟩
          have : Sub.pump (fuel + 1) s = s := by
            rw [Sub.pump]; simp [hb, hq, h.alive, hc]
          rw [this]; exact h
        | true =>
          have hbc : b.closed = true := by rw [← h.closed]; exact hc
          have : Sub.pump (fuel + 1) s = { s with alive := false, status := some .ok } := by
            rw [Sub.pump]; simp [hb, hq, h.alive, hc]
          rw [this]
          refine ⟨[.drained], b.finish .ok, ?_, (by rw [npollL_cons_ne (by intro e; cases e)]; rfl), Or.inl (Or.inr ?_)⟩
          · simp [runSub, SubLTS.subFire, hsnd.1, hbq, hbc]
          · exact { alive := rfl, acl := h.acl, blocked := hb, pc := rfl, snd := rfl, reg := rfl, bclosed := rfl,
                    armed := rfl, status := ⟨.ok, rfl, rfl⟩, sent := h.sent }
      | cons it rest =>
        rw [pump_succ_cons fuel s it rest h.alive hb hq]
        obtain ⟨ls1, b1, hr1, hn1, hrel⟩ := pdequeue_sim reqs h hb hq
        have hitd : Sub.isTargetDelete (Sub.toResp it) = false :=
          isTargetDelete_toResp_of_not_note (h.nonotes it (by rw [hq]; exact List.mem_cons_self ..))
        by_cases hden : Sub.denied s.acl (Sub.toResp it) = true
        · rw [if_pos hden] at hrel ⊢
          obtain ⟨ls2, b2, hr2, hn2, hrel2⟩ := ppump_sim reqs fuel _ b1 hrel
          exact ⟨ls1 ++ ls2, b2, runSub_append hr1 hr2, by rw [npollL_append, hn1, hn2], hrel2⟩
        · rw [if_neg hden] at hrel ⊢
          by_cases hg : s.gateShut = true
          · rw [if_pos hg]
            exact ⟨ls1, b1, hr1, hn1, Or.inr hrel⟩
          · rw [if_neg hg]
            have hg1 : b1.blocked = false := by
              rw [hrel.gate]; simpa using hg
            obtain ⟨b2, hr2, hrel2, _⟩ := prelease_sim reqs hrel rfl hg1
            rw [hitd]
            simp only [Bool.false_and, Bool.false_eq_true, if_false]
            obtain ⟨ls3, b3, hr3, hn3, hrel3⟩ := ppump_sim reqs fuel _ b2 hrel2
            refine ⟨ls1 ++ ([.sent] ++ ls3), b3, runSub_append hr1 (runSub_append hr2 hr3), ?_, hrel3⟩
            rw [npollL_append, npollL_append, hn1, hn3, npollL_cons_ne (by intro e; cases e)]; rfl

theorem ppumpAll_sim (reqs : Nat → Sub.Req × Sub.Acl) {sh : LShared} {rq : Sub.Req × Sub.Acl}
    {s : Sub.Subscriber} {b : LSub} (h : SRelX sh rq s b) :
    ∃ ls b', runSub (C06Glue.subSys reqs) (ltsOf rq) sh b ls = some b' ∧ SRelX sh rq (Sub.pumpAll s) b' := by
  rcases h with h | h
  · obtain ⟨ls, b', hr, hrel⟩ := pumpAll_sim reqs h
    exact ⟨ls, b', hr, Or.inl hrel⟩
  · obtain ⟨ls, b', hr, _, hrel⟩ := ppump_sim reqs _ s b h
    exact ⟨ls, b', hr, hrel⟩

/-! ### flow control -/

theorem pgate_set (reqs : Nat → Sub.Req × Sub.Acl) {sh : LShared} {rq : Sub.Req × Sub.Acl}
    {s : Sub.Subscriber} {b : LSub} (h : PLiveRel sh rq s b) (g d : Bool) :
    ∃ b', runSub (C06Glue.subSys reqs) (ltsOf rq) sh b [if g then .gateClose else .gateOpen] = some b' ∧
      b'.blocked = g ∧ PLiveRel sh rq { s with gateShut := g, gatedSinceDrain := d } b' := by
  refine ⟨{ b with blocked := g }, ?_, rfl, ?_⟩
  · cases g <;> simp [runSub, SubLTS.subFire]
  · exact { alive := h.alive, req := h.req, acl := h.acl, mode := h.mode, regs := h.regs, closed := h.closed,
            closed_once := h.closed_once, status := h.status, pc := h.pc, reg := h.reg, bstatus := h.bstatus,
            walker := h.walker, gate := rfl, q := h.q, snd := h.snd, sent := h.sent, nonotes := h.nonotes,
            held := h.held, tgt := h.tgt, paths := h.paths }

/-- `Sub.setGate` on one subscriber of any kind -/
theorem gateF_simX (reqs : Nat → Sub.Req × Sub.Acl) {sh : LShared} {rq : Sub.Req × Sub.Acl}
    {s : Sub.Subscriber} {b : LSub} (h : SRelX sh rq s b) (shut : Bool) :
    ∃ ls b', runSub (C06Glue.subSys reqs) (ltsOf rq) sh b ls = some b' ∧ SRelX sh rq (SubGate.gateF shut s) b' := by
  rcases h with h | h
  · obtain ⟨ls, b', hr, hrel⟩ := gateF_sim reqs h shut
    exact ⟨ls, b', hr, Or.inl hrel⟩
  · cases shut with
    | true =>
      obtain ⟨b', hr, _, hrel⟩ := pgate_set reqs h true true
      exact ⟨_, b', hr, Or.inr hrel⟩
    | false =>
      obtain ⟨b1, hr1, hg1, hrel1⟩ := pgate_set reqs h false s.gatedSinceDrain
      have hrel1' : PLiveRel sh rq { s with gateShut := false } b1 := hrel1
      cases hb : s.blocked with
      | none =>
        rw [gateF_open_none s hb]
        obtain ⟨ls2, b2, hr2, _, hrel2⟩ := ppump_sim reqs _ _ b1 hrel1'
        exact ⟨_, b2, runSub_append hr1 hr2, hrel2⟩
      | some r =>
        rw [gateF_open_some s r hb]
        obtain ⟨b2, hr2, hrel2, _⟩ := prelease_sim reqs hrel1' hb hg1
        obtain ⟨ls3, b3, hr3, _, hrel3⟩ := ppump_sim reqs _ _ b2 hrel2
        exact ⟨_, b3, runSub_append hr1 (runSub_append hr2 hr3), hrel3⟩

/-- `Sub.stepGate` on one subscriber of any kind -/
theorem stepF_simX (reqs : Nat → Sub.Req × Sub.Acl) {sh : LShared} {rq : Sub.Req × Sub.Acl}
    {s : Sub.Subscriber} {b : LSub} (h : SRelX sh rq s b) :
    ∃ ls b', runSub (C06Glue.subSys reqs) (ltsOf rq) sh b ls = some b' ∧ SRelX sh rq (SubGate.stepF s) b' := by
  rcases h with h | h
  · obtain ⟨ls, b', hr, hrel⟩ := stepF_sim reqs h
    exact ⟨ls, b', hr, Or.inl hrel⟩
  · by_cases hg : s.gateShut = true
    · cases hb : s.blocked with
      | none =>
        refine ⟨[], b, rfl, Or.inr ?_⟩
        have : SubGate.stepF s = s := by simp [SubGate.stepF, hg, hb]
        rw [this]; exact h
      | some r =>
        rw [stepF_eq s r hg hb]
        obtain ⟨b1, hr1, hg1, hrel1⟩ := pgate_set reqs h false s.gatedSinceDrain
        have hrel1' : PLiveRel sh rq { s with gateShut := false } b1 := hrel1
        obtain ⟨b2, hr2, hrel2, _⟩ := prelease_sim reqs hrel1' hb hg1
        obtain ⟨b3, hr3, _, hrel3⟩ := pgate_set reqs hrel2 true
          (releaseS { s with gateShut := false } r).gatedSinceDrain
        have hrel3' : PLiveRel sh rq { releaseS { s with gateShut := false } r with gateShut := true } b3 := hrel3
        obtain ⟨ls4, b4, hr4, _, hrel4⟩ := ppump_sim reqs _ _ b3 hrel3'
        exact ⟨_, b4, runSub_append hr1 (runSub_append hr2 (runSub_append hr3 hr4)), hrel4⟩
    · refine ⟨[], b, rfl, Or.inr ?_⟩
      have : SubGate.stepF s = s := by simp [SubGate.stepF, hg]
      rw [this]; exact h

/-! ## a cache call seen by an unregistered subscriber -/

/-- a SEQ item against an LTS item *during* a cache call: related, or a **stale** attached handle — a
leaf written earlier in this call by an update that was not offered to the subscriber (SEQ re-reads it
at the end of the call, `refreshQueue`; the LTS reads through the handle when it sends) -/
def IRelW (T : List K) (sh : LShared) (x : Sub.Item) (y : LItem) : Prop :=
  IRel sh x y ∨ ∃ t k n, x = .handle t k n ∧ y = .handle (t, k) (sh.gen (t, k)) ∧
    sh.present (t, k) = true ∧ (t, k) ∈ T

def QRelW (T : List K) (sh : LShared) : List (Sub.Item × Nat) → List (LItem × Nat) → Prop
  | [], [] => True
  | x :: xs, y :: ys => IRelW T sh x.1 y.1 ∧ QRelW T sh xs ys
  | _, _ => False

theorem QRel.toW {T : List K} {sh : LShared} : ∀ {a : List (Sub.Item × Nat)} {b : List (LItem × Nat)},
    QRel sh a b → QRelW T sh a b
  | [], [], _ => trivial
  | [], _ :: _, h => h.elim
  | _ :: _, [], h => h.elim
  | _ :: _, _ :: _, h => ⟨Or.inl h.1, QRel.toW h.2⟩

theorem QRelW.mapL {T T' : List K} {sh sh' : LShared} (f : Sub.Item × Nat → Sub.Item × Nat) :
    ∀ {a : List (Sub.Item × Nat)} {b : List (LItem × Nat)}, QRelW T sh a b →
    (∀ x ∈ a, ∀ y, IRelW T sh x.1 y → IRelW T' sh' (f x).1 y) → QRelW T' sh' (a.map f) b
  | [], [], _, _ => trivial
  | [], _ :: _, h, _ => h.elim
  | _ :: _, [], h, _ => h.elim
  | x :: xs, y :: ys, h, hf =>
    ⟨hf x (List.mem_cons_self ..) y.1 h.1,
      QRelW.mapL f h.2 (fun x' hx' => hf x' (List.mem_cons_of_mem _ hx'))⟩

/-- the keys written so far in the current call -/
def evT (T : List K) : Event → List K
  | .upd n => (n.target, Sub.eventKey n) :: T
  | .del .. => T

/-- **The side condition on a cache call, for a subscriber it is not offered to**: no update of a leaf
whose handle the subscriber holds queued is followed, in the same call, by a delete covering that leaf.
(`T`: the keys written so far in the call.)  Otherwise SEQ freezes the handle with the value it had
*before* the call, while the leaf object — which the LTS, like the code, reads when it sends — holds the
value written by the update.  The condition is expected of every call of the cache model (`GnmiUpdate`
runs its updates before its deletes, but a delete removes only leaves strictly older than the
notification, `Cache.olderThan`, hence never a leaf the same notification has just written; the other
calls only update or only delete: `staleFree_of_all_upd`, `staleFree_of_all_del`); that is not proved
here — it is a side condition of `C05Refine.OpOK`, decidable on concrete histories (`staleFree_of_B`). -/
def StaleFree : List K → List (Sub.Item × Nat) → List Event → Prop
  | _, _, [] => True
  | T, q, .upd n :: es => StaleFree ((n.target, Sub.eventKey n) :: T) q es
  | T, q, .del te o p ts :: es =>
    (∀ x ∈ q, ∀ t k m, x.1 = Sub.Item.handle t k m → (t, k) ∈ T →
      Sub.coversKey (.del te o p ts) t k = false) ∧
    StaleFree T (q.map (frz (.del te o p ts))) es

/-- a queue without attached handles meets the condition for every call -/
theorem staleFree_of_no_handles : ∀ (es : List Event) (T : List K) (q : List (Sub.Item × Nat)),
    (∀ x ∈ q, ∀ t k m, x.1 ≠ Sub.Item.handle t k m) → StaleFree T q es
  | [], _, _, _ => trivial
  | .upd n :: es, T, q, h => staleFree_of_no_handles es _ q h
  | .del te o p ts :: es, T, q, h => by
    refine ⟨fun x hx t k m hm => absurd hm (h x hx t k m), staleFree_of_no_handles es T _ ?_⟩
    intro x hx t k m hm
    obtain ⟨x0, hx0, rfl⟩ := List.mem_map.1 hx
    rcases frz_cases (.del te o p ts) x0 with ⟨h1, _⟩ | ⟨t', k', m', h2, _, _⟩
    · rw [h1] at hm; exact h x0 hx0 t k m hm
    · exact h x0 hx0 t' k' m' h2

/-- the condition on the events alone: no update is followed by a delete covering its leaf -/
def NoLaterCover : List K → List Event → Prop
  | _, [] => True
  | T, .upd n :: es => NoLaterCover ((n.target, Sub.eventKey n) :: T) es
  | T, .del te o p ts :: es => (∀ tk ∈ T, Sub.coversKey (.del te o p ts) tk.1 tk.2 = false) ∧ NoLaterCover T es

theorem staleFree_of_noLaterCover : ∀ (es : List Event) (T : List K) (q : List (Sub.Item × Nat)),
    NoLaterCover T es → StaleFree T q es
  | [], _, _, _ => trivial
  | .upd n :: es, T, q, h => staleFree_of_noLaterCover es _ q h
  | .del te o p ts :: es, T, q, h =>
    ⟨fun x _ t k m _ hT => h.1 (t, k) hT, staleFree_of_noLaterCover es T _ h.2⟩

/-- a call that only updates (`Sync`, `Connect`, `ConnectError`, `UpdateMetadata`, a `GnmiUpdate` without
deletes) meets the condition -/
theorem staleFree_of_all_upd : ∀ (es : List Event) (T : List K) (q : List (Sub.Item × Nat)),
    (∀ e ∈ es, ∃ n, e = Event.upd n) → StaleFree T q es
  | [], _, _, _ => trivial
  | .upd n :: es, T, q, h => staleFree_of_all_upd es _ q (fun e he => h e (List.mem_cons_of_mem _ he))
  | .del te o p ts :: es, T, q, h => by
    obtain ⟨n, hn⟩ := h _ (List.mem_cons_self ..)
    cases hn

/-- a call that only deletes (`Remove`, `Reset`, a `GnmiUpdate` without updates) meets the condition -/
theorem staleFree_of_all_del : ∀ (es : List Event) (q : List (Sub.Item × Nat)),
    (∀ e ∈ es, ∀ n, e ≠ Event.upd n) → StaleFree [] q es
  | [], _, _ => trivial
  | .upd n :: es, q, h => absurd rfl (h _ (List.mem_cons_self ..) n)
  | .del te o p ts :: es, q, h =>
    ⟨(fun x _ t k m _ hT => by cases hT),
      staleFree_of_all_del es _ (fun e he => h e (List.mem_cons_of_mem _ he))⟩

/-- `StaleFree` as a computation (for concrete histories) -/
def staleFreeB : List K → List (Sub.Item × Nat) → List Event → Bool
  | _, _, [] => true
  | T, q, .upd n :: es => staleFreeB ((n.target, Sub.eventKey n) :: T) q es
  | T, q, .del te o p ts :: es =>
    q.all (fun x => match x.1 with
      | .handle t k _ => !(decide ((t, k) ∈ T) && Sub.coversKey (.del te o p ts) t k)
      | _ => true) &&
    staleFreeB T (q.map (frz (.del te o p ts))) es

theorem staleFree_of_B : ∀ (es : List Event) (T : List K) (q : List (Sub.Item × Nat)),
    staleFreeB T q es = true → StaleFree T q es
  | [], _, _, _ => trivial
  | .upd n :: es, T, q, h => staleFree_of_B es _ q h
  | .del te o p ts :: es, T, q, h => by
    simp only [staleFreeB, Bool.and_eq_true, List.all_eq_true] at h
    refine ⟨?_, staleFree_of_B es T _ h.2⟩
    intro x hx t k m hm hT
    have := h.1 x hx
    rw [hm] at this
    simp only [Bool.not_eq_true', Bool.and_eq_false_iff, decide_eq_false_iff_not] at this
    rcases this with h1 | h1
    · exact absurd hT h1
    · exact h1

theorem seqEv_unreg (s : Sub.Subscriber) (e : Event) (hr : s.regs = []) :
    seqEv s e = { s with queue := s.queue.map (frz e) } := by
  unfold seqEv Sub.enqueueEvent
  have : Sub.offered { s with queue := Sub.freezeCovered e s.queue } e = false := by
    simp [Sub.offered, hr]
  rw [this]
  simp [freezeCovered_eq]

theorem frz_upd (n : Noti) (x : Sub.Item × Nat) : frz (.upd n) x = x := by
  obtain ⟨it, d⟩ := x
  cases it <;> simp [frz, Sub.coversKey]

theorem evShared_upd_other (reqs : Nat → Sub.Req × Sub.Acl) (sh : LShared) (n : Noti) (t : String) (k : Path)
    (hne : (t, k) ≠ (n.target, Sub.eventKey n)) :
    (evShared reqs sh (.upd n)).present (t, k) = sh.present (t, k) ∧
    (evShared reqs sh (.upd n)).gen (t, k) = sh.gen (t, k) := by
  by_cases hpr : sh.present (n.target, Sub.eventKey n) = true
  · rw [evShared_upd_pos reqs hpr]
    exact ⟨rfl, rfl⟩
  · have hpr' : sh.present (n.target, Sub.eventKey n) = false := by simpa using hpr
    rw [evShared_upd_neg reqs hpr']
    exact ⟨SubLTS.setFn_other _ _ hne, SubLTS.setFn_other _ _ hne⟩

theorem irelW_upd (reqs : Nat → Sub.Req × Sub.Acl) {T : List K} {sh : LShared} (n : Noti) (hna : n.atomic = false)
    {x : Sub.Item} {y : LItem} (h : IRelW T sh x y) :
    IRelW ((n.target, Sub.eventKey n) :: T) (evShared reqs sh (.upd n)) x y := by
  have hstale : ∀ (t : String) (k : Path) (m : Noti), sh.present (t, k) = true →
      (t, k) ∈ (n.target, Sub.eventKey n) :: T →
      IRelW ((n.target, Sub.eventKey n) :: T) (evShared reqs sh (.upd n)) (.handle t k m)
        (.handle (t, k) (sh.gen (t, k))) := by
    intro t k m hp hT
    right
    refine ⟨t, k, m, rfl, ?_, ?_, hT⟩
    · by_cases hkk : (t, k) = (n.target, Sub.eventKey n)
      · cases hkk
        rw [evShared_upd_pos reqs hp]
      · rw [(evShared_upd_other reqs sh n t k hkk).2]
    · by_cases hkk : (t, k) = (n.target, Sub.eventKey n)
      · cases hkk
        rw [evShared_upd_pos reqs hp]; exact hp
      · rw [(evShared_upd_other reqs sh n t k hkk).1]; exact hp
  rcases h with h | ⟨t, k, m, rfl, rfl, hp, hT⟩
  · by_cases hh : Sub.isHandleFor n.target (Sub.eventKey n) x = true
    · obtain ⟨m, rfl⟩ := isHandleFor_elim hh
      cases y with
      | handle k' g =>
        obtain ⟨rfl, rfl, hp, _⟩ := h
        exact hstale _ _ m hp (List.mem_cons_self ..)
      | _ => exact h.elim
    · have := irel_upd reqs n hna h
      simp only [updIt, hh, Bool.false_eq_true, if_false] at this
      exact Or.inl this
  · exact hstale t k m hp (List.mem_cons_of_mem _ hT)

theorem irelW_del (reqs : Nat → Sub.Req × Sub.Acl) {T : List K} {sh : LShared} {te : String} (hte : te ≠ glob)
    (o : String) (p : Path) (ts : Int) {x : Sub.Item × Nat} {y : LItem} (h : IRelW T sh x.1 y)
    (hsf : ∀ t k m, x.1 = Sub.Item.handle t k m → (t, k) ∈ T → Sub.coversKey (.del te o p ts) t k = false) :
    IRelW T (evShared reqs sh (.del te o p ts)) (frz (.del te o p ts) x).1 y := by
  rcases h with h | ⟨t, k, m, hx, rfl, hp, hT⟩
  · exact Or.inl (irel_del reqs hte o p ts h)
  · have hc := hsf t k m hx hT
    obtain ⟨xi, xd⟩ := x
    simp only at hx
    subst hx
    have : frz (.del te o p ts) (Sub.Item.handle t k m, xd) = (Sub.Item.handle t k m, xd) := by
      simp [frz, hc]
    rw [this]
    right
    refine ⟨t, k, m, rfl, rfl, ?_, hT⟩
    show (sh.present (t, k) && !(C06Glue.subSys reqs).covers (regOf te o p) (t, k)) = true
    rw [← coversKey_eq_covers reqs hte, hc, hp]; rfl

/-- a shared run leaves an unregistered client whose walk is over alone (ghosts apart) -/
theorem subShared_unreg_done (sys : LSys) (rq : LReq) : ∀ (ls : List ShL) (b : LSub), b.registered = false →
    b.walker = .done → (subShared sys rq b ls).walker = .done
  | [], b, _, hw => hw
  | l :: ls, b, hr, hw => by
    have h1 : (b.onShared sys rq l).registered = false := by
      rw [(onShared_unreg sys rq b l hr).2.1]; exact hr
    have h2 : (b.onShared sys rq l).walker = .done := by
      cases l with
      | w2 u => cases u <;> simp [SubLTS.Sub.onShared, hr, hw]
      | w1Del ks => simp [SubLTS.Sub.onShared, hw, SubLTS.Walker.filter]
      | w1Reg r => simp [SubLTS.Sub.onShared, hw, SubLTS.Walker.filter]
      | _ => exact hw
    exact subShared_unreg_done sys rq ls _ h1 h2

/-- one feed event on a live unregistered subscriber -/
theorem pev_step (reqs : Nat → Sub.Req × Sub.Acl) {V : Views} {H : String → Bool} {sh : LShared}
    {rq : Sub.Req × Sub.Acl} {s : Sub.Subscriber} {b : LSub} {e : Event} {T : List K} {es : List Event}
    (h : PLiveRelG (QRelW T sh) rq s b) (hsf : StaleFree T s.queue (e :: es))
    (hv : VRel V H sh) (hg : GoodEv V e) (hp : PlainEv H e) :
    PLiveRelG (QRelW (evT T e) (evShared reqs sh e)) rq (seqEv s e) (evSub reqs rq sh e b) ∧
      StaleFree (evT T e) (seqEv s e).queue es := by
  obtain ⟨b1, b2, b3, b4, b5, b6, b7, b8, b9, _⟩ :=
    subShared_unreg (C06Glue.subSys reqs) (ltsOf rq) [evL1 sh e, .w2 (evUnit sh e)] b h.reg
  have bw := subShared_unreg_done (C06Glue.subSys reqs) (ltsOf rq) [evL1 sh e, .w2 (evUnit sh e)] b h.reg h.walker
  rw [seqEv_unreg s e h.regs]
  have hsnd : SndRel s.blocked (evSub reqs rq sh e b) := by
    have := h.snd
    unfold SndRel at this ⊢
    unfold evSub
    rw [b5, b6]; exact this
  have base : ∀ (Q : List (Sub.Item × Nat)), QRelW (evT T e) (evShared reqs sh e) Q b.q → NoNotes Q →
      PLiveRelG (QRelW (evT T e) (evShared reqs sh e)) rq { s with queue := Q } (evSub reqs rq sh e b) := by
    intro Q hQ hnn
    exact { alive := h.alive, req := h.req, acl := h.acl, mode := h.mode, regs := h.regs,
            closed := by show s.closed = _; unfold evSub; rw [b4]; exact h.closed,
            closed_once := by unfold evSub; rw [b4]; exact h.closed_once,
            status := h.status, pc := by unfold evSub; rw [b1]; exact h.pc,
            reg := by unfold evSub; rw [b2]; exact h.reg,
            bstatus := by unfold evSub; rw [b9]; exact h.bstatus, walker := bw,
            gate := by unfold evSub; rw [b7]; exact h.gate,
            q := by unfold evSub; rw [b3]; exact hQ,
            snd := hsnd, sent := by unfold evSub; rw [b8]; exact h.sent, nonotes := hnn, held := h.held, tgt := h.tgt, paths := h.paths }
  have hnn : NoNotes (s.queue.map (frz e)) := by
    intro x hx e' he'
    obtain ⟨x0, hx0, rfl⟩ := List.mem_map.1 hx
    rcases frz_cases e x0 with ⟨h1, _⟩ | ⟨t', k', m', _, _, h3⟩
    · rw [h1] at he'; exact h.nonotes x0 hx0 e' he'
    · rw [h3] at he'; cases he'
  cases e with
  | upd n =>
    have hna : n.atomic = false := hp.1
    have hmap : s.queue.map (frz (.upd n)) = s.queue := by
      rw [List.map_congr_left (fun x _ => frz_upd n x), List.map_id']
    rw [hmap] at hnn ⊢
    refine ⟨base s.queue ?_ hnn, hsf⟩
    have := QRelW.mapL (T' := evT T (.upd n)) (sh' := evShared reqs sh (.upd n)) id h.q
      (fun x _ y hy => irelW_upd reqs n hna hy)
    simpa using this
  | del te o p ts =>
    have hte : te ≠ glob := hg
    refine ⟨base _ ?_ hnn, hsf.2⟩
    exact QRelW.mapL (frz (.del te o p ts)) h.q
      (fun x hx y hy => irelW_del reqs hte o p ts hy (fun t k m hm hT => hsf.1 x hx t k m hm hT))

/-- **`refreshQueue` at the end of the call** re-reads every attached handle from the cache: stale handles
become exact again -/
theorem prefresh {T : List K} {sh : LShared} {c' : Cache.State} {H : String → Bool}
    (hv : VRel (treesOf c') H sh)
    (hkey : ∀ t k m, lookup (treesOf c' t) k = some m → m.target = t ∧ Sub.eventKey m = k) :
    ∀ (q : List (Sub.Item × Nat)) (lq : List (LItem × Nat)), QRelW T sh q lq → NoNotes q →
      QRel sh (Sub.refreshQueue c' q) lq ∧ NoNotes (Sub.refreshQueue c' q)
  | [], [], _, _ => ⟨trivial, fun x hx => by cases hx⟩
  | [], _ :: _, h, _ => h.elim
  | _ :: _, [], h, _ => h.elim
  | (it, d) :: rest, y :: ys, h, hnn => by
    obtain ⟨ih1, ih2⟩ := prefresh hv hkey rest ys h.2 hnn.tail
    have hI : IRelW T sh it y.1 := h.1
    cases it with
    | handle t k last =>
      -- the LTS item is the live handle of the key
      have hy : y.1 = .handle (t, k) (sh.gen (t, k)) ∧ sh.present (t, k) = true := by
        rcases hI with hI | ⟨t', k', m', hx, hy, hp, _⟩
        · cases hy1 : y.1 with
          | handle k' g =>
            rw [hy1] at hI
            obtain ⟨rfl, rfl, hp, _⟩ := hI
            exact ⟨rfl, hp⟩
          | delNote k' => rw [hy1] at hI; exact hI.elim
          | regionDel r => rw [hy1] at hI; exact hI.elim
          | syncMarker => rw [hy1] at hI; exact hI.elim
        · cases hx
          exact ⟨hy, hp⟩
      have hpres := hv.pres t k
      rw [hy.2] at hpres
      cases hl : lookup (treesOf c' t) k with
      | none => rw [hl] at hpres; cases hpres
      | some n' =>
        have hl' : (c'.get t).bind (fun tg => lookup tg.tree k) = some n' := by
          rw [← lookup_treesOf]; exact hl
        have hrq : Sub.refreshQueue c' ((Sub.Item.handle t k last, d) :: rest) =
            (Sub.Item.handle t k n', d) :: Sub.refreshQueue c' rest := by
          simp only [Sub.refreshQueue, hl']
          split
          · rename_i hc
            exfalso
            obtain ⟨x, hx, hxc⟩ := List.any_eq_true.1 hc
            have hnx := hnn x (List.mem_cons_of_mem _ hx)
            obtain ⟨xi, xd⟩ := x
            cases xi with
            | note e => exact hnx e rfl
            | handle _ _ _ => cases hxc
            | detached _ _ _ => cases hxc
            | sync => cases hxc
          · rfl
        rw [hrq]
        refine ⟨⟨?_, ih1⟩, ?_⟩
        · show IRel sh (Sub.Item.handle t k n') y.1
          rw [hy.1]
          exact ⟨rfl, rfl, hy.2, hv.val t k n' hl, (hkey t k n' hl).1, (hkey t k n' hl).2, hv.plain t k n' hl⟩
        · intro x hx e he
          rcases List.mem_cons.1 hx with rfl | hx
          · cases he
          · exact ih2 x hx e he
    | detached t k m =>
      have hrq : Sub.refreshQueue c' ((Sub.Item.detached t k m, d) :: rest) =
          (Sub.Item.detached t k m, d) :: Sub.refreshQueue c' rest := by
        simp only [Sub.refreshQueue]
      rw [hrq]
      refine ⟨⟨?_, ih1⟩, ?_⟩
      · rcases hI with hI | ⟨t', k', m', hx, _⟩
        · exact hI
        · cases hx
      · intro x hx e he
        rcases List.mem_cons.1 hx with rfl | hx
        · cases he
        · exact ih2 x hx e he
    | note e => exact absurd rfl (hnn _ (List.mem_cons_self ..) e)
    | sync =>
      have hrq : Sub.refreshQueue c' ((Sub.Item.sync, d) :: rest) =
          (Sub.Item.sync, d) :: Sub.refreshQueue c' rest := by
        simp only [Sub.refreshQueue]
      rw [hrq]
      refine ⟨⟨?_, ih1⟩, ?_⟩
      · rcases hI with hI | ⟨t', k', m', hx, _⟩
        · exact hI
        · cases hx
      · intro x hx e he
        rcases List.mem_cons.1 hx with rfl | hx
        · cases he
        · exact ih2 x hx e he

/-! ## the whole state -/

/-- every SEQ subscriber is related by `R` to the LTS client of its index; later clients have not started -/
structure SubsRelG (R : Sub.Req × Sub.Acl → Sub.Subscriber → LSub → Prop) (reqs : Nat → Sub.Req × Sub.Acl)
    (subs : List Sub.Subscriber) (ls : Nat → LSub) : Prop where
  rel : ∀ i s, subs[i]? = some s → R (reqs i) s (ls i)
  fresh : ∀ i, subs.length ≤ i → Fresh (ls i)

abbrev SubsRelX (reqs : Nat → Sub.Req × Sub.Acl) (sh : LShared) := SubsRelG (SRelX sh) reqs

/-- **The simulation relation, all modes**: `StRel` with live ONCE / POLL subscribers allowed -/
structure StRelX (reqs : Nat → Sub.Req × Sub.Acl) (st : Sub.State) (c : LCfg) : Prop where
  vrel : VRel (treesOf st.cache) (fun t => (st.cache.get t).isSome) c.sh
  ok : CacheOK st.cache
  subs : SubsRelX reqs c.sh st.subs c.subs

theorem StRel.toX {reqs : Nat → Sub.Req × Sub.Acl} {st : Sub.State} {c : LCfg} (h : StRel reqs st c) :
    StRelX reqs st c :=
  { vrel := h.vrel, ok := h.ok, subs := ⟨fun i s hi => Or.inl (h.subs.rel i s hi), h.subs.fresh⟩ }

/-- during a cache call: a STREAM / ended subscriber as always; a live ONCE / POLL one with possibly
stale handles, and what is left of the call meets `StaleFree` -/
def SRelE (T : List K) (es : List Event) (sh : LShared) (rq : Sub.Req × Sub.Acl) (s : Sub.Subscriber)
    (b : LSub) : Prop :=
  SRel sh rq s b ∨ (PLiveRelG (QRelW T sh) rq s b ∧ StaleFree T s.queue es)

theorem subs_local_gen (reqs : Nat → Sub.Req × Sub.Acl) {c : LCfg} {subs : List Sub.Subscriber}
    {R R' : Sub.Req × Sub.Acl → Sub.Subscriber → LSub → Prop}
    (hs : SubsRelG R reqs subs c.subs) (f : Sub.Subscriber → Sub.Subscriber)
    (hf : ∀ i s, subs[i]? = some s → R (reqs i) s (c.subs i) →
      ∃ ls b', runSub (C06Glue.subSys reqs) (ltsOf (reqs i)) c.sh (c.subs i) ls = some b' ∧ R' (reqs i) (f s) b') :
    ∃ ls c', SubLTS.fireAll (C06Glue.subSys reqs) c ls = some c' ∧ c'.sh = c.sh ∧
      SubsRelG R' reqs (subs.map f) c'.subs := by
  obtain ⟨ls, c', hfire, hsh, hP, hrest⟩ := local_all (C06Glue.subSys reqs)
    (fun i b' => ∀ s, subs[i]? = some s → R' (reqs i) (f s) b') subs.length c (by
      intro i hi
      have hsi : subs[i]? = some subs[i] := List.getElem?_eq_getElem hi
      obtain ⟨ls, b', hr, hrel⟩ := hf i _ hsi (hs.rel i _ hsi)
      refine ⟨ls, b', hr, ?_⟩
      intro s hs'
      rw [hsi] at hs'
      cases hs'
      exact hrel)
  refine ⟨ls, c', hfire, hsh, ?_, ?_⟩
  · intro i s hi
    rw [List.getElem?_map] at hi
    cases hsi : subs[i]? with
    | none => rw [hsi] at hi; cases hi
    | some s0 =>
      rw [hsi] at hi
      simp only [Option.map_some, Option.some.injEq] at hi
      subst hi
      have hlt : i < subs.length := by
        rcases Nat.lt_or_ge i subs.length with h | h
        · exact h
        · rw [List.getElem?_eq_none h] at hsi; cases hsi
      exact hP i hlt s0 hsi
  · intro i hi
    rw [List.length_map] at hi
    rw [hrest i hi]
    exact hs.fresh i hi

/-- one event, globally: the writer unit `W1; W2` -/
theorem event_simX (reqs : Nat → Sub.Req × Sub.Acl) {V : Views} {H : String → Bool} {c : LCfg}
    {subs : List Sub.Subscriber} {e : Event} {T : List K} {es : List Event}
    (hv : VRel V H c.sh) (hs : SubsRelG (SRelE T (e :: es) c.sh) reqs subs c.subs)
    (hg : GoodEv V e) (hp : PlainEv H e) :
    ∃ ls c', SubLTS.fireAll (C06Glue.subSys reqs) c ls = some c' ∧
      VRel (applyS V e) (evH H e) c'.sh ∧
      SubsRelG (SRelE (evT T e) es c'.sh) reqs (subs.map (fun s => seqEv s e)) c'.subs := by
  refine ⟨[evL1 c.sh e, .w2 (evUnit c.sh e)].map SubLTS.Label.sh,
    ⟨evShared reqs c.sh e, fun i => evSub reqs (reqs i) c.sh e (c.subs i)⟩,
    fireAll_shared _ _ c _ (ev_fire reqs hv hp), ev_vrel reqs hv hg hp, ?_, ?_⟩
  · intro i s hi
    rw [List.getElem?_map] at hi
    cases hsi : subs[i]? with
    | none => rw [hsi] at hi; cases hi
    | some s0 =>
      rw [hsi] at hi
      simp only [Option.map_some, Option.some.injEq] at hi
      subst hi
      rcases hs.rel i s0 hsi with hl | ⟨hpl, hsf⟩
      · exact Or.inl (seqEv_srel reqs hl hv hg hp)
      · exact Or.inr (pev_step reqs hpl hsf hv hg hp)
  · intro i hi
    rw [List.length_map] at hi
    exact fresh_shared _ _ _ (hs.fresh i hi)

theorem events_simX (reqs : Nat → Sub.Req × Sub.Acl) : ∀ (evs : List Event) (V : Views) (H : String → Bool)
    (c : LCfg) (subs : List Sub.Subscriber) (T : List K),
    VRel V H c.sh → SubsRelG (SRelE T evs c.sh) reqs subs c.subs → EvsOK V H evs →
    ∃ ls c' T', SubLTS.fireAll (C06Glue.subSys reqs) c ls = some c' ∧
      VRel (applySs V evs) (evs.foldl evH H) c'.sh ∧
      SubsRelG (SRelE T' [] c'.sh) reqs (subs.map (fun s => evs.foldl seqEv s)) c'.subs
  | [], V, H, c, subs, T, hv, hs, _ => ⟨[], c, T, rfl, hv, by simpa using hs⟩
  | e :: evs, V, H, c, subs, T, hv, hs, hok => by
    obtain ⟨ls1, c1, hf1, hv1, hs1⟩ := event_simX reqs hv hs hok.1 hok.2.1
    obtain ⟨ls2, c2, T2, hf2, hv2, hs2⟩ := events_simX reqs evs _ _ c1 _ _ hv1 hs1 hok.2.2
    refine ⟨ls1 ++ ls2, c2, T2, fireAll_append hf1 hf2, hv2, ?_⟩
    rw [List.map_map] at hs2
    exact hs2

/-- **A cache call feeding events** (`Sub.feed`), with subscribers of every mode -/
theorem feed_simX (reqs : Nat → Sub.Req × Sub.Acl) {st : Sub.State} {c : LCfg} (h : StRelX reqs st c)
    (c' : Cache.State) (evs : List Event)
    (hev : EvsOK (treesOf st.cache) (fun t => (st.cache.get t).isSome) evs)
    (hsf : ∀ s ∈ st.subs, s.alive = true → s.regs = [] → StaleFree [] s.queue evs)
    (hcont : ∀ t k, lookup (treesOf c' t) k = lookup (applySs (treesOf st.cache) evs t) k)
    (hT : ∀ t, (c'.get t).isSome = evs.foldl evH (fun t => (st.cache.get t).isSome) t)
    (hok : CacheOK c') :
    ∃ ls c2, SubLTS.fireAll (C06Glue.subSys reqs) c ls = some c2 ∧
      StRelX reqs (Sub.feed { st with cache := c' } evs) c2 := by
  have hs0 : SubsRelG (SRelE [] evs c.sh) reqs st.subs c.subs := by
    refine ⟨?_, h.subs.fresh⟩
    intro i s hi
    rcases h.subs.rel i s hi with hl | hp
    · exact Or.inl hl
    · refine Or.inr ⟨?_, hsf s (List.mem_of_getElem? hi) hp.alive hp.regs⟩
      exact { alive := hp.alive, req := hp.req, acl := hp.acl, mode := hp.mode, regs := hp.regs, closed := hp.closed,
              closed_once := hp.closed_once, status := hp.status, pc := hp.pc, reg := hp.reg, bstatus := hp.bstatus,
              walker := hp.walker, gate := hp.gate, q := hp.q.toW, snd := hp.snd, sent := hp.sent,
              nonotes := hp.nonotes, held := hp.held, tgt := hp.tgt, paths := hp.paths }
  obtain ⟨ls1, c1, T1, hf1, hv1, hs1⟩ := events_simX reqs evs _ _ c st.subs [] h.vrel hs0 hev
  have hv' : VRel (treesOf c') (fun t => (c'.get t).isSome) c1.sh :=
    { pres := fun t k => by rw [hcont]; exact hv1.pres t k
      val := fun t k n hn => hv1.val t k n (by rw [← hcont]; exact hn)
      hasT := fun t => by rw [hT]; exact hv1.hasT t
      pend := hv1.pend
      keys := hv1.keys
      plain := fun t k n hn => hv1.plain t k n (by rw [← hcont]; exact hn)
      quiet := hv1.quiet }
  have hkey : ∀ t k m, lookup (treesOf c' t) k = some m → m.target = t ∧ Sub.eventKey m = k := by
    intro t k m hl
    have hk := hok.hkey t k m hl
    rw [respKey_eq] at hk
    simp only [List.cons.injEq] at hk
    exact ⟨hk.1, hk.2⟩
  obtain ⟨ls2, c2, hf2, hsh2, hs2⟩ := subs_local_gen reqs (R' := SRelX c1.sh) hs1
    (fun s => Sub.pumpAll { s with queue := Sub.refreshQueue c' s.queue }) (by
      intro i s hi hrel
      have hrel' : SRelX c1.sh (reqs i) { s with queue := Sub.refreshQueue c' s.queue } (c1.subs i) := by
        rcases hrel with (hl | hd) | ⟨hp, _⟩
        · have : Sub.refreshQueue c' s.queue = s.queue :=
            refreshQueue_id c' s.queue (handles_fresh hv' hl.q)
          rw [this]; exact Or.inl (Or.inl hl)
        · exact Or.inl (Or.inr (hd.queue _))
        · obtain ⟨hq, hnn⟩ := prefresh hv' hkey s.queue (c1.subs i).q hp.q hp.nonotes
          exact Or.inr
            { alive := hp.alive, req := hp.req, acl := hp.acl, mode := hp.mode, regs := hp.regs, closed := hp.closed,
              closed_once := hp.closed_once, status := hp.status, pc := hp.pc, reg := hp.reg, bstatus := hp.bstatus,
              walker := hp.walker, gate := hp.gate, q := hq, snd := hp.snd, sent := hp.sent,
              nonotes := hnn, held := hp.held, tgt := hp.tgt, paths := hp.paths }
      exact ppumpAll_sim reqs hrel')
  refine ⟨ls1 ++ ls2, c2, fireAll_append hf1 hf2, ?_⟩
  have hfeed : (Sub.feed { st with cache := c' } evs) =
      { cache := c', subs := (st.subs.map (fun s => evs.foldl seqEv s)).map
          (fun s => Sub.pumpAll { s with queue := Sub.refreshQueue c' s.queue }), pregated := st.pregated } := by
    simp only [Sub.feed, List.map_map]
    rfl
  rw [hfeed]
  refine { vrel := by rw [hsh2]; exact hv', ok := hok, subs := ?_ }
  rw [hsh2]
  exact hs2

/-- an operation addressed to the subscribers with a given id (`Sub.updateSub`) -/
theorem updateSub_simX (reqs : Nat → Sub.Req × Sub.Acl) {st : Sub.State} {c : LCfg} (h : StRelX reqs st c)
    (id : String) (f : Sub.Subscriber → Sub.Subscriber)
    (hf : ∀ (rq : Sub.Req × Sub.Acl) (s : Sub.Subscriber) (b : LSub), s ∈ st.subs → s.id = id →
      SRelX c.sh rq s b →
      ∃ ls b', runSub (C06Glue.subSys reqs) (ltsOf rq) c.sh b ls = some b' ∧ SRelX c.sh rq (f s) b') :
    ∃ ls c', SubLTS.fireAll (C06Glue.subSys reqs) c ls = some c' ∧ StRelX reqs (Sub.updateSub st id f) c' := by
  obtain ⟨ls, c', hfire, hsh, hs⟩ := subs_local_gen reqs (R' := SRelX c.sh) h.subs
    (fun s => if s.id = id then f s else s) (by
    intro i s hi hrel
    by_cases hid : s.id = id
    · simp only [hid, if_true]
      exact hf _ s _ (List.mem_of_getElem? hi) hid hrel
    · simp only [hid, if_false]
      exact ⟨[], _, rfl, hrel⟩)
  exact ⟨ls, c', hfire, { vrel := by rw [hsh]; exact h.vrel, ok := h.ok, subs := by rw [hsh]; exact hs }⟩

/-- every subscriber transformed by its own local run (`Sub.expire`) -/
theorem mapSubs_simX (reqs : Nat → Sub.Req × Sub.Acl) {st : Sub.State} {c : LCfg} (h : StRelX reqs st c)
    (f : Sub.Subscriber → Sub.Subscriber)
    (hf : ∀ (rq : Sub.Req × Sub.Acl) (s : Sub.Subscriber) (b : LSub), SRelX c.sh rq s b →
      ∃ ls b', runSub (C06Glue.subSys reqs) (ltsOf rq) c.sh b ls = some b' ∧ SRelX c.sh rq (f s) b') :
    ∃ ls c', SubLTS.fireAll (C06Glue.subSys reqs) c ls = some c' ∧
      StRelX reqs { st with subs := st.subs.map f } c' := by
  obtain ⟨ls, c', hfire, hsh, hs⟩ := subs_local_gen reqs (R' := SRelX c.sh) h.subs f
    (fun i s _ hrel => hf _ s _ hrel)
  exact ⟨ls, c', hfire, { vrel := by rw [hsh]; exact h.vrel, ok := h.ok, subs := by rw [hsh]; exact hs }⟩

/-- a new subscriber: the local run of the first client that has not started -/
theorem newSub_simX (reqs : Nat → Sub.Req × Sub.Acl) {st : Sub.State} {c : LCfg} (h : StRelX reqs st c)
    (sNew : Sub.Subscriber) {ls : List SL} {b' : LSub}
    (hr : runSub (C06Glue.subSys reqs) (ltsOf (reqs st.subs.length)) c.sh (c.subs st.subs.length) ls = some b')
    (hrel : SRelX c.sh (reqs st.subs.length) sNew b') :
    ∃ ls c', SubLTS.fireAll (C06Glue.subSys reqs) c ls = some c' ∧
      StRelX reqs { st with subs := st.subs ++ [sNew] } c' := by
  refine ⟨ls.map (fun l => SubLTS.Label.sub st.subs.length l), ⟨c.sh, SubLTS.setFn c.subs st.subs.length b'⟩,
    fireAll_local _ _ ls c b' hr, ?_⟩
  refine { vrel := h.vrel, ok := h.ok, subs := ⟨?_, ?_⟩ }
  · intro i s hi
    show SRelX c.sh (reqs i) s (SubLTS.setFn c.subs st.subs.length b' i)
    by_cases hlt : i < st.subs.length
    · rw [List.getElem?_append_left hlt] at hi
      rw [SubLTS.setFn_other _ _ (Nat.ne_of_lt hlt)]
      exact h.subs.rel i s hi
    · have hge : st.subs.length ≤ i := Nat.le_of_not_lt hlt
      rw [List.getElem?_append_right hge] at hi
      have hi0 : i - st.subs.length = 0 := by
        cases hd : i - st.subs.length with
        | zero => rfl
        | succ d => rw [hd] at hi; simp at hi
      have hieq : i = st.subs.length := by omega
      subst hieq
      rw [hi0] at hi
      simp only [List.getElem?_cons_zero, Option.some.injEq] at hi
      subst hi
      rw [SubLTS.setFn_same]
      exact hrel
  · intro i hi
    simp only [List.length_append, List.length_cons, List.length_nil] at hi
    show Fresh (SubLTS.setFn c.subs st.subs.length b' i)
    rw [SubLTS.setFn_other _ _ (by omega)]
    exact h.subs.fresh i (by omega)

theorem SRelX.congr {sh sh' : LShared} (hp : sh'.present = sh.present) (hg : sh'.gen = sh.gen)
    (hv : sh'.val = sh.val) {rq : Sub.Req × Sub.Acl} {s : Sub.Subscriber} {b : LSub} (h : SRelX sh rq s b) :
    SRelX sh' rq s b := by
  rcases h with h | h
  · exact Or.inl (SRel.congr hp hg hv h)
  · exact Or.inr
      { alive := h.alive, req := h.req, acl := h.acl, mode := h.mode, regs := h.regs, closed := h.closed,
        closed_once := h.closed_once, status := h.status, pc := h.pc, reg := h.reg, bstatus := h.bstatus,
        walker := h.walker, gate := h.gate, q := h.q.mono (fun x _ y hy => hy.congr hp hg hv), snd := h.snd,
        sent := h.sent, nonotes := h.nonotes, held := h.held, tgt := h.tgt, paths := h.paths }

/-- `Cache.Add` of a fresh target: `tAdd` -/
theorem add_simX (reqs : Nat → Sub.Req × Sub.Acl) {st : Sub.State} {c : LCfg} (h : StRelX reqs st c) (name : String)
    (hfresh : st.cache.get name = none) (hok : CacheOK (st.cache.add name)) :
    ∃ ls c', SubLTS.fireAll (C06Glue.subSys reqs) c ls = some c' ∧
      StRelX reqs { st with cache := st.cache.add name } c' := by
  have htrees : ∀ t, treesOf (st.cache.add name) t = treesOf st.cache t := by
    intro t
    by_cases ht : t = name
    · subst ht
      have : (st.cache.add t).get t = some { name := t } := get_set_same ..
      rw [treesOf_some this, treesOf_none hfresh]
    · have : (st.cache.add name).get t = st.cache.get t := get_set_other _ _ _ _ ht
      unfold treesOf; rw [this]
  refine ⟨[.sh (.tAdd name)],
    ⟨{ c.sh with hasT := SubLTS.setFn c.sh.hasT name true }, fun i => c.subs i⟩, rfl, ?_⟩
  refine { vrel := ?_, ok := hok, subs := ⟨?_, h.subs.fresh⟩ }
  · exact { pres := fun t k => by rw [htrees]; exact h.vrel.pres t k
            val := fun t k n hn => h.vrel.val t k n (by rw [← htrees]; exact hn)
            hasT := fun t => by
              show SubLTS.setFn c.sh.hasT name true t = ((st.cache.add name).get t).isSome
              by_cases ht : t = name
              · subst ht
                have : (st.cache.add t).get t = some { name := t } := get_set_same ..
                rw [SubLTS.setFn_same, this]; rfl
              · have : (st.cache.add name).get t = st.cache.get t := get_set_other _ _ _ _ ht
                rw [SubLTS.setFn_other _ _ ht, this]; exact h.vrel.hasT t
            pend := h.vrel.pend
            keys := h.vrel.keys
            plain := fun t k n hn => h.vrel.plain t k n (by rw [← htrees]; exact hn)
            quiet := h.vrel.quiet }
  · intro i s hi
    exact SRelX.congr (sh := c.sh) (sh' := { c.sh with hasT := SubLTS.setFn c.sh.hasT name true }) rfl rfl rfl
      (h.subs.rel i s hi)

/-- **the send timeout** (`Sub.expire`), subscribers of every mode -/
theorem expire_simX (reqs : Nat → Sub.Req × Sub.Acl) {st : Sub.State} {c : LCfg} (h : StRelX reqs st c) :
    ∃ ls c', SubLTS.fireAll (C06Glue.subSys reqs) c ls = some c' ∧ StRelX reqs (Sub.expire st) c' := by
  refine mapSubs_simX reqs h
    (fun s => if s.alive ∧ s.blocked.isSome then { s with alive := false, status := some .unknown, blocked := none }
      else s) ?_
  intro rq s b hrel
  by_cases hc : s.alive = true ∧ s.blocked.isSome = true
  · rw [if_pos hc]
    cases hb : s.blocked with
    | none => rw [hb] at hc; cases hc.2
    | some r =>
      have hfacts : SndRel (some r) b ∧ s.acl = rq.2 ∧ SentRel s.out b.sent := by
        rcases hrel with (hl | hd) | hp
        · exact ⟨by rw [← hb]; exact hl.snd, hl.acl, hl.sent⟩
        · rw [hd.alive] at hc; cases hc.1
        · exact ⟨by rw [← hb]; exact hp.snd, hp.acl, hp.sent⟩
      obtain ⟨hsnd, hacl, hsent⟩ := hfacts
      have harm : b.armed = true := by
        rcases hsnd with ⟨_, _, harm⟩ | ⟨_, _, r', _, harm, _⟩ <;> exact harm
      refine ⟨[.expire], b.finish .timeout, ?_, Or.inl (Or.inr ?_)⟩
      · simp [runSub, SubLTS.subFire, harm]
      · exact { alive := rfl, acl := hacl, blocked := rfl, pc := rfl, snd := rfl, reg := rfl,
                bclosed := rfl, armed := rfl, status := ⟨.unknown, rfl, rfl⟩, sent := hsent }
  · rw [if_neg hc]
    exact ⟨[], _, rfl, hrel⟩

/-! ## the walk of an unregistered subscriber, over a queue that may already hold items -/

/-- what the walker's steps leave alone -/
structure Frame (b b' : LSub) : Prop where
  pc : b'.pc = b.pc
  reg : b'.registered = b.registered
  snd : b'.snd = b.snd
  armed : b'.armed = b.armed
  blocked : b'.blocked = b.blocked
  sent : b'.sent = b.sent
  status : b'.status = b.status

theorem Frame.refl (b : LSub) : Frame b b := ⟨rfl, rfl, rfl, rfl, rfl, rfl, rfl⟩

theorem Frame.trans {a b c : LSub} (h1 : Frame a b) (h2 : Frame b c) : Frame a c :=
  ⟨h2.pc.trans h1.pc, h2.reg.trans h1.reg, h2.snd.trans h1.snd, h2.armed.trans h1.armed,
    h2.blocked.trans h1.blocked, h2.sent.trans h1.sent, h2.status.trans h1.status⟩

theorem nhbc_of_nonotes {Q : List (Sub.Item × Nat)} (h : NoNotes Q) (t : String) (k : Path) :
    NoHandleBeforeCover Q t k := by
  intro a e d b hq _
  exact absurd rfl (h (Sub.Item.note e, d) (by rw [hq]; simp) e)

/-- during a walk: the SEQ queue built so far against the LTS client whose walker has visited `vis` -/
structure PWalkRel (sh : LShared) (rq : Sub.Req × Sub.Acl) (Q : List (Sub.Item × Nat)) (b : LSub)
    (vis : List K) : Prop where
  walker : ∃ todo, b.walker = .walking todo vis ∧
    (∀ x ∈ todo, x ∈ SubLTS.snapshot sh (ltsOf rq) ∧ x ∉ vis) ∧ (rq.1.updatesOnly = true → todo = [])
  closed : b.closed = false
  status : b.status = none
  q : QRel sh Q b.q
  nonotes : NoNotes Q
  visq : ∀ t k, (t, k) ∈ vis → Q.any (fun x => Sub.isHandleFor t k x.1) = true

/-- a queued attached handle of a present key is the LTS handle of its current generation, and conversely -/
theorem any_handle_iff {sh : LShared} {Q : List (Sub.Item × Nat)} {lq : List (LItem × Nat)} (hq : QRel sh Q lq)
    (t : String) (k : Path) (hpres : sh.present (t, k) = true) :
    Q.any (fun x => Sub.isHandleFor t k x.1) = true ↔
      SubLTS.Item.handle (t, k) (sh.gen (t, k)) ∈ lq.map (·.1) := by
  constructor
  · intro ha
    obtain ⟨x, hx, hh⟩ := List.any_eq_true.1 ha
    obtain ⟨m, hm⟩ := isHandleFor_elim hh
    obtain ⟨y, hy, hr⟩ := hq.exists_right x hx
    rw [hm] at hr
    obtain ⟨yi, yd⟩ := y
    cases yi with
    | handle k' g' =>
      obtain ⟨rfl, rfl, _⟩ := hr
      exact List.mem_map.2 ⟨_, hy, rfl⟩
    | _ => exact hr.elim
  · intro hm
    obtain ⟨y, hy, hy1⟩ := List.mem_map.1 hm
    obtain ⟨x, hx, hr⟩ := hq.exists_left y hy
    rw [hy1] at hr
    obtain ⟨xi, xd⟩ := x
    cases xi with
    | handle t' k' m =>
      obtain ⟨he, _⟩ := hr
      cases he
      exact List.any_eq_true.2 ⟨_, hx, by simp [Sub.isHandleFor]⟩
    | detached t' k' m =>
      exfalso
      obtain ⟨he, _, hnp, _⟩ := hr
      cases he
      have := hnp rfl
      rw [hpres] at this; cases this
    | note e' => cases e' <;> exact hr.elim
    | sync => exact hr.elim

/-- one leaf returned by `Cache.Query` during the walk: `visit`, unless the walk has visited the leaf
already (overlapping paths: SEQ only counts a duplicate) -/
theorem pwalk_step (reqs : Nat → Sub.Req × Sub.Acl) {V : Views} {H : String → Bool} {sh : LShared}
    (hv : VRel V H sh) {rq : Sub.Req × Sub.Acl} {Q : List (Sub.Item × Nat)} {b : LSub} {vis : List K}
    (h : PWalkRel sh rq Q b vis) (huo : rq.1.updatesOnly = false) (t : String) (k : Path) (n : Noti)
    (hl : lookup (V t) k = some n) (hw : C06Glue.walksOf rq.1 (t, k) = true)
    (hkey : n.target = t ∧ Sub.eventKey n = k) :
    ∃ ls b' vis', runSub (C06Glue.subSys reqs) (ltsOf rq) sh b ls = some b' ∧ npollL ls = 0 ∧ Frame b b' ∧
      PWalkRel sh rq (Sub.insertHandle Q t k n) b' vis' ∧ (t, k) ∈ vis' ∧ ∀ x ∈ vis, x ∈ vis' := by
  have hpres : sh.present (t, k) = true := by rw [hv.pres, hl]; rfl
  have hval : sh.val (t, k) (sh.gen (t, k)) = n := hv.val t k n hl
  have hat : n.atomic = false := hv.plain t k n hl
  have hiff := any_handle_iff h.q t k hpres
  rw [insertHandle_eq _ _ _ _ (nhbc_of_nonotes h.nonotes t k)]
  -- the SEQ queue with the handle of `(t, k)` replaced
  have hkeep : ∀ x : Sub.Item × Nat, ∀ t' k', Sub.isHandleFor t' k'
      (if Sub.isHandleFor t k x.1 then (Sub.Item.handle t k n, x.2 + 1) else x).1 = Sub.isHandleFor t' k' x.1 := by
    intro x t' k'
    by_cases hh : Sub.isHandleFor t k x.1 = true
    · obtain ⟨m, hm⟩ := isHandleFor_elim hh
      rw [if_pos hh, hm]; rfl
    · rw [if_neg hh]
  have hmapQ : ∀ lq : List (LItem × Nat), QRel sh Q lq → QRel sh (Q.map (fun x =>
      if Sub.isHandleFor t k x.1 then (Sub.Item.handle t k n, x.2 + 1) else x)) lq := by
    intro lq hq
    have := QRel.map2 (sh' := sh) (fun x => if Sub.isHandleFor t k x.1 then
      (Sub.Item.handle t k n, x.2 + 1) else x) id hq (fun x _ y hy => by
        by_cases hh : Sub.isHandleFor t k x.1 = true
        · obtain ⟨m, hm⟩ := isHandleFor_elim hh
          simp only [hh, if_true, id]
          rw [hm] at hy
          obtain ⟨yi, yd⟩ := y
          cases yi with
          | handle k' g =>
            obtain ⟨rfl, rfl, hp, _⟩ := hy
            exact ⟨rfl, rfl, hp, hval, hkey.1, hkey.2, hat⟩
          | _ => exact hy.elim
        · simp only [hh, if_false, id]; exact hy)
    simpa using this
  have hmapNN : NoNotes (Q.map (fun x =>
      if Sub.isHandleFor t k x.1 then (Sub.Item.handle t k n, x.2 + 1) else x)) := by
    intro x hx e he
    obtain ⟨x0, hx0, rfl⟩ := List.mem_map.1 hx
    by_cases hh : Sub.isHandleFor t k x0.1 = true
    · simp only [hh, if_true] at he; cases he
    · simp only [hh, if_false] at he; exact h.nonotes x0 hx0 e he
  have hmapAny : ∀ t' k', (Q.map (fun x =>
      if Sub.isHandleFor t k x.1 then (Sub.Item.handle t k n, x.2 + 1) else x)).any
        (fun x => Sub.isHandleFor t' k' x.1) = Q.any (fun x => Sub.isHandleFor t' k' x.1) := by
    intro t' k'
    rw [List.any_map]
    congr 1
    funext x; exact hkeep x t' k'
  by_cases hvis : (t, k) ∈ vis
  · -- visited already in this walk: nothing on the LTS side
    have hany := h.visq t k hvis
    rw [if_pos hany]
    refine ⟨[], b, vis, rfl, rfl, Frame.refl b, ?_, hvis, fun x hx => hx⟩
    exact { walker := h.walker, closed := h.closed, status := h.status, q := hmapQ _ h.q, nonotes := hmapNN,
            visq := fun t' k' hm => by rw [hmapAny]; exact h.visq t' k' hm }
  · obtain ⟨todo, hwk, htodo, htuo⟩ := h.walker
    have hwalks : (ltsOf rq).walks (t, k) = true := hw
    have huo' : (ltsOf rq).updatesOnly = false := huo
    have hfire : runSub (C06Glue.subSys reqs) (ltsOf rq) sh b [.visit (t, k)] =
        some { b.ins (.handle (t, k) (sh.gen (t, k))) with
                walker := .walking (todo.filter (· ≠ (t, k))) ((t, k) :: vis) } := by
      have hcnt := SubLTS.count_le_extra_of_not_mem hvis ((ltsOf rq).extra (t, k))
      simp only [runSub, SubLTS.subFire, hwk]
      rw [if_pos ⟨h.status, huo', hpres, hwalks, hcnt⟩]
    have hwalker' : ∃ todo', SubLTS.Walker.walking (todo.filter (· ≠ (t, k))) ((t, k) :: vis) =
          .walking todo' ((t, k) :: vis) ∧
        (∀ x ∈ todo', x ∈ SubLTS.snapshot sh (ltsOf rq) ∧ x ∉ (t, k) :: vis) ∧
        (rq.1.updatesOnly = true → todo' = []) := by
      refine ⟨_, rfl, ?_, fun hu => by rw [huo] at hu; cases hu⟩
      intro x hx
      obtain ⟨hx1, hx2⟩ := List.mem_filter.1 hx
      have hne : x ≠ (t, k) := by simpa using hx2
      refine ⟨(htodo x hx1).1, ?_⟩
      intro hm
      rcases List.mem_cons.1 hm with e | e
      · exact hne e
      · exact (htodo x hx1).2 e
    have hframe : Frame b { b.ins (.handle (t, k) (sh.gen (t, k))) with
        walker := .walking (todo.filter (· ≠ (t, k))) ((t, k) :: vis) } :=
      ⟨by simp, by simp, by simp, by simp, by simp, by simp, by simp⟩
    by_cases hany : Q.any (fun x => Sub.isHandleFor t k x.1) = true
    · -- a handle queued before this walk (a POLL round under flow control): coalesced on both sides
      rw [if_pos hany]
      have hmem := hiff.1 hany
      have hins_q : (b.ins (.handle (t, k) (sh.gen (t, k)))).q =
          Coalesce.bump (.handle (t, k) (sh.gen (t, k))) b.q := by
        rw [SubLTS.ins_q, h.closed]
        simp [SubLTS.qins, SubLTS.Item.coal, hmem]
      refine ⟨_, _, (t, k) :: vis, hfire, (by rw [npollL_cons_ne (by intro e; cases e)]; rfl), hframe, ?_, List.mem_cons_self .., fun x hx => List.mem_cons_of_mem _ hx⟩
      exact { walker := hwalker', closed := by simp [h.closed], status := by simp [h.status],
              q := by
                show QRel sh _ (b.ins _).q
                rw [hins_q]
                exact QRel.bump _ (hmapQ _ h.q),
              nonotes := hmapNN,
              visq := by
                intro t' k' hm
                rw [hmapAny]
                rcases List.mem_cons.1 hm with e | e
                · cases e; exact hany
                · exact h.visq t' k' e }
    · rw [if_neg hany]
      have hnmem : SubLTS.Item.handle (t, k) (sh.gen (t, k)) ∉ b.q.map (·.1) := fun hm => hany (hiff.2 hm)
      have hins_q : (b.ins (.handle (t, k) (sh.gen (t, k)))).q = b.q ++ [(.handle (t, k) (sh.gen (t, k)), 0)] := by
        rw [SubLTS.ins_q, h.closed]
        simp only [Bool.false_eq_true, if_false, SubLTS.qins, hnmem, and_false]
      refine ⟨_, _, (t, k) :: vis, hfire, (by rw [npollL_cons_ne (by intro e; cases e)]; rfl), hframe, ?_, List.mem_cons_self .., fun x hx => List.mem_cons_of_mem _ hx⟩
      exact { walker := hwalker', closed := by simp [h.closed], status := by simp [h.status],
              q := by
                show QRel sh _ (b.ins _).q
                rw [hins_q]
                exact QRel.append h.q ⟨⟨rfl, rfl, hpres, hval, hkey.1, hkey.2, hat⟩, trivial⟩,
              nonotes := by
                intro x hx e he
                rcases List.mem_append.1 hx with hx | hx
                · exact h.nonotes x hx e he
                · simp only [List.mem_singleton] at hx
                  subst hx
                  exact Sub.Item.noConfusion he,
              visq := by
                intro t' k' hm
                rw [List.any_append]
                rcases List.mem_cons.1 hm with e | e
                · cases e
                  simp [Sub.isHandleFor]
                · rw [h.visq t' k' e]; rfl }

theorem pwalk_items (reqs : Nat → Sub.Req × Sub.Acl) {V : Views} {H : String → Bool} {sh : LShared}
    (hv : VRel V H sh) {rq : Sub.Req × Sub.Acl} (huo : rq.1.updatesOnly = false) :
    ∀ (items : List (String × Path × Noti)) (Q : List (Sub.Item × Nat)) (b : LSub) (vis : List K),
    (∀ it ∈ items, lookup (V it.1) it.2.1 = some it.2.2 ∧ C06Glue.walksOf rq.1 (it.1, it.2.1) = true ∧
      (it.2.2.target = it.1 ∧ Sub.eventKey it.2.2 = it.2.1)) →
    PWalkRel sh rq Q b vis →
    ∃ ls b' vis', runSub (C06Glue.subSys reqs) (ltsOf rq) sh b ls = some b' ∧ npollL ls = 0 ∧ Frame b b' ∧
      PWalkRel sh rq (items.foldl (fun q it => Sub.insertHandle q it.1 it.2.1 it.2.2) Q) b' vis' ∧
      (∀ it ∈ items, (it.1, it.2.1) ∈ vis') ∧ ∀ x ∈ vis, x ∈ vis'
  | [], Q, b, vis, _, h => ⟨[], b, vis, rfl, rfl, Frame.refl b, h, (by intro _ hx; cases hx), fun x hx => hx⟩
  | it :: items, Q, b, vis, hit, h => by
    obtain ⟨h1, h2, h3⟩ := hit it (List.mem_cons_self ..)
    obtain ⟨ls1, b1, vis1, hr1, hn1, hf1, hw1, hm1, hs1⟩ := pwalk_step reqs hv h huo it.1 it.2.1 it.2.2 h1 h2 h3
    obtain ⟨ls2, b2, vis2, hr2, hn2, hf2, hw2, hm2, hs2⟩ := pwalk_items reqs hv huo items _ b1 vis1
      (fun x hx => hit x (List.mem_cons_of_mem _ hx)) hw1
    refine ⟨ls1 ++ ls2, b2, vis2, runSub_append hr1 hr2, (by rw [npollL_append, hn1, hn2]), hf1.trans hf2, hw2, ?_, fun x hx => hs2 x (hs1 x hx)⟩
    intro x hx
    rcases List.mem_cons.1 hx with rfl | hx
    · exact hs2 _ hm1
    · exact hm2 x hx

theorem any_sync_iff {sh : LShared} : ∀ {Q : List (Sub.Item × Nat)} {lq : List (LItem × Nat)}, QRel sh Q lq →
    (Q.any (fun x => x.1 == Sub.Item.sync) = true ↔ SubLTS.Item.syncMarker ∈ lq.map (·.1))
  | [], [], _ => by simp
  | [], _ :: _, h => h.elim
  | _ :: _, [], h => h.elim
  | x :: xs, y :: ys, h => by
    have ih := any_sync_iff h.2
    obtain ⟨xi, xd⟩ := x
    obtain ⟨yi, yd⟩ := y
    have h1 : IRel sh xi yi := h.1
    simp only [List.any_cons, Bool.or_eq_true, List.map_cons, List.mem_cons, ih, beq_iff_eq]
    constructor
    · rintro (e | e)
      · subst e
        cases yi with
        | syncMarker => exact Or.inl rfl
        | _ => exact h1.elim
      · exact Or.inr e
    · rintro (e | e)
      · left
        have e' : yi = SubLTS.Item.syncMarker := e.symm
        subst e'
        cases xi with
        | sync => rfl
        | handle _ _ _ => exact h1.elim
        | detached _ _ _ => exact h1.elim
        | note e' => cases e' <;> exact h1.elim
      · exact Or.inr e

/-- the end of the walk: `finish` queues the sync marker (coalesced with a pending one) and, for ONCE,
closes the queue -/
theorem pwalk_finish (reqs : Nat → Sub.Req × Sub.Acl) {sh : LShared} {rq : Sub.Req × Sub.Acl}
    {Q : List (Sub.Item × Nat)} {b : LSub} {vis : List K} (h : PWalkRel sh rq Q b vis)
    (hall : rq.1.updatesOnly = false → ∀ x ∈ SubLTS.snapshot sh (ltsOf rq), x ∈ vis) :
    ∃ b', runSub (C06Glue.subSys reqs) (ltsOf rq) sh b [.finish] = some b' ∧ Frame b b' ∧
      b'.walker = .done ∧ b'.closed = decide ((ltsOf rq).mode = .once) ∧
      QRel sh (Sub.insertSync Q) b'.q ∧ NoNotes (Sub.insertSync Q) := by
  obtain ⟨todo, hwk, htodo, htuo⟩ := h.walker
  have hnil : todo = [] := by
    cases huo : rq.1.updatesOnly with
    | true => exact htuo huo
    | false =>
      cases todo with
      | nil => rfl
      | cons x xs =>
        have := htodo x (List.mem_cons_self ..)
        exact absurd (hall huo x this.1) this.2
  subst hnil
  refine ⟨{ b.ins .syncMarker with walker := .done, closed := (b.ins .syncMarker).closed || decide ((ltsOf rq).mode = .once) }, ?_, ?_, rfl, ?_, ?_, ?_⟩
  · simp [runSub, SubLTS.subFire, hwk, h.status]
  · exact ⟨by simp, by simp, by simp, by simp, by simp, by simp, by simp⟩
  · simp [h.closed]
  · show QRel sh _ (b.ins _).q
    have hiff := any_sync_iff h.q
    by_cases hany : Q.any (fun x => x.1 == Sub.Item.sync) = true
    · have hmem := hiff.1 hany
      have hins_q : (b.ins .syncMarker).q = Coalesce.bump .syncMarker b.q := by
        rw [SubLTS.ins_q, h.closed]
        simp [SubLTS.qins, SubLTS.Item.coal, hmem]
      rw [hins_q]
      simp only [Sub.insertSync, hany, if_true]
      apply QRel.bump
      have := QRel.map2 (sh' := sh) (fun x : Sub.Item × Nat => if x.1 == Sub.Item.sync then (x.1, x.2 + 1) else x)
        id h.q (fun x _ y hy => by
          by_cases hh : (x.1 == Sub.Item.sync) = true
          · simp only [hh, if_true, id]; exact hy
          · simp only [hh, Bool.false_eq_true, if_false, id]; exact hy)
      simpa using this
    · have hnmem : SubLTS.Item.syncMarker ∉ b.q.map (·.1) := fun hm => hany (hiff.2 hm)
      have hins_q : (b.ins .syncMarker).q = b.q ++ [(.syncMarker, 0)] := by
        rw [SubLTS.ins_q, h.closed]
        simp only [Bool.false_eq_true, if_false, SubLTS.qins, hnmem, and_false]
      rw [hins_q]
      simp only [Sub.insertSync, hany, Bool.false_eq_true, if_false]
      exact QRel.append h.q ⟨trivial, trivial⟩
  · intro x hx e he
    unfold Sub.insertSync at hx
    split at hx
    · obtain ⟨x0, hx0, rfl⟩ := List.mem_map.1 hx
      by_cases hh : (x0.1 == Sub.Item.sync) = true
      · simp only [hh, if_true] at he
        exact h.nonotes x0 hx0 e he
      · simp only [hh, Bool.false_eq_true, if_false] at he
        exact h.nonotes x0 hx0 e he
    · rcases List.mem_append.1 hx with hx | hx
      · exact h.nonotes x hx e he
      · simp only [List.mem_singleton] at hx
        subst hx; cases he

/-! ### what the SEQ walk collects, against the LTS snapshot -/

theorem walk_facts {c : Cache.State} (hok : CacheOK c) {H : String → Bool} {sh : LShared}
    (hv : VRel (treesOf c) H sh) (r : Sub.Req) (acl : Sub.Acl) (hT : r.target ≠ "")
    {items : List (String × Path × Noti)} (hwi : Sub.walkItems c r = some items) :
    (∀ it ∈ items, lookup (treesOf c it.1) it.2.1 = some it.2.2 ∧ C06Glue.walksOf r (it.1, it.2.1) = true ∧
      (it.2.2.target = it.1 ∧ Sub.eventKey it.2.2 = it.2.1)) ∧
    (r.updatesOnly = false → ∀ x ∈ SubLTS.snapshot sh (ltsOf (r, acl)), ∃ m, (x.1, x.2, m) ∈ items) := by
  constructor
  · intro it hit
    obtain ⟨t, k, m⟩ := it
    obtain ⟨_, sp, hsp, full, hcp, hTT, hq, tg, htg, hm⟩ := MatchSub.walked_spec hwi hit
    have hg := get_of_mem hok.names htg
    have hl : lookup (treesOf c t) k = some m := by
      rw [treesOf_some hg]; exact lookup_some_of_mem (hok.unique hg) hm
    have hk := hok.hkey t k m hl
    rw [respKey_eq] at hk
    simp only [List.cons.injEq] at hk
    exact ⟨hl, C06Glue.walksOf_of_walked hwi hit, hk.1, hk.2⟩
  · intro huo x hx
    obtain ⟨t, k⟩ := x
    simp only [SubLTS.snapshot, List.mem_filter, Bool.and_eq_true] at hx
    obtain ⟨_, hp, hwk⟩ := hx
    have hwk' : C06Glue.walksOf r (t, k) = true := hwk
    rw [hv.pres] at hp
    cases hl : lookup (treesOf c t) k with
    | none => rw [hl] at hp; cases hp
    | some m =>
      refine ⟨m, ?_⟩
      by_cases hex : r.target = glob ∨ (c.get r.target).isSome = true
      · exact (items_iff hok hT hex huo hwi t k m).2 ⟨hl, walksOf_regs hwk'⟩
      · exfalso
        have h1 : r.target ≠ glob := fun e => hex (Or.inl e)
        have h2 : c.get r.target = none := by
          cases hg : c.get r.target with
          | none => rfl
          | some tg => exact absurd (Or.inr (by rw [hg]; rfl)) hex
        unfold C06Glue.walksOf at hwk'
        simp only [Bool.and_eq_true, Bool.or_eq_true, beq_iff_eq] at hwk'
        rcases hwk'.1 with e | e
        · exact h1 e
        · have e' : r.target = t := e
          rw [← e', treesOf_none h2] at hl
          simp [lookup] at hl

/-- **the whole walk** (`Sub.doWalk` on the queue): `visit`… `finish` -/
theorem pdoWalk_sim (reqs : Nat → Sub.Req × Sub.Acl) {c : Cache.State} (hok : CacheOK c) {H : String → Bool}
    {sh : LShared} (hv : VRel (treesOf c) H sh) {rq : Sub.Req × Sub.Acl} (hT : rq.1.target ≠ "")
    {items : List (String × Path × Noti)} (hwi : Sub.walkItems c rq.1 = some items)
    {Q : List (Sub.Item × Nat)} {b : LSub} (h : PWalkRel sh rq Q b []) :
    ∃ ls b', runSub (C06Glue.subSys reqs) (ltsOf rq) sh b ls = some b' ∧ npollL ls = 0 ∧ Frame b b' ∧
      b'.walker = .done ∧ b'.closed = decide ((ltsOf rq).mode = .once) ∧
      QRel sh (Sub.insertSync (items.foldl (fun q it => Sub.insertHandle q it.1 it.2.1 it.2.2) Q)) b'.q ∧
      NoNotes (Sub.insertSync (items.foldl (fun q it => Sub.insertHandle q it.1 it.2.1 it.2.2) Q)) := by
  obtain ⟨hitems, hcover⟩ := walk_facts hok hv rq.1 rq.2 hT hwi
  cases huo : rq.1.updatesOnly with
  | true =>
    have : items = [] := by
      unfold Sub.walkItems at hwi
      simp only [huo, if_true, Option.some.injEq] at hwi
      exact hwi.symm
    subst this
    obtain ⟨b', hr, hf, h1, h2, h3, h4⟩ := pwalk_finish reqs h (fun hu => by rw [huo] at hu; cases hu)
    exact ⟨_, b', hr, (by rw [npollL_cons_ne (by intro e; cases e)]; rfl), hf, h1, h2, h3, h4⟩
  | false =>
    obtain ⟨ls1, b1, vis, hr1, hn1, hf1, hW, hvis, _⟩ := pwalk_items reqs hv huo items Q b [] hitems h
    obtain ⟨b2, hr2, hf2, h1, h2, h3, h4⟩ := pwalk_finish reqs hW (by
      intro _ x hx
      obtain ⟨m, hm⟩ := hcover huo x hx
      exact hvis _ hm)
    exact ⟨_, b2, runSub_append hr1 hr2, (by rw [npollL_append, hn1, npollL_cons_ne (by intro e; cases e)]; rfl), hf1.trans hf2, h1, h2, h3, h4⟩

/-! ## `Subscribe`, every mode -/

theorem ltsOf_valid' (rq : Sub.Req × Sub.Acl) :
    (ltsOf rq).valid = (rq.1.hasSubscribe && !rq.1.prefixNil && rq.1.target != "") := rfl

/-- the four rejections of `Server.Subscribe` before the mode switch, whatever the mode -/
theorem subscribe_rejectX (reqs : Nat → Sub.Req × Sub.Acl) {V : Views} {sh : LShared} {c : Cache.State}
    (hv : VRel V (fun t => (c.get t).isSome) sh) (r : Sub.Req) (acl : Sub.Acl)
    (id : String) {b : LSub} (hf : Fresh b) (code : Sub.Code)
    (hcase : (code = .unauthenticated ∧ (ltsOf (r, acl)).aclOk = false) ∨
      ((ltsOf (r, acl)).aclOk = true ∧ code = .invalidArgument ∧
        (r.hasSubscribe && !r.prefixNil && r.target != "") = false) ∨
      ((ltsOf (r, acl)).aclOk = true ∧ code = .notFound ∧
        (r.hasSubscribe && !r.prefixNil && r.target != "") = true ∧ c.hasTarget r.target = false) ∨
      ((ltsOf (r, acl)).aclOk = true ∧ code = .permissionDenied ∧
        (r.hasSubscribe && !r.prefixNil && r.target != "") = true ∧ c.hasTarget r.target = true ∧
        r.target ≠ "*" ∧ acl.check r.target = false)) :
    ∃ ls b', runSub (C06Glue.subSys reqs) (ltsOf (r, acl)) sh b ls = some b' ∧
      DeadRel (r, acl) (endedSub id acl code) b' := by
  have hvalid := ltsOf_valid' (r, acl)
  rcases hcase with ⟨rfl, hacl⟩ | ⟨hacl, rfl, hval⟩ | ⟨hacl, rfl, hval, hnt⟩ | ⟨hacl, rfl, hval, hht, hns, hchk⟩
  · refine ⟨[.hs], b.finish .unauthenticated, ?_, deadRel_finish hf.sent id .unauthenticated⟩
    simp only [runSub, hs_h0 hf.pc, hacl, Bool.false_eq_true, if_false]
  · refine ⟨[.hs, .hs], b.finish .invalid, ?_, deadRel_finish hf.sent id .invalidArgument⟩
    have h1 : SubLTS.subFire (C06Glue.subSys reqs) (ltsOf (r, acl)) sh { b with pc := .h1 } .hs =
        some (b.finish .invalid) := by
      rw [hs_h1 rfl, hvalid, hval]; rfl
    simp only [runSub, hs_h0 hf.pc, hacl, if_true, h1]
  · have htne : r.target ≠ "" := by
      intro e; simp [e] at hval
    have hstar : r.target ≠ "*" := by
      intro e; simp [State.hasTarget, e] at hnt
    have hT : sh.hasT r.target = false := by
      have := hasTarget_eq hv r.target htne
      rw [hnt, if_neg hstar] at this; exact this.symm
    refine ⟨[.hs, .hs, .hs], b.finish .notFound, ?_, deadRel_finish hf.sent id .notFound⟩
    have h1 : SubLTS.subFire (C06Glue.subSys reqs) (ltsOf (r, acl)) sh { b with pc := .h1 } .hs =
        some { b with pc := .h2 } := by
      rw [hs_h1 rfl, hvalid, hval]; rfl
    have h2 : SubLTS.subFire (C06Glue.subSys reqs) (ltsOf (r, acl)) sh { b with pc := .h2 } .hs =
        some (b.finish .notFound) := by
      rw [hs_h2 rfl, ltsOf_single, if_neg hstar]
      simp only [hT, Bool.false_eq_true, if_false]
      rfl
    simp only [runSub, hs_h0 hf.pc, hacl, if_true, h1, h2]
  · have htne : r.target ≠ "" := by
      intro e; simp [e] at hval
    have hT : sh.hasT r.target = true := by
      have := hasTarget_eq hv r.target htne
      rw [hht, if_neg hns] at this; exact this.symm
    refine ⟨[.hs, .hs, .hs, .hs], b.finish .denied, ?_, deadRel_finish hf.sent id .permissionDenied⟩
    have h1 : SubLTS.subFire (C06Glue.subSys reqs) (ltsOf (r, acl)) sh { b with pc := .h1 } .hs =
        some { b with pc := .h2 } := by
      rw [hs_h1 rfl, hvalid, hval]; rfl
    have h2 : SubLTS.subFire (C06Glue.subSys reqs) (ltsOf (r, acl)) sh { b with pc := .h2 } .hs =
        some { b with pc := .h3 } := by
      rw [hs_h2 rfl, ltsOf_single, if_neg hns]
      simp only [hT, if_true]
    have h3 : SubLTS.subFire (C06Glue.subSys reqs) (ltsOf (r, acl)) sh { b with pc := .h3 } .hs =
        some (b.finish .denied) := by
      rw [hs_h3 rfl, ltsOf_single, if_neg hns]
      have : (ltsOf (r, acl)).allow r.target = false := hchk
      simp only [this, Bool.false_eq_true, if_false]
      rfl
    simp only [runSub, hs_h0 hf.pc, hacl, if_true, h1, h2, h3]

section handlerNS
variable {sys : LSys} {rq : LReq} {sh : LShared} {b : LSub}

theorem hs_h4_ns (hpc : b.pc = .h4) (hm : rq.mode = .poll ∨ rq.mode = .once) :
    SubLTS.subFire sys rq sh b .hs = some { b with pc := .spawn } := by
  rcases hm with hm | hm <;> simp [SubLTS.subFire, SubLTS.hFire, hpc, hm]

theorem hs_h4_other (hpc : b.pc = .h4) (hm : rq.mode = .other) :
    SubLTS.subFire sys rq sh b .hs = some (b.finish .invalid) := by
  simp [SubLTS.subFire, SubLTS.hFire, hpc, hm]

theorem hs_spawn_ns (hpc : b.pc = .spawn) (hm : rq.mode = .poll ∨ rq.mode = .once) (hsw : sys.swap = false)
    (hreg : b.registered = false) :
    SubLTS.subFire sys rq sh b .hs =
    some { b with walker := .walking (if rq.updatesOnly then [] else SubLTS.snapshot sh rq) [],
                  rounds := b.rounds + 1, snd := .idle, held := SubLTS.heldNow sh,
                  since := sh.keys.filter sh.present, pc := .run } := by
  rcases hm with hm | hm <;> simp [SubLTS.subFire, SubLTS.hFire, hpc, hm, hsw, hreg, SubLTS.Sub.startWalk]

end handlerNS

theorem ltsOf_mode' (rq : Sub.Req × Sub.Acl) : (ltsOf rq).mode = C06Glue.ltsMode rq.1.mode := rfl

/-- the handler of an accepted ONCE / POLL call runs to `<-errC`: `h0 … h4`, the spawns -/
theorem phandler_accept (reqs : Nat → Sub.Req × Sub.Acl) (sh : LShared) (rq : Sub.Req × Sub.Acl) {b : LSub}
    (hf : Fresh b) (gated : Bool) (hm : rq.1.mode = .poll ∨ rq.1.mode = .once)
    (hacl : (ltsOf rq).aclOk = true) (hval : (ltsOf rq).valid = true)
    (hT : rq.1.target ≠ "*" → sh.hasT rq.1.target = true ∧ rq.2.check rq.1.target = true) :
    ∃ b6, runSub (C06Glue.subSys reqs) (ltsOf rq) sh b
        ((if gated then SubLTS.SLabel.gateClose else .gateOpen) :: [.hs, .hs, .hs, .hs, .hs, .hs]) = some b6 ∧
      b6.pc = .run ∧ b6.registered = false ∧ b6.closed = false ∧ b6.snd = .idle ∧ b6.armed = false ∧
      b6.blocked = gated ∧ b6.sent = [] ∧ b6.status = none ∧ b6.q = [] ∧
      b6.walker = .walking (if rq.1.updatesOnly then [] else SubLTS.snapshot sh (ltsOf rq)) [] := by
  obtain ⟨pc, reg, q, closed, walker, snd, armed, blocked, sent, status, insLog, deliv, held, since, rounds⟩ := b
  obtain ⟨h1, h2, h3, h4, h5, h6, h7, h8, h9, h10⟩ := hf
  simp only at h1 h2 h3 h4 h5 h6 h7 h8 h9 h10
  subst h1 h2 h3 h4 h5 h6 h7 h8 h9 h10
  have hmode : (ltsOf rq).mode = .poll ∨ (ltsOf rq).mode = .once := by
    rw [ltsOf_mode']
    rcases hm with hm | hm <;> rw [hm]
    · exact Or.inl rfl
    · exact Or.inr rfl
  have hsw : (C06Glue.subSys reqs).swap = false := rfl
  have hgate : ∀ b : LSub, SubLTS.subFire (C06Glue.subSys reqs) (ltsOf rq) sh b
      (if gated then SubLTS.SLabel.gateClose else .gateOpen) = some { b with blocked := gated } := by
    intro b; cases gated <;> rfl
  have huo' : (ltsOf rq).updatesOnly = rq.1.updatesOnly := rfl
  by_cases hs : rq.1.target = "*"
  · have hsg : (ltsOf rq).single = none := by rw [ltsOf_single, if_pos hs]
    simp only [runSub, hgate, hs_h0, hacl, if_true, hs_h1, hval, hs_h2, hs_h3, hsg,
      hs_h4_ns, hmode, hs_spawn_ns, hsw, huo', Option.some.injEq, exists_eq_left']
    simp
  · have hsg : (ltsOf rq).single = some rq.1.target := by rw [ltsOf_single, if_neg hs]
    have hal : (ltsOf rq).allow rq.1.target = true := (hT hs).2
    simp only [runSub, hgate, hs_h0, hacl, if_true, hs_h1, hval, hs_h2, hs_h3, hsg, (hT hs).1, hal,
      hs_h4_ns, hmode, hs_spawn_ns, hsw, huo', Option.some.injEq, exists_eq_left']
    simp

/-- the subscriber an accepted call creates, by mode -/
def acceptedSub (st : Sub.State) (id : String) (acl : Sub.Acl) (r : Sub.Req) : Sub.Subscriber :=
  match r.mode with
  | .once =>
    Sub.pumpAll (if (Sub.doWalk st.cache (Sub.newSubscriber (st.pregated.contains id) id r acl)).alive then
      { Sub.doWalk st.cache (Sub.newSubscriber (st.pregated.contains id) id r acl) with closed := true }
      else Sub.doWalk st.cache (Sub.newSubscriber (st.pregated.contains id) id r acl))
  | .poll => Sub.pumpAll (Sub.doWalk st.cache (Sub.newSubscriber (st.pregated.contains id) id r acl))
  | .stream => Sub.pumpAll (walkedSub st.cache (st.pregated.contains id) id r acl)
  | .other => endedSub id acl .invalidArgument

theorem subscribe_unfoldX (st : Sub.State) (id : String) (acl : Sub.Acl) (r : Sub.Req)
    (hacl : (ltsOf (r, acl)).aclOk = true) :
    Sub.subscribe st id acl (some r) =
      if !r.hasSubscribe then { st with subs := st.subs ++ [endedSub id acl .invalidArgument] }
      else if r.prefixNil then { st with subs := st.subs ++ [endedSub id acl .invalidArgument] }
      else if r.target = "" then { st with subs := st.subs ++ [endedSub id acl .invalidArgument] }
      else if !st.cache.hasTarget r.target then { st with subs := st.subs ++ [endedSub id acl .notFound] }
      else if r.target ≠ "*" ∧ !acl.check r.target then
        { st with subs := st.subs ++ [endedSub id acl .permissionDenied] }
      else { st with subs := st.subs ++ [acceptedSub st id acl r] } := by
  cases hm : r.mode with
  | stream =>
    rw [subscribe_unfold st id acl r hm hacl]
    simp only [acceptedSub, hm]
  | once =>
    cases acl with
    | fails => cases hacl
    | absent => simp only [Sub.subscribe, hm, endedSub, acceptedSub]
    | allow ts => simp only [Sub.subscribe, hm, endedSub, acceptedSub]
  | poll =>
    cases acl with
    | fails => cases hacl
    | absent => simp only [Sub.subscribe, hm, endedSub, acceptedSub]
    | allow ts => simp only [Sub.subscribe, hm, endedSub, acceptedSub]
  | other =>
    cases acl with
    | fails => cases hacl
    | absent => simp only [Sub.subscribe, hm, endedSub, acceptedSub]
    | allow ts => simp only [Sub.subscribe, hm, endedSub, acceptedSub]

/-- the five outcomes of `Sub.subscribe` for a request of any mode -/
def SubCasesX (st : Sub.State) (id : String) (acl : Sub.Acl) (r : Sub.Req) (sNew : Sub.Subscriber) : Prop :=
  ((ltsOf (r, acl)).aclOk = false ∧ sNew = endedSub id acl .unauthenticated) ∨
  ((ltsOf (r, acl)).aclOk = true ∧ (r.hasSubscribe && !r.prefixNil && r.target != "") = false ∧
     sNew = endedSub id acl .invalidArgument) ∨
  ((ltsOf (r, acl)).aclOk = true ∧ (r.hasSubscribe && !r.prefixNil && r.target != "") = true ∧
     st.cache.hasTarget r.target = false ∧ sNew = endedSub id acl .notFound) ∨
  ((ltsOf (r, acl)).aclOk = true ∧ (r.hasSubscribe && !r.prefixNil && r.target != "") = true ∧
     st.cache.hasTarget r.target = true ∧ r.target ≠ "*" ∧ acl.check r.target = false ∧
     sNew = endedSub id acl .permissionDenied) ∨
  ((ltsOf (r, acl)).aclOk = true ∧ (r.hasSubscribe && !r.prefixNil && r.target != "") = true ∧
     st.cache.hasTarget r.target = true ∧ (r.target ≠ "*" → acl.check r.target = true) ∧
     sNew = acceptedSub st id acl r)

theorem subscribe_casesX (st : Sub.State) (id : String) (acl : Sub.Acl) (r : Sub.Req) :
    ∃ sNew, Sub.subscribe st id acl (some r) = { st with subs := st.subs ++ [sNew] } ∧
      SubCasesX st id acl r sNew := by
  cases hacl : (ltsOf (r, acl)).aclOk with
  | false =>
    refine ⟨endedSub id acl .unauthenticated, ?_, Or.inl ⟨hacl, rfl⟩⟩
    cases acl with
    | fails => simp [Sub.subscribe, endedSub]
    | absent => cases hacl
    | allow ts => cases hacl
  | true =>
    rw [subscribe_unfoldX st id acl r hacl]
    by_cases h1 : r.hasSubscribe = true
    · by_cases h2 : r.prefixNil = true
      · exact ⟨_, by simp [h1, h2], Or.inr (Or.inl ⟨hacl, by simp [h1, h2], rfl⟩)⟩
      · by_cases h3 : r.target = ""
        · exact ⟨_, by simp [h1, h2, h3], Or.inr (Or.inl ⟨hacl, by simp [h3], rfl⟩)⟩
        · have hval : (r.hasSubscribe && !r.prefixNil && r.target != "") = true := by simp [h1, h2, h3]
          by_cases h4 : st.cache.hasTarget r.target = true
          · by_cases h5 : r.target ≠ "*" ∧ acl.check r.target = false
            · exact ⟨_, by simp [h1, h2, h3, h4, h5.1, h5.2],
                Or.inr (Or.inr (Or.inr (Or.inl ⟨hacl, hval, h4, h5.1, h5.2, rfl⟩)))⟩
            · have h5' : r.target ≠ "*" → acl.check r.target = true := by
                intro hne
                cases hc : acl.check r.target with
                | true => rfl
                | false => exact absurd ⟨hne, hc⟩ h5
              have h5'' : ¬ (r.target ≠ "*" ∧ (!acl.check r.target) = true) := by
                intro ⟨a, b⟩; rw [h5' a] at b; cases b
              exact ⟨_, by simp only [h1, h2, h3, h4, h5'', Bool.not_true, Bool.false_eq_true, if_false],
                Or.inr (Or.inr (Or.inr (Or.inr ⟨hacl, hval, h4, h5', rfl⟩)))⟩
          · have h4' : st.cache.hasTarget r.target = false := by simpa using h4
            exact ⟨_, by simp [h1, h2, h3, h4'], Or.inr (Or.inr (Or.inl ⟨hacl, hval, h4', rfl⟩))⟩
    · exact ⟨_, by simp [h1], Or.inr (Or.inl ⟨hacl, by simp [h1], rfl⟩)⟩

theorem newSubscriber_fields (gated : Bool) (id : String) (r : Sub.Req) (acl : Sub.Acl) :
    (Sub.newSubscriber gated id r acl).req = r ∧ (Sub.newSubscriber gated id r acl).acl = acl ∧
    (Sub.newSubscriber gated id r acl).queue = [] ∧ (Sub.newSubscriber gated id r acl).regs = [] ∧
    (Sub.newSubscriber gated id r acl).alive = true ∧ (Sub.newSubscriber gated id r acl).closed = false ∧
    (Sub.newSubscriber gated id r acl).blocked = none ∧ (Sub.newSubscriber gated id r acl).out = [] ∧
    (Sub.newSubscriber gated id r acl).status = none ∧ (Sub.newSubscriber gated id r acl).gateShut = gated :=
  ⟨rfl, rfl, rfl, rfl, rfl, rfl, rfl, rfl, rfl, rfl⟩

theorem doWalk_some (c : Cache.State) (s : Sub.Subscriber) {items : List (String × Path × Noti)}
    (h : Sub.walkItems c s.req = some items) :
    Sub.doWalk c s =
      { s with queue := Sub.insertSync (items.foldl (fun q it => Sub.insertHandle q it.1 it.2.1 it.2.2) s.queue) } := by
  simp only [Sub.doWalk, h]

theorem walkItems_some_of_paths (c : Cache.State) (r : Sub.Req)
    (hpaths : r.updatesOnly = false → ∀ sp ∈ r.subs, (Sub.completePath r sp).isSome = true) :
    ∃ items, Sub.walkItems c r = some items := by
  cases huo : r.updatesOnly with
  | true => exact ⟨[], by simp [Sub.walkItems, huo]⟩
  | false =>
    have hsome := walkItems_isSome c r (hpaths huo)
    cases hwi : Sub.walkItems c r with
    | none => rw [hwi] at hsome; cases hsome
    | some items => exact ⟨items, rfl⟩

theorem ltsMode_once (m : Sub.Mode) : (C06Glue.ltsMode m = SubLTS.Mode.once) ↔ m = .once := by
  cases m <;> simp [C06Glue.ltsMode]

/-- **A walk of a live ONCE / POLL subscriber** (the first one, or a POLL round): from the LTS client
whose walker has just been started (`b1`; `b0` is the same client with the walk over), `visit`… `finish`
lead to a client related to the subscriber `Sub.doWalk` yields -/
theorem pwalked_rel (reqs : Nat → Sub.Req × Sub.Acl) {c : Cache.State} (hok : CacheOK c) {H : String → Bool}
    {sh : LShared} (hv : VRel (treesOf c) H sh) {rq : Sub.Req × Sub.Acl} {s : Sub.Subscriber} {b0 b1 : LSub}
    (h : PLiveRel sh rq s b0) (hcl : b0.closed = false) (hfr : Frame b0 b1) (hq : b1.q = b0.q)
    (hcl1 : b1.closed = false)
    (hw : b1.walker = .walking (if rq.1.updatesOnly then [] else SubLTS.snapshot sh (ltsOf rq)) []) :
    ∃ ls b2, runSub (C06Glue.subSys reqs) (ltsOf rq) sh b1 ls = some b2 ∧ npollL ls = 0 ∧
      PLiveRel sh rq { Sub.doWalk c s with closed := decide (rq.1.mode = .once) } b2 := by
  obtain ⟨items, hwi⟩ := walkItems_some_of_paths c rq.1 h.paths
  have hwi' : Sub.walkItems c s.req = some items := by rw [h.req]; exact hwi
  have hW : PWalkRel sh rq s.queue b1 [] :=
    { walker := ⟨_, hw, by
        intro x hx
        refine ⟨?_, by simp⟩
        split at hx
        · cases hx
        · exact hx, by
        intro hu
        simp [hu]⟩,
      closed := hcl1, status := by rw [hfr.status]; exact h.bstatus,
      q := by rw [hq]; exact h.q, nonotes := h.nonotes, visq := by intro t k hm; cases hm }
  obtain ⟨ls, b2, hr, hn, hf2, hwd, hc2, hq2, hnn2⟩ := pdoWalk_sim reqs hok hv h.tgt hwi hW
  have hfr2 := hfr.trans hf2
  refine ⟨ls, b2, hr, hn, ?_⟩
  rw [doWalk_some c s hwi']
  have hdec : decide ((ltsOf rq).mode = .once) = decide (rq.1.mode = .once) := by
    rw [ltsOf_mode']
    exact decide_eq_decide.2 (ltsMode_once rq.1.mode)
  exact { alive := h.alive, req := h.req, acl := h.acl, mode := h.mode, regs := h.regs,
          closed := by rw [hc2, hdec],
          closed_once := by
            intro hc
            rw [hc2, hdec] at hc
            simpa using hc,
          status := h.status, pc := by rw [hfr2.pc]; exact h.pc, reg := by rw [hfr2.reg]; exact h.reg,
          bstatus := by rw [hfr2.status]; exact h.bstatus, walker := hwd,
          gate := by rw [hfr2.blocked]; exact h.gate, q := hq2,
          snd := by
            have := h.snd
            unfold SndRel at this ⊢
            rw [hfr2.snd, hfr2.armed]; exact this,
          sent := by rw [hfr2.sent]; exact h.sent, nonotes := hnn2, held := h.held, tgt := h.tgt, paths := h.paths }

/-- **`Server.Subscribe`, the local run of the new client, every mode** -/
theorem subscribe_localX (reqs : Nat → Sub.Req × Sub.Acl) {st : Sub.State} {sh : LShared}
    (hv : VRel (treesOf st.cache) (fun t => (st.cache.get t).isSome) sh) (hok : CacheOK st.cache)
    (id : String) (acl : Sub.Acl) (r : Sub.Req)
    (hpaths : r.updatesOnly = false → ∀ sp ∈ r.subs, (Sub.completePath r sp).isSome = true)
    {b : LSub} (hf : Fresh b) {sNew : Sub.Subscriber} (hcases : SubCasesX st id acl r sNew) :
    ∃ ls b', runSub (C06Glue.subSys reqs) (ltsOf (r, acl)) sh b ls = some b' ∧ SRelX sh (r, acl) sNew b' := by
  rcases hcases with ⟨ha, rfl⟩ | ⟨ha, hvl, rfl⟩ | ⟨ha, hvl, hnt, rfl⟩ | ⟨ha, hvl, hht, hns, hchk, rfl⟩ |
    ⟨ha, hvl, hht, hchk, rfl⟩
  · obtain ⟨ls, b', hr, hd⟩ := subscribe_rejectX reqs hv r acl id hf .unauthenticated (Or.inl ⟨rfl, ha⟩)
    exact ⟨ls, b', hr, Or.inl (Or.inr hd)⟩
  · obtain ⟨ls, b', hr, hd⟩ := subscribe_rejectX reqs hv r acl id hf .invalidArgument
      (Or.inr (Or.inl ⟨ha, rfl, hvl⟩))
    exact ⟨ls, b', hr, Or.inl (Or.inr hd)⟩
  · obtain ⟨ls, b', hr, hd⟩ := subscribe_rejectX reqs hv r acl id hf .notFound
      (Or.inr (Or.inr (Or.inl ⟨ha, rfl, hvl, hnt⟩)))
    exact ⟨ls, b', hr, Or.inl (Or.inr hd)⟩
  · obtain ⟨ls, b', hr, hd⟩ := subscribe_rejectX reqs hv r acl id hf .permissionDenied
      (Or.inr (Or.inr (Or.inr ⟨ha, rfl, hvl, hht, hns, hchk⟩)))
    exact ⟨ls, b', hr, Or.inl (Or.inr hd)⟩
  · -- accepted
    have htne : r.target ≠ "" := by intro e; simp [e] at hvl
    have hT : (r, acl).1.target ≠ "*" → sh.hasT (r, acl).1.target = true ∧ (r, acl).2.check (r, acl).1.target = true := by
      intro hns
      have := hasTarget_eq hv r.target htne
      rw [hht, if_neg hns] at this
      exact ⟨this.symm, hchk hns⟩
    have hval : (ltsOf (r, acl)).valid = true := by rw [ltsOf_valid' (r, acl)]; exact hvl
    have hchk' : (r, acl).1.target ≠ glob → (r, acl).2.check (r, acl).1.target = true := hchk
    cases hm : r.mode with
    | stream =>
      have hacc : acceptedSub st id acl r = Sub.pumpAll (walkedSub st.cache (st.pregated.contains id) id r acl) := by
        simp only [acceptedSub, hm]
      rw [hacc]
      obtain ⟨b7, hr7, p1, p2, p3, p4, p5, p6, p7, p8, p9⟩ :=
        handler_accept reqs sh (r, acl) hf (st.pregated.contains id) hm ha hval hT
      cases huo : r.updatesOnly with
      | true =>
        have huo' : (r, acl).1.updatesOnly = true := huo
        rw [huo'] at p9
        simp only [if_true] at p9
        have hlive := accept_uo_rel (sh := sh) (rq := (r, acl)) (gated := st.pregated.contains id) id hm hchk'
          p1 p2 p3 p4 p5 p6 p7 p8 p9.1 p9.2
        have hw : walkedSub st.cache (st.pregated.contains id) id r acl =
            { Sub.newSubscriber (st.pregated.contains id) id r acl with
              regs := Sub.regQueries r, queue := Sub.insertSync [] } := by
          simp [walkedSub, huo]
        rw [hw]
        obtain ⟨ls2, b8, hr8, hrel8⟩ := pumpAll_sim reqs (Or.inl hlive)
        exact ⟨_, b8, runSub_append hr7 hr8, Or.inl hrel8⟩
      | false =>
        have huo' : (r, acl).1.updatesOnly = false := huo
        rw [huo'] at p9
        simp only [Bool.false_eq_true, if_false] at p9
        have hsome := walkItems_isSome st.cache r (hpaths huo)
        cases hwi : Sub.walkItems st.cache r with
        | none => rw [hwi] at hsome; cases hsome
        | some items =>
          have hex : r.target = glob ∨ (st.cache.get r.target).isSome = true := by
            by_cases hs : r.target = "*"
            · exact Or.inl hs
            · right
              simpa [State.hasTarget, htne, hs] using hht
          have hiff := fun t k m => items_iff hok htne hex huo hwi t k m
          have hw : walkedSub st.cache (st.pregated.contains id) id r acl =
              { Sub.newSubscriber (st.pregated.contains id) id r acl with
                regs := Sub.regQueries r,
                queue := Sub.insertSync (items.foldl (fun q it => Sub.insertHandle q it.1 it.2.1 it.2.2) []) } := by
            simp [walkedSub, huo, Sub.doWalk, hwi, Sub.newSubscriber]
          rw [hw]
          have hW0 : WalkRel sh (r, acl) (st.pregated.contains id) [] b7 [] :=
            { walker := ⟨_, p9.2, fun x hx => ⟨hx, by simp⟩⟩, pc := p1, reg := p2, closed := p3, status := p8,
              snd := p4, armed := p5, blocked := p6, sent := p7, q := by rw [p9.1]; trivial,
              handles := (by intro x hx; cases hx),
              visq := (by intro t k; simp),
              wanted := (by intro x hx; cases hx),
              tgt := (by intro _ x hx; cases hx) }
          obtain ⟨ls2, b8, vis, hr8, hW8, hvis, _⟩ := walk_items_sim reqs hv (rq := (r, acl)) huo' items [] b7 []
            (by
              intro it hit
              obtain ⟨t, k, m⟩ := it
              have hl := ((hiff t k m).1 hit).1
              have hk := hok.hkey t k m hl
              rw [respKey_eq] at hk
              simp only [List.cons.injEq] at hk
              obtain ⟨_, _, _, _, _, hTT, _⟩ := MatchSub.walked_spec hwi hit
              refine ⟨hl, C06Glue.walksOf_of_walked hwi hit, ⟨hk.1, hk.2⟩, ?_⟩
              intro hne
              rcases hTT with e | e
              · exact absurd e hne
              · exact e.symm) hW0
          have hall : ∀ x ∈ SubLTS.snapshot sh (ltsOf (r, acl)), x ∈ vis := by
            intro x hx
            obtain ⟨t, k⟩ := x
            simp only [SubLTS.snapshot, List.mem_filter, Bool.and_eq_true] at hx
            obtain ⟨_, hp, hwk⟩ := hx
            have hwk' : C06Glue.walksOf r (t, k) = true := hwk
            rw [hv.pres] at hp
            cases hl : lookup (treesOf st.cache t) k with
            | none => rw [hl] at hp; cases hp
            | some m =>
              have := (hiff t k m).2 ⟨hl, walksOf_regs hwk'⟩
              exact hvis _ this
          obtain ⟨b9, hr9, hlive⟩ := walk_finish_sim reqs hW8 hm hall hchk' id
          obtain ⟨ls3, b10, hr10, hrel10⟩ := pumpAll_sim reqs (Or.inl hlive)
          exact ⟨_, b10, runSub_append hr7 (runSub_append hr8 (runSub_append hr9 hr10)), Or.inl hrel10⟩
    | other =>
      have hacc : acceptedSub st id acl r = endedSub id acl .invalidArgument := by
        simp only [acceptedSub, hm]
      rw [hacc]
      have hmode : (ltsOf (r, acl)).mode = .other := by rw [ltsOf_mode']; show C06Glue.ltsMode r.mode = _; rw [hm]; rfl
      refine ⟨[.hs, .hs, .hs, .hs, .hs], b.finish .invalid, ?_, Or.inl (Or.inr (deadRel_finish hf.sent id .invalidArgument))⟩
      have h1 : SubLTS.subFire (C06Glue.subSys reqs) (ltsOf (r, acl)) sh { b with pc := .h1 } .hs =
          some { b with pc := .h2 } := by
        rw [hs_h1 rfl, hval]; rfl
      have h2 : SubLTS.subFire (C06Glue.subSys reqs) (ltsOf (r, acl)) sh { b with pc := .h2 } .hs =
          some { b with pc := .h3 } := by
        rw [hs_h2 rfl, ltsOf_single]
        by_cases hs : r.target = "*"
        · rw [if_pos hs]
        · rw [if_neg hs]; simp only [(hT hs).1, if_true]
      have h3 : SubLTS.subFire (C06Glue.subSys reqs) (ltsOf (r, acl)) sh { b with pc := .h3 } .hs =
          some { b with pc := .h4 } := by
        rw [hs_h3 rfl, ltsOf_single]
        by_cases hs : r.target = "*"
        · rw [if_pos hs]
        · rw [if_neg hs]
          have : (ltsOf (r, acl)).allow r.target = true := (hT hs).2
          simp only [this, if_true]
      have h4 : SubLTS.subFire (C06Glue.subSys reqs) (ltsOf (r, acl)) sh { b with pc := .h4 } .hs =
          some (b.finish .invalid) := by
        rw [hs_h4_other rfl hmode]; rfl
      simp only [runSub, hs_h0 hf.pc, ha, if_true, h1, h2, h3, h4]
    | once =>
      have hmm : (r, acl).1.mode = .poll ∨ (r, acl).1.mode = .once := Or.inr hm
      obtain ⟨b6, hr6, p1, p2, p3, p4, p5, p6, p7, p8, p9, p10⟩ :=
        phandler_accept reqs sh (r, acl) hf (st.pregated.contains id) hmm ha hval hT
      have h0 : PLiveRel sh (r, acl) (Sub.newSubscriber (st.pregated.contains id) id r acl)
          { b6 with walker := .done } :=
        { alive := rfl, req := rfl, acl := rfl, mode := hmm, regs := rfl, closed := by simp [Sub.newSubscriber, p3],
          closed_once := (by intro hc; simp [p3] at hc), status := rfl, pc := p1, reg := p2, bstatus := p8,
          walker := rfl, gate := by simp [Sub.newSubscriber, p6], q := by simp [Sub.newSubscriber, p9, QRel],
          snd := ⟨p4, p5⟩, sent := by simp [SentRel, Sub.newSubscriber, p7],
          nonotes := (by intro x hx; cases hx), held := (by intro r hr; cases hr),
          tgt := htne, paths := hpaths }
      obtain ⟨ls2, b7, hr7, _, hrel7⟩ := pwalked_rel (b1 := b6) reqs hok hv h0 p3 ⟨rfl, rfl, rfl, rfl, rfl, rfl, rfl⟩ rfl p3 p10
      obtain ⟨items, hwi⟩ := walkItems_some_of_paths st.cache r hpaths
      have hdw := doWalk_some st.cache (Sub.newSubscriber (st.pregated.contains id) id r acl) hwi
      have hacc : acceptedSub st id acl r = Sub.pumpAll
          { Sub.doWalk st.cache (Sub.newSubscriber (st.pregated.contains id) id r acl) with
            closed := decide ((r, acl).1.mode = .once) } := by
        simp only [acceptedSub, hm]
        rw [hdw]
        simp [Sub.newSubscriber]
      rw [hacc]
      obtain ⟨ls3, b8, hr8, _, hrel8⟩ := ppump_sim reqs _ _ b7 hrel7
      exact ⟨_, b8, runSub_append hr6 (runSub_append hr7 hr8), hrel8⟩
    | poll =>
      have hmm : (r, acl).1.mode = .poll ∨ (r, acl).1.mode = .once := Or.inl hm
      obtain ⟨b6, hr6, p1, p2, p3, p4, p5, p6, p7, p8, p9, p10⟩ :=
        phandler_accept reqs sh (r, acl) hf (st.pregated.contains id) hmm ha hval hT
      have h0 : PLiveRel sh (r, acl) (Sub.newSubscriber (st.pregated.contains id) id r acl)
          { b6 with walker := .done } :=
        { alive := rfl, req := rfl, acl := rfl, mode := hmm, regs := rfl, closed := by simp [Sub.newSubscriber, p3],
          closed_once := (by intro hc; simp [p3] at hc), status := rfl, pc := p1, reg := p2, bstatus := p8,
          walker := rfl, gate := by simp [Sub.newSubscriber, p6], q := by simp [Sub.newSubscriber, p9, QRel],
          snd := ⟨p4, p5⟩, sent := by simp [SentRel, Sub.newSubscriber, p7],
          nonotes := (by intro x hx; cases hx), held := (by intro r hr; cases hr),
          tgt := htne, paths := hpaths }
      obtain ⟨ls2, b7, hr7, _, hrel7⟩ := pwalked_rel (b1 := b6) reqs hok hv h0 p3 ⟨rfl, rfl, rfl, rfl, rfl, rfl, rfl⟩ rfl p3 p10
      obtain ⟨items, hwi⟩ := walkItems_some_of_paths st.cache r hpaths
      have hdw := doWalk_some st.cache (Sub.newSubscriber (st.pregated.contains id) id r acl) hwi
      have hacc : acceptedSub st id acl r = Sub.pumpAll
          { Sub.doWalk st.cache (Sub.newSubscriber (st.pregated.contains id) id r acl) with
            closed := decide ((r, acl).1.mode = .once) } := by
        simp only [acceptedSub, hm]
        rw [hdw]
        simp [Sub.newSubscriber]
      rw [hacc]
      obtain ⟨ls3, b8, hr8, _, hrel8⟩ := ppump_sim reqs _ _ b7 hrel7
      exact ⟨_, b8, runSub_append hr6 (runSub_append hr7 hr8), hrel8⟩

/-- **`Server.Subscribe`, every mode** (a request was received; its paths complete) -/
theorem subscribe_simX (reqs : Nat → Sub.Req × Sub.Acl) {st : Sub.State} {c : LCfg} (h : StRelX reqs st c)
    (id : String) (acl : Sub.Acl) (r : Sub.Req) (hrq : reqs st.subs.length = (r, acl))
    (hpaths : r.updatesOnly = false → ∀ sp ∈ r.subs, (Sub.completePath r sp).isSome = true) :
    ∃ ls c', SubLTS.fireAll (C06Glue.subSys reqs) c ls = some c' ∧
      StRelX reqs (Sub.subscribe st id acl (some r)) c' := by
  obtain ⟨sNew, hsub, hcases⟩ := subscribe_casesX st id acl r
  obtain ⟨ls, b', hr, hrel⟩ := subscribe_localX reqs h.vrel h.ok id acl r hpaths
    (h.subs.fresh _ (Nat.le_refl _)) hcases
  rw [hsub]
  exact newSub_simX reqs h sNew (by rw [hrq]; exact hr) (by rw [hrq]; exact hrel)

/-! ## POLL: trigger and half-close -/

/-- **a poll trigger** on one subscriber: the `poll` step of a live POLL client, the walk, the sender run -/
theorem poll_localX (reqs : Nat → Sub.Req × Sub.Acl) {c : Cache.State} (hok : CacheOK c) {H : String → Bool}
    {sh : LShared} (hv : VRel (treesOf c) H sh) {rq : Sub.Req × Sub.Acl} {s : Sub.Subscriber} {b : LSub}
    (h : SRelX sh rq s b) :
    ∃ ls b', runSub (C06Glue.subSys reqs) (ltsOf rq) sh b ls = some b' ∧
      npollL ls = (if s.alive = true ∧ s.req.mode = .poll then 1 else 0) ∧
      SRelX sh rq (SubPoll.pollSub c s) b' := by
  have hsame : ¬ (s.alive = true ∧ s.req.mode = .poll) → SubPoll.pollSub c s = s := by
    intro hn; unfold SubPoll.pollSub; rw [if_neg hn]
  rcases h with (hl | hd) | hp
  · have hn : ¬ (s.alive = true ∧ s.req.mode = .poll) := by
      rintro ⟨_, hm⟩; rw [hl.req, hl.mode] at hm; cases hm
    refine ⟨[], b, rfl, by rw [if_neg hn]; rfl, ?_⟩
    rw [hsame hn]
    exact Or.inl (Or.inl hl)
  · have hn : ¬ (s.alive = true ∧ s.req.mode = .poll) := by
      rintro ⟨ha, _⟩; rw [hd.alive] at ha; cases ha
    refine ⟨[], b, rfl, by rw [if_neg hn]; rfl, ?_⟩
    rw [hsame hn]
    exact Or.inl (Or.inr hd)
  · by_cases hm : rq.1.mode = .poll
    · have hmode : (ltsOf rq).mode = .poll := by rw [ltsOf_mode', hm]; rfl
      have hcl : b.closed = false := by
        cases hc : b.closed with
        | false => rfl
        | true => have := hp.closed_once hc; rw [hm] at this; cases this
      have huo' : (ltsOf rq).updatesOnly = rq.1.updatesOnly := rfl
      have hfire : runSub (C06Glue.subSys reqs) (ltsOf rq) sh b [.poll] =
          some { b with walker := .walking (if rq.1.updatesOnly then [] else SubLTS.snapshot sh (ltsOf rq)) [],
                        rounds := b.rounds + 1, since := sh.keys.filter sh.present } := by
        simp [runSub, SubLTS.subFire, hp.bstatus, hmode, hp.walker, SubLTS.Sub.startWalk, huo']
      obtain ⟨ls2, b2, hr2, hn2, hrel2⟩ := pwalked_rel
        (b1 := { b with walker := .walking (if rq.1.updatesOnly then [] else SubLTS.snapshot sh (ltsOf rq)) [],
                        rounds := b.rounds + 1, since := sh.keys.filter sh.present })
        reqs hok hv hp hcl ⟨rfl, rfl, rfl, rfl, rfl, rfl, rfl⟩ rfl hcl rfl
      have hdec : decide (rq.1.mode = .once) = false := by rw [hm]; rfl
      have hsc : s.closed = false := by rw [hp.closed]; exact hcl
      have heq : ({ Sub.doWalk c s with closed := decide (rq.1.mode = .once) } : Sub.Subscriber) = Sub.doWalk c s := by
        obtain ⟨items, hwi⟩ := walkItems_some_of_paths c rq.1 hp.paths
        rw [doWalk_some c s (by rw [hp.req]; exact hwi), hdec]
        obtain ⟨id, req, acl, regs, alive, status, gateShut, gsd, blocked, queue, closed, out⟩ := s
        simp only at hsc
        subst hsc
        rfl
      rw [heq] at hrel2
      have hps : SubPoll.pollSub c s = Sub.pumpAll (Sub.doWalk c s) := by
        unfold SubPoll.pollSub
        rw [if_pos ⟨hp.alive, by rw [hp.req]; exact hm⟩]
      rw [hps]
      obtain ⟨ls3, b3, hr3, hn3, hrel3⟩ := ppump_sim reqs _ _ b2 hrel2
      refine ⟨_, b3, runSub_append hfire (runSub_append hr2 hr3), ?_, hrel3⟩
      rw [if_pos ⟨hp.alive, by rw [hp.req]; exact hm⟩, npollL_append, npollL_append, hn2, hn3]
      rfl
    · have hn : ¬ (s.alive = true ∧ s.req.mode = .poll) := by
        rintro ⟨_, hm'⟩; rw [hp.req] at hm'; exact hm hm'
      refine ⟨[], b, rfl, by rw [if_neg hn]; rfl, ?_⟩
      rw [hsame hn]
      exact Or.inr hp

theorem poll_simX (reqs : Nat → Sub.Req × Sub.Acl) {st : Sub.State} {c : LCfg} (h : StRelX reqs st c)
    (id : String) :
    ∃ ls c', SubLTS.fireAll (C06Glue.subSys reqs) c ls = some c' ∧ StRelX reqs (Sub.poll st id) c' := by
  rw [SubPoll.poll_eq]
  exact updateSub_simX reqs h id (SubPoll.pollSub st.cache)
    (fun rq s b _ _ hrel => by
      obtain ⟨ls, b', hr, _, hrel'⟩ := poll_localX reqs h.ok h.vrel hrel
      exact ⟨ls, b', hr, hrel'⟩)

/-- **the client half-closes** (`Recv` returns EOF): the `eof` step of a live POLL client.  The RPC returns:
a response its sender holds inside a gated `Send` is never delivered, in both models (SEQ drops it as the
send timeout does; in the LTS all goroutines of the RPC stop) -/
theorem eof_localX (reqs : Nat → Sub.Req × Sub.Acl) {sh : LShared} {rq : Sub.Req × Sub.Acl}
    {s : Sub.Subscriber} {b : LSub} (h : SRelX sh rq s b) :
    ∃ ls b', runSub (C06Glue.subSys reqs) (ltsOf rq) sh b ls = some b' ∧ SRelX sh rq (SubPoll.eofSub s) b' := by
  have hsame : ¬ (s.alive = true ∧ s.req.mode = .poll) → SubPoll.eofSub s = s := by
    intro hn; unfold SubPoll.eofSub; rw [if_neg hn]
  rcases h with (hl | hd) | hp
  · refine ⟨[], b, rfl, ?_⟩
    rw [hsame (by rintro ⟨_, hm⟩; rw [hl.req, hl.mode] at hm; cases hm)]
    exact Or.inl (Or.inl hl)
  · refine ⟨[], b, rfl, ?_⟩
    rw [hsame (by rintro ⟨ha, _⟩; rw [hd.alive] at ha; cases ha)]
    exact Or.inl (Or.inr hd)
  · by_cases hm : rq.1.mode = .poll
    · have hmode : (ltsOf rq).mode = .poll := by rw [ltsOf_mode', hm]; rfl
      have hes : SubPoll.eofSub s = { s with alive := false, status := some .ok, blocked := none } := by
        unfold SubPoll.eofSub
        rw [if_pos ⟨hp.alive, by rw [hp.req]; exact hm⟩]
      rw [hes]
      refine ⟨[.eof], b.finish .ok, ?_, Or.inl (Or.inr ?_)⟩
      · simp [runSub, SubLTS.subFire, hp.bstatus, hmode, hp.walker]
      · exact { alive := rfl, acl := hp.acl, blocked := rfl, pc := rfl,
                snd := rfl, reg := rfl, bclosed := rfl, armed := rfl, status := ⟨.ok, rfl, rfl⟩, sent := hp.sent }
    · refine ⟨[], b, rfl, ?_⟩
      rw [hsame (by rintro ⟨_, hm'⟩; rw [hp.req] at hm'; exact hm hm')]
      exact Or.inr hp

theorem eof_simX (reqs : Nat → Sub.Req × Sub.Acl) {st : Sub.State} {c : LCfg} (h : StRelX reqs st c)
    (id : String) :
    ∃ ls c', SubLTS.fireAll (C06Glue.subSys reqs) c ls = some c' ∧ StRelX reqs (Sub.eof st id) c' := by
  rw [SubPoll.eof_eq]
  exact updateSub_simX reqs h id SubPoll.eofSub
    (fun rq s b _ _ hrel => eof_localX reqs hrel)

end Refine
end Gnmi
