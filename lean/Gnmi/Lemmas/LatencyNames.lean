import Gnmi.Model.LatencyNames
/-!
# Lemmas about `Model/LatencyNames.lean` (printing and parsing of durations)

Used by `Props/C15LatNames.lean`.  Sections: A `fmtInt` against `leadingInt`; B `fmtFrac` against
`leadingFraction`; C exactness of the `float64` operations on the values `Duration.String`
produces; D one printed component against `parseComp`; E fuel of `parseLoop`; F `formatU` against
`parseLoop`; G a trailing `0m` / `0s` component does not change what `ParseDuration` returns; H lengths
(the `[32]byte` buffer) and the first byte of a printed duration.
-/
namespace Gnmi.LatNames

/-! ## A. `fmtInt` / `leadingInt` -/

/-- the string starts with a decimal digit -/
def HeadDigit (s : GoString) : Prop := ∃ (c : Nat) (r : List Nat), s = c :: r ∧ 48 ≤ c ∧ c ≤ 57

/-- the string is empty or starts with a byte that is not a digit -/
def NoDigitHead (s : GoString) : Prop := s = [] ∨ ∃ (c : Nat) (r : List Nat), s = c :: r ∧ (c < 48 ∨ c > 57)

theorem leadingInt_stop (x : Nat) (s : GoString) (h : NoDigitHead s) : leadingInt x s = some (x, s) := by
  rcases h with rfl | ⟨c, r, rfl, hc⟩
  · simp [leadingInt]
  · simp [leadingInt, hc]

theorem leadingInt_fmtIntLoop (fuel v : Nat) (buf : GoString) (hv : v ≤ two63) (hf : v < 10 ^ fuel) :
    leadingInt 0 (fmtIntLoop fuel v buf) = leadingInt v buf := by
  induction fuel generalizing v buf with
  | zero =>
    have : v = 0 := by simpa using hf
    subst this; simp [fmtIntLoop]
  | succ f ih =>
    unfold fmtIntLoop
    by_cases h0 : v > 0
    · simp only [h0, if_true]
      have hv' : v / 10 ≤ two63 := by omega
      have hf' : v / 10 < 10 ^ f := by
        rw [Nat.pow_succ] at hf; omega
      rw [ih (v / 10) _ hv' hf']
      have h1 : ¬ (v % 10 + 48 < 48 ∨ v % 10 + 48 > 57) := by omega
      have h2 : ¬ (v / 10 > two63 / 10) := by unfold two63 at *; omega
      have h3 : v / 10 * 10 + (v % 10 + 48) - 48 = v := by omega
      rw [leadingInt]
      simp only [h1, h2, if_false, h3]
      have h4 : ¬ (v > two63) := by omega
      simp only [h4, if_false]
    · have : v = 0 := by omega
      subst this; simp

theorem two63_lt : two63 < 10 ^ 20 := by decide

theorem leadingInt_fmtInt (v : Nat) (buf : GoString) (hv : v ≤ two63) :
    leadingInt 0 (fmtInt buf v) = leadingInt v buf := by
  unfold fmtInt
  by_cases h0 : v = 0
  · subst h0; simp [leadingInt]
  · simp only [h0, if_false]
    exact leadingInt_fmtIntLoop 20 v buf hv (Nat.lt_of_le_of_lt hv two63_lt)

theorem fmtIntLoop_headDigit (fuel v : Nat) (buf : GoString) (h : HeadDigit buf) :
    HeadDigit (fmtIntLoop fuel v buf) := by
  induction fuel generalizing v buf with
  | zero => simpa [fmtIntLoop] using h
  | succ f ih =>
    unfold fmtIntLoop
    by_cases h0 : v > 0
    · simp only [h0, if_true]
      apply ih
      refine ⟨v % 10 + 48, buf, rfl, ?_, ?_⟩ <;> omega
    · simpa [h0] using h

theorem fmtInt_headDigit (v : Nat) (buf : GoString) : HeadDigit (fmtInt buf v) := by
  unfold fmtInt
  by_cases h0 : v = 0
  · simp only [h0, if_true]; refine ⟨48, buf, rfl, ?_, ?_⟩ <;> omega
  · simp only [h0, if_false]
    have : fmtIntLoop 20 v buf = fmtIntLoop 19 (v / 10) ((v % 10 + 48) :: buf) := by
      rw [fmtIntLoop]; simp [Nat.pos_of_ne_zero h0]
    rw [this]
    apply fmtIntLoop_headDigit
    refine ⟨v % 10 + 48, buf, rfl, ?_, ?_⟩ <;> omega

theorem fmtIntLoop_length_ge (fuel v : Nat) (buf : GoString) : buf.length ≤ (fmtIntLoop fuel v buf).length := by
  induction fuel generalizing v buf with
  | zero => simp [fmtIntLoop]
  | succ f ih =>
    unfold fmtIntLoop
    by_cases h0 : v > 0
    · simp only [h0, if_true]
      have := ih (v / 10) ((v % 10 + 48) :: buf)
      simp at this; omega
    · simp [h0]

theorem fmtInt_length_gt (v : Nat) (buf : GoString) : buf.length < (fmtInt buf v).length := by
  unfold fmtInt
  by_cases h0 : v = 0
  · simp [h0]
  · simp only [h0, if_false]
    have : fmtIntLoop 20 v buf = fmtIntLoop 19 (v / 10) ((v % 10 + 48) :: buf) := by
      rw [fmtIntLoop]; simp [Nat.pos_of_ne_zero h0]
    rw [this]
    have := fmtIntLoop_length_ge 19 (v / 10) ((v % 10 + 48) :: buf)
    simp at this; omega

/-- the fuel of `fmtIntLoop` is enough for every `uint64`: more fuel changes nothing -/
theorem fmtIntLoop_fuel (f g v : Nat) (buf : GoString) (hf : v < 10 ^ f) (hfg : f ≤ g) :
    fmtIntLoop g v buf = fmtIntLoop f v buf := by
  induction f generalizing g v buf with
  | zero =>
    have : v = 0 := by simpa using hf
    subst this
    cases g <;> simp [fmtIntLoop]
  | succ f ih =>
    cases g with
    | zero => omega
    | succ g =>
      unfold fmtIntLoop
      by_cases h0 : v > 0
      · simp only [h0, if_true]
        exact ih _ _ _ (by rw [Nat.pow_succ] at hf; omega) (by omega)
      · simp [h0]

theorem fmtIntLoop_length_le (fuel v k : Nat) (buf : GoString) (hv : v < 10 ^ k) :
    (fmtIntLoop fuel v buf).length ≤ buf.length + k := by
  induction fuel generalizing v k buf with
  | zero => simp [fmtIntLoop]
  | succ f ih =>
    unfold fmtIntLoop
    by_cases h0 : v > 0
    · simp only [h0, if_true]
      cases k with
      | zero => simp at hv; omega
      | succ k =>
        have := ih (v / 10) k ((v % 10 + 48) :: buf) (by rw [Nat.pow_succ] at hv; omega)
        simp at this; omega
    · simp [h0]

theorem fmtInt_length_le (v k : Nat) (buf : GoString) (hv : v < 10 ^ k) (hk : 1 ≤ k) :
    (fmtInt buf v).length ≤ buf.length + k := by
  unfold fmtInt
  by_cases h0 : v = 0
  · simp [h0]; omega
  · simp only [h0, if_false]; exact fmtIntLoop_length_le 20 v k buf hv

/-! ## C. exactness of the `float64` operations -/

/-- the representation `roundRNE` gives to a positive integer below `2^53` -/
def canon (M : Nat) : F64 := .fin (M * 2 ^ (52 - Nat.log2 M)) ((Nat.log2 M : Int) - 52)

theorem log2_le_52 (M : Nat) (hM : 0 < M) (hM53 : M < 2 ^ 53) : Nat.log2 M ≤ 52 := by
  have := (Nat.log2_lt (Nat.pos_iff_ne_zero.1 hM)).2 hM53; omega

theorem canon_mant_lt (M : Nat) (hM : 0 < M) (hM53 : M < 2 ^ 53) : M * 2 ^ (52 - Nat.log2 M) < 2 ^ 53 := by
  have hl := log2_le_52 M hM hM53
  have h1 : M < 2 ^ (Nat.log2 M + 1) := Nat.lt_log2_self
  have h2 : M * 2 ^ (52 - Nat.log2 M) < 2 ^ (Nat.log2 M + 1) * 2 ^ (52 - Nat.log2 M) :=
    Nat.mul_lt_mul_of_pos_right h1 (Nat.two_pow_pos _)
  rw [← Nat.pow_add] at h2
  have : Nat.log2 M + 1 + (52 - Nat.log2 M) = 53 := by omega
  rwa [this] at h2

/-- a rational that is a positive integer below `2^53` is not changed by rounding -/
theorem roundRNE_exact (n d M : Nat) (hn : n = M * d) (hM : 0 < M) (hM53 : M < 2 ^ 53) (hd : 0 < d) :
    roundRNE n d = canon M := by
  subst hn
  have hl := log2_le_52 M hM hM53
  have h1 : M * d ≠ 0 := Nat.mul_ne_zero (by omega) (by omega)
  have h2 : d ≠ 0 := by omega
  have hfl : floorLog2 (M * d) d = (Nat.log2 M : Int) := by
    unfold floorLog2
    have : d ≤ M * d := Nat.le_mul_of_pos_left d hM
    simp [this, Nat.mul_div_cancel _ hd]
  have he : max ((Nat.log2 M : Int) - 52) (-1074) = (Nat.log2 M : Int) - 52 := by omega
  have hp1 : pow2 (-((Nat.log2 M : Int) - 52)) = 2 ^ (52 - Nat.log2 M) := by
    unfold pow2; congr 1; omega
  have hp2 : pow2 ((Nat.log2 M : Int) - 52) = 1 := by
    unfold pow2
    have : ((Nat.log2 M : Int) - 52).toNat = 0 := by omega
    rw [this]
  have hN : M * d * 2 ^ (52 - Nat.log2 M) = (M * 2 ^ (52 - Nat.log2 M)) * (d * 1) := by
    simp only [Nat.mul_one]; ac_rfl
  have hD : 0 < d * 1 := by omega
  have hm := canon_mant_lt M hM hM53
  have hm0 : M * 2 ^ (52 - Nat.log2 M) ≠ 0 := Nat.mul_ne_zero (by omega) (Nat.ne_of_gt (Nat.two_pow_pos _))
  have hlm : Nat.log2 (M * 2 ^ (52 - Nat.log2 M)) < 53 := (Nat.log2_lt hm0).2 hm
  unfold roundRNE
  simp only [h1, h2, if_false, hfl, he, hp1, hp2, hN, Nat.mul_div_cancel _ hD, Nat.mul_mod_left, Nat.mul_zero, hD,
    if_true]
  have : ¬ ((Nat.log2 (M * 2 ^ (52 - Nat.log2 M)) : Int) + ((Nat.log2 M : Int) - 52) ≥ 1024) := by omega
  simp only [this, if_false, canon]

theorem ofNat_canon (M : Nat) (hM : 0 < M) (hM53 : M < 2 ^ 53) : F64.ofNat M = canon M :=
  roundRNE_exact M 1 M (by simp) hM hM53 (by omega)

theorem mul_canon (A B : Nat) (hA : 0 < A) (hB : 0 < B) (h : A * B < 2 ^ 53) :
    (canon A).mul (canon B) = canon (A * B) := by
  have hA53 : A < 2 ^ 53 := Nat.lt_of_le_of_lt (Nat.le_mul_of_pos_right A hB) h
  have hB53 : B < 2 ^ 53 := Nat.lt_of_le_of_lt (Nat.le_mul_of_pos_left B hA) h
  have hlA := log2_le_52 A hA hA53
  have hlB := log2_le_52 B hB hB53
  unfold canon F64.mul
  simp only
  have hp1 : pow2 ((Nat.log2 A : Int) - 52 + ((Nat.log2 B : Int) - 52)) = 1 := by
    unfold pow2
    have : ((Nat.log2 A : Int) - 52 + ((Nat.log2 B : Int) - 52)).toNat = 0 := by omega
    rw [this]
  have hp2 : pow2 (-((Nat.log2 A : Int) - 52 + ((Nat.log2 B : Int) - 52))) =
      2 ^ (52 - Nat.log2 A) * 2 ^ (52 - Nat.log2 B) := by
    unfold pow2; rw [← Nat.pow_add]; congr 1; omega
  rw [hp1, hp2]
  exact roundRNE_exact _ _ (A * B) (by simp only [Nat.mul_one]; ac_rfl) (Nat.mul_pos hA hB) h
    (Nat.mul_pos (Nat.two_pow_pos _) (Nat.two_pow_pos _))

theorem toU64_canon (M : Nat) (hM : 0 < M) (hM53 : M < 2 ^ 53) : (canon M).toU64 = some M := by
  have hl := log2_le_52 M hM hM53
  unfold canon F64.toU64
  simp only
  have hv : (if (Nat.log2 M : Int) - 52 ≥ 0 then M * 2 ^ (52 - Nat.log2 M) * pow2 ((Nat.log2 M : Int) - 52)
      else M * 2 ^ (52 - Nat.log2 M) / pow2 (-((Nat.log2 M : Int) - 52))) = M := by
    by_cases h : (Nat.log2 M : Int) - 52 ≥ 0
    · have h52 : Nat.log2 M = 52 := by omega
      simp [pow2, h52]
    · have hp : pow2 (-((Nat.log2 M : Int) - 52)) = 2 ^ (52 - Nat.log2 M) := by
        unfold pow2; congr 1; omega
      simp only [h, if_false, hp]
      exact Nat.mul_div_cancel _ (Nat.two_pow_pos _)
  rw [hv]
  have : M < two64 := by unfold two64; omega
  simp [this]

/-- the quotients `ParseDuration` forms for the fractions `Duration.String` prints -/
theorem div_pow10 : ∀ j, j ≤ 9 → ∀ k, k ≤ j →
    (F64.ofNat (10 ^ j)).div (F64.ofNat (10 ^ k)) = F64.ofNat (10 ^ (j - k)) := by decide

/-- `scale *= 10` is exact as long as the fraction has at most 15 digits -/
theorem mul_ten_pow10 : ∀ i, i < 15 → (F64.ofNat (10 ^ i)).mul (F64.ofNat 10) = F64.ofNat (10 ^ (i + 1)) := by decide


/-! ## B. `fmtFrac` / `leadingFraction` -/

theorem leadingFraction_stop (x : Nat) (sc : F64) (ov : Bool) (s : GoString) (h : NoDigitHead s) :
    leadingFraction x sc ov s = (x, sc, s) := by
  rcases h with rfl | ⟨c, r, rfl, hc⟩
  · simp [leadingFraction]
  · simp [leadingFraction, hc]

theorem pow10_le (i j : Nat) (h : i ≤ j) : 10 ^ i ≤ 10 ^ j := Nat.pow_le_pow_right (by omega) h

/-- one more digit: `x = y; scale *= 10` -/
theorem leadingFraction_step (x i d : Nat) (buf : GoString) (hx : x < 10 ^ i) (hi : i < 15) (hd : d < 10) :
    leadingFraction x (F64.ofNat (10 ^ i)) false ((d + 48) :: buf) =
      leadingFraction (x * 10 + d) (F64.ofNat (10 ^ (i + 1))) false buf := by
  have h14 : 10 ^ i ≤ 10 ^ 14 := pow10_le i 14 (by omega)
  have h14' : (10 : Nat) ^ 14 = 100000000000000 := by decide
  rw [leadingFraction]
  have h1 : ¬ (d + 48 < 48 ∨ d + 48 > 57) := by omega
  have h2 : ¬ (x > (two63 - 1) / 10) := by unfold two63; omega
  have h3 : x * 10 + (d + 48) - 48 = x * 10 + d := by omega
  have h4 : ¬ (x * 10 + d > two63) := by unfold two63; omega
  simp only [h1, h2, h3, h4, if_false, mul_ten_pow10 i hi]
  simp

theorem mod_pow_succ (v i : Nat) : v % 10 ^ (i + 1) = (v / 10 % 10 ^ i) * 10 + v % 10 := by
  rw [Nat.pow_succ, Nat.mul_comm (10 ^ i) 10, Nat.mod_mul]; omega

theorem div_pow_succ (v i : Nat) : v / 10 / 10 ^ i = v / 10 ^ (i + 1) := by
  rw [Nat.div_div_eq_div_mul, Nat.pow_succ, Nat.mul_comm]

theorem fracLoop_true (i v : Nat) (buf : GoString) (hi : i ≤ 15) :
    leadingFraction 0 (F64.ofNat 1) false (fmtFracLoop i v true buf).1 =
        leadingFraction (v % 10 ^ i) (F64.ofNat (10 ^ i)) false buf
    ∧ (fmtFracLoop i v true buf).2 = (v / 10 ^ i, true)
    ∧ (fmtFracLoop i v true buf).1.length = buf.length + i := by
  induction i generalizing v buf with
  | zero => simp [fmtFracLoop, Nat.mod_one]
  | succ i ih =>
    have h := ih (v / 10) ((v % 10 + 48) :: buf) (by omega)
    unfold fmtFracLoop
    simp only [Bool.true_or, if_true]
    refine ⟨?_, ?_, ?_⟩
    · rw [h.1, leadingFraction_step _ i (v % 10) buf (Nat.mod_lt _ (Nat.pow_pos (by omega))) (by omega) (by omega),
        mod_pow_succ]
    · rw [h.2.1, div_pow_succ]
    · rw [h.2.2]; simp; omega

theorem fracLoop_false (i v : Nat) (buf : GoString) (hi : i ≤ 15) :
    (fmtFracLoop i v false buf).2.1 = v / 10 ^ i
    ∧ (v % 10 ^ i = 0 → (fmtFracLoop i v false buf).1 = buf ∧ (fmtFracLoop i v false buf).2.2 = false)
    ∧ (v % 10 ^ i ≠ 0 → (fmtFracLoop i v false buf).2.2 = true
        ∧ buf.length < (fmtFracLoop i v false buf).1.length
        ∧ ∃ f k, 0 < f ∧ f < 10 ^ k ∧ k ≤ i ∧ f * 10 ^ (i - k) = v % 10 ^ i
          ∧ leadingFraction 0 (F64.ofNat 1) false (fmtFracLoop i v false buf).1 =
              leadingFraction f (F64.ofNat (10 ^ k)) false buf) := by
  induction i generalizing v with
  | zero => simp [fmtFracLoop, Nat.mod_one]
  | succ i ih =>
    unfold fmtFracLoop
    by_cases hd : v % 10 = 0
    · have h := ih (v / 10) (by omega)
      have hm : v % 10 ^ (i + 1) = (v / 10 % 10 ^ i) * 10 := by rw [mod_pow_succ]; omega
      simp only [hd, Bool.false_or, ne_eq, not_true, decide_false, if_false, Bool.false_eq_true]
      refine ⟨by rw [h.1, div_pow_succ], ?_, ?_⟩
      · intro h0
        exact h.2.1 (by omega)
      · intro h0
        obtain ⟨h1, h2, f, k, hf, hfk, hk, hfe, hl⟩ := h.2.2 (by omega)
        refine ⟨h1, h2, f, k, hf, hfk, by omega, ?_, hl⟩
        have : i + 1 - k = (i - k) + 1 := by omega
        rw [this, Nat.pow_succ, ← Nat.mul_assoc, hfe, hm]
    · have h := fracLoop_true i (v / 10) ((v % 10 + 48) :: buf) (by omega)
      have hm := mod_pow_succ v i
      simp only [hd, Bool.false_or, ne_eq, not_false_eq_true, decide_true, if_true]
      refine ⟨by rw [h.2.1, div_pow_succ], ?_, ?_⟩
      · intro h0; omega
      · intro _
        refine ⟨by rw [h.2.1], by rw [h.2.2]; simp; omega, v % 10 ^ (i + 1), i + 1, by omega,
          Nat.mod_lt _ (Nat.pow_pos (by omega)), by omega, by simp, ?_⟩
        rw [h.1, leadingFraction_step _ i (v % 10) buf (Nat.mod_lt _ (Nat.pow_pos (by omega))) (by omega) (by omega),
          ← hm]

/-! ## D. one printed component against `parseComp` -/

/-- the bytes of a unit: not empty, no `.`, no digit -/
def UnitBytes (ub : GoString) : Prop := ub ≠ [] ∧ ∀ c ∈ ub, isNumByte c = false

/-- what follows a printed component: nothing, or the first digit of the next component -/
def RestOK (rest : GoString) : Prop := rest = [] ∨ ∃ (c : Nat) (r : List Nat), rest = c :: r ∧ isNumByte c = true

theorem spanUnit_append (ub rest : GoString) (h : ∀ c ∈ ub, isNumByte c = false) (hr : RestOK rest) :
    spanUnit (ub ++ rest) = (ub, rest) := by
  induction ub with
  | nil =>
    rcases hr with rfl | ⟨c, r, rfl, hc⟩
    · simp [spanUnit]
    · simp [spanUnit, hc]
  | cons c ub ih =>
    have hc : isNumByte c = false := h c (by simp)
    have := ih (fun x hx => h x (by simp [hx]))
    simp [spanUnit, hc, this]

theorem isNumByte_false (c : Nat) (h : isNumByte c = false) : c ≠ 46 ∧ (c < 48 ∨ c > 57) := by
  unfold isNumByte at h
  simp at h
  omega

theorem unitBytes_noDigitHead (ub rest : GoString) (h : UnitBytes ub) : NoDigitHead (ub ++ rest) := by
  obtain ⟨hne, hall⟩ := h
  cases ub with
  | nil => exact absurd rfl hne
  | cons c ub => exact Or.inr ⟨c, ub ++ rest, rfl, (isNumByte_false c (hall c (by simp))).2⟩

theorem headDigit_isNumByte (s : GoString) (h : HeadDigit s) : ∃ c r, s = c :: r ∧ isNumByte c = true := by
  obtain ⟨c, r, rfl, h1, h2⟩ := h
  exact ⟨c, r, rfl, by simp [isNumByte, h1, h2]⟩

/-- `parseComp` on a string that starts with a digit -/
theorem parseComp_headDigit (s : GoString) (h : HeadDigit s) :
    parseComp s = match leadingInt 0 s with
      | none => .err .invalid
      | some (v, s1) => compTail v (s.length != s1.length) s1 := by
  obtain ⟨c, r, rfl, hc⟩ := headDigit_isNumByte s h
  simp only [parseComp, hc, Bool.not_true, Bool.false_eq_true, if_false]
  cases leadingInt 0 (c :: r) <;> rfl

/-- an integer followed by a unit -/
theorem parseComp_int (w U : Nat) (ub rest : GoString) (hub : UnitBytes ub) (hr : RestOK rest)
    (hU : unitOf ub = some U) (hw : w * U ≤ two63) (hU0 : 0 < U) :
    parseComp (fmtInt (ub ++ rest) w) = .ok (w * U) rest := by
  have hw' : w ≤ two63 := Nat.le_trans (Nat.le_mul_of_pos_right w hU0) hw
  rw [parseComp_headDigit _ (fmtInt_headDigit _ _), leadingInt_fmtInt _ _ hw',
    leadingInt_stop _ _ (unitBytes_noDigitHead ub rest hub)]
  have hlen : ((fmtInt (ub ++ rest) w).length != (ub ++ rest).length) = true := by
    have := fmtInt_length_gt w (ub ++ rest); simp at this ⊢; omega
  simp only [hlen]
  obtain ⟨hne, hall⟩ := hub
  have hfp : fracPart (ub ++ rest) = (0, F64.ofNat 1, ub ++ rest, false) := by
    cases ub with
    | nil => exact absurd rfl hne
    | cons c ub =>
      have := (isNumByte_false c (hall c (by simp))).1
      simp only [List.cons_append]
      unfold fracPart
      split
      · rename_i heq; simp at heq; omega
      · rfl
  have hdiv : ¬ (w > two63 / U) := by
    have := (Nat.le_div_iff_mul_le hU0).2 hw; omega
  simp [compTail, hfp, spanUnit_append ub rest hall hr, hne, hU, compValue, hdiv]

/-- an integer, a printed fraction and a unit `10^prec` -/
theorem parseComp_frac (w f k prec r : Nat) (D ub rest : GoString) (hub : UnitBytes ub) (hr : RestOK rest)
    (hU : unitOf ub = some (10 ^ prec)) (hprec : prec ≤ 9) (hk : k ≤ prec) (hf0 : 0 < f) (hfk : f < 10 ^ k)
    (hfe : f * 10 ^ (prec - k) = r) (hr9 : r < 10 ^ prec) (hw : w * 10 ^ prec + r ≤ two63)
    (hlen : (ub ++ rest).length < D.length)
    (hD : leadingFraction 0 (F64.ofNat 1) false D = leadingFraction f (F64.ofNat (10 ^ k)) false (ub ++ rest)) :
    parseComp (fmtInt (46 :: D) w) = .ok (w * 10 ^ prec + r) rest := by
  have hU0 : 0 < 10 ^ prec := Nat.pow_pos (by omega)
  have hw' : w ≤ two63 := Nat.le_trans (Nat.le_mul_of_pos_right w hU0) (by omega)
  have h46 : NoDigitHead (46 :: D) := Or.inr ⟨46, D, rfl, by omega⟩
  rw [parseComp_headDigit _ (fmtInt_headDigit _ _), leadingInt_fmtInt _ _ hw', leadingInt_stop _ _ h46]
  have hlen1 : ((fmtInt (46 :: D) w).length != (46 :: D).length) = true := by
    have := fmtInt_length_gt w (46 :: D); simp at this ⊢; omega
  simp only [hlen1]
  obtain ⟨hne, hall⟩ := hub
  have hfp : fracPart (46 :: D) = (f, F64.ofNat (10 ^ k), ub ++ rest, true) := by
    unfold fracPart
    simp only [hD, leadingFraction_stop _ _ _ _ (unitBytes_noDigitHead ub rest ⟨hne, hall⟩)]
    have : (D.length != (ub ++ rest).length) = true := by simp at hlen ⊢; omega
    rw [this]
  have hdiv : ¬ (w > two63 / 10 ^ prec) := by
    have := (Nat.le_div_iff_mul_le hU0).2 (show w * 10 ^ prec ≤ two63 by omega); omega
  have h9 : (10 : Nat) ^ prec ≤ 10 ^ 9 := pow10_le _ _ hprec
  have h53 : (10 : Nat) ^ 9 < 2 ^ 53 := by decide
  have hk9 : (10 : Nat) ^ k ≤ 10 ^ prec := pow10_le _ _ hk
  have hP0 : 0 < 10 ^ (prec - k) := Nat.pow_pos (by omega)
  have hP9 : (10 : Nat) ^ (prec - k) ≤ 10 ^ prec := pow10_le _ _ (by omega)
  have hfl : (F64.ofNat f).mul ((F64.ofNat (10 ^ prec)).div (F64.ofNat (10 ^ k))) = canon r := by
    rw [div_pow10 prec hprec k hk, ofNat_canon f hf0 (by omega), ofNat_canon _ hP0 (by omega),
      mul_canon f _ hf0 hP0 (by rw [hfe]; omega), hfe]
  have hr0 : 0 < r := by rw [← hfe]; exact Nat.mul_pos hf0 hP0
  have hmod : (w * 10 ^ prec + r) % two64 = w * 10 ^ prec + r := Nat.mod_eq_of_lt (by unfold two63 two64 at *; omega)
  have hle : ¬ (w * 10 ^ prec + r > two63) := by omega
  simp [compTail, hfp, spanUnit_append ub rest hall hr, hne, hU, compValue, hdiv, hf0, hfl,
    toU64_canon r hr0 (by omega), hmod, hle]


/-! ## E. the fuel of `parseLoop` -/

theorem leadingInt_length (x : Nat) (s : GoString) (v : Nat) (r : GoString) (h : leadingInt x s = some (v, r)) :
    r.length ≤ s.length := by
  induction s generalizing x with
  | nil => simp [leadingInt] at h; simp [h.2.symm]
  | cons c s ih =>
    rw [leadingInt] at h
    split at h
    · simp at h; simp [← h.2]
    · split at h
      · simp at h
      · split at h
        · simp at h
        · have := ih _ h; simp; omega

theorem leadingFraction_length (x : Nat) (sc : F64) (ov : Bool) (s : GoString) :
    (leadingFraction x sc ov s).2.2.length ≤ s.length := by
  induction s generalizing x sc ov with
  | nil => simp [leadingFraction]
  | cons c s ih =>
    rw [leadingFraction]
    split
    · simp
    · split
      · have := ih x sc true; simp; omega
      · split
        · have := ih x sc true; simp; omega
        · split
          · have := ih x sc true; simp; omega
          · have := ih (x * 10 + c - 48) (sc.mul (F64.ofNat 10)) false; simp; omega

theorem fracPart_length (s : GoString) : (fracPart s).2.2.1.length ≤ s.length := by
  unfold fracPart
  split
  · rename_i t
    have := leadingFraction_length 0 (F64.ofNat 1) false t
    simp; omega
  · simp

theorem spanUnit_length (s : GoString) : (spanUnit s).1.length + (spanUnit s).2.length = s.length := by
  induction s with
  | nil => simp [spanUnit]
  | cons c s ih =>
    rw [spanUnit]
    split
    · simp
    · simp; omega

theorem compTail_ok (v : Nat) (pre : Bool) (s1 : GoString) (v' : Nat) (rest : GoString)
    (h : compTail v pre s1 = .ok v' rest) :
    rest = (spanUnit (fracPart s1).2.2.1).2 ∧ (spanUnit (fracPart s1).2.2.1).1 ≠ [] := by
  unfold compTail at h
  simp only at h
  split at h
  · simp at h
  · split at h
    · simp at h
    · rename_i hne
      split at h
      · simp at h
      · split at h
        · simp at h
        · simp at h; exact ⟨h.2.symm, hne⟩

theorem compTail_lt (v : Nat) (pre : Bool) (s1 : GoString) (v' : Nat) (rest : GoString)
    (h : compTail v pre s1 = .ok v' rest) : rest.length < s1.length := by
  obtain ⟨rfl, hne⟩ := compTail_ok v pre s1 v' rest h
  have h1 := spanUnit_length (fracPart s1).2.2.1
  have h2 := fracPart_length s1
  have h3 : 0 < (spanUnit (fracPart s1).2.2.1).1.length := List.length_pos_iff.2 hne
  omega

theorem parseComp_lt (s : GoString) (v : Nat) (rest : GoString) (h : parseComp s = .ok v rest) :
    rest.length < s.length := by
  unfold parseComp at h
  split at h
  · simp at h
  · rename_i c0 tl
    split at h
    · simp at h
    · split at h
      · simp at h
      · rename_i v0 s1 heq
        have h1 := leadingInt_length _ _ _ _ heq
        have h2 := compTail_lt _ _ _ _ _ h
        omega

theorem compValue_ne_outOfFuel (v f : Nat) (sc : F64) (unit : Nat) : compValue v f sc unit ≠ .error .outOfFuel := by
  unfold compValue
  split
  · simp
  · split
    · split
      · simp
      · split <;> simp
    · simp

theorem compTail_ne_outOfFuel (v : Nat) (pre : Bool) (s1 : GoString) : compTail v pre s1 ≠ .err .outOfFuel := by
  unfold compTail
  simp only
  split
  · simp
  · split
    · simp
    · split
      · simp
      · split
        · rename_i e heq
          have := compValue_ne_outOfFuel v (fracPart s1).1 (fracPart s1).2.1 ‹Nat›
          rw [heq] at this
          intro h; injection h with h; exact this (by rw [h])
        · simp

theorem parseComp_ne_outOfFuel (s : GoString) : parseComp s ≠ .err .outOfFuel := by
  unfold parseComp
  split
  · simp
  · split
    · simp
    · split
      · simp
      · exact compTail_ne_outOfFuel _ _ _

theorem parseLoop_nil (f d : Nat) : parseLoop f [] d = .ok d := by
  cases f <;> rfl

theorem parseLoop_step (f : Nat) (s : GoString) (d v : Nat) (rest : GoString) (hc : parseComp s = .ok v rest)
    (hd : (d + v) % two64 ≤ two63) : parseLoop (f + 1) s d = parseLoop f rest ((d + v) % two64) := by
  cases s with
  | nil => simp [parseComp] at hc
  | cons c r =>
    rw [parseLoop, hc]
    have : ¬ ((d + v) % two64 > two63) := by omega
    simp only [this, if_false]

theorem parseLoop_fuel_irrel (f g : Nat) (s : GoString) (d : Nat) (hf : s.length ≤ f) (hg : s.length ≤ g) :
    parseLoop f s d = parseLoop g s d := by
  induction f generalizing g s d with
  | zero =>
    have : s = [] := List.eq_nil_of_length_eq_zero (by omega)
    subst this; rw [parseLoop_nil, parseLoop_nil]
  | succ f ih =>
    cases s with
    | nil => rw [parseLoop_nil, parseLoop_nil]
    | cons c r =>
      cases g with
      | zero => simp at hg
      | succ g =>
        rw [parseLoop, parseLoop]
        cases hc : parseComp (c :: r) with
        | err e => rfl
        | ok v rest =>
          have := parseComp_lt _ _ _ hc
          simp only
          split
          · rfl
          · exact ih g rest _ (by simp at hf this; omega) (by simp at hg this; omega)

/-- the fuel `len(s)` never runs out -/
theorem parseLoop_ne_outOfFuel (f : Nat) (s : GoString) (d : Nat) (hf : s.length ≤ f) :
    parseLoop f s d ≠ .error .outOfFuel := by
  induction f generalizing s d with
  | zero =>
    have : s = [] := List.eq_nil_of_length_eq_zero (by omega)
    subst this; simp [parseLoop_nil]
  | succ f ih =>
    cases s with
    | nil => simp [parseLoop_nil]
    | cons c r =>
      rw [parseLoop]
      cases hc : parseComp (c :: r) with
      | err e =>
        have := parseComp_ne_outOfFuel (c :: r)
        rw [hc] at this
        simp only; intro h; injection h with h; exact this (by rw [h])
      | ok v rest =>
        have := parseComp_lt _ _ _ hc
        simp only
        split
        · simp
        · exact ih rest _ (by simp at hf this; omega)


/-! ## F. `formatU` against `parseLoop` -/

/-- integer part, printed fraction (possibly empty) and unit `10^prec`, as `format` prints them -/
theorem parseComp_fmtFrac (u prec w : Nat) (ub rest : GoString) (hub : UnitBytes ub) (hr : RestOK rest)
    (hU : unitOf ub = some (10 ^ prec)) (hprec : prec ≤ 9) (hw : w * 10 ^ prec + u % 10 ^ prec ≤ two63) :
    parseComp (fmtInt (fmtFrac (ub ++ rest) u prec).1 w) = .ok (w * 10 ^ prec + u % 10 ^ prec) rest
    ∧ (fmtFrac (ub ++ rest) u prec).2 = u / 10 ^ prec := by
  have h := fracLoop_false prec u (ub ++ rest) (by omega)
  have hU0 : 0 < 10 ^ prec := Nat.pow_pos (by omega)
  unfold fmtFrac
  refine ⟨?_, h.1⟩
  by_cases h0 : u % 10 ^ prec = 0
  · obtain ⟨h1, h2⟩ := h.2.1 h0
    simp only [h2, h1, Bool.false_eq_true, if_false, h0, Nat.add_zero]
    exact parseComp_int w _ ub rest hub hr hU (by omega) hU0
  · obtain ⟨h1, h2, f, k, hf0, hfk, hk, hfe, hD⟩ := h.2.2 h0
    simp only [h1, if_true]
    exact parseComp_frac w f k prec _ _ ub rest hub hr hU hprec hk hf0 hfk hfe (Nat.mod_lt _ hU0) hw h2 hD

theorem ub_ns : UnitBytes [110, 115] := ⟨by simp, by decide⟩
theorem ub_us : UnitBytes [194, 181, 115] := ⟨by simp, by decide⟩
theorem ub_ms : UnitBytes [109, 115] := ⟨by simp, by decide⟩
theorem ub_s : UnitBytes [115] := ⟨by simp, by decide⟩
theorem ub_m : UnitBytes [109] := ⟨by simp, by decide⟩
theorem ub_h : UnitBytes [104] := ⟨by simp, by decide⟩

theorem restOK_nil : RestOK [] := Or.inl rfl

theorem restOK_headDigit (s : GoString) (h : HeadDigit s) : RestOK s := Or.inr (headDigit_isNumByte s h)

/-- a sub-second form / the seconds form without minutes: one component, nothing after it -/
theorem parseLoop_one (f u prec : Nat) (ub : GoString) (hub : UnitBytes ub) (hU : unitOf ub = some (10 ^ prec))
    (hprec : prec ≤ 9) (hu : u ≤ two63) :
    parseLoop (f + 1) (fmtInt (fmtFrac ub u prec).1 (fmtFrac ub u prec).2) 0 = .ok u := by
  have h := parseComp_fmtFrac u prec (u / 10 ^ prec) ub [] hub restOK_nil hU hprec
    (by rw [Nat.div_add_mod']; exact hu)
  simp only [List.append_nil] at h
  rw [h.2, parseLoop_step f _ 0 _ _ h.1 (by rw [Nat.div_add_mod']; simp; unfold two63 two64 at *; omega)]
  rw [parseLoop_nil, Nat.div_add_mod']
  simp; unfold two63 two64 at *; omega

theorem formatU_roundtrip (f u : Nat) (hu : u ≤ two63) : parseLoop (f + 3) (formatU u) 0 = .ok u := by
  unfold formatU
  by_cases h9 : u < 1000000000
  · simp only [h9, if_true]
    by_cases h0 : u = 0
    · subst h0
      simp only [if_true]
      rw [parseLoop_step (f + 2) [48, 115] 0 0 [] (by decide) (by decide), parseLoop_nil]; rfl
    · simp only [h0, if_false]
      by_cases h3 : u < 1000
      · simp only [h3, if_true]
        exact parseLoop_one (f + 2) u 0 _ ub_ns (by decide) (by omega) hu
      · simp only [h3, if_false]
        by_cases h6 : u < 1000000
        · simp only [h6, if_true]
          exact parseLoop_one (f + 2) u 3 _ ub_us (by decide) (by omega) hu
        · simp only [h6, if_false]
          exact parseLoop_one (f + 2) u 6 _ ub_ms (by decide) (by omega) hu
  · simp only [h9, if_false]
    have hp : (10 : Nat) ^ 9 = 1000000000 := by decide
    -- the seconds component, whatever follows nothing
    have hs := parseComp_fmtFrac u 9 (u / 10 ^ 9 % 60) [115] [] ub_s restOK_nil (by decide) (by omega)
      (by rw [hp]; omega)
    simp only [List.append_nil] at hs
    obtain ⟨hs1, hs2⟩ := hs
    rw [hs2]
    rw [hp] at hs1 ⊢
    have h64 : ∀ x, x ≤ two63 → x % two64 = x := fun x hx => Nat.mod_eq_of_lt (by unfold two63 two64 at *; omega)
    by_cases hm : u / 1000000000 / 60 > 0
    · simp only [hm, if_true]
      -- the minutes component, followed by the seconds component
      have hmc := parseComp_int (u / 1000000000 / 60 % 60) 60000000000 [109] _ ub_m
        (restOK_headDigit _ (fmtInt_headDigit (u / 1000000000 % 60) (fmtFrac [115] u 9).1)) (by decide)
        (by omega) (by omega)
      simp only [List.singleton_append] at hmc
      by_cases hh : u / 1000000000 / 60 / 60 > 0
      · simp only [hh, if_true]
        have hhc := parseComp_int (u / 1000000000 / 60 / 60) 3600000000000 [104] _ ub_h
          (restOK_headDigit _ (fmtInt_headDigit (u / 1000000000 / 60 % 60)
            (109 :: fmtInt (fmtFrac [115] u 9).1 (u / 1000000000 % 60)))) (by decide)
          (by omega) (by omega)
        simp only [List.singleton_append] at hhc
        rw [parseLoop_step (f + 2) _ 0 _ _ hhc (by rw [h64 _ (by omega)]; omega), h64 _ (by omega),
          parseLoop_step (f + 1) _ _ _ _ hmc (by rw [h64 _ (by omega)]; omega), h64 _ (by omega),
          parseLoop_step f _ _ _ _ hs1 (by rw [h64 _ (by omega)]; omega), h64 _ (by omega), parseLoop_nil]
        congr 1; omega
      · simp only [hh, if_false]
        rw [parseLoop_step (f + 2) _ 0 _ _ hmc (by rw [h64 _ (by omega)]; omega), h64 _ (by omega),
          parseLoop_step (f + 1) _ _ _ _ hs1 (by rw [h64 _ (by omega)]; omega), h64 _ (by omega), parseLoop_nil]
        congr 1; omega
    · simp only [hm, if_false]
      rw [parseLoop_step (f + 2) _ 0 _ _ hs1 (by rw [h64 _ (by omega)]; omega), h64 _ (by omega), parseLoop_nil]
      congr 1; omega


/-! ## G. a trailing zero component (`0m`, `0s`) does not change the parse -/

/-- `rest ↦ rest ++ t` on a component result -/
def CRes.ext (t : GoString) : CRes → CRes
  | .ok v r => .ok v (r ++ t)
  | .err e => .err e

theorem leadingInt_ext (x : Nat) (w0 : GoString) (c : Nat) (t : GoString) (hc : c < 48 ∨ c > 57) :
    leadingInt x (w0 ++ c :: t) = (leadingInt x (w0 ++ [c])).map (fun p => (p.1, p.2 ++ t))
    ∧ ∀ v r, leadingInt x (w0 ++ [c]) = some (v, r) → ∃ r0, r = r0 ++ [c] := by
  induction w0 generalizing x with
  | nil =>
    simp only [List.nil_append, leadingInt, hc, if_true, Option.map]
    refine ⟨by simp, ?_⟩
    intro v r h; simp at h; exact ⟨[], by simp [← h.2]⟩
  | cons b w0 ih =>
    simp only [List.cons_append]
    rw [leadingInt, leadingInt]
    by_cases hb : b < 48 ∨ b > 57
    · simp only [hb, if_true, Option.map]
      refine ⟨by simp, ?_⟩
      intro v r h; simp at h; exact ⟨b :: w0, by simp [← h.2]⟩
    · simp only [hb, if_false]
      by_cases h1 : x > two63 / 10
      · simp [h1]
      · simp only [h1, if_false]
        by_cases h2 : x * 10 + b - 48 > two63
        · simp [h2]
        · simp only [h2, if_false]
          exact ih _

theorem leadingFraction_ext (x : Nat) (sc : F64) (ov : Bool) (w0 : GoString) (c : Nat) (t : GoString)
    (hc : c < 48 ∨ c > 57) :
    leadingFraction x sc ov (w0 ++ c :: t) =
      ((leadingFraction x sc ov (w0 ++ [c])).1, (leadingFraction x sc ov (w0 ++ [c])).2.1,
        (leadingFraction x sc ov (w0 ++ [c])).2.2 ++ t)
    ∧ ∃ r0, (leadingFraction x sc ov (w0 ++ [c])).2.2 = r0 ++ [c] := by
  induction w0 generalizing x sc ov with
  | nil =>
    simp only [List.nil_append, leadingFraction, hc, if_true]
    exact ⟨by simp, [], by simp⟩
  | cons b w0 ih =>
    simp only [List.cons_append]
    rw [leadingFraction, leadingFraction]
    by_cases hb : b < 48 ∨ b > 57
    · simp only [hb, if_true]
      exact ⟨by simp, b :: w0, by simp⟩
    · simp only [hb, if_false]
      by_cases h0 : ov = true
      · simp only [h0, if_true]; exact ih _ _ _
      · simp only [h0]
        by_cases h1 : x > (two63 - 1) / 10
        · simp only [h1, if_true]; exact ih _ _ _
        · simp only [h1, if_false]
          by_cases h2 : x * 10 + b - 48 > two63
          · simp only [h2, if_true]; exact ih _ _ _
          · simp only [h2, if_false]; exact ih _ _ _

theorem fracPart_ext (w0 : GoString) (c : Nat) (t : GoString) (hc : isNumByte c = false) :
    fracPart (w0 ++ c :: t) = ((fracPart (w0 ++ [c])).1, (fracPart (w0 ++ [c])).2.1,
        (fracPart (w0 ++ [c])).2.2.1 ++ t, (fracPart (w0 ++ [c])).2.2.2)
    ∧ ∃ r0, (fracPart (w0 ++ [c])).2.2.1 = r0 ++ [c] := by
  have hc' := isNumByte_false c hc
  cases w0 with
  | nil =>
    have h1 : fracPart (c :: t) = (0, F64.ofNat 1, c :: t, false) := by
      unfold fracPart; split
      · rename_i heq; simp at heq; omega
      · rfl
    have h2 : fracPart [c] = (0, F64.ofNat 1, [c], false) := by
      unfold fracPart; split
      · rename_i heq; simp at heq; omega
      · rfl
    simp only [List.nil_append, h1, h2]
    exact ⟨by simp, [], by simp⟩
  | cons b w1 =>
    by_cases hb : b = 46
    · subst hb
      obtain ⟨e1, r0, e2⟩ := leadingFraction_ext 0 (F64.ofNat 1) false w1 c t hc'.2
      simp only [List.cons_append, fracPart]
      rw [e1]
      refine ⟨?_, r0, e2⟩
      have hpost : ((w1 ++ c :: t).length != ((leadingFraction 0 (F64.ofNat 1) false (w1 ++ [c])).2.2 ++ t).length)
          = ((w1 ++ [c]).length != (leadingFraction 0 (F64.ofNat 1) false (w1 ++ [c])).2.2.length) := by
        rw [e2]
        apply Bool.eq_iff_iff.2
        simp
      simp only [hpost]
    · have h1 : fracPart (b :: w1 ++ c :: t) = (0, F64.ofNat 1, b :: w1 ++ c :: t, false) := by
        unfold fracPart; split
        · rename_i heq; simp at heq; omega
        · rfl
      have h2 : fracPart (b :: w1 ++ [c]) = (0, F64.ofNat 1, b :: w1 ++ [c], false) := by
        unfold fracPart; split
        · rename_i heq; simp at heq; omega
        · rfl
      rw [h1, h2]
      exact ⟨by simp, b :: w1, by simp⟩

theorem spanUnit_ext (r0 : GoString) (c : Nat) (t : GoString) (hc : isNumByte c = false)
    (ht : spanUnit t = ([], t)) :
    spanUnit (r0 ++ c :: t) = ((spanUnit (r0 ++ [c])).1, (spanUnit (r0 ++ [c])).2 ++ t)
    ∧ ((spanUnit (r0 ++ [c])).2 = [] ∨ ∃ r1, (spanUnit (r0 ++ [c])).2 = r1 ++ [c]) := by
  induction r0 with
  | nil => simp [spanUnit, hc, ht]
  | cons b r0 ih =>
    simp only [List.cons_append]
    rw [spanUnit, spanUnit]
    by_cases hb : isNumByte b = true
    · simp only [hb, if_true]
      exact ⟨by simp, Or.inr ⟨b :: r0, by simp⟩⟩
    · simp only [hb, Bool.false_eq_true, if_false]
      rw [ih.1]
      exact ⟨rfl, ih.2⟩

theorem restOK_spanUnit (t : GoString) (h : RestOK t) : spanUnit t = ([], t) := by
  rcases h with rfl | ⟨c, r, rfl, hc⟩
  · rfl
  · simp [spanUnit, hc]

/-- `s` ends with the byte `c` -/
def EndsWith (c : Nat) (s : GoString) : Prop := ∃ s0, s = s0 ++ [c]

theorem compTail_ext (v : Nat) (pre : Bool) (w0 : GoString) (c : Nat) (t : GoString) (hc : isNumByte c = false)
    (ht : spanUnit t = ([], t)) :
    compTail v pre (w0 ++ c :: t) = (compTail v pre (w0 ++ [c])).ext t
    ∧ ∀ v' rest, compTail v pre (w0 ++ [c]) = .ok v' rest → rest = [] ∨ EndsWith c rest := by
  obtain ⟨e1, r0, e2⟩ := fracPart_ext w0 c t hc
  obtain ⟨e3, e4⟩ := spanUnit_ext r0 c t hc ht
  refine ⟨?_, ?_⟩
  · unfold compTail
    simp only [e1, e2, List.append_assoc, List.singleton_append, e3]
    rw [← e2]
    split
    · rfl
    · split
      · rfl
      · split
        · rfl
        · split <;> rfl
  · intro v' rest h
    obtain ⟨rfl, _⟩ := compTail_ok _ _ _ _ _ h
    rw [e2]
    exact e4

theorem parseComp_ext (w0 : GoString) (c : Nat) (t : GoString) (hc : isNumByte c = false)
    (ht : spanUnit t = ([], t)) :
    parseComp (w0 ++ c :: t) = (parseComp (w0 ++ [c])).ext t
    ∧ ∀ v rest, parseComp (w0 ++ [c]) = .ok v rest → rest = [] ∨ EndsWith c rest := by
  have hc' := isNumByte_false c hc
  have key : ∀ (b : Nat) (w1 : GoString), isNumByte b = true →
      parseComp (b :: w1 ++ c :: t) = (parseComp (b :: w1 ++ [c])).ext t
      ∧ ∀ v rest, parseComp (b :: w1 ++ [c]) = .ok v rest → rest = [] ∨ EndsWith c rest := by
    intro b w1 hb
    obtain ⟨e1, e2⟩ := leadingInt_ext 0 (b :: w1) c t hc'.2
    simp only [List.cons_append] at e1 e2
    simp only [List.cons_append, parseComp, hb, Bool.not_true, Bool.false_eq_true, if_false]
    rw [e1]
    cases hl : leadingInt 0 (b :: (w1 ++ [c])) with
    | none => simp [CRes.ext]
    | some p =>
      obtain ⟨v, r⟩ := p
      obtain ⟨r0, rfl⟩ := e2 v r hl
      simp only [Option.map]
      have hlen : ((b :: (w1 ++ c :: t)).length != (r0 ++ [c] ++ t).length)
          = ((b :: (w1 ++ [c])).length != (r0 ++ [c]).length) := by
        apply Bool.eq_iff_iff.2
        simp
        omega
      rw [hlen]
      have := compTail_ext v ((b :: (w1 ++ [c])).length != (r0 ++ [c]).length) r0 c t hc ht
      simp only [List.append_assoc, List.singleton_append]
      exact this
  cases w0 with
  | nil =>
    simp only [List.nil_append, parseComp, hc, Bool.not_false, if_true, CRes.ext]
    exact ⟨trivial, by intro v rest h; simp at h⟩
  | cons b w1 =>
    by_cases hb : isNumByte b = true
    · exact key b w1 hb
    · simp only [List.cons_append, parseComp, hb, Bool.not_false, if_true, CRes.ext]
      exact ⟨trivial, by intro v rest h; simp at h⟩

theorem parseLoop_succ (f : Nat) (s : GoString) (d : Nat) (hs : s ≠ []) :
    parseLoop (f + 1) s d = match parseComp s with
      | .err e => .error e
      | .ok v rest => if (d + v) % two64 > two63 then .error .invalid else parseLoop f rest ((d + v) % two64) := by
  cases s with
  | nil => exact absurd rfl hs
  | cons c r => rw [parseLoop]; cases parseComp (c :: r) <;> rfl

theorem parseLoop_strip (c : Nat) (t : GoString) (hc : isNumByte c = false) (ht : spanUnit t = ([], t))
    (ht0 : parseComp t = .ok 0 []) (f : Nat) (w : GoString) (d : Nat) (hw : EndsWith c w) (hf : w.length ≤ f) :
    parseLoop (f + t.length) (w ++ t) d = parseLoop f w d := by
  have htne : t ≠ [] := by intro h; subst h; simp [parseComp] at ht0
  have htl : 0 < t.length := List.length_pos_iff.2 htne
  induction f generalizing w d with
  | zero =>
    obtain ⟨w0, rfl⟩ := hw
    simp at hf
  | succ f ih =>
    obtain ⟨w0, rfl⟩ := hw
    have hne : w0 ++ [c] ≠ [] := by simp
    have hne' : w0 ++ [c] ++ t ≠ [] := by simp
    have e : f + 1 + t.length = (f + t.length) + 1 := by omega
    rw [e, parseLoop_succ _ _ _ hne', parseLoop_succ _ _ _ hne]
    obtain ⟨e1, e2⟩ := parseComp_ext w0 c t hc ht
    simp only [List.append_assoc, List.singleton_append]
    rw [e1]
    cases hp : parseComp (w0 ++ [c]) with
    | err e => rfl
    | ok v rest =>
      simp only [CRes.ext]
      split
      · rfl
      · rename_i hle
        rcases e2 v rest hp with rfl | hr
        · simp only [List.nil_append, parseLoop_nil]
          obtain ⟨k, hk⟩ : ∃ k, f + t.length = k + 1 := ⟨f + t.length - 1, by omega⟩
          rw [hk, parseLoop_step k t _ 0 [] ht0 (by simp; omega), parseLoop_nil]
          simp only [Nat.add_zero, Nat.mod_mod]
        · have hlt := parseComp_lt _ _ _ hp
          exact ih rest _ hr (by omega)

theorem stripSign_ext (w0 : GoString) (c : Nat) (t : GoString) (h45 : c ≠ 45) (h43 : c ≠ 43) :
    stripSign (w0 ++ [c] ++ t) = ((stripSign (w0 ++ [c])).1, (stripSign (w0 ++ [c])).2 ++ t)
    ∧ EndsWith c (stripSign (w0 ++ [c])).2 := by
  cases w0 with
  | nil =>
    have h1 : stripSign [c] = (false, [c]) := by
      unfold stripSign; split
      · rename_i heq; simp at heq; omega
      · rename_i heq; simp at heq; omega
      · rfl
    have h2 : stripSign (c :: t) = (false, c :: t) := by
      unfold stripSign; split
      · rename_i heq; simp at heq; omega
      · rename_i heq; simp at heq; omega
      · rfl
    simp only [List.nil_append, List.singleton_append, h1, h2]
    exact ⟨trivial, [], rfl⟩
  | cons b w1 =>
    by_cases hb : b = 45
    · subst hb; exact ⟨rfl, w1, rfl⟩
    · by_cases hb' : b = 43
      · subst hb'; exact ⟨rfl, w1, rfl⟩
      · have h1 : ∀ r, stripSign (b :: r) = (false, b :: r) := by
          intro r
          unfold stripSign; split
          · rename_i heq; simp at heq; omega
          · rename_i heq; simp at heq; omega
          · rfl
        simp only [List.cons_append, h1]
        exact ⟨trivial, b :: w1, rfl⟩

/-- **a trailing zero component is not seen by `ParseDuration`**: for any string ending with a byte
`c` that is not a digit, `.`, `+` or `-`, appending `0` and a unit gives the same result -/
theorem parseDuration_strip (w0 : GoString) (c : Nat) (ub : GoString) (U : Nat) (hc : isNumByte c = false)
    (h45 : c ≠ 45) (h43 : c ≠ 43) (hub : UnitBytes ub) (hU : unitOf ub = some U) (hU0 : 0 < U) :
    parseDuration (w0 ++ [c] ++ 48 :: ub) = parseDuration (w0 ++ [c]) := by
  have ht : spanUnit (48 :: ub) = ([], 48 :: ub) := by simp [spanUnit, isNumByte]
  have ht0 : parseComp (48 :: ub) = .ok 0 [] := by
    have := parseComp_int 0 U ub [] hub restOK_nil hU (by simp) hU0
    simpa [fmtInt] using this
  obtain ⟨e1, s0, e2⟩ := stripSign_ext w0 c (48 :: ub) h45 h43
  unfold parseDuration
  simp only [e1]
  rw [e2]
  have h1 : ¬ (s0 ++ [c] ++ 48 :: ub = [48]) := by
    intro h; have := congrArg List.length h; simp at this; omega
  have h2 : ¬ (s0 ++ [c] = [48]) := by
    intro h
    cases s0 with
    | nil => simp at h; subst h; simp [isNumByte] at hc
    | cons b s1 => have := congrArg List.length h; simp at this
  have h3 : ¬ (s0 ++ [c] ++ 48 :: ub = []) := by simp
  have h4 : ¬ (s0 ++ [c] = []) := by simp
  simp only [h1, h2, h3, h4, if_false]
  have hl : (s0 ++ [c] ++ 48 :: ub).length = (s0 ++ [c]).length + (48 :: ub).length := List.length_append
  rw [hl, parseLoop_strip c (48 :: ub) hc ht ht0 _ (s0 ++ [c]) 0 ⟨s0, rfl⟩ (Nat.le_refl _)]


/-! ## H. lengths (the `[32]byte` buffer of `Duration.format`), first byte -/

theorem fmtFracLoop_length_le (i v : Nat) (pr : Bool) (buf : GoString) :
    (fmtFracLoop i v pr buf).1.length ≤ buf.length + i := by
  induction i generalizing v pr buf with
  | zero => simp [fmtFracLoop]
  | succ i ih =>
    unfold fmtFracLoop
    simp only
    split
    · have := ih (v / 10) true ((v % 10 + 48) :: buf)
      rename_i h
      simp only [h] at this ⊢
      simp at this; omega
    · rename_i h
      have := ih (v / 10) (pr || decide (v % 10 ≠ 0)) buf
      omega

theorem fmtFrac_length_le (buf : GoString) (v prec : Nat) : (fmtFrac buf v prec).1.length ≤ buf.length + prec + 1 := by
  unfold fmtFrac
  have := fmtFracLoop_length_le prec v false buf
  simp only
  split
  · simp; omega
  · omega

theorem fmtFrac_snd (buf : GoString) (v prec : Nat) (hp : prec ≤ 15) : (fmtFrac buf v prec).2 = v / 10 ^ prec := by
  unfold fmtFrac; exact (fracLoop_false prec v buf hp).1

theorem formatU_length_le (u : Nat) (hu : u ≤ two63) : (formatU u).length ≤ 24 := by
  unfold formatU
  by_cases h9 : u < 1000000000
  · simp only [h9, if_true]
    by_cases h0 : u = 0
    · simp [h0]
    · simp only [h0, if_false]
      have hI : ∀ (buf : GoString) (prec : Nat), prec ≤ 15 → u / 10 ^ prec < 10 ^ 3 → buf.length ≤ 3 → prec ≤ 6 →
          (fmtInt (fmtFrac buf u prec).1 (fmtFrac buf u prec).2).length ≤ 24 := by
        intro buf prec hp hv hb hp6
        rw [fmtFrac_snd _ _ _ hp]
        have h1 := fmtInt_length_le (u / 10 ^ prec) 3 (fmtFrac buf u prec).1 hv (by omega)
        have h2 := fmtFrac_length_le buf u prec
        omega
      by_cases h3 : u < 1000
      · simp only [h3, if_true]; exact hI _ 0 (by omega) (by simp; omega) (by simp) (by omega)
      · simp only [h3, if_false]
        by_cases h6 : u < 1000000
        · simp only [h6, if_true]
          exact hI _ 3 (by omega) (by have : (10:Nat)^3 = 1000 := by decide
                                      rw [this]; omega) (by simp) (by omega)
        · simp only [h6, if_false]
          exact hI _ 6 (by omega) (by have : (10:Nat)^6 = 1000000 := by decide
                                      have : (10:Nat)^3 = 1000 := by decide
                                      omega) (by simp) (by omega)
  · simp only [h9, if_false]
    have hp : (10 : Nat) ^ 9 = 1000000000 := by decide
    have h7 : (10 : Nat) ^ 7 = 10000000 := by decide
    have h2 : (10 : Nat) ^ 2 = 100 := by decide
    rw [fmtFrac_snd _ _ _ (by omega), hp]
    have hF := fmtFrac_length_le [115] u 9
    have hS := fmtInt_length_le (u / 1000000000 % 60) 2 (fmtFrac [115] u 9).1 (by omega) (by omega)
    have hM := fmtInt_length_le (u / 1000000000 / 60 % 60) 2
      (109 :: fmtInt (fmtFrac [115] u 9).1 (u / 1000000000 % 60)) (by omega) (by omega)
    have hH := fmtInt_length_le (u / 1000000000 / 60 / 60) 7
      (104 :: fmtInt (109 :: fmtInt (fmtFrac [115] u 9).1 (u / 1000000000 % 60)) (u / 1000000000 / 60 % 60))
      (by rw [h7]; unfold two63 at hu; omega) (by omega)
    simp only [List.length_cons, List.length_nil] at hF hS hM hH
    split
    · split <;> omega
    · omega

theorem formatU_headDigit (u : Nat) : HeadDigit (formatU u) := by
  unfold formatU
  simp only
  split
  · split
    · exact ⟨48, [115], rfl, by omega, by omega⟩
    · split
      · exact fmtInt_headDigit _ _
      · split <;> exact fmtInt_headDigit _ _
  · split
    · split <;> exact fmtInt_headDigit _ _
    · exact fmtInt_headDigit _ _

theorem stripSign_headDigit (s : GoString) (h : HeadDigit s) : stripSign s = (false, s) := by
  obtain ⟨c, r, rfl, h1, h2⟩ := h
  unfold stripSign
  split
  · rename_i heq; simp at heq; omega
  · rename_i heq; simp at heq; omega
  · rfl

end Gnmi.LatNames
