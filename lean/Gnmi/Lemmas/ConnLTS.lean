import Gnmi.Model.ConnLTS
/-!
Helper lemmas for C16: the inductive invariant of the connection-manager LTS
(`Gnmi/Model/ConnLTS.lean`) and its preservation by every transition.
-/
namespace Gnmi
namespace Conn

/-! ### the map `m.conns` behaves as a finite function under `find` -/

theorem find_cons (b : Addr) (o : Nat) (m : List (Addr × Nat)) (a : Addr) :
    find ((b, o) :: m) a = if b = a then some o else find m a := rfl

theorem find_erase (m : List (Addr × Nat)) (a b : Addr) :
    find (erase m a) b = if b = a then none else find m b := by
  induction m with
  | nil => simp [erase, find]
  | cons kv m ih =>
    obtain ⟨k, v⟩ := kv
    unfold erase at ih ⊢
    by_cases hk : k = a
    · subst hk
      simp only [List.filter_cons, ne_eq, not_true_eq_false, decide_false, Bool.false_eq_true, ↓reduceIte, ih, find_cons]
      by_cases hb : b = k
      · simp [hb]
      · have : ¬ k = b := fun h => hb h.symm
        simp [hb, this]
    · simp only [List.filter_cons, ne_eq, hk, not_false_eq_true, decide_true, ↓reduceIte, find_cons, ih]
      by_cases hb : b = a
      · subst hb; simp [hk]
      · simp [hb]

/-- keys of the map are pairwise distinct (Go map) -/
def KeysNodup (m : List (Addr × Nat)) : Prop := (m.map Prod.fst).Nodup

theorem find_none_not_mem {m : List (Addr × Nat)} {a : Addr} (h : find m a = none) : a ∉ m.map Prod.fst := by
  induction m with
  | nil => simp
  | cons kv m ih =>
    obtain ⟨k, v⟩ := kv
    rw [find_cons] at h
    by_cases hk : k = a
    · simp [hk] at h
    · simp only [hk, ↓reduceIte] at h
      simp only [List.map_cons, List.mem_cons, not_or]
      exact ⟨fun e => hk e.symm, ih h⟩

theorem keysNodup_erase {m : List (Addr × Nat)} (a : Addr) (h : KeysNodup m) : KeysNodup (erase m a) := by
  unfold KeysNodup erase at *
  induction m with
  | nil => simp
  | cons kv m ih =>
    simp only [List.map_cons, List.nodup_cons] at h
    simp only [List.filter_cons]
    split
    · simp only [List.map_cons, List.nodup_cons]
      refine ⟨?_, ih h.2⟩
      intro hm
      apply h.1
      simp only [List.mem_map, List.mem_filter] at hm ⊢
      obtain ⟨x, ⟨hx, _⟩, he⟩ := hm
      exact ⟨x, hx, he⟩
    · exact ih h.2

/-! ### lists as heaps -/

theorem getElem?_set_of {α : Type} {l : List α} {i : Nat} {x : α} (h : l[i]? = some x) (a : α) (j : Nat) :
    (l.set i a)[j]? = if j = i then some a else l[j]? := by
  have hi : i < l.length := by
    rcases List.getElem?_eq_some_iff.mp h with ⟨hi, _⟩; exact hi
  rw [List.getElem?_set]
  by_cases hj : j = i
  · subst hj; simp [hi]
  · have : ¬ i = j := fun e => hj e.symm
    simp [hj, this]

theorem getElem?_push {α : Type} (l : List α) (a : α) (j : Nat) :
    (l ++ [a])[j]? = if j = l.length then some a else l[j]? := by
  rw [List.getElem?_append]
  by_cases hj : j < l.length
  · have : j ≠ l.length := Nat.ne_of_lt hj
    simp [hj, this]
  · by_cases he : j = l.length
    · subst he; simp
    · have h1 : l.length ≤ j := Nat.le_of_not_lt hj
      have h2 : l[j]? = none := List.getElem?_eq_none_iff.mpr h1
      have h3 : j - l.length ≠ 0 := by omega
      simp [hj, he]
      exact h3

theorem lt_of_getElem? {α : Type} {l : List α} {i : Nat} {x : α} (h : l[i]? = some x) : i < l.length := by
  rcases List.getElem?_eq_some_iff.mp h with ⟨hi, _⟩; exact hi

/-! ### counting holders -/

theorem cnt_set {reqs : List Req} {r : Nat} {q : Req} (h : reqs[r]? = some q) (q' : Req) (o : Nat) :
    cnt o (reqs.set r q') + (if q.pc.holds o then 1 else 0)
      = cnt o reqs + (if q'.pc.holds o then 1 else 0) := by
  unfold cnt
  induction reqs generalizing r with
  | nil => simp at h
  | cons x xs ih =>
    cases r with
    | zero =>
      simp only [List.getElem?_cons_zero, Option.some.injEq] at h
      subst h
      simp only [List.set_cons_zero, List.countP_cons]
      omega
    | succ r =>
      simp only [List.getElem?_cons_succ] at h
      have := ih h
      simp only [List.set_cons_succ, List.countP_cons]
      omega

theorem cnt_set_same {reqs : List Req} {r : Nat} {q : Req} (h : reqs[r]? = some q) (q' : Req) (o : Nat)
    (hs : q'.pc.holds o = q.pc.holds o) : cnt o (reqs.set r q') = cnt o reqs := by
  have := cnt_set h q' o
  rw [hs] at this
  omega

theorem cnt_pos {reqs : List Req} {r : Nat} {q : Req} (h : reqs[r]? = some q) {o : Nat}
    (hh : q.pc.holds o = true) : 1 ≤ cnt o reqs := by
  unfold cnt
  exact List.countP_pos_iff.mpr ⟨q, List.mem_of_getElem? h, hh⟩

theorem cnt_zero {reqs : List Req} {o : Nat}
    (h : ∀ (r : Nat) (q : Req), reqs[r]? = some q → q.pc.holds o = false) : cnt o reqs = 0 := by
  unfold cnt
  apply List.countP_eq_zero.mpr
  intro q hq
  obtain ⟨r, hr⟩ := List.mem_iff_getElem?.mp hq
  simp [h r q hr]

theorem cnt_push (reqs : List Req) (q : Req) (o : Nat) :
    cnt o (reqs ++ [q]) = cnt o reqs + (if q.pc.holds o then 1 else 0) := by
  unfold cnt
  simp [List.countP_append, List.countP_cons]

/-! ### the invariant -/

/-- the dial goroutine has not yet reached its `remove`/`close(ready)` tail -/
def DPc.pre : DPc → Bool
  | .start => true
  | .dialing _ => true
  | .failing _ => true
  | _ => false

theorem DPc.pre_of_inFlight {p : DPc} (h : p.inFlight = true) : p.pre = true := by
  cases p <;> simp_all [DPc.inFlight, DPc.pre]

/-- what holds of one object, given whether it is registered (`lv`), how many requesters
hold a reference to it (`n`) and the number of Dial invocations so far (`d`) -/
structure ObjOK (lv : Prop) (n : Nat) (d : Nat) (ob : Obj) : Prop where
  pre_live : ob.dpc.pre = true → lv
  ready_iff : ob.ready = true ↔ ob.dpc = .fin
  pre_blank : ob.dpc.pre = true → ob.err = none ∧ ob.conn = none
  outcome : ob.dpc.pre = false →
    (ob.err.isSome = true ∧ ob.conn = none) ∨ (ob.err = none ∧ ob.conn.isSome = true)
  err_dead : ob.err.isSome = true → ¬ lv
  live_ref : lv → ob.ref = (n : Int) ∧ 1 ≤ n ∧ ob.closed = 0
  dead_conn : ¬ lv → ob.conn.isSome = true → ob.closed = 1 ∧ n = 0 ∧ ob.ref = 0
  dead_noconn : ¬ lv → ob.conn = none → ob.closed = 0
  dial_lt : ∀ k, ob.dpc = .dialing k → k < d
  conn_lt : ∀ k, ob.conn = some k → k < d

def ObjInv (c : Cfg) (o : Nat) (ob : Obj) : Prop := ObjOK (live c o ob) (cnt o c.reqs) c.dials ob

/-- what holds of one requester: the object it refers to exists, is for its address, and is
ready / successful when the program counter says so -/
structure ReqInv (c : Cfg) (q : Req) : Prop where
  wait_ok : ∀ o, q.pc = .wait o → ∃ ob : Obj, c.objs[o]? = some ob ∧ ob.addr = q.addr
  woken_ok : ∀ o, q.pc = .woken o → ∃ ob : Obj, c.objs[o]? = some ob ∧ ob.addr = q.addr ∧ ob.ready = true
  held_ok : ∀ o b, q.pc = .held o b →
    ∃ ob : Obj, c.objs[o]? = some ob ∧ ob.addr = q.addr ∧ ob.ready = true ∧ ob.err = none

def MapInv (c : Cfg) : Prop :=
  ∀ (a : Addr) (o : Nat), find c.conns a = some o → ∃ ob : Obj, c.objs[o]? = some ob ∧ ob.addr = a

structure Inv (c : Cfg) : Prop where
  map : MapInv c
  keys : KeysNodup c.conns
  objs : ∀ (o : Nat) (ob : Obj), c.objs[o]? = some ob → ObjInv c o ob
  reqs : ∀ (r : Nat) (q : Req), c.reqs[r]? = some q → ReqInv c q
  nopanic : c.panicked = false

theorem ObjOK.congr {lv lv' : Prop} {n n' d d' : Nat} {ob : Obj} (h : ObjOK lv n d ob)
    (hl : lv' ↔ lv) (hn : lv ∨ ob.conn.isSome = true → n' = n) (hd : d ≤ d') : ObjOK lv' n' d' ob := by
  have e : lv' = lv := propext hl
  subst e
  refine { h with live_ref := ?_, dead_conn := ?_, dial_lt := ?_, conn_lt := ?_ }
  · intro l; rw [hn (Or.inl l)]; exact h.live_ref l
  · intro l hc; rw [hn (Or.inr hc)]; exact h.dead_conn l hc
  · intro k hk; exact Nat.lt_of_lt_of_le (h.dial_lt k hk) hd
  · intro k hk; exact Nat.lt_of_lt_of_le (h.conn_lt k hk) hd

/-- heap monotonicity: objects persist, keep their address, and a ready object keeps its outcome -/
def ObjsLe (c c' : Cfg) : Prop :=
  ∀ (o : Nat) (ob : Obj), c.objs[o]? = some ob →
    ∃ ob' : Obj, c'.objs[o]? = some ob' ∧ ob'.addr = ob.addr ∧
      (ob.ready = true → ob'.ready = true ∧ ob'.err = ob.err ∧ ob'.conn = ob.conn)

theorem ObjsLe.refl_of {c c' : Cfg} (h : c'.objs = c.objs) : ObjsLe c c' := by
  intro o ob ho; exact ⟨ob, by rw [h]; exact ho, rfl, fun _ => ⟨‹_›, rfl, rfl⟩⟩

theorem ReqInv.mono {c c' : Cfg} {q : Req} (hle : ObjsLe c c') (h : ReqInv c q) : ReqInv c' q := by
  constructor
  · intro o ho
    obtain ⟨ob, h1, h2⟩ := h.wait_ok o ho
    obtain ⟨ob', g1, g2, _⟩ := hle o ob h1
    exact ⟨ob', g1, g2.trans h2⟩
  · intro o ho
    obtain ⟨ob, h1, h2, h3⟩ := h.woken_ok o ho
    obtain ⟨ob', g1, g2, g3⟩ := hle o ob h1
    exact ⟨ob', g1, g2.trans h2, (g3 h3).1⟩
  · intro o b ho
    obtain ⟨ob, h1, h2, h3, h4⟩ := h.held_ok o b ho
    obtain ⟨ob', g1, g2, g3⟩ := hle o ob h1
    exact ⟨ob', g1, g2.trans h2, (g3 h3).1, (g3 h3).2.1.trans h4⟩

theorem MapInv.mono {c c' : Cfg} (hle : ObjsLe c c') (hsub : ∀ a o, find c'.conns a = some o → find c.conns a = some o)
    (h : MapInv c) : MapInv c' := by
  intro a o hf
  obtain ⟨ob, h1, h2⟩ := h a o (hsub a o hf)
  obtain ⟨ob', g1, g2, _⟩ := hle o ob h1
  exact ⟨ob', g1, g2.trans h2⟩

/-- replacing object `o` by `ob2` (same address; outcome kept if it was ready) is monotone -/
theorem ObjsLe.set {c c' : Cfg} {o : Nat} {ob ob2 : Obj} (ho : c.objs[o]? = some ob)
    (h : c'.objs = c.objs.set o ob2) (ha : ob2.addr = ob.addr)
    (hr : ob.ready = true → ob2.ready = true ∧ ob2.err = ob.err ∧ ob2.conn = ob.conn) : ObjsLe c c' := by
  intro o' ob' ho'
  rw [h, getElem?_set_of ho]
  by_cases e : o' = o
  · subst e
    rw [ho] at ho'; cases ho'
    exact ⟨ob2, by simp, ha, hr⟩
  · exact ⟨ob', by simp [e, ho'], rfl, fun _ => ⟨‹_›, rfl, rfl⟩⟩

/-- a requester that refers to `o` keeps the count of `o` positive -/
theorem Inv.holder_live {c : Cfg} (h : Inv c) {r : Nat} {q : Req} (hq : c.reqs[r]? = some q) {o : Nat}
    {ob : Obj} (ho : c.objs[o]? = some ob) (hh : q.pc.holds o = true) (hc : ob.conn.isSome = true) :
    live c o ob := by
  apply Classical.byContradiction
  intro hl
  have := (h.objs o ob ho).dead_conn hl hc
  have := cnt_pos hq hh
  omega

/-! ### preservation: generic shapes -/

/-- a step that only rewrites requester `r` without changing which object it holds -/
theorem inv_req_local {c : Cfg} (hinv : Inv c) {r : Nat} {q : Req} (hq : c.reqs[r]? = some q) (q2 : Req)
    (hsame : ∀ (o : Nat) (ob : Obj), c.objs[o]? = some ob → live c o ob ∨ ob.conn.isSome = true →
      q2.pc.holds o = q.pc.holds o) (hreq : ReqInv c q2) :
    Inv { c with reqs := c.reqs.set r q2 } := by
  refine ⟨hinv.map, hinv.keys, ?_, ?_, hinv.nopanic⟩
  · intro o ob ho
    exact (hinv.objs o ob ho).congr Iff.rfl (fun hl => cnt_set_same hq q2 o (hsame o ob ho hl)) (Nat.le_refl _)
  · intro r' q' h'
    rw [getElem?_set_of hq] at h'
    by_cases e : r' = r
    · simp only [e, ↓reduceIte, Option.some.injEq] at h'
      subst h'
      exact ReqInv.mono (c := c) (ObjsLe.refl_of rfl) hreq
    · simp only [e, ↓reduceIte] at h'
      exact ReqInv.mono (c := c) (ObjsLe.refl_of rfl) (hinv.reqs r' q' h')

/-- a step of the dial goroutine of `o` that touches only its own object -/
theorem inv_obj_local {c : Cfg} (hinv : Inv c) {o : Nat} {ob : Obj} (ho : c.objs[o]? = some ob) (ob2 : Obj)
    (d' : Nat) (hd : c.dials ≤ d') (ha : ob2.addr = ob.addr)
    (hr : ob.ready = true → ob2.ready = true ∧ ob2.err = ob.err ∧ ob2.conn = ob.conn)
    (hob : ObjOK (live c o ob) (cnt o c.reqs) d' ob2) :
    Inv { c with objs := c.objs.set o ob2, dials := d' } := by
  have hle : ObjsLe c { c with objs := c.objs.set o ob2, dials := d' } := ObjsLe.set ho rfl ha hr
  refine ⟨MapInv.mono hle (fun _ _ h => h) hinv.map, hinv.keys, ?_, ?_, hinv.nopanic⟩
  · intro o' ob' ho'
    simp only [getElem?_set_of ho] at ho'
    by_cases e : o' = o
    · simp only [e, ↓reduceIte, Option.some.injEq] at ho'
      subst ho'; subst e
      unfold ObjInv live
      simp only [ha]
      exact hob
    · simp only [e, ↓reduceIte] at ho'
      exact (hinv.objs o' ob' ho').congr Iff.rfl (fun _ => rfl) hd
  · intro r q h'
    exact ReqInv.mono hle (hinv.reqs r q h')

theorem inv_start {c : Cfg} (hinv : Inv c) (a : Addr) (dk cn : Bool) :
    Inv { c with reqs := c.reqs ++ [{ addr := a, dialerOK := dk, cancelled := cn }] } := by
  refine ⟨hinv.map, hinv.keys, ?_, ?_, hinv.nopanic⟩
  · intro o ob ho
    refine (hinv.objs o ob ho).congr Iff.rfl (fun _ => ?_) (Nat.le_refl _)
    simp [cnt_push, RPc.holds]
  · intro r q h'
    simp only [getElem?_push] at h'
    by_cases e : r = c.reqs.length
    · simp only [e, ↓reduceIte, Option.some.injEq] at h'
      subst h'
      constructor <;> simp
    · simp only [e, ↓reduceIte] at h'
      exact ReqInv.mono (c := c) (ObjsLe.refl_of rfl) (hinv.reqs r q h')

/-! ### preservation: requester steps -/

theorem inv_cancel {c : Cfg} (hinv : Inv c) {r : Nat} {q : Req} (hq : c.reqs[r]? = some q) :
    Inv { c with reqs := c.reqs.set r { q with cancelled := true } } := by
  have h := hinv.reqs r q hq
  exact inv_req_local hinv hq _ (fun _ _ _ _ => rfl) ⟨h.wait_ok, h.woken_ok, h.held_ok⟩

theorem inv_r0 {c : Cfg} (hinv : Inv c) {r : Nat} {q : Req} (hq : c.reqs[r]? = some q) (hpc : q.pc = .r0) :
    Inv { c with reqs := c.reqs.set r { q with pc := if q.cancelled then .failed .ctx else .r1 } } := by
  apply inv_req_local hinv hq
  · intro o _ _ _
    cases q.cancelled <;> simp [hpc, RPc.holds]
  · constructor <;> cases q.cancelled <;> simp

theorem inv_r2 {c : Cfg} (hinv : Inv c) {r : Nat} {q : Req} (hq : c.reqs[r]? = some q) {o : Nat}
    (hpc : q.pc = .wait o) {ob : Obj} (ho : c.objs[o]? = some ob) (hr : ob.ready = true) :
    Inv { c with reqs := c.reqs.set r { q with pc := .woken o } } := by
  apply inv_req_local hinv hq
  · intro o' _ _ _
    simp [hpc, RPc.holds]
  · obtain ⟨ob', h1, h2⟩ := (hinv.reqs r q hq).wait_ok o hpc
    rw [ho] at h1; cases h1
    constructor
    · intro o' h; simp at h
    · intro o' h; simp at h; subst h; exact ⟨ob, ho, h2, hr⟩
    · intro o' b h; simp at h

theorem inv_r3_ok {c : Cfg} (hinv : Inv c) {r : Nat} {q : Req} (hq : c.reqs[r]? = some q) {o : Nat}
    (hpc : q.pc = .woken o) {ob : Obj} (ho : c.objs[o]? = some ob) (he : ob.err = none) :
    Inv { c with reqs := c.reqs.set r { q with pc := .held o false } } := by
  apply inv_req_local hinv hq
  · intro o' _ _ _
    simp [hpc, RPc.holds]
  · obtain ⟨ob', h1, h2, h3⟩ := (hinv.reqs r q hq).woken_ok o hpc
    rw [ho] at h1; cases h1
    constructor
    · intro o' h; simp at h
    · intro o' h; simp at h
    · intro o' b h; simp at h; obtain ⟨h, _⟩ := h; subst h; exact ⟨ob, ho, h2, h3, he⟩

theorem inv_r3_err {c : Cfg} (hinv : Inv c) {r : Nat} {q : Req} (hq : c.reqs[r]? = some q) {o : Nat}
    (hpc : q.pc = .woken o) {ob : Obj} (ho : c.objs[o]? = some ob) {e : Err} (he : ob.err = some e) :
    Inv { c with reqs := c.reqs.set r { q with pc := .failed e } } := by
  apply inv_req_local hinv hq
  · intro o' ob' ho' hl
    by_cases eo : o' = o
    · subst eo
      rw [ho] at ho'; cases ho'
      have hob := hinv.objs o' ob ho
      obtain ⟨ob', h1, _, h3⟩ := (hinv.reqs r q hq).woken_ok o' hpc
      rw [ho] at h1; cases h1
      have hfin : ob.dpc = .fin := hob.ready_iff.mp h3
      have hpre : ob.dpc.pre = false := by rw [hfin]; rfl
      have hsome : ob.err.isSome = true := by rw [he]; rfl
      rcases hl with hl | hl
      · exact absurd hl (hob.err_dead hsome)
      · rcases hob.outcome hpre with ⟨_, h⟩ | ⟨h, _⟩
        · rw [h] at hl; simp at hl
        · rw [h] at hsome; simp at hsome
    · have : ¬ o = o' := fun h => eo h.symm
      simp [hpc, RPc.holds, this]
  · constructor <;> simp

/-! ### preservation: steps of the dial goroutine that touch only its own object -/

theorem inv_d1a_ok {c : Cfg} (hinv : Inv c) {o : Nat} {ob : Obj} (ho : c.objs[o]? = some ob)
    (hpc : ob.dpc = .start) :
    Inv { c with objs := c.objs.set o { ob with dpc := .dialing c.dials }, dials := c.dials + 1 } := by
  have h := hinv.objs o ob ho
  have hpre : ob.dpc.pre = true := by rw [hpc]; rfl
  have hnr : ob.ready = false := by
    cases hr : ob.ready with
    | false => rfl
    | true => have := h.ready_iff.mp hr; rw [hpc] at this; cases this
  refine inv_obj_local hinv ho _ _ (Nat.le_succ _) ?_ ?_ ?_
  · rfl
  · intro hr; rw [hnr] at hr; cases hr
  constructor
  · intro _; exact h.pre_live hpre
  · simp [hnr]
  · intro _; exact h.pre_blank hpre
  · intro hp; simp [DPc.pre] at hp
  · exact h.err_dead
  · exact h.live_ref
  · exact h.dead_conn
  · exact h.dead_noconn
  · intro k hk; simp at hk; omega
  · intro k hk; exact Nat.lt_succ_of_lt (h.conn_lt k hk)

theorem inv_d1a_nodialer {c : Cfg} (hinv : Inv c) {o : Nat} {ob : Obj} (ho : c.objs[o]? = some ob)
    (hpc : ob.dpc = .start) :
    Inv { c with objs := c.objs.set o { ob with dpc := .failing .noDialer } } := by
  have h := hinv.objs o ob ho
  have hpre : ob.dpc.pre = true := by rw [hpc]; rfl
  have hnr : ob.ready = false := by
    cases hr : ob.ready with
    | false => rfl
    | true => have := h.ready_iff.mp hr; rw [hpc] at this; cases this
  refine inv_obj_local hinv ho _ c.dials (Nat.le_refl _) ?_ ?_ ?_
  · rfl
  · intro hr; rw [hnr] at hr; cases hr
  constructor
  · intro _; exact h.pre_live hpre
  · simp [hnr]
  · intro _; exact h.pre_blank hpre
  · intro hp; simp [DPc.pre] at hp
  · exact h.err_dead
  · exact h.live_ref
  · exact h.dead_conn
  · exact h.dead_noconn
  · intro k hk; simp at hk
  · exact h.conn_lt

theorem inv_d1b_fail {c : Cfg} (hinv : Inv c) {o : Nat} {ob : Obj} (ho : c.objs[o]? = some ob)
    {n : Nat} (hpc : ob.dpc = .dialing n) (e : Err) :
    Inv { c with objs := c.objs.set o { ob with dpc := .failing e } } := by
  have h := hinv.objs o ob ho
  have hpre : ob.dpc.pre = true := by rw [hpc]; rfl
  have hnr : ob.ready = false := by
    cases hr : ob.ready with
    | false => rfl
    | true => have := h.ready_iff.mp hr; rw [hpc] at this; cases this
  refine inv_obj_local hinv ho _ c.dials (Nat.le_refl _) ?_ ?_ ?_
  · rfl
  · intro hr; rw [hnr] at hr; cases hr
  constructor
  · intro _; exact h.pre_live hpre
  · simp [hnr]
  · intro _; exact h.pre_blank hpre
  · intro hp; simp [DPc.pre] at hp
  · exact h.err_dead
  · exact h.live_ref
  · exact h.dead_conn
  · exact h.dead_noconn
  · intro k hk; simp at hk
  · exact h.conn_lt

theorem inv_d1b_ok {c : Cfg} (hinv : Inv c) {o : Nat} {ob : Obj} (ho : c.objs[o]? = some ob)
    {n : Nat} (hpc : ob.dpc = .dialing n) :
    Inv { c with objs := c.objs.set o { ob with conn := some n, dpc := .closing } } := by
  have h := hinv.objs o ob ho
  have hpre : ob.dpc.pre = true := by rw [hpc]; rfl
  have hnr : ob.ready = false := by
    cases hr : ob.ready with
    | false => rfl
    | true => have := h.ready_iff.mp hr; rw [hpc] at this; cases this
  have hl := h.pre_live hpre
  refine inv_obj_local hinv ho _ c.dials (Nat.le_refl _) ?_ ?_ ?_
  · rfl
  · intro hr; rw [hnr] at hr; cases hr
  constructor
  · intro _; exact hl
  · simp [hnr]
  · intro hp; simp [DPc.pre] at hp
  · intro _; exact Or.inr ⟨(h.pre_blank hpre).1, rfl⟩
  · exact h.err_dead
  · exact h.live_ref
  · intro nl; exact absurd hl nl
  · intro nl; exact absurd hl nl
  · intro k hk; simp at hk
  · intro k hk; simp at hk; subst hk; exact h.dial_lt _ hpc

theorem inv_d3 {c : Cfg} (hinv : Inv c) {o : Nat} {ob : Obj} (ho : c.objs[o]? = some ob)
    (hpc : ob.dpc = .closing) :
    Inv { c with objs := c.objs.set o { ob with ready := true, dpc := .fin } } := by
  have h := hinv.objs o ob ho
  have hpre : ob.dpc.pre = false := by rw [hpc]; rfl
  have hnr : ob.ready = false := by
    cases hr : ob.ready with
    | false => rfl
    | true => have := h.ready_iff.mp hr; rw [hpc] at this; cases this
  refine inv_obj_local hinv ho _ c.dials (Nat.le_refl _) ?_ ?_ ?_
  · rfl
  · intro hr; rw [hnr] at hr; cases hr
  constructor
  · intro hp; simp [DPc.pre] at hp
  · simp
  · intro hp; simp [DPc.pre] at hp
  · intro _; exact h.outcome hpre
  · exact h.err_dead
  · exact h.live_ref
  · exact h.dead_conn
  · exact h.dead_noconn
  · intro k hk; simp at hk
  · exact h.conn_lt

/-! ### preservation: the locked sections that change `m.conns` or a reference count -/

theorem live_erase_other {m : List (Addr × Nat)} {a : Addr} {o : Nat} (hf : find m a = some o)
    {o' : Nat} (hne : o' ≠ o) (b : Addr) :
    find (erase m a) b = some o' ↔ find m b = some o' := by
  rw [find_erase]
  by_cases hb : b = a
  · subst hb
    simp only [↓reduceIte, hf, Option.some.injEq]
    constructor
    · intro h; cases h
    · intro h; exact absurd h.symm hne
  · simp [hb]

theorem inv_r1_join {c : Cfg} (hinv : Inv c) {r : Nat} {q : Req} (hq : c.reqs[r]? = some q)
    (hpc : q.pc = .r1) {o : Nat} (hf : find c.conns q.addr = some o) {ob : Obj} (ho : c.objs[o]? = some ob) :
    Inv { c with objs := c.objs.set o { ob with ref := ob.ref + 1 },
                 reqs := c.reqs.set r { q with pc := .wait o } } := by
  have haddr : ob.addr = q.addr := by
    obtain ⟨ob', h1, h2⟩ := hinv.map _ _ hf
    rw [ho] at h1; cases h1; exact h2
  have hl : live c o ob := by unfold live; rw [haddr]; exact hf
  have h := hinv.objs o ob ho
  have hle : ObjsLe c { c with objs := c.objs.set o { ob with ref := ob.ref + 1 },
                               reqs := c.reqs.set r { q with pc := .wait o } } :=
    ObjsLe.set ho rfl rfl (fun hr => ⟨hr, rfl, rfl⟩)
  refine ⟨MapInv.mono hle (fun _ _ h => h) hinv.map, hinv.keys, ?_, ?_, hinv.nopanic⟩
  · intro o' ob' ho'
    simp only [getElem?_set_of ho] at ho'
    by_cases e : o' = o
    · simp only [e, ↓reduceIte, Option.some.injEq] at ho'
      subst ho'; subst e
      have hc := cnt_set hq { q with pc := .wait o' } o'
      simp only [hpc, RPc.holds, beq_self_eq_true, ↓reduceIte, Bool.false_eq_true, Nat.add_zero] at hc
      have lr := h.live_ref hl
      exact { pre_live := fun _ => hl, ready_iff := h.ready_iff, pre_blank := h.pre_blank,
              outcome := h.outcome, err_dead := h.err_dead,
              live_ref := fun _ => ⟨by show ob.ref + 1 = _; rw [hc, lr.1]; omega, by rw [hc]; omega, lr.2.2⟩,
              dead_conn := fun nl => absurd hl nl, dead_noconn := fun nl => absurd hl nl,
              dial_lt := h.dial_lt, conn_lt := h.conn_lt }
    · simp only [e, ↓reduceIte] at ho'
      refine (hinv.objs o' ob' ho').congr Iff.rfl (fun _ => cnt_set_same hq _ o' ?_) (Nat.le_refl _)
      have : ¬ o = o' := fun h => e h.symm
      simp [hpc, RPc.holds, this]
  · intro r' q' h'
    rw [getElem?_set_of hq] at h'
    by_cases e : r' = r
    · simp only [e, ↓reduceIte, Option.some.injEq] at h'
      subst h'
      constructor
      · intro o' h; simp only [RPc.wait.injEq] at h; subst h
        exact ⟨{ ob with ref := ob.ref + 1 }, by simp [getElem?_set_of ho], haddr⟩
      · intro o' h; simp at h
      · intro o' b h; simp at h
    · simp only [e, ↓reduceIte] at h'
      exact ReqInv.mono hle (hinv.reqs r' q' h')

/-- the create arm of `doR1` -/
def createCfg (c : Cfg) (r : Nat) (q : Req) : Cfg :=
  { c with
    conns := (q.addr, c.objs.length) :: c.conns
    objs := c.objs ++ [{ addr := q.addr, ref := 1, creator := r, dialerOK := q.dialerOK }]
    reqs := c.reqs.set r { q with pc := .wait c.objs.length } }

theorem inv_r1_create {c : Cfg} (hinv : Inv c) {r : Nat} {q : Req} (hq : c.reqs[r]? = some q)
    (hpc : q.pc = .r1) (hf : find c.conns q.addr = none) :
    Inv (createCfg c r q) := by
  have hle : ObjsLe c (createCfg c r q) := by
    unfold createCfg
    intro o ob ho
    have : o ≠ c.objs.length := Nat.ne_of_lt (lt_of_getElem? ho)
    exact ⟨ob, by simp [getElem?_push, this, ho], rfl, fun hr => ⟨hr, rfl, rfl⟩⟩
  -- nobody refers to the fresh index
  have hfresh : cnt c.objs.length c.reqs = 0 := by
    apply cnt_zero
    intro r' q' h'
    have hr := hinv.reqs r' q' h'
    cases hp : q'.pc with
    | wait o => obtain ⟨ob, h1, _⟩ := hr.wait_ok o hp
                have : o ≠ c.objs.length := Nat.ne_of_lt (lt_of_getElem? h1)
                simp [RPc.holds, this]
    | woken o => obtain ⟨ob, h1, _⟩ := hr.woken_ok o hp
                 have : o ≠ c.objs.length := Nat.ne_of_lt (lt_of_getElem? h1)
                 simp [RPc.holds, this]
    | held o b => obtain ⟨ob, h1, _⟩ := hr.held_ok o b hp
                  have : o ≠ c.objs.length := Nat.ne_of_lt (lt_of_getElem? h1)
                  cases b <;> simp [RPc.holds, this]
    | _ => simp [RPc.holds]
  refine ⟨?_, ?_, ?_, ?_, hinv.nopanic⟩
  · intro a o hfa
    simp only [createCfg, find_cons] at hfa
    by_cases e : q.addr = a
    · simp only [e, ↓reduceIte, Option.some.injEq] at hfa
      subst hfa
      exact ⟨{ addr := q.addr, ref := 1, creator := r, dialerOK := q.dialerOK }, by simp [createCfg], e⟩
    · simp only [e, ↓reduceIte] at hfa
      obtain ⟨ob, h1, h2⟩ := hinv.map a o hfa
      obtain ⟨ob', g1, g2, _⟩ := hle o ob h1
      exact ⟨ob', g1, g2.trans h2⟩
  · show ((q.addr, c.objs.length) :: c.conns |>.map Prod.fst).Nodup
    simp only [List.map_cons, List.nodup_cons]
    exact ⟨find_none_not_mem hf, hinv.keys⟩
  · intro o' ob' ho'
    simp only [createCfg, getElem?_push] at ho'
    by_cases e : o' = c.objs.length
    · simp only [e, ↓reduceIte, Option.some.injEq] at ho'
      subst ho'; subst e
      have hc := cnt_set hq { q with pc := .wait c.objs.length } c.objs.length
      simp only [hpc, RPc.holds, beq_self_eq_true, ↓reduceIte, Bool.false_eq_true, Nat.add_zero, hfresh] at hc
      have hl : find ((q.addr, c.objs.length) :: c.conns) q.addr = some c.objs.length := by simp [find_cons]
      unfold ObjInv live createCfg
      constructor
      · intro _; exact hl
      · simp
      · intro _; exact ⟨rfl, rfl⟩
      · intro hp; simp [DPc.pre] at hp
      · intro he; simp at he
      · intro _; refine ⟨?_, ?_, rfl⟩
        · show (1 : Int) = _; rw [hc]; rfl
        · show 1 ≤ cnt _ _; rw [hc]; exact Nat.le_refl _
      · intro nl; exact absurd hl nl
      · intro nl; exact absurd hl nl
      · intro k hk; simp at hk
      · intro k hk; simp at hk
    · simp only [e, ↓reduceIte] at ho'
      have hlt : o' < c.objs.length := lt_of_getElem? ho'
      refine (hinv.objs o' ob' ho').congr ?_ (fun _ => cnt_set_same hq _ o' ?_) (Nat.le_refl _)
      · show find ((q.addr, c.objs.length) :: c.conns) ob'.addr = some o' ↔ find c.conns ob'.addr = some o'
        rw [find_cons]
        by_cases ea : q.addr = ob'.addr
        · simp only [ea, ↓reduceIte, Option.some.injEq]
          rw [← ea, hf]
          constructor
          · intro h; omega
          · intro h; cases h
        · simp [ea]
      · have : ¬ c.objs.length = o' := fun h => e h.symm
        simp [hpc, RPc.holds, this]
  · intro r' q' h'
    simp only [createCfg] at h'
    rw [getElem?_set_of hq] at h'
    by_cases e : r' = r
    · simp only [e, ↓reduceIte, Option.some.injEq] at h'
      subst h'
      constructor
      · intro o' h; simp only [RPc.wait.injEq] at h; subst h
        exact ⟨{ addr := q.addr, ref := 1, creator := r, dialerOK := q.dialerOK }, by simp [createCfg], rfl⟩
      · intro o' h; simp at h
      · intro o' b h; simp at h
    · simp only [e, ↓reduceIte] at h'
      exact ReqInv.mono hle (hinv.reqs r' q' h')

theorem remove_eq {c : Cfg} {a : Addr} {o : Nat} {ob : Obj} (hf : find c.conns a = some o)
    (ho : c.objs[o]? = some ob) :
    remove c a = { c with conns := erase c.conns a,
                          objs := c.objs.set o (if ob.conn.isSome then { ob with closed := ob.closed + 1 } else ob) } := by
  simp [remove, hf, ho]

/-- the registered object `o` is unregistered (`remove`) and replaced by `ob2` -/
theorem inv_unregister {c c' : Cfg} (hinv : Inv c) {o : Nat} {ob : Obj} (ho : c.objs[o]? = some ob)
    (hl : live c o ob) (ob2 : Obj)
    (hconns : c'.conns = erase c.conns ob.addr) (hobjs : c'.objs = c.objs.set o ob2)
    (hdials : c'.dials = c.dials) (hpan : c'.panicked = false)
    (ha : ob2.addr = ob.addr)
    (hr : ob.ready = true → ob2.ready = true ∧ ob2.err = ob.err ∧ ob2.conn = ob.conn)
    (hcnt : ∀ o', o' ≠ o → cnt o' c'.reqs = cnt o' c.reqs)
    (hreqs : ObjsLe c c' → ∀ (r : Nat) (q : Req), c'.reqs[r]? = some q → ReqInv c' q)
    (hob : ObjOK False (cnt o c'.reqs) c.dials ob2) : Inv c' := by
  have hle : ObjsLe c c' := ObjsLe.set ho hobjs ha hr
  have hf : find c.conns ob.addr = some o := hl
  refine ⟨?_, ?_, ?_, hreqs hle, hpan⟩
  · apply MapInv.mono hle _ hinv.map
    intro a x hx
    rw [hconns, find_erase] at hx
    by_cases e : a = ob.addr
    · simp [e] at hx
    · simpa [e] using hx
  · rw [hconns]; exact keysNodup_erase _ hinv.keys
  · intro o' ob' ho'
    rw [hobjs, getElem?_set_of ho] at ho'
    by_cases e : o' = o
    · simp only [e, ↓reduceIte, Option.some.injEq] at ho'
      subst ho'; subst e
      have hnl : ¬ live c' o' ob2 := by
        unfold live; rw [hconns, ha, find_erase]; simp
      unfold ObjInv
      rw [hdials]
      exact hob.congr ⟨fun h => absurd h hnl, False.elim⟩ (fun _ => rfl) (Nat.le_refl _)
    · simp only [e, ↓reduceIte] at ho'
      unfold ObjInv
      rw [hdials]
      refine (hinv.objs o' ob' ho').congr ?_ (fun _ => hcnt o' e) (Nat.le_refl _)
      unfold live
      rw [hconns]
      exact live_erase_other hf e _

theorem inv_d2 {c : Cfg} (hinv : Inv c) {o : Nat} {ob : Obj} (ho : c.objs[o]? = some ob)
    {e : Err} (hpc : ob.dpc = .failing e) : Inv (doD2 c o ob e) := by
  have h := hinv.objs o ob ho
  have hpre : ob.dpc.pre = true := by rw [hpc]; rfl
  have hl : live c o ob := h.pre_live hpre
  have hnr : ob.ready = false := by
    cases hr : ob.ready with
    | false => rfl
    | true => have := h.ready_iff.mp hr; rw [hpc] at this; cases this
  have hb := h.pre_blank hpre
  have heq : doD2 c o ob e = { c with conns := erase c.conns ob.addr, objs := c.objs.set o { ob with err := some e, dpc := .closing } } := by
    have hi : ob.conn.isSome = false := by rw [hb.2]; rfl
    have hlt : o < c.objs.length := lt_of_getElem? ho
    simp [doD2, remove_eq hl ho, hinv.nopanic, hi, hlt, List.set_set]
  rw [heq]
  refine inv_unregister hinv ho hl { ob with err := some e, dpc := .closing } rfl rfl rfl hinv.nopanic rfl
    (by intro hr; rw [hnr] at hr; cases hr) (fun _ _ => rfl) (fun hle r q hq => ReqInv.mono hle (hinv.reqs r q hq)) ?_
  constructor
  · intro hp; simp [DPc.pre] at hp
  · simp [hnr]
  · intro hp; simp [DPc.pre] at hp
  · intro _; exact Or.inl ⟨rfl, hb.2⟩
  · intro _ f; exact f
  · intro f; exact f.elim
  · intro _ hc; rw [show ob.conn = none from hb.2] at hc; simp at hc
  · intro _ _; exact (h.live_ref hl).2.2
  · intro k hk; simp at hk
  · exact h.conn_lt

theorem inv_done {c : Cfg} (hinv : Inv c) {r : Nat} {q : Req} (hq : c.reqs[r]? = some q) {o : Nat}
    (hpc : q.pc = .held o false) {ob : Obj} (ho : c.objs[o]? = some ob) : Inv (doDone c r q o ob) := by
  have h := hinv.objs o ob ho
  obtain ⟨ob', h1, _, hrdy, herr⟩ := (hinv.reqs r q hq).held_ok o false hpc
  rw [ho] at h1; cases h1
  have hfin : ob.dpc = .fin := h.ready_iff.mp hrdy
  have hpre : ob.dpc.pre = false := by rw [hfin]; rfl
  have hconn : ob.conn.isSome = true := by
    rcases h.outcome hpre with ⟨h1, _⟩ | ⟨_, h2⟩
    · rw [herr] at h1; simp at h1
    · exact h2
  have hholds : q.pc.holds o = true := by simp [hpc, RPc.holds]
  have hl : live c o ob := hinv.holder_live hq ho hholds hconn
  have lr := h.live_ref hl
  have hc := cnt_set hq { q with pc := .held o true } o
  rw [hholds] at hc
  simp only [RPc.holds, ↓reduceIte, Bool.false_eq_true, Nat.add_zero] at hc
  have hother : ∀ o', o' ≠ o → cnt o' (c.reqs.set r { q with pc := .held o true }) = cnt o' c.reqs := by
    intro o' e
    apply cnt_set_same hq
    have : ¬ o = o' := fun h => e h.symm
    simp [hpc, RPc.holds, this]
  have hreq2 : ∀ c' : Cfg, ObjsLe c c' → c'.reqs = c.reqs.set r { q with pc := .held o true } →
      ∀ (r' : Nat) (q' : Req), c'.reqs[r']? = some q' → ReqInv c' q' := by
    intro c' hle hrq r' q' h'
    rw [hrq, getElem?_set_of hq] at h'
    by_cases e : r' = r
    · simp only [e, ↓reduceIte, Option.some.injEq] at h'
      subst h'
      have hold := ReqInv.mono hle (hinv.reqs r q hq)
      constructor
      · intro o' hh; simp at hh
      · intro o' hh; simp at hh
      · intro o' b hh
        simp only [RPc.held.injEq] at hh
        obtain ⟨hh, _⟩ := hh; subst hh
        exact hold.held_ok _ false hpc
    · simp only [e, ↓reduceIte] at h'
      exact ReqInv.mono hle (hinv.reqs r' q' h')
  unfold doDone
  by_cases hz : ob.ref - 1 ≤ 0
  · -- last holder: remove
    have hlt : o < c.objs.length := lt_of_getElem? ho
    have heq : remove { c with objs := c.objs.set o { ob with ref := ob.ref - 1 }, reqs := c.reqs.set r { q with pc := .held o true } } ob.addr
        = { c with conns := erase c.conns ob.addr, objs := c.objs.set o { ob with ref := ob.ref - 1, closed := ob.closed + 1 }, reqs := c.reqs.set r { q with pc := .held o true } } := by
      have hf : find c.conns ob.addr = some o := hl
      simp [remove, hf, hlt, hconn, List.set_set]
    simp only [hz, ↓reduceIte]
    rw [heq]
    refine inv_unregister hinv ho hl { ob with ref := ob.ref - 1, closed := ob.closed + 1 } rfl rfl rfl
      hinv.nopanic rfl (fun hr => ⟨hr, rfl, rfl⟩) hother (fun hle => hreq2 _ hle rfl) ?_
    have hn1 : cnt o c.reqs = 1 := by omega
    have hn0 : cnt o (c.reqs.set r { q with pc := .held o true }) = 0 := by omega
    constructor
    · intro hp; rw [show (Obj.dpc _) = ob.dpc from rfl, hpre] at hp; cases hp
    · exact h.ready_iff
    · intro hp; rw [show (Obj.dpc _) = ob.dpc from rfl, hpre] at hp; cases hp
    · exact h.outcome
    · intro _ f; exact f
    · intro f; exact f.elim
    · intro _ _
      refine ⟨?_, hn0, ?_⟩
      · show ob.closed + 1 = 1; rw [lr.2.2]
      · show ob.ref - 1 = 0; omega
    · intro _ hcn; rw [show (Obj.conn _) = ob.conn from rfl, hcn] at hconn; simp at hconn
    · exact h.dial_lt
    · exact h.conn_lt
  · -- other holders remain
    simp only [hz, ↓reduceIte]
    have hle : ObjsLe c { c with objs := c.objs.set o { ob with ref := ob.ref - 1 },
                                 reqs := c.reqs.set r { q with pc := .held o true } } :=
      ObjsLe.set ho rfl rfl (fun hr => ⟨hr, rfl, rfl⟩)
    refine ⟨MapInv.mono hle (fun _ _ h => h) hinv.map, hinv.keys, ?_, hreq2 _ hle rfl, hinv.nopanic⟩
    intro o' ob' ho'
    simp only [getElem?_set_of ho] at ho'
    by_cases e : o' = o
    · simp only [e, ↓reduceIte, Option.some.injEq] at ho'
      subst ho'; subst e
      exact { pre_live := fun _ => hl, ready_iff := h.ready_iff, pre_blank := h.pre_blank,
              outcome := h.outcome, err_dead := h.err_dead,
              live_ref := fun _ => ⟨by
                  show ob.ref - 1 = ((cnt o' (c.reqs.set r { q with pc := .held o' true }) : Nat) : Int)
                  omega, by
                  show 1 ≤ cnt o' (c.reqs.set r { q with pc := .held o' true })
                  omega, lr.2.2⟩,
              dead_conn := fun nl => absurd hl nl, dead_noconn := fun nl => absurd hl nl,
              dial_lt := h.dial_lt, conn_lt := h.conn_lt }
    · simp only [e, ↓reduceIte] at ho'
      exact (hinv.objs o' ob' ho').congr Iff.rfl (fun _ => hother o' e) (Nat.le_refl _)

/-! ### the invariant is inductive -/

theorem inv_init : Inv init := by
  refine ⟨?_, ?_, ?_, ?_, rfl⟩
  · intro a o h; simp [init, find] at h
  · simp [init, KeysNodup]
  · intro o ob h; simp [init] at h
  · intro r q h; simp [init] at h

theorem doR1_inv {c : Cfg} (hinv : Inv c) {r : Nat} {q : Req} (hq : c.reqs[r]? = some q)
    (hpc : q.pc = .r1) : Inv (doR1 c r q) := by
  unfold doR1
  split
  · rename_i o hf
    split
    · rename_i ob ho
      exact inv_r1_join hinv hq hpc hf ho
    · rename_i ho
      obtain ⟨ob, h1, _⟩ := hinv.map _ _ hf
      rw [ho] at h1; cases h1
  · rename_i hf
    exact inv_r1_create hinv hq hpc hf

theorem inv_step {c c' : Cfg} {l : Label} (hinv : Inv c) (h : step c l = some c') : Inv c' := by
  unfold step at h
  rw [hinv.nopanic] at h
  simp only [Bool.false_eq_true, ↓reduceIte] at h
  cases l with
  | start a dk cn =>
    simp only [stepL, Option.some.injEq] at h
    subst h
    exact inv_start hinv a dk cn
  | cancel r =>
    simp only [stepL] at h
    split at h <;> try (cases h; done)
    rename_i q hq
    cases h
    exact inv_cancel hinv hq
  | r0 r =>
    simp only [stepL] at h
    split at h <;> try (cases h; done)
    rename_i q hq
    split at h <;> try (cases h; done)
    rename_i hpc
    cases h
    exact inv_r0 hinv hq hpc
  | r1 r =>
    simp only [stepL] at h
    split at h <;> try (cases h; done)
    rename_i q hq
    split at h <;> try (cases h; done)
    rename_i hpc
    cases h
    exact doR1_inv hinv hq hpc
  | r2 r =>
    simp only [stepL] at h
    split at h <;> try (cases h; done)
    rename_i q hq
    split at h <;> try (cases h; done)
    rename_i o hpc
    split at h <;> try (cases h; done)
    rename_i ob ho
    split at h <;> try (cases h; done)
    rename_i hr
    cases h
    exact inv_r2 hinv hq hpc ho hr
  | r3 r =>
    simp only [stepL] at h
    split at h <;> try (cases h; done)
    rename_i q hq
    split at h <;> try (cases h; done)
    rename_i o hpc
    split at h <;> try (cases h; done)
    rename_i ob ho
    split at h
    · rename_i e he
      cases h
      exact inv_r3_err hinv hq hpc ho he
    · rename_i he
      cases h
      exact inv_r3_ok hinv hq hpc ho he
  | done r =>
    simp only [stepL] at h
    split at h <;> try (cases h; done)
    rename_i q hq
    split at h <;> try (cases h; done)
    · cases h; exact hinv
    · cases h; exact hinv
    · rename_i o hpc
      split at h <;> try (cases h; done)
      rename_i ob ho
      cases h
      exact inv_done hinv hq hpc ho
  | d1a o =>
    simp only [stepL] at h
    split at h <;> try (cases h; done)
    rename_i ob ho
    split at h <;> try (cases h; done)
    rename_i hpc
    split at h
    · cases h; exact inv_d1a_ok hinv ho hpc
    · cases h; exact inv_d1a_nodialer hinv ho hpc
  | d1b o out =>
    simp only [stepL] at h
    split at h <;> try (cases h; done)
    rename_i ob ho
    split at h <;> try (cases h; done)
    rename_i n hpc
    split at h
    · cases h; exact inv_d1b_ok hinv ho hpc
    · cases h; exact inv_d1b_fail hinv ho hpc .dial
    · split at h <;> try (cases h; done)
      split at h <;> try (cases h; done)
      cases h; exact inv_d1b_fail hinv ho hpc .ctx
  | d2 o =>
    simp only [stepL] at h
    split at h <;> try (cases h; done)
    rename_i ob ho
    split at h <;> try (cases h; done)
    rename_i e hpc
    cases h
    exact inv_d2 hinv ho hpc
  | d3 o =>
    simp only [stepL] at h
    split at h <;> try (cases h; done)
    rename_i ob ho
    split at h <;> try (cases h; done)
    rename_i hpc
    cases h
    exact inv_d3 hinv ho hpc

theorem inv_reach {c : Cfg} (h : Reach c) : Inv c := by
  induction h with
  | init => exact inv_init
  | step l _ hs ih => exact inv_step ih hs

/-! ### explicit forms of the two locked sections that call `remove` -/

theorem not_ready_of_pc {c : Cfg} (hinv : Inv c) {o : Nat} {ob : Obj} (ho : c.objs[o]? = some ob)
    (hpc : ob.dpc ≠ .fin) : ob.ready = false := by
  cases hr : ob.ready with
  | false => rfl
  | true => exact absurd ((hinv.objs o ob ho).ready_iff.mp hr) hpc

theorem doD2_eq {c : Cfg} (hinv : Inv c) {o : Nat} {ob : Obj} (ho : c.objs[o]? = some ob)
    {e : Err} (hpc : ob.dpc = .failing e) :
    doD2 c o ob e = { c with conns := erase c.conns ob.addr, objs := c.objs.set o { ob with err := some e, dpc := .closing } } := by
  have h := hinv.objs o ob ho
  have hpre : ob.dpc.pre = true := by rw [hpc]; rfl
  have hl : live c o ob := h.pre_live hpre
  have hb := h.pre_blank hpre
  have hi : ob.conn.isSome = false := by rw [hb.2]; rfl
  have hlt : o < c.objs.length := lt_of_getElem? ho
  simp [doD2, remove_eq hl ho, hinv.nopanic, hi, hlt, List.set_set]

/-- what the invariant says about a requester that holds an unreleased connection -/
theorem held_facts {c : Cfg} (hinv : Inv c) {r : Nat} {q : Req} (hq : c.reqs[r]? = some q) {o : Nat}
    (hpc : q.pc = .held o false) {ob : Obj} (ho : c.objs[o]? = some ob) :
    live c o ob ∧ ob.conn.isSome = true ∧ ob.err = none ∧ ob.ready = true ∧
      ob.ref = (cnt o c.reqs : Int) ∧ 1 ≤ cnt o c.reqs ∧ ob.closed = 0 := by
  have h := hinv.objs o ob ho
  obtain ⟨ob', h1, _, hrdy, herr⟩ := (hinv.reqs r q hq).held_ok o false hpc
  rw [ho] at h1; cases h1
  have hfin : ob.dpc = .fin := h.ready_iff.mp hrdy
  have hpre : ob.dpc.pre = false := by rw [hfin]; rfl
  have hconn : ob.conn.isSome = true := by
    rcases h.outcome hpre with ⟨h1, _⟩ | ⟨_, h2⟩
    · rw [herr] at h1; simp at h1
    · exact h2
  have hholds : q.pc.holds o = true := by simp [hpc, RPc.holds]
  have hl : live c o ob := hinv.holder_live hq ho hholds hconn
  have lr := h.live_ref hl
  exact ⟨hl, hconn, herr, hrdy, lr.1, lr.2.1, lr.2.2⟩

theorem doDone_last {c : Cfg} (hinv : Inv c) {r : Nat} {q : Req} (hq : c.reqs[r]? = some q) {o : Nat}
    (hpc : q.pc = .held o false) {ob : Obj} (ho : c.objs[o]? = some ob) (h1 : cnt o c.reqs = 1) :
    doDone c r q o ob = { c with conns := erase c.conns ob.addr, objs := c.objs.set o { ob with ref := ob.ref - 1, closed := ob.closed + 1 }, reqs := c.reqs.set r { q with pc := .held o true } } := by
  obtain ⟨hl, hconn, _, _, href, _, _⟩ := held_facts hinv hq hpc ho
  have hz : ob.ref - 1 ≤ 0 := by omega
  have hlt : o < c.objs.length := lt_of_getElem? ho
  have hf : find c.conns ob.addr = some o := hl
  simp [doDone, hz, remove, hf, hlt, hconn, List.set_set]

theorem doDone_more {c : Cfg} (hinv : Inv c) {r : Nat} {q : Req} (hq : c.reqs[r]? = some q) {o : Nat}
    (hpc : q.pc = .held o false) {ob : Obj} (ho : c.objs[o]? = some ob) (h1 : cnt o c.reqs ≠ 1) :
    doDone c r q o ob = { c with objs := c.objs.set o { ob with ref := ob.ref - 1 }, reqs := c.reqs.set r { q with pc := .held o true } } := by
  obtain ⟨_, _, _, _, href, hge, _⟩ := held_facts hinv hq hpc ho
  have hz : ¬ ob.ref - 1 ≤ 0 := by omega
  simp [doDone, hz]

/-! ### history: objects persist, a ready object keeps its outcome, `closed` never decreases -/

def ObjsMono (c c' : Cfg) : Prop :=
  ∀ (o : Nat) (ob : Obj), c.objs[o]? = some ob →
    ∃ ob' : Obj, c'.objs[o]? = some ob' ∧ ob'.addr = ob.addr ∧ ob.closed ≤ ob'.closed ∧
      (ob.ready = true → ob'.ready = true ∧ ob'.err = ob.err ∧ ob'.conn = ob.conn)

theorem ObjsMono.same {c c' : Cfg} (h : c'.objs = c.objs) : ObjsMono c c' := by
  intro o ob ho
  exact ⟨ob, by rw [h]; exact ho, rfl, Nat.le_refl _, fun hr => ⟨hr, rfl, rfl⟩⟩

theorem ObjsMono.trans {a b c : Cfg} (h1 : ObjsMono a b) (h2 : ObjsMono b c) : ObjsMono a c := by
  intro o ob ho
  obtain ⟨ob1, g1, g2, g3, g4⟩ := h1 o ob ho
  obtain ⟨ob2, k1, k2, k3, k4⟩ := h2 o ob1 g1
  refine ⟨ob2, k1, k2.trans g2, Nat.le_trans g3 k3, fun hr => ?_⟩
  obtain ⟨r1, e1, c1⟩ := g4 hr
  obtain ⟨r2, e2, c2⟩ := k4 r1
  exact ⟨r2, e2.trans e1, c2.trans c1⟩

theorem ObjsMono.set {c c' : Cfg} {o : Nat} {ob ob2 : Obj} (ho : c.objs[o]? = some ob)
    (h : c'.objs = c.objs.set o ob2) (ha : ob2.addr = ob.addr) (hc : ob.closed ≤ ob2.closed)
    (hr : ob.ready = true → ob2.ready = true ∧ ob2.err = ob.err ∧ ob2.conn = ob.conn) : ObjsMono c c' := by
  intro o' ob' ho'
  rw [h, getElem?_set_of ho]
  by_cases e : o' = o
  · subst e
    rw [ho] at ho'; cases ho'
    exact ⟨ob2, by simp, ha, hc, hr⟩
  · exact ⟨ob', by simp [e, ho'], rfl, Nat.le_refl _, fun hr => ⟨hr, rfl, rfl⟩⟩

theorem ObjsMono.push {c c' : Cfg} {x : Obj} (h : c'.objs = c.objs ++ [x]) : ObjsMono c c' := by
  intro o ob ho
  have : o ≠ c.objs.length := Nat.ne_of_lt (lt_of_getElem? ho)
  exact ⟨ob, by simp [h, getElem?_push, this, ho], rfl, Nat.le_refl _, fun hr => ⟨hr, rfl, rfl⟩⟩

theorem remove_mono (c : Cfg) (a : Addr) : ObjsMono c (remove c a) := by
  unfold remove
  split
  · exact ObjsMono.same rfl
  · split
    · exact ObjsMono.same rfl
    · rename_i o _ ob ho
      refine ObjsMono.set ho rfl ?_ ?_ ?_
      · split <;> rfl
      · split
        · exact Nat.le_succ _
        · exact Nat.le_refl _
      · intro hr; split <;> exact ⟨hr, rfl, rfl⟩

theorem step_mono {c c' : Cfg} {l : Label} (hinv : Inv c) (h : step c l = some c') : ObjsMono c c' := by
  unfold step at h
  rw [hinv.nopanic] at h
  simp only [Bool.false_eq_true, ↓reduceIte] at h
  cases l with
  | start a dk cn =>
    simp only [stepL, Option.some.injEq] at h
    subst h; exact ObjsMono.same rfl
  | cancel r =>
    simp only [stepL] at h
    split at h <;> try (cases h; done)
    cases h; exact ObjsMono.same rfl
  | r0 r =>
    simp only [stepL] at h
    split at h <;> try (cases h; done)
    split at h <;> try (cases h; done)
    cases h; exact ObjsMono.same rfl
  | r1 r =>
    simp only [stepL] at h
    split at h <;> try (cases h; done)
    rename_i q hq
    split at h <;> try (cases h; done)
    cases h
    unfold doR1
    split
    · split
      · rename_i ob ho
        exact ObjsMono.set ho rfl rfl (Nat.le_refl _) (fun hr => ⟨hr, rfl, rfl⟩)
      · exact ObjsMono.same rfl
    · exact ObjsMono.push rfl
  | r2 r =>
    simp only [stepL] at h
    split at h <;> try (cases h; done)
    split at h <;> try (cases h; done)
    split at h <;> try (cases h; done)
    split at h <;> try (cases h; done)
    cases h; exact ObjsMono.same rfl
  | r3 r =>
    simp only [stepL] at h
    split at h <;> try (cases h; done)
    split at h <;> try (cases h; done)
    split at h <;> try (cases h; done)
    split at h <;> (cases h; exact ObjsMono.same rfl)
  | done r =>
    simp only [stepL] at h
    split at h <;> try (cases h; done)
    rename_i q hq
    split at h <;> try (cases h; done)
    · cases h; exact ObjsMono.same rfl
    · cases h; exact ObjsMono.same rfl
    · rename_i o hpc
      split at h <;> try (cases h; done)
      rename_i ob ho
      cases h
      unfold doDone
      have h1 : ObjsMono c { c with objs := c.objs.set o { ob with ref := ob.ref - 1 }, reqs := c.reqs.set r { q with pc := .held o true } } :=
        ObjsMono.set ho rfl rfl (Nat.le_refl _) (fun hr => ⟨hr, rfl, rfl⟩)
      split
      · exact h1.trans (remove_mono _ _)
      · exact h1
  | d1a o =>
    simp only [stepL] at h
    split at h <;> try (cases h; done)
    rename_i ob ho
    split at h <;> try (cases h; done)
    split at h <;> (cases h; exact ObjsMono.set ho rfl rfl (Nat.le_refl _) (fun hr => ⟨hr, rfl, rfl⟩))
  | d1b o out =>
    simp only [stepL] at h
    split at h <;> try (cases h; done)
    rename_i ob ho
    split at h <;> try (cases h; done)
    rename_i n hpc
    have hnr : ob.ready = false := not_ready_of_pc hinv ho (by rw [hpc]; intro h; cases h)
    split at h
    · cases h; exact ObjsMono.set ho rfl rfl (Nat.le_refl _) (fun hr => by rw [hnr] at hr; cases hr)
    · cases h; exact ObjsMono.set ho rfl rfl (Nat.le_refl _) (fun hr => ⟨hr, rfl, rfl⟩)
    · split at h <;> try (cases h; done)
      split at h <;> try (cases h; done)
      cases h; exact ObjsMono.set ho rfl rfl (Nat.le_refl _) (fun hr => ⟨hr, rfl, rfl⟩)
  | d2 o =>
    simp only [stepL] at h
    split at h <;> try (cases h; done)
    rename_i ob ho
    split at h <;> try (cases h; done)
    rename_i e hpc
    cases h
    have hnr : ob.ready = false := not_ready_of_pc hinv ho (by rw [hpc]; intro h; cases h)
    rw [doD2_eq hinv ho hpc]
    exact ObjsMono.set ho rfl rfl (Nat.le_refl _) (fun hr => by rw [hnr] at hr; cases hr)
  | d3 o =>
    simp only [stepL] at h
    split at h <;> try (cases h; done)
    rename_i ob ho
    split at h <;> try (cases h; done)
    cases h; exact ObjsMono.set ho rfl rfl (Nat.le_refl _) (fun _ => ⟨rfl, rfl, rfl⟩)

/-! ### connections are not shared between objects

`closed` is recorded per object; a `*grpc.ClientConn` is named by the Dial invocation that
returned it.  The two views agree because every object's dial goroutine invokes Dial at most
once and invocation numbers are fresh: no two objects ever carry the same invocation number. -/

/-- the Dial invocation an object is bound to: in progress, or the one that produced `c.c` -/
def tagOf (ob : Obj) : Option Nat :=
  match ob.dpc with
  | .dialing k => some k
  | _ => ob.conn

def Uniq (c : Cfg) : Prop :=
  ∀ (o1 o2 : Nat) (ob1 ob2 : Obj) (k : Nat), c.objs[o1]? = some ob1 → c.objs[o2]? = some ob2 →
    tagOf ob1 = some k → tagOf ob2 = some k → o1 = o2

theorem tag_lt {c : Cfg} (hinv : Inv c) {o : Nat} {ob : Obj} (ho : c.objs[o]? = some ob) {k : Nat}
    (hk : tagOf ob = some k) : k < c.dials := by
  have h := hinv.objs o ob ho
  unfold tagOf at hk
  split at hk
  · rename_i n hpc; cases hk; exact h.dial_lt _ hpc
  · exact h.conn_lt _ hk

/-- how one step may change tags -/
structure TagStep (c c' : Cfg) : Prop where
  dials_le : c.dials ≤ c'.dials
  tags : ∀ (o : Nat) (ob' : Obj), c'.objs[o]? = some ob' →
    tagOf ob' = none ∨ (∃ ob : Obj, c.objs[o]? = some ob ∧ tagOf ob = tagOf ob') ∨
    (tagOf ob' = some c.dials ∧ ∀ o2, o2 ≠ o → c'.objs[o2]? = c.objs[o2]?)

theorem TagStep.same {c c' : Cfg} (h : c'.objs = c.objs) (hd : c.dials ≤ c'.dials) : TagStep c c' :=
  ⟨hd, fun o ob' ho' => Or.inr (Or.inl ⟨ob', by rw [← h]; exact ho', rfl⟩)⟩

theorem TagStep.set {c c' : Cfg} {o : Nat} {ob ob2 : Obj} (ho : c.objs[o]? = some ob)
    (h : c'.objs = c.objs.set o ob2) (hd : c.dials ≤ c'.dials)
    (ht : tagOf ob2 = none ∨ tagOf ob2 = tagOf ob ∨ tagOf ob2 = some c.dials) : TagStep c c' := by
  refine ⟨hd, ?_⟩
  intro o' ob' ho'
  rw [h, getElem?_set_of ho] at ho'
  by_cases e : o' = o
  · simp only [e, ↓reduceIte, Option.some.injEq] at ho'
    subst ho'; subst e
    rcases ht with ht | ht | ht
    · exact Or.inl ht
    · exact Or.inr (Or.inl ⟨ob, ho, ht.symm⟩)
    · refine Or.inr (Or.inr ⟨ht, ?_⟩)
      intro o2 ne
      rw [h, getElem?_set_of ho]; simp [ne]
  · simp only [e, ↓reduceIte] at ho'
    exact Or.inr (Or.inl ⟨ob', ho', rfl⟩)

theorem TagStep.push {c c' : Cfg} {x : Obj} (h : c'.objs = c.objs ++ [x]) (hd : c.dials ≤ c'.dials)
    (hx : tagOf x = none) : TagStep c c' := by
  refine ⟨hd, ?_⟩
  intro o ob' ho'
  rw [h, getElem?_push] at ho'
  by_cases e : o = c.objs.length
  · simp only [e, ↓reduceIte, Option.some.injEq] at ho'
    subst ho'; exact Or.inl hx
  · simp only [e, ↓reduceIte] at ho'
    exact Or.inr (Or.inl ⟨ob', ho', rfl⟩)

theorem TagStep.trans_same {a b c : Cfg} (h1 : TagStep a b) (h2 : c.objs = b.objs) (hd : b.dials ≤ c.dials) :
    TagStep a c := by
  refine ⟨Nat.le_trans h1.dials_le hd, ?_⟩
  intro o ob' ho'
  rw [h2] at ho'
  rcases h1.tags o ob' ho' with h | h | ⟨h, g⟩
  · exact Or.inl h
  · exact Or.inr (Or.inl h)
  · refine Or.inr (Or.inr ⟨h, ?_⟩)
    intro o2 ne; rw [h2]; exact g o2 ne

theorem uniq_of_tagStep {c c' : Cfg} (hinv : Inv c) (hu : Uniq c) (ht : TagStep c c') : Uniq c' := by
  intro o1 o2 ob1 ob2 k h1 h2 t1 t2
  rcases ht.tags o1 ob1 h1 with a1 | ⟨p1, g1, e1⟩ | ⟨f1, r1⟩
  · rw [a1] at t1; cases t1
  · rcases ht.tags o2 ob2 h2 with a2 | ⟨p2, g2, e2⟩ | ⟨f2, r2⟩
    · rw [a2] at t2; cases t2
    · exact hu o1 o2 p1 p2 k g1 g2 (e1.trans t1) (e2.trans t2)
    · by_cases e : o1 = o2
      · exact e
      · have := r2 o1 e
        rw [h1] at this
        have hlt := tag_lt hinv this.symm t1
        rw [f2] at t2; cases t2
        exact absurd hlt (Nat.lt_irrefl _)
  · by_cases e : o2 = o1
    · exact e.symm
    · have := r1 o2 e
      rw [h2] at this
      have hlt := tag_lt hinv this.symm t2
      rw [f1] at t1; cases t1
      exact absurd hlt (Nat.lt_irrefl _)

theorem remove_tag (c : Cfg) (a : Addr) : TagStep c (remove c a) := by
  unfold remove
  split
  · exact TagStep.same rfl (Nat.le_refl _)
  · split
    · exact TagStep.same rfl (Nat.le_refl _)
    · rename_i o _ ob ho
      refine TagStep.set ho rfl (Nat.le_refl _) (Or.inr (Or.inl ?_))
      split <;> rfl

theorem step_tag {c c' : Cfg} {l : Label} (hinv : Inv c) (h : step c l = some c') : TagStep c c' := by
  unfold step at h
  rw [hinv.nopanic] at h
  simp only [Bool.false_eq_true, ↓reduceIte] at h
  cases l with
  | start a dk cn =>
    simp only [stepL, Option.some.injEq] at h
    subst h; exact TagStep.same rfl (Nat.le_refl _)
  | cancel r =>
    simp only [stepL] at h
    split at h <;> try (cases h; done)
    cases h; exact TagStep.same rfl (Nat.le_refl _)
  | r0 r =>
    simp only [stepL] at h
    split at h <;> try (cases h; done)
    split at h <;> try (cases h; done)
    cases h; exact TagStep.same rfl (Nat.le_refl _)
  | r1 r =>
    simp only [stepL] at h
    split at h <;> try (cases h; done)
    rename_i q hq
    split at h <;> try (cases h; done)
    cases h
    unfold doR1
    split
    · split
      · rename_i ob ho
        exact TagStep.set ho rfl (Nat.le_refl _) (Or.inr (Or.inl rfl))
      · exact TagStep.same rfl (Nat.le_refl _)
    · exact TagStep.push rfl (Nat.le_refl _) rfl
  | r2 r =>
    simp only [stepL] at h
    split at h <;> try (cases h; done)
    split at h <;> try (cases h; done)
    split at h <;> try (cases h; done)
    split at h <;> try (cases h; done)
    cases h; exact TagStep.same rfl (Nat.le_refl _)
  | r3 r =>
    simp only [stepL] at h
    split at h <;> try (cases h; done)
    split at h <;> try (cases h; done)
    split at h <;> try (cases h; done)
    split at h <;> (cases h; exact TagStep.same rfl (Nat.le_refl _))
  | done r =>
    simp only [stepL] at h
    split at h <;> try (cases h; done)
    rename_i q hq
    split at h <;> try (cases h; done)
    · cases h; exact TagStep.same rfl (Nat.le_refl _)
    · cases h; exact TagStep.same rfl (Nat.le_refl _)
    · rename_i o hpc
      split at h <;> try (cases h; done)
      rename_i ob ho
      cases h
      by_cases h1 : cnt o c.reqs = 1
      · rw [doDone_last hinv hq hpc ho h1]
        exact TagStep.set ho rfl (Nat.le_refl _) (Or.inr (Or.inl rfl))
      · rw [doDone_more hinv hq hpc ho h1]
        exact TagStep.set ho rfl (Nat.le_refl _) (Or.inr (Or.inl rfl))
  | d1a o =>
    simp only [stepL] at h
    split at h <;> try (cases h; done)
    rename_i ob ho
    split at h <;> try (cases h; done)
    rename_i hpc
    split at h
    · cases h
      exact TagStep.set ho rfl (Nat.le_succ _) (Or.inr (Or.inr rfl))
    · cases h
      exact TagStep.set ho rfl (Nat.le_refl _) (Or.inl (by
        have := ((hinv.objs o ob ho).pre_blank (by rw [hpc]; rfl)).2
        simp [tagOf, this]))
  | d1b o out =>
    simp only [stepL] at h
    split at h <;> try (cases h; done)
    rename_i ob ho
    split at h <;> try (cases h; done)
    rename_i n hpc
    have hcn : ob.conn = none := ((hinv.objs o ob ho).pre_blank (by rw [hpc]; rfl)).2
    split at h
    · cases h
      exact TagStep.set ho rfl (Nat.le_refl _) (Or.inr (Or.inl (by simp [tagOf, hpc])))
    · cases h
      exact TagStep.set ho rfl (Nat.le_refl _) (Or.inl (by simp [tagOf, hcn]))
    · split at h <;> try (cases h; done)
      split at h <;> try (cases h; done)
      cases h
      exact TagStep.set ho rfl (Nat.le_refl _) (Or.inl (by simp [tagOf, hcn]))
  | d2 o =>
    simp only [stepL] at h
    split at h <;> try (cases h; done)
    rename_i ob ho
    split at h <;> try (cases h; done)
    rename_i e hpc
    cases h
    have hcn : ob.conn = none := ((hinv.objs o ob ho).pre_blank (by rw [hpc]; rfl)).2
    rw [doD2_eq hinv ho hpc]
    exact TagStep.set ho rfl (Nat.le_refl _) (Or.inl (by simp [tagOf, hcn]))
  | d3 o =>
    simp only [stepL] at h
    split at h <;> try (cases h; done)
    rename_i ob ho
    split at h <;> try (cases h; done)
    rename_i hpc
    cases h
    exact TagStep.set ho rfl (Nat.le_refl _) (Or.inr (Or.inl (by simp [tagOf, hpc])))

theorem uniq_reach {c : Cfg} (h : Reach c) : Uniq c := by
  induction h with
  | init => intro o1 o2 ob1 ob2 k h1; simp [init] at h1
  | step l hr hs ih => exact uniq_of_tagStep (inv_reach hr) ih (step_tag (inv_reach hr) hs)

end Conn
end Gnmi
