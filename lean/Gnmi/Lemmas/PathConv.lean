import Gnmi.Model.PathConv
import Gnmi.Spec.PathIndex
/-!
Helper lemmas for C19 (path indexing): sorting key names and looking the values up
(`sortedVals`, the code) equals sorting the pairs by key (`valuesByKey`, the spec), and the
latter does not depend on the order of the association list.
-/
namespace Gnmi.PV
open List

abbrev KeysNodup (m : List (String × String)) : Prop := (m.map (·.1)).Nodup

theorem strLe_trans (a b c : String) : decide (a ≤ b) = true → decide (b ≤ c) = true → decide (a ≤ c) = true := by
  simp only [decide_eq_true_eq]; exact String.le_trans

theorem strLe_total (a b : String) : (decide (a ≤ b) || decide (b ≤ a)) = true := by
  simp only [Bool.or_eq_true, decide_eq_true_eq]; exact String.le_total a b

theorem sortStrings_perm (l : List String) : (sortStrings l).Perm l := mergeSort_perm l _

theorem sortStrings_pairwise (l : List String) : (sortStrings l).Pairwise (· ≤ ·) := by
  have h := pairwise_mergeSort (le := fun a b : String => decide (a ≤ b)) strLe_trans strLe_total l
  exact h.imp (by intro a b h; simpa using h)

/-- the sorted list of strings is determined by the multiset -/
theorem sorted_unique {l₁ l₂ : List String} (h₁ : l₁.Pairwise (· ≤ ·)) (h₂ : l₂.Pairwise (· ≤ ·))
    (hp : l₁.Perm l₂) : l₁ = l₂ :=
  hp.eq_of_pairwise (le := (· ≤ ·)) (fun _ _ _ _ hab hba => String.le_antisymm hab hba) h₁ h₂

def pairLe (a b : String × String) : Bool := decide (a.1 ≤ b.1)

theorem pairSort_perm (m : List (String × String)) : (m.mergeSort pairLe).Perm m := mergeSort_perm m _

theorem pairSort_pairwise (m : List (String × String)) :
    (m.mergeSort pairLe).Pairwise (fun a b => a.1 ≤ b.1) := by
  have h := pairwise_mergeSort (le := pairLe)
    (fun a b c => strLe_trans a.1 b.1 c.1) (fun a b => strLe_total a.1 b.1) m
  exact h.imp (by intro a b h; simpa [pairLe] using h)

theorem valuesByKey_def (m : List (String × String)) :
    valuesByKey m = (m.mergeSort pairLe).map (·.2) := rfl

/-- in a map (distinct key names) a pair is determined by its key -/
theorem eq_of_key_eq {m : List (String × String)} (h : KeysNodup m) {a b : String × String}
    (ha : a ∈ m) (hb : b ∈ m) (hk : a.1 = b.1) : a = b := by
  induction m with
  | nil => cases ha
  | cons x r ih =>
    simp only [KeysNodup, map_cons, nodup_cons, mem_map, not_exists, not_and] at h
    rcases mem_cons.mp ha with rfl | ha' <;> rcases mem_cons.mp hb with rfl | hb'
    · rfl
    · exact absurd hk.symm (h.1 b hb')
    · exact absurd hk (h.1 a ha')
    · exact ih h.2 ha' hb'

theorem mapGet_of_mem {m : List (String × String)} (h : KeysNodup m) {kv : String × String}
    (hm : kv ∈ m) : mapGet m kv.1 = kv.2 := by
  unfold mapGet
  cases hf : m.find? (fun x => x.1 == kv.1) with
  | none =>
    have := find?_eq_none.mp hf kv hm
    simp at this
  | some x =>
    have hx := mem_of_find?_eq_some hf
    have hk := find?_some hf
    simp only [beq_iff_eq] at hk
    simp [eq_of_key_eq h hx hm hk]

/-- the code's "sort the key names, look each one up" equals "sort the pairs by key" -/
theorem sortedVals_eq_valuesByKey {m : List (String × String)} (h : KeysNodup m) :
    sortedVals m = valuesByKey m := by
  have hs : sortStrings (m.map (·.1)) = (m.mergeSort pairLe).map (·.1) := by
    apply sorted_unique (sortStrings_pairwise _)
    · exact pairwise_map.mpr (pairSort_pairwise m)
    · exact (sortStrings_perm _).trans ((pairSort_perm m).map _).symm
  unfold sortedVals
  rw [valuesByKey_def]
  simp only [hs, map_map]
  apply map_congr_left
  intro kv hkv
  exact mapGet_of_mem h ((pairSort_perm m).subset hkv)

/-- values ordered by key name do not depend on the iteration order of the map -/
theorem valuesByKey_perm {m m' : List (String × String)} (h : KeysNodup m) (hp : m.Perm m') :
    valuesByKey m = valuesByKey m' := by
  rw [valuesByKey_def, valuesByKey_def]
  congr 1
  apply Perm.eq_of_pairwise (le := fun a b : String × String => a.1 ≤ b.1) _
    (pairSort_pairwise m) (pairSort_pairwise m')
    ((pairSort_perm m).trans (hp.trans (pairSort_perm m').symm))
  intro a b ha hb hab hba
  have ha' : a ∈ m := (pairSort_perm m).subset ha
  have hb' : b ∈ m := hp.symm.subset ((pairSort_perm m').subset hb)
  exact eq_of_key_eq h ha' hb' (String.le_antisymm hab hba)

theorem KeysNodup.perm {m m' : List (String × String)} (h : KeysNodup m) (hp : m.Perm m') :
    KeysNodup m' := (hp.map _).nodup_iff.mp h

/-- one element contributes its name followed by its key values ordered by key name -/
theorem elemStrings_eq (e : PathElem) (h : KeysNodup e.key) :
    elemStrings e = e.name :: valuesByKey e.key := by
  unfold elemStrings
  match hk : e.key with
  | [] => simp [valuesByKey]
  | [kv] => simp [valuesByKey]
  | a :: b :: r =>
    simp only
    rw [← hk, sortedVals_eq_valuesByKey h]

theorem header_eq (p : GPath) (pfx : Bool) :
    header p pfx =
      (if pfx = true ∧ p.target ≠ "" then [p.target] else []) ++
      (if pfx = true ∧ p.origin ≠ "" then [p.origin] else []) := by
  unfold header
  cases pfx <;> simp

end Gnmi.PV
