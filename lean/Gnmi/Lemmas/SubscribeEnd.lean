import Gnmi.Props.C07
import Gnmi.Props.C08Seq
/-!
# How a subscription ends in the sequential Subscribe model (`Model/Subscribe.lean`)

Helper lemmas for `Props/C14Sub.lean` (a `Cache.Remove` ends the single-target STREAM
subscriptions to the target) and `Props/C08Expire.lean` (the send timeout).

* `Op` / `step` / `run`: histories made of **every** operation the model has — the operations of
  `C07.Op` (subscriptions of any mode with any ACL, arbitrary cache contents, arbitrary feed events,
  polls, EOF, gate shut / open / step, expire, drain), the cache API calls of `C04Seq.HOp` /
  `C04Gate.GOp` (`ca`: `Cache.State.step`, then `Sub.feed` of the emitted events, as `Driver/SU.lean`
  executes a `ca` line) and `pregate`.  `ofHOp` / `ofGOp` / `ofC07` embed the three existing history
  notions (`hrun_eq`, `grun_eq`, `c07run_eq`).
* `step_pointwise`: every operation acts on each subscriber separately (`subStep`), as a function of
  the cache before the operation and of that subscriber alone.
* `EInv` (`Base` ∧ `Quiet`): what holds of **every** subscriber after **every** history, without any
  side condition on the history (`run_inv`): a response is held only while flow control is shut; an
  alive subscriber that holds no response has an empty queue; only ONCE queues are closed; an alive
  single-target subscriber's ACL allows its target; STREAM subscribers registered `regQueries` and
  nobody else registered anything.
* the sender with flow control open, exactly, including where it ends (`pump_open_cut`, `gateF_open_cut`).
-/
namespace Gnmi
namespace SubEnd
open Cache Gnmi.Sub SubStream SubGate SubBacklog

/-! ## the sender: what it never touches, and where it stops -/

theorem pump_frame : ∀ (fuel : Nat) (s : Subscriber),
    (pump fuel s).id = s.id ∧ (pump fuel s).req = s.req ∧ (pump fuel s).acl = s.acl ∧
    (pump fuel s).regs = s.regs ∧ (pump fuel s).closed = s.closed ∧ (pump fuel s).gateShut = s.gateShut ∧
    (pump fuel s).gatedSinceDrain = s.gatedSinceDrain ∧
    ((pump fuel s).alive = true → s.alive = true) ∧
    ((s.gateShut = false → s.blocked = none) → (pump fuel s).gateShut = false → (pump fuel s).blocked = none)
  | 0, s => ⟨rfl, rfl, rfl, rfl, rfl, rfl, rfl, id, fun h => h⟩
  | fuel + 1, s => by
    unfold pump
    split
    · exact ⟨rfl, rfl, rfl, rfl, rfl, rfl, rfl, id, fun h => h⟩
    · split
      · split
        · exact ⟨rfl, rfl, rfl, rfl, rfl, rfl, rfl, (fun h => by cases h), fun h => h⟩
        · exact ⟨rfl, rfl, rfl, rfl, rfl, rfl, rfl, id, fun h => h⟩
      · rename_i it rest hq
        simp only
        split
        · exact pump_frame fuel { s with queue := rest }
        · split
          · rename_i hg
            exact ⟨rfl, rfl, rfl, rfl, rfl, rfl, rfl, id, fun _ h => by
              have h' : s.gateShut = false := h
              rw [hg] at h'; cases h'⟩
          · split
            · exact ⟨rfl, rfl, rfl, rfl, rfl, rfl, rfl, (fun h => by cases h), fun h => h⟩
            · exact pump_frame fuel { s with queue := rest, out := s.out ++ [(toResp it, s.gatedSinceDrain)] }

/-- **the sender runs until it blocks**: with enough fuel (`pumpAll` has it) it stops only because
the RPC ended, a response is held inside a gated `Send`, or the queue is empty and not closed -/
theorem pump_quiet : ∀ (fuel : Nat) (s : Subscriber), fuel ≥ s.queue.length + 1 →
    (pump fuel s).alive = true → (pump fuel s).blocked = none →
    (pump fuel s).queue = [] ∧ (pump fuel s).closed = false
  | 0, s, hf => by omega
  | fuel + 1, s, hf => by
    unfold pump
    split
    · rename_i hc
      intro ha hb
      simp [ha, hb] at hc
    · split
      · rename_i hq
        split
        · intro ha; cases ha
        · rename_i hcl
          intro _ _
          exact ⟨hq, by simpa using hcl⟩
      · rename_i it rest hq
        simp only
        have hf' : fuel ≥ rest.length + 1 := by
          rw [hq] at hf; simp at hf; omega
        split
        · exact pump_quiet fuel { s with queue := rest } hf'
        · split
          · intro _ hb; cases hb
          · split
            · intro ha; cases ha
            · exact pump_quiet fuel
                { s with queue := rest, out := s.out ++ [(toResp it, s.gatedSinceDrain)] } hf'

/-- the sender only ever appends to `out` -/
theorem pump_out_prefix : ∀ (fuel : Nat) (s : Subscriber), ∃ l, (pump fuel s).out = s.out ++ l
  | 0, s => ⟨[], by simp [pump]⟩
  | fuel + 1, s => by
    unfold pump
    split
    · exact ⟨[], by simp⟩
    · split
      · split <;> exact ⟨[], by simp⟩
      · rename_i it rest hq
        simp only
        split
        · exact pump_out_prefix fuel { s with queue := rest }
        · split
          · exact ⟨[], by simp⟩
          · split
            · exact ⟨[(toResp it, s.gatedSinceDrain)], rfl⟩
            · obtain ⟨l, hl⟩ := pump_out_prefix fuel
                { s with queue := rest, out := s.out ++ [(toResp it, s.gatedSinceDrain)] }
              exact ⟨(toResp it, s.gatedSinceDrain) :: l, by rw [hl]; simp⟩

/-! ## `enqueueEvent` changes the queue only -/

theorem enqueueEvent_shape (s : Subscriber) (e : Event) : ∃ q, enqueueEvent s e = { s with queue := q } := by
  unfold enqueueEvent
  split
  · exact ⟨s.queue, rfl⟩
  · cases e with
    | upd n => exact ⟨_, rfl⟩
    | del t o p ts => exact ⟨_, rfl⟩

theorem enqueue_fold_shape (evs : List Event) : ∀ (s : Subscriber),
    ∃ q, evs.foldl (fun s e => enqueueEvent { s with queue := freezeCovered e s.queue } e) s =
      { s with queue := q } := by
  induction evs with
  | nil => intro s; exact ⟨s.queue, rfl⟩
  | cons e evs ih =>
    intro s
    simp only [List.foldl_cons]
    obtain ⟨q, hq⟩ := enqueueEvent_shape { s with queue := freezeCovered e s.queue } e
    rw [hq]
    obtain ⟨q', hq'⟩ := ih { s with queue := q }
    exact ⟨q', hq'⟩

/-- `feed` on one subscriber: some new queue, then the sender -/
theorem feedSub_shape (c' : Cache.State) (evs : List Event) (s : Subscriber) :
    ∃ q, feedSub c' evs s = pumpAll { s with queue := q } := by
  obtain ⟨q, hq⟩ := enqueue_fold_shape evs s
  refine ⟨refreshQueue c' q, ?_⟩
  unfold feedSub
  simp only
  rw [hq]

/-! ## the invariant of every subscriber -/

/-- the part of the invariant that does not depend on where the sender stands -/
structure Base (s : Subscriber) : Prop where
  /-- a response is held inside `Send` only while flow control is shut -/
  «open» : s.gateShut = false → s.blocked = none
  /-- only a ONCE subscription closes its queue -/
  closedOnce : s.closed = true → s.req.mode = .once
  /-- a running single-target subscription was authorised for its target -/
  acl : s.alive = true → s.req.target ≠ "*" → s.acl.check s.req.target = true
  /-- a STREAM subscription registered the queries of `addSubscription` -/
  regs : s.req.mode = .stream → s.regs = regQueries s.req
  /-- nobody else registered anything -/
  regsNS : s.req.mode ≠ .stream → s.regs = []

/-- the sender has run until it blocked -/
def Quiet (s : Subscriber) : Prop :=
  s.alive = true → s.blocked = none → s.queue = [] ∧ s.closed = false

structure EInv (s : Subscriber) : Prop where
  base : Base s
  quiet : Quiet s

theorem Base.setQueue {s : Subscriber} (h : Base s) (q : List (Item × Nat)) : Base { s with queue := q } :=
  ⟨h.open, h.closedOnce, h.acl, h.regs, h.regsNS⟩

theorem Base.pump {s : Subscriber} (h : Base s) (fuel : Nat) : Base (pump fuel s) := by
  obtain ⟨_, hr, ha, hg, hc, _, _, hal, hop⟩ := pump_frame fuel s
  refine ⟨hop h.open, ?_, ?_, ?_, ?_⟩
  · intro hcl; rw [hr]; rw [hc] at hcl; exact h.closedOnce hcl
  · intro hav ht; rw [hr] at ht ⊢; rw [ha]; exact h.acl (hal hav) ht
  · intro hm; rw [hr] at hm ⊢; rw [hg]; exact h.regs hm
  · intro hm; rw [hr] at hm; rw [hg]; exact h.regsNS hm

theorem quiet_pumpAll (s : Subscriber) : Quiet (pumpAll s) :=
  pump_quiet _ s (by omega)

theorem einv_pumpAll {s : Subscriber} (h : Base s) : EInv (pumpAll s) := ⟨h.pump _, quiet_pumpAll s⟩

theorem quiet_dead {s : Subscriber} (h : s.alive = false) : Quiet s := by
  intro ha; rw [h] at ha; cases ha

theorem Base.doWalk {s : Subscriber} (h : Base s) (c : Cache.State) : Base (doWalk c s) := by
  unfold Sub.doWalk
  split
  · exact ⟨h.open, h.closedOnce, (fun ha => by cases ha), h.regs, h.regsNS⟩
  · exact ⟨h.open, h.closedOnce, h.acl, h.regs, h.regsNS⟩

theorem doWalk_req (c : Cache.State) (s : Subscriber) : (doWalk c s).req = s.req := by
  unfold Sub.doWalk
  split <;> rfl

theorem einv_feedSub {s : Subscriber} (h : EInv s) (c' : Cache.State) (evs : List Event) :
    EInv (feedSub c' evs s) := by
  obtain ⟨q, hq⟩ := feedSub_shape c' evs s
  rw [hq]
  exact einv_pumpAll (h.base.setQueue q)

/-! ## the operations on one subscriber -/

/-- `Sub.poll` on the subscriber it names -/
def pollF (c : Cache.State) (s : Subscriber) : Subscriber :=
  if s.alive ∧ s.req.mode = .poll then pumpAll (doWalk c s) else s

/-- `Sub.eof` on the subscriber it names -/
def eofF (s : Subscriber) : Subscriber :=
  if s.alive ∧ s.req.mode = .poll then { s with alive := false, status := some .ok, blocked := none } else s

/-- `Sub.expire` on one subscriber -/
def expireF (s : Subscriber) : Subscriber :=
  if s.alive ∧ s.blocked.isSome then { s with alive := false, status := some .unknown, blocked := none }
  else s

/-- the harness reads and clears what was delivered -/
def drainF (s : Subscriber) : Subscriber := { s with out := [], gatedSinceDrain := s.gateShut }

/-- apply `f` to the subscribers called `id` (`updateSub`) -/
def on (id : String) (f : Subscriber → Subscriber) (s : Subscriber) : Subscriber := if s.id = id then f s else s

theorem einv_pollF {s : Subscriber} (h : EInv s) (c : Cache.State) : EInv (pollF c s) := by
  unfold pollF
  split
  · exact einv_pumpAll (h.base.doWalk c)
  · exact h

theorem einv_eofF {s : Subscriber} (h : EInv s) : EInv (eofF s) := by
  unfold eofF
  split
  · exact ⟨⟨fun _ => rfl, h.base.closedOnce, (fun ha => by cases ha), h.base.regs, h.base.regsNS⟩, quiet_dead rfl⟩
  · exact h

theorem einv_expireF {s : Subscriber} (h : EInv s) : EInv (expireF s) := by
  unfold expireF
  split
  · exact ⟨⟨fun _ => rfl, h.base.closedOnce, (fun ha => by cases ha), h.base.regs, h.base.regsNS⟩, quiet_dead rfl⟩
  · exact h

theorem einv_drainF {s : Subscriber} (h : EInv s) : EInv (drainF s) :=
  ⟨⟨h.base.open, h.base.closedOnce, h.base.acl, h.base.regs, h.base.regsNS⟩, h.quiet⟩

theorem einv_gateF {s : Subscriber} (h : EInv s) (shut : Bool) : EInv (gateF shut s) := by
  cases shut with
  | true =>
    exact ⟨⟨(fun hg => by cases hg), h.base.closedOnce, h.base.acl, h.base.regs, h.base.regsNS⟩, h.quiet⟩
  | false =>
    unfold gateF
    simp only [Bool.false_eq_true, if_false]
    apply einv_pumpAll
    split
    · split
      · exact ⟨fun _ => rfl, h.base.closedOnce, (fun ha => by cases ha), h.base.regs, h.base.regsNS⟩
      · exact ⟨fun _ => rfl, h.base.closedOnce, h.base.acl, h.base.regs, h.base.regsNS⟩
    · rename_i hb
      exact ⟨fun _ => hb, h.base.closedOnce, h.base.acl, h.base.regs, h.base.regsNS⟩

theorem einv_stepF {s : Subscriber} (h : EInv s) : EInv (stepF s) := by
  unfold stepF
  split
  · rename_i hg
    split
    · simp only
      split
      · exact ⟨⟨fun _ => rfl, h.base.closedOnce, (fun ha => by cases ha), h.base.regs, h.base.regsNS⟩,
          quiet_dead rfl⟩
      · exact einv_pumpAll ⟨fun _ => rfl, h.base.closedOnce, h.base.acl, h.base.regs, h.base.regsNS⟩
    · exact h
  · exact h

theorem einv_on {s : Subscriber} {f : Subscriber → Subscriber} (id : String) (h : EInv s)
    (hf : EInv s → EInv (f s)) : EInv (on id f s) := by
  unfold on
  split
  · exact hf h
  · exact h

/-! ## the subscriber a `Subscribe` call adds -/

theorem base_new (g : Bool) (id : String) (r : Req) (acl : Acl)
    (hacl : r.target ≠ "*" → acl.check r.target = true) (hm : r.mode ≠ .stream) :
    Base (newSubscriber g id r acl) :=
  ⟨fun _ => rfl, (fun h => by cases h), fun _ => hacl, fun h => absurd h hm, fun _ => rfl⟩

theorem einv_ended (id : String) (acl : Acl) (c : Code) :
    EInv { id := id, req := {}, acl := acl, alive := false, status := some c } :=
  ⟨⟨fun _ => rfl, (fun h => by cases h), (fun h => by cases h), fun _ => rfl, fun _ => rfl⟩, quiet_dead rfl⟩

theorem subscribe_inv (st : Sub.State) (id : String) (acl : Acl) (req : Option Req) :
    ∀ x ∈ (subscribe st id acl req).subs, x ∈ st.subs ∨ EInv x := by
  have ended : ∀ (c : Code) (a : Acl), ∀ x ∈ st.subs ++
      [({ id := id, req := {}, acl := a, alive := false, status := some c } : Subscriber)],
      x ∈ st.subs ∨ EInv x := by
    intro c a x hx
    rcases List.mem_append.1 hx with h1 | h1
    · exact Or.inl h1
    · simp only [List.mem_singleton] at h1; rw [h1]; exact Or.inr (einv_ended id a c)
  have added : ∀ s : Subscriber, EInv s → ∀ x ∈ st.subs ++ [s], x ∈ st.subs ∨ EInv x := by
    intro s hs x hx
    rcases List.mem_append.1 hx with h | h
    · exact Or.inl h
    · simp only [List.mem_singleton] at h; rw [h]; exact Or.inr hs
  unfold subscribe
  split
  · exact ended _ _
  · split
    · exact ended _ _
    · rename_i r
      simp only
      split
      · exact ended _ _
      · split
        · exact ended _ _
        · split
          · exact ended _ _
          · split
            · exact ended _ _
            · split
              · exact ended _ _
              · rename_i hden
                have hacl : r.target ≠ "*" → acl.check r.target = true := by
                  intro ht
                  cases hc : acl.check r.target with
                  | true => rfl
                  | false => exact absurd ⟨ht, by simp [hc]⟩ hden
                split
                · rename_i hmode
                  apply added
                  apply einv_pumpAll
                  have h0 : Base (newSubscriber (st.pregated.contains id) id r acl) :=
                    base_new _ id r acl hacl (by rw [hmode]; decide)
                  have h1 := h0.doWalk st.cache
                  split
                  · refine ⟨h1.open, fun _ => ?_, h1.acl, h1.regs, h1.regsNS⟩
                    show (doWalk st.cache (newSubscriber (st.pregated.contains id) id r acl)).req.mode = Mode.once
                    rw [doWalk_req]; exact hmode
                  · exact h1
                · rename_i hmode
                  apply added
                  apply einv_pumpAll
                  exact (base_new _ id r acl hacl (by rw [hmode]; decide)).doWalk st.cache
                · rename_i hmode
                  apply added
                  apply einv_pumpAll
                  have h1 : ∀ s0 : Subscriber, s0.gateShut = false ∨ s0.blocked = none → s0.closed = false →
                      s0.req = r → s0.acl = acl → s0.blocked = none →
                      Base { s0 with regs := regQueries r } := by
                    intro s0 _ hcl hr ha hb
                    refine ⟨fun _ => hb, fun h => ?_, fun _ ht => ?_, fun _ => ?_, fun h => ?_⟩
                    · have h' : s0.closed = true := h
                      rw [hcl] at h'; cases h'
                    · have ht' : s0.req.target ≠ "*" := ht
                      show s0.acl.check s0.req.target = true
                      rw [hr] at ht' ⊢; rw [ha]; exact hacl ht'
                    · show regQueries r = regQueries s0.req
                      rw [hr]
                    · have h' : s0.req.mode ≠ .stream := h
                      rw [hr, hmode] at h'; exact absurd rfl h'
                  cases hu : r.updatesOnly with
                  | true =>
                    simp only [if_true]
                    exact h1 { newSubscriber (st.pregated.contains id) id r acl with
                        queue := insertSync (newSubscriber (st.pregated.contains id) id r acl).queue }
                      (Or.inr rfl) rfl rfl rfl rfl
                  | false =>
                    simp only [Bool.false_eq_true, if_false]
                    exact (h1 (newSubscriber (st.pregated.contains id) id r acl) (Or.inr rfl) rfl rfl rfl rfl).doWalk
                      st.cache
                · exact ended _ _

/-! ## histories of every operation of the model -/

/-- an operation of a history: those of `C07.Op`, a cache API call (executed as `Driver/SU.lean`
executes a `ca` line, and as in `C04Seq.HOp` / `C04Gate.GOp`), or `pregate` -/
inductive Op where
  | c07 (o : C07.Op)
  | ca (o : Cache.Op)
  | pregate (id : String)

def step (enc : String → String) (st : Sub.State) : Op → Sub.State
  | .c07 o => C07.step st o
  | .ca o =>
    let r := st.cache.step enc o
    feed { st with cache := r.1 } r.2.2
  | .pregate id => { st with pregated := id :: st.pregated }

def run (enc : String → String) (st : Sub.State) (ops : List Op) : Sub.State := ops.foldl (step enc) st

theorem run_append (enc : String → String) (st : Sub.State) (a b : List Op) :
    run enc st (a ++ b) = run enc (run enc st a) b := by
  unfold run; rw [List.foldl_append]

/-- a state of the server after some history (any cache configuration) -/
def Reachable (enc : String → String) (st : Sub.State) : Prop :=
  ∃ (cfg : Cfg) (ops : List Op), run enc { cache := { cfg := cfg } } ops = st

/-- the histories of `C04Seq` -/
def ofHOp : C04Seq.HOp → Op
  | .sub id acl req => .c07 (.sub id acl req)
  | .ca o => .ca o

/-- the histories of `C04Gate` / `C08Seq` -/
def ofGOp : C04Gate.GOp → Op
  | .sub id acl req => .c07 (.sub id acl req)
  | .ca o => .ca o
  | .gateShut id => .c07 (.gate id true)
  | .gateOpen id => .c07 (.gate id false)
  | .gateStep id => .c07 (.gateStep id)

theorem hrun_eq (enc : String → String) : ∀ (h : List C04Seq.HOp) (st : Sub.State),
    C04Seq.hrun enc st h = run enc st (h.map ofHOp)
  | [], _ => rfl
  | op :: h, st => by
    show C04Seq.hrun enc (C04Seq.hstep enc st op) h = run enc (step enc st (ofHOp op)) (h.map ofHOp)
    rw [hrun_eq enc h]
    cases op <;> rfl

theorem grun_eq (enc : String → String) : ∀ (h : List C04Gate.GOp) (st : Sub.State),
    C04Gate.grun enc st h = run enc st (h.map ofGOp)
  | [], _ => rfl
  | op :: h, st => by
    show C04Gate.grun enc (C04Gate.gstep enc st op) h = run enc (step enc st (ofGOp op)) (h.map ofGOp)
    rw [grun_eq enc h]
    cases op <;> rfl

theorem c07run_eq (enc : String → String) (ops : List C07.Op) (st : Sub.State) :
    ops.foldl C07.step st = run enc st (ops.map Op.c07) := by
  unfold run
  rw [List.foldl_map]
  rfl

/-! ### every operation acts on each subscriber separately -/

def cacheStep (enc : String → String) (c : Cache.State) : Op → Cache.State
  | .c07 (.setCache c') => c'
  | .ca o => (c.step enc o).1
  | _ => c

/-- what an operation does to one subscriber that exists before it: a function of the cache before
the operation and of that subscriber alone -/
def subStep (enc : String → String) (c : Cache.State) : Op → Subscriber → Subscriber
  | .c07 (.sub ..), s => s
  | .c07 (.setCache _), s => s
  | .c07 (.feed evs), s => feedSub c evs s
  | .c07 (.poll id), s => on id (pollF c) s
  | .c07 (.eof id), s => on id eofF s
  | .c07 (.gate id shut), s => on id (gateF shut) s
  | .c07 (.gateStep id), s => on id stepF s
  | .c07 .expire, s => expireF s
  | .c07 (.drain id), s => on id drainF s
  | .ca o, s => feedSub (c.step enc o).1 (c.step enc o).2.2 s
  | .pregate _, s => s

def newSubs (c : Cache.State) (pg : List String) : Op → List Subscriber
  | .c07 (.sub id acl req) => subscribeOne c pg id acl req
  | _ => []

def pregStep (pg : List String) : Op → List String
  | .pregate id => id :: pg
  | _ => pg

theorem map_on (subs : List Subscriber) (id : String) (f : Subscriber → Subscriber) :
    subs.map (fun s => if s.id = id then f s else s) = subs.map (on id f) := rfl

theorem step_pointwise (enc : String → String) (st : Sub.State) (op : Op) :
    step enc st op =
      { cache := cacheStep enc st.cache op,
        subs := st.subs.map (subStep enc st.cache op) ++ newSubs st.cache st.pregated op,
        pregated := pregStep st.pregated op } := by
  have hid : ∀ f : Subscriber → Subscriber, (∀ s, f s = s) → st.subs.map f = st.subs := by
    intro f hf
    have : f = _root_.id := funext hf
    rw [this, List.map_id]
  cases op with
  | c07 o =>
    cases o with
    | sub id acl req =>
      show subscribe st id acl req = _
      rw [subscribe_append, hid (subStep enc st.cache (.c07 (.sub id acl req))) (fun _ => rfl)]
      rfl
    | setCache c =>
      show ({ st with cache := c } : Sub.State) = _
      rw [hid (subStep enc st.cache (.c07 (.setCache c))) (fun _ => rfl)]
      simp only [newSubs, List.append_nil]
      rfl
    | feed evs => simp only [newSubs, List.append_nil]; rfl
    | poll id => simp only [newSubs, List.append_nil]; rfl
    | eof id => simp only [newSubs, List.append_nil]; rfl
    | gate id shut => simp only [newSubs, List.append_nil]; rfl
    | gateStep id => simp only [newSubs, List.append_nil]; rfl
    | expire => simp only [newSubs, List.append_nil]; rfl
    | drain id => simp only [newSubs, List.append_nil]; rfl
  | ca o => simp only [newSubs, List.append_nil]; rfl
  | pregate id =>
    show ({ st with pregated := id :: st.pregated } : Sub.State) = _
    rw [hid (subStep enc st.cache (.pregate id)) (fun _ => rfl)]
    simp only [newSubs, List.append_nil]
    rfl

theorem step_cache (enc : String → String) (st : Sub.State) (op : Op) :
    (step enc st op).cache = cacheStep enc st.cache op := by rw [step_pointwise]

/-- the subscriber at position `i` after an operation -/
theorem step_at (enc : String → String) (st : Sub.State) (op : Op) (i : Nat) (s : Subscriber)
    (hs : st.subs[i]? = some s) : (step enc st op).subs[i]? = some (subStep enc st.cache op s) := by
  rw [step_pointwise]
  simp only
  have hi : i < (st.subs.map (subStep enc st.cache op)).length := by
    rw [List.length_map]
    exact (List.getElem?_eq_some_iff.1 hs).1
  rw [List.getElem?_append_left hi, List.getElem?_map, hs]
  rfl

/-- the cache along a history -/
def cacheRun (enc : String → String) (c : Cache.State) (ops : List Op) : Cache.State :=
  ops.foldl (cacheStep enc) c

/-- one subscriber along a history: a function of the initial cache, the history and itself -/
def subRun (enc : String → String) : Cache.State → List Op → Subscriber → Subscriber
  | _, [], s => s
  | c, op :: ops, s => subRun enc (cacheStep enc c op) ops (subStep enc c op s)

theorem run_at (enc : String → String) : ∀ (ops : List Op) (st : Sub.State) (i : Nat) (s : Subscriber),
    st.subs[i]? = some s → (run enc st ops).subs[i]? = some (subRun enc st.cache ops s)
  | [], _, _, _, hs => hs
  | op :: ops, st, i, s, hs => by
    show (run enc (step enc st op) ops).subs[i]? =
      some (subRun enc (cacheStep enc st.cache op) ops (subStep enc st.cache op s))
    have := run_at enc ops _ i _ (step_at enc st op i s hs)
    rw [step_cache] at this
    exact this

/-! ### the invariant holds after every history -/

theorem einv_subStep (enc : String → String) (c : Cache.State) (op : Op) {s : Subscriber} (h : EInv s) :
    EInv (subStep enc c op s) := by
  cases op with
  | c07 o =>
    cases o with
    | sub id acl req => exact h
    | setCache c => exact h
    | feed evs => exact einv_feedSub h c evs
    | poll id => exact einv_on id h (fun h => einv_pollF h c)
    | eof id => exact einv_on id h einv_eofF
    | gate id shut => exact einv_on id h (fun h => einv_gateF h shut)
    | gateStep id => exact einv_on id h einv_stepF
    | expire => exact einv_expireF h
    | drain id => exact einv_on id h einv_drainF
  | ca o => exact einv_feedSub h _ _
  | pregate id => exact h

def AllInv (st : Sub.State) : Prop := ∀ s ∈ st.subs, EInv s

theorem step_inv (enc : String → String) (st : Sub.State) (op : Op) (h : AllInv st) : AllInv (step enc st op) := by
  rw [step_pointwise]
  intro x hx
  rcases List.mem_append.1 hx with hx | hx
  · obtain ⟨s, hs, rfl⟩ := List.mem_map.1 hx
    exact einv_subStep enc st.cache op (h s hs)
  · cases op with
    | c07 o =>
      cases o with
      | sub id acl req =>
        have := subscribe_inv { cache := st.cache, subs := [], pregated := st.pregated } id acl req x hx
        rcases this with h1 | h1
        · cases h1
        · exact h1
      | _ => cases hx
    | _ => cases hx

theorem run_inv (enc : String → String) : ∀ (ops : List Op) (st : Sub.State), AllInv st → AllInv (run enc st ops)
  | [], _, h => h
  | op :: ops, st, h => run_inv enc ops _ (step_inv enc st op h)

/-- **every subscriber of every reachable state satisfies the invariant** -/
theorem reachable_inv {enc : String → String} {st : Sub.State} (h : Reachable enc st) : AllInv st := by
  obtain ⟨cfg, ops, rfl⟩ := h
  exact run_inv enc ops _ (fun s hs => by cases hs)

theorem reachable_step {enc : String → String} {st : Sub.State} (h : Reachable enc st) (op : Op) :
    Reachable enc (step enc st op) := by
  obtain ⟨cfg, ops, rfl⟩ := h
  exact ⟨cfg, ops ++ [op], by rw [run_append]; rfl⟩

theorem reachable_run {enc : String → String} {st : Sub.State} (h : Reachable enc st) (ops : List Op) :
    Reachable enc (run enc st ops) := by
  obtain ⟨cfg, ops0, rfl⟩ := h
  exact ⟨cfg, ops0 ++ ops, run_append enc _ ops0 ops⟩

theorem reachable_at {enc : String → String} {st : Sub.State} (h : Reachable enc st) {i : Nat} {s : Subscriber}
    (hs : st.subs[i]? = some s) : EInv s :=
  reachable_inv h s (List.mem_of_getElem? hs)

/-! ## the whole-target delete (`Cache.Remove`) and who it is offered to -/

/-- the event `Cache.Remove T` announces -/
def tdEvent (T : String) (now : Int) : Event := Event.del T "" [glob] now

/-- the response the sender makes of it -/
def tdResp (T : String) (now : Int) : Resp := Resp.del T "" [glob] now 0

theorem remove_events (c : Cache.State) (T : String) (now : Int) : (c.remove T now).2 = [tdEvent T now] := rfl

theorem isTargetDelete_tdResp (T : String) (now : Int) : isTargetDelete (tdResp T now) = true := by
  simp [isTargetDelete, tdResp]

theorem compatible_nil_right (q : Path) : compatible q [] = true := by
  cases q <;> simp [compatible]

theorem compatible_td_same (T : String) (q : Path) : compatible (T :: q) (subIndex T "" [glob]) = true := by
  cases q with
  | nil => simp [subIndex, compatible]
  | cons a q => simp [subIndex, compatible, compatible_nil_right]

theorem compatible_td_glob (T : String) (q : Path) : compatible (glob :: q) (subIndex T "" [glob]) = true := by
  cases q with
  | nil => simp [subIndex, compatible]
  | cons a q => simp [subIndex, compatible, compatible_nil_right]

theorem compatible_td_other {U T : String} (h1 : U ≠ T) (h2 : U ≠ glob) (h3 : T ≠ glob) (q : Path) :
    compatible (U :: q) (subIndex T "" [glob]) = false := by
  simp [subIndex, compatible, h1, h2, h3]

theorem offered_eq (s : Subscriber) (e : Event) : offered s e = offeredR s.regs e := rfl

theorem offeredR_td (regs : List Path) (T : String) (now : Int) :
    offeredR regs (tdEvent T now) = regs.any (fun q => compatible q (subIndex T "" [glob])) := by
  simp [offeredR, eventPaths, tdEvent]

/-- the whole-target delete of `T` is offered to every subscription on `T` or on `*` that registered
at least one query -/
theorem offeredR_td_true {U T : String} {regs : List Path} (hr : RegsOK U regs) (hne : regs ≠ [])
    (hU : U = T ∨ U = glob) (now : Int) : offeredR regs (tdEvent T now) = true := by
  rw [offeredR_td]
  cases regs with
  | nil => exact absurd rfl hne
  | cons q rest =>
    obtain ⟨q', rfl⟩ := hr q (List.mem_cons_self ..)
    rw [List.any_cons]
    rcases hU with rfl | rfl
    · rw [compatible_td_same]; rfl
    · rw [compatible_td_glob]; rfl

/-- ... and to no subscription on another target -/
theorem offeredR_td_false {U T : String} {regs : List Path} (hr : RegsOK U regs)
    (h1 : U ≠ T) (h2 : U ≠ glob) (h3 : T ≠ glob) (now : Int) : offeredR regs (tdEvent T now) = false := by
  rw [offeredR_td, List.any_eq_false]
  intro q hq
  obtain ⟨q', rfl⟩ := hr q hq
  rw [compatible_td_other h1 h2 h3]
  simp

theorem Base.regsOK {s : Subscriber} (h : Base s) : RegsOK s.req.target s.regs := by
  by_cases hm : s.req.mode = .stream
  · rw [h.regs hm]; exact regsOK_regQueries _
  · rw [h.regsNS hm]; intro q hq; cases hq

theorem regQueries_ne_nil {r : Req} (h : r.subs ≠ []) : regQueries r ≠ [] := by
  unfold regQueries
  simp only [ne_eq, List.map_eq_nil_iff]
  exact h

theorem regQueries_nil {r : Req} (h : r.subs = []) : regQueries r = [] := by
  unfold regQueries
  rw [h]; rfl

theorem Base.closed_stream {s : Subscriber} (h : Base s) (hm : s.req.mode ≠ .once) : s.closed = false := by
  cases hc : s.closed with
  | false => rfl
  | true => exact absurd (h.closedOnce hc) hm

/-! ## `feed` of one event on one subscriber -/

theorem feedSub_one (c' : Cache.State) (e : Event) (s : Subscriber) :
    feedSub c' [e] s =
      pumpAll { (enqueueEvent { s with queue := freezeCovered e s.queue } e) with
        queue := refreshQueue c' (enqueueEvent { s with queue := freezeCovered e s.queue } e).queue } := rfl

theorem enqueueEvent_skip {s : Subscriber} {e : Event} (h : offered s e = false) : enqueueEvent s e = s := by
  unfold enqueueEvent
  simp [h]

theorem enqueueEvent_del {s : Subscriber} {t o : String} {p : Path} {ts : Int} (ha : s.alive = true)
    (hc : s.closed = false) (ho : offered s (.del t o p ts) = true) :
    enqueueEvent s (.del t o p ts) = { s with queue := s.queue ++ [(Item.note (.del t o p ts), 0)] } := by
  unfold enqueueEvent
  simp [ha, hc, ho]

theorem pumpAll_idle {s : Subscriber} (ha : s.alive = true) (hb : s.blocked = none) (hq : s.queue = [])
    (hc : s.closed = false) : pumpAll s = s := by
  unfold pumpAll
  rw [hq]
  simp [pump, ha, hb, hq, hc]

/-- a sender that has nothing to do, whatever the new queue of a subscriber that is not running or
is inside a gated `Send` -/
theorem pumpAll_setQueue_rest {s : Subscriber} (hq : Quiet s) (q : List (Item × Nat))
    (hq' : s.queue = [] → q = []) : pumpAll { s with queue := q } = { s with queue := q } := by
  rcases Bool.eq_false_or_eq_true s.alive with ha | ha
  · rcases Option.eq_none_or_eq_some s.blocked with hb | ⟨r, hb⟩
    · obtain ⟨h1, h2⟩ := hq ha hb
      exact pumpAll_idle ha hb (hq' h1) h2
    · exact pumpAll_blocked _ (by show s.blocked.isSome = true; rw [hb]; rfl)
  · exact pump_dead _ _ ha

/-- **an event that is not offered to a subscriber changes nothing of it** but the notifications its
queued handles show (`freezeCovered`, `refreshQueue`); nothing at all if its queue is empty -/
theorem feedSub_not_offered (c' : Cache.State) (e : Event) {s : Subscriber} (hq : Quiet s)
    (ho : offeredR s.regs e = false) :
    feedSub c' [e] s = { s with queue := refreshQueue c' (freezeCovered e s.queue) } := by
  rw [feedSub_one, enqueueEvent_skip (s := { s with queue := freezeCovered e s.queue }) ho]
  exact pumpAll_setQueue_rest hq _ (fun h => by rw [h]; rfl)

theorem feedSub_not_offered_empty (c' : Cache.State) (e : Event) {s : Subscriber} (hq : Quiet s)
    (ho : offeredR s.regs e = false) (he : s.queue = []) : feedSub c' [e] s = s := by
  rw [feedSub_not_offered c' e hq ho]
  have : refreshQueue c' (freezeCovered e s.queue) = s.queue := by rw [he]; rfl
  rw [this]

/-- **flow control open: the whole-target delete of its target ends a single-target STREAM
subscription** — it is sent that one response and the RPC returns OK -/
theorem feedSub_td_ends (c' : Cache.State) (T : String) (now : Int) {s : Subscriber} (hb : Base s) (hq : Quiet s)
    (ha : s.alive = true) (hm : s.req.mode = .stream) (ht : s.req.target = T) (hT : T ≠ "*")
    (hsub : s.req.subs ≠ []) (hg : s.gateShut = false) :
    feedSub c' [tdEvent T now] s =
      { s with alive := false, status := some .ok, out := s.out ++ [(tdResp T now, s.gatedSinceDrain)] } := by
  have hbl := hb.open hg
  obtain ⟨hq0, hcl⟩ := hq ha hbl
  have hacl : s.acl.check T = true := by
    have := hb.acl ha (by rw [ht]; exact hT)
    rwa [ht] at this
  have hoff : offeredR s.regs (tdEvent T now) = true :=
    offeredR_td_true hb.regsOK (by rw [hb.regs hm]; exact regQueries_ne_nil hsub) (Or.inl ht) now
  have h1 : enqueueEvent { s with queue := freezeCovered (tdEvent T now) s.queue } (tdEvent T now) =
      { s with queue := [(Item.note (tdEvent T now), 0)] } := by
    unfold tdEvent at hoff ⊢
    rw [enqueueEvent_del (s := { s with queue := freezeCovered _ s.queue }) ha hcl hoff, hq0]
    rfl
  rw [feedSub_one, h1]
  obtain ⟨id, req, acl, regs, alive, status, gateShut, gsd, blocked, queue, closed, out⟩ := s
  simp only at ha hg hbl hq0 hcl hacl ht
  subst ha hg hbl hq0 hcl ht
  have hT' : (req.target != "*") = true := by simp [hT]
  simp [refreshQueue, pumpAll, pump, toResp, tdEvent, tdResp, denied, respTarget, hacl, isTargetDelete, hT']

/-- **an all-targets subscriber stays**: it is sent the delete if its ACL lets it see the target -/
theorem feedSub_td_star (c' : Cache.State) (T : String) (now : Int) {s : Subscriber} (hb : Base s) (hq : Quiet s)
    (ha : s.alive = true) (hm : s.req.mode = .stream) (ht : s.req.target = "*")
    (hsub : s.req.subs ≠ []) (hg : s.gateShut = false) :
    feedSub c' [tdEvent T now] s =
      if s.acl.check T then { s with out := s.out ++ [(tdResp T now, s.gatedSinceDrain)] } else s := by
  have hbl := hb.open hg
  obtain ⟨hq0, hcl⟩ := hq ha hbl
  have hoff : offeredR s.regs (tdEvent T now) = true :=
    offeredR_td_true hb.regsOK (by rw [hb.regs hm]; exact regQueries_ne_nil hsub) (Or.inr ht) now
  have h1 : enqueueEvent { s with queue := freezeCovered (tdEvent T now) s.queue } (tdEvent T now) =
      { s with queue := [(Item.note (tdEvent T now), 0)] } := by
    unfold tdEvent at hoff ⊢
    rw [enqueueEvent_del (s := { s with queue := freezeCovered _ s.queue }) ha hcl hoff, hq0]
    rfl
  rw [feedSub_one, h1]
  obtain ⟨id, req, acl, regs, alive, status, gateShut, gsd, blocked, queue, closed, out⟩ := s
  simp only at ha hg hbl hq0 hcl ht
  subst ha hg hbl hq0 hcl
  have hT' : (req.target != "*") = false := by simp [ht]
  cases hacl : acl.check T <;>
    simp [refreshQueue, pumpAll, pump, toResp, tdEvent, tdResp, denied, respTarget, hacl, isTargetDelete, hT']

/-! ## the sender with flow control open, exactly -/

/-- what the queue becomes on the wire: `toResp`, minus what the per-response ACL check drops -/
def sendable (acl : Acl) (q : List (Item × Nat)) : List Resp := (q.map toResp).filter (fun r => !denied acl r)

/-- up to and including the first whole-target delete -/
def cutTD : List Resp → List Resp
  | [] => []
  | r :: rs => if isTargetDelete r then [r] else r :: cutTD rs

def hasTD (l : List Resp) : Bool := l.any isTargetDelete

/-- what is waiting to be sent: the response inside a gated `Send`, then the queue -/
def held (s : Subscriber) : List Resp := s.blocked.toList ++ sendable s.acl s.queue

theorem pend_eq (s : Subscriber) : SubGate.pend s = s.out.map (·.1) ++ held s := by
  unfold SubGate.pend held sendable
  rw [List.append_assoc]

/-- a non-empty cut ends with a whole-target delete as soon as the list has one -/
theorem cutTD_last : ∀ (l : List Resp), hasTD l = true →
    ∃ l' r, cutTD l = l' ++ [r] ∧ isTargetDelete r = true ∧ (∀ x ∈ l', isTargetDelete x = false)
  | [], h => by simp [hasTD] at h
  | x :: l, h => by
    by_cases hx : isTargetDelete x = true
    · exact ⟨[], x, by simp [cutTD, hx], hx, fun _ h => by cases h⟩
    · have hx' : isTargetDelete x = false := by simpa using hx
      have hl : hasTD l = true := by simpa [hasTD, hx'] using h
      obtain ⟨l', r, h1, h2, h3⟩ := cutTD_last l hl
      refine ⟨x :: l', r, by simp [cutTD, hx', h1], h2, ?_⟩
      intro y hy
      rcases List.mem_cons.1 hy with rfl | hy
      · exact hx'
      · exact h3 y hy

theorem cutTD_noTD : ∀ (l : List Resp), hasTD l = false → cutTD l = l
  | [], _ => rfl
  | x :: l, h => by
    have h' : isTargetDelete x = false ∧ hasTD l = false := by simpa [hasTD] using h
    simp [cutTD, h'.1, cutTD_noTD l h'.2]

/-- **a single-target sender with flow control open** sends the queue in order, minus what the ACL
drops, up to and including the first whole-target delete; it ends there with OK, and otherwise stays -/
theorem pump_open_cut : ∀ (q : List (Item × Nat)) (fuel : Nat) (id : String) (req : Req) (acl : Acl)
    (regs : List Path) (status : Option Code) (gsd : Bool) (out : List (Resp × Bool)),
    fuel ≥ q.length + 1 → (req.target != "*") = true →
    (pump fuel (Subscriber.mk id req acl regs true status false gsd none q false out)).out =
        out ++ (cutTD (sendable acl q)).map (fun r => (r, gsd)) ∧
    (pump fuel (Subscriber.mk id req acl regs true status false gsd none q false out)).alive =
        !hasTD (sendable acl q) ∧
    (pump fuel (Subscriber.mk id req acl regs true status false gsd none q false out)).status =
        (if hasTD (sendable acl q) then some .ok else status) ∧
    (pump fuel (Subscriber.mk id req acl regs true status false gsd none q false out)).blocked = none
  | [], fuel + 1, id, req, acl, regs, status, gsd, out, _, _ => by
    simp [pump, sendable, cutTD, hasTD]
  | x :: rest, fuel + 1, id, req, acl, regs, status, gsd, out, hf, ht => by
    by_cases hdx : denied acl (toResp x) = true
    · have ih := pump_open_cut rest fuel id req acl regs status gsd out (by simp at hf ⊢; omega) ht
      have hstep : pump (fuel + 1) (Subscriber.mk id req acl regs true status false gsd none (x :: rest) false out) =
          pump fuel (Subscriber.mk id req acl regs true status false gsd none rest false out) := by
        simp [pump, hdx]
      have hs : sendable acl (x :: rest) = sendable acl rest := by simp [sendable, hdx]
      rw [hstep, hs]
      exact ih
    · have hdx' : denied acl (toResp x) = false := by simpa using hdx
      have hs : sendable acl (x :: rest) = toResp x :: sendable acl rest := by simp [sendable, hdx']
      by_cases htd : isTargetDelete (toResp x) = true
      · rw [hs]
        simp [pump, hdx', htd, ht, cutTD, hasTD]
      · have htd' : isTargetDelete (toResp x) = false := by simpa using htd
        have ih := pump_open_cut rest fuel id req acl regs status gsd (out ++ [(toResp x, gsd)])
          (by simp at hf ⊢; omega) ht
        have hstep : pump (fuel + 1) (Subscriber.mk id req acl regs true status false gsd none (x :: rest) false out) =
            pump fuel (Subscriber.mk id req acl regs true status false gsd none rest false (out ++ [(toResp x, gsd)])) := by
          simp [pump, hdx', htd']
        rw [hstep, hs]
        obtain ⟨i1, i2, i3, i4⟩ := ih
        refine ⟨?_, ?_, ?_, i4⟩
        · rw [i1]; simp [cutTD, htd']
        · rw [i2]; simp [hasTD, htd']
        · rw [i3]; simp [hasTD, htd']
  | [], 0, _, _, _, _, _, _, _, hf, _ => by simp at hf
  | _ :: _, 0, _, _, _, _, _, _, _, hf, _ => by simp at hf

/-- **`gateOpen` of a single-target subscriber that holds a response**: it is sent what was waiting
(`held`), in order, up to and including the first whole-target delete; if there is one the RPC ends
there with OK, otherwise it stays -/
theorem gateF_open_cut (s : Subscriber) {r : Resp} (ha : s.alive = true) (hbl : s.blocked = some r)
    (hc : s.closed = false) (ht : s.req.target ≠ "*") :
    (gateF false s).out = s.out ++ (cutTD (held s)).map (fun x => (x, s.gatedSinceDrain)) ∧
    (gateF false s).alive = !hasTD (held s) ∧
    (gateF false s).status = (if hasTD (held s) then some .ok else s.status) := by
  obtain ⟨id, req, acl, regs, alive, status, gateShut, gsd, blocked, queue, closed, out⟩ := s
  simp only at ha hbl hc ht
  subst ha hbl hc
  have ht' : (req.target != "*") = true := by simp [ht]
  by_cases htd : isTargetDelete r = true
  · have : gateF false (Subscriber.mk id req acl regs true status gateShut gsd (some r) queue false out) =
        Subscriber.mk id req acl regs false (some .ok) false gsd none queue false (out ++ [(r, gsd)]) := by
      simp only [gateF, Bool.false_eq_true, if_false, htd, ht', Bool.and_self, if_true]
      exact pump_dead _ _ rfl
    rw [this]
    simp [held, cutTD, hasTD, htd]
  · have htd' : isTargetDelete r = false := by simpa using htd
    have : gateF false (Subscriber.mk id req acl regs true status gateShut gsd (some r) queue false out) =
        pumpAll (Subscriber.mk id req acl regs true status false gsd none queue false (out ++ [(r, gsd)])) := by
      simp [gateF, htd']
    rw [this]
    obtain ⟨i1, i2, i3, _⟩ := pump_open_cut queue (queue.length + 2) id req acl regs status gsd (out ++ [(r, gsd)])
      (by omega) ht'
    unfold pumpAll
    refine ⟨?_, ?_, ?_⟩
    · rw [i1]; simp [held, cutTD, htd']
    · rw [i2]; simp [held, hasTD, htd']
    · rw [i3]; simp [held, hasTD, htd']

theorem refreshQueue_snoc_note (c : Cache.State) (e : Event) (d : Nat) : ∀ (q : List (Item × Nat)),
    ∃ q', refreshQueue c (q ++ [(Item.note e, d)]) = q' ++ [(Item.note e, d)]
  | [] => ⟨[], rfl⟩
  | (it, d0) :: q => by
    obtain ⟨q', hq'⟩ := refreshQueue_snoc_note c e d q
    rw [List.cons_append]
    cases it <;> (simp only [refreshQueue]; rw [hq']; exact ⟨_ :: q', rfl⟩)

/-- **flow control shut: the whole-target delete is pending** — held inside `Send` if nothing was
held, else the last entry of the queue; nothing is sent and the subscriber stays -/
theorem feedSub_td_gated (c' : Cache.State) (T : String) (now : Int) {s : Subscriber} (hb : Base s) (hq : Quiet s)
    (ha : s.alive = true) (hm : s.req.mode = .stream) (ht : s.req.target = T ∨ s.req.target = "*")
    (hacl : s.acl.check T = true) (hsub : s.req.subs ≠ []) (hg : s.gateShut = true) :
    (s.blocked = none → feedSub c' [tdEvent T now] s = { s with blocked := some (tdResp T now) }) ∧
    (∀ r, s.blocked = some r →
      ∃ q', feedSub c' [tdEvent T now] s = { s with queue := q' ++ [(Item.note (tdEvent T now), 0)] }) := by
  have hcl : s.closed = false := hb.closed_stream (by rw [hm]; decide)
  have hoff : offeredR s.regs (tdEvent T now) = true :=
    offeredR_td_true hb.regsOK (by rw [hb.regs hm]; exact regQueries_ne_nil hsub) ht now
  have h1 : enqueueEvent { s with queue := freezeCovered (tdEvent T now) s.queue } (tdEvent T now) =
      { s with queue := freezeCovered (tdEvent T now) s.queue ++ [(Item.note (tdEvent T now), 0)] } := by
    unfold tdEvent at hoff ⊢
    rw [enqueueEvent_del (s := { s with queue := freezeCovered _ s.queue }) ha hcl hoff]
  constructor
  · intro hbl
    obtain ⟨hq0, _⟩ := hq ha hbl
    rw [feedSub_one, h1, hq0]
    obtain ⟨id, req, acl, regs, alive, status, gateShut, gsd, blocked, queue, closed, out⟩ := s
    simp only at ha hg hbl hq0 hcl hacl
    subst ha hg hbl hq0 hcl
    simp [freezeCovered, refreshQueue, pumpAll, pump, toResp, tdEvent, tdResp, denied, respTarget, hacl]
  · intro r hbl
    rw [feedSub_one, h1]
    obtain ⟨q', hq'⟩ := refreshQueue_snoc_note c' (tdEvent T now) 0 (freezeCovered (tdEvent T now) s.queue)
    refine ⟨q', ?_⟩
    show pumpAll { s with queue := refreshQueue c' (freezeCovered (tdEvent T now) s.queue ++ [(Item.note (tdEvent T now), 0)]) } = _
    rw [hq']
    exact pumpAll_blocked _ (by simp [hbl])

/-! ## a subscriber that ended, and holds nothing, is never touched again -/

/-- `s'` is `s`, ended and silent, up to the queue and the gate flags -/
def DeadSame (s s' : Subscriber) : Prop :=
  s'.alive = false ∧ s'.blocked = none ∧ s'.status = s.status ∧ s'.id = s.id ∧ s'.out = s.out ∧
  s'.req = s.req ∧ s'.acl = s.acl

theorem DeadSame.refl {s : Subscriber} (ha : s.alive = false) (hb : s.blocked = none) : DeadSame s s :=
  ⟨ha, hb, rfl, rfl, rfl, rfl, rfl⟩

theorem dead_setQueue {s : Subscriber} (ha : s.alive = false) (hb : s.blocked = none) (q : List (Item × Nat)) :
    DeadSame s (pumpAll { s with queue := q }) := by
  have : pumpAll { s with queue := q } = { s with queue := q } := pump_dead _ _ ha
  rw [this]
  exact ⟨ha, hb, rfl, rfl, rfl, rfl, rfl⟩

theorem dead_feedSub (c' : Cache.State) (evs : List Event) {s : Subscriber} (ha : s.alive = false)
    (hb : s.blocked = none) : DeadSame s (feedSub c' evs s) := by
  obtain ⟨q, hq⟩ := feedSub_shape c' evs s
  rw [hq]
  exact dead_setQueue ha hb q

theorem dead_pollF (c : Cache.State) {s : Subscriber} (ha : s.alive = false) : pollF c s = s := by
  unfold pollF; simp [ha]

theorem dead_eofF {s : Subscriber} (ha : s.alive = false) : eofF s = s := by
  unfold eofF; simp [ha]

theorem dead_expireF {s : Subscriber} (ha : s.alive = false) : expireF s = s := by
  unfold expireF; simp [ha]

theorem dead_stepF {s : Subscriber} (hb : s.blocked = none) : stepF s = s := by
  unfold stepF
  split
  · rw [hb]
  · rfl

theorem dead_gateF (shut : Bool) {s : Subscriber} (ha : s.alive = false) (hb : s.blocked = none) :
    DeadSame s (gateF shut s) := by
  cases shut with
  | true => exact ⟨ha, hb, rfl, rfl, rfl, rfl, rfl⟩
  | false =>
    rw [gateF_open_none s hb]
    have : pumpAll { s with gateShut := false } = { s with gateShut := false } := pump_dead _ _ ha
    rw [this]
    exact ⟨ha, hb, rfl, rfl, rfl, rfl, rfl⟩

/-- the operation is the harness reading and clearing the output of subscriber `i` -/
def isDrainOf (i : String) : Op → Prop
  | .c07 (.drain id) => id = i
  | _ => False

/-- **one operation, any operation, on a subscriber that ended and holds no response**: still ended,
same status, nothing appended to `out` (a `drain` of it empties `out`) -/
theorem subStep_dead (enc : String → String) (c : Cache.State) (op : Op) {s : Subscriber} (ha : s.alive = false)
    (hb : s.blocked = none) :
    (subStep enc c op s).alive = false ∧ (subStep enc c op s).blocked = none ∧
    (subStep enc c op s).status = s.status ∧ (subStep enc c op s).id = s.id ∧
    (subStep enc c op s).req = s.req ∧ (subStep enc c op s).acl = s.acl ∧
    (¬ isDrainOf s.id op → (subStep enc c op s).out = s.out) ∧
    (isDrainOf s.id op → (subStep enc c op s).out = []) := by
  have same : ∀ s' : Subscriber, DeadSame s s' → ¬ isDrainOf s.id op →
      s'.alive = false ∧ s'.blocked = none ∧ s'.status = s.status ∧ s'.id = s.id ∧
      s'.req = s.req ∧ s'.acl = s.acl ∧
      (¬ isDrainOf s.id op → s'.out = s.out) ∧ (isDrainOf s.id op → s'.out = []) :=
    fun s' h hn => ⟨h.1, h.2.1, h.2.2.1, h.2.2.2.1, h.2.2.2.2.2.1, h.2.2.2.2.2.2, fun _ => h.2.2.2.2.1,
      fun hd => absurd hd hn⟩
  have onSame : ∀ (id : String) (f : Subscriber → Subscriber), DeadSame s (f s) → DeadSame s (on id f s) := by
    intro id f h
    unfold on
    split
    · exact h
    · exact DeadSame.refl ha hb
  cases op with
  | c07 o =>
    cases o with
    | sub id acl req => exact same _ (DeadSame.refl ha hb) (fun h => h)
    | setCache c => exact same _ (DeadSame.refl ha hb) (fun h => h)
    | feed evs => exact same _ (dead_feedSub c evs ha hb) (fun h => h)
    | poll id => exact same _ (onSame id _ (by rw [dead_pollF c ha]; exact DeadSame.refl ha hb)) (fun h => h)
    | eof id => exact same _ (onSame id _ (by rw [dead_eofF ha]; exact DeadSame.refl ha hb)) (fun h => h)
    | gate id shut => exact same _ (onSame id _ (dead_gateF shut ha hb)) (fun h => h)
    | gateStep id => exact same _ (onSame id _ (by rw [dead_stepF hb]; exact DeadSame.refl ha hb)) (fun h => h)
    | expire =>
      exact same _ (by show DeadSame s (expireF s); rw [dead_expireF ha]; exact DeadSame.refl ha hb) (fun h => h)
    | drain id =>
      have hstep : subStep enc c (.c07 (.drain id)) s = on id drainF s := rfl
      rw [hstep]
      unfold on
      by_cases hid : s.id = id
      · rw [if_pos hid]
        exact ⟨ha, hb, rfl, rfl, rfl, rfl, fun hn => absurd (show id = s.id from hid.symm) hn,
          fun _ => rfl⟩
      · rw [if_neg hid]
        exact ⟨ha, hb, rfl, rfl, rfl, rfl, fun _ => rfl, fun hd => absurd (show id = s.id from hd).symm hid⟩
  | ca o => exact same _ (dead_feedSub _ _ ha hb) (fun h => h)
  | pregate id => exact same _ (DeadSame.refl ha hb) (fun h => h)

/-- **... and so after every further history** -/
theorem subRun_dead (enc : String → String) : ∀ (ops : List Op) (c : Cache.State) (s : Subscriber),
    s.alive = false → s.blocked = none →
    (subRun enc c ops s).alive = false ∧ (subRun enc c ops s).blocked = none ∧
    (subRun enc c ops s).status = s.status ∧ (subRun enc c ops s).id = s.id ∧
    ((subRun enc c ops s).out = s.out ∨ (subRun enc c ops s).out = []) ∧
    ((∀ op ∈ ops, ¬ isDrainOf s.id op) → (subRun enc c ops s).out = s.out)
  | [], _, s, ha, hb => ⟨ha, hb, rfl, rfl, Or.inl rfl, fun _ => rfl⟩
  | op :: ops, c, s, ha, hb => by
    obtain ⟨h1, h2, h3, h4, _, _, h5, h6⟩ := subStep_dead enc c op ha hb
    obtain ⟨i1, i2, i3, i4, i5, i6⟩ := subRun_dead enc ops (cacheStep enc c op) _ h1 h2
    refine ⟨i1, i2, i3.trans h3, i4.trans h4, ?_, ?_⟩
    · rcases i5 with i5 | i5
      · by_cases hd : isDrainOf s.id op
        · exact Or.inr (i5.trans (h6 hd))
        · exact Or.inl (i5.trans (h5 hd))
      · exact Or.inr i5
    · intro hn
      have := i6 (fun o ho => by rw [h4]; exact hn o (List.mem_cons_of_mem _ ho))
      exact this.trans (h5 (hn op (List.mem_cons_self ..)))

/-! ## a stall persists -/

/-- the operations that act on a stalled subscriber `i`: the timeout, and its own client / flow control -/
def actsOn (i : String) : Op → Prop
  | .c07 .expire => True
  | .c07 (.poll id) => id = i
  | .c07 (.eof id) => id = i
  | .c07 (.gate id _) => id = i
  | .c07 (.gateStep id) => id = i
  | .c07 (.drain id) => id = i
  | _ => False

theorem on_other {id : String} {f : Subscriber → Subscriber} {s : Subscriber} (h : ¬ id = s.id) : on id f s = s := by
  unfold on
  rw [if_neg (fun e => h e.symm)]

/-- **a sender inside a gated `Send` stays there**, holding the same response, whatever else happens
(cache writes, other subscribers' operations): only its queue changes -/
theorem subStep_blocked (enc : String → String) (c : Cache.State) (op : Op) {s : Subscriber} {r : Resp}
    (hb : s.blocked = some r) (hn : ¬ actsOn s.id op) :
    ∃ q, subStep enc c op s = { s with queue := q } := by
  have hfeed : ∀ (c' : Cache.State) (evs : List Event), ∃ q, feedSub c' evs s = { s with queue := q } := by
    intro c' evs
    obtain ⟨q, hq⟩ := feedSub_shape c' evs s
    exact ⟨q, by rw [hq]; exact pumpAll_blocked _ (by show s.blocked.isSome = true; rw [hb]; rfl)⟩
  cases op with
  | c07 o =>
    cases o with
    | sub id acl req => exact ⟨s.queue, rfl⟩
    | setCache c => exact ⟨s.queue, rfl⟩
    | feed evs => exact hfeed c evs
    | poll id => exact ⟨s.queue, on_other hn⟩
    | eof id => exact ⟨s.queue, on_other hn⟩
    | gate id shut => exact ⟨s.queue, on_other hn⟩
    | gateStep id => exact ⟨s.queue, on_other hn⟩
    | expire => exact absurd trivial hn
    | drain id => exact ⟨s.queue, on_other hn⟩
  | ca o => exact hfeed _ _
  | pregate id => exact ⟨s.queue, rfl⟩

theorem expireF_blocked {s : Subscriber} (ha : s.alive = true) (hb : s.blocked.isSome = true) :
    expireF s = { s with alive := false, status := some .unknown, blocked := none } := by
  unfold expireF
  simp [ha, hb]

theorem expireF_other {s : Subscriber} (h : ¬ (s.alive = true ∧ s.blocked.isSome = true)) : expireF s = s := by
  unfold expireF
  rw [if_neg h]

/-! ## the existing history notions are histories -/

theorem reachable_hrun (enc : String → String) (cfg : Cfg) (h : List C04Seq.HOp) :
    Reachable enc (C04Seq.hrun enc { cache := { cfg := cfg } } h) :=
  ⟨cfg, h.map ofHOp, (hrun_eq enc h _).symm⟩

theorem reachable_grun (enc : String → String) (cfg : Cfg) (h : List C04Gate.GOp) :
    Reachable enc (C04Gate.grun enc { cache := { cfg := cfg } } h) :=
  ⟨cfg, h.map ofGOp, (grun_eq enc h _).symm⟩

theorem reachable_c07 (enc : String → String) (ops : List C07.Op) : Reachable enc (ops.foldl C07.step {}) :=
  ⟨{}, ops.map Op.c07, (c07run_eq enc ops _).symm⟩

theorem Base.regs_nil {s : Subscriber} (h : Base s) (hn : s.req.mode ≠ .stream ∨ s.req.subs = []) : s.regs = [] := by
  by_cases hm : s.req.mode = .stream
  · rcases hn with hn | hn
    · exact absurd hm hn
    · rw [h.regs hm]; exact regQueries_nil hn
  · exact h.regsNS hm

theorem sendable_append (acl : Acl) (a b : List (Item × Nat)) : sendable acl (a ++ b) = sendable acl a ++ sendable acl b := by
  simp [sendable]

theorem sendable_td (acl : Acl) (T : String) (now : Int) (h : acl.check T = true) :
    sendable acl [(Item.note (tdEvent T now), 0)] = [tdResp T now] := by
  simp [sendable, toResp, tdEvent, tdResp, denied, respTarget, h]

theorem hasTD_snoc_td (l : List Resp) {r : Resp} (h : isTargetDelete r = true) : hasTD (l ++ [r]) = true := by
  simp [hasTD, h]

/-! ## a queued delete item survives every `feed` -/

def isNote (x : Item × Nat) : Prop := ∃ e, x.1 = Item.note e

theorem mem_freeze_note {x : Item × Nat} (hx : isNote x) (e : Event) {q : List (Item × Nat)} (h : x ∈ q) :
    x ∈ freezeCovered e q := by
  obtain ⟨e', he'⟩ := hx
  unfold freezeCovered
  refine List.mem_map.2 ⟨x, h, ?_⟩
  obtain ⟨it, d⟩ := x
  simp only at he'
  subst he'
  rfl

theorem mem_insertHandle_note {x : Item × Nat} (hx : isNote x) {q : List (Item × Nat)} (t : String) (k : Path)
    (n : Noti) (h : x ∈ q) : x ∈ insertHandle q t k n := by
  obtain ⟨e', he'⟩ := hx
  unfold insertHandle
  simp only
  split
  · rw [← List.take_append_drop (lastCover q t k) q] at h
    rcases List.mem_append.1 h with h | h
    · exact List.mem_append.2 (Or.inl h)
    · refine List.mem_append.2 (Or.inr (List.mem_map.2 ⟨x, h, ?_⟩))
      have : isHandleFor t k x.1 = false := by rw [he']; rfl
      simp [this]
  · exact List.mem_append.2 (Or.inl h)

theorem mem_qstep_note {x : Item × Nat} (hx : isNote x) (regs : List Path) (e : Event) {q : List (Item × Nat)}
    (h : x ∈ q) : x ∈ qstep regs q e := by
  unfold qstep
  split
  · cases e with
    | upd n => exact mem_insertHandle_note hx _ _ _ (mem_freeze_note hx _ h)
    | del t o p ts => exact List.mem_append.2 (Or.inl (mem_freeze_note hx _ h))
  · exact mem_freeze_note hx _ h

theorem mem_qfold_note {x : Item × Nat} (hx : isNote x) (regs : List Path) : ∀ (evs : List Event)
    {q : List (Item × Nat)}, x ∈ q → x ∈ evs.foldl (qstep regs) q
  | [], _, h => h
  | e :: evs, _, h => mem_qfold_note hx regs evs (mem_qstep_note hx regs e h)

theorem mem_refresh_note {x : Item × Nat} (hx : isNote x) (c : Cache.State) : ∀ {q : List (Item × Nat)},
    x ∈ q → x ∈ refreshQueue c q
  | [], h => h
  | (it, d) :: rest, h => by
    rcases List.mem_cons.1 h with h | h
    · obtain ⟨e', he'⟩ := hx
      subst h
      simp only at he'
      subst he'
      simp [refreshQueue]
    · have ih := mem_refresh_note hx c h
      cases it <;> (simp only [refreshQueue]; exact List.mem_cons_of_mem _ ih)

/-- `subStep_blocked`, keeping track of the queued delete items -/
theorem subStep_blocked_notes (enc : String → String) (c : Cache.State) (op : Op) {s : Subscriber} {r : Resp}
    (ha : s.alive = true) (hc : s.closed = false) (hb : s.blocked = some r) (hn : ¬ actsOn s.id op) :
    ∃ q, subStep enc c op s = { s with queue := q } ∧ ∀ x ∈ s.queue, isNote x → x ∈ q := by
  have hfeed : ∀ (c' : Cache.State) (evs : List Event),
      ∃ q, feedSub c' evs s = { s with queue := q } ∧ ∀ x ∈ s.queue, isNote x → x ∈ q := by
    intro c' evs
    refine ⟨_, feedSub_blocked c' evs s ha hc (by rw [hb]; rfl), ?_⟩
    intro x hx hnote
    exact mem_refresh_note hnote c' (mem_qfold_note hnote s.regs evs hx)
  have same : ∃ q, s = { s with queue := q } ∧ ∀ x ∈ s.queue, isNote x → x ∈ q := ⟨s.queue, rfl, fun _ h _ => h⟩
  cases op with
  | c07 o =>
    cases o with
    | sub id acl req => exact same
    | setCache c => exact same
    | feed evs => exact hfeed c evs
    | poll id => rw [show subStep enc c (.c07 (.poll id)) s = s from on_other hn]; exact same
    | eof id => rw [show subStep enc c (.c07 (.eof id)) s = s from on_other hn]; exact same
    | gate id shut => rw [show subStep enc c (.c07 (.gate id shut)) s = s from on_other hn]; exact same
    | gateStep id => rw [show subStep enc c (.c07 (.gateStep id)) s = s from on_other hn]; exact same
    | expire => exact absurd trivial hn
    | drain id => rw [show subStep enc c (.c07 (.drain id)) s = s from on_other hn]; exact same
  | ca o => exact hfeed _ _
  | pregate id => exact same

theorem subRun_blocked_notes (enc : String → String) : ∀ (ops : List Op) (c : Cache.State) (s : Subscriber)
    (r : Resp), s.alive = true → s.closed = false → s.blocked = some r → (∀ op ∈ ops, ¬ actsOn s.id op) →
    ∃ q, subRun enc c ops s = { s with queue := q } ∧ ∀ x ∈ s.queue, isNote x → x ∈ q
  | [], _, s, _, _, _, _, _ => ⟨s.queue, rfl, fun _ h _ => h⟩
  | op :: ops, c, s, r, ha, hc, hb, hn => by
    obtain ⟨q, hq, hq2⟩ := subStep_blocked_notes enc c op ha hc hb (hn op (List.mem_cons_self ..))
    show ∃ q', subRun enc (cacheStep enc c op) ops (subStep enc c op s) = _ ∧ _
    rw [hq]
    obtain ⟨q', hq', hq3⟩ := subRun_blocked_notes enc ops (cacheStep enc c op) { s with queue := q } r ha hc hb
      (fun o ho => hn o (List.mem_cons_of_mem _ ho))
    exact ⟨q', hq', fun x hx hnote => hq3 x (hq2 x hx hnote) hnote⟩

theorem hasTD_sendable_of_mem {acl : Acl} {q : List (Item × Nat)} {T : String} {now : Int}
    (h : (Item.note (tdEvent T now), 0) ∈ q) (hacl : acl.check T = true) : hasTD (sendable acl q) = true := by
  unfold hasTD sendable
  rw [List.any_eq_true]
  refine ⟨tdResp T now, ?_, isTargetDelete_tdResp T now⟩
  rw [List.mem_filter]
  refine ⟨List.mem_map.2 ⟨_, h, rfl⟩, ?_⟩
  simp [denied, respTarget, tdResp, hacl]

theorem hasTD_held {s : Subscriber} {T : String} {now : Int} (hacl : s.acl.check T = true)
    (h : s.blocked = some (tdResp T now) ∨ (Item.note (tdEvent T now), 0) ∈ s.queue) : hasTD (held s) = true := by
  unfold held
  rcases h with h | h
  · rw [h]; simp [hasTD, isTargetDelete_tdResp]
  · have := hasTD_sendable_of_mem h hacl
    unfold hasTD at this ⊢
    rw [List.any_append, this, Bool.or_true]

end SubEnd
end Gnmi
