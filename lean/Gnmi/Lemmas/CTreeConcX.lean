import Gnmi.Model.CTreeConcX
import Gnmi.Props.C10
/-!
# Lemmas about the extended ctree LTS (`Model/CTreeConcX.lean`)

* projection: a `CX` run projects to a `CC` run (`reach_base`), so `CC.Inv`, `CC.Inv2`, the
  query invariants and `C10.frozen_ancestors` hold of `s.base`;
* the additional invariant `XInv` (announced locks, node operations, the recorded `isBranch`);
* `no_panic`: no transition's panic condition holds in a reachable configuration.
-/
namespace Gnmi
namespace CX
open Trie CC

variable {n : Nat}

/-! ## unfolding one transition -/

theorem next_some {v : Variant} {s s' : Cfg n} {l : Label n} (h : next v s l = some s') :
    s.panic = none ∧
    ((panics v s l = true ∧ s' = { s with panic := some l.tid }) ∨
     (panics v s l = false ∧ guard v s l = true ∧ s' = eff v s l)) := by
  unfold next at h
  cases hp : s.panic with
  | some σ => simp [hp] at h
  | none =>
    refine ⟨rfl, ?_⟩
    simp only [hp, Option.isSome_none, Bool.false_eq_true, if_false] at h
    cases hpan : panics v s l with
    | true => simp only [hpan, if_true, Option.some.injEq] at h; exact Or.inl ⟨rfl, h.symm⟩
    | false =>
      simp only [hpan, Bool.false_eq_true, if_false] at h
      cases hg : guard v s l with
      | true => simp only [hg, if_true, Option.some.injEq] at h; exact Or.inr ⟨rfl, rfl, h.symm⟩
      | false => simp [hg] at h

@[simp] theorem updX_base (s : Cfg n) (τ : Fin n) (x : XThread) : (updX s τ x).base = s.base := rfl
@[simp] theorem updX_panic (s : Cfg n) (τ : Fin n) (x : XThread) : (updX s τ x).panic = s.panic := rfl
@[simp] theorem updX_xt_self (s : Cfg n) (τ : Fin n) (x : XThread) : (updX s τ x).xt τ = x := by
  simp [updX]
theorem updX_xt_other (s : Cfg n) (τ σ : Fin n) (x : XThread) (h : σ ≠ τ) :
    (updX s τ x).xt σ = s.xt σ := by
  simp [updX, h]

/-- the base configuration after a transition -/
def baseAfter (s : Cfg n) : Label n → CC.Cfg n
  | .call τ _ c => CC.eff s.base (.invoke τ c)
  | .b l => CC.eff s.base l
  | _ => s.base

theorem eff_base (v : Variant) (s : Cfg n) (l : Label n) : (eff v s l).base = baseAfter s l := by
  cases l <;> simp only [eff, baseAfter] <;> (try split) <;> simp

theorem eff_panic (v : Variant) (s : Cfg n) (l : Label n) : (eff v s l).panic = s.panic := by
  cases l <;> simp only [eff] <;> (try split) <;> simp

/-- the `CC` label a `CX` label is a strengthening of -/
def baseLabel : Label n → Option (CC.Label n)
  | .call τ _ c => some (.invoke τ c)
  | .b l => some l
  | _ => none

theorem baseLabel_tid {l : Label n} {l' : CC.Label n} (h : baseLabel l = some l') : l'.tid = l.tid := by
  cases l <;> simp only [baseLabel, Option.some.injEq] at h <;> (try cases h) <;> (try subst h) <;> rfl

theorem guard_base {v : Variant} {s : Cfg n} {l : Label n} {l' : CC.Label n}
    (hg : guard v s l = true) (hl : baseLabel l = some l') : CC.guard v.rc s.base l' = true := by
  cases l with
  | call τ a c =>
    simp only [baseLabel, Option.some.injEq] at hl; subst hl
    simp only [guard, Bool.and_eq_true] at hg; exact hg.1.1
  | b l0 =>
    simp only [baseLabel, Option.some.injEq] at hl; subst hl
    simp only [guard, Bool.and_eq_true] at hg; exact hg.1
  | _ => simp [baseLabel] at hl

theorem baseAfter_of_label {s : Cfg n} {l : Label n} {l' : CC.Label n} (hl : baseLabel l = some l') :
    baseAfter s l = CC.eff s.base l' := by
  cases l <;> simp only [baseLabel, Option.some.injEq] at hl <;> (try cases hl) <;> (try subst hl) <;> rfl

theorem baseAfter_of_none {s : Cfg n} {l : Label n} (hl : baseLabel l = none) :
    baseAfter s l = s.base := by
  cases l <;> simp only [baseLabel] at hl <;> (try cases hl) <;> rfl

/-- **Projection.**  A transition of `CX` is, on the base configuration, a transition of `CC`
(with the same thread) or nothing. -/
theorem step_base {v : Variant} {s s' : Cfg n} {l : Label n} (h : Step v s l s') :
    s'.base = s.base ∨ ∃ l', l'.tid = l.tid ∧ CC.Step v.rc s.base l' s'.base := by
  obtain ⟨_, ⟨_, rfl⟩ | ⟨_, hg, rfl⟩⟩ := next_some h
  · exact Or.inl rfl
  · rw [eff_base]
    cases hl : baseLabel l with
    | none => exact Or.inl (baseAfter_of_none hl)
    | some l' =>
      exact Or.inr ⟨l', baseLabel_tid hl, guard_base hg hl, baseAfter_of_label hl⟩

theorem reach_base {v : Variant} {s : Cfg n} (h : Reach v s) : CC.Reach v.rc s.base := by
  induction h with
  | init => exact CC.Reach.init
  | step _ hs ih =>
    rcases step_base hs with e | ⟨l', _, hl'⟩
    · rw [e]; exact ih
    · exact CC.Reach.step ih hl'

theorem reach_panic_or {v : Variant} {s s' : Cfg n} {l : Label n} (h : Step v s l s') :
    s.panic = none := (next_some h).1

/-! ## shallow facts -/

theorem hasChild_of_shallow {t t' : Trie Nat} {x : Path} {nd nd' : Trie Nat} (k : String)
    (hs : shallow (Trie.get t' x) = shallow (Trie.get t x))
    (h : Trie.get t x = some nd) (h' : Trie.get t' x = some nd') : hasChild nd' k = hasChild nd k := by
  rw [← get_child t x k nd h, ← get_child t' x k nd' h', get_child_shallow, get_child_shallow, hs]

theorem isLeaf_of_shallow {a b : Option (Trie Nat)} (hs : shallow a = shallow b) {nd nd' : Trie Nat}
    (h : a = some nd) (h' : b = some nd') : isLeaf nd = isLeaf nd' := by
  subst h h'
  cases nd <;> cases nd' <;> simp [shallow] at hs <;> rfl

theorem isBranch_of_shallow {a b : Option (Trie Nat)} (hs : shallow a = shallow b) {nd nd' : Trie Nat}
    (h : a = some nd) (h' : b = some nd') : isBranch nd = isBranch nd' := by
  subst h h'
  cases nd <;> cases nd' <;> simp [shallow] at hs <;> rfl

end CX
end Gnmi

namespace Gnmi
namespace CX
open Trie CC

variable {n : Nat}

/-! ## how a transition changes the additional state -/

theorem eff_xt_other (v : Variant) (s : Cfg n) (l : Label n) (σ : Fin n) (h : σ ≠ l.tid) :
    (eff v s l).xt σ = s.xt σ := by
  cases l <;> simp only [Label.tid] at h <;> simp only [eff] <;> (repeat' split) <;>
    simp [updX, h]

theorem eff_b_xt (v : Variant) (s : Cfg n) (l : CC.Label n) :
    (eff v s (.b l)).xt l.tid =
      if isWAcq l then { s.xt l.tid with pend := none } else s.xt l.tid := by
  simp only [eff]
  split <;> simp [updX]

theorem base_thr_other {v : Variant} {s : Cfg n} {l : Label n} (σ : Fin n) (h : σ ≠ l.tid) :
    (baseAfter s l).thr σ = s.base.thr σ := by
  cases hl : baseLabel l with
  | none => rw [baseAfter_of_none hl]
  | some l' =>
    rw [baseAfter_of_label hl]
    exact eff_thr_other s.base l' σ (by rw [baseLabel_tid hl]; exact h)

/-- handles are never forgotten -/
theorem hs_mono (b : CC.Cfg n) (l : CC.Label n) (σ : Fin n) (h : Handle) (hh : h ∈ (b.thr σ).hs) :
    h ∈ ((CC.eff b l).thr σ).hs := by
  by_cases hσ : σ = l.tid
  · subst hσ
    unfold CC.eff
    rw [track_thr]
    cases l <;> simp only [CC.Label.tid] at hh ⊢ <;> simp only [eff0, termAt, addDone, pushR] <;>
      (repeat' split) <;> simp_all [setThr, addLog]
  · rw [eff_thr_other b l σ hσ]; exact hh

theorem issued_mono (b : CC.Cfg n) (l : CC.Label n) (h : Handle) (hi : issued b h = true) :
    issued (CC.eff b l) h = true := by
  simp only [issued, decide_eq_true_eq] at hi ⊢
  obtain ⟨σ, hσ⟩ := hi
  exact ⟨σ, hs_mono b l σ h hσ⟩

end CX
end Gnmi

namespace Gnmi
namespace CX
open Trie CC

variable {n : Nat}

/-! ## lock sites -/

/-- the four tree lock sites -/
inductive Site (rc : Bool) (b : CC.Cfg n) (τ : Fin n) (y : Path) : Prop where
  | termRoot (v : Nat) : (b.thr τ).pc = .start → (b.thr τ).call = .add [] v → y = [] → Site rc b τ y
  | delete (q : Path) (m : Option Nat) : (b.thr τ).pc = .start → (b.thr τ).call = .del q m → y = [] →
      Site rc b τ y
  | upgAcquire : (b.thr τ).pc = .window → y = (b.thr τ).cur → Site rc b τ y
  | termWrite (p : Path) (v : Nat) (f : Frame) (k : String) (nd : Trie Nat) :
      (b.thr τ).pc = .run → (b.thr τ).call = .add p v → (b.thr τ).top = some f →
      restAt (b.thr τ).call f.node = [k] → Trie.get b.trie f.node = some nd → hasChild nd k = true →
      (rc || f.mode == .R) = true → y = f.node ++ [k] → Site rc b τ y

theorem lockSite_cases {rc : Bool} {b : CC.Cfg n} {τ : Fin n} {y : Path}
    (h : lockSite rc b τ = some y) : Site rc b τ y := by
  unfold lockSite at h
  simp only at h
  split at h
  · rename_i hpc
    split at h
    · rename_i v hc; exact .termRoot v hpc hc (by simpa using h.symm)
    · rename_i q m hc; exact .delete q m hpc hc (by simpa using h.symm)
    · cases h
  · rename_i hpc; exact .upgAcquire hpc (by simpa using h.symm)
  · rename_i hpc
    split at h
    · rename_i p v f hc htop
      split at h
      · rename_i hm
        split at h
        · rename_i k nd hrest hget
          split at h
          · rename_i hch
            exact .termWrite p v f k nd hpc hc htop hrest hget hch hm (by simpa using h.symm)
          · cases h
        · cases h
      · cases h
    · cases h
  · cases h

theorem lockSite_of_site {rc : Bool} {b : CC.Cfg n} {τ : Fin n} {y : Path}
    (h : Site rc b τ y) : lockSite rc b τ = some y := by
  cases h with
  | termRoot v hpc hc hy => simp [lockSite, hpc, hc, hy]
  | delete q m hpc hc hy => simp [lockSite, hpc, hc, hy]
  | upgAcquire hpc hy => simp [lockSite, hpc, hy]
  | termWrite p v f k nd hpc hc htop hrest hget hch hm hy =>
    rw [hc] at hrest
    simp only [lockSite, hpc, hc, htop, hm, if_true, hrest, hget, hch, hy]

/-- the acquisition a lock site is followed by (`wOK` aside) -/
def siteLabel (b : CC.Cfg n) (τ : Fin n) : CC.Label n :=
  match (b.thr τ).pc, (b.thr τ).call with
  | .start, .del _ _ => .delete τ
  | .start, _ => .termRoot τ
  | .window, _ => .upgAcquire τ
  | _, _ => .termWrite τ

theorem siteLabel_tid (b : CC.Cfg n) (τ : Fin n) : (siteLabel b τ).tid = τ := by
  unfold siteLabel; split <;> rfl

theorem siteLabel_wacq (b : CC.Cfg n) (τ : Fin n) : isWAcq (siteLabel b τ) = true := by
  unfold siteLabel; split <;> rfl

theorem site_guard {rc : Bool} {b : CC.Cfg n} {τ : Fin n} {y : Path} (h : Site rc b τ y)
    (hw : wOK b τ y = true) : CC.guard rc b (siteLabel b τ) = true := by
  cases h with
  | termRoot v hpc hc hy => subst hy; simp [siteLabel, hpc, hc, CC.guard, hw]
  | delete q m hpc hc hy => subst hy; simp [siteLabel, hpc, hc, CC.guard, hw]
  | upgAcquire hpc hy => subst hy; simp [siteLabel, hpc, CC.guard, hw]
  | termWrite p v f k nd hpc hc htop hrest hget hch hm hy =>
    subst hy
    rw [hc] at hrest
    simp only [Bool.or_eq_true, beq_iff_eq] at hm
    simp only [siteLabel, hpc, CC.guard, hc, htop, hrest, hget, hch, hw, beq_self_eq_true,
      Bool.and_self, Bool.and_true, Bool.true_and, Bool.or_eq_true, beq_iff_eq]
    exact hm

/-- a thread at a lock site can do nothing but acquire -/
theorem site_own {rc : Bool} {b : CC.Cfg n} {l : CC.Label n} {y : Path} (h : Site rc b l.tid y)
    (hg : CC.guard rc b l = true) : isWAcq l = true := by
  cases l <;> simp only [isWAcq] <;> simp only [CC.Label.tid] at h
  all_goals
    exfalso
    cases h with
    | termRoot v hpc hc hy =>
      simp [CC.guard, hpc, hc, Thread.top] at hg <;> (try (split at hg <;> simp_all))
    | delete q m hpc hc hy =>
      simp [CC.guard, hpc, hc, Thread.top] at hg <;> (try (split at hg <;> simp_all))
    | upgAcquire hpc hy =>
      simp [CC.guard, hpc, Thread.top] at hg <;> (try (split at hg <;> simp_all))
    | termWrite p v f k nd hpc hc htop hrest hget hch hm hy =>
      rw [hc] at hrest
      cases nd <;> simp [CC.guard, hpc, hc, htop, hrest, hget, nextChild, isLeaf, hasChild] at hg hch <;>
        simp_all

end CX
end Gnmi

namespace Gnmi
namespace CX
open Trie CC

variable {n : Nat}

def isTreeWAcq : CC.Label n → Bool
  | .termRoot _ | .termWrite _ | .upgAcquire _ | .delete _ => true
  | _ => false

/-- an enabled tree write-lock acquisition is at a lock site whose node is free -/
theorem wacq_site {rc : Bool} {b : CC.Cfg n} {l : CC.Label n} (hg : CC.guard rc b l = true)
    (hw : isTreeWAcq l = true) : ∃ y, Site rc b l.tid y ∧ wOK b l.tid y = true := by
  cases l <;> simp only [isTreeWAcq] at hw <;> (try cases hw)
  · -- termRoot
    rename_i τ
    simp only [CC.guard, Bool.and_eq_true, beq_iff_eq] at hg
    obtain ⟨⟨hpc, hwk⟩, hg⟩ := hg
    split at hg
    · rename_i p v hc
      simp only [beq_iff_eq] at hg; subst hg
      exact ⟨[], .termRoot v hpc hc rfl, hwk⟩
    · cases hg
  · -- termWrite
    rename_i τ
    simp only [CC.guard, Bool.and_eq_true, beq_iff_eq] at hg
    obtain ⟨hpc, hg⟩ := hg
    split at hg
    · rename_i p v f hc htop
      simp only [Bool.and_eq_true] at hg
      obtain ⟨hm, hg⟩ := hg
      split at hg
      · rename_i k nd hrest hget
        simp only [Bool.and_eq_true] at hg
        exact ⟨f.node ++ [k], .termWrite p v f k nd hpc hc htop hrest hget hg.1 hm rfl, hg.2⟩
      · cases hg
    · cases hg
  · -- upgAcquire
    rename_i τ
    simp only [CC.guard, Bool.and_eq_true, beq_iff_eq] at hg
    exact ⟨_, .upgAcquire hg.1 rfl, hg.2⟩
  · -- delete
    rename_i τ
    simp only [CC.guard, Bool.and_eq_true, beq_iff_eq] at hg
    obtain ⟨⟨hpc, hwk⟩, hg⟩ := hg
    split at hg
    · rename_i q m hc
      exact ⟨[], .delete q m hpc hc rfl, hwk⟩
    · cases hg

/-- what is enabled for an idle thread -/
theorem guard_idle {rc : Bool} {b : CC.Cfg n} {l : CC.Label n} (hg : CC.guard rc b l = true)
    (hpc : (b.thr l.tid).pc = .idle) :
    (∃ c, l = .invoke l.tid c) ∨ (∃ h, l = .hval l.tid h) ∨ (∃ h w, l = .hupd l.tid h w) := by
  cases l <;> simp only [CC.Label.tid] at hpc ⊢
  case invoke τ c => exact Or.inl ⟨c, rfl⟩
  case hval τ h => exact Or.inr (Or.inl ⟨h, rfl⟩)
  case hupd τ h w => exact Or.inr (Or.inr ⟨h, w, rfl⟩)
  all_goals
    exfalso
    simp [CC.guard, hpc, Thread.top] at hg <;> (try (split at hg <;> simp_all))

/-- the lock site of a thread depends on the thread and on the own field of the node on top of
its lock stack only -/
theorem lockSite_congr {rc : Bool} {b b' : CC.Cfg n} {τ : Fin n} (ht : b'.thr τ = b.thr τ)
    (hs : ∀ f, (b.thr τ).top = some f →
      shallow (Trie.get b'.trie f.node) = shallow (Trie.get b.trie f.node))
    {y : Path} (h : lockSite rc b τ = some y) : lockSite rc b' τ = some y := by
  apply lockSite_of_site
  cases lockSite_cases h with
  | termRoot v hpc hc hy => exact .termRoot v (by rw [ht]; exact hpc) (by rw [ht]; exact hc) hy
  | delete q m hpc hc hy => exact .delete q m (by rw [ht]; exact hpc) (by rw [ht]; exact hc) hy
  | upgAcquire hpc hy => exact .upgAcquire (by rw [ht]; exact hpc) (by rw [ht]; exact hy)
  | termWrite p v f k nd hpc hc htop hrest hget hch hm hy =>
    have hsh := hs f htop
    have hsome : (Trie.get b'.trie f.node).isSome = true := by
      rw [isSome_of_shallow_eq hsh, hget]; rfl
    obtain ⟨nd', hget'⟩ := Option.isSome_iff_exists.1 hsome
    refine .termWrite p v f k nd' (by rw [ht]; exact hpc) (by rw [ht]; exact hc) (by rw [ht]; exact htop)
      (by rw [ht]; exact hrest) hget' ?_ hm hy
    rw [hasChild_of_shallow k hsh hget hget']; exact hch

/-- transitions that leave the shared trie alone -/
def quietLabel : CC.Label n → Bool
  | .invoke _ _ | .rlockRoot _ | .rlockChild _ | .upgRelease _ | .upgAcquire _ | .unlock _ | .ret _
  | .getHit _ | .getMiss _ => true
  | _ => false

set_option linter.unusedSimpArgs false in
theorem quiet_trie (b : CC.Cfg n) (l : CC.Label n) (h : quietLabel l = true) :
    (CC.eff b l).trie = b.trie := by
  unfold CC.eff
  rw [track_trie]
  cases l <;> simp only [quietLabel] at h <;> (try cases h) <;> simp only [eff0] <;>
    (repeat' split) <;> simp [setThr, addLog]

end CX
end Gnmi

namespace Gnmi
namespace CX
open Trie CC

variable {n : Nat}

/-! ## the additional invariant -/

structure XInv (v : Variant) (s : Cfg n) : Prop where
  nopIdle : ∀ τ, (s.xt τ).nop ≠ none → (s.base.thr τ).pc = .idle ∧ (s.xt τ).pend = none
  pendH : ∀ τ h w, (s.xt τ).pend = some (.handle h w) →
    (s.base.thr τ).pc = .idle ∧ issued s.base h = true
  pendT : ∀ τ y, (s.xt τ).pend = some (.tree y) → lockSite v.rc s.base τ = some y
  api : ∀ τ, (s.base.thr τ).pc ≠ .idle → apiOK (s.xt τ).api (s.base.thr τ).call = true
  chk : ∀ τ c, (s.xt τ).chk = some c → (s.base.thr τ).pc = .run → (s.xt τ).api.isRoot = true →
    c = isBranch s.base.trie
  chkNone : ∀ τ, (s.base.thr τ).pc = .start → (s.xt τ).chk = none
  noL2 : v.rv = false → ∀ τ o, (s.xt τ).nop = some o → o.pc ≠ .locked2

theorem xinv_init (v : Variant) : XInv v (init n) where
  nopIdle := by intro τ h; exact absurd rfl h
  pendH := by intro τ h w e; cases e
  pendT := by intro τ y e; cases e
  api := by intro τ h; exact absurd rfl h
  chk := by intro τ c e; cases e
  chkNone := by intro τ _; rfl
  noL2 := by intro _ τ o e; cases e

theorem lockSite_idle {rc : Bool} {b : CC.Cfg n} {τ : Fin n} (h : (b.thr τ).pc = .idle) :
    lockSite rc b τ = none := by
  simp [lockSite, h]

theorem isRoot_call {a : Api} {c : Call} (h : apiOK a c = true) (hr : a.isRoot = true) : c = .get [] := by
  cases a <;> simp [Api.isRoot] at hr <;> simpa [apiOK] using h

theorem isWalk_call {a : Api} {c : Call} (h : apiOK a c = true) (hr : a.isWalk = true) : c = .query [] := by
  cases a <;> simp [Api.isWalk] at hr <;> simpa [apiOK] using h

/-- base thread state of the acting thread after an X-only transition is unchanged -/
theorem baseAfter_xonly {s : Cfg n} {l : Label n} (h : baseLabel l = none) : baseAfter s l = s.base :=
  baseAfter_of_none h

theorem pcAfter_start {pc : PC} {l : CC.Label n} (h : pcAfter pc l = .start) :
    (∃ τ c, l = .invoke τ c) ∨ ((∃ τ, l = .unlock τ) ∧ pc = .start) := by
  cases l <;> simp [pcAfter] at h ⊢
  exact h

theorem pcAfter_run {pc : PC} {l : CC.Label n} (h : pcAfter pc l = .run) :
    (∃ τ, l = .rlockRoot τ) ∨ (∃ τ, l = .rlockChild τ) ∨ (∃ τ, l = .upgAcquire τ) ∨
    ((∃ τ, l = .unlock τ) ∧ pc = .run) := by
  cases l <;> simp [pcAfter] at h ⊢
  exact h

theorem unlock_pc {rc : Bool} {b : CC.Cfg n} {τ : Fin n} (hg : CC.guard rc b (.unlock τ) = true) :
    (b.thr τ).pc = .unwind ∨ (b.thr τ).pc = .run := by
  simp only [CC.guard] at hg
  split at hg
  · cases hg
  · simp only [Bool.or_eq_true, Bool.and_eq_true, beq_iff_eq] at hg
    rcases hg with h | h
    · exact Or.inl h
    · exact Or.inr h.1.1

end CX
end Gnmi

namespace Gnmi
namespace CX
open Trie CC

variable {n : Nat}

/-- what a (non-panicking) transition of thread `τ` leaves alone -/
structure StepFacts (s s' : Cfg n) (τ : Fin n) : Prop where
  xt : ∀ σ, σ ≠ τ → s'.xt σ = s.xt σ
  thr : ∀ σ, σ ≠ τ → s'.base.thr σ = s.base.thr σ
  fro : ∀ σ, σ ≠ τ → ∀ f ∈ (s.base.thr σ).stack,
    shallow (Trie.get s'.base.trie f.node) = shallow (Trie.get s.base.trie f.node)
  iss : ∀ h, issued s.base h = true → issued s'.base h = true

theorem step_facts {v : Variant} (hv : v.rc = true) {s : Cfg n} (hr : CC.Reach true s.base) {l : Label n}
    (hg : guard v s l = true) : StepFacts s (eff v s l) l.tid := by
  cases hl : baseLabel l with
  | none =>
    have hb : (eff v s l).base = s.base := by rw [eff_base, baseAfter_of_none hl]
    exact ⟨fun σ hσ => eff_xt_other v s l σ hσ, fun σ _ => by rw [hb], fun σ _ f _ => by rw [hb],
      fun h hh => by rw [hb]; exact hh⟩
  | some l' =>
    have hb : (eff v s l).base = CC.eff s.base l' := by rw [eff_base, baseAfter_of_label hl]
    have hg' : CC.guard true s.base l' = true := by have := guard_base hg hl; rwa [hv] at this
    have hst : CC.Step true s.base l' (CC.eff s.base l') := ⟨hg', rfl⟩
    have htid := baseLabel_tid hl
    refine ⟨fun σ hσ => eff_xt_other v s l σ hσ, fun σ hσ => ?_, fun σ hσ f hf => ?_, fun h hh => ?_⟩
    · rw [hb]; exact eff_thr_other s.base l' σ (by rw [htid]; exact hσ)
    · rw [hb]; exact (C10.frozen_ancestors hr hst σ (by rw [htid]; exact hσ) f hf).2.2
    · rw [hb]; exact issued_mono s.base l' h hh

theorem invoke_call (b : CC.Cfg n) (τ : Fin n) (c : Call) :
    ((CC.eff b (.invoke τ c)).thr τ).call = c ∧ ((CC.eff b (.invoke τ c)).thr τ).pc = .start := by
  simp only [CC.eff, track_thr, eff0]
  split <;> simp [setThr]

/-- root frame of a running root node operation -/
theorem root_frame {b : CC.Cfg n} (hi : Inv b) (h2 : Inv2 b) {τ : Fin n} (hpc : (b.thr τ).pc = .run)
    (hc : (b.thr τ).call = .get []) : ∃ g ∈ (b.thr τ).stack, g.node = [] := by
  rcases h2.runStack τ hpc with hq | hne
  · rw [hc] at hq; cases hq
  · exact chain_root _ hne (hi.chain τ)

theorem isBranch_root_frozen {t t' : Trie Nat}
    (h : shallow (Trie.get t' []) = shallow (Trie.get t [])) : isBranch t' = isBranch t :=
  isBranch_of_shallow h (by simp [Trie.get]) (by simp [Trie.get])

/-- the invariant, thread by thread -/
structure XOne (v : Variant) (s : Cfg n) (σ : Fin n) : Prop where
  nopIdle : (s.xt σ).nop ≠ none → (s.base.thr σ).pc = .idle ∧ (s.xt σ).pend = none
  pendH : ∀ h w, (s.xt σ).pend = some (.handle h w) → (s.base.thr σ).pc = .idle ∧ issued s.base h = true
  pendT : ∀ y, (s.xt σ).pend = some (.tree y) → lockSite v.rc s.base σ = some y
  api : (s.base.thr σ).pc ≠ .idle → apiOK (s.xt σ).api (s.base.thr σ).call = true
  chk : ∀ c, (s.xt σ).chk = some c → (s.base.thr σ).pc = .run → (s.xt σ).api.isRoot = true →
      c = isBranch s.base.trie
  chkNone : (s.base.thr σ).pc = .start → (s.xt σ).chk = none
  noL2 : v.rv = false → ∀ o, (s.xt σ).nop = some o → o.pc ≠ .locked2

theorem xone_of_inv {v : Variant} {s : Cfg n} (hx : XInv v s) (σ : Fin n) : XOne v s σ :=
  ⟨hx.nopIdle σ, hx.pendH σ, hx.pendT σ, hx.api σ, hx.chk σ, hx.chkNone σ, fun h => hx.noL2 h σ⟩

theorem inv_of_xone {v : Variant} {s : Cfg n} (h : ∀ σ, XOne v s σ) : XInv v s :=
  ⟨fun σ => (h σ).nopIdle, fun σ => (h σ).pendH, fun σ => (h σ).pendT, fun σ => (h σ).api,
   fun σ => (h σ).chk, fun σ => (h σ).chkNone, fun hrv σ => (h σ).noL2 hrv⟩

/-- the invariant for the threads that did not move -/
theorem xinv_other {v : Variant} {s s' : Cfg n} {τ : Fin n} (hi : Inv s.base) (h2 : Inv2 s.base)
    (hx : XInv v s) (hf : StepFacts s s' τ) (σ : Fin n) (hσ : σ ≠ τ) : XOne v s' σ := by
  constructor
  all_goals (try rw [hf.xt σ hσ]); (try rw [hf.thr σ hσ])
  · exact hx.nopIdle σ
  · intro h w hp
    exact ⟨(hx.pendH σ h w hp).1, hf.iss h (hx.pendH σ h w hp).2⟩
  · intro y hp
    exact lockSite_congr (hf.thr σ hσ) (fun f htop => hf.fro σ hσ f (mem_of_top htop)) (hx.pendT σ y hp)
  · exact hx.api σ
  · intro c hc hpc hroot
    have hcall := isRoot_call (hx.api σ (by rw [hpc]; simp)) hroot
    obtain ⟨g, hgm, hgn⟩ := root_frame hi h2 hpc hcall
    have := hf.fro σ hσ g hgm
    rw [hgn] at this
    rw [isBranch_root_frozen this]
    exact hx.chk σ c hc hpc hroot
  · exact hx.chkNone σ
  · exact fun hrv => hx.noL2 hrv σ

end CX
end Gnmi

namespace Gnmi
namespace CX
open Trie CC

variable {n : Nat}

theorem not_invoke_of_bguard {v : Variant} {s : Cfg n} {l : CC.Label n} (h : bguard v s l = true) :
    ∀ τ c, l ≠ .invoke τ c := by
  intro τ c e; subst e; simp [bguard] at h

theorem isInvokeQuery_of_not_invoke {l : CC.Label n} (h : ∀ τ c, l ≠ .invoke τ c) :
    isInvokeQuery l = false := by
  cases l <;> simp [isInvokeQuery]
  rename_i τ c
  exact absurd rfl (h τ c)

theorem guard_idle' {rc : Bool} {b : CC.Cfg n} {l : CC.Label n} (hg : CC.guard rc b l = true)
    (hpc : (b.thr l.tid).pc = .idle) :
    (∃ τ c, l = .invoke τ c) ∨ (∃ τ h, l = .hval τ h) ∨ (∃ τ h w, l = .hupd τ h w) := by
  rcases guard_idle hg hpc with ⟨c, e⟩ | ⟨h, e⟩ | ⟨h, w, e⟩
  · exact Or.inl ⟨_, c, e⟩
  · exact Or.inr (Or.inl ⟨_, h, e⟩)
  · exact Or.inr (Or.inr ⟨_, h, w, e⟩)

/-- the acting thread of a base transition is not inside a node operation -/
theorem b_nop_none {v : Variant} {s : Cfg n} {l : CC.Label n} (hx : XInv v s)
    (hg : CC.guard v.rc s.base l = true) (hb : bguard v s l = true) : (s.xt l.tid).nop = none := by
  cases hn : (s.xt l.tid).nop with
  | none => rfl
  | some o =>
    exfalso
    have hpc := (hx.nopIdle l.tid (by rw [hn]; simp)).1
    rcases guard_idle' hg hpc with ⟨τ, c, rfl⟩ | ⟨τ, h, rfl⟩ | ⟨τ, h, w, rfl⟩
    · simp [bguard] at hb
    · simp only [CC.Label.tid] at hn
      simp [bguard, xidle, hn] at hb
    · simp only [CC.Label.tid] at hn
      simp [bguard, hn] at hb

end CX
end Gnmi

namespace Gnmi
namespace CX
open Trie CC

variable {n : Nat}

/-- the invariant for the acting thread of a base transition -/
theorem xone_b {v : Variant} (hv : v.rc = true) {s : Cfg n} (hi : Inv s.base) (hx : XInv v s)
    {l : CC.Label n} (hg : CC.guard v.rc s.base l = true) (hb : bguard v s l = true) :
    XOne v (eff v s (.b l)) l.tid := by
  have hg' : CC.guard true s.base l = true := by rwa [hv] at hg
  have hst : CC.Step true s.base l (CC.eff s.base l) := ⟨hg', rfl⟩
  have hninv := not_invoke_of_bguard hb
  obtain ⟨hpc', hcall'⟩ := pc_call_after hst
  have hcall := hcall' (isInvokeQuery_of_not_invoke hninv) hninv
  have hnop := b_nop_none hx hg hb
  have hbase : (eff v s (.b l)).base = CC.eff s.base l := by rw [eff_base]; rfl
  have hxt := eff_b_xt v s l
  -- an idle thread that moves in the base LTS returns to idle at once
  have hidle : (s.base.thr l.tid).pc = .idle → ((CC.eff s.base l).thr l.tid).pc = .idle := by
    intro hpc
    rw [hpc', hpc]
    rcases guard_idle' hg hpc with ⟨τ, c, rfl⟩ | ⟨τ, h, rfl⟩ | ⟨τ, h, w, rfl⟩
    · exact absurd rfl (hninv τ c)
    · rfl
    · rfl
  constructor
  · -- nopIdle
    intro hne
    rw [hxt] at hne
    split at hne <;> exact absurd hnop hne
  · -- pendH
    intro h w hp
    rw [hxt] at hp
    split at hp
    · cases hp
    · rename_i hnw
      exfalso
      have hpc := (hx.pendH l.tid h w hp).1
      rcases guard_idle' hg hpc with ⟨τ, c, rfl⟩ | ⟨τ, h', rfl⟩ | ⟨τ, h', w', rfl⟩
      · exact absurd rfl (hninv τ c)
      · simp only [CC.Label.tid] at hp
        simp [bguard, xidle, hp] at hb
      · exact hnw rfl
  · -- pendT
    intro y hp
    rw [hxt] at hp
    split at hp
    · cases hp
    · rename_i hnw
      exact absurd (site_own (lockSite_cases (hx.pendT l.tid y hp)) hg) hnw
  · -- api
    intro hne
    rw [hbase] at hne ⊢
    have hpc : (s.base.thr l.tid).pc ≠ .idle := fun e => hne (hidle e)
    rw [hcall]
    have : (eff v s (.b l)).xt l.tid = s.xt l.tid ∨ (eff v s (.b l)).xt l.tid = { s.xt l.tid with pend := none } := by
      rw [hxt]; split <;> simp
    rcases this with e | e <;> rw [e] <;> exact hx.api l.tid hpc
  · -- chk
    intro c hc hrun hroot
    rw [hbase] at hrun ⊢
    have hc0 : (s.xt l.tid).chk = some c := by
      rw [hxt] at hc; split at hc <;> exact hc
    have hroot0 : (s.xt l.tid).api.isRoot = true := by
      rw [hxt] at hroot; split at hroot <;> exact hroot
    rw [hpc'] at hrun
    rcases pcAfter_run hrun with ⟨τ, rfl⟩ | ⟨τ, rfl⟩ | ⟨τ, rfl⟩ | ⟨⟨τ, rfl⟩, hpc⟩
    · -- rlockRoot: the thread was at `start`, where nothing is recorded
      exfalso
      simp only [CC.guard, Bool.and_eq_true, beq_iff_eq] at hg
      have := hx.chkNone τ hg.1.1
      simp only [CC.Label.tid] at hc0
      rw [this] at hc0; cases hc0
    · rw [quiet_trie _ _ rfl]
      simp only [CC.guard, Bool.and_eq_true, beq_iff_eq] at hg
      exact hx.chk τ c hc0 hg.1 hroot0
    · -- upgAcquire: not a root node operation
      exfalso
      simp only [CC.guard, Bool.and_eq_true, beq_iff_eq] at hg
      obtain ⟨p, w, hcl, _⟩ := (hi.win τ hg.1).call
      have := isRoot_call (hx.api τ (by rw [hg.1]; simp)) hroot0
      rw [hcl] at this; cases this
    · rw [quiet_trie _ _ rfl]
      exact hx.chk τ c hc0 hpc hroot0
  · -- chkNone
    intro hstart
    rw [hbase, hpc'] at hstart
    exfalso
    rcases pcAfter_start hstart with ⟨τ, c, rfl⟩ | ⟨⟨τ, rfl⟩, hpc⟩
    · exact absurd rfl (hninv τ c)
    · rcases unlock_pc hg with h | h <;> simp only [CC.Label.tid] at hpc <;> rw [hpc] at h <;> cases h
  · -- noL2
    intro _ o ho
    rw [hxt] at ho
    split at ho <;> simp only [hnop] at ho <;> cases ho

end CX
end Gnmi

namespace Gnmi
namespace CX
open Trie CC

variable {n : Nat}

/-- the invariant for the acting thread of the other transitions -/
theorem xone_x {v : Variant} {s : Cfg n} (hx : XInv v s) {l : Label n}
    (hl : ∀ l0, l ≠ .b l0) (hg : guard v s l = true) : XOne v (eff v s l) l.tid := by
  have h1 := xone_of_inv hx l.tid
  cases l with
  | b l0 => exact absurd rfl (hl l0)
  | call τ a c =>
    simp only [guard, Bool.and_eq_true, xidle, Option.isNone_iff_eq_none] at hg
    obtain ⟨⟨hcg, hnop, hpend⟩, hapi⟩ := hg
    obtain ⟨hcall, hpc⟩ := invoke_call s.base τ c
    constructor <;> simp only [eff, Label.tid, updX_base, updX_xt_self]
    · intro h; exact absurd hnop h
    · intro h w e; rw [hpend] at e; cases e
    · intro y e; rw [hpend] at e; cases e
    · intro _; rw [hcall]; exact hapi
    · intro c' e; cases e
    · intro _; trivial
    · intro _ o e; rw [hnop] at e; cases e
  | announce τ =>
    simp only [guard, Bool.and_eq_true, Option.isNone_iff_eq_none] at hg
    obtain ⟨⟨hpend, hnop⟩, hsite⟩ := hg
    constructor <;> simp only [eff, Label.tid, updX_base, updX_xt_self]
    · intro h; exact absurd hnop h
    · intro h w e; cases hs : lockSite v.rc s.base τ <;> simp [hs] at e
    · intro y e; cases hs : lockSite v.rc s.base τ <;> simp [hs] at e; rw [e]
    · exact h1.api
    · exact h1.chk
    · exact h1.chkNone
    · intro _ o e; rw [hnop] at e; cases e
  | announceH τ h w =>
    simp only [guard, Bool.and_eq_true, xidle, Option.isNone_iff_eq_none, beq_iff_eq] at hg
    obtain ⟨⟨hpc, hnop, hpend⟩, hiss⟩ := hg
    constructor <;> simp only [eff, Label.tid, updX_base, updX_xt_self]
    · intro hne; exact absurd hnop hne
    · intro h' w' e
      simp only [Option.some.injEq, Pend.handle.injEq] at e
      rw [← e.1]; exact ⟨hpc, hiss⟩
    · intro y e; cases e
    · exact h1.api
    · exact h1.chk
    · exact h1.chkNone
    · intro _ o e; rw [hnop] at e; cases e
  | rootCheck τ =>
    simp only [guard, Bool.and_eq_true, beq_iff_eq] at hg
    obtain ⟨⟨⟨_, hpc⟩, _⟩, _⟩ := hg
    constructor <;> simp only [eff, Label.tid, updX_base, updX_xt_self]
    · exact h1.nopIdle
    · exact h1.pendH
    · exact h1.pendT
    · exact h1.api
    · intro c e _ _; simp only [Option.some.injEq] at e; exact e.symm
    · intro e; rw [hpc] at e; cases e
    · exact h1.noL2
  | nBegin τ h k =>
    simp only [guard, Bool.and_eq_true, xidle, Option.isNone_iff_eq_none, beq_iff_eq] at hg
    obtain ⟨⟨hpc, hnop, hpend⟩, hiss⟩ := hg
    constructor <;> simp only [eff, Label.tid, updX_base, updX_xt_self]
    · intro _; exact ⟨hpc, hpend⟩
    · exact h1.pendH
    · exact h1.pendT
    · exact h1.api
    · exact h1.chk
    · exact h1.chkNone
    · intro _ o e; simp only [Option.some.injEq] at e; rw [← e]; simp
  | nRLock τ =>
    simp only [guard] at hg
    split at hg
    · rename_i o ho
      have := h1.nopIdle (by simp only [Label.tid]; rw [ho]; simp)
      constructor <;> simp only [eff, Label.tid, ho, updX_base, updX_xt_self]
      · intro _; exact this
      · exact h1.pendH
      · exact h1.pendT
      · exact h1.api
      · exact h1.chk
      · exact h1.chkNone
      · intro _ o' e; simp only [Option.some.injEq] at e; rw [← e]; simp
    · cases hg
  | nRLock2 τ =>
    simp only [guard, Bool.and_eq_true] at hg
    obtain ⟨hrv, hg⟩ := hg
    split at hg
    · rename_i o ho
      have := h1.nopIdle (by simp only [Label.tid]; rw [ho]; simp)
      constructor <;> simp only [eff, Label.tid, ho, updX_base, updX_xt_self]
      · intro _; exact this
      · exact h1.pendH
      · exact h1.pendT
      · exact h1.api
      · exact h1.chk
      · exact h1.chkNone
      · intro e; rw [hrv] at e; cases e
    · cases hg
  | nRUnlock τ =>
    simp only [guard] at hg
    split at hg
    · rename_i o ho
      constructor <;> simp only [eff, Label.tid, ho, updX_base, updX_xt_self]
      · intro h; exact absurd rfl h
      · exact h1.pendH
      · exact h1.pendT
      · exact h1.api
      · exact h1.chk
      · exact h1.chkNone
      · intro _ o' e; cases e
    · cases hg

theorem xinv_step {v : Variant} (hv : v.rc = true) {s s' : Cfg n} {l : Label n} (hr : Reach v s)
    (hx : XInv v s) (h : Step v s l s') : XInv v s' := by
  have hb : CC.Reach true s.base := by have := reach_base hr; rwa [hv] at this
  have hi := inv_reach hb
  have h2 := inv2_reach hb
  obtain ⟨_, ⟨_, rfl⟩ | ⟨_, hg, rfl⟩⟩ := next_some h
  · exact ⟨hx.nopIdle, hx.pendH, hx.pendT, hx.api, hx.chk, hx.chkNone, hx.noL2⟩
  · have hf := step_facts hv hb hg
    apply inv_of_xone
    intro σ
    by_cases hσ : σ = l.tid
    · subst hσ
      by_cases hl : ∃ l0, l = .b l0
      · obtain ⟨l0, rfl⟩ := hl
        simp only [guard, Bool.and_eq_true] at hg
        exact xone_b hv hi hx hg.1 hg.2
      · exact xone_x hx (fun l0 e => hl ⟨l0, e⟩) hg
    · exact xinv_other hi h2 hx hf σ hσ

theorem xinv_reach {v : Variant} (hv : v.rc = true) {s : Cfg n} (h : Reach v s) : XInv v s := by
  induction h with
  | init => exact xinv_init v
  | step hr hs ih => exact xinv_step hv hr ih hs

end CX
end Gnmi

namespace Gnmi
namespace CX
open Trie CC

variable {n : Nat}

/-! ## no panic condition holds in a reachable configuration -/

theorem not_vanished {b : CC.Cfg n} (hi : Inv b) (τ : Fin n) : vanished b τ = false := by
  unfold vanished
  cases hpc : ((b.thr τ).pc == .run) with
  | false => rfl
  | true =>
    simp only [Bool.true_and]
    split
    · rename_i f htop
      have := hi.ex τ f (mem_of_top htop)
      cases hg : Trie.get b.trie f.node with
      | none => rw [hg] at this; cases this
      | some nd => rfl
    · rfl

theorem not_childGone {b : CC.Cfg n} (h2 : Inv2 b) (τ : Fin n) : childGone b τ = false := by
  unfold childGone
  simp only
  cases hpc : ((b.thr τ).pc == .run) with
  | false => rfl
  | true =>
    simp only [Bool.true_and]
    split
    · rename_i q f hc htop
      split
      · rename_i k nd hk hget
        have hkm : k ∈ f.todo := by
          cases htd : f.todo with
          | nil => rw [htd] at hk; cases hk
          | cons a r => rw [htd] at hk; simp only [List.head?_cons, Option.some.injEq] at hk; rw [hk]; simp
        have := h2.todoOK τ f (mem_of_top htop) k hkm
        rw [← get_child_shallow, get_child _ _ _ _ hget] at this
        simp [this]
      · rfl
    · rfl

theorem not_badAssert {v : Variant} {s : Cfg n} (hx : XInv v s) (τ : Fin n) : badAssert s τ = false := by
  unfold badAssert
  cases ha : ((s.xt τ).api == .rootChildren) with
  | false => simp
  | true =>
    cases hpc : ((s.base.thr τ).pc == .run) with
    | false => simp
    | true =>
      cases hc : ((s.xt τ).chk == some true) with
      | false => simp
      | true =>
        simp only [beq_iff_eq] at ha hpc hc
        have := hx.chk τ true hc hpc (by rw [ha]; rfl)
        simp [← this]

theorem no_panic {v : Variant} (hv : v.rc = true) {s : Cfg n} (hr : Reach v s) (l : Label n) :
    panics v s l = false := by
  have hb : CC.Reach true s.base := by have := reach_base hr; rwa [hv] at this
  have hi := inv_reach hb
  have h2 := inv2_reach hb
  have hx := xinv_reach hv hr
  cases l with
  | b l0 =>
    cases l0 <;> simp only [panics, not_vanished hi, not_childGone h2, not_badAssert hx, hv,
      Bool.or_self, Bool.not_true, Bool.false_and, Bool.or_false]
  | _ => rfl

theorem panic_none {v : Variant} (hv : v.rc = true) {s : Cfg n} (hr : Reach v s) : s.panic = none := by
  induction hr with
  | init => rfl
  | step hr hs ih =>
    obtain ⟨_, ⟨hp, _⟩ | ⟨_, _, rfl⟩⟩ := next_some hs
    · rw [no_panic hv hr] at hp; cases hp
    · rw [eff_panic]; exact ih

/-- in a reachable configuration of the code as it is, a transition is enabled iff its guard holds -/
theorem next_of_guard {v : Variant} (hv : v.rc = true) {s : Cfg n} (hr : Reach v s) {l : Label n}
    (hg : guard v s l = true) : next v s l = some (eff v s l) := by
  simp [next, panic_none hv hr, no_panic hv hr, hg]

theorem guard_of_step {v : Variant} (hv : v.rc = true) {s s' : Cfg n} (hr : Reach v s) {l : Label n}
    (h : Step v s l s') : guard v s l = true ∧ s' = eff v s l := by
  obtain ⟨_, ⟨hp, _⟩ | ⟨_, hg, e⟩⟩ := next_some h
  · rw [no_panic hv hr] at hp; cases hp
  · exact ⟨hg, e⟩

end CX
end Gnmi

namespace Gnmi
namespace CX
open Trie CC

variable {n : Nat}

/-! ## progress under writer preference -/

/-- some thread with an unfinished operation has an enabled transition (not the start of a
new operation) -/
def CanMove (v : Variant) (s : Cfg n) : Prop :=
  ∃ l : Label n, busy s l.tid ∧ isStart l = false ∧ guard v s l = true

/-- some thread with an unfinished tree operation holds more than `d` locks -/
def Deeper (s : Cfg n) (d : Nat) : Prop := ∃ σ, (s.base.thr σ).pc ≠ .idle ∧ d < hgt s.base σ

theorem Deeper.mono {s : Cfg n} {d d' : Nat} (h : Deeper s d) (hle : d' ≤ d) : Deeper s d' := by
  obtain ⟨σ, h1, h2⟩ := h
  exact ⟨σ, h1, Nat.lt_of_le_of_lt hle h2⟩

theorem exists_of_decide_false {τ : Fin n} {f : Fin n → Bool}
    (h : decide (∀ σ : Fin n, σ ≠ τ → f σ = false) = false) : ∃ σ, σ ≠ τ ∧ f σ = true := by
  simp only [decide_eq_false_iff_not, Classical.not_forall, Bool.not_eq_false] at h
  obtain ⟨σ, h1, h2⟩ := h
  exact ⟨σ, h1, h2⟩

theorem reader_moves {s : Cfg n} (hx : XInv real s) {σ : Fin n} {o : NOp}
    (ho : (s.xt σ).nop = some o) (hpc : o.pc ≠ .want) : CanMove real s := by
  refine ⟨.nRUnlock σ, Or.inr (Or.inl (by simp only [Label.tid]; rw [ho]; simp)), rfl, ?_⟩
  have h2 := hx.noL2 rfl σ o ho
  simp only [guard, ho, real, Bool.false_and, Bool.false_eq_true, if_false, beq_iff_eq]
  cases h : o.pc with
  | want => exact absurd h hpc
  | locked => rfl
  | locked2 => exact absurd h h2

theorem noReader_false {s : Cfg n} (hx : XInv real s) {τ : Fin n} {x : Path}
    (h : noReader s τ x = false) : CanMove real s := by
  obtain ⟨σ, _, hr⟩ := exists_of_decide_false (f := fun σ => readsOn s σ x) h
  simp only [readsOn] at hr
  split at hr
  · rename_i o ho
    simp only [Bool.and_eq_true, bne_iff_ne, ne_eq] at hr
    exact reader_moves hx ho hr.2
  · cases hr

theorem noReaderH_false {s : Cfg n} (hx : XInv real s) {τ : Fin n} {h : Handle}
    (hh : noReaderH s τ h = false) : CanMove real s := by
  obtain ⟨σ, _, hr⟩ := exists_of_decide_false (f := fun σ => readsH s σ h) hh
  simp only [readsH] at hr
  split at hr
  · rename_i o ho
    simp only [Bool.and_eq_true, bne_iff_ne, ne_eq] at hr
    exact reader_moves hx ho hr.2
  · cases hr

/-- a thread with an announced `Leaf.Update` moves, or a reader of the node moves, or somebody
holds the (attached) node in the tree -/
theorem pendH_moves {s : Cfg n} (hi : Inv s.base) (hx : XInv real s) {σ : Fin n} {h : Handle} {w : Nat}
    (hp : (s.xt σ).pend = some (.handle h w)) :
    CanMove real s ∨ (attached s.base h = true ∧ Deeper s h.path.length) := by
  obtain ⟨hpc, hiss⟩ := hx.pendH σ h w hp
  have hnop : (s.xt σ).nop = none := by
    cases hn : (s.xt σ).nop with
    | none => rfl
    | some o =>
      have := (hx.nopIdle σ (by rw [hn]; simp)).2
      rw [hp] at this; cases this
  cases hnr : noReaderH s σ h with
  | false => exact Or.inl (noReaderH_false hx hnr)
  | true =>
    have hbg : bguard real s (.hupd σ h w) = true := by simp [bguard, hp, hnop, hnr]
    have hbusy : busy s σ := Or.inr (Or.inr (by rw [hp]; simp))
    cases hat : attached s.base h with
    | false =>
      exact Or.inl ⟨.b (.hupd σ h w), hbusy, rfl, by simp [guard, CC.guard, hpc, hiss, hat, hbg]⟩
    | true =>
      cases hw : wOK s.base σ h.path with
      | true =>
        exact Or.inl ⟨.b (.hupd σ h w), hbusy, rfl, by simp [guard, CC.guard, hpc, hiss, hat, hw, hbg]⟩
      | false => exact Or.inr ⟨rfl, blocked_w hi hw⟩

theorem site_hgt {rc : Bool} {b : CC.Cfg n} (hi : Inv b) {τ : Fin n} {y : Path} (h : Site rc b τ y) :
    hgt b τ = y.length := by
  cases h with
  | termRoot v hpc _ hy => simp [hgt, hi.idle τ (Or.inr hpc), hy]
  | delete q m hpc _ hy => simp [hgt, hi.idle τ (Or.inr hpc), hy]
  | upgAcquire hpc hy =>
    have := chain_top_len _ _ (hi.win τ hpc).chain
    simp only at this
    rw [hy, this]; rfl
  | termWrite p v f k nd hpc hc htop hrest hget hch hm hy =>
    obtain ⟨r, hst⟩ := stack_of_top htop
    have := chain_top_len r f (hst ▸ hi.chain τ)
    simp [hgt, hst, hy, this]

theorem pendTouches_false {s : Cfg n} (hi : Inv s.base) (hx : XInv real s) {τ : Fin n} {q : Path}
    (h : noPendTouched s τ q = false) : CanMove real s ∨ Deeper s 0 := by
  obtain ⟨σ, _, hr⟩ := exists_of_decide_false (f := fun σ => pendTouches s σ q) h
  simp only [pendTouches] at hr
  split at hr
  · rename_i hh w hp
    rcases pendH_moves hi hx hp with hm | ⟨_, hd⟩
    · exact Or.inl hm
    · exact Or.inr (hd.mono (Nat.zero_le _))
  · cases hr

/-- a thread with an announced tree `Lock()` moves, or a reader moves, or somebody holds the
node or something below it -/
theorem pendT_moves {s : Cfg n} (hi : Inv s.base) (hx : XInv real s) {σ : Fin n} {y : Path}
    (hp : (s.xt σ).pend = some (.tree y)) : CanMove real s ∨ Deeper s y.length := by
  have hls := hx.pendT σ y hp
  have hsite := lockSite_cases hls
  have hbusy : busy s σ := Or.inr (Or.inr (by rw [hp]; simp))
  cases hw : wOK s.base σ y with
  | false => exact Or.inr (blocked_w hi hw)
  | true =>
    have hcg := site_guard hsite hw
    cases hnr : noReader s σ y with
    | false => exact Or.inl (noReader_false hx hnr)
    | true =>
      have hwa : wAnnounced real s σ = true := by
        have hls' : lockSite true s.base σ = some y := hls
        simp only [wAnnounced]
        rw [show real.rc = true from rfl, hls', hp]
        simp [hnr]
      cases hsite with
      | termRoot v hpc hc hy =>
        refine Or.inl ⟨.b (.termRoot σ), hbusy, rfl, ?_⟩
        have : siteLabel s.base σ = .termRoot σ := by simp [siteLabel, hpc, hc]
        rw [this] at hcg
        simp only [guard, Bool.and_eq_true]; exact ⟨hcg, by simp [bguard, hwa]⟩
      | delete q m hpc hc hy =>
        have : siteLabel s.base σ = .delete σ := by simp [siteLabel, hpc, hc]
        rw [this] at hcg
        cases hnt : noPendTouched s σ q with
        | false =>
          rcases pendTouches_false hi hx hnt with h | h
          · exact Or.inl h
          · exact Or.inr (by rw [hy]; exact h)
        | true =>
          refine Or.inl ⟨.b (.delete σ), hbusy, rfl, ?_⟩
          simp only [guard, Bool.and_eq_true]; exact ⟨hcg, by simp [bguard, hwa, hc, hnt]⟩
      | upgAcquire hpc hy =>
        refine Or.inl ⟨.b (.upgAcquire σ), hbusy, rfl, ?_⟩
        have : siteLabel s.base σ = .upgAcquire σ := by simp [siteLabel, hpc]
        rw [this] at hcg
        simp only [guard, Bool.and_eq_true]; exact ⟨hcg, by simp [bguard, hwa]⟩
      | termWrite p v f k nd hpc hc htop hrest hget hch hm hy =>
        refine Or.inl ⟨.b (.termWrite σ), hbusy, rfl, ?_⟩
        have : siteLabel s.base σ = .termWrite σ := by simp [siteLabel, hpc]
        rw [this] at hcg
        simp only [guard, Bool.and_eq_true]; exact ⟨hcg, by simp [bguard, hwa]⟩

theorem noPend_false {s : Cfg n} (hi : Inv s.base) (hx : XInv real s) {τ : Fin n} {x : Path}
    (h : noPend s τ x = false) : CanMove real s ∨ Deeper s x.length := by
  obtain ⟨σ, _, hr⟩ := exists_of_decide_false (f := fun σ => pendOn s σ x) h
  simp only [pendOn] at hr
  split at hr
  · rename_i y hp
    simp only [beq_iff_eq] at hr; subst hr
    exact pendT_moves hi hx hp
  · rename_i hh w hp
    simp only [Bool.and_eq_true, beq_iff_eq] at hr
    rcases pendH_moves hi hx hp with hm | ⟨_, hd⟩
    · exact Or.inl hm
    · exact Or.inr (by rw [← hr.1]; exact hd)
  · cases hr

theorem noPendH_false {s : Cfg n} (hi : Inv s.base) (hx : XInv real s) {τ : Fin n} {h : Handle}
    (hh : noPendH s τ h = false) : CanMove real s ∨ Deeper s 0 := by
  obtain ⟨σ, _, hr⟩ := exists_of_decide_false (f := fun σ => pendOnH s σ h) hh
  simp only [pendOnH] at hr
  split at hr
  · rename_i y hp
    rcases pendT_moves hi hx hp with hm | hd
    · exact Or.inl hm
    · exact Or.inr (hd.mono (Nat.zero_le _))
  · rename_i h' w hp
    rcases pendH_moves hi hx hp with hm | ⟨_, hd⟩
    · exact Or.inl hm
    · exact Or.inr (hd.mono (Nat.zero_le _))
  · cases hr

end CX
end Gnmi

namespace Gnmi
namespace CX
open Trie CC

variable {n : Nat}

theorem nop_none_of_busy_base {s : Cfg n} (hx : XInv real s) {τ : Fin n}
    (hpc : (s.base.thr τ).pc ≠ .idle) : (s.xt τ).nop = none := by
  cases hn : (s.xt τ).nop with
  | none => rfl
  | some o => exact absurd (hx.nopIdle τ (by rw [hn]; simp)).1 hpc

/-- an enabled `CC` transition of a thread is enabled in `CX` too, or the thread can announce its
`Lock()`, or it is barred by an announced writer / a node reader, who can move or waits for
somebody deeper -/
theorem base_enabled_moves {s : Cfg n} (hi : Inv s.base) (hx : XInv real s) {l : CC.Label n}
    (hpc : (s.base.thr l.tid).pc ≠ .idle) (hg : CC.guard true s.base l = true) :
    CanMove real s ∨ Deeper s (hgt s.base l.tid) := by
  have hbusy : busy s l.tid := Or.inl hpc
  have hnop := nop_none_of_busy_base hx hpc
  -- transitions without an additional guard
  have plain : bguard real s l = true → isStart (.b l : Label n) = false → CanMove real s ∨ Deeper s (hgt s.base l.tid) :=
    fun hb hs => Or.inl ⟨.b l, hbusy, hs, by simp only [guard, Bool.and_eq_true]; exact ⟨hg, hb⟩⟩
  -- write-lock acquisitions
  have wacq : isTreeWAcq l = true → bguard real s l = wAnnounced real s l.tid ∨
      (∃ q m, (s.base.thr l.tid).call = .del q m ∧ l = .delete l.tid) →
      CanMove real s ∨ Deeper s (hgt s.base l.tid) := by
    intro hw hbg
    obtain ⟨y, hsite, hwok⟩ := wacq_site hg hw
    have hls := lockSite_of_site hsite
    rw [site_hgt hi hsite]
    cases hp : (s.xt l.tid).pend with
    | none =>
      exact Or.inl ⟨.announce l.tid, hbusy, rfl, by
        simp only [guard, Label.tid, hp, hnop, Option.isNone_none, Bool.true_and]
        rw [show real.rc = true from rfl, hls]; rfl⟩
    | some pd =>
      cases pd with
      | handle h w => exact absurd (hx.pendH l.tid h w hp).1 hpc
      | tree y' =>
        have := hx.pendT l.tid y' hp
        rw [show real.rc = true from rfl, hls] at this
        simp only [Option.some.injEq] at this; subst this
        exact pendT_moves hi hx hp
  cases l with
  | invoke τ c => simp [CC.guard] at hg; exact absurd hg hpc
  | hval τ h => simp [CC.guard] at hg; exact absurd hg.1.1 hpc
  | hupd τ h w => simp [CC.guard] at hg; exact absurd hg.1.1 hpc
  | clobber τ => simp [CC.guard] at hg
  | upgRelease τ => exact plain rfl rfl
  | insert τ => exact plain rfl rfl
  | getMiss τ => exact plain rfl rfl
  | unlock τ => exact plain rfl rfl
  | ret τ => exact plain rfl rfl
  | addErr τ => exact plain rfl rfl
  | termRoot τ => exact wacq rfl (Or.inl rfl)
  | termWrite τ => exact wacq rfl (Or.inl rfl)
  | upgAcquire τ => exact wacq rfl (Or.inl rfl)
  | delete τ =>
    simp only [CC.guard, Bool.and_eq_true, beq_iff_eq] at hg
    obtain ⟨_, hcall⟩ := hg
    split at hcall
    · rename_i q m hc
      exact wacq rfl (Or.inr ⟨q, m, hc, rfl⟩)
    · cases hcall
  | getHit τ =>
    cases hb : bguard real s (.getHit τ) with
    | true => exact plain hb rfl
    | false =>
      simp only [bguard, Bool.or_eq_false_iff, Bool.not_eq_false', Option.isSome_eq_false_iff,
        Option.isNone_iff_eq_none] at hb
      simp only [CC.guard, Bool.and_eq_true, beq_iff_eq] at hg
      obtain ⟨hrun, hg⟩ := hg
      have htop : (s.base.thr τ).top.isSome = true := by
        split at hg
        · rename_i p f hc htop; rw [htop]; rfl
        · cases hg
      exact Or.inl ⟨.rootCheck τ, hbusy, rfl, by simp [guard, hb.1, hb.2, hrun, htop]⟩
  | rlockRoot τ =>
    cases hb : bguard real s (.rlockRoot τ) with
    | true => exact plain hb rfl
    | false =>
      simp only [bguard] at hb
      rcases noPend_false hi hx hb with h | h
      · exact Or.inl h
      · exact Or.inr (h.mono (by
          simp only [CC.guard, Bool.and_eq_true, beq_iff_eq] at hg
          have := hi.idle τ (Or.inr hg.1.1)
          simp only [hgt, CC.Label.tid, this]; exact Nat.le_refl _))
  | rlockChild τ =>
    cases hb : bguard real s (.rlockChild τ) with
    | true => exact plain hb rfl
    | false =>
      simp only [CC.guard, Bool.and_eq_true, beq_iff_eq] at hg
      obtain ⟨_, hg⟩ := hg
      split at hg
      · cases hg
      · rename_i f htop
        simp only [Bool.and_eq_true] at hg
        obtain ⟨_, hg⟩ := hg
        split at hg
        · rename_i k nd hk hget
          simp only [bguard, htop, hk] at hb
          rcases noPend_false hi hx hb with h | h
          · exact Or.inl h
          · refine Or.inr (h.mono ?_)
            obtain ⟨r, hst⟩ := stack_of_top htop
            have := chain_top_len r f (hst ▸ hi.chain τ)
            simp [hgt, CC.Label.tid, hst, this]
        · cases hg

/-- a thread with an unfinished operation can move, or somebody else with an unfinished
operation can, or it waits for a thread that holds strictly more tree locks -/
theorem busy_moves {s : Cfg n} (hi : Inv s.base) (h2 : Inv2 s.base) (hx : XInv real s) (τ : Fin n)
    (hb : busy s τ) : CanMove real s ∨ Deeper s (hgt s.base τ) := by
  by_cases hpc : (s.base.thr τ).pc = .idle
  · have h0 : hgt s.base τ = 0 := by simp [hgt, hi.idle τ (Or.inl hpc)]
    rw [h0]
    cases hn : (s.xt τ).nop with
    | some o =>
      by_cases hw : o.pc = .want
      · cases hph : noPendH s τ o.h with
        | false => exact noPendH_false hi hx hph
        | true =>
          cases hat : attached s.base o.h with
          | false =>
            exact Or.inl ⟨.nRLock τ, Or.inr (Or.inl (by simp only [Label.tid]; rw [hn]; simp)), rfl,
              by simp [guard, hn, hw, hat, hph]⟩
          | true =>
            cases hr : rOK s.base τ o.h.path with
            | true =>
              exact Or.inl ⟨.nRLock τ, Or.inr (Or.inl (by simp only [Label.tid]; rw [hn]; simp)), rfl,
                by simp [guard, hn, hw, hat, hph, hr]⟩
            | false => exact Or.inr ((show Deeper s o.h.path.length from blocked_r hi hr).mono (Nat.zero_le _))
      · exact Or.inl (reader_moves hx hn hw)
    | none =>
      cases hp : (s.xt τ).pend with
      | none =>
        rcases hb with h | h | h
        · exact absurd hpc h
        · exact absurd hn h
        · exact absurd hp h
      | some pd =>
        cases pd with
        | tree y =>
          have := hx.pendT τ y hp
          rw [lockSite_idle hpc] at this; cases this
        | handle h w =>
          rcases pendH_moves hi hx hp with hm | ⟨_, hd⟩
          · exact Or.inl hm
          · exact Or.inr (hd.mono (Nat.zero_le _))
  · rcases progress_or_blocked hi h2 τ hpc with ⟨l, rfl, hg⟩ | ⟨σ, hσ, hlt⟩
    · exact base_enabled_moves hi hx hpc hg
    · exact Or.inr ⟨σ, hσ, hlt⟩

/-- some thread with an unfinished operation can always move -/
theorem xprogress {s : Cfg n} (hi : Inv s.base) (h2 : Inv2 s.base) (hx : XInv real s) (τ : Fin n)
    (hb : busy s τ) : CanMove real s := by
  let B := ((List.finRange n).map (hgt s.base)).sum
  have hB : ∀ σ, hgt s.base σ ≤ B := fun σ => le_sum_of_mem (hgt s.base) _ σ (List.mem_finRange σ)
  suffices ∀ d τ, busy s τ → B - hgt s.base τ ≤ d → CanMove real s from this _ τ hb (Nat.le_refl _)
  intro d
  induction d with
  | zero =>
    intro τ hb hd
    rcases busy_moves hi h2 hx τ hb with h | ⟨σ, _, hlt⟩
    · exact h
    · have := hB σ; have := hB τ; omega
  | succ d ih =>
    intro τ hb hd
    rcases busy_moves hi h2 hx τ hb with h | ⟨σ, hσ, hlt⟩
    · exact h
    · exact ih σ (Or.inl hσ) (by have := hB σ; omega)

end CX
end Gnmi

namespace Gnmi
namespace CX
open Trie CC

variable {n : Nat}

/-! ## stuck configurations, decidably -/

/-- the transitions (other than starts of new operations) that can possibly be enabled -/
def cands (s : Cfg n) : List (Label n) :=
  (List.finRange n).flatMap fun τ =>
    [.announce τ, .rootCheck τ, .nRLock τ, .nRLock2 τ, .nRUnlock τ,
     .b (.rlockRoot τ), .b (.rlockChild τ), .b (.termRoot τ), .b (.termWrite τ), .b (.upgRelease τ),
     .b (.upgAcquire τ), .b (.insert τ), .b (.clobber τ), .b (.addErr τ), .b (.getHit τ),
     .b (.getMiss τ), .b (.unlock τ), .b (.delete τ), .b (.ret τ)] ++
    (match (s.xt τ).pend with
     | some (.handle h w) => [.b (.hupd τ h w)]
     | _ => [])

theorem mem_cands {v : Variant} {s : Cfg n} {l : Label n} (hs : isStart l = false)
    (h : guard v s l = true ∨ panics v s l = true) : l ∈ cands s := by
  simp only [cands, List.mem_flatMap, List.mem_finRange, true_and]
  refine ⟨l.tid, ?_⟩
  cases l with
  | call τ a c => cases hs
  | announceH τ h w => cases hs
  | nBegin τ h k => cases hs
  | b l0 =>
    cases l0 with
    | invoke τ c => rcases h with h | h <;> simp [guard, bguard, panics] at h
    | hval τ h => cases hs
    | hupd τ h' w =>
      rcases h with h | h
      · simp only [guard, bguard, Bool.and_eq_true, beq_iff_eq] at h
        simp [Label.tid, CC.Label.tid, h.2.1.1]
      · simp [panics] at h
    | _ => simp [Label.tid, CC.Label.tid]
  | _ => simp [Label.tid]

/-- nothing but the start of a new operation is enabled -/
def Stuck (v : Variant) (s : Cfg n) : Prop := ∀ l : Label n, isStart l = false → next v s l = none

theorem stuck_of_cands {v : Variant} {s : Cfg n}
    (h : (cands s).all (fun l => (next v s l).isNone) = true) : Stuck v s := by
  intro l hs
  cases hn : next v s l with
  | none => rfl
  | some s' =>
    exfalso
    obtain ⟨_, ⟨hp, _⟩ | ⟨_, hg, _⟩⟩ := next_some hn
    · have := List.all_eq_true.1 h l (mem_cands hs (Or.inr hp))
      rw [hn] at this; cases this
    · have := List.all_eq_true.1 h l (mem_cands (v := v) hs (Or.inl hg))
      rw [hn] at this; cases this

end CX
end Gnmi

namespace Gnmi
namespace CX
open Trie CC

variable {n : Nat}

/-! ## persistence of enabled non-lock transitions -/

theorem node_congr {t t' : Trie Nat} {x : Path} {nd : Trie Nat}
    (hs : shallow (Trie.get t' x) = shallow (Trie.get t x)) (h : Trie.get t x = some nd) :
    ∃ nd', Trie.get t' x = some nd' ∧ isLeaf nd' = isLeaf nd ∧ ∀ k, hasChild nd' k = hasChild nd k := by
  have hsome : (Trie.get t' x).isSome = true := by rw [isSome_of_shallow_eq hs, h]; rfl
  obtain ⟨nd', h'⟩ := Option.isSome_iff_exists.1 hsome
  exact ⟨nd', h', isLeaf_of_shallow hs h' h, fun k => hasChild_of_shallow k hs h h'⟩

/-- `CC` transitions that take no lock -/
def isLocalB : CC.Label n → Bool
  | .upgRelease _ | .insert _ | .addErr _ | .getHit _ | .getMiss _ | .unlock _ | .ret _ => true
  | _ => false

/-- `CX` transitions that take no lock and do not start an operation -/
def isLocal : Label n → Bool
  | .b l => isLocalB l
  | .announce _ | .rootCheck _ | .nRUnlock _ => true
  | _ => false

theorem guard_local_congr {b b' : CC.Cfg n} {l : CC.Label n} (hl : isLocalB l = true)
    (ht : b'.thr l.tid = b.thr l.tid)
    (hs : ∀ f, (b.thr l.tid).top = some f →
      shallow (Trie.get b'.trie f.node) = shallow (Trie.get b.trie f.node))
    (hg : CC.guard true b l = true) : CC.guard true b' l = true := by
  cases l <;> simp only [isLocalB] at hl <;> (try cases hl) <;> simp only [CC.Label.tid] at ht hs
  case getHit τ => simpa only [CC.guard, ht] using hg
  case unlock τ => simpa only [CC.guard, ht] using hg
  case ret τ => simpa only [CC.guard, ht] using hg
  all_goals
    rename_i τ
    simp only [CC.guard, ht] at hg ⊢
    simp only [Bool.and_eq_true] at hg ⊢
    refine ⟨hg.1, ?_⟩
    have hg := hg.2
    split at hg
    · rename_i p v f hc htop
      simp only [hc, htop]
      have hsh := hs f htop
      first
      | (simp only [Bool.and_eq_true] at hg ⊢
         refine ⟨hg.1, ?_⟩
         have hg := hg.2
         split at hg
         · rename_i k r nd hrest hget
           obtain ⟨nd', hget', hleaf, hch⟩ := node_congr hsh hget
           rw [hc] at hrest
           rw [hrest, hget']
           simp only [hleaf, hch]; exact hg
         · cases hg)
      | (split at hg
         · rename_i k r nd hrest hget
           obtain ⟨nd', hget', hleaf, hch⟩ := node_congr hsh hget
           rw [hc] at hrest
           rw [hrest, hget']
           simp only [hleaf, hch]; exact hg
         · cases hg)
    · cases hg

end CX
end Gnmi
