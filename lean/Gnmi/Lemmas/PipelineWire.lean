import Gnmi.Model.PipelineWire
import Gnmi.Props.C12Wire
import Gnmi.Lemmas.PipelineRestart
/-!
# The collector pipeline on protobuf-shaped messages (property C01): lemmas

`Model/PipelineWire.lean` assembles the run of the collector pipeline **at wire level** (`PW.wrun`,
`PW.wrunR`: decoded `RX.Response`s through `Wire.mgrRecv … .collector` = `manager.handleGNMIUpdate` +
the collector's `Update` closure stamping the protobuf prefix + `Cache.GnmiUpdate` on the message,
then the feed and the Subscribe server of `Model/Pipeline.lean`).  This file proves that it *is* the
index-form run on the `Wire.toNoti`-translated responses (`wstep_eq`, `wrun_eq`, `wrunR_eq`), that
the index-form final view is the image of the wire-level one (`absView_wfinalView`), and that the
client's decode of a protobuf-shaped value commutes with the translation (`value_decode_commutes`,
`path_decode_commutes`).  The property statements are in `Props/C01Wire.lean`.

Two hypotheses, both about things the index form cannot see:

* `Response.wireValid` (as in C12): what `proto.Unmarshal` can produce.  Outside it the collector
  closure dereferences a nil notification / the cache a nil update entry (a panic the index form
  has no counterpart for).
* `TailOK enc p` for the non-nil prefixes `p` of the run: the index-form model re-assembles the raw
  rendering of a stamped prefix from the old rendering with `String.splitOn ";"`
  (`Pipeline.rawTail`); this says the split finds the `e=…` / `l=…` halves, i.e. `enc` never emits
  `;` — true of the driver's percent-encoder (and evaluated by the `e2ew` driver on every prefix of
  every scenario: `tailOKb`, `tailOK_of_b`), not provable here for want of any lemma about the legacy
  `String.splitOn` in core.  Not needed for prefix-less notifications (`tailOK_none`).

The cache state must be well formed (`Cache.SInv`: true from `Sys.start` on, `sinv_run`): `mgrRecv`
models the panic a `cache.Sync` on a corrupted target would reach, `Pipeline.callback` does not.
-/
namespace Gnmi
namespace PW
open Gnmi.PV (GPath PathElem TV FloatOps Bytes toStrings getOrigin)
open Gnmi.RX (Notification Update Response Outcome)
open Gnmi.Cache (Noti Upd Del Val State Res Event SInv step_sinv)
open Gnmi.Wire
open Gnmi.Pipeline
open Gnmi.Relay (View)

variable {F D : Type} [FloatBits F D]

/-! ## 2. hypotheses -/

/-- `Pipeline.rawTail` finds the element half of the rendering of prefix `p` -/
def TailOK (enc : String → String) : Option GPath → Prop
  | none => True
  | some p => Pipeline.rawTail (rawPath enc (some p)) = tailOf enc p

theorem tailOK_none (enc : String → String) : TailOK enc none := trivial

/-- the Boolean form the `e2ew` driver evaluates on every prefix of every scenario (with the
percent-encoder `encStr`): a violation shows in the spec column -/
theorem tailOK_of_b (enc : String → String) (p : Option GPath) (h : tailOKb enc p = true) : TailOK enc p := by
  cases p with
  | none => trivial
  | some q => exact eq_of_beq h

def RespOK (enc : String → String) : Response F D → Prop
  | .update (some n) => n.wireValid = true ∧ TailOK enc n.pfx
  | r => r.wireValid = true

def WStep.ok (enc : String → String) : WStep F D → Prop
  | .recv _ _ _ r => RespOK enc r
  | .subscribe _ _ _ => True

def WStepR.ok (enc : String → String) : WStepR F D → Prop
  | .step st => st.ok enc
  | _ => True

/-! ## 3. stamping: the protobuf prefix and the index form agree, raw rendering included -/

theorem rawField_eq (enc : String → String) (s : String) : Wire.rawField enc s = Pipeline.rawField enc s := rfl

/-- **the translation commutes with the collector's target stamping — exactly**, given `TailOK` -/
theorem toNoti_stamp_exact (enc : String → String) (target : String) (n : Notification F D)
    (ht : TailOK enc n.pfx) :
    toNoti enc (stampWire target n) = (false, Pipeline.stampTarget enc target (toNoti enc n).1 (toNoti enc n).2) := by
  obtain ⟨h1, h2⟩ := C12W.toNoti_stamp enc target n
  have hp : rawPath enc (stampWire target n).pfx =
      (Pipeline.stampTarget enc target (toNoti enc n).1 (toNoti enc n).2).praw := by
    unfold stampWire Pipeline.stampTarget toNoti
    cases h : n.pfx with
    | none =>
      simp only [Option.isNone_none, if_true]
      exact C12W.toNoti_stamp_praw_nil enc target
    | some p =>
      rw [h] at ht
      simp only [Option.isNone_some, Bool.false_eq_true, if_false, getOrigin]
      have ht' : Pipeline.rawTail (rawPath enc (some p)) = tailOf enc p := ht
      rw [ht']
      simp only [rawPath, Pipeline.stampRaw, tailOf, rawField_eq, String.append_assoc, Pipeline.defaultOrigin,
        Wire.defaultOrigin]
      rfl
  have : (toNoti enc (stampWire target n)) = ((toNoti enc (stampWire target n)).1, (toNoti enc (stampWire target n)).2) := rfl
  rw [this, h1, h2, hp]

/-! ## 4. `Cache.SInv` along a run -/

theorem sinv_connect (enc : String → String) (now : Int) (s : Sys) (name : String) (h : SInv s.sub.cache) :
    SInv (s.connect enc now name).sub.cache := by
  unfold Sys.connect
  split
  · exact h
  · exact (step_sinv enc s.sub.cache (.connect name now) h trivial).1

theorem sinv_deliver (enc : String → String) (now : Int) (s : Sys) (call : MCall) (h : SInv s.sub.cache) :
    SInv (s.deliver enc now call).sub.cache := by
  unfold Sys.deliver
  split
  · exact h
  · simp only []
    split
    · exact h
    · cases call with
      | update name pn n => exact (step_sinv enc s.sub.cache (.update now false (stampTarget enc name pn n)) h trivial).1
      | sync name => exact (step_sinv enc s.sub.cache (.sync name now) h trivial).1
      | logged => exact h

theorem sinv_step (enc : String → String) (s : Sys) (st : Step) (h : SInv s.sub.cache) :
    SInv (s.step enc st).sub.cache := by
  cases st with
  | recv name first now it =>
    simp only [Sys.step, Sys.recv]
    apply sinv_deliver
    split
    · exact sinv_connect enc now s name h
    · exact h
  | subscribe id target queries =>
    simp only [Sys.step]
    split
    · exact h
    · show SInv (Sub.subscribe s.sub id .absent _).cache
      rw [Relay.subscribe_cache]; exact h

theorem sinv_stepR (enc : String → String) (s : Sys) (st : StepR) (h : SInv s.sub.cache) :
    SInv (s.stepR enc st).sub.cache := by
  cases st with
  | step st0 => exact sinv_step enc s st0 h
  | reset name now =>
    simp only [Sys.stepR, Sys.reset]
    split
    · exact h
    · exact (step_sinv enc s.sub.cache (.reset name now) h trivial).1
  | connectError name msg now =>
    simp only [Sys.stepR, Sys.connectError]
    split
    · exact h
    · exact (step_sinv enc s.sub.cache (.connectError name msg now) h trivial).1

theorem sinv_runR (enc : String → String) : ∀ (steps : List StepR) (s : Sys), SInv s.sub.cache →
    SInv (s.runR enc steps).sub.cache
  | [], _, h => h
  | st :: r, s, h => sinv_runR enc r _ (sinv_stepR enc s st h)

theorem sinv_run (enc : String → String) (steps : List Step) (s : Sys) (h : SInv s.sub.cache) :
    SInv (s.run enc steps).sub.cache := by
  rw [← Sys.runR_lift]; exact sinv_runR enc _ s h

/-! ## 5. one response: the wire-level callback is the index-form callback on the translation -/

theorem wdeliver_eq (enc : String → String) (now : Int) (s : Sys) (name : String) (r : Response F D)
    (hs : SInv s.sub.cache) (hr : RespOK enc r) :
    wdeliver enc now s name r = s.deliver enc now (handleGNMIUpdate name (toItem enc r)) := by
  unfold wdeliver Sys.deliver
  by_cases hc : s.crashed = true
  · simp [hc]
  · simp only [hc, if_false]
    cases r with
    | nilMsg => simp [RespOK, Response.wireValid] at hr
    | unset => rfl
    | error p => rfl
    | sync b =>
      have hp : syncPanics enc s.sub.cache name now = false := by
        rw [C12W.syncPanics_eq]; exact C12.panics_false enc _ _ hs
      simp only [mgrRecv, RX.handleGNMIUpdate, hp, Bool.false_eq_true, if_false, toItem,
        Pipeline.handleGNMIUpdate, callback]
      rfl
    | update n =>
      cases n with
      | none => simp [RespOK, Response.wireValid] at hr
      | some n =>
        obtain ⟨hw, ht⟩ := hr
        rw [C12W.mgrRecv_update]
        simp only [toItem, Pipeline.handleGNMIUpdate, callback, updateClosure]
        unfold C12W.mgrUpdate
        have hw' : (stampWire name n).wireValid = true := by rw [C12W.stampWire_wireValid]; exact hw
        rw [C12W.wireGnmiUpdate_wireValid enc _ now _ hw', toNoti_stamp_exact enc name n ht]
        simp only []
        by_cases hp : (s.sub.cache.gnmiUpdate now false
            (stampTarget enc name (toNoti enc n).1 (toNoti enc n).2)).1 = Res.panic
        · simp only [hp, if_true]
        · simp only [hp, if_false]

theorem wrecv_eq (enc : String → String) (now : Int) (s : Sys) (name : String) (first : Bool) (r : Response F D)
    (hs : SInv s.sub.cache) (hr : RespOK enc r) :
    wrecv enc now s name first r = s.recv enc now name first (toItem enc r) := by
  unfold wrecv Sys.recv
  apply wdeliver_eq enc now _ name r _ hr
  split
  · exact sinv_connect enc now s name hs
  · exact hs

theorem wstep_eq (enc : String → String) (s : Sys) (st : WStep F D) (hs : SInv s.sub.cache) (hok : st.ok enc) :
    wstep enc s st = s.step enc (st.toStep enc) := by
  cases st with
  | recv name first now r => exact wrecv_eq enc now s name first r hs hok
  | subscribe id target queries => rfl

theorem wstepR_eq (enc : String → String) (s : Sys) (st : WStepR F D) (hs : SInv s.sub.cache) (hok : st.ok enc) :
    wstepR enc s st = s.stepR enc (st.toStepR enc) := by
  cases st with
  | step st0 => exact wstep_eq enc s st0 hs hok
  | reset name now => rfl
  | connectError name msg now => rfl

theorem wrunR_eq (enc : String → String) : ∀ (steps : List (WStepR F D)) (s : Sys), SInv s.sub.cache →
    (∀ st ∈ steps, st.ok enc) → wrunR enc s steps = s.runR enc (steps.map (WStepR.toStepR enc))
  | [], _, _, _ => rfl
  | st :: r, s, hs, hok => by
    have h1 := wstepR_eq enc s st hs (hok st List.mem_cons_self)
    show wrunR enc (wstepR enc s st) r = Sys.runR enc (s.stepR enc (st.toStepR enc)) (r.map (WStepR.toStepR enc))
    rw [h1]
    exact wrunR_eq enc r _ (sinv_stepR enc s _ hs) (fun x hx => hok x (List.mem_cons_of_mem _ hx))

theorem wrun_eq (enc : String → String) : ∀ (steps : List (WStep F D)) (s : Sys), SInv s.sub.cache →
    (∀ st ∈ steps, st.ok enc) → wrun enc s steps = s.run enc (steps.map (WStep.toStep enc))
  | [], _, _, _ => rfl
  | st :: r, s, hs, hok => by
    have h1 := wstep_eq enc s st hs (hok st List.mem_cons_self)
    show wrun enc (wstep enc s st) r = Sys.run enc (s.step enc (st.toStep enc)) (r.map (WStep.toStep enc))
    rw [h1]
    exact wrun_eq enc r _ (sinv_step enc s _ hs) (fun x hx => hok x (List.mem_cons_of_mem _ hx))

/-! ### evaluation aid: an update response whose stamped translation is known -/

/-- the wire-level callback on a WireValid update, given the translation of the stamped message
(no `TailOK`, no `SInv`: this *is* what `mgrRecv` computes) -/
theorem wdeliver_stamped (enc : String → String) (now : Int) (s : Sys) (name : String) (n : Notification F D)
    (hw : n.wireValid = true) (N : Noti) (hN : toNoti enc (stampWire name n) = (false, N)) :
    wdeliver enc now s name (.update (some n)) = deliverStamped now s N := by
  unfold wdeliver deliverStamped
  by_cases hc : s.crashed = true
  · simp [hc]
  · simp only [hc]
    rw [C12W.mgrRecv_update]
    unfold C12W.mgrUpdate
    have hw' : (stampWire name n).wireValid = true := by rw [C12W.stampWire_wireValid]; exact hw
    rw [C12W.wireGnmiUpdate_wireValid enc _ now _ hw', hN]
    simp only []
    by_cases hp : (s.sub.cache.gnmiUpdate now false N).1 = Res.panic
    · simp only [hp, if_true]
    · simp only [hp, if_false]

/-- `mergeSort` of two elements (what `decide` cannot unfold) -/
theorem mergeSort_pair {α : Type} (le : α → α → Bool) (a b : α) :
    [a, b].mergeSort le = if le a b then [a, b] else [b, a] := by
  simp [List.mergeSort, List.merge]

/-! ## 6. the target's state in wire terms (`PW.wfinalView`, `Model/PipelineWire.lean`) -/

theorem keyOf_toNoti (enc : String → String) (n : Notification F D) (p : Path) :
    Relay.keyOf (toNoti enc n).1 (toNoti enc n).2 p = originOr (getOrigin n.pfx) :: (toStrings n.pfx false ++ p) := by
  unfold Relay.keyOf Relay.originOf toNoti originOr
  cases h : n.pfx with
  | none => simp [getOrigin, toStrings]
  | some q => simp

theorem toUpd_path (enc : String → String) (u : Option (Update F D)) :
    (toUpd enc u).path = toStrings (updPath u) false := by
  cases u <;> rfl

theorem toUpd_val (enc : String → String) (u : Option (Update F D)) : (toUpd enc u).val = toVal enc (updTV u) := by
  cases u <;> rfl

theorem absView_set (enc : String → String) (v : WView F D) (k : Path) (ts : Int) (tv : TV F D) :
    absView enc (v.set k ts tv) = (absView enc v).set k ts (toVal enc tv) := by
  unfold absView WView.set Relay.View.set
  simp only [List.map_cons, List.filter_map]
  rfl

theorem absView_remove (enc : String → String) (v : WView F D) (q : Path) :
    absView enc (v.remove q) = (absView enc v).remove q := by
  unfold absView WView.remove Relay.View.remove
  simp only [List.filter_map]
  rfl

theorem absView_updates (enc : String → String) (n : Notification F D) :
    ∀ (us : List (Option (Update F D))) (v : WView F D),
      absView enc (wapplyUpdates n us v) =
        Relay.applyUpdates (toNoti enc n).1 (toNoti enc n).2 (us.map (toUpd enc)) (absView enc v)
  | [], _ => rfl
  | u :: us, v => by
    simp only [wapplyUpdates, List.map_cons, Relay.applyUpdates]
    rw [absView_updates enc n us, absView_set, keyOf_toNoti, toUpd_path, toUpd_val]
    rfl

theorem absView_deletes (enc : String → String) (n : Notification F D) :
    ∀ (ds : List (Option GPath)) (v : WView F D),
      absView enc (wapplyDeletes n ds v) =
        Relay.applyDeletes (toNoti enc n).1 (toNoti enc n).2 (ds.map (toDel enc)) (absView enc v)
  | [], _ => rfl
  | d :: ds, v => by
    simp only [wapplyDeletes, List.map_cons, Relay.applyDeletes]
    rw [absView_deletes enc n ds, absView_remove, keyOf_toNoti]
    rfl

theorem absView_item (enc : String → String) (v : WView F D) (r : Response F D) :
    absView enc (wapplyItem v r) = Relay.applyItem (absView enc v) (toItem enc r) := by
  cases r with
  | update n =>
    cases n with
    | none => rfl
    | some n =>
      simp only [wapplyItem, toItem, Relay.applyItem]
      rw [absView_deletes, absView_updates]
      rfl
  | _ => rfl

theorem absView_foldl (enc : String → String) : ∀ (rs : List (Response F D)) (v : WView F D),
    absView enc (rs.foldl wapplyItem v) = (rs.map (toItem enc)).foldl Relay.applyItem (absView enc v)
  | [], _ => rfl
  | r :: rs, v => by
    simp only [List.foldl_cons, List.map_cons]
    rw [absView_foldl enc rs, absView_item]

/-- **the index-form final view is the image of the wire-level final view** -/
theorem absView_wfinalView (enc : String → String) (rs : List (Response F D)) :
    absView enc (wfinalView rs) = Relay.finalView (rs.map (toItem enc)) :=
  absView_foldl enc rs []

theorem itemsOf_toStep (enc : String → String) (name : String) : ∀ (steps : List (WStep F D)),
    Relay.itemsOf name (steps.map (WStep.toStep enc)) = (witemsOf name steps).map (toItem enc)
  | [] => rfl
  | .recv n first now r :: rest => by
    simp only [List.map_cons, WStep.toStep, Relay.itemsOf, witemsOf]
    split
    · simp only [List.map_cons, itemsOf_toStep enc name rest]
    · exact itemsOf_toStep enc name rest
  | .subscribe _ _ _ :: rest => by
    simp only [List.map_cons, WStep.toStep, Relay.itemsOf, witemsOf]
    exact itemsOf_toStep enc name rest

theorem senders_toStep (enc : String → String) : ∀ (steps : List (WStep F D)),
    Relay.senders (steps.map (WStep.toStep enc)) = wsenders steps
  | [] => rfl
  | .recv n first now r :: rest => by
    simp only [List.map_cons, WStep.toStep, Relay.senders, wsenders, senders_toStep enc rest]
  | .subscribe _ _ _ :: rest => by
    simp only [List.map_cons, WStep.toStep, Relay.senders, wsenders, senders_toStep enc rest]

theorem mem_absView {enc : String → String} {v : WView F D} {k : Path} {x : Int × Val} :
    (k, x) ∈ absView enc v ↔ ∃ tv, (k, (x.1, tv)) ∈ v ∧ toVal enc tv = x.2 := by
  unfold absView
  simp only [List.mem_map, Prod.mk.injEq]
  constructor
  · rintro ⟨⟨k', ts, tv⟩, hm, rfl, rfl⟩
    exact ⟨tv, hm, rfl⟩
  · rintro ⟨tv, hm, he⟩
    exact ⟨(k, (x.1, tv)), hm, rfl, by show (x.1, toVal enc tv) = x; rw [he]⟩

/-! ## 7. the client's decode of a protobuf-shaped update (`client/gnmi noti`) -/

section client
variable [FloatOps F D]

/-- the Go value `value.ToScalar` returned (left) is what the index-form client's leaf value stands
for (right): floats by their bit pattern, bytes by their hex text, and a `decimal_val` — which
`ToScalar` turns into `float32(digits / 10^precision)` — by the pair it was computed from -/
inductive SRel : PV.Scalar F D → CScalar → Prop
  | str (s : String) : SRel (.str s) (.str s)
  | int (i : Int) : SRel (.int .i64 i) (.int i)
  | uint (n : Nat) : SRel (.uint .u64 n) (.uint n)
  | bool (b : Bool) : SRel (.bool b) (.bool b)
  | bytes (b : Bytes) : SRel (.bytes b) (.bytes (hexBytes b))
  | f32 (f : F) : SRel (.f32 f) (.f32 (FloatBits.bits32 (D := D) f))
  | f64 (d : D) : SRel (.f64 d) (.f64 (FloatBits.bits64 (F := F) d))
  | dec (d : Int) (p : Nat) : SRel (.f32 (FloatOps.decToF (D := D) d p)) (.dec32 d p)

inductive SsRel : List (PV.Scalar F D) → List CScalar → Prop
  | nil : SsRel [] []
  | cons {s : PV.Scalar F D} {c : CScalar} {ss : List (PV.Scalar F D)} {cs : List CScalar} :
      SRel s c → SsRel ss cs → SsRel (s :: ss) (c :: cs)

/-- … for a whole leaf value (`[]interface{}` for a leaf-list) -/
inductive VRel : PV.Scalar F D → Pipeline.CVal → Prop
  | scalar {s : PV.Scalar F D} {c : CScalar} : SRel s c → VRel s (.scalar c)
  | list {ss : List (PV.Scalar F D)} {cs : List CScalar} : SsRel ss cs → VRel (.list ss) (.list cs)

/-- one scalar arm: when the index-form client decodes the translated value, `value.ToScalar`
(both models of it: the client's `RX.toScalarJ` and C19's `PV.toScalar`) returns the Go value it
stands for -/
theorem scalar_decode_commutes (enc : String → String) (jv : Bytes → Bool) (tv : TV F D) (c : CScalar)
    (hw : RX.tvWire tv = true) (h : toScalar1 (Wire.toScalar enc tv) = some c) :
    ∃ s, RX.toScalarJ jv tv = .ok s ∧ PV.toScalar tv = .ok s ∧ SRel s c := by
  cases tv with
  | stringVal s => simp only [Wire.toScalar, toScalar1, Option.some.injEq] at h; subst h; exact ⟨_, by simp [RX.toScalarJ], by simp [PV.toScalar], .str s⟩
  | intVal i => simp only [Wire.toScalar, toScalar1, Option.some.injEq] at h; subst h; exact ⟨_, by simp [RX.toScalarJ], by simp [PV.toScalar], .int i⟩
  | uintVal n => simp only [Wire.toScalar, toScalar1, Option.some.injEq] at h; subst h; exact ⟨_, by simp [RX.toScalarJ], by simp [PV.toScalar], .uint n⟩
  | boolVal b => simp only [Wire.toScalar, toScalar1, Option.some.injEq] at h; subst h; exact ⟨_, by simp [RX.toScalarJ], by simp [PV.toScalar], .bool b⟩
  | bytesVal b => simp only [Wire.toScalar, toScalar1, Option.some.injEq] at h; subst h; exact ⟨_, by simp [RX.toScalarJ], by simp [PV.toScalar], .bytes b⟩
  | floatVal f => simp only [Wire.toScalar, toScalar1, Option.some.injEq] at h; subst h; exact ⟨_, by simp [RX.toScalarJ], by simp [PV.toScalar], .f32 f⟩
  | doubleVal d => simp only [Wire.toScalar, toScalar1, Option.some.injEq] at h; subst h; exact ⟨_, by simp [RX.toScalarJ], by simp [PV.toScalar], .f64 d⟩
  | decimalVal d p => simp only [Wire.toScalar, toScalar1, Option.some.injEq] at h; subst h; exact ⟨_, by simp [RX.toScalarJ], by simp [PV.toScalar], .dec d p⟩
  | decimalNil => simp [RX.tvWire] at hw
  | leaflistNil => simp [RX.tvWire] at hw
  | nilMsg => simp [Wire.toScalar, toScalar1] at h
  | unset => simp [Wire.toScalar, toScalar1] at h
  | leaflistVal l => simp [Wire.toScalar, toScalar1] at h
  | anyVal b => simp [Wire.toScalar, toScalar1] at h
  | jsonVal b => simp [Wire.toScalar, toScalar1] at h
  | jsonIetfVal b => simp [Wire.toScalar, toScalar1] at h
  | asciiVal b => simp [Wire.toScalar, toScalar1] at h
  | protoBytes b => simp [Wire.toScalar, toScalar1] at h

theorem tvWireElems_cons (e : TV F D) (r : List (TV F D)) (h : RX.tvWireElems (e :: r) = true) :
    RX.tvWire e = true ∧ RX.tvWireElems r = true := by
  cases e <;> simp_all [RX.tvWireElems]

/-- the elements of a leaf-list, one by one -/
theorem list_decode_commutes (enc : String → String) (jv : Bytes → Bool) :
    ∀ (l : List (TV F D)) (cs : List CScalar), RX.tvWireElems l = true →
      toScalarList (l.map (Wire.toScalar enc)) = some cs →
      ∃ ss, RX.toScalarJList jv l = .ok ss ∧ PV.toScalarList l = .ok ss ∧ SsRel ss cs
  | [], cs, _, h => by
    simp only [List.map_nil, toScalarList, Option.some.injEq] at h
    subst h
    exact ⟨[], by simp [RX.toScalarJList], by simp [PV.toScalarList], .nil⟩
  | e :: r, cs, hw, h => by
    obtain ⟨hwe, hwr⟩ := tvWireElems_cons e r hw
    simp only [List.map_cons, toScalarList] at h
    cases h1 : toScalar1 (Wire.toScalar enc e) with
    | none => rw [h1] at h; cases h
    | some c =>
      rw [h1] at h
      simp only [Option.map_eq_some_iff] at h
      obtain ⟨cs', h2, rfl⟩ := h
      obtain ⟨s, a1, a2, a3⟩ := scalar_decode_commutes enc jv e c hwe h1
      obtain ⟨ss, b1, b2, b3⟩ := list_decode_commutes enc jv r cs' hwr h2
      exact ⟨s :: ss, by simp [RX.toScalarJList, a1, b1], by simp [PV.toScalarList, a2, b2], .cons a3 b3⟩

/-- **value half of `client_decode_commutes`**: for every WireValid `TypedValue` the index-form
client can decode (`decodeVal (toVal tv) = .val cv`), `value.ToScalar(tv)` succeeds — for every
answer `jv` of `encoding/json` — and returns the Go value `cv` stands for -/
theorem value_decode_commutes (enc : String → String) (jv : Bytes → Bool) (tv : TV F D) (cv : Pipeline.CVal)
    (hw : RX.tvWire tv = true) (h : decodeVal (toVal enc tv) = .val cv) :
    ∃ s, RX.toScalarJ jv tv = .ok s ∧ PV.toScalar tv = .ok s ∧ VRel s cv := by
  have scalarArm : ∀ (tv : TV F D), RX.tvWire tv = true → toVal enc tv = .scalar (Wire.toScalar enc tv) →
      decodeVal (toVal enc tv) = .val cv →
      ∃ s, RX.toScalarJ jv tv = .ok s ∧ PV.toScalar tv = .ok s ∧ VRel s cv := by
    intro tv hw he h
    rw [he] at h
    simp only [decodeVal] at h
    cases h1 : toScalar1 (Wire.toScalar enc tv) with
    | none => rw [h1] at h; cases h
    | some c =>
      rw [h1] at h
      simp only [Dec.val.injEq] at h
      subst h
      obtain ⟨s, a1, a2, a3⟩ := scalar_decode_commutes enc jv tv c hw h1
      exact ⟨s, a1, a2, .scalar a3⟩
  cases tv with
  | nilMsg => simp [toVal, decodeVal] at h
  | leaflistNil => simp [RX.tvWire] at hw
  | leaflistVal l =>
    simp only [toVal, decodeVal] at h
    cases h1 : toScalarList (l.map (Wire.toScalar enc)) with
    | none => rw [h1] at h; cases h
    | some cs =>
      rw [h1] at h
      simp only [Dec.val.injEq] at h
      subst h
      have hwl : RX.tvWireElems l = true := by simpa [RX.tvWire] using hw
      obtain ⟨ss, b1, b2, b3⟩ := list_decode_commutes enc jv l cs hwl h1
      exact ⟨.list ss, by simp [RX.toScalarJ, b1], by simp [PV.toScalar, b2], .list b3⟩
  | unset => exact scalarArm _ hw rfl h
  | stringVal s => exact scalarArm _ hw rfl h
  | intVal i => exact scalarArm _ hw rfl h
  | uintVal n => exact scalarArm _ hw rfl h
  | boolVal b => exact scalarArm _ hw rfl h
  | bytesVal b => exact scalarArm _ hw rfl h
  | floatVal f => exact scalarArm _ hw rfl h
  | doubleVal d => exact scalarArm _ hw rfl h
  | decimalVal d p => exact scalarArm _ hw rfl h
  | decimalNil => exact scalarArm _ hw rfl h
  | anyVal b => exact scalarArm _ hw rfl h
  | jsonVal b => exact scalarArm _ hw rfl h
  | jsonIetfVal b => exact scalarArm _ hw rfl h
  | asciiVal b => exact scalarArm _ hw rfl h
  | protoBytes b => exact scalarArm _ hw rfl h

/-- the index path the client files an update under: `ToStrings(prefix, true) ++ ToStrings(path,
false)` on the messages is the index-form client's `clientPrefix … ++ path` on the translation -/
theorem path_decode_commutes (enc : String → String) (n : Notification F D) (p : Option GPath) :
    toStrings n.pfx true ++ toStrings p false =
      clientPrefix (toNoti enc n).2.target (toNoti enc n).2.origin (toNoti enc n).2.pfx ++ toStrings p false := by
  unfold clientPrefix toNoti
  cases h : n.pfx with
  | none => simp [getTarget, getOrigin, toStrings]
  | some q => simp only [getTarget, getOrigin]; rw [C12W.toStrings_pfx]; rfl

end client

end PW
end Gnmi
