import Gnmi.Lemmas.CacheX
/-!
# The wired cache: refresh, `Reset`, `UpdateSize` and the multi-target state

* `updateMetaX_ok`, `resetX_ok`, `updateSize_tinv`: every step keeps a target well formed (`TInv`);
* `updateMetaX_ctr`: what the refresh of a cache with latency windows adds to the counters
  (`refreshOutsX` = the writes of `Model/Cache.lean`'s refresh, then those of the latency leaves);
* `stepX_s`: on a call that is not a refresh — and on every call of a cache without latency
  windows — the `State` component of `StateX.step` is `State.step`;
* `step_sinvX`, `step_namesX`, and what a call does to `s.get name` / `latOf name`.
-/
namespace Gnmi
namespace Cache
open _root_.Gnmi.Acc _root_.Gnmi.Feed

/-! ## The latency loop of the refresh -/

theorem genLatOne_ok {a b : Int} (cfg : Cfg) (x : CfgX) (enc : String → String) (now : Int) (emit : Bool)
    (vals : List Latency.Write) (acc : Target × List Event) (k : Int × Latency.Stat)
    (hi : TInvD a b acc.1) (hn : acc.1.name ≠ "") :
    MetaStep a b acc.1 (genLatOne cfg x enc now emit vals acc k).1 := by
  unfold genLatOne
  split
  · exact MetaStep.refl hi
  · split
    · exact MetaStep.refl hi
    · rename_i v _
      split
      · exact MetaStep.refl hi
      · simp only
        have hu : (metaNotiAt enc acc.1.name (latPath x k.1 k.2) (.int v) now).upd =
            [{ origin := "", path := latPath x k.1 k.2, val := .scalar (.int v),
               raw := "o=;t=;e=" ++ ",".intercalate ((latPath x k.1 k.2).map enc) ++ ";l=#" ++
                 rawScalar enc (.int v) ++ "#0" }] := rfl
        have he := gnmiUpdate1_effect cfg now acc.1 (metaNotiAt enc acc.1.name (latPath x k.1 k.2) (.int v) now)
          _ [] hu hn
        have hk : updKey (metaNotiAt enc acc.1.name (latPath x k.1 k.2) (.int v) now)
            { origin := "", path := latPath x k.1 k.2, val := .scalar (.int v),
              raw := "o=;t=;e=" ++ ",".intercalate ((latPath x k.1 k.2).map enc) ++ ";l=#" ++
                rawScalar enc (.int v) ++ "#0" } = latPath x k.1 k.2 := by
          simp [updKey, joinKey, metaNotiAt]
        rw [hk] at he
        obtain ⟨c1, c2, c3, c4, c5⟩ := he.consequences hi (by rw [hu]; simp)
        have c6 := he.lc_meta (by simp [isMetaKey, latPath]) c1
        have res : MetaStep a b acc.1
            (Target.gnmiUpdate1 cfg now acc.1
              (metaNotiAt enc acc.1.name (latPath x k.1 k.2) (.int v) now)).2.1 :=
          ⟨c2, c5, c6, c3, c4⟩
        split <;> exact res

theorem updateMetaX_eq (cfg : Cfg) (x : CfgX) (enc : String → String) (now : Int) (emit : Bool)
    (t : Target) (l : LatSt) :
    (t.updateMetaX cfg x enc now emit l).1 =
      (latKeys x).foldl (genLatOne cfg x enc now emit (l.vals ++ (l.lat.update now false).2))
        (t.updateMeta cfg enc now emit) := rfl

/-- **What `updateMeta` does to the latency side**: `UpdateReset` at the clock reading of the
call; every value it writes is a `SetInt` on the metadata object. -/
theorem updateMetaX_lat (cfg : Cfg) (x : CfgX) (enc : String → String) (now : Int) (emit : Bool)
    (t : Target) (l : LatSt) :
    (t.updateMetaX cfg x enc now emit l).2 =
      { lat := (l.lat.update now false).1, vals := l.vals ++ (l.lat.update now false).2 } := rfl

theorem updateMetaX_ok {a b : Int} (cfg : Cfg) (x : CfgX) (enc : String → String) (now : Int) (emit : Bool)
    (t : Target) (l : LatSt) (hi : TInvD a b t) (hn : t.name ≠ "") :
    MetaStep a b t (t.updateMetaX cfg x enc now emit l).1.1 := by
  rw [updateMetaX_eq]
  have h1 := updateMeta_ok cfg enc now emit t hi hn
  have h2 := foldl_metaStep (a := a) (b := b)
    (genLatOne cfg x enc now emit (l.vals ++ (l.lat.update now false).2))
    (fun acc k hi hn => genLatOne_ok cfg x enc now emit _ acc k hi hn) (latKeys x)
    (t.updateMeta cfg enc now emit) h1.inv (by rw [h1.name]; exact hn)
  exact h1.trans h2

/-- a cache without latency windows refreshes as `Model/Cache.lean` says -/
theorem updateMetaX_nowin (cfg : Cfg) (x : CfgX) (enc : String → String) (now : Int) (emit : Bool)
    (t : Target) (l : LatSt) (hw : x.windows = []) :
    (t.updateMetaX cfg x enc now emit l).1 = t.updateMeta cfg enc now emit := by
  rw [updateMetaX_eq]
  have : latKeys x = [] := by simp [latKeys, hw]
  rw [this]; rfl

/-! ### counters -/

/-- the outcome of one step of the latency loop (none when excluded, unset or already shown) -/
def latOneOuts (cfg : Cfg) (x : CfgX) (enc : String → String) (now : Int) (vals : List Latency.Write)
    (t : Target) (k : Int × Latency.Stat) : List UnitOut :=
  if cfg.excluded.contains (latName x k.1 k.2) then []
  else
    match Latency.exported vals k.1 k.2 with
    | none => []
    | some v =>
      if leafIsCurrent t (latPath x k.1 k.2) (curInt v) then []
      else [updOut 0 t (metaNotiAt enc t.name (latPath x k.1 k.2) (.int v) now)
              (Target.gnmiUpdate1 cfg now t (metaNotiAt enc t.name (latPath x k.1 k.2) (.int v) now))]

theorem genLatOne_ctr (cfg : Cfg) (x : CfgX) (enc : String → String) (now : Int) (emit : Bool)
    (vals : List Latency.Write) (acc : Target × List Event) (k : Int × Latency.Stat) :
    ctrOf (genLatOne cfg x enc now emit vals acc k).1.md =
      ctrOf acc.1.md + sumDelta (latOneOuts cfg x enc now vals acc.1 k) ∧
    (genLatOne cfg x enc now emit vals acc k).1.md.latest = acc.1.md.latest := by
  unfold genLatOne latOneOuts
  by_cases hex : cfg.excluded.contains (latName x k.1 k.2) = true
  · simp only [hex, if_true]
    exact ⟨by rw [sumDelta_nil, Ctr.add_zero], by trivial⟩
  · simp only [hex, Bool.false_eq_true, if_false]
    cases hv : Latency.exported vals k.1 k.2 with
    | none => exact ⟨by rw [sumDelta_nil, Ctr.add_zero], by trivial⟩
    | some v =>
      simp only
      by_cases hc : leafIsCurrent acc.1 (latPath x k.1 k.2) (curInt v) = true
      · simp only [hc, if_true]
        exact ⟨by rw [sumDelta_nil, Ctr.add_zero], by trivial⟩
      · simp only [hc, Bool.false_eq_true, if_false]
        obtain ⟨g1, g2⟩ := gnmiUpdate1_ctr cfg now acc.1
          (metaNotiAt enc acc.1.name (latPath x k.1 k.2) (.int v) now)
        rw [sumDelta_cons, sumDelta_nil, Ctr.add_zero, updOut_delta]
        split <;> exact ⟨g1, g2⟩

/-- the outcomes of the latency loop from `acc` -/
def latOuts (cfg : Cfg) (x : CfgX) (enc : String → String) (now : Int) (emit : Bool)
    (vals : List Latency.Write) : List (Int × Latency.Stat) → Target × List Event → List UnitOut
  | [], _ => []
  | k :: ks, acc =>
    latOneOuts cfg x enc now vals acc.1 k ++
      latOuts cfg x enc now emit vals ks (genLatOne cfg x enc now emit vals acc k)

theorem foldl_genLatOne_ctr (cfg : Cfg) (x : CfgX) (enc : String → String) (now : Int) (emit : Bool)
    (vals : List Latency.Write) : ∀ (ks : List (Int × Latency.Stat)) (acc : Target × List Event),
    ctrOf (ks.foldl (genLatOne cfg x enc now emit vals) acc).1.md =
      ctrOf acc.1.md + sumDelta (latOuts cfg x enc now emit vals ks acc) ∧
    (ks.foldl (genLatOne cfg x enc now emit vals) acc).1.md.latest = acc.1.md.latest
  | [], acc => ⟨by simp only [List.foldl_nil, latOuts, sumDelta_nil, Ctr.add_zero], rfl⟩
  | k :: ks, acc => by
    obtain ⟨s1, s2⟩ := genLatOne_ctr cfg x enc now emit vals acc k
    obtain ⟨i1, i2⟩ := foldl_genLatOne_ctr cfg x enc now emit vals ks (genLatOne cfg x enc now emit vals acc k)
    simp only [List.foldl_cons, latOuts, sumDelta_append]
    exact ⟨by rw [i1, s1, Ctr.add_assoc], i2.trans s2⟩

/-- **the unit outcomes of `updateMeta` of a cache with latency windows**: the writes of
`Model/Cache.lean`'s refresh, then the latency leaves -/
def refreshOutsX (cfg : Cfg) (x : CfgX) (enc : String → String) (now : Int) (emit : Bool) (t : Target)
    (l : LatSt) : List UnitOut :=
  refreshOuts cfg enc now emit t ++
    latOuts cfg x enc now emit (l.vals ++ (l.lat.update now false).2) (latKeys x) (t.updateMeta cfg enc now emit)

theorem updateMetaX_ctr (cfg : Cfg) (x : CfgX) (enc : String → String) (now : Int) (emit : Bool)
    (t : Target) (l : LatSt) :
    ctrOf (t.updateMetaX cfg x enc now emit l).1.1.md =
      ctrOf t.md + sumDelta (refreshOutsX cfg x enc now emit t l) ∧
    (t.updateMetaX cfg x enc now emit l).1.1.md.latest = exportedLatest t := by
  rw [updateMetaX_eq]
  obtain ⟨a1, a2⟩ := updateMeta_ctr cfg enc now emit t
  obtain ⟨b1, b2⟩ := foldl_genLatOne_ctr cfg x enc now emit (l.vals ++ (l.lat.update now false).2) (latKeys x)
    (t.updateMeta cfg enc now emit)
  unfold refreshOutsX
  rw [sumDelta_append]
  exact ⟨by rw [b1, a1, Ctr.add_assoc], b2.trans a2⟩

/-! ## `Reset` -/

theorem resetX_eq (cfg : Cfg) (x : CfgX) (enc : String → String) (now : Int) (t : Target) (l : LatSt) :
    t.resetX cfg x enc now l =
      (let r := Target.updateMetaX cfg x enc now true { t with latest := none, md := Meta.clear }
          { l with vals := [] }
       (dropRoots t.name now ((rootChildren r.1.1.tree).filter (· != metaRoot)) r.1, r.2)) := rfl

theorem resetX_nowin (cfg : Cfg) (x : CfgX) (enc : String → String) (now : Int) (t : Target) (l : LatSt)
    (hw : x.windows = []) : (t.resetX cfg x enc now l).1 = t.reset cfg enc now := by
  rw [resetX_eq, reset_eq]
  simp only [updateMetaX_nowin cfg x enc now true _ _ hw]

/-- what follows the refresh in `Reset` (the body of `Lemmas/CacheState.reset_ok`, for any refresh
that keeps `MetaStep`) -/
theorem reset_tail_ok (now : Int) (t : Target) (u : Target × List Event) (hi : TInv t)
    (hm : MetaStep (0 - (nm t.tree : Nat)) 0 { t with latest := none, md := Meta.clear } u.1) :
    let r := dropRoots t.name now ((rootChildren u.1.tree).filter (· != metaRoot)) u
    TInv r.1 ∧ r.1.name = t.name ∧ r.1.latest = none ∧
    (∀ kv ∈ r.1.tree, isMetaKey kv.1 = true) ∧
    r.1.md.leaves = 0 ∧ r.1.md.added = 0 ∧ r.1.md.deleted = 0 ∧ r.1.md = u.1.md := by
  intro r
  have hr : r = dropRoots t.name now ((rootChildren u.1.tree).filter (· != metaRoot)) u := rfl
  obtain ⟨d1, d2, d3, d4⟩ := dropRoots_spec t.name now ((rootChildren u.1.tree).filter (· != metaRoot)) u
  rw [← hr] at d1 d2 d3 d4
  have hmeta : ∀ kv ∈ r.1.tree, isMetaKey kv.1 = true := by
    intro kv hkv
    obtain ⟨hin, hno⟩ := (d4 kv).1 hkv
    match hk : kv.1 with
    | [] => exact absurd hk (hm.inv.nonEmpty kv hin)
    | h :: rest =>
      by_cases hh : h = metaRoot
      · simp [isMetaKey, hh]
      · exfalso
        have hroot : h ∈ (rootChildren u.1.tree).filter (· != metaRoot) :=
          List.mem_filter.2 ⟨mem_rootChildren hin hk, by simpa using hh⟩
        have := hno h hroot
        rw [hk, qmatches_root] at this
        cases this
  have hnm : nm r.1.tree = 0 := by
    unfold nm
    rw [List.length_eq_zero_iff, List.filter_eq_nil_iff]
    intro kv hkv
    simp [hmeta kv hkv]
  have hl : r.1.md.leaves = 0 := by rw [d1, hm.lcs.1]; rfl
  have ha : r.1.md.added = 0 := by rw [d1, hm.lcs.2.1]; rfl
  have hd : r.1.md.deleted = 0 := by rw [d1, hm.lcs.2.2]; rfl
  refine ⟨⟨?_, ?_, ?_, ?_, ?_⟩, d2.trans hm.name, d3.trans hm.latest, hmeta, hl, ha, hd, d1⟩
  · have hsub : ∀ (roots : List String) (acc : Target × List Event),
        ((dropRoots t.name now roots acc).1.tree).Sublist acc.1.tree := by
      intro roots
      induction roots with
      | nil => intro acc; exact List.Sublist.refl _
      | cons root roots ih =>
        intro acc
        simp only [dropRoots, List.foldl_cons] at ih ⊢
        exact (ih _).trans List.filter_sublist
    have := hsub ((rootChildren u.1.tree).filter (· != metaRoot)) u
    rw [← hr] at this
    exact (this.map _).nodup hm.inv.unique
  · intro kv hkv; exact hm.inv.hasUpd kv ((d4 kv).1 hkv).1
  · intro kv hkv; exact hm.inv.nonEmpty kv ((d4 kv).1 hkv).1
  · rw [hl, hnm]; rfl
  · rw [hl, ha, hd]; rfl

/-- **After `Reset` of a target with latency windows**: as `reset_ok`; the counters are those the
refresh inside `Reset` leaves. -/
theorem resetX_ok (cfg : Cfg) (x : CfgX) (enc : String → String) (now : Int) (t : Target) (l : LatSt)
    (hi : TInv t) (hn : t.name ≠ "") :
    let r := t.resetX cfg x enc now l
    TInv r.1.1 ∧ r.1.1.name = t.name ∧ r.1.1.latest = none ∧
    (∀ kv ∈ r.1.1.tree, isMetaKey kv.1 = true) ∧
    r.1.1.md.leaves = 0 ∧ r.1.1.md.added = 0 ∧ r.1.1.md.deleted = 0 ∧
    r.1.1.md = (Target.updateMetaX cfg x enc now true { t with latest := none, md := Meta.clear }
      { l with vals := [] }).1.1.md := by
  intro r
  have h0 : TInvD (0 - (nm t.tree : Nat)) 0 { t with latest := none, md := Meta.clear } :=
    ⟨hi.unique, hi.hasUpd, hi.nonEmpty, by simp [Meta.clear], by simp [Meta.clear]⟩
  have hm := updateMetaX_ok cfg x enc now true { t with latest := none, md := Meta.clear }
    { l with vals := [] } h0 hn
  exact reset_tail_ok now t _ hi hm

/-- `Reset` leaves the `Latency` object to `UpdateReset` and empties the latency entries first -/
theorem resetX_lat (cfg : Cfg) (x : CfgX) (enc : String → String) (now : Int) (t : Target) (l : LatSt) :
    (t.resetX cfg x enc now l).2 =
      { lat := (l.lat.update now false).1, vals := (l.lat.update now false).2 } := by
  rw [resetX_eq]
  simp only [updateMetaX_lat, List.nil_append]

/-! ## `UpdateSize` -/

/-- the sum `updateSize` computes over a tree -/
def sumSizes (sizeOf : Noti → Int) (m : PMap Noti) : Int := (m.map (fun kv => sizeOf kv.2)).foldl (· + ·) 0

theorem qmatches_glob : ∀ (k : Path), qmatches [glob] k = true
  | [] => by simp [qmatches]
  | _ :: _ => by simp [qmatches]

/-- `Query(["*"])` visits every leaf -/
theorem query_glob_all (m : PMap Noti) : PMap.query m [glob] = m := by
  unfold PMap.query
  rw [List.filter_eq_self]
  intro kv _; exact qmatches_glob kv.1

theorem updateSize_tinv {a b : Int} (sizeOf : Noti → Int) {t : Target} (hi : TInvD a b t) :
    TInvD a b (t.updateSize sizeOf) := hi.with_md _ ⟨rfl, rfl, rfl⟩

/-! ## The multi-target state -/

theorem find_setLat_same (l : List (String × LatSt)) (name : String) (v : LatSt) :
    (setLat l name v).find? (fun kv => kv.1 == name) = some (name, v) := by
  unfold setLat
  rw [List.find?_append]
  have : (l.filter (fun kv => kv.1 != name)).find? (fun kv => kv.1 == name) = none := by
    rw [List.find?_eq_none]
    intro y hy
    have := (List.mem_filter.1 hy).2
    simpa using this
  simp [this]

theorem find_filter_other {α : Type} (l : List (String × α)) (name other : String) (h : other ≠ name) :
    (l.filter (fun kv => kv.1 != name)).find? (fun kv => kv.1 == other) =
      l.find? (fun kv => kv.1 == other) := by
  induction l with
  | nil => rfl
  | cons y l ih =>
    simp only [List.filter_cons]
    by_cases hy : y.1 = name
    · have h1 : (y.1 != name) = false := by simp [hy]
      have h2 : (y.1 == other) = false := by rw [hy]; simpa using fun e => h e.symm
      simp only [h1, Bool.false_eq_true, if_false, List.find?_cons, h2]
      exact ih
    · have h1 : (y.1 != name) = true := by simpa using hy
      simp only [h1, if_true, List.find?_cons]
      split
      · rfl
      · exact ih

theorem find_filter_same {α : Type} (l : List (String × α)) (name : String) :
    (l.filter (fun kv => kv.1 != name)).find? (fun kv => kv.1 == name) = none := by
  rw [List.find?_eq_none]
  intro y hy
  have := (List.mem_filter.1 hy).2
  simpa using this

theorem find_setLat_other (l : List (String × LatSt)) (name other : String) (v : LatSt) (h : other ≠ name) :
    (setLat l name v).find? (fun kv => kv.1 == other) = l.find? (fun kv => kv.1 == other) := by
  unfold setLat
  rw [List.find?_append, find_filter_other l name other h]
  have : (name == other) = false := by simpa using fun e => h e.symm
  cases l.find? (fun kv => kv.1 == other) <;> simp [this]

/-- `latOf` only looks at `lats` and `x` -/
theorem latOf_congr (a b : StateX) (hl : a.lats = b.lats) (hx : a.x = b.x) (name : String) :
    a.latOf name = b.latOf name := by
  unfold StateX.latOf; rw [hl, hx]

theorem latOf_set_same (sx : StateX) (s' : State) (name : String) (v : LatSt) :
    ({ sx with s := s', lats := setLat sx.lats name v } : StateX).latOf name = v := by
  unfold StateX.latOf
  simp only [find_setLat_same]

theorem latOf_set_other (sx : StateX) (s' : State) (name other : String) (v : LatSt) (h : other ≠ name) :
    ({ sx with s := s', lats := setLat sx.lats name v } : StateX).latOf other = sx.latOf other := by
  unfold StateX.latOf
  simp only [find_setLat_other _ _ _ _ h]

/-! ### the `State` component -/

/-- the calls whose `State` component differs from `Model/Cache.lean` when latency windows are
configured (they export the latency leaves) -/
def isRefresh : Op → Bool
  | .reset _ _ => true
  | .updateMetadata _ => true
  | _ => false

theorem onTargetX_s (sx : StateX) (name : String) (f : Target → LatSt → (Target × List Event) × LatSt)
    (g : Target → Target × List Event) (h : ∀ t l, (f t l).1 = g t) :
    (sx.onTarget name f).1.s = (sx.s.onTarget name g).1 ∧ (sx.onTarget name f).2 = (sx.s.onTarget name g).2 ∧
    (sx.onTarget name f).1.x = sx.x := by
  unfold StateX.onTarget State.onTarget
  cases hg : sx.s.get name with
  | none => exact ⟨rfl, rfl, rfl⟩
  | some t => simp only [h]; exact ⟨by trivial, by trivial, by trivial⟩

theorem updateMetadataX_x (sx : StateX) (enc : String → String) (now : Int) :
    (sx.updateMetadata enc now).1.x = sx.x := by
  unfold StateX.updateMetadata
  suffices ∀ (l : List (String × Target)) (acc : StateX × List Event), acc.1.x = sx.x →
      (l.foldl (fun acc kv =>
        match acc.1.s.get kv.1 with
        | none => acc
        | some t =>
          let r := t.updateMetaX sx.s.cfg sx.x enc now true (acc.1.latOf kv.1)
          ({ acc.1 with s := acc.1.s.set kv.1 r.1.1, lats := setLat acc.1.lats kv.1 r.2 }, acc.2 ++ r.1.2)) acc).1.x = sx.x
    from this _ _ rfl
  intro l
  induction l with
  | nil => intro acc h; exact h
  | cons kv l ih =>
    intro acc h
    simp only [List.foldl_cons]
    apply ih
    split
    · exact h
    · exact h

theorem updateMetadataX_s (sx : StateX) (enc : String → String) (now : Int) (hw : sx.x.windows = []) :
    (sx.updateMetadata enc now).1.s = (sx.s.updateMetadata enc now).1 ∧
    (sx.updateMetadata enc now).2 = (sx.s.updateMetadata enc now).2 := by
  unfold StateX.updateMetadata State.updateMetadata
  suffices ∀ (l : List (String × Target)) (a : StateX × List Event) (b : State × List Event),
      a.1.s = b.1 → a.2 = b.2 →
      (l.foldl (fun acc kv =>
        match acc.1.s.get kv.1 with
        | none => acc
        | some t =>
          let r := t.updateMetaX sx.s.cfg sx.x enc now true (acc.1.latOf kv.1)
          ({ acc.1 with s := acc.1.s.set kv.1 r.1.1, lats := setLat acc.1.lats kv.1 r.2 }, acc.2 ++ r.1.2)) a).1.s =
      (l.foldl (fun acc kv =>
        match acc.1.get kv.1 with
        | none => acc
        | some t =>
          let r := t.updateMeta sx.s.cfg enc now true
          (acc.1.set kv.1 r.1, acc.2 ++ r.2)) b).1 ∧
      (l.foldl (fun acc kv =>
        match acc.1.s.get kv.1 with
        | none => acc
        | some t =>
          let r := t.updateMetaX sx.s.cfg sx.x enc now true (acc.1.latOf kv.1)
          ({ acc.1 with s := acc.1.s.set kv.1 r.1.1, lats := setLat acc.1.lats kv.1 r.2 }, acc.2 ++ r.1.2)) a).2 =
      (l.foldl (fun acc kv =>
        match acc.1.get kv.1 with
        | none => acc
        | some t =>
          let r := t.updateMeta sx.s.cfg enc now true
          (acc.1.set kv.1 r.1, acc.2 ++ r.2)) b).2
    from this _ _ _ rfl rfl
  intro l
  induction l with
  | nil => intro a b h1 h2; exact ⟨h1, h2⟩
  | cons kv l ih =>
    intro a b h1 h2
    simp only [List.foldl_cons]
    apply ih
    · rw [h1]
      cases b.1.get kv.1 with
      | none => exact h1
      | some t => simp only [updateMetaX_nowin _ _ _ _ _ _ _ hw]
    · rw [h1]
      cases b.1.get kv.1 with
      | none => exact h2
      | some t => simp only [updateMetaX_nowin _ _ _ _ _ _ _ hw, h2]

theorem onTargetX_x (sx : StateX) (name : String) (f : Target → LatSt → (Target × List Event) × LatSt) :
    (sx.onTarget name f).1.x = sx.x := by
  unfold StateX.onTarget; split <;> rfl

theorem gnmiUpdateX_x (sx : StateX) (now : Int) (pn : Bool) (n : Noti) : (sx.gnmiUpdate now pn n).2.1.x = sx.x := by
  unfold StateX.gnmiUpdate
  split
  · rfl
  · split <;> rfl

/-- the options of the cache never change -/
theorem stepX_x (env : Env) (sx : StateX) (op : OpX) : (sx.step env op).1.x = sx.x := by
  cases op with
  | updateSize => rfl
  | base op =>
    cases op with
    | add name => rfl
    | remove name now => rfl
    | reset name now => exact onTargetX_x sx name _
    | sync name now => exact onTargetX_x sx name _
    | connect name now => exact onTargetX_x sx name _
    | connectError name msg now => exact onTargetX_x sx name _
    | update now pn n => exact gnmiUpdateX_x sx now pn n
    | updateMetadata now => exact updateMetadataX_x sx env.enc now

/-- **Conservativity.**  On every call that is not a refresh — and on every call of a cache created
without latency windows — the wired cache does to the `State` of `Model/Cache.lean` exactly what
`State.step` does, with the same result class and the same feed events. -/
theorem stepX_s (env : Env) (sx : StateX) (op : Op) (h : isRefresh op = false ∨ sx.x.windows = []) :
    (sx.step env (.base op)).1.s = (sx.s.step env.enc op).1 ∧
    (sx.step env (.base op)).2 = (sx.s.step env.enc op).2 := by
  cases op with
  | add name => exact ⟨rfl, rfl⟩
  | remove name now => exact ⟨rfl, rfl⟩
  | reset name now =>
    have hw : sx.x.windows = [] := by
      rcases h with h | h
      · simp [isRefresh] at h
      · exact h
    obtain ⟨a, b, _⟩ := onTargetX_s sx name (fun t l => t.resetX sx.s.cfg sx.x env.enc now l)
      (fun t => t.reset sx.s.cfg env.enc now) (fun t l => resetX_nowin _ _ _ _ t l hw)
    simp only [StateX.step, State.step, StateX.reset, State.reset]
    exact ⟨a, by rw [b]⟩
  | sync name now =>
    obtain ⟨a, b, _⟩ := onTargetX_s sx name
      (fun t l =>
        let r := t.gnmiUpdateX sx.s.cfg now l (metaNoti env.enc name "sync" (.bool true) now)
        ((r.1.2.1, flattenGroups r.1.2.2), r.2))
      (fun t =>
        let r := t.gnmiUpdate sx.s.cfg now (metaNoti env.enc name "sync" (.bool true) now)
        (r.2.1, flattenGroups r.2.2))
      (fun t l => by simp only [gnmiUpdateX_base])
    simp only [StateX.step, State.step, StateX.sync, State.sync]
    exact ⟨a, by rw [b]⟩
  | connect name now =>
    obtain ⟨a, b, _⟩ := onTargetX_s sx name
      (fun t l =>
        let r := t.gnmiUpdateX sx.s.cfg now l (metaNoti env.enc name "connected" (.bool true) now)
        let r2 := r.1.2.1.gnmiUpdateX sx.s.cfg now r.2 (deleteNotiOf env.enc name [metaRoot, "connectError"] now)
        ((r2.1.2.1, flattenGroups r.1.2.2 ++ flattenGroups r2.1.2.2), r2.2))
      (fun t =>
        let r := t.gnmiUpdate sx.s.cfg now (metaNoti env.enc name "connected" (.bool true) now)
        let r2 := r.2.1.gnmiUpdate sx.s.cfg now (deleteNotiOf env.enc name [metaRoot, "connectError"] now)
        (r2.2.1, flattenGroups r.2.2 ++ flattenGroups r2.2.2))
      (fun t l => by simp only [gnmiUpdateX_base])
    simp only [StateX.step, State.step, StateX.connect, State.connect]
    exact ⟨a, by rw [b]⟩
  | connectError name msg now =>
    obtain ⟨a, b, _⟩ := onTargetX_s sx name
      (fun t l =>
        let r := t.gnmiUpdateX sx.s.cfg now l (metaNoti env.enc name "connectError" (.str msg) now)
        ((r.1.2.1, flattenGroups r.1.2.2), r.2))
      (fun t =>
        let r := t.gnmiUpdate sx.s.cfg now (metaNoti env.enc name "connectError" (.str msg) now)
        (r.2.1, flattenGroups r.2.2))
      (fun t l => by simp only [gnmiUpdateX_base])
    simp only [StateX.step, State.step, StateX.connectError, State.connectError]
    exact ⟨a, by rw [b]⟩
  | update now pn n =>
    simp only [StateX.step, State.step, StateX.gnmiUpdate, State.gnmiUpdate]
    cases pn with
    | true => exact ⟨rfl, rfl⟩
    | false =>
      simp only [Bool.false_eq_true, if_false]
      cases hg : sx.s.get n.target with
      | none => exact ⟨rfl, rfl⟩
      | some t => simp only [gnmiUpdateX_base]; exact ⟨by trivial, by trivial⟩
  | updateMetadata now =>
    have hw : sx.x.windows = [] := by
      rcases h with h | h
      · simp [isRefresh] at h
      · exact h
    obtain ⟨a, b⟩ := updateMetadataX_s sx env.enc now hw
    simp only [StateX.step, State.step]
    exact ⟨a, by rw [b]⟩

/-- **A cache created without latency windows is the cache of `Model/Cache.lean`**: along every
history of the calls of `Model/Cache.lean`, the `State` component of the wired run is `State.run`. -/
theorem runX_lift (env : Env) : ∀ (ops : List Op) (sx : StateX), sx.x.windows = [] →
    (sx.run env (ops.map OpX.base)).s = sx.s.run env.enc ops
  | [], _, _ => rfl
  | op :: ops, sx, hw => by
    simp only [List.map_cons, StateX.run, State.run]
    rw [← (stepX_s env sx op (Or.inr hw)).1]
    exact runX_lift env ops _ (by rw [stepX_x]; exact hw)

/-! ### what a call does to one target and its latency side -/

theorem onTargetX_get_same (sx : StateX) (name : String) (f : Target → LatSt → (Target × List Event) × LatSt) :
    (sx.onTarget name f).1.s.get name = (sx.s.get name).map (fun t => (f t (sx.latOf name)).1.1) ∧
    (sx.onTarget name f).1.latOf name =
      (match sx.s.get name with
       | some t => (f t (sx.latOf name)).2
       | none => sx.latOf name) := by
  unfold StateX.onTarget
  cases hg : sx.s.get name with
  | none => simp [hg]
  | some t => exact ⟨by simp only [get_set_same, Option.map_some], latOf_set_same ..⟩

theorem onTargetX_get_other (sx : StateX) (name other : String)
    (f : Target → LatSt → (Target × List Event) × LatSt) (h : other ≠ name) :
    (sx.onTarget name f).1.s.get other = sx.s.get other ∧ (sx.onTarget name f).1.latOf other = sx.latOf other := by
  unfold StateX.onTarget
  cases hg : sx.s.get name with
  | none => exact ⟨rfl, rfl⟩
  | some t => exact ⟨get_set_other _ _ _ _ h, latOf_set_other _ _ _ _ _ h⟩

theorem gnmiUpdateX_get_same (sx : StateX) (now : Int) (n : Noti) :
    (sx.gnmiUpdate now false n).2.1.s.get n.target =
      (sx.s.get n.target).map (fun t => (t.gnmiUpdateX sx.s.cfg now (sx.latOf n.target) n).1.2.1) ∧
    (sx.gnmiUpdate now false n).2.1.latOf n.target =
      (match sx.s.get n.target with
       | some t => (t.gnmiUpdateX sx.s.cfg now (sx.latOf n.target) n).2
       | none => sx.latOf n.target) := by
  unfold StateX.gnmiUpdate
  simp only [Bool.false_eq_true, if_false]
  cases hg : sx.s.get n.target with
  | none => simp [hg]
  | some t => exact ⟨by simp only [get_set_same, Option.map_some], latOf_set_same ..⟩

theorem gnmiUpdateX_get_other (sx : StateX) (now : Int) (pn : Bool) (n : Noti) (other : String)
    (h : pn = true ∨ other ≠ n.target) :
    (sx.gnmiUpdate now pn n).2.1.s.get other = sx.s.get other ∧
    (sx.gnmiUpdate now pn n).2.1.latOf other = sx.latOf other := by
  unfold StateX.gnmiUpdate
  cases pn with
  | true => exact ⟨rfl, rfl⟩
  | false =>
    have h' : other ≠ n.target := by
      rcases h with h | h
      · cases h
      · exact h
    simp only [Bool.false_eq_true, if_false]
    cases hg : sx.s.get n.target with
    | none => exact ⟨rfl, rfl⟩
    | some t => exact ⟨get_set_other _ _ _ _ h', latOf_set_other _ _ _ _ _ h'⟩

theorem get_map_targets (s : State) (f : Target → Target) (name : String) :
    ({ s with targets := s.targets.map (fun kv => (kv.1, f kv.2)) } : State).get name = (s.get name).map f := by
  unfold State.get
  simp only
  induction s.targets with
  | nil => rfl
  | cons kv l ih =>
    simp only [List.map_cons, List.find?_cons]
    by_cases hk : (kv.1 == name) = true
    · simp [hk]
    · simp only [hk]; exact ih

theorem updateSizeX_get (sx : StateX) (sizeOf : Noti → Int) (name : String) :
    (sx.updateSize sizeOf).s.get name = (sx.s.get name).map (fun t => t.updateSize sizeOf) ∧
    (sx.updateSize sizeOf).latOf name = sx.latOf name :=
  ⟨get_map_targets sx.s _ name, rfl⟩

theorem updateSizeX_names (sx : StateX) (sizeOf : Noti → Int) (h : NamesUnique sx.s) :
    NamesUnique (sx.updateSize sizeOf).s := by
  unfold NamesUnique StateX.updateSize at *
  simpa [List.map_map, Function.comp_def] using h

/-- `UpdateMetadata` refreshes every registered target once, each with its own latency object -/
theorem updateMetadataX_get (sx : StateX) (enc : String → String) (now : Int) (hn : NamesUnique sx.s)
    (name : String) :
    (sx.updateMetadata enc now).1.s.get name =
      (sx.s.get name).map (fun t => (t.updateMetaX sx.s.cfg sx.x enc now true (sx.latOf name)).1.1) ∧
    (sx.updateMetadata enc now).1.latOf name =
      (match sx.s.get name with
       | some t => (t.updateMetaX sx.s.cfg sx.x enc now true (sx.latOf name)).2
       | none => sx.latOf name) := by
  unfold StateX.updateMetadata
  have key : ∀ (l : List (String × Target)) (acc : StateX × List Event), (l.map (·.1)).Nodup →
      let r := l.foldl (fun acc kv =>
        match acc.1.s.get kv.1 with
        | none => acc
        | some t =>
          let r := t.updateMetaX sx.s.cfg sx.x enc now true (acc.1.latOf kv.1)
          ({ acc.1 with s := acc.1.s.set kv.1 r.1.1, lats := setLat acc.1.lats kv.1 r.2 }, acc.2 ++ r.1.2)) acc
      r.1.s.get name =
        (if name ∈ l.map (·.1) then
          (acc.1.s.get name).map (fun t => (t.updateMetaX sx.s.cfg sx.x enc now true (acc.1.latOf name)).1.1)
         else acc.1.s.get name) ∧
      r.1.latOf name =
        (if name ∈ l.map (·.1) then
          (match acc.1.s.get name with
           | some t => (t.updateMetaX sx.s.cfg sx.x enc now true (acc.1.latOf name)).2
           | none => acc.1.latOf name)
         else acc.1.latOf name) := by
    intro l
    induction l with
    | nil => intro acc _; simp
    | cons kv l ih =>
      intro acc hnd
      simp only [List.map_cons, List.nodup_cons] at hnd
      simp only [List.foldl_cons]
      obtain ⟨i1, i2⟩ := ih _ hnd.2
      simp only at i1 i2 ⊢
      rw [i1, i2]
      by_cases hk : name = kv.1
      · have hkv : kv.1 = name := hk.symm
        rw [hkv] at hnd
        simp only [hkv, hnd.1, if_false, List.map_cons, List.mem_cons, true_or, if_true]
        cases hg : acc.1.s.get name with
        | none => simp [hg]
        | some t => exact ⟨by simp only [get_set_same, Option.map_some], latOf_set_same ..⟩
      · have hne : name ≠ kv.1 := hk
        simp only [List.map_cons, List.mem_cons, hk, false_or]
        cases hg : acc.1.s.get kv.1 with
        | none => exact ⟨rfl, rfl⟩
        | some t =>
          simp only [get_set_other _ _ _ _ hne, latOf_set_other _ _ _ _ _ hne]
          exact ⟨by trivial, by trivial⟩
  obtain ⟨k1, k2⟩ := key sx.s.targets (sx, []) hn
  refine ⟨k1.trans ?_, k2.trans ?_⟩
  · by_cases hm : name ∈ sx.s.targets.map (·.1)
    · simp only [hm, if_true]
    · simp only [hm, if_false]
      rw [get_none_of_not_mem sx.s name hm]; rfl
  · by_cases hm : name ∈ sx.s.targets.map (·.1)
    · simp only [hm, if_true]
    · simp only [hm, if_false]
      rw [get_none_of_not_mem sx.s name hm]

/-! ### invariants along histories -/

/-- a valid call: targets are registered under non-empty names -/
def OpX.valid : OpX → Prop
  | .base op => op.valid
  | .updateSize => True

theorem updateMetadataX_inv (sx : StateX) (enc : String → String) (now : Int)
    (hs : SInv sx.s) (hn : NamesUnique sx.s) :
    SInv (sx.updateMetadata enc now).1.s ∧ NamesUnique (sx.updateMetadata enc now).1.s := by
  unfold StateX.updateMetadata
  suffices ∀ (l : List (String × Target)) (acc : StateX × List Event), SInv acc.1.s → NamesUnique acc.1.s →
      SInv (l.foldl (fun acc kv =>
        match acc.1.s.get kv.1 with
        | none => acc
        | some t =>
          let r := t.updateMetaX sx.s.cfg sx.x enc now true (acc.1.latOf kv.1)
          ({ acc.1 with s := acc.1.s.set kv.1 r.1.1, lats := setLat acc.1.lats kv.1 r.2 }, acc.2 ++ r.1.2)) acc).1.s ∧
      NamesUnique (l.foldl (fun acc kv =>
        match acc.1.s.get kv.1 with
        | none => acc
        | some t =>
          let r := t.updateMetaX sx.s.cfg sx.x enc now true (acc.1.latOf kv.1)
          ({ acc.1 with s := acc.1.s.set kv.1 r.1.1, lats := setLat acc.1.lats kv.1 r.2 }, acc.2 ++ r.1.2)) acc).1.s
    from this _ _ hs hn
  intro l
  induction l with
  | nil => intro acc h1 h2; exact ⟨h1, h2⟩
  | cons kv l ih =>
    intro acc h1 h2
    simp only [List.foldl_cons]
    cases hg : acc.1.s.get kv.1 with
    | none => exact ih _ h1 h2
    | some t =>
      obtain ⟨a1, a2, a3⟩ := h1 kv.1 t hg
      have hm := updateMetaX_ok sx.s.cfg sx.x enc now true t (acc.1.latOf kv.1) a1 (by rw [a2]; exact a3)
      exact ih _ (h1.set ⟨hm.inv, hm.name.trans a2, a3⟩) (h2.set _ _)

/-- **Every call keeps every target of the wired cache well formed and the names unique.** -/
theorem stepX_inv (env : Env) (sx : StateX) (op : OpX) (hs : SInv sx.s) (hn : NamesUnique sx.s)
    (hv : op.valid) : SInv (sx.step env op).1.s ∧ NamesUnique (sx.step env op).1.s := by
  cases op with
  | updateSize =>
    refine ⟨?_, updateSizeX_names sx env.sizeOf hn⟩
    intro name t hg
    simp only [StateX.step] at hg
    rw [(updateSizeX_get sx env.sizeOf name).1] at hg
    cases hget : sx.s.get name with
    | none => rw [hget] at hg; simp at hg
    | some t0 =>
      rw [hget] at hg
      simp only [Option.map_some, Option.some.injEq] at hg
      subst hg
      obtain ⟨a, b, c⟩ := hs name t0 hget
      exact ⟨updateSize_tinv env.sizeOf a, b, c⟩
  | base op =>
    by_cases hr : isRefresh op = false
    · rw [(stepX_s env sx op (Or.inl hr)).1]
      exact ⟨(step_sinv env.enc sx.s op hs hv).1, step_names env.enc sx.s op hn⟩
    · cases op with
      | reset name now =>
        simp only [StateX.step, StateX.reset, StateX.onTarget]
        cases hg : sx.s.get name with
        | none => exact ⟨hs, hn⟩
        | some t =>
          obtain ⟨a1, a2, a3⟩ := hs name t hg
          obtain ⟨b1, b2, _⟩ := resetX_ok sx.s.cfg sx.x env.enc now t (sx.latOf name) a1 (by rw [a2]; exact a3)
          exact ⟨hs.set ⟨b1, b2.trans a2, a3⟩, hn.set _ _⟩
      | updateMetadata now => exact updateMetadataX_inv sx env.enc now hs hn
      | add _ => simp [isRefresh] at hr
      | remove _ _ => simp [isRefresh] at hr
      | sync _ _ => simp [isRefresh] at hr
      | connect _ _ => simp [isRefresh] at hr
      | connectError _ _ _ => simp [isRefresh] at hr
      | update _ _ _ => simp [isRefresh] at hr

theorem runX_inv (env : Env) : ∀ (ops : List OpX) (sx : StateX), SInv sx.s → NamesUnique sx.s →
    (∀ op ∈ ops, op.valid) → SInv (sx.run env ops).s ∧ NamesUnique (sx.run env ops).s
  | [], _, hs, hn, _ => ⟨hs, hn⟩
  | op :: ops, sx, hs, hn, hv => by
    obtain ⟨a, b⟩ := stepX_inv env sx op hs hn (hv op (List.mem_cons_self ..))
    exact runX_inv env ops _ a b (fun o ho => hv o (List.mem_cons_of_mem _ ho))

theorem runX_x (env : Env) : ∀ (ops : List OpX) (sx : StateX), (sx.run env ops).x = sx.x
  | [], _ => rfl
  | op :: ops, sx => by
    simp only [StateX.run]
    rw [runX_x env ops, stepX_x]

theorem runX_cfg_step (env : Env) (sx : StateX) (op : OpX) : (sx.step env op).1.s.cfg = sx.s.cfg := by
  cases op with
  | updateSize => rfl
  | base op =>
    cases op with
    | add name => simp only [StateX.step, StateX.add, State.add]; exact set_cfg ..
    | remove name now => rfl
    | reset name now =>
      simp only [StateX.step, StateX.reset, StateX.onTarget]
      split
      · rfl
      · exact set_cfg ..
    | sync name now =>
      simp only [StateX.step, StateX.sync, StateX.onTarget]
      split
      · rfl
      · exact set_cfg ..
    | connect name now =>
      simp only [StateX.step, StateX.connect, StateX.onTarget]
      split
      · rfl
      · exact set_cfg ..
    | connectError name msg now =>
      simp only [StateX.step, StateX.connectError, StateX.onTarget]
      split
      · rfl
      · exact set_cfg ..
    | update now pn n =>
      simp only [StateX.step, StateX.gnmiUpdate]
      split
      · rfl
      · split
        · rfl
        · exact set_cfg ..
    | updateMetadata now =>
      simp only [StateX.step, StateX.updateMetadata]
      suffices ∀ (l : List (String × Target)) (acc : StateX × List Event), acc.1.s.cfg = sx.s.cfg →
          (l.foldl (fun acc kv =>
            match acc.1.s.get kv.1 with
            | none => acc
            | some t =>
              let r := t.updateMetaX sx.s.cfg sx.x env.enc now true (acc.1.latOf kv.1)
              ({ acc.1 with s := acc.1.s.set kv.1 r.1.1, lats := setLat acc.1.lats kv.1 r.2 }, acc.2 ++ r.1.2)) acc).1.s.cfg = sx.s.cfg
        from this _ _ rfl
      intro l
      induction l with
      | nil => intro acc h; exact h
      | cons kv l ih =>
        intro acc h
        simp only [List.foldl_cons]
        apply ih
        split
        · exact h
        · exact (set_cfg ..).trans h

theorem runX_cfg (env : Env) : ∀ (ops : List OpX) (sx : StateX), (sx.run env ops).s.cfg = sx.s.cfg
  | [], _ => rfl
  | op :: ops, sx => by
    simp only [StateX.run]
    rw [runX_cfg env ops, runX_cfg_step]

end Cache
end Gnmi
