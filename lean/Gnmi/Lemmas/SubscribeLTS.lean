import Gnmi.Model.SubscribeLTS
/-!
# The Subscribe LTS: local steps in relational form, and the lifting of per-subscriber invariants

`SubStep` lists the branches of `subFire` (one constructor per branch, the terminating
branches grouped under `fin` with their reason `FinWhy`).  `subFire_step` is the inversion
lemma all invariant proofs start from.  `reach_inv` lifts an invariant of
"shared state + one subscriber" to every reachable global configuration.
-/
namespace Gnmi
namespace SubLTS

section
variable {K V T R : Type} [DecidableEq K] [DecidableEq R]

/-- why an RPC returned with status `st` -/
inductive FinWhy (sys : Sys K T R) (rq : Req K T R) (sh : Shared K V T R) (b : Sub K V R) :
    SLabel K → Status → Prop where
  | unauth : b.pc = .h0 → rq.aclOk = false → FinWhy sys rq sh b .hs .unauthenticated
  | invalid : b.pc = .h1 → rq.valid = false → FinWhy sys rq sh b .hs .invalid
  | notFound (t : T) : b.pc = .h2 → rq.single = some t → sh.hasT t = false →
      FinWhy sys rq sh b .hs .notFound
  | denied (t : T) : b.pc = .h3 → rq.single = some t → rq.allow t = false →
      FinWhy sys rq sh b .hs .denied
  | badMode : b.pc = .h4 → rq.mode = .other → FinWhy sys rq sh b .hs .invalid
  | eof : b.status = none → rq.mode = .poll → b.walker = .done → FinWhy sys rq sh b .eof .ok
  | drained : b.snd = .idle → b.q = [] → b.closed = true → FinWhy sys rq sh b .drained .ok
  | dropEnd (i : Item K R) (d : Nat) (r : Resp K V R) (t : T) : b.snd = .got i d →
      mkResp sys sh d i = some (r, t) → rq.allow t = false → endsStream sys rq i = true →
      FinWhy sys rq sh b .build .ok
  | expire : b.armed = true → FinWhy sys rq sh b .expire .timeout
  | cancel : b.pc = .run → FinWhy sys rq sh b .cancel .cancelled

/-- the local steps of one subscriber, branch by branch -/
inductive SubStep (sys : Sys K T R) (rq : Req K T R) (sh : Shared K V T R) (b : Sub K V R) :
    SLabel K → Sub K V R → Prop where
  | fin (l : SLabel K) (st : Status) : FinWhy sys rq sh b l st → SubStep sys rq sh b l (b.finish st)
  | h0 : b.pc = .h0 → rq.aclOk = true → SubStep sys rq sh b .hs { b with pc := .h1 }
  | h1 : b.pc = .h1 → rq.valid = true → SubStep sys rq sh b .hs { b with pc := .h2 }
  | h2 : b.pc = .h2 → (∀ t, rq.single = some t → sh.hasT t = true) →
      SubStep sys rq sh b .hs { b with pc := .h3 }
  | h3 : b.pc = .h3 → (∀ t, rq.single = some t → rq.allow t = true) →
      SubStep sys rq sh b .hs { b with pc := .h4 }
  | h4poll : b.pc = .h4 → rq.mode ≠ .stream → rq.mode ≠ .other → SubStep sys rq sh b .hs { b with pc := .spawn }
  | h4stream : b.pc = .h4 → rq.mode = .stream → rq.updatesOnly = false →
      SubStep sys rq sh b .hs { b with pc := if sys.swap then .spawn else .reg }
  | h4sync : b.pc = .h4 → rq.mode = .stream → rq.updatesOnly = true →
      SubStep sys rq sh b .hs { b.ins .syncMarker with pc := if sys.swap then .spawn else .reg }
  | register : b.pc = .reg → (sys.swap = true → b.walker = .done) →
      SubStep sys rq sh b .hs
        { b with registered := true, pc := if sys.swap then .run else .spawn,
                 since := if b.walker = .idle then sh.keys.filter sh.present else b.since }
  | spawnUO : b.pc = .spawn → rq.mode = .stream → rq.updatesOnly = true →
      SubStep sys rq sh b .hs
        { b with walker := .done, snd := .idle, held := heldNow sh,
                 since := if b.registered then b.since else sh.keys.filter sh.present,
                 pc := if sys.swap = true ∧ rq.mode = .stream then .reg else .run }
  | spawn : b.pc = .spawn → ¬ (rq.mode = .stream ∧ rq.updatesOnly = true) →
      SubStep sys rq sh b .hs
        { (b.startWalk sh rq) with
                 snd := .idle, held := heldNow sh,
                 since := if b.registered then b.since else sh.keys.filter sh.present,
                 pc := if sys.swap = true ∧ rq.mode = .stream then .reg else .run }
  | visit (k : K) (todo vis : List K) : b.walker = .walking todo vis → b.status = none →
      rq.updatesOnly = false → sh.present k = true → rq.walks k = true → vis.count k ≤ rq.extra k →
      SubStep sys rq sh b (.visit k)
        { b.ins (.handle k (sh.gen k)) with walker := .walking (todo.filter (· ≠ k)) (k :: vis) }
  | finish (vis : List K) : b.walker = .walking [] vis → b.status = none →
      SubStep sys rq sh b .finish
        { b.ins .syncMarker with
            walker := .done,
            closed := (b.ins .syncMarker).closed || decide (rq.mode = .once) }
  | poll : b.status = none → rq.mode = .poll → b.walker = .done →
      SubStep sys rq sh b .poll { b.startWalk sh rq with since := sh.keys.filter sh.present }
  | next (i : Item K R) (d : Nat) (rest : List (Item K R × Nat)) : b.snd = .idle →
      b.q = (i, d) :: rest →
      SubStep sys rq sh b .next { b with q := rest, snd := .got i d, deliv := b.deliv ++ [(i, d)] }
  | buildSync (i : Item K R) (d : Nat) : b.snd = .got i d → mkResp sys sh d i = none →
      SubStep sys rq sh b .build { b with snd := .sendSync, armed := true }
  | buildArm (i : Item K R) (d : Nat) (r : Resp K V R) (t : T) : b.snd = .got i d →
      mkResp sys sh d i = some (r, t) → rq.allow t = true →
      SubStep sys rq sh b .build { b with snd := .sending r, armed := true }
  | buildDrop (i : Item K R) (d : Nat) (r : Resp K V R) (t : T) : b.snd = .got i d →
      mkResp sys sh d i = some (r, t) → rq.allow t = false → endsStream sys rq i = false →
      SubStep sys rq sh b .build { b with snd := .idle }
  | sentSync : b.blocked = false → b.snd = .sendSync →
      SubStep sys rq sh b .sent { b with snd := .idle, armed := false, sent := b.sent ++ [.sync] }
  | sentResp (r : Resp K V R) : b.blocked = false → b.snd = .sending r →
      endsStreamR sys rq r = false →
      SubStep sys rq sh b .sent { b with snd := .idle, armed := false, sent := b.sent ++ [r] }
  | sentEnd (r : Resp K V R) : b.blocked = false → b.snd = .sending r →
      endsStreamR sys rq r = true →
      SubStep sys rq sh b .sent
        (Sub.finish { b with snd := .idle, armed := false, sent := b.sent ++ [r] } .ok)
  | gateClose : SubStep sys rq sh b .gateClose { b with blocked := true }
  | gateOpen : SubStep sys rq sh b .gateOpen { b with blocked := false }

theorem hFire_step {sys : Sys K T R} {rq : Req K T R} {sh : Shared K V T R} {b b' : Sub K V R}
    (h : hFire sys rq sh b = some b') : SubStep sys rq sh b .hs b' := by
  unfold hFire at h
  split at h
  · next hpc =>
    injection h with h; subst h
    by_cases ha : rq.aclOk = true
    · rw [if_pos ha]; exact .h0 hpc ha
    · rw [if_neg ha]; exact .fin _ _ (.unauth hpc (by simpa using ha))
  · next hpc =>
    injection h with h; subst h
    by_cases ha : rq.valid = true
    · rw [if_pos ha]; exact .h1 hpc ha
    · rw [if_neg ha]; exact .fin _ _ (.invalid hpc (by simpa using ha))
  · next hpc =>
    injection h with h; subst h
    cases hs : rq.single with
    | none => exact .h2 hpc (by intro t ht; rw [hs] at ht; cases ht)
    | some t =>
      by_cases ha : sh.hasT t = true
      · simp only [ha, if_true]
        exact .h2 hpc (by intro t' ht; rw [hs] at ht; cases ht; exact ha)
      · simp only [ha]
        exact .fin _ _ (.notFound t hpc hs (by simpa using ha))
  · next hpc =>
    injection h with h; subst h
    cases hs : rq.single with
    | none => exact .h3 hpc (by intro t ht; rw [hs] at ht; cases ht)
    | some t =>
      by_cases ha : rq.allow t = true
      · simp only [ha, if_true]
        exact .h3 hpc (by intro t' ht; rw [hs] at ht; cases ht; exact ha)
      · simp only [ha]
        exact .fin _ _ (.denied t hpc hs (by simpa using ha))
  · next hpc =>
    injection h with h; subst h
    cases hm : rq.mode with
    | stream =>
      by_cases hu : rq.updatesOnly = true
      · simp only [hu, if_true]; exact .h4sync hpc hm hu
      · have hu' : rq.updatesOnly = false := by simpa using hu
        simp only [hu']; exact .h4stream hpc hm hu'
    | once => exact .h4poll hpc (by rw [hm]; intro h; cases h) (by rw [hm]; intro h; cases h)
    | poll => exact .h4poll hpc (by rw [hm]; intro h; cases h) (by rw [hm]; intro h; cases h)
    | other => exact .fin _ _ (.badMode hpc hm)
  · next hpc =>
    split at h
    · cases h
    · next hg =>
      injection h with h; subst h
      refine .register hpc ?_
      intro hsw
      by_cases hw : b.walker = .done
      · exact hw
      · exact absurd ⟨hsw, hw⟩ hg
  · next hpc =>
    injection h with h; subst h
    by_cases hu : rq.mode = .stream ∧ rq.updatesOnly = true
    · simp only [hu, and_self, if_true]
      have := SubStep.spawnUO (sys := sys) (sh := sh) hpc hu.1 hu.2
      simpa [hu.1] using this
    · simp only [hu, if_false]
      exact .spawn hpc hu
  · cases h
  · cases h

theorem subFire_step {sys : Sys K T R} {rq : Req K T R} {sh : Shared K V T R} {b b' : Sub K V R}
    {l : SLabel K} (h : subFire sys rq sh b l = some b') : SubStep sys rq sh b l b' := by
  cases l with
  | hs => exact hFire_step h
  | visit k =>
    simp only [subFire] at h
    split at h
    · next todo vis hw =>
      split at h
      · next hg =>
        injection h with h; subst h
        exact .visit k todo vis hw hg.1 hg.2.1 hg.2.2.1 hg.2.2.2.1 hg.2.2.2.2
      · cases h
    · cases h
  | finish =>
    simp only [subFire] at h
    split at h
    · next vis hw =>
      split at h
      · next hg => injection h with h; subst h; exact .finish vis hw hg
      · cases h
    · cases h
  | poll =>
    simp only [subFire] at h
    split at h
    · next hg => injection h with h; subst h; exact .poll hg.1 hg.2.1 hg.2.2
    · cases h
  | eof =>
    simp only [subFire] at h
    split at h
    · next hg => injection h with h; subst h; exact .fin _ _ (.eof hg.1 hg.2.1 hg.2.2)
    · cases h
  | next =>
    simp only [subFire] at h
    split at h
    · next i d rest hs hq => injection h with h; subst h; exact .next i d rest hs hq
    · cases h
  | drained =>
    simp only [subFire] at h
    split at h
    · next hs hq =>
      split at h
      · next hc => injection h with h; subst h; exact .fin _ _ (.drained hs hq hc)
      · cases h
    · cases h
  | build =>
    simp only [subFire] at h
    split at h
    · next i d hs =>
      split at h
      · next hm => injection h with h; subst h; exact .buildSync i d hs hm
      · next r t hm =>
        split at h
        · next ha => injection h with h; subst h; exact .buildArm i d r t hs hm ha
        · next ha =>
          have ha' : rq.allow t = false := by simpa using ha
          split at h
          · next he => injection h with h; subst h; exact .fin _ _ (.dropEnd i d r t hs hm ha' he)
          · next he =>
            injection h with h; subst h
            exact .buildDrop i d r t hs hm ha' (by simpa using he)
    · cases h
  | sent =>
    simp only [subFire] at h
    split at h
    · cases h
    · next hb =>
      have hb' : b.blocked = false := by simpa using hb
      split at h
      · next hs => injection h with h; subst h; exact .sentSync hb' hs
      · next r hs =>
        injection h with h; subst h
        by_cases he : endsStreamR sys rq r = true
        · rw [if_pos he]; exact .sentEnd r hb' hs he
        · rw [if_neg he]; exact .sentResp r hb' hs (by simpa using he)
      · cases h
  | expire =>
    simp only [subFire] at h
    split at h
    · next ha => injection h with h; subst h; exact .fin _ _ (.expire ha)
    · cases h
  | gateClose => simp only [subFire] at h; injection h with h; subst h; exact .gateClose
  | gateOpen => simp only [subFire] at h; injection h with h; subst h; exact .gateOpen
  | cancel =>
    simp only [subFire] at h
    split at h
    · next hp => injection h with h; subst h; exact .fin _ _ (.cancel hp)
    · cases h

end

/-! ## Lifting invariants of (shared state, one subscriber) to the global system -/

section
variable {K V T R : Type} [DecidableEq K] [DecidableEq R] [DecidableEq T] [Inhabited V]

/-- within one walk a key is visited at most once per matching subscription path -/
theorem visit_beyond_extra {K V T R : Type} [DecidableEq K] [DecidableEq R] (sys : Sys K T R) (rq : Req K T R)
    (sh : Shared K V T R) (b : Sub K V R) (k : K) (todo vis : List K)
    (hw : b.walker = .walking todo vis) (hk : rq.extra k < vis.count k) :
    subFire sys rq sh b (.visit k) = none := by
  simp only [subFire, hw]
  rw [if_neg]
  rintro ⟨_, _, _, _, h⟩
  omega

/-- a key not visited yet may be visited (whatever `Req.extra` says) -/
theorem count_le_extra_of_not_mem {α : Type} [DecidableEq α] {a : α} {l : List α} (h : a ∉ l) (n : Nat) :
    l.count a ≤ n := by
  rw [List.count_eq_zero_of_not_mem h]; exact Nat.zero_le _

theorem setFn_same {α β : Type} [DecidableEq α] (f : α → β) (a : α) (b : β) : setFn f a b a = b := by
  simp [setFn]

theorem setFn_other {α β : Type} [DecidableEq α] (f : α → β) {a x : α} (b : β) (h : x ≠ a) :
    setFn f a b x = f x := by
  simp [setFn, h]

/-- an invariant `Q` of the shared state and an invariant `P` of (shared state, subscriber `s`),
each preserved by the steps that can change it, hold in every reachable configuration -/
theorem reach_inv (sys : Sys K T R) (Q : Shared K V T R → Prop)
    (P : Nat → Shared K V T R → Sub K V R → Prop)
    (q0 : Q (Cfg.init : Cfg K V T R).sh) (p0 : ∀ s, P s (Cfg.init : Cfg K V T R).sh {})
    (qs : ∀ sh l sh', Q sh → shFire sys sh l = some sh' → Q sh')
    (ps : ∀ s sh l sh' b, Q sh → P s sh b → shFire sys sh l = some sh' →
      P s sh' (b.onShared sys (sys.req s) l))
    (pl : ∀ s sh b l b', Q sh → P s sh b → SubStep sys (sys.req s) sh b l b' → P s sh b')
    {c : Cfg K V T R} (h : Reach sys c) : Q c.sh ∧ ∀ s, P s c.sh (c.subs s) := by
  induction h with
  | init => exact ⟨q0, p0⟩
  | step _ hs ih =>
    cases hs with
    | shared l sh' h1 => exact ⟨qs _ l sh' ih.1 h1, fun s => ps s _ l sh' _ ih.1 (ih.2 s) h1⟩
    | sub s l b' h1 =>
      refine ⟨ih.1, fun s' => ?_⟩
      by_cases he : s' = s
      · subst he
        show P s' _ (setFn _ s' b' s')
        rw [setFn_same]
        exact pl s' _ _ l b' ih.1 (ih.2 s') (subFire_step h1)
      · show P s' _ (setFn _ s b' s')
        rw [setFn_other _ _ he]
        exact ih.2 s'

end
end SubLTS
end Gnmi
